import JominiModel.Model.TextTape
import JominiModel.Spec.TextTape
/-
C06 (text half): the executable checker `wfTextTape` is exactly the declarative `WfTextTape`.
-/
namespace Jomini.TextTape
open Jomini

def StartLink (toks : List Tok) : Prop :=
  ∀ i e, IsStart toks i e → i < e ∧ toks[e]? = some (.endTok i)

def EndLink (toks : List Tok) : Prop :=
  ∀ i j, toks[i]? = some (.endTok j) → 0 < j ∧ j < i ∧ IsStart toks j i

theorem IsStart.unique {toks : List Tok} {j e e' : Nat} (h : IsStart toks j e) (h' : IsStart toks j e') : e = e' := by
  obtain ⟨m, h⟩ := h
  obtain ⟨m', h'⟩ := h'
  rcases h with h | h <;> rcases h' with h' | h' <;> rw [h] at h' <;> simp at h' <;> exact h'.1

/-! ### links -/

theorem linkOkAt_iff (toks : List Tok) (i : Nat) (t : Tok) :
    linkOkAt toks i t = true ↔
      (∀ e m, (t = .array e m ∨ t = .object e m) → i < e ∧ toks[e]? = some (.endTok i)) ∧
      (∀ j, t = .endTok j → 0 < j ∧ j < i ∧ IsStart toks j i) := by
  cases t with
  | array e m => simp [linkOkAt]
  | object e m => simp [linkOkAt]
  | endTok j =>
    simp only [linkOkAt, IsStart]
    constructor
    · intro h
      simp only [Bool.and_eq_true, decide_eq_true_eq] at h
      refine ⟨by simp, ?_⟩
      intro j' hj'
      cases hj'
      refine ⟨h.1.1, h.1.2, ?_⟩
      revert h
      cases hj : toks[j]? with
      | none => simp
      | some tk =>
        cases tk <;> simp
    · intro ⟨_, h⟩
      obtain ⟨h1, h2, m, h3⟩ := h j rfl
      simp only [Bool.and_eq_true, decide_eq_true_eq]
      refine ⟨⟨h1, h2⟩, ?_⟩
      rcases h3 with h3 | h3 <;> simp [h3]
  | _ => simp [linkOkAt]

theorem linksOkFrom_iff (toks : List Tok) : ∀ (ts : List Tok) (i : Nat),
    linksOkFrom toks ts i = true ↔ ∀ k t, ts[k]? = some t → linkOkAt toks (i + k) t = true
  | [], i => by simp [linksOkFrom]
  | t :: ts, i => by
    simp only [linksOkFrom, Bool.and_eq_true, linksOkFrom_iff toks ts (i + 1)]
    constructor
    · intro ⟨h0, h⟩ k t' hk
      cases k with
      | zero => simp at hk; subst hk; simpa using h0
      | succ k =>
        simp at hk
        have := h k t' hk
        rwa [show i + 1 + k = i + (k + 1) by omega] at this
    · intro h
      refine ⟨by simpa using h 0 t (by simp), ?_⟩
      intro k t' hk
      have := h (k + 1) t' (by simpa using hk)
      rwa [show i + (k + 1) = i + 1 + k by omega] at this

theorem linksOk_iff (toks : List Tok) : linksOk toks = true ↔ StartLink toks ∧ EndLink toks := by
  simp only [linksOk, linksOkFrom_iff, Nat.zero_add, linkOkAt_iff]
  constructor
  · intro h
    constructor
    · intro i e ⟨m, hm⟩
      rcases hm with hm | hm
      · exact (h i _ hm).1 e m (.inl rfl)
      · exact (h i _ hm).1 e m (.inr rfl)
    · intro i j hj
      exact (h i _ hj).2 j rfl
  · intro ⟨hs, he⟩ k t hk
    constructor
    · intro e m hm
      apply hs k e
      rcases hm with hm | hm
      · exact ⟨m, .inl (hm ▸ hk)⟩
      · exact ⟨m, .inr (hm ▸ hk)⟩
    · intro j hj
      exact he k j (hj ▸ hk)

/-! ### scalars -/

theorem scalarsOkFrom_iff (input : Bytes) : ∀ (ts : List Tok) (prev : Option Nat),
    scalarsOkFrom input ts prev = true ↔
      (∀ s ∈ slices ts, s.tail ≤ input.length ∧ s.bytes.length ≤ s.tail ∧
          s.bytes = (input.drop (s.off input.length)).take s.bytes.length) ∧
      (∀ p, prev = some p → ∀ s ∈ slices ts, s.tail < p) ∧
      (slices ts).Pairwise (fun s t => t.tail < s.tail)
  | [], prev => by simp [scalarsOkFrom, slices]
  | t :: ts, prev => by
    cases hsl : t.slice? with
    | none =>
      have : slices (t :: ts) = slices ts := by simp [slices, hsl]
      simp only [scalarsOkFrom, hsl, this]
      exact scalarsOkFrom_iff input ts prev
    | some s =>
      have : slices (t :: ts) = s :: slices ts := by simp [slices, hsl]
      simp only [scalarsOkFrom, hsl, this, Bool.and_eq_true, decide_eq_true_eq,
        scalarsOkFrom_iff input ts (some s.tail), List.mem_cons, List.pairwise_cons, Slice.off, beq_iff_eq]
      constructor
      · rintro ⟨⟨⟨⟨h1, h2⟩, h3⟩, h4⟩, h5, h6, h7⟩
        refine ⟨?_, ?_, ?_, h7⟩
        · rintro x (rfl | hx)
          · exact ⟨h1, h2, h3⟩
          · exact h5 x hx
        · rintro p rfl x (rfl | hx)
          · simpa using h4
          · have := h6 _ rfl x hx; simp at h4; omega
        · intro x hx; exact h6 _ rfl x hx
      · rintro ⟨h5, h6, h7, h8⟩
        refine ⟨⟨⟨?_, ?_⟩, ?_⟩, ?_, ?_, h8⟩
        · exact ⟨(h5 s (.inl rfl)).1, (h5 s (.inl rfl)).2.1⟩
        · exact (h5 s (.inl rfl)).2.2
        · cases prev with
          | none => rfl
          | some p => simpa using h6 p rfl s (.inl rfl)
        · intro x hx; exact h5 x (.inr hx)
        · rintro p hp x hx; cases hp; exact h7 x hx

/-! ### nesting: the stack pass -/

/-- the stack of the pass at position `i`: exactly the containers opened before `i` and not
closed before `i`, innermost first. -/
def OpenAt (toks : List Tok) (i : Nat) (S : List Nat) : Prop :=
  S.Pairwise (fun a b => b < a) ∧ ∀ j, j ∈ S ↔ (j < i ∧ ∃ e, IsStart toks j e ∧ i ≤ e)

/-- every `End` at a position `≥ from_` closes the most recent container still open. -/
def EndsNested (toks : List Tok) (from_ : Nat) : Prop :=
  ∀ x j k e, from_ ≤ x → toks[x]? = some (.endTok j) → j < k → k < x → IsStart toks k e → e < x

theorem EndsNested_succ (toks : List Tok) (i : Nat) :
    EndsNested toks i ↔
      (∀ j k e, toks[i]? = some (.endTok j) → j < k → k < i → IsStart toks k e → e < i) ∧
      EndsNested toks (i + 1) := by
  constructor
  · intro h
    exact ⟨fun j k e => h i j k e (Nat.le_refl _), fun x j k e hx => h x j k e (by omega)⟩
  · intro ⟨h0, h⟩ x j k e hx
    by_cases hxi : x = i
    · subst hxi; exact h0 j k e
    · exact h x j k e (by omega)

def Tok.isStartTok : Tok → Bool
  | .array _ _ | .object _ _ => true
  | _ => false

def Tok.isEndTok : Tok → Bool
  | .endTok _ => true
  | _ => false

theorem isStart_of_tok {toks : List Tok} {i : Nat} {t : Tok} (ht : toks[i]? = some t)
    (hst : t.isStartTok = true) : ∃ e, IsStart toks i e := by
  cases t <;> simp [Tok.isStartTok] at hst
  · exact ⟨_, _, .inl ht⟩
  · exact ⟨_, _, .inr ht⟩

theorem tok_of_isStart {toks : List Tok} {i e : Nat} {t : Tok} (ht : toks[i]? = some t)
    (h : IsStart toks i e) : t.isStartTok = true := by
  obtain ⟨m, h | h⟩ := h <;> rw [ht] at h <;> simp at h <;> subst h <;> rfl

/-- pushing the position of a container start keeps the stack description. -/
theorem OpenAt_push {toks : List Tok} (hs : StartLink toks) {i : Nat} {S : List Nat} {t : Tok}
    (ht : toks[i]? = some t) (hst : t.isStartTok = true) (h : OpenAt toks i S) :
    OpenAt toks (i + 1) (i :: S) := by
  obtain ⟨hp, hm⟩ := h
  obtain ⟨e, he⟩ := isStart_of_tok ht hst
  refine ⟨?_, ?_⟩
  · rw [List.pairwise_cons]
    exact ⟨fun j hj => ((hm j).1 hj).1, hp⟩
  · intro j
    rw [List.mem_cons]
    constructor
    · rintro (rfl | hj)
      · exact ⟨by omega, e, he, by have := (hs _ e he).1; omega⟩
      · obtain ⟨h1, e', h2, h3⟩ := (hm j).1 hj
        refine ⟨by omega, e', h2, ?_⟩
        -- e' ≠ i because toks[e'] is an End and toks[i] is a start
        have h4 := (hs j e' h2).2
        by_cases hei : e' = i
        · subst hei; rw [ht] at h4; simp at h4; subst h4; simp [Tok.isStartTok] at hst
        · omega
    · rintro ⟨h1, e', h2, h3⟩
      by_cases hji : j = i
      · exact .inl hji
      · exact .inr ((hm j).2 ⟨by omega, e', h2, by omega⟩)

/-- a token that is neither start nor end leaves the stack description unchanged. -/
theorem OpenAt_other {toks : List Tok} (hs : StartLink toks) {i : Nat} {S : List Nat} {t : Tok}
    (ht : toks[i]? = some t) (hst : t.isStartTok = false) (hen : t.isEndTok = false)
    (h : OpenAt toks i S) : OpenAt toks (i + 1) S := by
  obtain ⟨hp, hm⟩ := h
  refine ⟨hp, ?_⟩
  intro j
  rw [hm j]
  constructor
  · rintro ⟨h1, e', h2, h3⟩
    refine ⟨by omega, e', h2, ?_⟩
    have h4 := (hs j e' h2).2
    by_cases hei : e' = i
    · subst hei; rw [ht] at h4; simp at h4; subst h4; simp [Tok.isEndTok] at hen
    · omega
  · rintro ⟨h1, e', h2, h3⟩
    have : j ≠ i := by
      intro hji; subst hji
      have := tok_of_isStart ht h2
      simp [this] at hst
    exact ⟨by omega, e', h2, by omega⟩

/-- at an `End j` the stack is non-empty, and popping is right exactly when `j` is on top. -/
theorem OpenAt_pop {toks : List Tok} (hs : StartLink toks) (he : EndLink toks) {i j : Nat} {S : List Nat}
    (ht : toks[i]? = some (.endTok j)) (h : OpenAt toks i S) :
    ∃ top S', S = top :: S' ∧
      ((top = j) ↔ (∀ k e, j < k → k < i → IsStart toks k e → e < i)) ∧
      (top = j → OpenAt toks (i + 1) S') := by
  obtain ⟨hp, hm⟩ := h
  obtain ⟨hj0, hji, hjs⟩ := he i j ht
  have hjS : j ∈ S := (hm j).2 ⟨hji, i, hjs, Nat.le_refl _⟩
  cases S with
  | nil => simp at hjS
  | cons top S' =>
    refine ⟨top, S', rfl, ?_, ?_⟩
    · rw [List.pairwise_cons] at hp
      constructor
      · rintro rfl k e hk1 hk2 hk
        -- k open at i would be on the stack, below the top
        by_cases hle : i ≤ e
        · have hkS : k ∈ top :: S' := (hm k).2 ⟨hk2, e, hk, hle⟩
          rcases List.mem_cons.1 hkS with rfl | hkS
          · omega
          · have := hp.1 k hkS; omega
        · omega
      · intro hall
        have htop := (hm top).1 (List.mem_cons_self ..)
        obtain ⟨h1, e, h2, h3⟩ := htop
        rcases List.mem_cons.1 hjS with rfl | hjS'
        · rfl
        · have hlt := hp.1 j hjS'
          have := hall top e hlt h1 h2
          omega
    · rintro rfl
      rw [List.pairwise_cons] at hp
      refine ⟨hp.2, ?_⟩
      intro k
      constructor
      · intro hk
        obtain ⟨h1, e, h2, h3⟩ := (hm k).1 (List.mem_cons_of_mem _ hk)
        refine ⟨by omega, e, h2, ?_⟩
        by_cases hei : e = i
        · subst hei
          have h4 := (hs k e h2).2
          rw [ht] at h4; simp at h4
          have := hp.1 k hk; omega
        · omega
      · rintro ⟨h1, e, h2, h3⟩
        have hk : k ∈ top :: S' := (hm k).2 ⟨by
          by_cases hki : k = i
          · subst hki
            have := tok_of_isStart ht h2
            simp [Tok.isStartTok] at this
          · omega, e, h2, by omega⟩
        rcases List.mem_cons.1 hk with rfl | hk
        · have := IsStart.unique h2 hjs; omega
        · exact hk

theorem nestOkFrom_start (t : Tok) (ts : List Tok) (i : Nat) (S : List Nat) (h : t.isStartTok = true) :
    nestOkFrom (t :: ts) i S = nestOkFrom ts (i + 1) (i :: S) := by
  cases t <;> simp [Tok.isStartTok] at h <;> rfl

theorem nestOkFrom_other (t : Tok) (ts : List Tok) (i : Nat) (S : List Nat)
    (h : t.isStartTok = false) (h' : t.isEndTok = false) :
    nestOkFrom (t :: ts) i S = nestOkFrom ts (i + 1) S := by
  cases t <;> simp [Tok.isStartTok, Tok.isEndTok] at h h' <;> rfl

theorem nestOkFrom_iff (toks : List Tok) (hs : StartLink toks) (he : EndLink toks) :
    ∀ (ts pre : List Tok), toks = pre ++ ts → ∀ S, OpenAt toks pre.length S →
      (nestOkFrom ts pre.length S = true ↔ EndsNested toks pre.length)
  | [], pre, hpre, S, hS => by
    have hnil : S = [] := by
      apply List.eq_nil_iff_forall_not_mem.2
      intro j hj
      obtain ⟨_, e, h2, h3⟩ := (hS.2 j).1 hj
      have h4 := (hs j e h2).2
      have : e < toks.length := by
        rcases Nat.lt_or_ge e toks.length with h | h
        · exact h
        · rw [List.getElem?_eq_none h] at h4; simp at h4
      simp [hpre] at this; omega
    subst hnil
    simp only [nestOkFrom, List.isEmpty_nil, true_iff]
    intro x j k e hx hxe
    have : toks.length ≤ x := by simp [hpre]; omega
    rw [List.getElem?_eq_none this] at hxe; simp at hxe
  | t :: ts, pre, hpre, S, hS => by
    have ht : toks[pre.length]? = some t := by simp [hpre]
    have hpre' : toks = (pre ++ [t]) ++ ts := by simp [hpre]
    have hlen : (pre ++ [t]).length = pre.length + 1 := by simp
    rw [EndsNested_succ]
    by_cases hst : t.isStartTok = true
    · rw [nestOkFrom_start t ts _ S hst]
      have hS' := OpenAt_push hs ht hst hS
      have ih := nestOkFrom_iff toks hs he ts (pre ++ [t]) hpre' (pre.length :: S) (by rw [hlen]; exact hS')
      rw [hlen] at ih
      rw [ih]
      constructor
      · intro h
        refine ⟨?_, h⟩
        intro j k e hj
        rw [ht] at hj; simp at hj; subst hj; simp [Tok.isStartTok] at hst
      · exact fun h => h.2
    · simp only [Bool.not_eq_true] at hst
      by_cases hen : t.isEndTok = true
      · obtain ⟨j, rfl⟩ : ∃ j, t = .endTok j := by
          cases t <;> simp [Tok.isEndTok] at hen; exact ⟨_, rfl⟩
        obtain ⟨top, S', rfl, htop, hS'⟩ := OpenAt_pop hs he ht hS
        simp only [nestOkFrom, Bool.and_eq_true, beq_iff_eq]
        constructor
        · rintro ⟨rfl, hrest⟩
          have ih := nestOkFrom_iff toks hs he ts (pre ++ [.endTok top]) hpre' S' (by rw [hlen]; exact hS' rfl)
          rw [hlen] at ih
          refine ⟨?_, ih.1 hrest⟩
          intro j' k e hj'
          rw [ht] at hj'; simp at hj'; subst hj'
          exact htop.1 rfl k e
        · rintro ⟨h0, hrest⟩
          have hj : top = j := htop.2 (fun k e => h0 j k e ht)
          subst hj
          have ih := nestOkFrom_iff toks hs he ts (pre ++ [.endTok top]) hpre' S' (by rw [hlen]; exact hS' rfl)
          rw [hlen] at ih
          exact ⟨rfl, ih.2 hrest⟩
      · simp only [Bool.not_eq_true] at hen
        rw [nestOkFrom_other t ts _ S hst hen]
        have hS' := OpenAt_other hs ht hst hen hS
        have ih := nestOkFrom_iff toks hs he ts (pre ++ [t]) hpre' S (by rw [hlen]; exact hS')
        rw [hlen] at ih
        rw [ih]
        constructor
        · intro h
          refine ⟨?_, h⟩
          intro j k e hj
          rw [ht] at hj; simp at hj; subst hj; simp [Tok.isEndTok] at hen
        · exact fun h => h.2

theorem OpenAt_zero (toks : List Tok) : OpenAt toks 0 [] := by
  refine ⟨List.Pairwise.nil, ?_⟩
  intro j; simp

/-- under the links, the stack pass succeeds exactly when no two container intervals cross. -/
theorem nestOk_iff (toks : List Tok) (hs : StartLink toks) (he : EndLink toks) :
    nestOk toks = true ↔
      ∀ i e i' e', IsStart toks i e → IsStart toks i' e' → i < i' → i' < e → e' < e := by
  have := nestOkFrom_iff toks hs he toks [] (by simp) [] (by simpa using OpenAt_zero toks)
  simp only [List.length_nil] at this
  rw [nestOk, this]
  constructor
  · intro h i e i' e' hi hi' h1 h2
    exact h e i i' e' (Nat.zero_le _) (hs i e hi).2 h1 h2 hi'
  · intro h x j k e _ hx h1 h2 hk
    exact h j x k e (he x j hx).2.2 hk h1 h2

/-! ### the checker is the predicate -/

theorem wfTextTape_iff (input : Bytes) (toks : List Tok) :
    wfTextTape input toks = true ↔ WfTextTape input toks := by
  simp only [wfTextTape, Bool.and_eq_true]
  constructor
  · rintro ⟨⟨hl, hn⟩, hsc⟩
    obtain ⟨hs, he⟩ := (linksOk_iff toks).1 hl
    obtain ⟨h1, _, h3⟩ := (scalarsOkFrom_iff input toks none).1 hsc
    refine ⟨hs, he, (nestOk_iff toks hs he).1 hn, h1, ?_⟩
    -- decreasing distance to the end = increasing offset (all tails are ≤ |input|)
    have hall : ∀ s ∈ slices toks, s.tail ≤ input.length := fun s hs => (h1 s hs).1
    revert hall h3
    generalize slices toks = l
    intro h3 hall
    induction h3 with
    | nil => exact .nil
    | cons hx _ ih =>
      refine .cons ?_ (ih (fun s hs => hall s (List.mem_cons_of_mem _ hs)))
      intro t ht
      have h1 := hall _ (List.mem_cons_self ..)
      have h2 := hall t (List.mem_cons_of_mem _ ht)
      have := hx t ht
      simp only [Slice.off]; omega
  · intro h
    have hl := (linksOk_iff toks).2 ⟨h.start_link, h.end_link⟩
    refine ⟨⟨hl, (nestOk_iff toks h.start_link h.end_link).2 h.nested⟩, ?_⟩
    refine (scalarsOkFrom_iff input toks none).2 ⟨h.scalars_inside, by simp, ?_⟩
    have hall : ∀ s ∈ slices toks, s.tail ≤ input.length := fun s hs => (h.scalars_inside s hs).1
    have h3 := h.scalars_increasing
    revert hall h3
    generalize slices toks = l
    intro hall h3
    induction h3 with
    | nil => exact .nil
    | cons hx _ ih =>
      refine .cons ?_ (ih (fun s hs => hall s (List.mem_cons_of_mem _ hs)))
      intro t ht
      have h1 := hall _ (List.mem_cons_self ..)
      have h2 := hall t (List.mem_cons_of_mem _ ht)
      have := hx t ht
      simp only [Slice.off] at this; omega

/-- C06 (text half), first claim: the executable checker run by `wftext` is the predicate. -/
theorem C06_text_checker_sound (input : Bytes) (toks : List Tok) :
    wfTextTape input toks = true ↔ WfTextTape input toks :=
  wfTextTape_iff input toks

/-- `a={b}`: tokens U(a) A(3) U(b) E(1) over the 5 input bytes. -/
example : WfTextTape [97, 61, 123, 98, 125]
    [.unquoted ⟨5, [97]⟩, .array 3 false, .unquoted ⟨2, [98]⟩, .endTok 1] :=
  (C06_text_checker_sound _ _).1 (by decide +kernel)

end Jomini.TextTape
