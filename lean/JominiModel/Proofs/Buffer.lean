import JominiModel.Model.Buffer
/-
`Buffer_refines`: the concrete `BufferWindow` model refines the abstract view
"position + window contents + undelivered bytes".
-/
namespace Jomini

namespace Src

theorem min_zero_cases {a b : Nat} (h : min a b = 0) : a = 0 ∨ b = 0 := by
  simp only [Nat.min_def] at h
  split at h <;> omega

/-- delivering bytes, in terms of the undelivered rest -/
theorem deliver_spec (s : Src) (sched' : List Step) (want : Option Nat) (space : Nat)
    (hwant : ∀ w, want = some w → 1 ≤ w) :
    ∃ n s', s.deliver sched' want space = (.ok (s.rest.take n), s') ∧ n ≤ space ∧ n ≤ s.rest.length ∧
      s'.rest = s.rest.drop n ∧ s'.delivered = s.delivered + n ∧ s'.sched = sched' ∧
      (n = 0 → space = 0 ∨ s.rest = []) := by
  cases want with
  | none =>
    refine ⟨min space s.rest.length, _, rfl, Nat.min_le_left _ _, Nat.min_le_right _ _, rfl, rfl, rfl, ?_⟩
    intro h0
    rcases min_zero_cases h0 with h | h
    · exact Or.inl h
    · exact Or.inr (List.eq_nil_of_length_eq_zero h)
  | some w =>
    refine ⟨min (min w space) s.rest.length, _, rfl, ?_, Nat.min_le_right _ _, rfl, rfl, rfl, ?_⟩
    · exact Nat.le_trans (Nat.min_le_left _ _) (Nat.min_le_right _ _)
    · intro h0
      have hw := hwant w rfl
      rcases min_zero_cases h0 with h | h
      · rcases min_zero_cases h with h | h
        · omega
        · exact Or.inl h
      · exact Or.inr (List.eq_nil_of_length_eq_zero h)

/-- what one `read` call does, in terms of the undelivered bytes -/
theorem read_cases (s : Src) (space : Nat) (hwf : WfSched s.sched) :
    (∃ n s', s.read space = (.ok (s.rest.take n), s') ∧ n ≤ space ∧ n ≤ s.rest.length ∧
      s'.rest = s.rest.drop n ∧ s'.delivered = s.delivered + n ∧ WfSched s'.sched ∧
      (n = 0 → space = 0 ∨ s.rest = [])) ∨
    (∃ s', s.read space = (.err, s') ∧ s'.rest = s.rest ∧ s'.delivered = s.delivered ∧
      WfSched s'.sched) := by
  unfold read
  cases hs : s.sched with
  | nil =>
    left
    obtain ⟨n, s', h1, h2, h3, h4, h5, h6, h7⟩ := deliver_spec s [] none space (by simp)
    exact ⟨n, s', h1, h2, h3, h4, h5, by rw [h6]; simp [WfSched], h7⟩
  | cons st tl =>
    rw [hs] at hwf
    cases st with
    | give n =>
      left
      simp only [WfSched] at hwf
      obtain ⟨k, s', h1, h2, h3, h4, h5, h6, h7⟩ := deliver_spec s tl (some n) space (by simp; omega)
      exact ⟨k, s', h1, h2, h3, h4, h5, by rw [h6]; exact hwf.2, h7⟩
    | «repeat» n =>
      left
      obtain ⟨k, s', h1, h2, h3, h4, h5, h6, h7⟩ :=
        deliver_spec s (.repeat n :: tl) (some n) space (by simp only [WfSched] at hwf; simp; omega)
      exact ⟨k, s', h1, h2, h3, h4, h5, by rw [h6]; exact hwf, h7⟩
    | fail =>
      right
      exact ⟨_, rfl, rfl, rfl, by simpa [WfSched] using hwf⟩
    | failForever =>
      right
      exact ⟨_, rfl, rfl, rfl, by simpa [WfSched] using hwf⟩

end Src

namespace Buf

/-- the refinement invariant.  Builder mode: `cap = mem.length`, so this reads
`start ≤ end ≤ cap`; slice mode: `cap = 0` and the memory is the borrowed slice. -/
structure Inv (b : Buf) (src : Src) (data : Bytes) : Prop where
  se : b.start ≤ b.end_
  em : b.end_ ≤ b.mem.length
  mode : b.cap = b.mem.length ∨ b.cap = 0
  view : b.window ++ src.rest = data.drop b.position

theorem window_length {b : Buf} (h1 : b.start ≤ b.end_) (h2 : b.end_ ≤ b.mem.length) :
    b.window.length = b.windowLen := by
  simp only [window, windowLen, List.length_take, List.length_drop]
  omega

theorem copyWithin_length (mem : Bytes) (k : Nat) (hk : k ≤ mem.length) :
    (copyWithin mem k).length = mem.length := by
  simp only [copyWithin, List.length_append, List.length_drop]
  omega

theorem writeAt_length (mem : Bytes) (k : Nat) (bytes : Bytes) (hk : k + bytes.length ≤ mem.length) :
    (writeAt mem k bytes).length = mem.length := by
  simp only [writeAt, List.length_append, List.length_take, List.length_drop]
  omega

theorem writeAt_take (mem : Bytes) (k : Nat) (bytes : Bytes) (hk : k ≤ mem.length) :
    (writeAt mem k bytes).take (k + bytes.length) = mem.take k ++ bytes := by
  have hl : (mem.take k ++ bytes).length = k + bytes.length := by
    simp only [List.length_append, List.length_take]; omega
  simp only [writeAt]
  rw [← hl, List.take_left']
  rfl

/-- the compacted memory starts with the old window -/
theorem compact_take (b : Buf) (h1 : b.start ≤ b.end_) (h2 : b.end_ ≤ b.mem.length) :
    (if b.windowLen ≠ 0 then copyWithin b.mem b.consumedData else b.mem).take b.windowLen = b.window := by
  by_cases h : b.windowLen ≠ 0
  · rw [if_pos h]
    simp only [window, windowLen, consumedData, copyWithin] at *
    rw [List.take_append_of_le_length]
    simp only [List.length_drop]; omega
  · rw [if_neg h]
    have : b.windowLen = 0 := by omega
    simp [window, this]

theorem compact_length (b : Buf) (h1 : b.start ≤ b.end_) (h2 : b.end_ ≤ b.mem.length) :
    (if b.windowLen ≠ 0 then copyWithin b.mem b.consumedData else b.mem).length = b.mem.length := by
  split
  · exact copyWithin_length _ _ (by simp only [consumedData]; omega)
  · rfl

/-- `fill_buf`, all outcomes.  In every case the invariant is re-established and `position`
is unchanged; a successful fill appends the delivered bytes to the window; a failed read
changes neither the window contents nor the undelivered bytes. -/
theorem fillBuf_cases (b : Buf) (src : Src) (data : Bytes) (h : Inv b src data)
    (hwf : Src.WfSched src.sched) :
    (b.cap = 0 ∧ b.fillBuf src = (.ok 0, b, src)) ∨
    (0 < b.cap ∧ b.cap ≤ b.windowLen ∧ b.fillBuf src = (.error .bufferFull, b, src)) ∨
    (0 < b.cap ∧ b.windowLen < b.cap ∧ ∃ n b' src', b.fillBuf src = (.ok n, b', src') ∧
      Inv b' src' data ∧ b'.position = b.position ∧ b'.cap = b.cap ∧
      b'.window = b.window ++ src.rest.take n ∧ b'.windowLen = b.windowLen + n ∧
      src'.rest = src.rest.drop n ∧ n ≤ src.rest.length ∧
      src'.delivered = src.delivered + n ∧ Src.WfSched src'.sched ∧ (n = 0 → src.rest = [])) ∨
    (0 < b.cap ∧ b.windowLen < b.cap ∧ ∃ b' src', b.fillBuf src = (.error .io, b', src') ∧
      Inv b' src' data ∧ b'.position = b.position ∧ b'.cap = b.cap ∧ b'.window = b.window ∧
      b'.windowLen = b.windowLen ∧
      src'.rest = src.rest ∧ src'.delivered = src.delivered ∧ Src.WfSched src'.sched) := by
  obtain ⟨hse, hem, hmode, hview⟩ := h
  simp only [fillBuf]
  by_cases hc0 : b.cap = 0
  · left
    rw [if_pos hc0]
    exact ⟨hc0, rfl⟩
  · right
    have hcpos : 0 < b.cap := by omega
    rw [if_neg hc0]
    by_cases hfull : b.windowLen ≥ b.cap
    · left
      rw [if_pos hfull]
      exact ⟨hcpos, hfull, rfl⟩
    · right
      rw [if_neg hfull]
      have hlt : b.windowLen < b.cap := by omega
      have hcap : b.cap = b.mem.length := by
        rcases hmode with h | h
        · exact h
        · exact absurd h hc0
      have hlen1 := compact_length b hse hem
      have htake1 := compact_take b hse hem
      generalize (if b.windowLen ≠ 0 then copyWithin b.mem b.consumedData else b.mem) = mem1 at *
      have hcw : b.windowLen ≤ mem1.length := by omega
      rcases Src.read_cases src (b.cap - b.windowLen) hwf with
        ⟨n, src', hread, hn1, hn2, hr, hd, hw, hz⟩ | ⟨src', hread, hr, hd, hw⟩
      · left
        have hbl : (src.rest.take n).length = n := by rw [List.length_take]; omega
        rw [hread]
        simp only [hbl]
        have hwin : (Buf.mk (writeAt mem1 b.windowLen (src.rest.take n)) b.cap 0 (b.windowLen + n)
              (b.priorReads + b.consumedData)).window = b.window ++ src.rest.take n := by
          simp only [window, windowLen, List.drop_zero, Nat.sub_zero]
          have := writeAt_take mem1 (b.end_ - b.start) (src.rest.take n) (by simp only [windowLen] at hcw; exact hcw)
          rw [hbl] at this
          simp only [windowLen] at htake1
          rw [this, htake1]
          rfl
        refine ⟨hcpos, hlt, n, _, src', rfl, ⟨Nat.zero_le _, ?_, Or.inl ?_, ?_⟩, ?_, rfl, hwin, ?_, hr, hn2, hd, hw, ?_⟩
        · simp only
          rw [writeAt_length _ _ _ (by omega)]
          omega
        · simp only
          rw [writeAt_length _ _ _ (by omega)]
          omega
        · rw [hwin]
          simp only [position, consumedData, Nat.add_zero] at *
          rw [← hview, hr, List.append_assoc, List.take_append_drop]
        · simp [position, consumedData]
        · simp [windowLen]
        · intro h0
          rcases hz h0 with h | h
          · omega
          · exact h
      · right
        rw [hread]
        have hwin : (Buf.mk mem1 b.cap 0 b.windowLen (b.priorReads + b.consumedData)).window = b.window := by
          simp only [window, windowLen, List.drop_zero, Nat.sub_zero]
          simp only [windowLen] at htake1
          rw [htake1]
          rfl
        refine ⟨hcpos, hlt, _, src', rfl, ⟨Nat.zero_le _, ?_, Or.inl ?_, ?_⟩, ?_, rfl, hwin, ?_, hr, hd, hw⟩
        · simp only; omega
        · simp only; omega
        · rw [hwin, hr]
          simpa [position, consumedData] using hview
        · simp [position, consumedData]
        · simp [windowLen]

/-- `advance` / `advance_to` inside the window -/
theorem advance_refines (b : Buf) (src : Src) (data : Bytes) (h : Inv b src data) (n : Nat)
    (hn : n ≤ b.windowLen) :
    ∃ b', b.advance n = some b' ∧ Inv b' src data ∧ b'.window = b.window.drop n ∧
      b'.position = b.position + n ∧ b'.cap = b.cap ∧ b'.windowLen = b.windowLen - n := by
  obtain ⟨hse, hem, hmode, hview⟩ := h
  have hle : b.start + n ≤ b.end_ := by simp only [windowLen] at hn; omega
  refine ⟨{ b with start := b.start + n }, by simp [advance, hle], ⟨hle, hem, hmode, ?_⟩, ?_, ?_, rfl, ?_⟩
  · have hw : ({ b with start := b.start + n } : Buf).window = b.window.drop n := by
      simp only [window, windowLen, List.drop_take, List.drop_drop]
      congr 1
      omega
    rw [hw]
    have : ({ b with start := b.start + n } : Buf).position = b.position + n := by
      simp [position, consumedData]; omega
    rw [this, ← List.drop_drop, ← hview, List.drop_append_of_le_length]
    rw [window_length hse hem]; exact hn
  · simp only [window, windowLen, List.drop_take, List.drop_drop]
    congr 1
    omega
  · simp [position, consumedData]; omega
  · simp only [windowLen]; omega

/-- beyond the window `advance` is undefined behaviour (model: `none`) -/
theorem advance_none (b : Buf) (n : Nat) (hn : b.windowLen < n) (hse : b.start ≤ b.end_) :
    b.advance n = none := by
  simp only [advance, windowLen] at *
  rw [if_neg]
  omega

theorem inv_build (buffer data : Bytes) (sched : List Step) :
    Inv (build buffer) (Src.new data sched) data := by
  refine ⟨Nat.le_refl _, Nat.zero_le _, Or.inl rfl, ?_⟩
  simp [build, window, windowLen, position, consumedData, Src.new]

theorem inv_fromSlice (data : Bytes) : Inv (fromSlice data) (Src.new [] []) data := by
  refine ⟨Nat.zero_le _, Nat.le_refl _, Or.inr rfl, ?_⟩
  simp [fromSlice, window, windowLen, position, consumedData, Src.new]

end Buf
end Jomini
