import JominiModel.Proofs.TextDocFullContent
/-
The earlier document type `JFields` (Spec/TextTape.lean) inside the full one: `JFields.toF` keeps
the bytes, the validity and the expected tape, so `C01_faithful_full` covers everything
`C01_faithful_partial` covers.
-/
namespace Jomini.TextTape
open Jomini

def elemsToI : List (Bytes × Scal) → FItems
  | [] => .nil
  | (g, s) :: r => .scal g s (elemsToI r)

mutual
def JVal.toF : JVal → FVal
  | .scal g s => .scal g s
  | .empty g gc => .empty g gc
  | .obj g g0 k g1 o v rest gc => .obj g g0 (.kv k g1 o v.toF) rest.toF gc
  | .arrS g g0 s0 rest gc => .arrS g g0 s0 rest.toF gc
  | .arrC g first rest gc => .arrC g first.toF rest.toF gc
  | .ghostIn g b1 b2 v => .ghostIn g b1 b2 v.toF
  | .mixed g g0 k g1 o v rest gm m0 elems gc => .mixed g g0 (.kv k g1 o v.toF) rest.toF gm m0 (elemsToI elems) gc
def JFields.toF : JFields → FFields
  | .nil => .nil
  | .cons g0 k g1 o v rest => .cons g0 k g1 o v.toF rest.toF
  | .consImp g0 k v rest => .consImp g0 k v.toF rest.toF
  | .ghost g gc rest => .ghost g gc rest.toF
  | .consHdr g0 k g1 o gh h body rest => .consHdr g0 k g1 o gh h body.toF rest.toF
  | .paramVal g0 isU name g1 val g2 rest => .paramVal g0 isU name g1 val g2 rest.toF
  | .paramObj g0 isU name g1 k g2 o v inner gc rest => .paramObj g0 isU name g1 k g2 o v.toF inner.toF gc rest.toF
def JVals.toF : JVals → FVals
  | .nil => .nil
  | .cons v rest => .cons v.toF rest.toF
end

theorem elemsToI_render : ∀ es : List (Bytes × Scal), frenderI (elemsToI es) = renderElems es
  | [] => rfl
  | (g, s) :: r => by simp only [elemsToI, frenderI, renderElems, elemsToI_render r]

theorem elemsToI_cnt : ∀ es : List (Bytes × Scal), fcntI (elemsToI es) = es.length
  | [] => rfl
  | (g, s) :: r => by simp only [elemsToI, fcntI, elemsToI_cnt r, List.length_cons]; omega

theorem elemsToI_tape : ∀ (es : List (Bytes × Scal)) (b : Nat) (a : Bytes),
    ftapeI (elemsToI es) b a = elemToks es a
  | [], _, _ => rfl
  | (g, s) :: r, b, a => by simp only [elemsToI, ftapeI, elemToks, elemsToI_render, elemsToI_tape r]

theorem elemsToI_valid : ∀ (es : List (Bytes × Scal)) (a : Bytes), ElemsValid es a → FValidI (elemsToI es) a
  | [], _, _ => by simp [elemsToI, FValidI]
  | (g, s) :: r, a, h => by
    simp only [ElemsValid] at h
    simp only [elemsToI, FValidI, elemsToI_render]
    exact ⟨h.1, h.2.1, h.2.2.1, elemsToI_valid r a h.2.2.2⟩

mutual
theorem toF_renderV : ∀ v : JVal, frenderV v.toF = jrenderV v
  | .scal _ _ => rfl
  | .empty _ _ => rfl
  | .obj _ _ _ _ _ v rest _ => by
    simp only [JVal.toF, frenderV, frenderFirst, jrenderV, toF_renderV v, toF_renderF rest, List.append_assoc]
  | .arrS _ _ _ rest _ => by simp only [JVal.toF, frenderV, jrenderV, toF_renderVs rest]
  | .arrC _ first rest _ => by simp only [JVal.toF, frenderV, jrenderV, toF_renderV first, toF_renderVs rest]
  | .ghostIn _ _ _ v => by simp only [JVal.toF, frenderV, jrenderV, toF_inner v]
  | .mixed _ _ _ _ _ v rest _ _ elems _ => by
    simp only [JVal.toF, frenderV, frenderFirst, jrenderV, toF_renderV v, toF_renderF rest, elemsToI_render,
      List.append_assoc]
theorem toF_inner : ∀ v : JVal, finner v.toF = jinner v
  | .scal _ _ => rfl
  | .empty _ _ => rfl
  | .obj _ _ _ _ _ v rest _ => by
    simp only [JVal.toF, finner, frenderFirst, jinner, toF_renderV v, toF_renderF rest, List.append_assoc]
  | .arrS _ _ _ rest _ => by simp only [JVal.toF, finner, jinner, toF_renderVs rest]
  | .arrC _ first rest _ => by simp only [JVal.toF, finner, jinner, toF_renderV first, toF_renderVs rest]
  | .ghostIn _ _ _ v => by simp only [JVal.toF, finner, jinner, toF_inner v]
  | .mixed _ _ _ _ _ v rest _ _ elems _ => by
    simp only [JVal.toF, finner, frenderFirst, jinner, toF_renderV v, toF_renderF rest, elemsToI_render,
      List.append_assoc]
theorem toF_renderF : ∀ fs : JFields, frenderF fs.toF = jrenderF fs
  | .nil => rfl
  | .cons _ _ _ _ v rest => by simp only [JFields.toF, frenderF, jrenderF, toF_renderV v, toF_renderF rest]
  | .consImp _ _ v rest => by simp only [JFields.toF, frenderF, jrenderF, toF_renderV v, toF_renderF rest]
  | .ghost _ _ rest => by simp only [JFields.toF, frenderF, jrenderF, toF_renderF rest]
  | .consHdr _ _ _ _ _ _ body rest => by
    simp only [JFields.toF, frenderF, jrenderF, toF_renderV body, toF_renderF rest]
  | .paramVal _ _ _ _ _ _ rest => by simp only [JFields.toF, frenderF, jrenderF, toF_renderF rest]
  | .paramObj _ _ _ _ _ _ _ v inner _ rest => by
    simp only [JFields.toF, frenderF, jrenderF, toF_renderV v, toF_renderF inner, toF_renderF rest]
theorem toF_renderVs : ∀ vs : JVals, frenderVs vs.toF = jrenderVs vs
  | .nil => rfl
  | .cons v rest => by simp only [JVals.toF, frenderVs, jrenderVs, toF_renderV v, toF_renderVs rest]
end

mutual
theorem toF_cntV : ∀ v : JVal, fcntV v.toF = jcntV v
  | .scal _ _ => rfl
  | .empty _ _ => rfl
  | .obj _ _ _ _ _ v rest _ => by simp only [JVal.toF, fcntV, fcntFirst, jcntV, toF_cntV v, toF_cntF rest]
  | .arrS _ _ _ rest _ => by simp only [JVal.toF, fcntV, jcntV, toF_cntVs rest]
  | .arrC _ first rest _ => by simp only [JVal.toF, fcntV, jcntV, toF_cntV first, toF_cntVs rest]
  | .ghostIn _ _ _ v => by simp only [JVal.toF, fcntV, jcntV, toF_cntV v]
  | .mixed _ _ _ _ _ v rest _ _ elems _ => by
    simp only [JVal.toF, fcntV, fcntFirst, jcntV, toF_cntV v, toF_cntF rest, elemsToI_cnt]
theorem toF_cntF : ∀ fs : JFields, fcntF fs.toF = jcntF fs
  | .nil => rfl
  | .cons _ _ _ _ v rest => by simp only [JFields.toF, fcntF, jcntF, toF_cntV v, toF_cntF rest]
  | .consImp _ _ v rest => by simp only [JFields.toF, fcntF, jcntF, toF_cntV v, toF_cntF rest]
  | .ghost _ _ rest => by simp only [JFields.toF, fcntF, jcntF, toF_cntF rest]
  | .consHdr _ _ _ _ _ _ body rest => by simp only [JFields.toF, fcntF, jcntF, toF_cntV body, toF_cntF rest]
  | .paramVal _ _ _ _ _ _ rest => by simp only [JFields.toF, fcntF, jcntF, toF_cntF rest]
  | .paramObj _ _ _ _ _ _ _ v inner _ rest => by
    simp only [JFields.toF, fcntF, jcntF, toF_cntV v, toF_cntF inner, toF_cntF rest]
theorem toF_cntVs : ∀ vs : JVals, fcntVs vs.toF = jcntVs vs
  | .nil => rfl
  | .cons v rest => by simp only [JVals.toF, fcntVs, jcntVs, toF_cntV v, toF_cntVs rest]
end

mutual
theorem toF_tapeV : ∀ (v : JVal) (b : Nat) (a : Bytes), ftapeV v.toF b a = jtapeV v b a
  | .scal _ _, _, _ => rfl
  | .empty _ _, _, _ => rfl
  | .obj _ _ _ _ _ v rest _, b, a => by
    simp only [JVal.toF, ftapeV, ftapeFirst, fcntFirst, jtapeV, toF_renderV, toF_renderF, toF_cntV, toF_cntF,
      toF_tapeV v, toF_tapeF rest, List.append_assoc]
  | .arrS _ _ _ rest _, b, a => by
    simp only [JVal.toF, ftapeV, jtapeV, toF_renderVs, toF_cntVs, toF_tapeVs rest]
  | .arrC _ first rest _, b, a => by
    simp only [JVal.toF, ftapeV, jtapeV, toF_renderVs, toF_cntV, toF_cntVs, toF_tapeV first, toF_tapeVs rest]
  | .ghostIn _ _ _ v, b, a => by simp only [JVal.toF, ftapeV, jtapeV, toF_tapeV v]
  | .mixed _ _ _ _ _ v rest _ _ elems _, b, a => by
    simp only [JVal.toF, ftapeV, ftapeFirst, fcntFirst, jtapeV, toF_renderV, toF_renderF, toF_cntV, toF_cntF,
      toF_tapeV v, toF_tapeF rest, elemsToI_render, elemsToI_cnt, elemsToI_tape, List.append_assoc]
theorem toF_tapeF : ∀ (fs : JFields) (b : Nat) (a : Bytes), ftapeF fs.toF b a = jtapeF fs b a
  | .nil, _, _ => rfl
  | .cons _ _ _ _ v rest, b, a => by
    simp only [JFields.toF, ftapeF, jtapeF, toF_renderV, toF_renderF, toF_cntV, toF_tapeV v, toF_tapeF rest]
  | .consImp _ _ v rest, b, a => by
    simp only [JFields.toF, ftapeF, jtapeF, toF_renderV, toF_renderF, toF_cntV, toF_tapeV v, toF_tapeF rest]
  | .ghost _ _ rest, b, a => by simp only [JFields.toF, ftapeF, jtapeF, toF_tapeF rest]
  | .consHdr _ _ _ _ _ _ body rest, b, a => by
    simp only [JFields.toF, ftapeF, jtapeF, toF_renderV, toF_renderF, toF_cntV, toF_tapeV body, toF_tapeF rest]
  | .paramVal _ _ _ _ _ _ rest, b, a => by
    simp only [JFields.toF, ftapeF, jtapeF, toF_renderF, toF_tapeF rest]
  | .paramObj _ _ _ _ _ _ _ v inner _ rest, b, a => by
    simp only [JFields.toF, ftapeF, jtapeF, toF_renderV, toF_renderF, toF_cntV, toF_cntF, toF_tapeV v,
      toF_tapeF inner, toF_tapeF rest]
theorem toF_tapeVs : ∀ (vs : JVals) (b : Nat) (a : Bytes), ftapeVs vs.toF b a = jtapeVs vs b a
  | .nil, _, _ => rfl
  | .cons v rest, b, a => by
    simp only [JVals.toF, ftapeVs, jtapeVs, toF_renderVs, toF_cntV, toF_tapeV v, toF_tapeVs rest]
end

theorem toF_braced {v : JVal} (h : v.isBraced) : v.toF.isBraced := by
  cases v <;> simp [JVal.isBraced] at h <;> simp [JVal.toF, FVal.isBraced]

theorem toF_container {v : JVal} (h : v.isContainer) : v.toF.isContainer := by
  cases v <;> simp [JVal.isContainer] at h <;> simp [JVal.toF, FVal.isContainer]

theorem toF_gap (v : JVal) : v.toF.gap = v.gap := by cases v <;> rfl

mutual
theorem toF_validV : ∀ (v : JVal) (a : Bytes), JValidV v a → FValidV v.toF a
  | .scal _ _, a, h => by simpa [JVal.toF, FValidV, JValidV] using h
  | .empty _ _, a, h => by simpa [JVal.toF, FValidV, JValidV] using h
  | .obj _ _ _ _ _ v rest _, a, h => by
    simp only [JValidV] at h
    obtain ⟨h1, h2, h3, h4, h5, h6, h7, h8⟩ := h
    simp only [JVal.toF, FValidV, FValidFirst, toF_renderF]
    exact ⟨h1, h2, h4, ⟨h3, h5, h6, toF_validV v _ h7⟩, toF_validF rest _ h8⟩
  | .arrS _ _ _ rest _, a, h => by
    simp only [JValidV] at h
    obtain ⟨h1, h2, h3, h4, h5, h6, h7⟩ := h
    simp only [JVal.toF, FValidV, toF_renderVs]
    exact ⟨h1, h2, h3, h4, h5, h6, toF_validVs rest _ h7⟩
  | .arrC _ first rest _, a, h => by
    simp only [JValidV] at h
    obtain ⟨h1, h2, h3, h4, h5⟩ := h
    simp only [JVal.toF, FValidV, toF_renderVs]
    exact ⟨h1, h2, toF_container h3, toF_validV first _ h4, toF_validVs rest _ h5⟩
  | .ghostIn _ _ _ v, a, h => by
    simp only [JValidV] at h
    obtain ⟨h1, h2, h3, h4, h5, h6⟩ := h
    simp only [JVal.toF, FValidV]
    exact ⟨h1, h2, h3, toF_braced h4, by rw [toF_gap]; exact h5, toF_validV v _ h6⟩
  | .mixed _ _ _ _ _ v rest _ _ elems _, a, h => by
    simp only [JValidV] at h
    obtain ⟨h1, h2, h3, h4, h5, h6, h7, h8, h9, h10, h11, h12, h13⟩ := h
    simp only [JVal.toF, FValidV, FValidFirst, toF_renderF, elemsToI_render]
    exact ⟨h1, h2, h4, h5, ⟨h3, h6, h7, toF_validV v _ h8⟩, toF_validF rest _ h9, h10, h11, h12,
      elemsToI_valid elems _ h13⟩
theorem toF_validF : ∀ (fs : JFields) (a : Bytes), JValidF fs a → FValidF fs.toF a
  | .nil, _, _ => by simp [JFields.toF, FValidF]
  | .cons _ _ _ _ v rest, a, h => by
    simp only [JValidF] at h
    obtain ⟨h1, h2, h3, h4, h5, h6⟩ := h
    simp only [JFields.toF, FValidF, toF_renderF]
    exact ⟨h1, h2, h3, h4, toF_validV v _ h5, toF_validF rest _ h6⟩
  | .consImp _ _ v rest, a, h => by
    simp only [JValidF] at h
    obtain ⟨h1, h2, h3, h4, h5, h6⟩ := h
    simp only [JFields.toF, FValidF, toF_renderF, toF_renderV]
    exact ⟨h1, h2, toF_braced h3, h4, toF_validV v _ h5, toF_validF rest _ h6⟩
  | .ghost _ _ rest, a, h => by
    simp only [JValidF] at h
    simp only [JFields.toF, FValidF]
    exact ⟨h.1, h.2.1, toF_validF rest _ h.2.2⟩
  | .consHdr _ _ _ _ _ _ body rest, a, h => by
    simp only [JValidF] at h
    obtain ⟨h1, h2, h3, h4, h5, h6, h7, h8, h9, h10, h11⟩ := h
    simp only [JFields.toF, FValidF, toF_renderF, toF_renderV]
    exact ⟨h1, h2, h3, h4, h5, h6, h7, h8, toF_container h9, toF_validV body _ h10, toF_validF rest _ h11⟩
  | .paramVal _ _ _ _ _ _ rest, a, h => by
    simp only [JValidF] at h
    obtain ⟨h1, h2, h3, h4, h5, h6, h7, h8⟩ := h
    simp only [JFields.toF, FValidF, toF_renderF]
    exact ⟨h1, h2, h3, h4, h5, h6, h7, toF_validF rest _ h8⟩
  | .paramObj _ _ _ _ _ _ _ v inner _ rest, a, h => by
    simp only [JValidF] at h
    obtain ⟨h1, h2, h3, h4, h5, h6, h7, h8, h9, h10, h11⟩ := h
    simp only [JFields.toF, FValidF, toF_renderF]
    exact ⟨h1, h2, h3, h4, h5, h6, h7, h8, toF_validV v _ h9, toF_validF inner _ h10, toF_validF rest _ h11⟩
theorem toF_validVs : ∀ (vs : JVals) (a : Bytes), JValidVs vs a → FValidVs vs.toF a
  | .nil, _, _ => by simp [JVals.toF, FValidVs]
  | .cons v rest, a, h => by
    simp only [JValidVs] at h
    simp only [JVals.toF, FValidVs, toF_renderVs]
    exact ⟨toF_validV v _ h.1, toF_validVs rest _ h.2⟩
end

/-- `a={b=c d e {f=g}}` + newline: a mixed container with a container in its array part -/
def exampleFullValid : FFields :=
  .cons [] ⟨false, [97]⟩ [] .eq
    (.mixed [] [] (.kv ⟨false, [98]⟩ [] .eq (.scal [] ⟨false, [99]⟩)) .nil [32] ⟨false, [100]⟩
      (.scal [32] ⟨false, [101]⟩
        (.cont (.obj [32] [] (.kv ⟨false, [102]⟩ [] .eq (.scal [] ⟨false, [103]⟩)) .nil []) .nil)) []) .nil
theorem exampleFullValid_valid : FValidF exampleFullValid [10] ∧ Blank [10] ∧ hasBom (frenderF exampleFullValid ++ [10]) = false := by
  have hb : ∀ c : UInt8, isBoundary c = true → ∀ r, StartsBoundary (c :: r) := fun c h r => .inr ⟨c, r, rfl, h⟩
  have sp : Blank [32] := .ws 32 [] (by decide +kernel) .nil
  have u : ∀ c : UInt8, isBoundary c = false → isBlank c = false → c ≠ 34 → c ≠ 64 → (Scal.mk false [c]).ValidX :=
    fun c a b d e => .inl (unq_valid c a b d e)
  refine ⟨?_, .ws 10 [] (by decide +kernel) .nil, by decide +kernel⟩
  simp only [exampleFullValid, FValidF, FValidV, FValidFirst, FValidI, FVal.scalarLed, FFirst.scalarLed, frenderF, frenderV,
    frenderFirst, frenderI, Op.text, Scal.text, List.nil_append, List.append_nil, and_true, true_and]
  refine ⟨.nil, .nil, u 97 (by decide +kernel) (by decide +kernel) (by decide) (by decide),
    fun _ => hb 61 (by decide +kernel) _, .nil, .nil, sp, .nil,
    ⟨.nil, u 98 (by decide +kernel) (by decide +kernel) (by decide) (by decide), fun _ => hb 61 (by decide +kernel) _,
      .nil, u 99 (by decide +kernel) (by decide +kernel) (by decide) (by decide), fun _ => hb 32 (by decide +kernel) _⟩,
    u 100 (by decide +kernel) (by decide +kernel) (by decide) (by decide),
    fun _ => hb 32 (by decide +kernel) _,
    mix_concrete (d := [101, 32, 123, 102, 61, 103, 125, 125, 10]) (by decide +kernel) (by decide +kernel) (by decide),
    sp, u 101 (by decide +kernel) (by decide +kernel) (by decide) (by decide), fun _ => hb 32 (by decide +kernel) _,
    sp, .nil, .nil, .nil, u 102 (by decide +kernel) (by decide +kernel) (by decide) (by decide),
    fun _ => hb 61 (by decide +kernel) _, .nil,
    u 103 (by decide +kernel) (by decide +kernel) (by decide) (by decide), fun _ => hb 125 (by decide +kernel) _⟩

/-- the hypotheses of `C06_full_doc_tape_sound` are satisfiable -/
example : WfTextTape (frenderF exampleFullValid ++ [10]) (ftapeF exampleFullValid 0 [10]) :=
  (C06_full_doc_tape_sound exampleFullValid [10] exampleFullValid_valid.2.1 exampleFullValid_valid.1
    exampleFullValid_valid.2.2).1

end Jomini.TextTape
