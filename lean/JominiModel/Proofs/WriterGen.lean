import JominiModel.Proofs.WriterArraysTape
import JominiModel.Spec.WriterGen
/-
The general container fragment, writer side: the exact bytes of call lists that write objects,
arrays (of scalars, objects, arrays, empty containers), empty containers and headers nested to any
depth with every start flavour.  Stage 1: what the preamble writes as a function of the machine
state (`pfx`), uniform lemmas for value writes, start calls, `write_header` and `write_end`.
Stage 2: mutual induction over the document.
-/
namespace Jomini.Writer
open Jomini Jomini.Writer.Spec
open Jomini.TextTape (Scal)

/-- `depth × factor` indent bytes of the current state -/
def indOf (s : State) : Bytes := List.replicate (s.depth.length * s.indentFactor) s.indentChar

/-- what `write_preamble` writes (mixed mode off): the pending newline, then the separator the
state asks for -/
def pfx (s : State) : Bytes :=
  (if s.needsLineTerminator then [10] else []) ++
    (match s.state with
     | .arrayValue | .secondUnknown => if s.needsLineTerminator then indOf s else [32]
     | .key | .arrayValueFirst | .firstKey | .firstUnknown => indOf s
     | .keyValueSeparator => [61]
     | _ => [])

theorem writePreamble_pfx (s : State) (hm : s.mixedMode = .disabled) :
    writePreamble s = { s with out := s.out ++ pfx s, needsLineTerminator := false } := by
  obtain ⟨mode, depth, state, nlt, mixed, c, f, out⟩ := s
  simp only at hm
  subst hm
  cases state <;> cases nlt <;>
    simp [writePreamble, writeLineTerminator, writeIndent_eq, put, pfx, indOf, WriteState.noDataYet,
      List.append_assoc]

/-- the state a value write leaves (table lookup made total: `Error` stays `Error`) -/
def nextOf (st : WriteState) : WriteState := (st.next).getD .error

theorem next_eq_nextOf (st : WriteState) : st.next = some (nextOf st) := by
  cases st <;> decide

theorem writeRaw_pfx (s : State) (x : Bytes) (hm : s.mixedMode = .disabled) :
    writeRaw s x = .ok { s with out := s.out ++ (pfx s ++ x), state := nextOf s.state, needsLineTerminator := decide (nextOf s.state = .key) } := by
  simp only [writeRaw, writePreamble_pfx s hm, writeEpilogue, put, next_eq_nextOf, List.append_assoc]

def flMode : Flavour → DepthMode
  | .objectStart => .object
  | _ => .array

def flState : Flavour → WriteState
  | .objectStart => .firstKey
  | .arrayStart => .arrayValueFirst
  | .start => .firstUnknown

theorem start_pfx (s : State) (fl : Flavour) (hm : s.mixedMode = .disabled) :
    step s fl.call = .ok { s with out := s.out ++ (pfx s ++ [123]), depth := s.mode :: s.depth, needsLineTerminator := true, mode := flMode fl, state := flState fl } := by
  cases fl <;>
    simp [Flavour.call, step, writeObjectStart, writeArrayStart, writeStart, writePreamble_pfx s hm, put,
      flMode, flState, List.append_assoc]

theorem header_pfx (s : State) (h : Bytes) (hm : s.mixedMode = .disabled) :
    step s (.header h) = .ok { s with out := s.out ++ (pfx s ++ (h ++ [32])), needsLineTerminator := false, state := .objectValue } := by
  simp [step, writeHeader, writePreamble_pfx s hm, put, List.append_assoc]

def modeState : DepthMode → WriteState
  | .object => .key
  | .array => .arrayValue

/-- `write_end` after at least one element / field -/
theorem end_data (s : State) (m : DepthMode) (rest : List DepthMode) (hd : s.depth = m :: rest)
    (hst : s.state.noDataYet = false) :
    step s .end = .ok { s with depth := rest, mode := m, state := modeState m, out := s.out ++ ([10] ++ (List.replicate (rest.length * s.indentFactor) s.indentChar ++ [125])), needsLineTerminator := true, mixedMode := .disabled } := by
  obtain ⟨mode, depth, state, nlt, mixed, c, f, out⟩ := s
  simp only at hd hst
  subst hd
  cases m <;> simp [step, writeEnd, hst, writeIndent_eq, put, List.append_assoc, modeState]

/-- `write_end` directly after the start call -/
theorem end_empty (s : State) (m : DepthMode) (rest : List DepthMode) (hd : s.depth = m :: rest)
    (hst : s.state.noDataYet = true) :
    step s .end = .ok { s with depth := rest, mode := m, state := modeState m, out := s.out ++ [32, 125], needsLineTerminator := true, mixedMode := .disabled } := by
  obtain ⟨mode, depth, state, nlt, mixed, c, f, out⟩ := s
  simp only at hd hst
  subst hd
  cases m <;> simp [step, writeEnd, hst, put, modeState]

/-! ### stage 2: the bytes of general container documents -/

structure G (s : State) (c : UInt8) (f : Nat) : Prop where
  mixed : s.mixedMode = .disabled
  ic : s.indentChar = c
  fac : s.indentFactor = f

theorem indOf_G {s : State} {c : UInt8} {f : Nat} (h : G s c f) : indOf s = ind c f s.depth.length := by
  simp [indOf, ind, h.ic, h.fac]

def exitState (v : GVal) (s : State) : WriteState := if v.isBraced then modeState s.mode else nextOf s.state
def exitNlt (v : GVal) (s : State) : Bool := if v.isBraced then true else decide (nextOf s.state = .key)

theorem step_header (s : State) (h : Bytes) : step s (.header h) = .ok (writeHeader s h) := rfl

theorem nextOf_kvs : nextOf .keyValueSeparator = .key := by decide
theorem nextOf_objectValue : nextOf .objectValue = .key := by decide
theorem nextOf_arrayValue : nextOf .arrayValue = .arrayValue := by decide
theorem nextOf_secondUnknown : nextOf .secondUnknown = .arrayValue := by decide
theorem nextOf_key : nextOf .key = .keyValueSeparator := by decide
theorem nextOf_firstKey : nextOf .firstKey = .keyValueSeparator := by decide
theorem nextOf_arrayValueFirst : nextOf .arrayValueFirst = .arrayValue := by decide
theorem nextOf_firstUnknown : nextOf .firstUnknown = .secondUnknown := by decide

/-- key and operator of a field: afterwards the machine is ready for the value, in object mode, and
what has been written plus what the value's preamble will still write is `key<sep>` on a new
indented line -/
theorem field_head (c : UInt8) (f : Nat) (k : SCall) (o : Option Writer.Op) (s : State) (hg : G s c f)
    (hst : s.state = .key ∨ s.state = .firstKey ∨ s.state = .arrayValueFirst ∨ s.state = .firstUnknown)
    (hmode : (s.mode = .object ∧ (s.state = .key ∨ s.state = .firstKey)) ∨ o ≠ none) :
    ∃ sV, (run (k.call :: opCalls o) s).1 = sV ∧ G sV c f ∧ sV.depth = s.depth ∧ sV.mode = .object ∧
      sV.needsLineTerminator = false ∧ (sV.state = .keyValueSeparator ∨ sV.state = .objectValue) ∧
      sV.out ++ pfx sV = s.out ++ (((if s.needsLineTerminator then [10] else []) ++ ind c f s.depth.length) ++
        (k.scal.text ++ sepText (opOf o))) := by
  have hk := writeRaw_pfx s k.scal.text hg.mixed
  have hpfx : pfx s = (if s.needsLineTerminator then [10] else []) ++ ind c f s.depth.length := by
    rw [← indOf_G hg]
    rcases hst with h | h | h | h <;> simp [pfx, h]
  have hn1 : decide (nextOf s.state = .key) = false := by
    rcases hst with h | h | h | h <;> rw [h] <;> decide
  rw [run_cons_ok _ ((step_scall s k).trans hk)]
  cases o with
  | none =>
    have hl : s.mode = .object ∧ (s.state = .key ∨ s.state = .firstKey) := by
      rcases hmode with h | h
      · exact h
      · exact absurd rfl h
    have hs1 : nextOf s.state = .keyValueSeparator := by
      rcases hl.2 with h | h <;> rw [h] <;> decide
    refine ⟨_, rfl, ⟨hg.mixed, hg.ic, hg.fac⟩, rfl, hl.1, by simp [opCalls, run, hn1], Or.inl (by simp [opCalls, run, hs1]), ?_⟩
    simp only [opCalls, run]
    rw [hpfx]
    simp [pfx, hs1, hn1, opOf, sepText, List.append_assoc]
  | some o' =>
    have hw := writeOperator_kvs { s with out := s.out ++ (pfx s ++ k.scal.text), state := nextOf s.state, needsLineTerminator := decide (nextOf s.state = .key) } o' hg.mixed
    simp only [opCalls, run, step_operator]
    rw [hw]
    refine ⟨_, rfl, ⟨hg.mixed, hg.ic, hg.fac⟩, rfl, rfl, hn1, Or.inr rfl, ?_⟩
    rw [hpfx]
    simp [pfx, hn1, opOf, List.append_assoc]

theorem exit_key (v : GVal) (sV : State) (hm : sV.mode = .object)
    (hst : sV.state = .keyValueSeparator ∨ sV.state = .objectValue) :
    exitState v sV = .key ∧ exitNlt v sV = true := by
  unfold exitState exitNlt
  cases v.isBraced
  · rcases hst with h | h <;> simp [h, nextOf_kvs, nextOf_objectValue]
  · simp [hm, modeState]

mutual
theorem GV (c : UInt8) (f : Nat) : ∀ (v : GVal) (s : State), G s c f → v.Opened →
    (run (gcallsV v) s).1.out = s.out ++ (pfx s ++ gtextV c f s.depth.length v) ∧
    (run (gcallsV v) s).1.depth = s.depth ∧ (run (gcallsV v) s).1.mode = s.mode ∧
    G (run (gcallsV v) s).1 c f ∧ (run (gcallsV v) s).1.state = exitState v s ∧
    (run (gcallsV v) s).1.needsLineTerminator = exitNlt v s
  | .scal sc, s, hg, _ => by
    have h := writeRaw_pfx s sc.scal.text hg.mixed
    simp only [gcallsV]
    rw [run_single_ok ((step_scall s sc).trans h)]
    exact ⟨by simp [gtextV], rfl, rfl, ⟨hg.mixed, hg.ic, hg.fac⟩, by simp [exitState, GVal.isBraced], by simp [exitNlt, GVal.isBraced]⟩
  | .empty fl, s, hg, _ => by
    simp only [gcallsV]
    rw [run_cons_ok _ (start_pfx s fl hg.mixed)]
    have he := end_empty { s with out := s.out ++ (pfx s ++ [123]), depth := s.mode :: s.depth, needsLineTerminator := true, mode := flMode fl, state := flState fl } s.mode s.depth rfl (by cases fl <;> rfl)
    rw [run_single_ok he]
    refine ⟨by simp [gtextV, List.append_assoc], rfl, rfl, ⟨rfl, hg.ic, hg.fac⟩, ?_, by simp [exitNlt, GVal.isBraced]⟩
    simp [exitState, GVal.isBraced]
  | .obj fl fs, s, hg, ho => by
    simp only [GVal.Opened] at ho
    obtain ⟨hne, hfo, hfso⟩ := ho
    simp only [gcallsV]
    rw [run_cons_ok _ (start_pfx s fl hg.mixed), run_append]
    obtain ⟨hfout, hfd, hfm, hfg, hfs, hfn⟩ := GF c f fs { s with out := s.out ++ (pfx s ++ [123]), depth := s.mode :: s.depth, needsLineTerminator := true, mode := flMode fl, state := flState fl }
      ⟨hg.mixed, hg.ic, hg.fac⟩ hfso hne
      (by cases fl <;> simp [flState])
      (by
        cases fl with
        | objectStart => left; exact ⟨rfl, Or.inr rfl⟩
        | arrayStart => right; exact hfo (by simp)
        | start => right; exact hfo (by simp))
    have he := end_data (run (gcallsF fs) { s with out := s.out ++ (pfx s ++ [123]), depth := s.mode :: s.depth, needsLineTerminator := true, mode := flMode fl, state := flState fl }).1 s.mode s.depth hfd (by rw [hfs]; rfl)
    rw [run_single_ok he]
    refine ⟨?_, rfl, rfl, ⟨rfl, hfg.ic, hfg.fac⟩, by simp [exitState, GVal.isBraced], by simp [exitNlt, GVal.isBraced]⟩
    simp only [hfout, hfg.ic, hfg.fac]
    simp [gtextV, ind, List.append_assoc]
  | .arrS u first rest, s, hg, ho => by
    simp only [GVal.Opened] at ho
    simp only [gcallsV]
    rw [run_cons_ok _ (start_pfx s (arrFl u) hg.mixed)]
    have hfirst := writeRaw_pfx { s with out := s.out ++ (pfx s ++ [123]), depth := s.mode :: s.depth, needsLineTerminator := true, mode := flMode (arrFl u), state := flState (arrFl u) } first.scal.text hg.mixed
    rw [run_cons_ok _ ((step_scall _ first).trans hfirst), run_append]
    obtain ⟨hvout, hvd, hvm, hvg, hvs⟩ := GVs c f rest { s with out := s.out ++ (pfx s ++ [123]) ++ (pfx { s with out := s.out ++ (pfx s ++ [123]), depth := s.mode :: s.depth, needsLineTerminator := true, mode := flMode (arrFl u), state := flState (arrFl u) } ++ first.scal.text), depth := s.mode :: s.depth, needsLineTerminator := decide (nextOf (flState (arrFl u)) = .key), mode := flMode (arrFl u), state := nextOf (flState (arrFl u)) }
      ⟨hg.mixed, hg.ic, hg.fac⟩ ho (by cases u <;> rfl) (by cases u <;> simp [arrFl, flState, nextOf, WriteState.next, WriteState.toNat, Jomini.Tables.writeStateNext, WriteState.ofNat?])
    have he := end_data _ s.mode s.depth hvd (by rcases hvs with h | h <;> rw [h] <;> rfl)
    rw [run_single_ok he]
    refine ⟨?_, rfl, rfl, ⟨rfl, hvg.ic, hvg.fac⟩, ?_, by simp [exitNlt, GVal.isBraced]⟩
    · simp only [hvout, hvg.ic, hvg.fac]
      cases u <;> simp [gtextV, pfx, indOf, arrFl, flState, nextOf, WriteState.next, WriteState.toNat,
        Jomini.Tables.writeStateNext, WriteState.ofNat?, ind, hg.ic, hg.fac, List.append_assoc]
    · simp [exitState, GVal.isBraced]
  | .arrC u first rest, s, hg, ho => by
    simp only [GVal.Opened] at ho
    obtain ⟨hbr, hfo, hro⟩ := ho
    simp only [gcallsV]
    rw [run_cons_ok _ (start_pfx s (arrFl u) hg.mixed), run_append]
    obtain ⟨h1o, h1d, h1m, h1g, h1s, h1n⟩ := GV c f first { s with out := s.out ++ (pfx s ++ [123]), depth := s.mode :: s.depth, needsLineTerminator := true, mode := flMode (arrFl u), state := flState (arrFl u) }
      ⟨hg.mixed, hg.ic, hg.fac⟩ hfo
    have hmA : flMode (arrFl u) = .array := by cases u <;> rfl
    rw [run_append]
    obtain ⟨hvout, hvd, hvm, hvg, hvs⟩ := GVs c f rest _ h1g hro (by rw [h1m]; exact hmA)
      (by rw [h1s]; simp [exitState, hbr, hmA, modeState])
    have he := end_data _ s.mode s.depth (by rw [hvd, h1d]) (by rcases hvs with h | h <;> rw [h] <;> rfl)
    rw [run_single_ok he]
    refine ⟨?_, rfl, rfl, ⟨rfl, hvg.ic, hvg.fac⟩, by simp [exitState, GVal.isBraced], by simp [exitNlt, GVal.isBraced]⟩
    simp only [hvout, hvg.ic, hvg.fac, h1o, h1n, h1d, hvd]
    cases u <;> simp [gtextV, pfx, indOf, arrFl, flState, exitNlt, hbr, ind, hg.ic, hg.fac, List.append_assoc]
theorem GF (c : UInt8) (f : Nat) : ∀ (fs : GFields) (s : State), G s c f → fs.Opened → fs ≠ .nil →
    (s.state = .key ∨ s.state = .firstKey ∨ s.state = .arrayValueFirst ∨ s.state = .firstUnknown) →
    ((s.mode = .object ∧ (s.state = .key ∨ s.state = .firstKey)) ∨ firstOpExplicit fs) →
    (run (gcallsF fs) s).1.out = s.out ++ (gtextF c f s.depth.length fs).drop (if s.needsLineTerminator then 0 else 1) ∧
    (run (gcallsF fs) s).1.depth = s.depth ∧ (run (gcallsF fs) s).1.mode = .object ∧
    G (run (gcallsF fs) s).1 c f ∧ (run (gcallsF fs) s).1.state = .key ∧
    (run (gcallsF fs) s).1.needsLineTerminator = true
  | .nil, _, _, _, h, _, _ => absurd rfl h
  | .cons k o v r, s, hg, ho, _, hst, hmode => by
    simp only [GFields.Opened] at ho
    obtain ⟨hvo, hro⟩ := ho
    obtain ⟨sV, hsV, hgV, hdV, hmV, hnV, hstV, houtV⟩ := field_head c f k o s hg hst (by simpa [firstOpExplicit] using hmode)
    have hcalls : gcallsF (.cons k o v r) = (k.call :: opCalls o) ++ (gcallsV v ++ gcallsF r) := by simp [gcallsF]
    rw [hcalls, run_append, hsV, run_append]
    obtain ⟨h1o, h1d, h1m, h1g, h1s, h1n⟩ := GV c f v sV hgV hvo
    obtain ⟨hek, hen⟩ := exit_key v sV hmV hstV
    rw [hek] at h1s
    rw [hen] at h1n
    have hline : (run (gcallsV v) sV).1.out = s.out ++ ((([10] ++ ind c f s.depth.length) ++ (k.scal.text ++
        (sepText (opOf o) ++ gtextV c f s.depth.length v))).drop (if s.needsLineTerminator then 0 else 1)) := by
      rw [h1o, ← List.append_assoc, houtV, hdV]
      cases s.needsLineTerminator <;> simp [List.append_assoc]
    have ih := GF c f r (run (gcallsV v) sV).1 h1g hro
    by_cases hr : r = .nil
    · subst hr
      simp only [gcallsF, run]
      refine ⟨?_, by rw [h1d, hdV], by rw [h1m, hmV], h1g, h1s, h1n⟩
      rw [hline]
      cases s.needsLineTerminator <;> simp [gtextF, List.append_assoc]
    · obtain ⟨h2o, h2d, h2m, h2g, h2s, h2n⟩ := ih hr (Or.inl h1s) (Or.inl ⟨by rw [h1m, hmV], Or.inl h1s⟩)
      refine ⟨?_, by rw [h2d, h1d, hdV], h2m, h2g, h2s, h2n⟩
      rw [h2o, h1n, hline, h1d, hdV]
      cases s.needsLineTerminator <;> simp [gtextF, List.append_assoc]
  | .hdr k o h body r, s, hg, ho, _, hst, hmode => by
    simp only [GFields.Opened] at ho
    obtain ⟨hvo, hro⟩ := ho
    obtain ⟨sV, hsV, hgV, hdV, hmV, hnV, hstV, houtV⟩ := field_head c f k o s hg hst (by simpa [firstOpExplicit] using hmode)
    have hcalls : gcallsF (.hdr k o h body r) = (k.call :: opCalls o) ++ (Call.header h :: (gcallsV body ++ gcallsF r)) := by
      simp [gcallsF]
    rw [hcalls, run_append, hsV]
    have hh := header_pfx sV h hgV.mixed
    rw [run_cons_ok _ hh, run_append]
    obtain ⟨h1o, h1d, h1m, h1g, h1s, h1n⟩ := GV c f body { sV with out := sV.out ++ (pfx sV ++ (h ++ [32])), needsLineTerminator := false, state := .objectValue } ⟨hgV.mixed, hgV.ic, hgV.fac⟩ hvo
    obtain ⟨hek, hen⟩ := exit_key body { sV with out := sV.out ++ (pfx sV ++ (h ++ [32])), needsLineTerminator := false, state := .objectValue } hmV (Or.inr rfl)
    rw [hek] at h1s
    rw [hen] at h1n
    have hline : (run (gcallsV body) { sV with out := sV.out ++ (pfx sV ++ (h ++ [32])), needsLineTerminator := false, state := .objectValue }).1.out = s.out ++ ((([10] ++ ind c f s.depth.length) ++ (k.scal.text ++
        (sepText (opOf o) ++ (h ++ (32 :: gtextV c f s.depth.length body))))).drop (if s.needsLineTerminator then 0 else 1)) := by
      have hp0 : pfx { sV with out := sV.out ++ (pfx sV ++ (h ++ [32])), needsLineTerminator := false, state := .objectValue } = [] := rfl
      rw [h1o, hp0]
      simp only [List.nil_append]
      rw [← List.append_assoc sV.out, houtV, hdV]
      cases s.needsLineTerminator <;> simp [List.append_assoc]
    have ih := GF c f r _ h1g hro
    by_cases hr : r = .nil
    · subst hr
      simp only [gcallsF, run]
      refine ⟨?_, by rw [h1d, hdV], by rw [h1m, hmV], h1g, h1s, h1n⟩
      rw [hline]
      cases s.needsLineTerminator <;> simp [gtextF, List.append_assoc]
    · obtain ⟨h2o, h2d, h2m, h2g, h2s, h2n⟩ := ih hr (Or.inl h1s) (Or.inl ⟨by rw [h1m, hmV], Or.inl h1s⟩)
      refine ⟨?_, by rw [h2d, h1d, hdV], h2m, h2g, h2s, h2n⟩
      rw [h2o, h1n, hline, h1d, hdV]
      cases s.needsLineTerminator <;> simp [gtextF, List.append_assoc]
theorem GVs (c : UInt8) (f : Nat) : ∀ (vs : GVals) (s : State), G s c f → vs.Opened → s.mode = .array →
    (s.state = .arrayValue ∨ s.state = .secondUnknown) →
    (run (gcallsVs vs) s).1.out = s.out ++ gtextVs c f s.depth.length s.needsLineTerminator vs ∧
    (run (gcallsVs vs) s).1.depth = s.depth ∧ (run (gcallsVs vs) s).1.mode = .array ∧
    G (run (gcallsVs vs) s).1 c f ∧
    ((run (gcallsVs vs) s).1.state = .arrayValue ∨ (run (gcallsVs vs) s).1.state = .secondUnknown)
  | .nil, s, hg, _, hm, hst => by
    exact ⟨by simp [gcallsVs, run, gtextVs], rfl, hm, hg, hst⟩
  | .cons v r, s, hg, ho, hm, hst => by
    simp only [GVals.Opened] at ho
    obtain ⟨hvo, hro⟩ := ho
    simp only [gcallsVs]
    rw [run_append]
    obtain ⟨h1o, h1d, h1m, h1g, h1s, h1n⟩ := GV c f v s hg hvo
    have hst' : (run (gcallsV v) s).1.state = .arrayValue := by
      rw [h1s]; unfold exitState
      cases v.isBraced
      · rcases hst with h | h <;> simp [h, nextOf_arrayValue, nextOf_secondUnknown]
      · simp [hm, modeState]
    have hn' : (run (gcallsV v) s).1.needsLineTerminator = v.isBraced := by
      rw [h1n]; unfold exitNlt
      cases v.isBraced
      · rcases hst with h | h <;> simp [h, nextOf_arrayValue, nextOf_secondUnknown]
      · simp
    obtain ⟨h2o, h2d, h2m, h2g, h2s⟩ := GVs c f r (run (gcallsV v) s).1 h1g hro (by rw [h1m, hm]) (Or.inl hst')
    refine ⟨?_, by rw [h2d, h1d], h2m, h2g, h2s⟩
    rw [h2o, h1o, hn', h1d]
    have hp : pfx s = (if s.needsLineTerminator then [10] ++ ind c f s.depth.length else [32]) := by
      rw [← indOf_G hg]
      rcases hst with h | h <;> cases hnl : s.needsLineTerminator <;> simp [pfx, h, hnl]
    rw [hp]
    simp [gtextVs, List.append_assoc]
end


/-- the bytes of a general container document (= `C15_lexemes_containers`) -/
theorem lexemes_gen (fs : GFields) (ho : fs.Opened) (c : UInt8) (f : Nat) :
    (run (gcallsF fs) (State.init c f)).1.out = gtextRoot c f fs := by
  by_cases hn : fs = .nil
  · subst hn; rfl
  · have := (GF c f fs (State.init c f) ⟨rfl, rfl, rfl⟩ ho hn (Or.inl rfl) (Or.inl ⟨rfl, Or.inl rfl⟩)).1
    simpa [State.init, gtextRoot] using this

end Jomini.Writer
