import JominiModel.Proofs.BinReaderPolicy
import JominiModel.Proofs.BinSkipFaults
/-
`skip_container` for EVERY buffer policy: skip = lexer skip (faults included).
-/
namespace Jomini.BinReader
open Jomini Jomini.BinLexer

variable {P : Policy}

/-- `advance_to` a suffix of the window keeps the abstract invariant -/
theorem ainv_advance {a : AReader P} {data pre rest : Bytes} (h : AInv a data) (hP : P.Contract a.cap)
    (hw : a.window = pre ++ rest) :
    AInv (a.advanceTo rest) data ∧ (a.advanceTo rest).window = rest ∧
    (a.advanceTo rest).remaining data = rest ++ a.src.rest ∧ (a.advanceTo rest).src = a.src ∧
    (a.advanceTo rest).cap = a.cap := by
  have hamt : a.window.length - rest.length = pre.length := by rw [hw]; simp
  have hv := congrArg List.length h.view
  simp only [List.length_append, List.length_drop] at hv
  have hpl : pre.length ≤ a.window.length := by rw [hw]; simp
  have e : a.window.length = pre.length + rest.length := by rw [hw]; simp
  have hrem : data.drop (a.position + pre.length) = rest ++ a.src.rest := by
    rw [← List.drop_drop, ← h.view, hw, List.append_assoc, List.drop_left]
  refine ⟨⟨?_, ?_, h.wf, ?_, ?_, h.cpos, ?_⟩, rfl, ?_, rfl, rfl⟩
  · simp only [AReader.advanceTo, hamt]; exact hrem.symm
  · simp only [AReader.advanceTo, hamt]; have := h.ple; omega
  · simp only [AReader.advanceTo, hamt]
    have := hP.advance a.st a.window.length pre.length h.pol hpl
    have e2 : a.window.length - pre.length = rest.length := by omega
    rw [e2] at this; exact this
  · simp only [AReader.advanceTo, hamt]; rw [h.deliv]; omega
  · simp only [AReader.advanceTo]; have := h.wcap; omega
  · simp only [AReader.remaining, AReader.advanceTo, hamt]; exact hrem

/-- what the abstract inner scan achieves -/
def AScanPost (data r : Bytes) (a : AReader P) : AReader.ScanRes P → Prop
  | .returned a' => AInv a' data ∧ a'.remaining data = r ∧ a'.src = a.src ∧ a'.cap = a.cap
  | .refill a' depth' => AInv a' data ∧ Skips (a'.remaining data) depth' r ∧
      SkipFits a'.cap (a'.remaining data) depth' ∧ lexeme a'.window = none ∧ a'.src = a.src ∧ a'.cap = a.cap

theorem ascan_spec (data r : Bytes) (sf : Nat) (a : AReader P) (depth : Nat) (h : AInv a data)
    (hP : P.Contract a.cap) (hs : Skips (a.remaining data) depth r)
    (hfit : SkipFits a.cap (a.remaining data) depth) (hsf : a.window.length / 2 < sf) :
    AScanPost data r a (AReader.skipScan sf a depth) := by
  induction sf generalizing a depth with
  | zero => omega
  | succ sf ih =>
    rw [AReader.skipScan]
    have hrem := aremaining_eq h
    cases hlx : lexeme a.window with
    | none => exact ⟨h, hs, hfit, hlx, rfl, rfl⟩
    | some v =>
      obtain ⟨id, rest⟩ := v
      obtain ⟨pre, hpre, hplen⟩ := lexeme_consumes hlx
      obtain ⟨hinv', hwin', hrem', hsrc', hcap'⟩ := ainv_advance h hP hpre
      have hfull : lexeme (a.remaining data) = some (id, (a.advanceTo rest).remaining data) := by
        rw [hrem, hrem']; exact lexeme_stable hlx
      simp only
      rcases skips_inv hs hfull with ⟨c1, c2, c3⟩ | ⟨c1, c2⟩
      · rw [if_pos ⟨c1, c2⟩]
        exact ⟨hinv', c3.symm, hsrc', hcap'⟩
      · rw [if_neg c1]
        have hpl := congrArg List.length hpre
        simp only [List.length_append] at hpl
        have := ih (a.advanceTo rest) (depthAfter id depth) hinv' (by rw [hcap']; exact hP) c2
          (by rw [hcap']; exact skipFits_tail hfit hfull c1) (by rw [hwin']; omega)
        revert this
        generalize AReader.skipScan sf (a.advanceTo rest) (depthAfter id depth) = res
        intro this
        cases res with
        | returned a2 => exact ⟨this.1, this.2.1, by rw [this.2.2.1, hsrc'], by rw [this.2.2.2, hcap']⟩
        | refill a2 d2 =>
          obtain ⟨a1, a2', a3, a4, a5, a6⟩ := this
          exact ⟨a1, a2', a3, a4, by rw [a5, hsrc'], by rw [a6, hcap']⟩

/-- outcome of the abstract `skip_container` relative to where the lexeme walk ends -/
def ASkipPost (data r : Bytes) (res : Except ReaderError Unit) (a' : AReader P) : Prop :=
  match res with
  | .ok () => a'.remaining data = r
  | .error e =>
    e.kind = .read ∧ e.position = a'.position ∧
    ∃ depth', Skips (a'.remaining data) depth' r ∧ SkipFits a'.cap (a'.remaining data) depth'

/-- `skip_container` for every policy, any well-formed schedule (faults included) -/
theorem askip_faulty (data r : Bytes) (fuel : Nat) (a : AReader P) (depth : Nat) (h : AInv a data)
    (hP : P.Contract a.cap) (hs : Skips (a.remaining data) depth r)
    (hfit : SkipFits a.cap (a.remaining data) depth) (hfuel : a.src.rest.length < fuel) :
    AInv (AReader.skipLoop fuel a depth).2 data ∧ (AReader.skipLoop fuel a depth).2.cap = a.cap ∧
    ASkipPost data r (AReader.skipLoop fuel a depth).1 (AReader.skipLoop fuel a depth).2 := by
  induction fuel generalizing a depth with
  | zero => omega
  | succ fuel ih =>
    unfold AReader.skipLoop
    have hsc := ascan_spec data r (a.window.length / 2 + 1) a depth h hP hs hfit (by omega)
    revert hsc
    generalize AReader.skipScan (a.window.length / 2 + 1) a depth = res
    intro hsc
    cases res with
    | returned a' => exact ⟨hsc.1, hsc.2.2.2, hsc.2.1⟩
    | refill a1 depth1 =>
      obtain ⟨h1, hs1, hfit1, hnone, hsrc1, hcap1⟩ := hsc
      simp only
      have hrem1 := aremaining_eq h1
      have hexh : a1.src.rest = [] → False := by
        intro hs0
        rw [hrem1, hs0, List.append_nil] at hs1
        exact skips_lexeme hs1 hnone
      rcases afill_cases a1 data h1 (by rw [hcap1]; exact hP) with ⟨hfull, hfb⟩ |
        ⟨hlt, n, a', hfb, hinv', hcap', hpos', hwin', hrest', hn, hz, hwc⟩ |
        ⟨hlt, a', hfb, hinv', hcap', hpos', hwin', hrest'⟩
      · exfalso
        have := skipFits_head hfit1 a1.window.length (by rw [hrem1]; simp)
          (by rw [hrem1, List.take_left' rfl]; exact hnone)
        omega
      · rw [hfb]
        simp only
        by_cases hn0 : n = 0
        · exact absurd (hz hn0) (fun hh => hexh hh)
        · rw [if_neg hn0]
          have hremeq : a'.remaining data = a1.remaining data := by simp only [AReader.remaining, hpos']
          obtain ⟨i1, i2, i3⟩ := ih a' depth1 hinv' (by rw [hcap', hcap1]; exact hP) (by rw [hremeq]; exact hs1)
            (by rw [hcap', hremeq]; exact hfit1)
            (by
              have e1 : a1.src.rest.length = a.src.rest.length := by rw [hsrc1]
              rw [hrest', List.length_drop]
              omega)
          exact ⟨i1, by rw [i2, hcap', hcap1], i3⟩
      · rw [hfb]
        simp only
        have hremeq : a'.remaining data = a1.remaining data := by simp only [AReader.remaining, hpos']
        refine ⟨hinv', by rw [hcap', hcap1], ?_⟩
        simp only [ASkipPost]
        exact ⟨trivial, trivial, depth1, by rw [hremeq]; exact hs1, by rw [hcap', hremeq]; exact hfit1⟩

theorem afill_nofaults (a : AReader P) (h : Src.NoFaults a.src.sched) :
    a.fill.1 ≠ .error .io ∧ Src.NoFaults a.fill.2.src.sched := by
  unfold AReader.fill
  by_cases hfull : a.window.length ≥ a.cap
  · rw [if_pos hfull]; exact ⟨by simp, h⟩
  · rw [if_neg hfull]
    obtain ⟨bytes, s', hr, hnf⟩ := read_nofaults a.src (P.req a.cap a.st a.window.length) h
    rw [hr]
    exact ⟨by simp, hnf⟩

/-- the reader a scan result carries -/
def scanReader : AReader.ScanRes P → AReader P
  | .returned a => a
  | .refill a _ => a

theorem ascan_src (sf : Nat) (a : AReader P) (depth : Nat) :
    (scanReader (AReader.skipScan sf a depth)).src = a.src := by
  induction sf generalizing a depth with
  | zero => rfl
  | succ sf ih =>
    rw [AReader.skipScan]
    cases lexeme a.window with
    | none => rfl
    | some v =>
      obtain ⟨id, rest⟩ := v
      simp only
      by_cases hc : id = CLOSE ∧ depth - 1 = 0
      · rw [if_pos hc]; rfl
      · rw [if_neg hc, ih]; rfl

theorem askip_nofaults (fuel : Nat) (a : AReader P) (depth : Nat) (h : Src.NoFaults a.src.sched) :
    ∀ p, (AReader.skipLoop fuel a depth).1 ≠ .error ⟨p, .read⟩ := by
  induction fuel generalizing a depth with
  | zero => simp [AReader.skipLoop]
  | succ fuel ih =>
    unfold AReader.skipLoop
    have hsrc := ascan_src (a.window.length / 2 + 1) a depth
    revert hsrc
    generalize AReader.skipScan (a.window.length / 2 + 1) a depth = res
    intro hsrc
    cases res with
    | returned a' => simp
    | refill a1 depth1 =>
      simp only [scanReader] at hsrc
      simp only
      obtain ⟨f1, f2⟩ := afill_nofaults a1 (by rw [hsrc]; exact h)
      revert f1 f2
      generalize a1.fill = out
      obtain ⟨r, a'⟩ := out
      intro f1 f2
      simp only at f1 f2 ⊢
      cases r with
      | ok n =>
        simp only
        by_cases hn : n = 0
        · rw [if_pos hn]; simp
        · rw [if_neg hn]; exact ih a' depth1 f2
      | error e =>
        cases e with
        | io => exact absurd rfl f1
        | bufferFull => simp

theorem acalls_inv (data : Bytes) (n : Nat) (a : AReader P) (h : AInv a data) (hP : P.Contract a.cap) :
    AInv (AReader.calls n a).2 data ∧ (AReader.calls n a).2.cap = a.cap := by
  induction n generalizing a with
  | zero => exact ⟨h, rfl⟩
  | succ n ih =>
    obtain ⟨i1, i2, _⟩ := anext_spec data a.fuelFor a h hP (by simp [AReader.fuelFor])
    unfold AReader.calls
    revert i1 i2
    generalize AReader.next a.fuelFor a = out
    obtain ⟨res, a'⟩ := out
    intro i1 i2
    simp only at i1 i2
    obtain ⟨j1, j2⟩ := ih a' i1 (by rw [i2]; exact hP)
    cases res with
    | ok o => cases o <;> exact ⟨j1, by rw [j2, i2]⟩
    | error e => exact ⟨j1, by rw [j2, i2]⟩

/-- **`skip_container` = the lexer's skip, for every buffer policy.**  From any abstract reader
state satisfying the invariant (initially, and after any `next` / `skip_container` calls), if the
slice lexer's `skip_container` on the bytes still to be seen succeeds and leaves `l'`, and the
lexemes on the way fit: under any well-formed schedule the abstract `skip_container` either lands
exactly there (same unread input, same position) or returns the I/O error (position ≤ delivered,
the walk still pending at the depth reached); under a fault-free schedule it lands there. -/
theorem askip_any (data : Bytes) (a : AReader P) (l' : Lexer) (h : AInv a data) (hP : P.Contract a.cap)
    (hfit : SkipFits a.cap (a.remaining data) 1)
    (hlex : (Lexer.mk (a.remaining data) data.length).skipContainer = some (.ok (), l')) :
    AInv a.skipContainer.2 data ∧ a.skipContainer.2.position ≤ a.skipContainer.2.src.delivered ∧
    ((a.skipContainer.1 = .ok () ∧ a.skipContainer.2.remaining data = l'.data ∧
        a.skipContainer.2.position = l'.position) ∨
     (a.skipContainer.1 = .error ⟨a.skipContainer.2.position, .read⟩ ∧
        ∃ depth', Skips (a.skipContainer.2.remaining data) depth' l'.data)) ∧
    (Src.NoFaults a.src.sched → a.skipContainer.1 = .ok ()) := by
  unfold Lexer.skipContainer at hlex
  obtain ⟨hsk, hL⟩ := lexer_skips _ _ _ _ _ hlex
  obtain ⟨i1, i2, i3⟩ := askip_faulty data l'.data a.fuelFor a 1 h hP hsk hfit (by simp [AReader.fuelFor])
  have hnf := askip_nofaults a.fuelFor a 1
  have hout : a.skipContainer = AReader.skipLoop a.fuelFor a 1 := rfl
  rw [hout]
  revert i1 i2 i3 hnf
  generalize AReader.skipLoop a.fuelFor a 1 = out
  obtain ⟨res, a'⟩ := out
  intro i1 i2 i3 hnf
  simp only at i1 i2 i3 hnf ⊢
  refine ⟨i1, by rw [i1.deliv]; omega, ?_, ?_⟩
  · cases res with
    | ok u =>
      left
      simp only [ASkipPost] at i3
      refine ⟨rfl, i3, ?_⟩
      have hple := i1.ple
      have hlen := congrArg List.length i3
      simp only [AReader.remaining, List.length_drop] at hlen
      simp only [Lexer.position, hL]
      omega
    | error e =>
      right
      simp only [ASkipPost] at i3
      obtain ⟨c1, c2, d', c3, _⟩ := i3
      exact ⟨by rw [← c2, ← c1], d', c3⟩
  · intro hn
    cases res with
    | ok u => rfl
    | error e =>
      simp only [ASkipPost] at i3
      obtain ⟨c1, c2, _⟩ := i3
      exact absurd (by rw [← c2, ← c1]) (hnf hn a'.position)

end Jomini.BinReader
