import JominiModel.Proofs.BinTapeReuse
import JominiModel.Proofs.BinTapeFaithful
import JominiModel.Proofs.BinTapeNested
/-
C03: the key KIND is unobservable.  A plain token on the tape is only carried along: the loop looks at
tape tokens only to ask "container start / End / something else?".  Hence two runs whose tapes agree
position by position up to one plain token swapped for another plain token (`RelT`) stay in step
(`step_rel`, `run_rel`); in particular inputs that differ in their first scalar lexeme only.
-/
namespace Jomini.BinTape
open Jomini

variable {a b : BTok}


/-- two tapes that agree position by position, except that where the first has `a` the second may have `b` -/
inductive RelT (a b : BTok) : Tape → Tape → Prop
  | nil : RelT a b [] []
  | same (x : BTok) {l1 l2 : Tape} : RelT a b l1 l2 → RelT a b (x :: l1) (x :: l2)
  | swap {l1 l2 : Tape} : RelT a b l1 l2 → RelT a b (a :: l1) (b :: l2)

/-- related tokens: equal, or the swapped pair -/
def RelX (a b x y : BTok) : Prop := x = y ∨ (x = a ∧ y = b)


theorem RelT.refl : ∀ (l : Tape), RelT a b l l
  | [] => .nil
  | x :: l => .same x (RelT.refl l)

theorem RelT.length {l1 l2 : Tape} (h : RelT a b l1 l2) : l1.length = l2.length := by
  induction h <;> simp [*]

theorem RelT.append {l1 l2 m1 m2 : Tape} (h : RelT a b l1 l2) (h' : RelT a b m1 m2) : RelT a b (l1 ++ m1) (l2 ++ m2) := by
  induction h with
  | nil => simpa using h'
  | same x _ ih => exact .same x ih
  | swap _ ih => exact .swap ih

theorem RelT.snoc {l1 l2 : Tape} (h : RelT a b l1 l2) (x : BTok) : RelT a b (l1 ++ [x]) (l2 ++ [x]) :=
  h.append (RelT.refl [x])

theorem RelT.get {l1 l2 : Tape} (h : RelT a b l1 l2) : ∀ (i : Nat),
    (l1[i]? = none ∧ l2[i]? = none) ∨ ∃ x y, l1[i]? = some x ∧ l2[i]? = some y ∧ RelX a b x y := by
  induction h with
  | nil => intro i; exact Or.inl ⟨rfl, rfl⟩
  | same x _ ih =>
    intro i
    cases i with
    | zero => exact Or.inr ⟨x, x, rfl, rfl, Or.inl rfl⟩
    | succ i => simpa using ih i
  | swap _ ih =>
    intro i
    cases i with
    | zero => exact Or.inr ⟨a, b, rfl, rfl, Or.inr ⟨rfl, rfl⟩⟩
    | succ i => simpa using ih i

theorem RelT.set {l1 l2 : Tape} (h : RelT a b l1 l2) : ∀ (i : Nat) (x : BTok), RelT a b (l1.set i x) (l2.set i x) := by
  induction h with
  | nil => intro i x; exact .nil
  | same y _ ih =>
    intro i x
    cases i with
    | zero => exact .same x ‹_›
    | succ i => exact .same y (ih i x)
  | swap _ ih =>
    intro i x
    cases i with
    | zero => exact .same x ‹_›
    | succ i => exact .swap (ih i x)

theorem RelT.take {l1 l2 : Tape} (h : RelT a b l1 l2) : ∀ (n : Nat), RelT a b (l1.take n) (l2.take n) := by
  induction h with
  | nil => intro n; simpa using RelT.nil
  | same y _ ih =>
    intro n
    cases n with
    | zero => exact .nil
    | succ n => exact .same y (ih n)
  | swap _ ih =>
    intro n
    cases n with
    | zero => exact .nil
    | succ n => exact .swap (ih n)

theorem RelT.drop {l1 l2 : Tape} (h : RelT a b l1 l2) : ∀ (n : Nat), RelT a b (l1.drop n) (l2.drop n) := by
  induction h with
  | nil => intro n; simpa using RelT.nil
  | same y h' ih =>
    intro n
    cases n with
    | zero => exact .same y h'
    | succ n => exact ih n
  | swap h' ih =>
    intro n
    cases n with
    | zero => exact .swap h'
    | succ n => exact ih n

/-- `Vec::pop` on related tapes -/
theorem RelT.pop {l1 l2 : Tape} (h : RelT a b l1 l2) :
    (pop? l1 = none ∧ pop? l2 = none) ∨
    ∃ t1 x t2 y, pop? l1 = some (t1, x) ∧ pop? l2 = some (t2, y) ∧ RelT a b t1 t2 ∧ RelX a b x y := by
  rcases List.eq_nil_or_concat l1 with h1 | ⟨t1, x, h1⟩
  · subst h1
    have : l2 = [] := by have := h.length; cases l2 <;> simp_all
    subst this; exact Or.inl ⟨rfl, rfl⟩
  · rw [List.concat_eq_append] at h1; subst h1
    rcases List.eq_nil_or_concat l2 with h2 | ⟨t2, y, h2⟩
    · subst h2; have := h.length; simp at this
    · rw [List.concat_eq_append] at h2; subst h2
      have hlen := h.length
      simp at hlen
      refine Or.inr ⟨t1, x, t2, y, pop?_snoc t1 x, pop?_snoc t2 y, ?_, ?_⟩
      · have := h.take t1.length
        simpa [hlen] using this
      · rcases h.get t1.length with ⟨h3, _⟩ | ⟨x', y', h3, h4, h5⟩
        · simp at h3
        · simp at h3; rw [hlen] at h4; simp at h4; subst h3; subst h4; exact h5

/-- the only_empties test does not see a plain token swapped for another plain token -/
theorem RelT.allEmptyPairs (ha : a.isPlain = true) (hb : b.isPlain = true) :
    ∀ {l1 l2 : Tape}, RelT a b l1 l2 → allEmptyPairs l1 = allEmptyPairs l2
  | _, _, .nil => rfl
  | _, _, .same x .nil => rfl
  | _, _, .swap .nil => by simp [BinTape.allEmptyPairs]
  | _, _, .same x (.same y h) => by
    cases x <;> cases y <;> simp [BinTape.allEmptyPairs, RelT.allEmptyPairs ha hb h]
  | _, _, .same x (.swap h) => by
    cases x <;> cases a <;> cases b <;> simp_all [BinTape.allEmptyPairs, BTok.isPlain]
  | _, _, .swap (.same y h) => by
    cases a <;> cases b <;> simp_all [BinTape.allEmptyPairs, BTok.isPlain]
  | _, _, .swap (.swap h) => by
    cases a <;> cases b <;> simp_all [BinTape.allEmptyPairs, BTok.isPlain]


def RelSt (a b : BTok) (s1 s2 : St) : Prop :=
  RelT a b s1.tape s2.tape ∧ s1.parent = s2.parent ∧ s1.state = s2.state ∧ s1.data = s2.data

/-- related results: the same error, or related states -/
def RelR (a b : BTok) (r1 r2 : Except Err St) : Prop :=
  (∀ e, r1 = .error e → r2 = .error e) ∧ (∀ s1, r1 = .ok s1 → ∃ s2, r2 = .ok s2 ∧ RelSt a b s1 s2)

theorem relR_err (e : Err) : RelR a b (.error e) (.error e) :=
  ⟨fun e' h => by simpa using h, fun s h => by simp at h⟩

theorem relR_ok {s1 s2 : St} (h : RelSt a b s1 s2) : RelR a b (.ok s1) (.ok s2) :=
  ⟨fun e h' => by simp at h', fun s h' => by simp at h'; subst h'; exact ⟨s2, rfl, h⟩⟩

theorem RelX.notStruct (ha : a.isPlain = true) (hb : b.isPlain = true) {x y : BTok} (h : RelX a b x y) :
    (∀ e, x = .array e ↔ y = .array e) ∧ (∀ e, x = .object e ↔ y = .object e) ∧ (∀ i, x = .end_ i ↔ y = .end_ i) := by
  rcases h with rfl | ⟨rfl, rfl⟩
  · exact ⟨fun _ => Iff.rfl, fun _ => Iff.rfl, fun _ => Iff.rfl⟩
  · refine ⟨fun e => ⟨?_, ?_⟩, fun e => ⟨?_, ?_⟩, fun e => ⟨?_, ?_⟩⟩ <;> intro h <;> subst h <;>
      simp [BTok.isPlain] at ha hb

theorem scalarArm_rel {P : Tape → Bytes → Except Err (Tape × Bytes)} (hP : Appender P) {t1 t2 : Tape}
    (h : RelT a b t1 t2) (parent : Nat) (state : PState) (d : Bytes) :
    RelR a b (scalarArm (P t1 d) parent state) (scalarArm (P t2 d) parent state) := by
  rw [hP t1 d, hP t2 d]
  unfold scalarArm
  cases P [] d with
  | error e => exact relR_err e
  | ok p =>
    obtain ⟨t, r⟩ := p
    simp only
    cases nextState state with
    | none => exact relR_err _
    | some s' => exact relR_ok ⟨h.append (RelT.refl t), rfl, rfl, rfl⟩

theorem closeTo_rel (ha : a.isPlain = true) (hb : b.isPlain = true) {t1 t2 : Tape} (h : RelT a b t1 t2) (g : Nat) (d : Bytes) :
    RelR a b (match closeTo t1 g with | .error e => .error e | .ok (t, p, s) => .ok ⟨t, p, s, d⟩)
             (match closeTo t2 g with | .error e => .error e | .ok (t, p, s) => .ok ⟨t, p, s, d⟩) := by
  unfold closeTo
  rcases h.get g with ⟨h1, h2⟩ | ⟨x, y, h1, h2, hx⟩
  · rw [h1, h2]; exact relR_err _
  · rw [h1, h2]
    have hs := (hx.notStruct ha hb).1
    cases x with
    | array e =>
      have := (hs e).mp rfl; subst this
      exact relR_ok ⟨h, rfl, rfl, rfl⟩
    | _ =>
      cases y with
      | array e => have := (hs e).mpr rfl; cases this
      | _ => exact relR_ok ⟨h, rfl, rfl, rfl⟩

theorem pushEnd_rel (ha : a.isPlain = true) (hb : b.isPlain = true) {t1 t2 : Tape} (h : RelT a b t1 t2) (p : Nat) (d : Bytes) :
    RelR a b (match pushEnd t1 p with | .error e => .error e | .ok (t, p', s) => .ok ⟨t, p', s, d⟩)
             (match pushEnd t2 p with | .error e => .error e | .ok (t, p', s) => .ok ⟨t, p', s, d⟩) := by
  unfold pushEnd
  have hlen := h.length
  rcases h.get p with ⟨h1, h2⟩ | ⟨x, y, h1, h2, hx⟩
  · rw [h1, h2]; exact relR_err _
  · rw [h1, h2]
    obtain ⟨hs1, hs2, _⟩ := hx.notStruct ha hb
    cases x with
    | array e =>
      have := (hs1 e).mp rfl; subst this
      simp only [hlen]
      exact closeTo_rel ha hb ((h.set p _).snoc _) e d
    | object e =>
      have := (hs2 e).mp rfl; subst this
      simp only [hlen]
      exact closeTo_rel ha hb ((h.set p _).snoc _) e d
    | _ =>
      cases y with
      | array e => have := (hs1 e).mpr rfl; cases this
      | object e => have := (hs2 e).mpr rfl; cases this
      | _ => exact relR_err _


/-- related tape results -/
def RelTR (a b : BTok) (r1 r2 : Except Err Tape) : Prop :=
  (∀ e, r1 = .error e → r2 = .error e) ∧ (∀ t1, r1 = .ok t1 → ∃ t2, r2 = .ok t2 ∧ RelT a b t1 t2)

theorem setParentToObject_rel (ha : a.isPlain = true) (hb : b.isPlain = true) {t1 t2 : Tape} (h : RelT a b t1 t2) (p : Nat) :
    RelTR a b (setParentToObject t1 p) (setParentToObject t2 p) := by
  unfold setParentToObject
  rcases h.get p with ⟨h1, h2⟩ | ⟨x, y, h1, h2, hx⟩
  · rw [h1, h2]; exact ⟨fun e h => by simpa using h, fun t h => by simp at h⟩
  · rw [h1, h2]
    have hs := (hx.notStruct ha hb).1
    cases x with
    | array e =>
      have := (hs e).mp rfl; subst this
      exact ⟨fun e' h' => by simp at h', fun t h' => by simp at h'; subst h'; exact ⟨_, rfl, h.set p _⟩⟩
    | _ =>
      cases y with
      | array e => have := (hs e).mpr rfl; cases this
      | _ => exact ⟨fun e h => by simpa using h, fun t h => by simp at h⟩

theorem mixedInsert1_rel {t1 t2 : Tape} (h : RelT a b t1 t2) : RelTR a b (mixedInsert1 t1) (mixedInsert1 t2) := by
  unfold mixedInsert1
  rcases h.pop with ⟨h1, h2⟩ | ⟨u1, x, u2, y, h1, h2, hr, hx⟩
  · rw [h1, h2]; exact ⟨fun e h => by simpa using h, fun t h => by simp at h⟩
  · rw [h1, h2]
    refine ⟨fun e h' => by simp at h', fun t h' => ?_⟩
    simp at h'; subst h'
    refine ⟨_, rfl, hr.append (.same .mixed ?_)⟩
    rcases hx with rfl | ⟨rfl, rfl⟩
    · exact RelT.refl _
    · exact .swap .nil

theorem mixedInsert2_rel {t1 t2 : Tape} (h : RelT a b t1 t2) : RelTR a b (mixedInsert2 t1) (mixedInsert2 t2) := by
  unfold mixedInsert2
  rcases h.pop with ⟨h1, h2⟩ | ⟨u1, x, u2, y, h1, h2, hr, hx⟩
  · rw [h1, h2]; exact ⟨fun e h => by simpa using h, fun t h => by simp at h⟩
  · rw [h1, h2]
    simp only
    rcases hr.pop with ⟨g1, g2⟩ | ⟨v1, x', v2, y', g1, g2, hr', hx'⟩
    · rw [g1, g2]; exact ⟨fun e h => by simpa using h, fun t h => by simp at h⟩
    · rw [g1, g2]
      refine ⟨fun e h' => by simp at h', fun t h' => ?_⟩
      simp at h'; subst h'
      have r1 : RelT a b [x'] [y'] := by
        rcases hx' with rfl | ⟨rfl, rfl⟩
        · exact RelT.refl _
        · exact .swap .nil
      have r2 : RelT a b [x] [y] := by
        rcases hx with rfl | ⟨rfl, rfl⟩
        · exact RelT.refl _
        · exact .swap .nil
      refine ⟨_, rfl, ?_⟩
      have := hr'.append ((RelT.refl [BTok.mixed]).append (r1.append r2))
      simpa using this

theorem relR_of_TR {r1 r2 : Except Err Tape} (h : RelTR a b r1 r2) (k1 k2 : Tape → Except Err St)
    (hk : ∀ t1 t2, RelT a b t1 t2 → RelR a b (k1 t1) (k2 t2)) :
    RelR a b (match (generalizing := false) r1 with | .error e => .error e | .ok t => k1 t)
             (match (generalizing := false) r2 with | .error e => .error e | .ok t => k2 t) := by
  cases r1 with
  | error e => rw [h.1 e rfl]; exact relR_err e
  | ok t1 =>
    obtain ⟨t2, h2, hr⟩ := h.2 t1 rfl
    rw [h2]; exact hk t1 t2 hr

theorem openArm_rel {t1 t2 : Tape} (h : RelT a b t1 t2) (parent : Nat) (state : PState) (d : Bytes) :
    RelR a b (openArm t1 parent state d) (openArm t2 parent state d) := by
  unfold openArm
  have hlen := h.length
  split
  · rw [hlen]; exact relR_ok ⟨h.snoc _, rfl, rfl, rfl⟩
  · have hemp : t1.isEmpty = t2.isEmpty := by cases t1 <;> cases t2 <;> simp_all
    rw [hemp]
    split
    · exact relR_err _
    · cases readId d with
      | none => exact relR_err _
      | some p =>
        obtain ⟨x, nd⟩ := p
        simp only
        split
        · exact relR_ok ⟨h, rfl, rfl, rfl⟩
        · exact relR_err _

theorem closeArm_rel (ha : a.isPlain = true) (hb : b.isPlain = true) {t1 t2 : Tape} (h : RelT a b t1 t2)
    (parent : Nat) (state : PState) (d : Bytes) :
    RelR a b (closeArm t1 parent state d) (closeArm t2 parent state d) := by
  have okT : RelTR a b (.ok t1) (.ok t2) := ⟨fun e h' => by simp at h', fun t h' => by simp at h'; subst h'; exact ⟨t2, rfl, h⟩⟩
  have errT : ∀ e, RelTR a b (.error e) (.error e) := fun e => ⟨fun e' h' => by simpa using h', fun t h' => by simp at h'⟩
  unfold closeArm
  cases state
  case keyValueSeparator => exact relR_of_TR (mixedInsert1_rel h) _ _ (fun u1 u2 hu => pushEnd_rel ha hb hu parent d)
  case objectValue => exact relR_of_TR (errT _) _ _ (fun u1 u2 hu => pushEnd_rel ha hb hu parent d)
  all_goals exact relR_of_TR okT _ _ (fun u1 u2 hu => pushEnd_rel ha hb hu parent d)

theorem equalArm_rel (ha : a.isPlain = true) (hb : b.isPlain = true) {t1 t2 : Tape} (h : RelT a b t1 t2)
    (parent : Nat) (state : PState) (d : Bytes) :
    RelR a b (equalArm t1 parent state d) (equalArm t2 parent state d) := by
  unfold equalArm
  cases state
  case keyValueSeparator => exact relR_ok ⟨h, rfl, rfl, rfl⟩
  case openSecond =>
    exact relR_of_TR (setParentToObject_rel ha hb h parent) (fun t => .ok ⟨t, parent, .objectValue, d⟩)
      (fun t => .ok ⟨t, parent, .objectValue, d⟩) (fun u1 u2 hu => relR_ok ⟨hu, rfl, rfl, rfl⟩)
  case arrayValueMixed => exact relR_ok ⟨h.snoc _, rfl, rfl, rfl⟩
  case arrayValue =>
    simp only
    rcases h.pop with ⟨h1, h2⟩ | ⟨u1, x, u2, y, h1, h2, hr, hx⟩
    · rw [h1, h2]; exact relR_err _
    · rw [h1, h2]
      simp only
      obtain ⟨hs1, _, hs3⟩ := hx.notStruct ha hb
      have rxy : RelT a b [x] [y] := by
        rcases hx with rfl | ⟨rfl, rfl⟩
        · exact RelT.refl _
        · exact .swap .nil
      have hoe : onlyEmpties u1 parent = onlyEmpties u2 parent := by
        unfold onlyEmpties
        have hd := hr.drop (parent + 1)
        simp only [hd.length, RelT.allEmptyPairs ha hb hd]
      have body : RelR a b
          (if onlyEmpties u1 parent = true then
            match setParentToObject u1 parent with
            | .error e => .error e
            | .ok t2 => .ok ⟨t2.take (parent + 1) ++ [x], parent, .objectValue, d⟩
          else .ok ⟨u1 ++ [.mixed, x, .equal], parent, .arrayValueMixed, d⟩)
          (if onlyEmpties u2 parent = true then
            match setParentToObject u2 parent with
            | .error e => .error e
            | .ok t2 => .ok ⟨t2.take (parent + 1) ++ [y], parent, .objectValue, d⟩
          else .ok ⟨u2 ++ [.mixed, y, .equal], parent, .arrayValueMixed, d⟩) := by
        rw [hoe]
        split
        · exact relR_of_TR (setParentToObject_rel ha hb hr parent)
            (fun t => .ok ⟨t.take (parent + 1) ++ [x], parent, .objectValue, d⟩)
            (fun t => .ok ⟨t.take (parent + 1) ++ [y], parent, .objectValue, d⟩)
            (fun v1 v2 hv => relR_ok ⟨(hv.take _).append rxy, rfl, rfl, rfl⟩)
        · refine relR_ok ⟨?_, rfl, rfl, rfl⟩
          have := hr.append ((RelT.refl [BTok.mixed]).append (rxy.append (RelT.refl [BTok.equal])))
          simpa using this
      cases x with
      | array e => have := (hs1 e).mp rfl; subst this; exact relR_err _
      | end_ i => have := (hs3 i).mp rfl; subst this; exact relR_err _
      | _ =>
        cases y with
        | array e => have := (hs1 e).mpr rfl; cases this
        | end_ i => have := (hs3 i).mpr rfl; cases this
        | _ => exact body
  all_goals exact relR_err _


theorem tokenArm_rel (ha : a.isPlain = true) (hb : b.isPlain = true) {t1 t2 : Tape} (h : RelT a b t1 t2)
    (parent : Nat) (state : PState) (d : Bytes) (tok : Nat) :
    RelR a b (tokenArm false 0 t1 parent state d tok) (tokenArm false 0 t2 parent state d tok) := by
  have sc : ∀ P, Appender P → RelR a b (scalarArm (P t1 d) parent state) (scalarArm (P t2 d) parent state) :=
    fun P hP => scalarArm_rel hP h parent state d
  unfold tokenArm
  by_cases c1 : tok = L.u32
  · rw [if_pos c1, if_pos c1]; exact sc _ appender_u32
  rw [if_neg c1, if_neg c1]
  by_cases c2 : tok = L.u64
  · rw [if_pos c2, if_pos c2]; exact sc _ appender_u64
  rw [if_neg c2, if_neg c2]
  by_cases c3 : tok = L.i32
  · rw [if_pos c3, if_pos c3]
    have h3 := sc _ appender_i32
    cases h1 : scalarArm (parseI32 t1 d) parent state with
    | error e => rw [h3.1 e h1]; exact relR_err e
    | ok s1 =>
      obtain ⟨s2, h2, hr⟩ := h3.2 s1 h1
      rw [h2]; simp; exact relR_ok hr
  rw [if_neg c3, if_neg c3]
  by_cases c4 : tok = L.bool
  · rw [if_pos c4, if_pos c4]; exact sc _ appender_bool
  rw [if_neg c4, if_neg c4]
  by_cases c5 : tok = L.quoted
  · rw [if_pos c5, if_pos c5]; exact sc _ appender_quoted
  rw [if_neg c5, if_neg c5]
  by_cases c6 : tok = L.unquoted
  · rw [if_pos c6, if_pos c6]; exact sc _ appender_unquoted
  rw [if_neg c6, if_neg c6]
  by_cases c7 : tok = L.f32
  · rw [if_pos c7, if_pos c7]; exact sc _ appender_f32
  rw [if_neg c7, if_neg c7]
  by_cases c8 : tok = L.f64
  · rw [if_pos c8, if_pos c8]; exact sc _ appender_f64
  rw [if_neg c8, if_neg c8]
  by_cases c9 : tok = L.open_
  · rw [if_pos c9, if_pos c9]; exact openArm_rel h parent state d
  rw [if_neg c9, if_neg c9]
  by_cases c10 : tok = L.close
  · rw [if_pos c10, if_pos c10]; exact closeArm_rel ha hb h parent state d
  rw [if_neg c10, if_neg c10]
  by_cases c11 : tok = L.equal
  · rw [if_pos c11, if_pos c11]; exact equalArm_rel ha hb h parent state d
  rw [if_neg c11, if_neg c11]
  by_cases c12 : tok = L.rgb ∧ state = .objectValue
  · rw [if_pos c12, if_pos c12]
    rw [appender_rgb t1 d, appender_rgb t2 d]
    cases parseRgb [] d with
    | error e => exact relR_err e
    | ok p => obtain ⟨t, r⟩ := p; exact relR_ok ⟨h.append (RelT.refl t), rfl, rfl, rfl⟩
  rw [if_neg c12, if_neg c12]
  by_cases c13 : tok = L.i64
  · rw [if_pos c13, if_pos c13]; exact sc _ appender_i64
  rw [if_neg c13, if_neg c13]
  unfold scalarArm
  simp only
  cases nextState state with
  | none => exact relR_err _
  | some s' => exact relR_ok ⟨h.snoc _, rfl, rfl, rfl⟩

theorem dispatch_rel (ha : a.isPlain = true) (hb : b.isPlain = true) {t1 t2 : Tape} (h : RelT a b t1 t2)
    (parent : Nat) (state : PState) (d : Bytes) (tok : Nat) :
    RelR a b (dispatch false 0 t1 parent state d tok) (dispatch false 0 t2 parent state d tok) := by
  unfold dispatch
  split
  · exact relR_of_TR (mixedInsert2_rel h) _ _ (fun u1 u2 hu => tokenArm_rel ha hb hu parent .arrayValueMixed d tok)
  · exact tokenArm_rel ha hb h parent state d tok

/-- one plain iteration on related states -/
theorem step_rel (ha : a.isPlain = true) (hb : b.isPlain = true) {s1 s2 : St} (h : RelSt a b s1 s2) :
    match step s1 with
    | .done => step s2 = .done
    | .err e => step s2 = .err e
    | .next s1' => ∃ s2', step s2 = .next s2' ∧ RelSt a b s1' s2' := by
  obtain ⟨ht, hp, hs, hd⟩ := h
  cases hr : readId s1.data with
  | none => rw [step_done hr]; exact step_done (by rw [← hd]; exact hr)
  | some p =>
    obtain ⟨tok, d⟩ := p
    rw [step_eq hr, step_eq (st := s2) (by rw [← hd]; exact hr), ← hp, ← hs]
    have := dispatch_rel ha hb ht s1.parent s1.state d tok
    cases h1 : dispatch false 0 s1.tape s1.parent s1.state d tok with
    | error e => rw [this.1 e h1]; simp [Iter.ofExcept]
    | ok s1' =>
      obtain ⟨s2', h2, hr'⟩ := this.2 s1' h1
      rw [h2]; simp only [Iter.ofExcept]; exact ⟨s2', rfl, hr'⟩

theorem run_rel (ha : a.isPlain = true) (hb : b.isPlain = true) (f : Nat) : ∀ (n : Nat) (s1 s2 : St), RelSt a b s1 s2 →
    (∀ e, run false f n s1 = .error e → run false f n s2 = .error e) ∧
    (∀ T1, run false f n s1 = .ok T1 → ∃ T2, run false f n s2 = .ok T2 ∧ RelT a b T1 T2)
  | 0, s1, s2, _ => ⟨fun e h => by simpa [run] using h, fun T h => by simp [run] at h⟩
  | n + 1, s1, s2, h => by
    have hs := step_rel ha hb h
    simp only [run, iter_false]
    cases h1 : step s1 with
    | done =>
      rw [h1] at hs; rw [hs]
      simp only
      obtain ⟨ht, hp, hst, _⟩ := h
      unfold finish
      rw [← hp, ← hst]
      split
      · exact ⟨fun e h' => by simp at h', fun T h' => by simp at h'; subst h'; exact ⟨_, rfl, ht⟩⟩
      · exact ⟨fun e h' => by simpa using h', fun T h' => by simp at h'⟩
    | err e =>
      rw [h1] at hs; rw [hs]
      exact ⟨fun e' h' => by simpa using h', fun T h' => by simp at h'⟩
    | next s1' =>
      rw [h1] at hs
      obtain ⟨s2', h2, hr⟩ := hs
      rw [h2]
      exact run_rel ha hb f n s1' s2' hr

/-- **the key token is only carried along**: two inputs that differ in their first lexeme — any two
well-formed scalar lexemes, of any kind — have tapes that differ in that token only -/
theorem key_kinds_uniform (opt : Bool) (k1 k2 : Sc) (h1 : k1.wf = true) (h2 : k2.wf = true) (rest : Bytes) :
    (∀ e, parse opt (k1.encode ++ rest) = .error e → parse opt (k2.encode ++ rest) = .error e) ∧
    (∀ T1, parse opt (k1.encode ++ rest) = .ok T1 →
      ∃ T2, parse opt (k2.encode ++ rest) = .ok T2 ∧ RelT k1.tok k2.tok T1 T2) := by
  have ha := k1.tok_plain
  have hb := k2.tok_plain
  -- reduce to the reference parser, and to "enough fuel"
  have key : ∀ (k : Sc), k.wf = true → ∀ n, (k.encode ++ rest).length + 1 ≤ n → rest.length + 1 ≤ n →
      parse opt (k.encode ++ rest) = run false 0 n ⟨[k.tok], 0, .keyValueSeparator, rest⟩ := by
    intro k hk n hn1 hn2
    have e1 : parse opt (k.encode ++ rest) = parse false (k.encode ++ rest) := by
      cases opt
      · rfl
      · exact parse_true_eq_false _
    rw [e1]
    have hstep := step_sc k hk [] 0 .key .keyValueSeparator rest (by decide) nextState_key
    have hres1 : Res (init (k.encode ++ rest)) (parse false (k.encode ++ rest)) :=
      run_false_res _ _ (init (k.encode ++ rest)) (by simp [init]) (init_good _)
    have hgood : (⟨[] ++ [k.tok], 0, .keyValueSeparator, rest⟩ : St).Good :=
      (step_good (st := init (k.encode ++ rest)) (by simpa [init] using hstep) (init_good _)).1
    have hres2 : Res ⟨[] ++ [k.tok], 0, .keyValueSeparator, rest⟩ (run false 0 n ⟨[] ++ [k.tok], 0, .keyValueSeparator, rest⟩) :=
      run_false_res 0 n _ (by simpa using hn2) hgood
    have hres3 : Res (init (k.encode ++ rest)) (run false 0 n ⟨[] ++ [k.tok], 0, .keyValueSeparator, rest⟩) :=
      Res.next (by simpa [init] using hstep) hres2
    simpa using Res.det hres1 hres3
  let n := (k1.encode ++ rest).length + (k2.encode ++ rest).length + 1
  have hr := run_rel ha hb 0 n ⟨[k1.tok], 0, .keyValueSeparator, rest⟩ ⟨[k2.tok], 0, .keyValueSeparator, rest⟩
    ⟨.swap .nil, rfl, rfl, rfl⟩
  rw [key k1 h1 n (by simp [n]) (by simp [n]; omega), key k2 h2 n (by simp [n]) (by simp [n]; omega)]
  exact hr

end Jomini.BinTape
