import JominiModel.Proofs.BinTapeNested
import JominiModel.Proofs.BinTapeEq
import JominiModel.Proofs.BinDeFlat
import JominiModel.Proofs.BinDeNested
/-
End-to-end composition for C04 ∘ C03 at the model level: from the BYTES of a document to the VALUE.

The tape slice (`Model/BinTape`, `Spec/BinTapeDoc`, `C03_faithful`) speaks about byte-level documents
`BinTape.Fields` and tapes of `BinTape.BTok`; the deserializer slice (`Model/BinDe`, `Spec/BinDoc`)
about `BDoc` and `TTok`.  This file translates between them (`ofBTok`, `toBLeaf`, `toBDoc`; common
fragment: everything but object→array mixed containers, `noMixed`), proves that the two tape
specifications agree (`tapeOfBin_eq`), and composes.
-/
set_option linter.unusedSimpArgs false
namespace Jomini.BinDe
open Jomini

/-! ### translating the tape slice's types -/

/-- `BinTape.BTok` ↦ the deserializer model's tape token (same constructors, rgb packed). -/
def ofBTok : BinTape.BTok → TTok
  | .array e => .array e | .object e => .object e | .mixed => .mixed | .equal => .equal | .end_ i => .end_ i
  | .bool b => .bool b | .u32 v => .u32 v | .u64 v => .u64 v | .i64 v => .i64 v | .i32 v => .i32 v
  | .quoted b => .quoted b | .unquoted b => .unquoted b | .f32 b => .f32 b | .f64 b => .f64 b
  | .token id => .token id | .rgb r g b a => .rgb { r, g, b, a }

def toBinDeTape (t : BinTape.Tape) : List TTok := t.map ofBTok

/-- a scalar of the byte-level document ↦ a leaf of `BDoc` (payloads decoded as the tape decodes them). -/
def toBLeaf : BinTape.Sc → BLeaf
  | .id n => .id n
  | .u32 b => .u32 (BinTape.leNat b) | .u64 b => .u64 (BinTape.leNat b)
  | .i32 b => .i32 (BinTape.toSigned 32 (BinTape.leNat b)) | .i64 b => .i64 (BinTape.toSigned 64 (BinTape.leNat b))
  | .f32 b => .f32 b | .f64 b => .f64 b
  | .bool x => .bool (x != 0)
  | .quoted s => .quoted s | .unquoted s => .unquoted s

mutual
/-- documents without object→array mixed containers (`BDoc` has none). -/
def noMixedV : BinTape.Val → Bool
  | .sc _ => true | .rgb _ _ _ _ => true
  | .obj fs => noMixedF fs | .arr vs => noMixedVs vs
  | .mixed _ _ => false
def noMixedF : BinTape.Fields → Bool
  | .nil => true
  | .cons _ _ v rest => noMixedV v && noMixedF rest
def noMixedVs : BinTape.Vals → Bool
  | .nil => true
  | .cons v rest => noMixedV v && noMixedVs rest
end

mutual
def toBNode : BinTape.Val → BNode
  | .sc s => .leaf (toBLeaf s)
  | .rgb r g b a => .rgb { r := BinTape.leNat r, g := BinTape.leNat g, b := BinTape.leNat b, a := a.map BinTape.leNat }
  | .obj fs => .obj (toBFields fs)
  | .arr vs => .arr (toBNodes vs)
  | .mixed fs _ => .obj (toBFields fs)     -- outside the common fragment (`noMixed`)
def toBFields : BinTape.Fields → BFields
  | .nil => .nil
  | .cons g k v rest => .cons g (toBLeaf k) (toBNode v) (toBFields rest)
def toBNodes : BinTape.Vals → BNodes
  | .nil => .nil
  | .cons v rest => .cons (toBNode v) (toBNodes rest)
end

def toBDoc (d : BinTape.Fields) : BDoc := toBFields d

theorem ofBTok_sc (s : BinTape.Sc) : ofBTok s.tok = (toBLeaf s).ttok := by
  cases s <;> rfl

mutual
theorem tape_val (v : BinTape.Val) (h : noMixedV v = true) (base : Nat) :
    (v.tape base true).map ofBTok = tapeNode (toBNode v) base := by
  cases v with
  | sc s => simp [BinTape.Val.tape, toBNode, tapeNode, ofBTok_sc]
  | rgb r g b a => simp [BinTape.Val.tape, toBNode, tapeNode, ofBTok]
  | obj fs =>
    have ih := tape_fields fs (by simpa [noMixedV] using h) (base + 1)
    cases fs with
    | nil => simp [BinTape.Val.tape, BinTape.Fields.tape, toBNode, toBFields, tapeNode, tapeFields, ofBTok]
    | cons g k vv rest =>
      simp only [BinTape.Val.tape, toBNode, toBFields, tapeNode]
      simp only [toBFields] at ih
      rw [← ih]
      simp [BinTape.Fields.tape, ofBTok]
  | arr vs =>
    have ih := tape_vals vs (by simpa [noMixedV] using h) (base + 1)
    simp only [BinTape.Val.tape, toBNode, tapeNode]
    rw [← ih]
    simp [ofBTok]
  | mixed fs t => simp [noMixedV] at h
theorem tape_fields (fs : BinTape.Fields) (h : noMixedF fs = true) (base : Nat) :
    (fs.tape base).map ofBTok = tapeFields (toBFields fs) base := by
  cases fs with
  | nil => simp [BinTape.Fields.tape, toBFields, tapeFields]
  | cons g k v rest =>
    simp only [noMixedF, Bool.and_eq_true] at h
    have h1 := tape_val v h.1 (base + 1)
    have h2 := tape_fields rest h.2 (base + 1 + (v.tape (base + 1) true).length)
    simp only [BinTape.Fields.tape, toBFields, tapeFields]
    rw [← h1]
    simp [ofBTok_sc, h2]
theorem tape_vals (vs : BinTape.Vals) (h : noMixedVs vs = true) (base : Nat) :
    (vs.tape base).map ofBTok = tapeNodes (toBNodes vs) base := by
  cases vs with
  | nil => simp [BinTape.Vals.tape, toBNodes, tapeNodes]
  | cons v rest =>
    simp only [noMixedVs, Bool.and_eq_true] at h
    have h2 := tape_vals rest h.2 (base + (v.tape base false).length)
    cases v with
    | rgb r g b a =>
      cases a <;>
        simp [BinTape.Vals.tape, toBNodes, toBNode, tapeNodes, BinTape.Val.tape, ofBTok, Rgb.comps, RGB_ID, BinTape.L.rgb] at h2 ⊢ <;>
        simp [h2]
    | sc s =>
      have h1 := tape_val (.sc s) h.1 base
      have e : (BinTape.Val.sc s).tape base false = (BinTape.Val.sc s).tape base true := by simp [BinTape.Val.tape]
      have hlen : (tapeNode (toBNode (.sc s)) base).length = ((BinTape.Val.sc s).tape base false).length := by
        rw [← h1, List.length_map, e]
      simp only [BinTape.Vals.tape, toBNodes, List.map_append, h2]
      simp only [toBNode, tapeNodes] at hlen ⊢
      rw [hlen, e]; simp only [toBNode] at h1; rw [h1]
    | obj fs =>
      have h1 := tape_val (.obj fs) h.1 base
      have e : (BinTape.Val.obj fs).tape base false = (BinTape.Val.obj fs).tape base true := by simp [BinTape.Val.tape]
      have hlen : (tapeNode (toBNode (.obj fs)) base).length = ((BinTape.Val.obj fs).tape base false).length := by
        rw [← h1, List.length_map, e]
      simp only [BinTape.Vals.tape, toBNodes, List.map_append, h2]
      simp only [toBNode, tapeNodes] at hlen ⊢
      rw [hlen, e]; simp only [toBNode] at h1; rw [h1]
    | arr ws =>
      have h1 := tape_val (.arr ws) h.1 base
      have e : (BinTape.Val.arr ws).tape base false = (BinTape.Val.arr ws).tape base true := by simp [BinTape.Val.tape]
      have hlen : (tapeNode (toBNode (.arr ws)) base).length = ((BinTape.Val.arr ws).tape base false).length := by
        rw [← h1, List.length_map, e]
      simp only [BinTape.Vals.tape, toBNodes, List.map_append, h2]
      simp only [toBNode, tapeNodes] at hlen ⊢
      rw [hlen, e]; simp only [toBNode] at h1; rw [h1]
    | mixed fs t => simp [noMixedV] at h
end

/-- the two tape specifications agree: the tape slice's `tapeOfBin` of a byte-level document is,
token for token, the deserializer slice's `tapeOf` of the translated document. -/
theorem tapeOfBin_eq (d : BinTape.Fields) (h : noMixedF d = true) :
    toBinDeTape (BinTape.tapeOfBin d) = tapeFields (toBDoc d) 0 :=
  tape_fields d h 0

theorem tapeOf_toBDoc (d : BinTape.Fields) (h : noMixedF d = true) (hw : d.wfDoc = true) :
    tapeOf (toBDoc d) = some (toBinDeTape (BinTape.tapeOfBin d)) := by
  rw [tapeOfBin_eq d h]
  cases d with
  | nil => rfl
  | cons g k v rest =>
    simp only [BinTape.Fields.wfDoc, Bool.and_eq_true, beq_iff_eq] at hw
    obtain ⟨hg, _⟩ := hw; subst hg
    rfl

/-- BYTES → TAPE → VALUE (C03_faithful ∘ spec agreement): whatever the real-parser model returns on
the encoding of a well-formed document is the deserializer slice's tape of that document. -/
theorem parse_toBinDeTape (d : BinTape.Fields) (h : noMixedF d = true) (hw : d.wfDoc = true) (opt : Bool)
    (T : BinTape.Tape) (hp : BinTape.parse opt d.encode = .ok T) :
    toBinDeTape T = tapeFields (toBDoc d) 0 := by
  have hf : BinTape.parse opt d.encode = .ok (BinTape.tapeOfBin d) := by
    cases opt
    · exact BinTape.faithful_doc d hw
    · rw [BinTape.parse_true_eq_false]; exact BinTape.faithful_doc d hw
  rw [hf] at hp
  cases hp
  exact tapeOfBin_eq d h

/-- (C04 ∘ C03, end to end on the tape path, flat documents) from the BYTES of a well-formed flat
document — `key = scalar` fields, every scalar kind, every binary encoding of the payloads — through
the tape parser model (either variant) and the tape deserializer model to the VALUE: it is the
reference value of the document, for every resolver, strategy and leaf-like value type. -/
theorem C04_tape_end_to_end_partial (c : Cfg) (vt : Ty) (hvt : LeafTy vt) (d : BinTape.Fields)
    (hm : noMixedF d = true) (hw : d.wfDoc = true) (hfl : Flat (toBDoc d)) (opt : Bool) (T : BinTape.Tape)
    (hp : BinTape.parse opt d.encode = .ok T) :
    deTape c (.plain (.map vt)) (toBinDeTape T) = valueOfBin c (.plain (.map vt)) (toBDoc d) := by
  rw [parse_toBinDeTape d hm hw opt T hp]
  exact (flat_map_all c vt hvt (toBDoc d) hfl).1

/-- (C04 ∘ C03, end to end on the tape path, NESTED documents) from the BYTES of any well-formed
document of the common fragment — nested objects and arrays, rgb, ghosts, empty containers, every
scalar kind and payload encoding — through the tape parser model (either variant) and the tape
deserializer model to the VALUE: it is the reference value `valueOfBin` of the document, for every
resolver, strategy and fitting root request. -/
theorem C04_tape_end_to_end (c : Cfg) (ty : RootTy) (d : BinTape.Fields)
    (hm : noMixedF d = true) (hw : d.wfDoc = true) (hfit : fitsRoot c ty (toBDoc d) = true) (opt : Bool)
    (T : BinTape.Tape) (hp : BinTape.parse opt d.encode = .ok T) :
    deTape c ty (toBinDeTape T) = valueOfBin c ty (toBDoc d) := by
  rw [parse_toBinDeTape d hm hw opt T hp]
  exact C04_eq_spec_tape c ty (toBDoc d) hfit

end Jomini.BinDe
