import JominiModel.Proofs.BinDeFlat
import JominiModel.Proofs.BinDeTotal
/-
C04_eq_spec for the TAPE path on NESTED documents: `deTape c ty (tapeFields d 0) = valueOfBin c ty d`
for every document and every root request that fits it (`fitsRoot`).

Mutual structural induction over `BNode` / `BNodes` / `BFields` (`tv_node`, `tv_seq`, `tv_map`,
`tv_struct`): a node's tape sits somewhere inside the whole tape (`tape = pre ++ tapeNode n |pre| ++ suf`),
the container tokens' absolute end indices then are `|pre| + …` (`len_*`, `head_after`), `opt` layers
are peeled by `tVal_opt`, and the fuel bound is `tokens(node) + size(type) ≤ fuel`.
Not covered: token-attribute root structs; the sequential paths on nested documents
(`C04_tape_eq_ondemand` beyond flat documents).
-/
set_option linter.unusedSimpArgs false
namespace Jomini.BinDe
open Jomini

/-! ### token counts -/

mutual
def ntN : BNode → Nat
  | .leaf _ => 1
  | .rgb _ => 1
  | .obj fs => ntF fs + 2
  | .arr vs => ntS vs + 2
def ntF : BFields → Nat
  | .nil => 0
  | .cons _ _ v rest => 1 + ntN v + ntF rest
def ntS : BNodes → Nat
  | .nil => 0
  | .cons (.rgb c) rest => c.comps.length + 3 + ntS rest
  | .cons v rest => ntN v + ntS rest
end

mutual
theorem len_node (n : BNode) (s : Nat) : (tapeNode n s).length = ntN n := by
  cases n with
  | leaf l => simp [tapeNode, ntN]
  | rgb c => simp [tapeNode, ntN]
  | obj fs =>
    have := fun s' => len_fields fs s'
    cases fs with
    | nil => simp [tapeNode, ntN, ntF]
    | cons g k v rest => simp only [tapeNode, ntN]; simp [this]
  | arr vs =>
    have := fun s' => len_nodes vs s'
    simp only [tapeNode, ntN]; simp [this]
theorem len_fields (fs : BFields) (s : Nat) : (tapeFields fs s).length = ntF fs := by
  cases fs with
  | nil => simp [tapeFields, ntF]
  | cons g k v rest =>
    have h1 := fun s' => len_node v s'
    have h2 := fun s' => len_fields rest s'
    simp only [tapeFields, ntF]; simp [h1, h2]; omega
theorem len_nodes (vs : BNodes) (s : Nat) : (tapeNodes vs s).length = ntS vs := by
  cases vs with
  | nil => simp [tapeNodes, ntS]
  | cons v rest =>
    have h2 := fun s' => len_nodes rest s'
    cases v with
    | rgb c => simp only [tapeNodes, ntS]; simp [h2]; omega
    | leaf l => simp only [tapeNodes, ntS]; simp [h2, len_node]
    | obj fs => simp only [tapeNodes, ntS]; simp [h2, len_node]
    | arr ws => simp only [tapeNodes, ntS]; simp [h2, len_node]
end

theorem ntN_pos (n : BNode) : 1 ≤ ntN n := by cases n <;> simp [ntN]

/-- first token of a node's tape and where the value ends. -/
theorem head_after (n : BNode) (s : Nat) : ∃ t rest, tapeNode n s = t :: rest ∧ afterValue t s = s + ntN n := by
  cases n with
  | leaf l => exact ⟨l.ttok, [], by simp [tapeNode], by simp [afterValue_leaf, ntN]⟩
  | rgb c => exact ⟨.rgb c, [], by simp [tapeNode], by simp [afterValue, ntN]⟩
  | obj fs =>
    cases fs with
    | nil => exact ⟨_, _, by simp [tapeNode]; exact ⟨rfl, rfl⟩, by simp [afterValue, ntN, ntF]⟩
    | cons g k v rest =>
      refine ⟨_, _, by simp only [tapeNode]; exact rfl, ?_⟩
      simp [afterValue, ntN, len_fields]; omega
  | arr vs =>
    refine ⟨_, _, by simp only [tapeNode]; exact rfl, ?_⟩
    simp [afterValue, ntN, len_nodes]; omega

/-! ### `opt` layers -/

def NotOpt : Ty → Prop
  | .opt _ => False
  | _ => True

theorem stripOpt_notOpt (t : Ty) (h : NotOpt t) : stripOpt t = (0, t) := by
  cases t <;> simp [NotOpt] at h <;> simp [stripOpt]

theorem stripOpt_core (t : Ty) : NotOpt (stripOpt t).2 ∧ tySize t = tySize (stripOpt t).2 + (stripOpt t).1 := by
  cases t with
  | opt i => have ih := stripOpt_core i; simp only [stripOpt, tySize]; exact ⟨ih.1, by omega⟩
  | _ => simp [stripOpt, NotOpt]
termination_by tySize t
decreasing_by simp [tySize]

theorem wrapRes_succ (k : Nat) (r : Res String) :
    wrapRes (k + 1) r = (match wrapRes k r with | .ok v => .ok ("some(" ++ v ++ ")") | .error e => .error e) := by
  cases r <;> simp [wrapRes, wrapSome]

/-- the tape path peels `opt` layers one fuel unit each. -/
theorem tVal_opt (c : Cfg) (tape : List TTok) (idx : Nat) : ∀ (ty : Ty) (f : Nat),
    tVal c tape (f + (stripOpt ty).1) ty idx = wrapRes (stripOpt ty).1 (tVal c tape f (stripOpt ty).2 idx) := by
  intro ty
  cases ty with
  | opt i =>
    intro f
    have ih := tVal_opt c tape idx i
    have e : stripOpt (.opt i) = ((stripOpt i).1 + 1, (stripOpt i).2) := by simp [stripOpt]
    rw [e]
    simp only
    rw [show f + ((stripOpt i).1 + 1) = (f + (stripOpt i).1) + 1 by omega]
    simp only [tVal, Except.map]
    rw [ih f, wrapRes_succ]
    cases wrapRes (stripOpt i).1 (tVal c tape f (stripOpt i).2 idx) <;> rfl
  | _ => intro f; simp [stripOpt, wrapRes, wrapSome]; cases tVal c tape f _ idx <;> simp [wrapRes, wrapSome]
termination_by ty => tySize ty
decreasing_by simp [tySize]

/-! ### which requests fit a node (the tape path and the reference agree exactly there) -/

mutual
def fitsN (c : Cfg) : BNode → Ty → Bool
  | .leaf _, _ => true
  | .rgb _, ty => match (stripOpt ty).2 with
    | .map _ => false | .struct _ => false | _ => true
  | .arr vs, ty => match (stripOpt ty).2 with
    | .seq et => fitsNs c vs et
    | .any => fitsNs c vs .any
    | .map _ => vs.isNil
    | .struct _ => vs.isNil
    | _ => true
  | .obj fs, ty => match (stripOpt ty).2 with
    | .map vt => fitsMapF c fs vt
    | .struct decl => fitsStructF c fs decl
    | .any => false
    | .seq _ => false
    | _ => true
/-- array elements: no rgb block in array position (the tape does not recognise it there). -/
def fitsNs (c : Cfg) : BNodes → Ty → Bool
  | .nil, _ => true
  | .cons (.rgb _) _, _ => false
  | .cons v rest, et => fitsN c v et && fitsNs c rest et
def fitsMapF (c : Cfg) : BFields → Ty → Bool
  | .nil, _ => true
  | .cons _ _ v rest, vt => fitsN c v vt && fitsMapF c rest vt
/-- struct fields: the value of a key that names a declared field fits that field's type. -/
def fitsStructF (c : Cfg) : BFields → Fields → Bool
  | .nil, _ => true
  | .cons _ k v rest, decl =>
    (match (match leafPrim c k with | .ok p => fieldOfPrim decl false p | .error e => .error e) with
      | .ok (some i) => (match decl.get? i with | some (_, _, fty) => fitsN c v fty | none => true)
      | _ => true) && fitsStructF c rest decl
end

theorem fitsN_core (c : Cfg) (n : BNode) (ty : Ty) : fitsN c n ty = fitsN c n (stripOpt ty).2 := by
  have h := stripOpt_notOpt _ (stripOpt_core ty).1
  cases n <;> simp [fitsN, h]

/-- a leaf: every request that is not an `opt` (those are peeled first). -/
theorem tape_leaf_all (c : Cfg) (tape : List TTok) (f : Nat) (core : Ty) (h : NotOpt core) (l : BLeaf) (idx : Nat)
    (ht : tape[idx]? = some l.ttok) :
    tVal c tape (f + 1) core idx = valCoreG (binSem c) (.leaf l) core := by
  cases core <;> simp [NotOpt] at h <;>
    (cases l with
     | id n =>
       simp only [BLeaf.ttok] at ht
       simp only [tVal, ht, visitKey, valCoreG, binSem, valLeaf, u16Leaf, u16Tok, leafPrim, Except.map, enumVal]
       try (cases idPrim c n <;> simp [Except.map])
     | _ =>
       simp only [BLeaf.ttok] at ht
       simp [tVal, ht, visitKey, valCoreG, binSem, valLeaf, u16Leaf, u16Tok, leafPrim, Except.map, enumVal])

/-- an rgb block in value position. -/
theorem tape_rgb_all (c : Cfg) (tape : List TTok) (f : Nat) (core : Ty) (h : NotOpt core) (col : Rgb) (idx : Nat)
    (ht : tape[idx]? = some (.rgb col)) (hfit : fitsN c (.rgb col) core = true) :
    tVal c tape (f + 1) core idx = valCoreG (binSem c) (.rgb col) core := by
  cases core <;> simp [NotOpt] at h <;> simp [fitsN, stripOpt] at hfit <;>
    simp [tVal, ht, valCoreG, binSem, colorVisit, visitKey, u16Tok]

theorem lift_ty (c : Cfg) (tape : List TTok) (idx : Nat) (n : BNode)
    (hcore : ∀ core f, NotOpt core → fitsN c n core = true → ntN n + tySize core ≤ f →
      tVal c tape f core idx = valCoreG (binSem c) n core)
    (ty : Ty) (f : Nat) (hf : fitsN c n ty = true) (hb : ntN n + tySize ty ≤ f) :
    tVal c tape f ty idx = nodeVia (valCoreG (binSem c) n) ty := by
  obtain ⟨hno, hsz⟩ := stripOpt_core ty
  have hk : f = (f - (stripOpt ty).1) + (stripOpt ty).1 := by omega
  rw [hk, tVal_opt]
  unfold nodeVia
  rw [hcore _ _ hno (by rw [← fitsN_core]; exact hf) (by omega)]

theorem get_mid {α : Type} (pre suf X : List α) (a : α) (rest : List α) (h : X = a :: rest) :
    (pre ++ X ++ suf)[pre.length]? = some a := by
  subst h; simp

theorem get_mid1 {α : Type} (pre suf : List α) (a b : α) (rest : List α) :
    (pre ++ (a :: b :: rest) ++ suf)[pre.length + 1]? = some b := by
  simp [List.getElem?_append_right]

/-- which declared field a key names (struct requests, no token attribute). -/
def whichOf (S : Sem) (decl : Fields) (k : BLeaf) : Res (Option Nat) :=
  match S.key k with
  | .ok p => fieldOfPrim decl false p
  | .error e => .error e

/-- one step of the reference's struct loop, given the field the key names. -/
def structStepSpec (S : Sem) (rest : BFields) (decl : Fields) (slots : List (Option String)) (v : BNode)
    (w : Res (Option Nat)) : Res String :=
  match w with
  | .error e => .error e
  | .ok none => valStructG S rest decl false slots
  | .ok (some i) =>
    match slots[i]?, decl.get? i with
    | some (some _), some (name, _, _) => .error (.duplicate name)
    | some none, some (_, _, fty) =>
      match nodeVia (valCoreG S v) fty with
      | .error e => .error e
      | .ok x => valStructG S rest decl false (slots.set i (some x))
    | _, _ => .error .panic

theorem valStructG_cons_false (S : Sem) (g : Nat) (k : BLeaf) (v : BNode) (rest : BFields) (decl : Fields)
    (slots : List (Option String)) :
    valStructG S (.cons g k v rest) decl false slots = structStepSpec S rest decl slots v (whichOf S decl k) := by
  cases k <;> (simp only [valStructG, structStepSpec, whichOf]; rfl)

theorem tapeFieldKey_which (c : Cfg) (decl : Fields) (k : BLeaf) :
    tapeFieldKey c decl false k.ttok = whichOf (binSem c) decl k := by
  unfold tapeFieldKey whichOf
  rw [visitKey_leaf]
  cases k <;> rfl

mutual
theorem tv_node (c : Cfg) (n : BNode) : ∀ (tape pre suf : List TTok) (core : Ty) (f : Nat),
    tape = pre ++ tapeNode n pre.length ++ suf → NotOpt core → fitsN c n core = true → ntN n + tySize core ≤ f →
    tVal c tape f core pre.length = valCoreG (binSem c) n core := by
  intro tape pre suf core f htape hno hfit hb
  have hs := tySize_pos core
  obtain ⟨g, rfl⟩ : ∃ g, f = g + 1 := ⟨f - 1, by have := ntN_pos n; omega⟩
  cases n with
  | leaf l =>
    exact tape_leaf_all c tape g core hno l pre.length (by rw [htape]; exact get_mid pre suf _ _ [] (by simp [tapeNode]))
  | rgb col =>
    exact tape_rgb_all c tape g core hno col pre.length (by rw [htape]; exact get_mid pre suf _ _ [] (by simp [tapeNode])) hfit
  | arr vs =>
    have hlen := len_nodes vs (pre.length + 1)
    have htok : tape[pre.length]? = some (.array (pre.length + 1 + ntS vs)) := by
      rw [htape]; exact get_mid pre suf _ _ _ (by simp only [tapeNode, hlen]; rfl)
    have hsub : tape = (pre ++ [TTok.array (pre.length + 1 + ntS vs)]) ++
        tapeNodes vs (pre ++ [TTok.array (pre.length + 1 + ntS vs)]).length ++ ([TTok.end_ pre.length] ++ suf) := by
      rw [htape]; simp [tapeNode, hlen]
    have hseq := fun et acc hf hb' => tv_seq c vs tape (pre ++ [TTok.array (pre.length + 1 + ntS vs)]) ([TTok.end_ pre.length] ++ suf) et g acc hsub hf hb'
    simp only [List.length_append, List.length_singleton] at hseq
    simp only [ntN] at hb
    cases core with
    | opt i => simp [NotOpt] at hno
    | seq et =>
      simp only [fitsN, stripOpt] at hfit
      simp only [tVal, htok, valCoreG]
      rw [hseq et [] hfit (by simp [tySize] at hb; omega)]
      cases valNodesG (binSem c) vs et [] <;> rfl
    | any =>
      simp only [fitsN, stripOpt] at hfit
      simp only [tVal, htok, valCoreG]
      rw [hseq .any [] hfit (by simp [tySize] at hb ⊢; omega)]
      cases valNodesG (binSem c) vs .any [] <;> rfl
    | map vt =>
      simp only [fitsN, stripOpt] at hfit
      cases vs with
      | cons v r => simp [BNodes.isNil] at hfit
      | nil =>
        simp only [tVal, htok, valCoreG, BNodes.isNil, if_true, ntS]
        cases g with
        | zero => simp [tySize] at hb; omega
        | succ g' => simp [tMap]; decide
    | struct decl =>
      simp only [fitsN, stripOpt] at hfit
      cases vs with
      | cons v r => simp [BNodes.isNil] at hfit
      | nil =>
        simp only [tVal, htok, valCoreG, BNodes.isNil, if_true, ntS]
        cases g with
        | zero => simp [tySize] at hb; omega
        | succ g' => simp [tStruct]
    | _ => simp [tVal, htok, valCoreG, u16Tok]
  | obj fs =>
    have hlen := len_fields fs (pre.length + 1)
    simp only [ntN] at hb
    cases fs with
    | nil =>
      -- `{}`: an empty array on the tape
      have htok : tape[pre.length]? = some (.array (pre.length + 1)) := by
        rw [htape]; exact get_mid pre suf _ _ _ (by simp only [tapeNode]; rfl)
      cases core with
      | opt i => simp [NotOpt] at hno
      | seq et => simp [fitsN, stripOpt] at hfit
      | any => simp [fitsN, stripOpt] at hfit
      | map vt =>
        simp only [tVal, htok, valCoreG, valMapG]
        cases g with
        | zero => simp [tySize] at hb; omega
        | succ g' => simp [tMap]
      | struct decl =>
        simp only [tVal, htok, valCoreG, valStructG]
        cases g with
        | zero => simp [tySize] at hb; omega
        | succ g' => simp [tStruct]
      | _ => simp [tVal, htok, valCoreG, u16Tok]
    | cons gh k v rest =>
      have htok : tape[pre.length]? = some (.object (pre.length + 1 + ntF (.cons gh k v rest))) := by
        rw [htape]; exact get_mid pre suf _ _ _ (by simp only [tapeNode, hlen]; rfl)
      have hsub : tape = (pre ++ [TTok.object (pre.length + 1 + ntF (.cons gh k v rest))]) ++
          tapeFields (.cons gh k v rest) (pre ++ [TTok.object (pre.length + 1 + ntF (.cons gh k v rest))]).length ++
          ([TTok.end_ pre.length] ++ suf) := by
        rw [htape]; simp [tapeNode, hlen]
      have hmap := fun vt acc hf hb' => tv_map c (.cons gh k v rest) tape (pre ++ [TTok.object (pre.length + 1 + ntF (.cons gh k v rest))]) ([TTok.end_ pre.length] ++ suf) vt g acc hsub hf hb'
      have hst := fun decl slots hsl hf hb' => tv_struct c (.cons gh k v rest) tape (pre ++ [TTok.object (pre.length + 1 + ntF (.cons gh k v rest))]) ([TTok.end_ pre.length] ++ suf) decl g slots hsub hsl hf hb'
      simp only [List.length_append, List.length_singleton] at hmap hst
      cases core with
      | opt i => simp [NotOpt] at hno
      | seq et => simp [fitsN, stripOpt] at hfit
      | any => simp [fitsN, stripOpt] at hfit
      | map vt =>
        simp only [fitsN, stripOpt] at hfit
        simp only [tVal, htok, valCoreG]
        rw [hmap vt [] hfit (by simp [tySize] at hb; omega)]
        cases valMapG (binSem c) (.cons gh k v rest) vt [] <;> rfl
      | struct decl =>
        simp only [fitsN, stripOpt] at hfit
        simp only [tVal, htok, valCoreG]
        exact hst decl (slotsInit decl) (by simp [slotsInit]) hfit (by simp [tySize] at hb; omega)
      | _ => simp [tVal, htok, valCoreG, u16Tok]
theorem tv_seq (c : Cfg) (vs : BNodes) : ∀ (tape pre suf : List TTok) (et : Ty) (f : Nat) (acc : List String),
    tape = pre ++ tapeNodes vs pre.length ++ suf → fitsNs c vs et = true → ntS vs + tySize et + 1 ≤ f →
    tSeq c tape f et pre.length (pre.length + ntS vs) acc = valNodesG (binSem c) vs et acc := by
  intro tape pre suf et f acc htape hfit hb
  obtain ⟨g, rfl⟩ : ∃ g, f = g + 1 := ⟨f - 1, by omega⟩
  cases vs with
  | nil => simp [tSeq, ntS, valNodesG]
  | cons v rest =>
    have step : ∀ (hnr : ∀ col, v ≠ .rgb col), fitsN c v et = true → fitsNs c rest et = true →
        tapeNodes (.cons v rest) pre.length = tapeNode v pre.length ++ tapeNodes rest (pre.length + ntN v) →
        ntS (.cons v rest) = ntN v + ntS rest →
        tSeq c tape (g + 1) et pre.length (pre.length + ntS (.cons v rest)) acc = valNodesG (binSem c) (.cons v rest) et acc := by
      intro hnr hf1 hf2 hsplit hnt
      obtain ⟨t, tl, hhead, hafter⟩ := head_after v pre.length
      have hpos := ntN_pos v
      have htok : tape[pre.length]? = some t := by
        rw [htape, hsplit, hhead]; simp
      have hv : tVal c tape g et pre.length = nodeVia (valCoreG (binSem c) v) et := by
        apply lift_ty c tape pre.length v _ et g hf1 (by omega)
        intro core f' hno hfc hbc
        exact tv_node c v tape pre (tapeNodes rest (pre.length + ntN v) ++ suf) core f' (by rw [htape, hsplit]; simp) hno hfc hbc
      have hrest := tv_seq c rest tape (pre ++ tapeNode v pre.length) suf et g
      simp only [List.length_append, len_node] at hrest
      simp only [tSeq, valNodesG]
      rw [if_neg (by omega)]
      simp only [htok, hv, hafter]
      cases hx : nodeVia (valCoreG (binSem c) v) et with
      | error e => rfl
      | ok x =>
        dsimp only
        have := hrest (acc ++ [x]) (by rw [htape, hsplit]; simp) hf2 (by omega)
        rw [hnt, show pre.length + (ntN v + ntS rest) = pre.length + ntN v + ntS rest by omega]
        exact this
    cases v with
    | rgb col => simp [fitsNs] at hfit
    | leaf l =>
      simp only [fitsNs, Bool.and_eq_true] at hfit
      exact step (by intro col h; cases h) hfit.1 hfit.2 (by simp [tapeNodes, len_node]) (by simp [ntS])
    | obj fs =>
      simp only [fitsNs, Bool.and_eq_true] at hfit
      exact step (by intro col h; cases h) hfit.1 hfit.2 (by simp [tapeNodes, len_node]) (by simp [ntS])
    | arr ws =>
      simp only [fitsNs, Bool.and_eq_true] at hfit
      exact step (by intro col h; cases h) hfit.1 hfit.2 (by simp [tapeNodes, len_node]) (by simp [ntS])
theorem tv_map (c : Cfg) (fs : BFields) : ∀ (tape pre suf : List TTok) (vt : Ty) (f : Nat) (acc : List String),
    tape = pre ++ tapeFields fs pre.length ++ suf → fitsMapF c fs vt = true → ntF fs + tySize vt + 1 ≤ f →
    tMap c tape f vt pre.length (pre.length + ntF fs) acc = valMapG (binSem c) fs vt acc := by
  intro tape pre suf vt f acc htape hfit hb
  obtain ⟨g, rfl⟩ : ∃ g, f = g + 1 := ⟨f - 1, by omega⟩
  cases fs with
  | nil => simp [tMap, ntF, valMapG]
  | cons gh k v rest =>
    simp only [fitsMapF, Bool.and_eq_true] at hfit
    obtain ⟨t, tl, hhead, hafter⟩ := head_after v (pre.length + 1)
    have hpos := ntN_pos v
    have hsplit : tapeFields (.cons gh k v rest) pre.length =
        k.ttok :: (tapeNode v (pre.length + 1) ++ tapeFields rest (pre.length + 1 + ntN v)) := by
      simp [tapeFields, len_node]
    have hk : tape[pre.length]? = some k.ttok := by rw [htape, hsplit]; simp
    have hvt : tape[pre.length + 1]? = some t := by
      rw [htape, hsplit, hhead]; exact get_mid1 pre suf _ _ _
    have hv : tVal c tape g vt (pre.length + 1) = nodeVia (valCoreG (binSem c) v) vt := by
      have := lift_ty c tape (pre ++ [k.ttok]).length v (by
        intro core f' hno hfc hbc
        exact tv_node c v tape (pre ++ [k.ttok]) (tapeFields rest (pre.length + 1 + ntN v) ++ suf) core f'
          (by rw [htape, hsplit]; simp) hno hfc hbc) vt g hfit.1 (by simp only [ntF] at hb; omega)
      simpa using this
    have hrest := tv_map c rest tape (pre ++ k.ttok :: tapeNode v (pre.length + 1)) suf vt g
    simp only [List.length_append, List.length_cons, len_node] at hrest
    simp only [tMap, valMapG, ntF]
    rw [if_pos (by omega)]
    simp only [hk, hvt, visitKey_leaf, hafter]
    have hS : (binSem c).leaf = valLeaf c := rfl
    simp only [hS, valLeaf_str]
    cases hkp : leafPrim c k with
    | error e => rfl
    | ok kp =>
      dsimp only
      cases hks : visitPrim .str kp with
      | error e => rfl
      | ok ks =>
        dsimp only
        rw [hv]
        cases hx : nodeVia (valCoreG (binSem c) v) vt with
        | error e => rfl
        | ok x =>
          dsimp only
          have := hrest (acc ++ [ks ++ "=" ++ x]) (by rw [htape, hsplit, show pre.length + 1 + ntN v = pre.length + (ntN v + 1) by omega]; simp) hfit.2 (by simp only [ntF] at hb; omega)
          rw [show pre.length + (1 + ntN v + ntF rest) = pre.length + (ntN v + 1) + ntF rest by omega,
              show pre.length + 1 + ntN v = pre.length + (ntN v + 1) by omega]
          exact this
theorem tv_struct (c : Cfg) (fs : BFields) : ∀ (tape pre suf : List TTok) (decl : Fields) (f : Nat) (slots : List (Option String)),
    tape = pre ++ tapeFields fs pre.length ++ suf → slots.length = decl.length → fitsStructF c fs decl = true →
    ntF fs + tySize.fieldsSize decl + 1 ≤ f →
    tStruct c tape f decl false pre.length (pre.length + ntF fs) slots = valStructG (binSem c) fs decl false slots := by
  intro tape pre suf decl f slots htape hsl hfit hb
  obtain ⟨g, rfl⟩ : ∃ g, f = g + 1 := ⟨f - 1, by omega⟩
  cases fs with
  | nil => simp [tStruct, ntF, valStructG]
  | cons gh k v rest =>
    simp only [fitsStructF, Bool.and_eq_true] at hfit
    obtain ⟨t, tl, hhead, hafter⟩ := head_after v (pre.length + 1)
    have hpos := ntN_pos v
    have hsplit : tapeFields (.cons gh k v rest) pre.length =
        k.ttok :: (tapeNode v (pre.length + 1) ++ tapeFields rest (pre.length + 1 + ntN v)) := by
      simp [tapeFields, len_node]
    have hk : tape[pre.length]? = some k.ttok := by rw [htape, hsplit]; simp
    have hvt : tape[pre.length + 1]? = some t := by
      rw [htape, hsplit, hhead]; exact get_mid1 pre suf _ _ _
    have hrest := tv_struct c rest tape (pre ++ k.ttok :: tapeNode v (pre.length + 1)) suf decl g
    simp only [List.length_append, List.length_cons, len_node] at hrest
    have hrest' : ∀ sl, sl.length = decl.length →
        tStruct c tape g decl false (pre.length + 1 + ntN v) (pre.length + (1 + ntN v + ntF rest)) sl =
          valStructG (binSem c) rest decl false sl := by
      intro sl hs
      have := hrest sl (by rw [htape, hsplit, show pre.length + 1 + ntN v = pre.length + (ntN v + 1) by omega]; simp) hs hfit.2
        (by simp only [ntF] at hb; omega)
      rw [show pre.length + (1 + ntN v + ntF rest) = pre.length + (ntN v + 1) + ntF rest by omega,
          show pre.length + 1 + ntN v = pre.length + (ntN v + 1) by omega]
      exact this
    simp only [tStruct, ntF]
    rw [if_pos (by omega), valStructG_cons_false]
    simp only [hk, hvt, tapeFieldKey_which, hafter]
    have hfit1 : ∀ i name tk fty, whichOf (binSem c) decl k = .ok (some i) → decl.get? i = some (name, tk, fty) →
        fitsN c v fty = true := by
      intro i name tk fty h1 h2
      have := hfit.1
      unfold whichOf at h1
      simp only [binSem] at h1
      rw [h1] at this
      simpa [h2] using this
    cases hw : whichOf (binSem c) decl k with
    | error e => simp [structStepSpec]
    | ok w =>
      cases w with
      | none => simp only [structStepSpec]; exact hrest' slots hsl
      | some i =>
        simp only [structStepSpec]
        cases hsa : slots[i]? with
        | none => rfl
        | some a =>
          cases hfb : decl.get? i with
          | none => cases a <;> rfl
          | some y =>
            obtain ⟨name, tk, fty⟩ := y
            cases a with
            | some sv => rfl
            | none =>
              dsimp only
              have hsz := (get?_size decl i name tk fty hfb).1
              have hfv := hfit1 i name tk fty hw hfb
              have hv : tVal c tape g fty (pre.length + 1) = nodeVia (valCoreG (binSem c) v) fty := by
                have := lift_ty c tape (pre ++ [k.ttok]).length v (by
                  intro core f' hno hfc hbc
                  exact tv_node c v tape (pre ++ [k.ttok]) (tapeFields rest (pre.length + 1 + ntN v) ++ suf) core f'
                    (by rw [htape, hsplit]; simp) hno hfc hbc) fty g hfv (by simp only [ntF] at hb; omega)
                simpa using this
              rw [hv]
              cases hx : nodeVia (valCoreG (binSem c) v) fty with
              | error e => rfl
              | ok x => exact hrest' _ (by simp [hsl])
end

/-! ### token-attribute root structs (`#[jomini(token = …)]`): keys through `deserialize_u16` -/

/-- which declared field a key names in a token-attribute struct: a token id by its declared token
(`visit_u16`, the resolver is not consulted), a string by name, anything else is a type error. -/
def whichTok (S : Sem) (decl : Fields) (k : BLeaf) : Res (Option Nat) :=
  match k with
  | .id n => .ok (decl.posTok n 0)
  | k => match S.key k with
    | .ok p => fieldOfPrim decl true p
    | .error e => .error e

def structStepSpecT (S : Sem) (rest : BFields) (decl : Fields) (slots : List (Option String)) (v : BNode)
    (w : Res (Option Nat)) : Res String :=
  match w with
  | .error e => .error e
  | .ok none => valStructG S rest decl true slots
  | .ok (some i) =>
    match slots[i]?, decl.get? i with
    | some (some _), some (name, _, _) => .error (.duplicate name)
    | some none, some (_, _, fty) =>
      match nodeVia (valCoreG S v) fty with
      | .error e => .error e
      | .ok x => valStructG S rest decl true (slots.set i (some x))
    | _, _ => .error .panic

theorem valStructG_cons_true (S : Sem) (g : Nat) (k : BLeaf) (v : BNode) (rest : BFields) (decl : Fields)
    (slots : List (Option String)) :
    valStructG S (.cons g k v rest) decl true slots = structStepSpecT S rest decl slots v (whichTok S decl k) := by
  cases k <;> (simp only [valStructG, structStepSpecT, whichTok]; rfl)

theorem tapeFieldKey_whichT (c : Cfg) (decl : Fields) (k : BLeaf) :
    tapeFieldKey c decl true k.ttok = whichTok (binSem c) decl k := by
  cases k <;> simp [tapeFieldKey, whichTok, BLeaf.ttok, visitKey, binSem, leafPrim]

/-- token-attribute struct fields: the value of a key that names a declared field fits that field's type. -/
def fitsTokF (c : Cfg) : BFields → Fields → Bool
  | .nil, _ => true
  | .cons _ k v rest, decl =>
    (match whichTok (binSem c) decl k with
      | .ok (some i) => (match decl.get? i with | some (_, _, fty) => fitsN c v fty | none => true)
      | _ => true) && fitsTokF c rest decl

theorem tv_struct_tok (c : Cfg) : ∀ (m : Nat) (fs : BFields), fs.len = m →
    ∀ (tape pre suf : List TTok) (decl : Fields) (f : Nat) (slots : List (Option String)),
    tape = pre ++ tapeFields fs pre.length ++ suf → slots.length = decl.length → fitsTokF c fs decl = true →
    ntF fs + tySize.fieldsSize decl + 1 ≤ f →
    tStruct c tape f decl true pre.length (pre.length + ntF fs) slots = valStructG (binSem c) fs decl true slots := by
  intro m
  induction m with
  | zero =>
    intro fs hm tape pre suf decl f slots _ _ _ hb
    obtain ⟨g, rfl⟩ : ∃ g, f = g + 1 := ⟨f - 1, by omega⟩
    cases fs with
    | nil => simp [tStruct, ntF, valStructG]
    | cons gh k v rest => simp [BFields.len] at hm
  | succ m ih =>
    intro fs hm tape pre suf decl f slots htape hsl hfit hb
    obtain ⟨g, rfl⟩ : ∃ g, f = g + 1 := ⟨f - 1, by omega⟩
    cases fs with
    | nil => simp [BFields.len] at hm
    | cons gh k v rest =>
      have hrm : rest.len = m := by simp [BFields.len] at hm; exact hm
      simp only [fitsTokF, Bool.and_eq_true] at hfit
      obtain ⟨t, tl, hhead, hafter⟩ := head_after v (pre.length + 1)
      have hpos := ntN_pos v
      have hsplit : tapeFields (.cons gh k v rest) pre.length =
          k.ttok :: (tapeNode v (pre.length + 1) ++ tapeFields rest (pre.length + 1 + ntN v)) := by
        simp [tapeFields, len_node]
      have hk : tape[pre.length]? = some k.ttok := by rw [htape, hsplit]; simp
      have hvt : tape[pre.length + 1]? = some t := by
        rw [htape, hsplit, hhead]; exact get_mid1 pre suf _ _ _
      have hrest := ih rest hrm tape (pre ++ k.ttok :: tapeNode v (pre.length + 1)) suf decl g
      simp only [List.length_append, List.length_cons, len_node] at hrest
      have hrest' : ∀ sl, sl.length = decl.length →
          tStruct c tape g decl true (pre.length + 1 + ntN v) (pre.length + (1 + ntN v + ntF rest)) sl =
            valStructG (binSem c) rest decl true sl := by
        intro sl hs
        have := hrest sl (by rw [htape, hsplit, show pre.length + 1 + ntN v = pre.length + (ntN v + 1) by omega]; simp) hs hfit.2
          (by simp only [ntF] at hb; omega)
        rw [show pre.length + (1 + ntN v + ntF rest) = pre.length + (ntN v + 1) + ntF rest by omega,
            show pre.length + 1 + ntN v = pre.length + (ntN v + 1) by omega]
        exact this
      simp only [tStruct, ntF]
      rw [if_pos (by omega), valStructG_cons_true]
      simp only [hk, hvt, tapeFieldKey_whichT, hafter]
      have hfit1 : ∀ i name tk fty, whichTok (binSem c) decl k = .ok (some i) → decl.get? i = some (name, tk, fty) →
          fitsN c v fty = true := by
        intro i name tk fty h1 h2
        have := hfit.1
        rw [h1] at this
        simpa [h2] using this
      cases hw : whichTok (binSem c) decl k with
      | error e => simp [structStepSpecT]
      | ok w =>
        cases w with
        | none => simp only [structStepSpecT]; exact hrest' slots hsl
        | some i =>
          simp only [structStepSpecT]
          cases hsa : slots[i]? with
          | none => rfl
          | some a =>
            cases hfb : decl.get? i with
            | none => cases a <;> rfl
            | some y =>
              obtain ⟨name, tk, fty⟩ := y
              cases a with
              | some sv => rfl
              | none =>
                dsimp only
                have hsz := (get?_size decl i name tk fty hfb).1
                have hfv := hfit1 i name tk fty hw hfb
                have hv : tVal c tape g fty (pre.length + 1) = nodeVia (valCoreG (binSem c) v) fty := by
                  have := lift_ty c tape (pre ++ [k.ttok]).length v (by
                    intro core f' hno hfc hbc
                    exact tv_node c v tape (pre ++ [k.ttok]) (tapeFields rest (pre.length + 1 + ntN v) ++ suf) core f'
                      (by rw [htape, hsplit]; simp) hno hfc hbc) fty g hfv (by simp only [ntF] at hb; omega)
                  simpa using this
                rw [hv]
                cases hx : nodeVia (valCoreG (binSem c) v) fty with
                | error e => rfl
                | ok x => exact hrest' _ (by simp [hsl])

/-- root requests that fit a document. -/
def fitsRoot (c : Cfg) (ty : RootTy) (d : BDoc) : Bool :=
  match ty with
  | .plain (.map vt) => fitsMapF c d vt
  | .plain (.struct decl) => fitsStructF c d decl
  | .tok decl => fitsTokF c d decl
  | .plain _ => true

/-- (C04_eq_spec, tape path, NESTED documents) for every binary document — nested objects and arrays
to any depth, rgb values, ghost objects, empty containers, every scalar kind, duplicate keys — and
every root request that fits it (maps, structs with partial / optional / typed fields, token-attribute structs, sequences, full
capture of arrays, ignored values; `fitsRoot` excludes exactly the misfits where the Rust paths answer
differently from one another), the tape deserializer model on the document's tape returns the reference
value, for every resolver and strategy. -/
theorem C04_eq_spec_tape (c : Cfg) (ty : RootTy) (d : BDoc) (hfit : fitsRoot c ty d = true) :
    deTape c ty (tapeFields d 0) = valueOfBin c ty d := by
  have hlen := len_fields d 0
  have htape : tapeFields d 0 = ([] : List TTok) ++ tapeFields d ([] : List TTok).length ++ [] := by simp
  unfold deTape valueOfBin valueOfG
  cases ty with
  | tok decl =>
    simp only [fitsRoot] at hfit
    have := tv_struct_tok c d.len d rfl (tapeFields d 0) [] [] decl (2 * (tapeFields d 0).length + rootSize (.tok decl) + 8)
      (slotsInit decl) htape (by simp [slotsInit]) hfit (by simp [hlen, rootSize, tySize]; omega)
    simp only [List.length_nil, Nat.zero_add, ← hlen] at this
    dsimp only
    exact this
  | plain t =>
    cases t with
    | map vt =>
      simp only [fitsRoot] at hfit
      have := tv_map c d (tapeFields d 0) [] [] vt (2 * (tapeFields d 0).length + rootSize (.plain (.map vt)) + 8) [] htape hfit
        (by simp [hlen, rootSize, tySize]; omega)
      simp only [List.length_nil, Nat.zero_add, ← hlen] at this
      dsimp only
      rw [this]
      cases valMapG (binSem c) d vt [] <;> rfl
    | struct decl =>
      simp only [fitsRoot] at hfit
      have := tv_struct c d (tapeFields d 0) [] [] decl (2 * (tapeFields d 0).length + rootSize (.plain (.struct decl)) + 8)
        (slotsInit decl) htape (by simp [slotsInit]) hfit (by simp [hlen, rootSize, tySize]; omega)
      simp only [List.length_nil, Nat.zero_add, ← hlen] at this
      dsimp only
      exact this
    | _ => rfl

end Jomini.BinDe
