import JominiModel.Model.Dom
import JominiModel.Proofs.TextTapeScalars
import JominiModel.Proofs.TextTapeFaithful3
/-
Closing the loop between the text tape parser model (`TextTape.parse`) and the structural
hypothesis `Dom.wfTape` of the DOM / JSON / writer theorems (C17, C16, C05, C14).

`toDomTape` is the obvious token translation (positions dropped).

`C17_parsed_tape_wf` (end of the parser-invariant section): for ALL inputs,
`parse input = .ok T b → Dom.wfTape (toDomTape T) = true`.  Its parts:

* links / nesting / header (`C17_parsed_tape_links`): the container / `End` clauses and the stack
  pass come from `C06_text_inv`; the header clause (a `Header` token is followed by a container) is
  the parser invariant `HInv`, proved per state.
* object bodies: `Gr` is a grammar of regular token lists (values, array items, object bodies with
  the right `end` / `End` indices); `gr_sound` / `gr_objects` turn `Gr (.body x) T 0` into the two
  remaining conjuncts of `Dom.wfTape` (`objWalk` from the root and from every `Object` token, the
  `MixedContainer` reached when flagged).  `parse_gr` proves `Gr (.body x) T 0` for every accepted
  tape by the parser invariant `GInv` (the tape is the chain of open levels `Lv` followed by the
  body of the innermost level; an object level is either regular so far plus the pending
  `key [op] [header]`, or it has reached its `MixedContainer`).
* `C17_tree_tape_wf` is the same statement for the documents of fragment 3, proved independently
  (structural induction `grF` on the document instead of the state machine); kept as a cross-check.

Facts about the real parser that the invariant had to absorb (none violates `Dom.wfTape`):
an object whose body went into mixed mode and then met `{}` or `{ {…} }` falls back to Key state
with `mixed_mode = false` (a second `MixedContainer` may follow, the `Object` token may end up
flagged `mixed: false` although it holds a `MixedContainer`); `mixed_mode` is always `false` in
Key / KeyValueSeparator / ObjectValue states, so the `[b'=', ..] if mixed_mode` arm of
KeyValueSeparator is dead code.

C16: `Proofs/TextTapeJsonWf.lean` reads a document tree off the same derivation
(`C16_parsed_tape_wf : parse input = .ok T b → Json.WfTape (toJsonTape T)`), which is why `Gr` is
sharper than `Dom.wfTape` needs: values are scalars / containers / header + container, the tokens
that may stand alone in a value list are listed (`Tok.isItem`), and a `Header` inside a value list
is followed by its container.
-/
namespace Jomini.TextTape

def toDomOp : Op → Dom.Op
  | .lt => .lt | .le => .le | .gt => .gt | .ge => .ge
  | .ne => .ne | .exact => .exact | .eq => .eq | .exists_ => .exists_

/-- `TextTape.Tok → Dom.TTok`: drop the positions of the scalars -/
def toDomTok : Tok → Dom.TTok
  | .array e m => .array e m
  | .object e m => .object e m
  | .mixedContainer => .mixedContainer
  | .unquoted s => .unquoted s.bytes
  | .quoted s => .quoted s.bytes
  | .parameter s => .parameter s.bytes
  | .undefParameter s => .undefinedParameter s.bytes
  | .operator o => .operator (toDomOp o)
  | .endTok i => .end_ i
  | .header s => .header s.bytes

def toDomTape (T : List Tok) : Dom.Tape := (T.map toDomTok).toArray

@[simp] theorem toDomTape_get (T : List Tok) (i : Nat) :
    (toDomTape T)[i]? = (T[i]?).map toDomTok := by
  simp [toDomTape]

@[simp] theorem toDomTape_size (T : List Tok) : (toDomTape T).size = T.length := by
  simp [toDomTape]

@[simp] theorem toDomTape_toList (T : List Tok) : (toDomTape T).toList = T.map toDomTok := by
  simp [toDomTape]

theorem toDomTok_end {t : Tok} {i : Nat} : toDomTok t = .end_ i ↔ t = .endTok i := by
  cases t <;> simp [toDomTok]

/-! ### nesting: the two stack passes are the same function -/

theorem dom_nestOkF_eq : ∀ (ts : List Tok) (i : Nat) (st : List Nat),
    Dom.nestOkF (ts.map toDomTok) i st = nestOkFrom ts i st := by
  intro ts
  induction ts with
  | nil => intro i st; simp [Dom.nestOkF, nestOkFrom]
  | cons t ts ih =>
    intro i st
    cases t <;> simp only [List.map_cons, toDomTok, Dom.nestOkF, nestOkFrom, ih]
    case endTok j =>
      cases st with
      | nil => rfl
      | cons top st' =>
        by_cases h : top = j <;> simp [h]

theorem dom_nestOk (input : Bytes) (T : List Tok) (h : WfTextTape input T) :
    Dom.nestOk (toDomTape T) = true := by
  have hw := (C06_text_checker_sound input T).2 h
  simp only [wfTextTape, Bool.and_eq_true] at hw
  simp only [Dom.nestOk, toDomTape_toList, dom_nestOkF_eq]
  exact hw.1.2

/-! ### links -/

/-- the header clause of `Dom.linkOkAt` as a property of the tape: a `Header` is followed by a
container (in particular it is never the last token) -/
def HInv (T : List Tok) : Prop :=
  ∀ i h, T[i]? = some (.header h) → ∃ e m, T[i + 1]? = some (.array e m) ∨ T[i + 1]? = some (.object e m)

theorem dom_linkOkAt (input : Bytes) (T : List Tok) (hw : WfTextTape input T) (hh : HInv T)
    (i : Nat) (t : Tok) (ht : T[i]? = some t) :
    Dom.linkOkAt (toDomTape T) i (toDomTok t) = true := by
  cases t with
  | array e m =>
    obtain ⟨h1, h2⟩ := hw.start_link i e ⟨m, .inl ht⟩
    obtain ⟨h3, _, _⟩ := hw.end_link e i h2
    simp [toDomTok, Dom.linkOkAt, h1, h3, h2]
  | object e m =>
    obtain ⟨h1, h2⟩ := hw.start_link i e ⟨m, .inr ht⟩
    obtain ⟨h3, _, _⟩ := hw.end_link e i h2
    simp [toDomTok, Dom.linkOkAt, h1, h3, h2]
  | endTok j =>
    obtain ⟨h1, h2, m, h3⟩ := hw.end_link i j ht
    rcases h3 with h3 | h3 <;>
      simp [toDomTok, Dom.linkOkAt, h1, h2, h3, Dom.TTok.containerEnd?]
  | header s =>
    obtain ⟨e, m, h3⟩ := hh i s ht
    rcases h3 with h3 | h3 <;>
      simp [toDomTok, Dom.linkOkAt, h3, Dom.TTok.isContainer]
  | _ => simp [toDomTok, Dom.linkOkAt]

theorem dom_linksOkF (input : Bytes) (T : List Tok) (hw : WfTextTape input T) (hh : HInv T) :
    ∀ (ts : List Tok) (i : Nat), (∀ k t, ts[k]? = some t → T[i + k]? = some t) →
      Dom.linksOkF (toDomTape T) i (ts.map toDomTok) = true := by
  intro ts
  induction ts with
  | nil => intro i _; simp [Dom.linksOkF]
  | cons t ts ih =>
    intro i hsub
    simp only [List.map_cons, Dom.linksOkF, Bool.and_eq_true]
    refine ⟨dom_linkOkAt input T hw hh i t (by simpa using hsub 0 t (by simp)), ih (i + 1) ?_⟩
    intro k t' hk
    have := hsub (k + 1) t' (by simpa using hk)
    simpa [Nat.add_assoc, Nat.add_comm 1 k] using this

theorem dom_linksOk (input : Bytes) (T : List Tok) (hw : WfTextTape input T) (hh : HInv T) :
    Dom.linksOk (toDomTape T) = true := by
  simp only [Dom.linksOk, toDomTape_toList]
  exact dom_linksOkF input T hw hh T 0 (by intro k t h; simpa using h)

/-! ### the header invariant, for all inputs -/

def Tok.isHdr : Tok → Bool
  | .header _ => true
  | _ => false

theorem HInv.nil : HInv [] := by intro i h hi; simp at hi

theorem HInv.push {T : List Tok} (h : HInv T) {t : Tok} (ht : t.isHdr = false) : HInv (T ++ [t]) := by
  intro i s hi
  by_cases hlt : i < T.length
  · rw [List.getElem?_append_left hlt] at hi
    obtain ⟨e, m, h1⟩ := h i s hi
    have hlt1 : i + 1 < T.length := by
      rcases h1 with h1 | h1 <;> exact (List.getElem?_eq_some_iff.1 h1).1
    exact ⟨e, m, by rw [List.getElem?_append_left hlt1]; exact h1⟩
  · rw [List.getElem?_append_right (by omega)] at hi
    by_cases h0 : i - T.length = 0
    · rw [h0] at hi; simp at hi; subst hi; simp [Tok.isHdr] at ht
    · obtain ⟨k, hk⟩ := Nat.exists_eq_succ_of_ne_zero h0
      rw [hk] at hi; simp at hi

theorem HInv.set {T : List Tok} (h : HInv T) (j : Nat) {X : Tok} (hX : X.isStartTok = true) :
    HInv (T.set j X) := by
  intro i s hi
  rw [List.getElem?_set] at hi
  split at hi
  · split at hi
    · simp at hi; subst hi; simp [Tok.isStartTok] at hX
    · simp at hi
  · next hne =>
    obtain ⟨e, m, h1⟩ := h i s hi
    rw [List.getElem?_set]
    split
    · next hj =>
      have hlt : j < T.length := by
        rcases h1 with h1 | h1 <;> (have := (List.getElem?_eq_some_iff.1 h1).1; omega)
      simp only [hlt, if_true]
      cases X <;> simp [Tok.isStartTok] at hX
      · exact ⟨_, _, .inl rfl⟩
      · exact ⟨_, _, .inr rfl⟩
    · exact ⟨e, m, h1⟩

theorem HInv.setTok {T T' : List Tok} (h : HInv T) {j : Nat} {X : Tok}
    (hset : setTok T j X = some T') (hX : X.isStartTok = true) : HInv T' := by
  obtain ⟨rfl, _⟩ := setTok_some hset; exact h.set j hX

theorem HInv.insert {T0 : List Tok} {l : Tok} (h : HInv (T0 ++ [l])) (hl : l.isStartTok = false) :
    HInv (T0 ++ [.mixedContainer, l]) := by
  intro i s hi
  have hlast : l.isHdr = false := by
    cases l <;> try rfl
    next s' =>
      obtain ⟨e, m, h1⟩ := h T0.length s' (by simp)
      simp at h1
  by_cases hlt : i < T0.length
  · rw [List.getElem?_append_left hlt] at hi
    obtain ⟨e, m, h1⟩ := h i s (by rw [List.getElem?_append_left hlt]; exact hi)
    by_cases hlt1 : i + 1 < T0.length
    · rw [List.getElem?_append_left hlt1] at h1
      exact ⟨e, m, by rw [List.getElem?_append_left hlt1]; exact h1⟩
    · have : i + 1 = T0.length := by omega
      rw [this] at h1
      simp at h1
      rcases h1 with h1 | h1 <;> (subst h1; simp [Tok.isStartTok] at hl)
  · rw [List.getElem?_append_right (by omega)] at hi
    by_cases h0 : i - T0.length = 0
    · rw [h0] at hi; simp at hi
    · obtain ⟨k, hk⟩ := Nat.exists_eq_succ_of_ne_zero h0
      rw [hk] at hi
      cases k with
      | zero => simp at hi; subst hi; simp [Tok.isHdr] at hlast
      | succ k => simp at hi

theorem HInv.header {T0 : List Tok} {s : Slice} (h : HInv (T0 ++ [.unquoted s])) :
    HInv (T0 ++ [.header s, .array 0 false]) := by
  intro i s' hi
  by_cases hlt : i < T0.length
  · rw [List.getElem?_append_left hlt] at hi
    obtain ⟨e, m, h1⟩ := h i s' (by rw [List.getElem?_append_left hlt]; exact hi)
    by_cases hlt1 : i + 1 < T0.length
    · rw [List.getElem?_append_left hlt1] at h1
      exact ⟨e, m, by rw [List.getElem?_append_left hlt1]; exact h1⟩
    · have : i + 1 = T0.length := by omega
      rw [this] at h1
      simp at h1
  · rw [List.getElem?_append_right (by omega)] at hi
    by_cases h0 : i - T0.length = 0
    · have : i + 1 = T0.length + 1 := by omega
      rw [this]
      exact ⟨0, false, .inl (by simp)⟩
    · obtain ⟨k, hk⟩ := Nat.exists_eq_succ_of_ne_zero h0
      rw [hk] at hi
      cases k with
      | zero => simp at hi
      | succ k => simp at hi

theorem parseScalarTok_tok {tape tape' : List Tok} {d rest : Bytes}
    (h : parseScalarTok tape d = .ok (tape', rest)) :
    ∃ t, tape' = tape ++ [t] ∧ t.isHdr = false ∧ t.isStartTok = false := by
  unfold parseScalarTok at h
  split at h <;> simp at h
  exact ⟨_, h.1.symm, rfl, rfl⟩

theorem lexValue_tok {tape tape' : List Tok} {d rest : Bytes} (h : lexValue tape d = .ok (tape', rest)) :
    ∃ t, tape' = tape ++ [t] ∧ t.isHdr = false ∧ t.isStartTok = false := by
  unfold lexValue at h
  split at h
  · simp at h
  · split at h
    · unfold parseQuoteTok at h
      split at h <;> simp at h
      exact ⟨_, h.1.symm, rfl, rfl⟩
    · split at h
      · unfold parseVariableTok at h
        split at h
        · split at h
          · split at h <;> simp at h
            exact ⟨_, h.1.symm, rfl, rfl⟩
          · simp at h
        · exact parseScalarTok_tok h
      · exact parseScalarTok_tok h

theorem paramTok_isHdr (b : Bool) (sl : Slice) : (paramTok b sl).isHdr = false := by
  cases b <;> rfl

theorem paramDefBody_hinv {mixed : Bool} {tape : List Tok} {parent : Nat} {st' : St} {data d' : Bytes}
    (hH : HInv tape) (h : paramDefBody mixed tape parent data = .cont st' d') : HInv st'.tape := by
  unfold paramDefBody at h
  simp only at h
  split_cont h
  all_goals
    simp only [Step.cont.injEq] at h
    obtain ⟨rfl, _⟩ := h
    have hT2 : ∀ b sl, HInv (tape ++ [paramTok b sl]) := fun b sl => hH.push (paramTok_isHdr b sl)
    first
    | exact (hT2 _ _).push rfl
    | have h4 : ∀ b sl kv, HInv (tape ++ [paramTok b sl] ++ [.object parent false, .unquoted kv]) := by
        intro b sl kv
        have := ((hT2 b sl).push (t := .object parent false) rfl).push (t := .unquoted kv) rfl
        simpa using this
      exact h4 _ _ _

theorem paramDef_hinv {st st' : St} {data d' : Bytes} {initial : Bool}
    (hH : HInv st.tape) (h : paramDef st data initial = .cont st' d') : HInv st'.tape := by
  unfold paramDef at h
  split at h
  · simp at h
  · split at h
    · simp at h
    · next tape parent hp =>
      refine paramDefBody_hinv ?_ h
      unfold paramDefPre at hp
      cases initial with
      | false => simp at hp; obtain ⟨rfl, rfl⟩ := hp; exact hH
      | true =>
        simp only [if_true] at hp
        split at hp
        · simp at hp
        · simp only [Option.map_eq_some_iff, Prod.mk.injEq] at hp
          obtain ⟨t, hset, rfl, rfl⟩ := hp
          exact hH.setTok hset rfl

theorem stepKey_hinv {st st' : St} {data d' : Bytes} (hH : HInv st.tape)
    (h : stepKey st data = .cont st' d') : HInv st'.tape := by
  unfold stepKey at h
  split at h
  · contradiction
  · split at h
    · simp only at h
      split at h
      · simp only [Step.cont.injEq] at h
        obtain ⟨rfl, _⟩ := h
        exact hH
      · split at h
        · contradiction
        · next tape' hset =>
          simp only [Step.cont.injEq] at h
          obtain ⟨rfl, _⟩ := h
          exact (hH.push (t := .endTok st.parent) rfl).setTok hset rfl
    · split at h
      · split at h
        · contradiction
        · split at h
          · contradiction
          · split at h
            · simp only [Step.cont.injEq] at h
              obtain ⟨rfl, _⟩ := h
              exact hH
            · split at h
              · next hd hlast =>
                simp only [Step.cont.injEq] at h
                obtain ⟨rfl, _⟩ := h
                rcases List.eq_nil_or_concat st.tape with hnil | ⟨T0, l, hTl⟩
                · simp [hnil] at hlast
                · simp only [List.concat_eq_append] at hTl
                  rw [hTl] at hlast hH ⊢
                  simp at hlast; subst hlast
                  simp only [List.dropLast_concat]
                  exact hH.header
              · contradiction
      · split at h
        · exact paramDef_hinv hH h
        · split at h
          · next tape' rest' hlex =>
            simp only [Step.cont.injEq] at h
            obtain ⟨rfl, _⟩ := h
            obtain ⟨t, rfl, ht, _⟩ := lexValue_tok hlex
            exact hH.push ht
          · cases ‹Fail› <;> simp [Step.fail] at h

theorem sh_plain_notStart {l : Tok} (h : l.sh = .plain) : l.isStartTok = false := by
  cases l <;> simp [Tok.sh] at h <;> rfl

theorem stepKvs_hinv {st st' : St} {data d' : Bytes} (hinv : StInv st) (hs : st.state = .kvs)
    (hH : HInv st.tape) (h : stepKvs st data = .cont st' d') : HInv st'.tape := by
  obtain ⟨_, _, hlast⟩ := hinv
  unfold stepKvs at h
  split at h
  · contradiction
  · split at h
    · split at h
      all_goals
        simp only [Step.cont.injEq] at h
        obtain ⟨rfl, _⟩ := h
      · exact hH.push (t := .operator .eq) rfl
      · exact hH
    · simp only [Step.cont.injEq] at h
      obtain ⟨rfl, _⟩ := h
      exact hH.push (t := .operator _) rfl
    · split at h
      · simp only [Step.cont.injEq] at h
        obtain ⟨rfl, _⟩ := h
        exact hH
      · split at h
        · contradiction
        · next tape' hins =>
          simp only [Step.cont.injEq] at h
          obtain ⟨rfl, _⟩ := h
          obtain ⟨T0, l, hTl, rfl⟩ := insertBeforeLast_some hins
          rw [hTl] at hH
          exact hH.insert (sh_plain_notStart (hlast hs T0 l hTl))

theorem stepObjectValue_hinv {st st' : St} {data d' : Bytes}
    (hH : HInv st.tape) (h : stepObjectValue st data = .cont st' d') : HInv st'.tape := by
  unfold stepObjectValue at h
  split at h
  · contradiction
  · split at h
    · simp only [Step.cont.injEq] at h
      obtain ⟨rfl, _⟩ := h
      exact hH.push (t := .array 0 false) rfl
    · split at h
      · contradiction
      · split at h
        · next tape' rest' hlex =>
          simp only [Step.cont.injEq] at h
          obtain ⟨rfl, _⟩ := h
          obtain ⟨t, rfl, ht, _⟩ := lexValue_tok hlex
          exact hH.push ht
        · cases ‹Fail› <;> simp [Step.fail] at h

theorem asScalar_notStart {t : Tok} {s : Slice} (h : t.asScalar = some s) : t.isStartTok = false := by
  cases t <;> simp [Tok.asScalar] at h <;> rfl

theorem stepArrayOp_hinv {st st' : St} {data d' : Bytes} {onErr : Res}
    (hH : HInv st.tape) (h : stepArrayOp onErr st data = .cont st' d') : HInv st'.tape := by
  unfold stepArrayOp at h
  split at h
  · contradiction
  · next tape mixed hpre =>
    have hT1 : HInv tape := by
      unfold arrayOpPre at hpre
      split at hpre
      · simp at hpre; rw [← hpre.1]; exact hH
      · split at hpre
        · next sl hsc =>
          split at hpre
          · next tape1 hins =>
            simp at hpre
            obtain ⟨rfl, _⟩ := hpre
            obtain ⟨T0, l, hTl, rfl⟩ := insertBeforeLast_some hins
            rw [hTl] at hH hsc
            simp at hsc
            exact hH.insert (asScalar_notStart hsc)
          · simp at hpre
        · simp at hpre
    split at h
    · simp only [Step.cont.injEq] at h
      obtain ⟨rfl, _⟩ := h
      exact hT1.push (t := .operator _) rfl
    · contradiction

theorem stepArrayValue_hinv {n : Nat} {st st' : St} {data d' : Bytes}
    (hH : HInv st.tape) (h : stepArrayValue n st data = .cont st' d') : HInv st'.tape := by
  unfold stepArrayValue at h
  split at h
  · contradiction
  · split at h
    · simp only [Step.cont.injEq] at h
      obtain ⟨rfl, _⟩ := h
      exact hH.push (t := .array 0 false) rfl
    · split at h
      · simp only at h
        split at h
        · contradiction
        · split at h
          · contradiction
          · next tape' hset =>
            simp only [Step.cont.injEq] at h
            obtain ⟨rfl, _⟩ := h
            exact (hH.setTok hset (by split <;> rfl)).push (t := .endTok _) rfl
      · split at h
        · split at h
          · next tape' rest' hlex =>
            simp only [Step.cont.injEq] at h
            obtain ⟨rfl, _⟩ := h
            obtain ⟨t, rfl, ht, _⟩ := lexValue_tok hlex
            exact hH.push ht
          · cases ‹Fail› <;> simp [Step.fail] at h
        · split at h
          · exact stepArrayOp_hinv hH h
          · split at h
            · next tape' rest' hlex =>
              simp only [Step.cont.injEq] at h
              obtain ⟨rfl, _⟩ := h
              obtain ⟨t, rfl, ht, _⟩ := parseScalarTok_tok hlex
              exact hH.push ht
            · cases ‹Fail› <;> simp [Step.fail] at h

theorem flag_parent_hinv {T : List Tok} (hH : HInv T) (p : Nat) :
    HInv (match T[p]? with
      | some (.array e _) => T.set p (.array e true)
      | some (.object e _) => T.set p (.object e true)
      | _ => T) := by
  split
  · exact hH.set p rfl
  · exact hH.set p rfl
  · exact hH

theorem stepParseOpen_hinv {st st' : St} {data d' : Bytes}
    (hH : HInv st.tape) (h : stepParseOpen st data = .cont st' d') : HInv st'.tape := by
  unfold stepParseOpen at h
  split at h
  · contradiction
  · split at h
    · split at h
      · contradiction
      · simp only at h
        split at h
        · contradiction
        · next tape' hset =>
          simp only [Step.cont.injEq] at h
          obtain ⟨rfl, _⟩ := h
          exact (hH.setTok hset rfl).push (t := .endTok _) rfl
    · split at h
      · split at h
        · contradiction
        · exact paramDef_hinv hH h
      · split at h
        · split at h
          · contradiction
          · split at h
            · contradiction
            · split at h
              · simp only [Step.cont.injEq] at h
                obtain ⟨rfl, _⟩ := h
                exact hH
              · split at h
                · contradiction
                · simp only at h
                  split at h
                  · contradiction
                  · next tape' hset =>
                    simp only [Step.cont.injEq] at h
                    obtain ⟨rfl, _⟩ := h
                    exact hH.setTok hset rfl
        · split at h
          · cases ‹Fail› <;> simp [Step.fail] at h
          · next tape1 rest' hlex =>
            obtain ⟨t, rfl, ht, _⟩ := lexValue_tok hlex
            simp only at h
            generalize htape2 : (if st.mixed = true then
                match (st.tape ++ [t])[st.parent]? with
                | some (.array e _) => (st.tape ++ [t]).set st.parent (.array e true)
                | some (.object e _) => (st.tape ++ [t]).set st.parent (.object e true)
                | _ => st.tape ++ [t]
              else st.tape ++ [t]) = tape2 at h
            have h2 : HInv tape2 := by
              rw [← htape2]; split
              · exact flag_parent_hinv (hH.push ht) _
              · exact hH.push ht
            split at h
            · contradiction
            · split at h
              · contradiction
              · split at h
                · split at h
                  · contradiction
                  · next tape' hset =>
                    simp only [Step.cont.injEq] at h
                    obtain ⟨rfl, _⟩ := h
                    exact h2.setTok hset rfl
                · split at h
                  · contradiction
                  · next tape' hset =>
                    simp only [Step.cont.injEq] at h
                    obtain ⟨rfl, _⟩ := h
                    exact h2.setTok hset rfl

theorem stepAt_hinv {n : Nat} {st st' : St} {data d' : Bytes} (hinv : StInv st) (hH : HInv st.tape)
    (h : stepAt n st data = .cont st' d') : HInv st'.tape := by
  unfold stepAt at h
  cases hs : st.state <;> simp only [hs] at h
  · exact stepKey_hinv hH h
  · exact stepKvs_hinv hinv hs hH h
  · exact stepObjectValue_hinv hH h
  · exact stepArrayValue_hinv hH h
  · exact stepParseOpen_hinv hH h

theorem atEof_hinv {st : St} {T : List Tok} {b : Bool} (hH : HInv st.tape) (h : atEof st = .ok T b) :
    HInv T := by
  unfold atEof at h
  split at h
  · simp at h
  · split at h
    · simp only [Res.ok.injEq] at h
      obtain ⟨rfl, _⟩ := h
      exact hH
    · simp only at h
      split at h
      · split at h
        · simp at h
        · next tape' hset =>
          simp only [Res.ok.injEq] at h
          obtain ⟨rfl, _⟩ := h
          exact (hH.push (t := .endTok st.parent) rfl).setTok hset rfl
      · simp at h

theorem run_hinv (n : Nat) : ∀ (fuel : Nat) (st : St) (data : Bytes) (T : List Tok) (b : Bool),
    StInv st → HInv st.tape → run n fuel st data = .ok T b → HInv T
  | 0, _, _, _, _, _, _, h => by simp [run] at h
  | fuel + 1, st, data, T, b, hinv, hH, h => by
    simp only [run, step] at h
    cases hsk : skipWs data with
    | none =>
      simp only [hsk] at h
      exact atEof_hinv hH h
    | some d =>
      simp only [hsk] at h
      cases hstep : stepAt n st d with
      | cont st' data' =>
        simp only [hstep] at h
        exact run_hinv n fuel st' data' T b (stepAt_inv hinv hstep) (stepAt_hinv hinv hH hstep) h
      | done r =>
        simp only [hstep] at h
        subst h
        exact absurd hstep stepAt_not_ok

/-- every accepted tape: a `Header` token is followed by its container -/
theorem parse_hinv (input : Bytes) (T : List Tok) (b : Bool) (h : parse input = .ok T b) : HInv T := by
  unfold parse at h
  simp only at h
  generalize hr : run input.length _ St.init _ = r at h
  cases r <;> simp [Res.withBom] at h
  obtain ⟨rfl, _⟩ := h
  exact run_hinv _ _ _ _ _ _ StInv.init (by simpa [St.init] using HInv.nil) hr

/-- C17 hypothesis, link / nesting / header part, for ALL inputs: on every tape the parser model
accepts, container and `End` tokens are linked both ways, nothing carries index 0, every
`Header` is followed by a container, and the stack pass over the tape succeeds. -/
theorem C17_parsed_tape_links (input : Bytes) (T : List Tok) (b : Bool) (h : parse input = .ok T b) :
    Dom.linksOk (toDomTape T) = true ∧ Dom.nestOk (toDomTape T) = true := by
  have hw := C06_text_inv input T b h
  exact ⟨dom_linksOk input T hw (parse_hinv input T b h), dom_nestOk input T hw⟩

end Jomini.TextTape

namespace Jomini.TextTape

/-! ### the object-body part: a grammar of regular token lists, and its soundness

`Gr k ts b`: the token list `ts`, placed at tape index `b`, is one value (`.val`), a list of array
items (`.items`) or an object body (`.body hasM`: `key [op] value` groups, then nothing
(`hasM = false`) or a `MixedContainer` followed by items).  Container values carry the right
`end` / `End` indices, the body of an `Object` is a `.body`, and an `Object` flagged mixed has a
body that reaches its `MixedContainer`. -/

def Tok.isKey : Tok → Bool
  | .unquoted _ | .quoted _ | .parameter _ | .undefParameter _ => true
  | _ => false

def Tok.isOp : Tok → Bool
  | .operator _ => true
  | _ => false

def Tok.isScal : Tok → Bool
  | .unquoted _ | .quoted _ => true
  | _ => false

/-- tokens that may stand alone in a value list (`ArrayReader::values()` steps over them one by
one): scalars, parameter tokens, operators and the `MixedContainer` -/
def Tok.isItem : Tok → Bool
  | .unquoted _ | .quoted _ | .parameter _ | .undefParameter _ | .operator _ | .mixedContainer => true
  | _ => false

inductive GK | val | items | body (hasM : Bool)

inductive Gr : GK → List Tok → Nat → Prop
  | scal {t : Tok} {b : Nat} : t.isScal = true → Gr .val [t] b
  | arr {mid : List Tok} {b : Nat} {m : Bool} : Gr .items mid (b + 1) →
      Gr .val (.array (b + 1 + mid.length) m :: (mid ++ [.endTok b])) b
  | obj {mid : List Tok} {b : Nat} {m x : Bool} : Gr (.body x) mid (b + 1) → (m = true → x = true) →
      Gr .val (.object (b + 1 + mid.length) m :: (mid ++ [.endTok b])) b
  | hdr {t : Tok} {r : List Tok} {b : Nat} {h : Slice} : Gr .val (t :: r) (b + 1) → t.isStartTok = true →
      Gr .val (.header h :: t :: r) b
  | inil {b : Nat} : Gr .items [] b
  | ival {v rest : List Tok} {b : Nat} : Gr .val v b → Gr .items rest (b + v.length) → Gr .items (v ++ rest) b
  | itok {t : Tok} {rest : List Tok} {b : Nat} : t.isItem = true → Gr .items rest (b + 1) →
      Gr .items (t :: rest) b
  | bnil {b : Nat} : Gr (.body false) [] b
  | bmixed {rest : List Tok} {b : Nat} : Gr .items rest (b + 1) → Gr (.body true) (.mixedContainer :: rest) b
  | bfield {k : Tok} {ops v rest : List Tok} {b : Nat} {x : Bool} : k.isKey = true →
      (ops = [] ∨ ∃ o, ops = [.operator o]) → Gr .val v (b + 1 + ops.length) →
      Gr (.body x) rest (b + 1 + ops.length + v.length) → Gr (.body x) (k :: (ops ++ (v ++ rest))) b

/-- every `Object` token in `[lo, hi)` has a regular body (and reaches its `MixedContainer` when
flagged) -/
def ObjsIn (T : List Tok) (lo hi : Nat) : Prop :=
  ∀ i e m, lo ≤ i → i < hi → T[i]? = some (.object e m) →
    ∃ q, Dom.objWalk (toDomTape T) (i + 1) e = some q ∧ (m = true → q < e)

def Sem (T : List Tok) : GK → Nat → Nat → Prop
  | .val, b, n => ∀ e, b + n ≤ e → Dom.valueNext (toDomTape T) b e = some (b + n)
  | .items, _, _ => True
  | .body x, b, n => ∀ f, n < f →
      ∃ q, Dom.objWalkF f (toDomTape T) b (b + n) = some q ∧ (x = true → q < b + n)

theorem mid_get (A ts B : List Tok) (j : Nat) (hj : j < ts.length) :
    (A ++ ts ++ B)[A.length + j]? = ts[j]? := by
  rw [List.append_assoc, List.getElem?_append_right (by omega)]
  simp [List.getElem?_append_left hj]

theorem Gr.val_head {k : GK} {v : List Tok} {b : Nat} (h : Gr k v b) (hk : k = .val) :
    ∃ t r, v = t :: r ∧ t.isOp = false := by
  cases h <;> simp at hk
  · next t hkey => exact ⟨t, [], rfl, by cases t <;> simp [Tok.isScal] at hkey <;> rfl⟩
  · exact ⟨_, _, rfl, rfl⟩
  · exact ⟨_, _, rfl, rfl⟩
  · exact ⟨_, _, rfl, rfl⟩

theorem opValueOf_nonop (p : Nat) {t : Tok} (h : t.isOp = false) :
    (Dom.opValueOf p (toDomTok t)).2 = p + 1 := by
  cases t <;> simp [Tok.isOp] at h <;> rfl

theorem keyScalar_isKey {t : Tok} (h : t.isKey = true) :
    toDomTok t ≠ .mixedContainer ∧ ∃ kb, (toDomTok t).keyScalar? = some kb := by
  cases t <;> simp [Tok.isKey] at h <;> simp [toDomTok, Dom.TTok.keyScalar?]

theorem gr_sound {k : GK} {ts : List Tok} {b : Nat} (h : Gr k ts b) :
    ∀ T A B, T = A ++ ts ++ B → b = A.length → ObjsIn T b (b + ts.length) ∧ Sem T k b ts.length := by
  induction h with
  | @scal t b hkey =>
    intro T A B hT hb
    have h0 : T[b]? = some t := by rw [hT, hb]; simpa using mid_get A [t] B 0 (by simp)
    refine ⟨?_, ?_⟩
    · intro i e m h1 h2 hi
      have : i = b := by simp at h2; omega
      subst this; rw [h0] at hi; simp at hi; subst hi; simp [Tok.isScal] at hkey
    · intro e he
      cases t <;> simp [Tok.isScal] at hkey <;> simp [Dom.valueNext, h0, toDomTok]
  | @arr mid b m hmid ih =>
    intro T A B hT hb
    have hlen : (Tok.array (b + 1 + mid.length) m :: (mid ++ [.endTok b])).length = mid.length + 2 := by simp
    have h0 : T[b]? = some (.array (b + 1 + mid.length) m) := by
      rw [hT, hb]; simpa using mid_get A _ B 0 (by rw [← hb, hlen]; omega)
    have hl : T[b + 1 + mid.length]? = some (.endTok b) := by
      have := mid_get A (Tok.array (b + 1 + mid.length) m :: (mid ++ [.endTok b])) B (mid.length + 1) (by rw [hlen]; omega)
      rw [hT, hb]; rw [← hb] at this ⊢
      simpa [Nat.add_assoc, Nat.add_comm, Nat.add_left_comm, hb] using this
    obtain ⟨ihO, _⟩ := ih T (A ++ [.array (b + 1 + mid.length) m]) (.endTok b :: B) (by simp [hT]) (by simp [hb])
    refine ⟨?_, ?_⟩
    · intro i e m' h1 h2 hi
      rw [hlen] at h2
      by_cases hib : i = b
      · subst hib; rw [h0] at hi; simp at hi
      · by_cases hie : i = b + 1 + mid.length
        · subst hie; rw [hl] at hi; simp at hi
        · exact ihO i e m' (by omega) (by omega) hi
    · intro e he
      rw [hlen] at he ⊢
      simp only [Dom.valueNext, toDomTape_get, h0, Option.map_some, toDomTok]
      rw [if_pos (by omega)]
      congr 1; omega
  | @obj mid b m x hmid hmx ih =>
    intro T A B hT hb
    have hlen : (Tok.object (b + 1 + mid.length) m :: (mid ++ [.endTok b])).length = mid.length + 2 := by simp
    have h0 : T[b]? = some (.object (b + 1 + mid.length) m) := by
      rw [hT, hb]; simpa using mid_get A _ B 0 (by rw [← hb, hlen]; omega)
    have hl : T[b + 1 + mid.length]? = some (.endTok b) := by
      have := mid_get A (Tok.object (b + 1 + mid.length) m :: (mid ++ [.endTok b])) B (mid.length + 1) (by rw [hlen]; omega)
      rw [hT, hb]; rw [← hb] at this ⊢
      simpa [Nat.add_assoc, Nat.add_comm, Nat.add_left_comm, hb] using this
    obtain ⟨ihO, ihS⟩ := ih T (A ++ [.object (b + 1 + mid.length) m]) (.endTok b :: B) (by simp [hT]) (by simp [hb])
    refine ⟨?_, ?_⟩
    · intro i e m' h1 h2 hi
      rw [hlen] at h2
      by_cases hib : i = b
      · subst hib; rw [h0] at hi; simp at hi
        obtain ⟨rfl, rfl⟩ := hi
        have hTl : mid.length < Dom.fuelOf (toDomTape T) := by
          simp only [Dom.fuelOf, toDomTape_size, hT]; simp; omega
        obtain ⟨q, hq, hx⟩ := ihS _ hTl
        exact ⟨q, hq, fun hm => hx (hmx hm)⟩
      · by_cases hie : i = b + 1 + mid.length
        · subst hie; rw [hl] at hi; simp at hi
        · exact ihO i e m' (by omega) (by omega) hi
    · intro e he
      rw [hlen] at he ⊢
      simp only [Dom.valueNext, toDomTape_get, h0, Option.map_some, toDomTok]
      rw [if_pos (by omega)]
      congr 1; omega
  | @hdr t r b hs hv hst ih =>
    intro T A B hT hb
    have h0 : T[b]? = some (.header hs) := by
      rw [hT, hb]; simpa using mid_get A (.header hs :: t :: r) B 0 (by simp)
    obtain ⟨ihO, ihS⟩ := ih T (A ++ [.header hs]) B (by simp [hT]) (by simp [hb])
    have h1 : T[b + 1]? = some t := by
      rw [hT, hb]; simpa using mid_get A (.header hs :: t :: r) B 1 (by simp)
    refine ⟨?_, ?_⟩
    · intro i e m' h1' h2 hi
      by_cases hib : i = b
      · subst hib; rw [h0] at hi; simp at hi
      · exact ihO i e m' (by omega) (by simp at h2 ⊢; omega) hi
    · intro e he
      have := ihS e (by simp at he ⊢; omega)
      simp only [List.length_cons] at this ⊢
      cases t <;> simp [Tok.isStartTok] at hst
      all_goals
        simp only [Dom.valueNext, toDomTape_get, h0, h1, Option.map_some, toDomTok] at this ⊢
        rw [this]; congr 1; omega
  | inil => intro T A B hT hb; exact ⟨by intro i e m h1 h2; simp at h2; omega, trivial⟩
  | @ival v rest b hv hr ihv ihr =>
    intro T A B hT hb
    obtain ⟨ihO, _⟩ := ihv T A (rest ++ B) (by simp [hT]) hb
    obtain ⟨ihO', _⟩ := ihr T (A ++ v) B (by simp [hT]) (by simp [hb])
    refine ⟨?_, trivial⟩
    intro i e m h1 h2 hi
    by_cases hlt : i < b + v.length
    · exact ihO i e m h1 hlt hi
    · exact ihO' i e m (by omega) (by simp at h2; omega) hi
  | @itok t rest b ht hr ih =>
    intro T A B hT hb
    have h0 : T[b]? = some t := by
      rw [hT, hb]; simpa using mid_get A (t :: rest) B 0 (by simp)
    obtain ⟨ihO, _⟩ := ih T (A ++ [t]) B (by simp [hT]) (by simp [hb])
    refine ⟨?_, trivial⟩
    intro i e m h1 h2 hi
    by_cases hib : i = b
    · subst hib; rw [h0] at hi; simp at hi; subst hi; simp [Tok.isItem] at ht
    · exact ihO i e m (by omega) (by simp at h2; omega) hi
  | @bnil b =>
    intro T A B hT hb
    refine ⟨by intro i e m h1 h2; simp at h2; omega, ?_⟩
    intro f hf
    obtain ⟨f', rfl⟩ := Nat.exists_eq_succ_of_ne_zero (by omega : f ≠ 0)
    exact ⟨b, by simp [Dom.objWalkF], by simp⟩
  | @bmixed rest b hr ih =>
    intro T A B hT hb
    have h0 : T[b]? = some .mixedContainer := by
      rw [hT, hb]; simpa using mid_get A (.mixedContainer :: rest) B 0 (by simp)
    obtain ⟨ihO, _⟩ := ih T (A ++ [.mixedContainer]) B (by simp [hT]) (by simp [hb])
    refine ⟨?_, ?_⟩
    · intro i e m h1 h2 hi
      by_cases hib : i = b
      · subst hib; rw [h0] at hi; simp at hi
      · exact ihO i e m (by omega) (by simp at h2; omega) hi
    · intro f hf
      obtain ⟨f', rfl⟩ := Nat.exists_eq_succ_of_ne_zero (by omega : f ≠ 0)
      refine ⟨b, ?_, by simp⟩
      simp [Dom.objWalkF, h0, toDomTok]
  | @bfield k ops v rest b x hkey hops hv hr ihv ihr =>
    intro T A B hT hb
    have h0 : T[b]? = some k := by
      rw [hT, hb]; simpa using mid_get A (k :: (ops ++ (v ++ rest))) B 0 (by simp)
    obtain ⟨ihvO, ihvS⟩ := ihv T (A ++ k :: ops) (rest ++ B) (by simp [hT]) (by simp [hb]; omega)
    obtain ⟨ihrO, ihrS⟩ := ihr T (A ++ k :: (ops ++ v)) B (by simp [hT]) (by simp [hb]; omega)
    obtain ⟨t, r, hvt, htop⟩ := hv.val_head rfl
    have hlen : (k :: (ops ++ (v ++ rest))).length = 1 + ops.length + v.length + rest.length := by
      simp; omega
    have hvlen : 0 < v.length := by rw [hvt]; simp
    refine ⟨?_, ?_⟩
    · intro i e m h1 h2 hi
      rw [hlen] at h2
      by_cases hib : i = b
      · subst hib; rw [h0] at hi; simp at hi; subst hi; simp [Tok.isKey] at hkey
      · by_cases hio : i < b + 1 + ops.length
        · -- an operator token
          rcases hops with rfl | ⟨o, rfl⟩
          · simp at hio; omega
          · have : i = b + 1 := by simp at hio; omega
            subst this
            have h1' : T[b + 1]? = some (.operator o) := by
              rw [hT, hb]; simpa using mid_get A (k :: ([.operator o] ++ (v ++ rest))) B 1 (by simp)
            rw [h1'] at hi; simp at hi
        · by_cases hiv : i < b + 1 + ops.length + v.length
          · exact ihvO i e m (by omega) hiv hi
          · exact ihrO i e m (by omega) (by omega) hi
    · intro f hf
      rw [hlen] at hf ⊢
      obtain ⟨f', rfl⟩ := Nat.exists_eq_succ_of_ne_zero (by omega : f ≠ 0)
      obtain ⟨q, hq, hx⟩ := ihrS f' (by omega)
      obtain ⟨hnm, kb, hkb⟩ := keyScalar_isKey hkey
      have hval := ihvS (b + (1 + ops.length + v.length + rest.length)) (by omega)
      refine ⟨q, ?_, fun hx' => by have := hx hx'; omega⟩
      have he : b + 1 + ops.length + v.length + rest.length = b + (1 + ops.length + v.length + rest.length) := by omega
      rw [he] at hq
      rcases hops with rfl | ⟨o, rfl⟩
      · have h1' : T[b + 1]? = some t := by
          rw [hT, hb, hvt]; simpa using mid_get A (k :: ([] ++ ((t :: r) ++ rest))) B 1 (by simp)
        simp only [List.length_nil, Nat.add_zero] at hval hq ⊢
        rw [Dom.objWalkF, if_neg (by omega)]
        simp only [toDomTape_get, h0, h1', Option.map_some, if_neg hnm, hkb, opValueOf_nonop b htop]
        rw [if_pos (by omega), hval]
        exact hq
      · have h1' : T[b + 1]? = some (.operator o) := by
          rw [hT, hb]; simpa using mid_get A (k :: ([.operator o] ++ (v ++ rest))) B 1 (by simp)
        simp only [List.length_cons, List.length_nil, Nat.zero_add] at hval hq ⊢
        rw [Dom.objWalkF, if_neg (by omega)]
        simp only [toDomTape_get, h0, h1', Option.map_some, if_neg hnm, hkb]
        rw [show (Dom.opValueOf b (toDomTok (Tok.operator o))).2 = b + 1 + 1 from rfl]
        rw [if_pos (by omega), hval]
        exact hq

theorem dom_objectsOkF (T : List Tok) (hO : ObjsIn T 0 T.length) :
    ∀ (ts : List Tok) (i : Nat), (∀ k t, ts[k]? = some t → T[i + k]? = some t) →
      Dom.objectsOkF (toDomTape T) i (ts.map toDomTok) = true := by
  intro ts
  induction ts with
  | nil => intro i _; simp [Dom.objectsOkF]
  | cons t ts ih =>
    intro i hsub
    simp only [List.map_cons, Dom.objectsOkF, Bool.and_eq_true]
    refine ⟨?_, ih (i + 1) ?_⟩
    · have hi : T[i]? = some t := by simpa using hsub 0 t (by simp)
      cases t <;> simp only [toDomTok]
      next e m =>
        obtain ⟨q, hq, hm⟩ := hO i e m (Nat.zero_le _) (List.getElem?_eq_some_iff.1 hi).1 hi
        rw [hq]
        cases m <;> simp at hm ⊢
        exact hm
    · intro k t' hk
      have := hsub (k + 1) t' (by simpa using hk)
      simpa [Nat.add_assoc, Nat.add_comm 1 k] using this

/-- a tape that is a regular body (from index 0) satisfies the object-body part of `Dom.wfTape` -/
theorem gr_objects {T : List Tok} {x : Bool} (h : Gr (.body x) T 0) :
    (Dom.objWalk (toDomTape T) 0 (toDomTape T).size).isSome = true ∧
      Dom.objectsOkF (toDomTape T) 0 (toDomTape T).toList = true := by
  obtain ⟨hO, hS⟩ := gr_sound h T [] [] (by simp) rfl
  refine ⟨?_, ?_⟩
  · obtain ⟨q, hq, _⟩ := hS (Dom.fuelOf (toDomTape T)) (by simp [Dom.fuelOf])
    simp only [Dom.objWalk, toDomTape_size]
    simp only [Nat.zero_add] at hq
    rw [hq]; rfl
  · rw [toDomTape_toList]
    exact dom_objectsOkF T (by simpa using hO) T 0 (by intro k t h; simpa using h)

end Jomini.TextTape

namespace Jomini.TextTape

/-! ### the tapes of the document fragments are regular -/

theorem Gr.cast {k : GK} {ts ts' : List Tok} {b b' : Nat} (h : Gr k ts b) (e1 : ts' = ts) (e2 : b' = b) :
    Gr k ts' b' := by subst e1; subst e2; exact h

theorem Gr.body_append {k : GK} {fs : List Tok} {b : Nat} (h : Gr k fs b) :
    k = .body false → ∀ (x : Bool) (more : List Tok), Gr (.body x) more (b + fs.length) →
      Gr (.body x) (fs ++ more) b := by
  induction h with
  | bnil => intro _ x more hm; simpa using hm
  | @bfield k ops v rest b x' hkey hops hv hr _ ihr =>
    intro hk x more hm
    simp only [GK.body.injEq] at hk
    subst hk
    have := ihr rfl x more (hm.cast rfl (by simp; omega))
    exact (Gr.bfield hkey hops hv this).cast (by simp) rfl
  | _ => intro hk; simp at hk

theorem Scal.tok_isKey (s : Scal) (a : Bytes) : (s.tok a).isKey = true := by
  unfold Scal.tok; split <;> rfl

theorem Scal.tok_isItem (s : Scal) (a : Bytes) : (s.tok a).isItem = true := by
  unfold Scal.tok; split <;> rfl

theorem Scal.tok_isScal (s : Scal) (a : Bytes) : (s.tok a).isScal = true := by
  unfold Scal.tok; split <;> rfl

theorem paramTok_isKey (b : Bool) (sl : Slice) : (paramTok b sl).isKey = true := by
  cases b <;> rfl

theorem Op.toks_ok (o : Op) : o.toks = [] ∨ ∃ o', o.toks = [.operator o'] := by
  cases o <;> simp [Op.toks]

theorem gr_elems : ∀ (es : List (Bytes × Scal)) (a : Bytes) (b : Nat), Gr .items (elemToks es a) b
  | [], _, _ => Gr.inil
  | (_, s) :: r, a, b => by
    simp only [elemToks]
    exact Gr.itok (Scal.tok_isItem _ _) (gr_elems r a (b + 1))

theorem jtapeV_head : ∀ (v : JVal) (b : Nat) (a : Bytes), v.isBraced → JValidV v a →
    ∃ t r, jtapeV v b a = t :: r ∧ t.isStartTok = true
  | .scal _ _, _, _, hb, _ => by simp [JVal.isBraced] at hb
  | .empty _ _, _, _, _, _ => by simp only [jtapeV]; exact ⟨_, _, rfl, rfl⟩
  | .obj .., _, _, _, _ => by simp only [jtapeV, List.cons_append, List.nil_append]; exact ⟨_, _, rfl, rfl⟩
  | .arrS .., _, _, _, _ => by simp only [jtapeV, List.cons_append, List.nil_append]; exact ⟨_, _, rfl, rfl⟩
  | .arrC .., _, _, _, _ => by simp only [jtapeV, List.cons_append, List.nil_append]; exact ⟨_, _, rfl, rfl⟩
  | .mixed .., _, _, _, _ => by simp only [jtapeV, List.cons_append, List.nil_append]; exact ⟨_, _, rfl, rfl⟩
  | .ghostIn _ _ _ v, b, a, _, hv => by
    simp only [JValidV] at hv
    simp only [jtapeV]
    exact jtapeV_head v b a hv.2.2.2.1 hv.2.2.2.2.2

theorem isContainer_isBraced {v : JVal} (h : v.isContainer) : v.isBraced := by
  cases v <;> simp [JVal.isContainer] at h <;> simp [JVal.isBraced]

/-! shape lemmas: the constructors of `Gr` in the syntactic shapes of `jtapeV` / `jtapeF` -/

theorem Gr.objShape {mid : List Tok} {b E : Nat} {m x : Bool} (h : Gr (.body x) mid (b + 1))
    (hm : m = true → x = true) (hE : E = b + 1 + mid.length) :
    Gr .val ([.object E m] ++ mid ++ [.endTok b]) b := by
  subst hE; exact (Gr.obj (m := m) h hm).cast (by simp) rfl

theorem Gr.arrShape {mid : List Tok} {b E : Nat} {m : Bool} (h : Gr .items mid (b + 1))
    (hE : E = b + 1 + mid.length) : Gr .val ([.array E m] ++ mid ++ [.endTok b]) b := by
  subst hE; exact (Gr.arr (m := m) h).cast (by simp) rfl

theorem Gr.fieldShape {k : Tok} {ops v rest : List Tok} {b b1 b2 : Nat} {x : Bool} (hk : k.isKey = true)
    (hops : ops = [] ∨ ∃ o, ops = [.operator o]) (hv : Gr .val v b1) (hr : Gr (.body x) rest b2)
    (e1 : b1 = b + 1 + ops.length) (e2 : b2 = b + 1 + ops.length + v.length) :
    Gr (.body x) ([k] ++ ops ++ v ++ rest) b := by
  subst e1; subst e2; exact (Gr.bfield hk hops hv hr).cast (by simp) rfl

theorem Gr.fieldImpShape {k : Tok} {v rest : List Tok} {b b1 b2 : Nat} {x : Bool} (hk : k.isKey = true)
    (hv : Gr .val v b1) (hr : Gr (.body x) rest b2) (e1 : b1 = b + 1) (e2 : b2 = b + 1 + v.length) :
    Gr (.body x) ([k] ++ v ++ rest) b := by
  subst e1; subst e2
  exact (Gr.bfield (ops := []) hk (.inl rfl) (hv.cast rfl (by simp)) (hr.cast rfl (by simp))).cast (by simp) rfl

theorem Gr.hdrShape {k t : Tok} {ops v r rest : List Tok} {b b1 b2 : Nat} {x : Bool} {h : Slice}
    (hk : k.isKey = true) (hops : ops = [] ∨ ∃ o, ops = [.operator o]) (hvt : v = t :: r)
    (ht : t.isStartTok = true) (hv : Gr .val v b1) (hr : Gr (.body x) rest b2)
    (e1 : b1 = b + 1 + ops.length + 1) (e2 : b2 = b + 1 + ops.length + (1 + v.length)) :
    Gr (.body x) ([k] ++ ops ++ [.header h] ++ v ++ rest) b := by
  subst e1; subst e2; subst hvt
  have hH := Gr.hdr (h := h) hv ht
  exact (Gr.bfield hk hops hH (hr.cast rfl (by simp; omega))).cast (by simp) rfl

theorem Gr.itokShape {t : Tok} {rest : List Tok} {b b1 : Nat} (ht : t.isItem = true)
    (hr : Gr .items rest b1) (e1 : b1 = b + 1) : Gr .items ([t] ++ rest) b := by
  subst e1; exact (Gr.itok ht hr).cast (by simp) rfl

theorem Gr.mixedShape {k t : Tok} {ops v rest es : List Tok} {b b1 b2 b3 : Nat} (hk : k.isKey = true)
    (hops : ops = [] ∨ ∃ o, ops = [.operator o]) (hv : Gr .val v b1) (hr : Gr (.body false) rest b2)
    (ht : t.isItem = true) (hes : Gr .items es b3)
    (e1 : b1 = b + 1 + ops.length) (e2 : b2 = b + 1 + ops.length + v.length)
    (e3 : b3 = b + 1 + ops.length + v.length + rest.length + 1 + 1) :
    Gr (.body true) ([k] ++ ops ++ v ++ rest ++ [.mixedContainer, t] ++ es) b := by
  subst e1; subst e2; subst e3
  have hM := Gr.bmixed (Gr.itok ht hes)
  have hrest := hr.body_append rfl true _ hM
  exact (Gr.bfield hk hops hv hrest).cast (by simp) rfl

theorem Gr.paramValShape {p : Tok} {s : Slice} {rest : List Tok} {b b2 : Nat} {x : Bool}
    (hp : p.isKey = true) (hr : Gr (.body x) rest b2) (e2 : b2 = b + 2) :
    Gr (.body x) ([p, .unquoted s] ++ rest) b := by
  subst e2
  exact (Gr.bfield (ops := []) (v := [.unquoted s]) hp (.inl rfl) (Gr.scal rfl)
    (hr.cast rfl (by simp))).cast (by simp) rfl

theorem Gr.paramObjShape {p : Tok} {s : Slice} {ops v inner rest : List Tok} {b b1 b2 b3 E : Nat} {x : Bool}
    (hp : p.isKey = true) (hops : ops = [] ∨ ∃ o, ops = [.operator o]) (hv : Gr .val v b1)
    (hi : Gr (.body false) inner b2) (hr : Gr (.body x) rest b3)
    (e1 : b1 = b + 3 + ops.length) (e2 : b2 = b + 3 + ops.length + v.length)
    (e3 : b3 = b + 3 + ops.length + v.length + inner.length + 1)
    (hE : E = b + 3 + ops.length + v.length + inner.length) :
    Gr (.body x) ([p, .object E false, .unquoted s] ++ ops ++ v ++ inner ++ [.endTok (b + 1)] ++ rest) b := by
  subst e1; subst e2; subst e3; subst hE
  have hbody := Gr.bfield (b := b + 1 + 1) (k := .unquoted s) rfl hops
    (hv.cast rfl (by omega)) (hi.cast rfl (by omega))
  have hobj := Gr.obj (m := false) hbody (by simp)
  exact (Gr.bfield (ops := []) hp (.inl rfl) (hobj.cast rfl (by simp))
    (hr.cast rfl (by simp; omega))).cast (by simp; omega) rfl

mutual
theorem grV : ∀ (v : JVal) (b : Nat) (a : Bytes), JValidV v a → Gr .val (jtapeV v b a) b
  | .scal _ s, b, a, _ => by simp only [jtapeV]; exact Gr.scal (Scal.tok_isScal _ _)
  | .empty _ _, b, a, _ => by
    simp only [jtapeV]
    exact (Gr.arr (mid := []) (m := false) Gr.inil).cast (by simp) rfl
  | .obj _ _ k g1 o v rest gc, b, a, hv => by
    simp only [JValidV] at hv
    obtain ⟨_, _, _, _, _, _, h7, h8⟩ := hv
    have hV := grV v (b + 1 + 1 + o.toks.length) _ h7
    have hF := grF rest (b + 1 + (1 + o.toks.length + jcntV v)) _ h8
    simp only [jtapeV]
    refine Gr.objShape (Gr.fieldShape (Scal.tok_isKey _ _) (Op.toks_ok o) hV hF rfl ?_) (by simp) ?_
    · rw [len_jtapeV]; omega
    · simp only [List.length_cons, List.length_append, List.length_nil, len_jtapeV, len_jtapeF]; omega
  | .arrS _ _ s0 rest gc, b, a, hv => by
    simp only [JValidV] at hv
    obtain ⟨_, _, _, _, _, _, h7⟩ := hv
    have hVs := grVs rest (b + 1 + 1) _ h7
    simp only [jtapeV]
    refine Gr.arrShape (Gr.itokShape (Scal.tok_isItem _ _) hVs rfl) ?_
    simp only [List.length_cons, List.length_append, List.length_nil, len_jtapeVs]; omega
  | .arrC _ first rest gc, b, a, hv => by
    simp only [JValidV] at hv
    obtain ⟨_, _, _, h4, h5⟩ := hv
    have hV := grV first (b + 1) _ h4
    have hVs := grVs rest (b + 1 + jcntV first) _ h5
    simp only [jtapeV]
    refine Gr.arrShape (Gr.ival hV (hVs.cast rfl (by rw [len_jtapeV]))) ?_
    simp only [List.length_append, len_jtapeV, len_jtapeVs]; omega
  | .ghostIn _ _ _ v, b, a, hv => by
    simp only [JValidV] at hv
    simp only [jtapeV]
    exact grV v b a hv.2.2.2.2.2
  | .mixed _ _ k g1 o v rest gm m0 elems gc, b, a, hv => by
    simp only [JValidV] at hv
    obtain ⟨_, _, _, _, _, _, _, h8, h9, _⟩ := hv
    have hV := grV v (b + 1 + 1 + o.toks.length) _ h8
    have hF := grF rest (b + 1 + (1 + o.toks.length + jcntV v)) _ h9
    have hE := gr_elems elems (gc ++ 125 :: a) (b + 1 + (1 + o.toks.length + jcntV v) + jcntF rest + 1 + 1)
    simp only [jtapeV]
    refine Gr.objShape (Gr.mixedShape (Scal.tok_isKey _ _) (Op.toks_ok o) hV hF (Scal.tok_isItem _ _) hE
      rfl ?_ ?_) (by simp) ?_
    · rw [len_jtapeV]; omega
    · rw [len_jtapeV, len_jtapeF]; omega
    · simp only [List.length_cons, List.length_append, List.length_nil, len_jtapeV, len_jtapeF, len_elemToks]
      omega
theorem grF : ∀ (fs : JFields) (b : Nat) (a : Bytes), JValidF fs a → Gr (.body false) (jtapeF fs b a) b
  | .nil, _, _, _ => by simp only [jtapeF]; exact Gr.bnil
  | .cons _ k g1 o v rest, b, a, hv => by
    simp only [JValidF] at hv
    obtain ⟨_, _, _, _, h5, h6⟩ := hv
    have hV := grV v (b + 1 + o.toks.length) _ h5
    have hF := grF rest (b + (1 + o.toks.length + jcntV v)) _ h6
    simp only [jtapeF]
    exact Gr.fieldShape (Scal.tok_isKey _ _) (Op.toks_ok o) hV hF rfl (by rw [len_jtapeV]; omega)
  | .consImp _ k v rest, b, a, hv => by
    simp only [JValidF] at hv
    obtain ⟨_, _, _, _, h5, h6⟩ := hv
    have hV := grV v (b + 1) _ h5
    have hF := grF rest (b + (1 + jcntV v)) _ h6
    simp only [jtapeF]
    exact Gr.fieldImpShape (Scal.tok_isKey _ _) hV hF rfl (by rw [len_jtapeV]; omega)
  | .ghost _ _ rest, b, a, hv => by
    simp only [JValidF] at hv
    simp only [jtapeF]
    exact grF rest b a hv.2.2
  | .consHdr _ k g1 o gh h body rest, b, a, hv => by
    simp only [JValidF] at hv
    obtain ⟨_, _, _, _, _, _, _, _, h9, h10, h11⟩ := hv
    have hV := grV body (b + 1 + o.toks.length + 1) _ h10
    have hF := grF rest (b + (1 + o.toks.length + (1 + jcntV body))) _ h11
    obtain ⟨t, r, htr, ht⟩ := jtapeV_head body (b + 1 + o.toks.length + 1) (jrenderF rest ++ a)
      (isContainer_isBraced h9) h10
    simp only [jtapeF]
    exact Gr.hdrShape (Scal.tok_isKey _ _) (Op.toks_ok o) htr ht hV hF rfl (by rw [len_jtapeV]; omega)
  | .paramVal _ isU name g1 val g2 rest, b, a, hv => by
    simp only [JValidF] at hv
    have hF := grF rest (b + 2) _ hv.2.2.2.2.2.2.2
    simp only [jtapeF]
    exact Gr.paramValShape (paramTok_isKey _ _) hF rfl
  | .paramObj _ isU name g1 k g2 o v inner gc rest, b, a, hv => by
    simp only [JValidF] at hv
    obtain ⟨_, _, _, _, _, _, _, _, h9, h10, h11⟩ := hv
    have hV := grV v (b + 3 + o.toks.length) _ h9
    have hI := grF inner (b + 2 + (1 + o.toks.length + jcntV v)) _ h10
    have hF := grF rest (b + ((3 + (1 + o.toks.length + jcntV v) + jcntF inner))) _ h11
    simp only [jtapeF]
    refine Gr.paramObjShape (paramTok_isKey _ _) (Op.toks_ok o) hV hI hF rfl ?_ ?_ ?_
    · rw [len_jtapeV]; omega
    · rw [len_jtapeV, len_jtapeF]; omega
    · rw [len_jtapeV, len_jtapeF]; omega
theorem grVs : ∀ (vs : JVals) (b : Nat) (a : Bytes), JValidVs vs a → Gr .items (jtapeVs vs b a) b
  | .nil, _, _, _ => by simp only [jtapeVs]; exact Gr.inil
  | .cons v rest, b, a, hv => by
    simp only [JValidVs] at hv
    simp only [jtapeVs]
    exact Gr.ival (grV v b _ hv.1) ((grVs rest (b + jcntV v) a hv.2).cast rfl (by rw [len_jtapeV]))
end

/-- `Dom.wfTape` for the tapes of the documents of fragment 3 (objects, arrays, empty containers,
ghost objects, headers, implicit `=`, variables, mixed containers, parameter blocks — any depth, any
layout), by structural induction on the document.  Subsumed by `C17_parsed_tape_wf` (all inputs,
below); kept as an independent cross-check of the grammar `Gr`. -/
theorem C17_tree_tape_wf (fs : JFields) (gt : Bytes) (hgt : Blank gt) (hv : JValidF fs gt)
    (hb : hasBom (jrenderF fs ++ gt) = false) :
    ∃ T, parse (jrenderF fs ++ gt) = .ok T false ∧ Dom.wfTape (toDomTape T) = true := by
  have hp := parse_tree fs gt hgt hv hb
  refine ⟨_, hp, ?_⟩
  obtain ⟨h1, h2⟩ := C17_parsed_tape_links _ _ _ hp
  obtain ⟨h3, h4⟩ := gr_objects (grF fs 0 gt hv)
  simp only [Dom.wfTape, h1, h2, h3, h4, Bool.and_self]

/-- the hypotheses are satisfiable (a mixed container, a parameter block) -/
example : ∃ T, parse (jrenderF exampleMixed ++ [10]) = .ok T false ∧ Dom.wfTape (toDomTape T) = true :=
  C17_tree_tape_wf exampleMixed [10] exampleMixed_valid.2.1 exampleMixed_valid.1 exampleMixed_valid.2.2

example : ∃ T, parse (jrenderF exampleParam ++ [10]) = .ok T false ∧ Dom.wfTape (toDomTape T) = true :=
  C17_tree_tape_wf exampleParam [10] exampleParam_valid.2.1 exampleParam_valid.1 exampleParam_valid.2.2

end Jomini.TextTape

namespace Jomini.TextTape

/-! ### the object-body part for ALL inputs: the parser invariant

The tape of a running parse is `T0 ++ body (++ [placeholder])`: `T0` (described by `Lv`) is
everything up to and including the token of the innermost open container, `body` is what that
container holds so far.  `Lv` records, for every enclosing level, the tokens in front of the
next open container (`Pend`): an array level holds items; an object level holds complete fields
followed by the pending `key [op] [header]`, or it has reached its `MixedContainer`
(`Stopped`). -/

theorem snoc_inj {α : Type} {A B : List α} {a b : α} (h : A ++ [a] = B ++ [b]) : A = B ∧ a = b := by
  have := List.append_inj' h rfl
  exact ⟨this.1, by simpa using this.2⟩

theorem Gr.items_append {k : GK} {xs : List Tok} {b : Nat} (h : Gr k xs b) :
    k = .items → ∀ ys, Gr .items ys (b + xs.length) → Gr .items (xs ++ ys) b := by
  induction h with
  | inil => intro _ ys hy; simpa using hy
  | @ival v rest b hv hr _ ihr =>
    intro _ ys hy
    have := ihr rfl ys (hy.cast rfl (by simp; omega))
    exact (Gr.ival hv this).cast (by simp) rfl
  | @itok t rest b ht hr ihr =>
    intro _ ys hy
    have := ihr rfl ys (hy.cast rfl (by simp; omega))
    exact (Gr.itok ht this).cast (by simp) rfl
  | _ => intro hk; simp at hk

theorem Gr.items_snoc_tok {xs : List Tok} {b : Nat} {t : Tok} (h : Gr .items xs b)
    (ht : t.isItem = true) : Gr .items (xs ++ [t]) b :=
  h.items_append rfl _ (Gr.itok ht Gr.inil)

theorem Gr.items_snoc_val {xs v : List Tok} {b : Nat} (h : Gr .items xs b)
    (hv : Gr .val v (b + xs.length)) : Gr .items (xs ++ v) b :=
  h.items_append rfl _ ((Gr.ival hv Gr.inil).cast (by simp) rfl)

theorem Gr.val_last {k : GK} {v : List Tok} {b : Nat} (h : Gr k v b) :
    k = .val → (∃ t, v = [t] ∧ t.isScal = true) ∨ (∃ v' j, v = v' ++ [.endTok j]) := by
  induction h with
  | @scal t b hk => intro _; exact .inl ⟨t, rfl, hk⟩
  | @arr mid b m _ _ => intro _; exact .inr ⟨.array (b + 1 + mid.length) m :: mid, b, by simp⟩
  | @obj mid b m x _ _ _ => intro _; exact .inr ⟨.object (b + 1 + mid.length) m :: mid, b, by simp⟩
  | @hdr t r b hs hv hst ih =>
    intro _
    rcases ih rfl with ⟨t', h1, h2⟩ | ⟨v', j, h1⟩
    · simp at h1; obtain ⟨rfl, _⟩ := h1
      cases t <;> simp [Tok.isStartTok] at hst <;> simp [Tok.isScal] at h2
    · exact .inr ⟨.header hs :: v', j, by simp [h1]⟩
  | _ => intro hk; simp at hk

theorem isScal_isItem {t : Tok} (h : t.isScal = true) : t.isItem = true := by
  cases t <;> simp [Tok.isScal] at h <;> rfl

theorem Gr.items_unsnoc' {k : GK} {ts : List Tok} {b : Nat} (h : Gr k ts b) :
    k = .items → ∀ xs l, ts = xs ++ [l] → l.isEndTok = false → Gr .items xs b ∧ l.isItem = true := by
  induction h with
  | inil => intro _ xs l h; simp at h
  | @itok t rest b ht hr ih =>
    intro _ xs l hx hl
    cases xs with
    | nil =>
      simp at hx; obtain ⟨rfl, _⟩ := hx
      exact ⟨Gr.inil, ht⟩
    | cons x xs' =>
      simp at hx; obtain ⟨rfl, hx⟩ := hx
      obtain ⟨h1, h2⟩ := ih rfl xs' l hx hl
      exact ⟨Gr.itok ht h1, h2⟩
  | @ival v rest b hv hr _ ihr =>
    intro _ xs l hx hl
    rcases List.eq_nil_or_concat rest with rfl | ⟨r', l', rfl⟩
    · simp at hx
      rcases hv.val_last rfl with ⟨t, h1, h2⟩ | ⟨v', j, h1⟩
      · rw [h1] at hx
        cases xs with
        | nil =>
          simp at hx; subst hx
          exact ⟨Gr.inil, isScal_isItem h2⟩
        | cons x xs' => simp at hx
      · rw [h1] at hx
        obtain ⟨_, rfl⟩ := snoc_inj hx
        simp [Tok.isEndTok] at hl
    · simp only [List.concat_eq_append, ← List.append_assoc] at hx
      obtain ⟨rfl, rfl⟩ := snoc_inj hx
      obtain ⟨h1, h2⟩ := ihr rfl r' l' (by simp) hl
      exact ⟨Gr.ival hv h1, h2⟩
  | _ => intro hk; simp at hk

theorem Gr.items_unsnoc {k : GK} {ts : List Tok} {b : Nat} (h : Gr k ts b)
    (hk : k = .items) (xs : List Tok) (l : Tok) (hx : ts = xs ++ [l]) (hl : l.isEndTok = false) :
    Gr .items xs b := (h.items_unsnoc' hk xs l hx hl).1

def OpsOk (ops : List Tok) : Prop := ops = [] ∨ ∃ o, ops = [.operator o]

/-- an object level that has reached its `MixedContainer` -/
def Stopped (pre : List Tok) (base : Nat) : Prop :=
  ∃ done its, pre = done ++ .mixedContainer :: its ∧ Gr (.body false) done base ∧
    Gr .items its (base + done.length + 1)

theorem Stopped.snoc_tok {pre : List Tok} {b : Nat} {t : Tok} (h : Stopped pre b)
    (ht : t.isItem = true) : Stopped (pre ++ [t]) b := by
  obtain ⟨done, its, rfl, hd, hi⟩ := h
  exact ⟨done, its ++ [t], by simp, hd, hi.items_snoc_tok ht⟩

theorem Stopped.snoc_val {pre v : List Tok} {b : Nat} (h : Stopped pre b)
    (hv : Gr .val v (b + pre.length)) : Stopped (pre ++ v) b := by
  obtain ⟨done, its, rfl, hd, hi⟩ := h
  exact ⟨done, its ++ v, by simp, hd, hi.items_snoc_val (hv.cast rfl (by simp; omega))⟩

theorem Stopped.unsnoc' {xs : List Tok} {l : Tok} {b : Nat} (h : Stopped (xs ++ [l]) b)
    (hl : l.isEndTok = false) (hm : l ≠ .mixedContainer) : Stopped xs b ∧ l.isItem = true := by
  obtain ⟨done, its, he, hd, hi⟩ := h
  rcases List.eq_nil_or_concat its with rfl | ⟨i', l', rfl⟩
  · have : xs ++ [l] = done ++ [.mixedContainer] := by simpa using he
    exact absurd (snoc_inj this).2 hm
  · simp only [List.concat_eq_append] at he hi
    have : xs ++ [l] = (done ++ .mixedContainer :: i') ++ [l'] := by simpa using he
    obtain ⟨rfl, rfl⟩ := snoc_inj this
    obtain ⟨h1, h2⟩ := hi.items_unsnoc' rfl i' l rfl hl
    exact ⟨⟨done, i', rfl, hd, h1⟩, h2⟩

theorem Stopped.unsnoc {xs : List Tok} {l : Tok} {b : Nat} (h : Stopped (xs ++ [l]) b)
    (hl : l.isEndTok = false) (hm : l ≠ .mixedContainer) : Stopped xs b := (h.unsnoc' hl hm).1

theorem Stopped.ofBody {done : List Tok} {b : Nat} (hd : Gr (.body false) done b) :
    Stopped (done ++ [.mixedContainer]) b := ⟨done, [], rfl, hd, Gr.inil⟩

theorem Stopped.gr {T : List Tok} {b : Nat} (h : Stopped T b) : Gr (.body true) T b := by
  obtain ⟨done, its, rfl, hd, hi⟩ := h
  exact hd.body_append rfl true _ (Gr.bmixed (hi.cast rfl (by omega)))

theorem Gr.body_snoc_field {done ops v : List Tok} {k : Tok} {b : Nat} (hd : Gr (.body false) done b)
    (hk : k.isKey = true) (hops : OpsOk ops) (hv : Gr .val v (b + done.length + 1 + ops.length)) :
    Gr (.body false) (done ++ [k] ++ ops ++ v) b := by
  have := hd.body_append rfl false _ (Gr.bfield hk hops hv Gr.bnil)
  exact this.cast (by simp) rfl

/-- the last complete field of an object body in Key state, kept apart while its value is an
unquoted scalar: the next token `{` turns that scalar into a `Header` -/
def LastF (lastf : List Tok) : Prop :=
  lastf = [] ∨ ∃ k ops h, lastf = [k] ++ ops ++ [.unquoted h] ∧ k.isKey = true ∧ OpsOk ops

theorem Gr.fold {done lastf : List Tok} {b : Nat} (hd : Gr (.body false) done b) (hl : LastF lastf) :
    Gr (.body false) (done ++ lastf) b := by
  rcases hl with rfl | ⟨k, ops, h, rfl, hk, hops⟩
  · simpa using hd
  · exact (hd.body_snoc_field hk hops (Gr.scal (t := .unquoted h) rfl)).cast (by simp) rfl


def Tok.flag : Tok → Bool
  | .array _ m | .object _ m => m
  | _ => false

def Tok.isObj : Tok → Bool
  | .object _ _ => true
  | _ => false

/-- lenient description of a level: an array level holds items, an object level has reached its
`MixedContainer` -/
def Loose (o : Bool) (pre : List Tok) (base : Nat) : Prop :=
  (o = false ∧ Gr .items pre base) ∨ (o = true ∧ Stopped pre base)

/-- a lenient level in front of a placeholder / open container: possibly with a pending `Header`
(Key state of an object level that has reached its `MixedContainer` and reads `key = hdr {`) -/
def LooseH (o : Bool) (pre : List Tok) (base : Nat) : Prop :=
  Loose o pre base ∨ (o = true ∧ ∃ xs h, pre = xs ++ [.header h] ∧ Stopped xs base)

/-- what the last complete field looks like in Key state -/
def KeyTail (done lastf : List Tok) : Prop :=
  LastF lastf ∧ (lastf = [] → ∀ h, done.getLast? ≠ some (.unquoted h))

/-- strict description of the innermost object level, by state: complete fields, then the
pending tokens of the field being read -/
def BStrict (s : PState) (body : List Tok) (base : Nat) : Prop :=
  match s with
  | .key => ∃ done lastf, body = done ++ lastf ∧ Gr (.body false) done base ∧ KeyTail done lastf
  | .kvs => ∃ done k, body = done ++ [k] ∧ Gr (.body false) done base ∧ k.isKey = true
  | .objectValue => ∃ done k ops, body = done ++ [k] ++ ops ∧ Gr (.body false) done base ∧
      k.isKey = true ∧ OpsOk ops
  | .arrayValue => False
  | .parseOpen => ∃ done k ops hd, body = done ++ [k] ++ ops ++ hd ∧ Gr (.body false) done base ∧
      k.isKey = true ∧ OpsOk ops ∧ (hd = [] ∨ ∃ h, hd = [.header h])

def BLoose (s : PState) (o : Bool) (body : List Tok) (base : Nat) : Prop :=
  match s with
  | .key => o = true ∧ Stopped body base
  | .kvs => o = true ∧ ∃ pre k, body = pre ++ [k] ∧ k.isItem = true ∧ Stopped pre base
  | .objectValue => o = true ∧ Stopped body base
  | .arrayValue => Loose o body base
  | .parseOpen => LooseH o body base

/-- what stands in front of an open container inside its parent level -/
def Pend (o : Bool) (pre : List Tok) (base : Nat) : Prop :=
  LooseH o pre base ∨ (o = true ∧ BStrict .parseOpen pre base)

/-- `Lv T p o`: `T` ends with the token (index `p`, kind `o` = is an object) of the innermost open
container, or is empty (top level, `p = 0`, an object level) -/
inductive Lv : List Tok → Nat → Bool → Prop
  | root : Lv [] 0 true
  | nest {T pre : List Tok} {p : Nat} {o : Bool} {c : Tok} : Lv T p o → Pend o pre T.length →
      (T.getLast?.map Tok.flag = some true → LooseH o pre T.length) →
      c.isStartTok = true → endOf (some c) = p → T ++ pre ≠ [] →
      Lv (T ++ pre ++ [c]) (T.length + pre.length) c.isObj

def holeOf (s : PState) : List Tok := if s = .parseOpen then [.array 0 false] else []

/-- the invariant, on the four fields of the parser state -/
def G (tape : List Tok) (parent : Nat) (state : PState) (mixed : Bool) : Prop :=
  ∃ T0 body o, Lv T0 parent o ∧ tape = T0 ++ body ++ holeOf state ∧
    (BLoose state o body T0.length ∨ (o = true ∧ BStrict state body T0.length)) ∧
    (T0.getLast?.map Tok.flag = some true → BLoose state o body T0.length) ∧
    (mixed = true → BLoose state o body T0.length) ∧
    (state = .key ∨ state = .kvs ∨ state = .objectValue → mixed = false)

def GInv (st : St) : Prop := G st.tape st.parent st.state st.mixed

/-- `closeState` of the token of a level -/
def closeOf (T : List Tok) : Bool × PState :=
  match T.getLast? with
  | none => (false, .key)
  | some c => closeState (some c)

theorem Lv.kind {T : List Tok} {p : Nat} {o : Bool} (h : Lv T p o) :
    (T = [] ∧ p = 0 ∧ o = true) ∨ (∃ c, T.getLast? = some c ∧ c.isStartTok = true ∧ c.isObj = o ∧
      p + 1 = T.length ∧ p ≠ 0) := by
  cases h with
  | root => exact .inl ⟨rfl, rfl, rfl⟩
  | @nest T pre p o c hL hP hF hc he hne =>
    refine .inr ⟨c, by simp, hc, rfl, by simp; omega, ?_⟩
    have : 0 < (T ++ pre).length := List.length_pos_iff.2 hne
    simp at this; omega

/-- returning to a level after the container it was waiting for has been closed:
`V = c' :: (mid ++ [End j])` is that container. -/
theorem G.ret {T pre mid : List Tok} {p' j : Nat} {o' : Bool} {c' : Tok}
    (hL : Lv T p' o') (hP : Pend o' pre T.length)
    (hF : T.getLast?.map Tok.flag = some true → LooseH o' pre T.length)
    (hc' : c'.isStartTok = true)
    (hV : Gr .val (c' :: (mid ++ [.endTok j])) (T.length + pre.length)) :
    G (T ++ pre ++ c' :: (mid ++ [.endTok j])) p' (closeOf T).2 (closeOf T).1 := by
  have hLoose : LooseH o' pre T.length → Loose o' (pre ++ c' :: (mid ++ [.endTok j])) T.length := by
    rintro ((⟨ho, hi⟩ | ⟨ho, hs⟩) | ⟨ho, xs, h, rfl, hs⟩)
    · exact .inl ⟨ho, hi.items_snoc_val hV⟩
    · exact .inr ⟨ho, hs.snoc_val hV⟩
    · have := hs.snoc_val (v := .header h :: c' :: (mid ++ [.endTok j]))
        (Gr.hdr (hV.cast rfl (by simp; omega)) hc')
      exact .inr ⟨ho, by simpa using this⟩
  have hlast : ∀ h, (pre ++ c' :: (mid ++ [.endTok j])).getLast? ≠ some (.unquoted h) := by
    intro h
    have : pre ++ c' :: (mid ++ [.endTok j]) = (pre ++ c' :: mid) ++ [.endTok j] := by simp
    rw [this, List.getLast?_append]; simp
  -- the strict case: the pending field is complete now
  have hStrict : BStrict .parseOpen pre T.length →
      BStrict .key (pre ++ c' :: (mid ++ [.endTok j])) T.length := by
    rintro ⟨done, k, ops, hd, rfl, hdn, hk, hops, hhd⟩
    rcases hhd with rfl | ⟨h, rfl⟩
    · refine ⟨done ++ [k] ++ ops ++ c' :: (mid ++ [.endTok j]), [], by simp, ?_, .inl rfl, ?_⟩
      · exact hdn.body_snoc_field hk hops (hV.cast rfl (by simp; omega))
      · intro _ h
        have := hlast h
        simpa using this
    · refine ⟨done ++ [k] ++ ops ++ (.header h :: c' :: (mid ++ [.endTok j])), [], by simp, ?_, .inl rfl, ?_⟩
      · exact hdn.body_snoc_field hk hops (Gr.hdr (hV.cast rfl (by simp; omega)) hc')
      · intro _ h'
        have := hlast h'
        simpa using this
  refine ⟨T, pre ++ c' :: (mid ++ [.endTok j]), o', hL, ?_, ?_⟩
  · have : holeOf (closeOf T).2 = [] := by
      unfold closeOf holeOf
      split
      · simp
      · rcases closeState_state (some ‹Tok›) with h | h <;> simp [h]
    rw [this]; simp
  · rcases hL.kind with ⟨rfl, rfl, rfl⟩ | ⟨c, hc, hcs, hco, _, _⟩
    · -- top level
      simp only [closeOf, List.getLast?_nil, BLoose, BStrict]
      refine ⟨?_, by simp, by simp, by simp⟩
      rcases hP with hl | ⟨_, hs⟩
      · rcases hLoose hl with ⟨h, _⟩ | ⟨_, h⟩
        · simp at h
        · exact .inl ⟨by trivial, h⟩
      · exact .inr ⟨by trivial, hStrict hs⟩
    · simp only [closeOf, hc]
      cases c <;> simp [Tok.isStartTok] at hcs
      · next e m =>
        -- an array level
        simp only [Tok.isObj] at hco; subst hco
        have hl : LooseH false pre T.length := by
          rcases hP with hl | ⟨h, _⟩
          · exact hl
          · simp at h
        simp only [closeState, BLoose, BStrict]
        exact ⟨.inl (hLoose hl), fun _ => hLoose hl, fun _ => hLoose hl, by simp⟩
      · next e m =>
        simp only [Tok.isObj] at hco; subst hco
        cases m with
        | true =>
          have hl : LooseH true pre T.length := hF (by simp [hc, Tok.flag])
          simp only [closeState, if_true, BLoose, BStrict]
          exact ⟨.inl (hLoose hl), fun _ => hLoose hl, fun _ => hLoose hl, by simp⟩
        | false =>
          simp only [closeState, Bool.false_eq_true, if_false, BLoose, BStrict]
          refine ⟨?_, by simp [hc, Tok.flag], by simp, by simp⟩
          rcases hP with hl | ⟨_, hs⟩
          · rcases hLoose hl with ⟨h, _⟩ | ⟨_, h⟩
            · simp at h
            · exact .inl ⟨by trivial, h⟩
          · exact .inr ⟨by trivial, hStrict hs⟩

/-- a step that stays on the same level -/
theorem G.step_body {T0 body body' tape' : List Tok} {o : Bool} {parent : Nat} {s s' : PState}
    {mixed mixed' : Bool} (hL : Lv T0 parent o) (htape' : tape' = T0 ++ body' ++ holeOf s')
    (hB : BLoose s o body T0.length ∨ (o = true ∧ BStrict s body T0.length))
    (hFl : T0.getLast?.map Tok.flag = some true → BLoose s o body T0.length)
    (hMx : mixed = true → BLoose s o body T0.length)
    (tL : BLoose s o body T0.length → BLoose s' o body' T0.length)
    (tS : o = true → BStrict s body T0.length →
      BLoose s' o body' T0.length ∨ BStrict s' body' T0.length)
    (hm : mixed' = true → mixed = true ∨ BLoose s' o body' T0.length)
    (hst : s' = .key ∨ s' = .kvs ∨ s' = .objectValue → mixed' = false) :
    G tape' parent s' mixed' := by
  refine ⟨T0, body', o, hL, htape', ?_, fun hf => tL (hFl hf), ?_, hst⟩
  · rcases hB with hl | ⟨ho, hs⟩
    · exact .inl (tL hl)
    · rcases tS ho hs with h | h
      · exact .inl h
      · exact .inr ⟨ho, h⟩
  · intro hm'
    rcases hm hm' with h | h
    · exact tL (hMx h)
    · exact h

theorem lexValue_tok' {tape tape' : List Tok} {d rest : Bytes} (h : lexValue tape d = .ok (tape', rest)) :
    ∃ t, tape' = tape ++ [t] ∧ ((∃ s, t = .unquoted s) ∨ (∃ s, t = .quoted s)) := by
  unfold lexValue at h
  split at h
  · simp at h
  · split at h
    · unfold parseQuoteTok at h
      split at h <;> simp at h
      exact ⟨_, h.1.symm, .inr ⟨_, rfl⟩⟩
    · split at h
      · unfold parseVariableTok at h
        split at h
        · split at h
          · split at h <;> simp at h
            exact ⟨_, h.1.symm, .inl ⟨_, rfl⟩⟩
          · simp at h
        · unfold parseScalarTok at h
          split at h <;> simp at h
          exact ⟨_, h.1.symm, .inl ⟨_, rfl⟩⟩
      · unfold parseScalarTok at h
        split at h <;> simp at h
        exact ⟨_, h.1.symm, .inl ⟨_, rfl⟩⟩

theorem parseScalarTok_tok' {tape tape' : List Tok} {d rest : Bytes}
    (h : parseScalarTok tape d = .ok (tape', rest)) : ∃ t, tape' = tape ++ [t] ∧ t.isItem = true := by
  unfold parseScalarTok at h
  split at h <;> simp at h
  exact ⟨_, h.1.symm, rfl⟩

theorem scal_isKey {t : Tok} (h : (∃ s, t = .unquoted s) ∨ (∃ s, t = .quoted s)) :
    t.isKey = true ∧ t.isStartTok = false ∧ t.isEndTok = false ∧ t ≠ .mixedContainer := by
  rcases h with ⟨s, rfl⟩ | ⟨s, rfl⟩ <;> simp [Tok.isKey, Tok.isStartTok, Tok.isEndTok]

theorem isKey_notStart {t : Tok} (h : t.isKey = true) : t.isStartTok = false := by
  cases t <;> simp [Tok.isKey] at h <;> rfl

theorem isKey_isItem {t : Tok} (h : t.isKey = true) : t.isItem = true := by
  cases t <;> simp [Tok.isKey] at h <;> rfl

theorem scal_isItem {t : Tok} (h : (∃ s, t = .unquoted s) ∨ (∃ s, t = .quoted s)) :
    t.isItem = true ∧ t.isScal = true := by
  rcases h with ⟨s, rfl⟩ | ⟨s, rfl⟩ <;> exact ⟨rfl, rfl⟩

theorem stepKvs_g {st st' : St} {data d' : Bytes} (hG : GInv st) (hs : st.state = .kvs)
    (h : stepKvs st data = .cont st' d') : GInv st' := by
  obtain ⟨T0, body, o, hL, htape, hB, hFl, hMx, hSt⟩ := hG
  rw [hs] at hB hFl hMx hSt htape
  have hmix : st.mixed = false := hSt (.inr (.inl rfl))
  simp only [holeOf, reduceCtorEq, if_false, List.append_nil] at htape
  unfold stepKvs at h
  split at h
  · contradiction
  · split at h
    · -- `=`
      split at h
      · next hm => simp [hmix] at hm
      · simp only [Step.cont.injEq] at h
        obtain ⟨rfl, _⟩ := h
        refine G.step_body (s' := .objectValue) (body' := body) hL (by simp [holeOf, htape]) hB hFl hMx ?_ ?_
          (fun hm => .inl hm) (fun _ => hmix)
        · rintro ⟨ho, pre, k, rfl, hk, hp⟩
          exact ⟨ho, hp.snoc_tok hk⟩
        · rintro _ ⟨done, k, rfl, hd, hk⟩
          exact .inr ⟨done, k, [], by simp, hd, hk, .inl rfl⟩
    · next o' r hne hop =>
      simp only [Step.cont.injEq] at h
      obtain ⟨rfl, _⟩ := h
      refine G.step_body (s' := .objectValue) (body' := body ++ [.operator o']) hL
        (by simp [holeOf, htape]) hB hFl hMx ?_ ?_ (fun hm => .inl hm) (fun _ => hmix)
      · rintro ⟨ho, pre, k, rfl, hk, hp⟩
        exact ⟨ho, (hp.snoc_tok hk).snoc_tok rfl⟩
      · rintro _ ⟨done, k, rfl, hd, hk⟩
        exact .inr ⟨done, k, [.operator o'], by simp, hd, hk, .inr ⟨o', rfl⟩⟩
    · split at h
      · simp only [Step.cont.injEq] at h
        obtain ⟨rfl, _⟩ := h
        refine G.step_body (s' := .objectValue) (body' := body) hL (by simp [holeOf, htape]) hB hFl hMx ?_ ?_
          (fun hm => .inl hm) (fun _ => hmix)
        · rintro ⟨ho, pre, k, rfl, hk, hp⟩
          exact ⟨ho, hp.snoc_tok hk⟩
        · rintro _ ⟨done, k, rfl, hd, hk⟩
          exact .inr ⟨done, k, [], by simp, hd, hk, .inl rfl⟩
      · split at h
        · contradiction
        · next tape' hins =>
          simp only [Step.cont.injEq] at h
          obtain ⟨rfl, _⟩ := h
          obtain ⟨X, l, hX, rfl⟩ := insertBeforeLast_some hins
          -- the last token of the tape is the last token of the body
          have hbody : ∃ pre, body = pre ++ [l] ∧ X = T0 ++ pre := by
            rcases hB with ⟨_, pre, k, rfl, _, _⟩ | ⟨_, done, k, rfl, _, _⟩
            · rw [htape, ← List.append_assoc] at hX
              obtain ⟨h1, h2⟩ := snoc_inj hX
              exact ⟨pre, by rw [h2], h1.symm⟩
            · rw [htape, ← List.append_assoc] at hX
              obtain ⟨h1, h2⟩ := snoc_inj hX
              exact ⟨done, by rw [h2], h1.symm⟩
          obtain ⟨pre, rfl, rfl⟩ := hbody
          have hoT : o = true := by
            rcases hB with ⟨ho, _⟩ | ⟨ho, _⟩ <;> exact ho
          refine G.step_body (s' := .arrayValue) (body' := pre ++ [.mixedContainer, l]) hL
            (by simp [holeOf]) hB hFl hMx ?_ ?_ ?_ (by simp)
          · rintro ⟨ho, pre', k, he, hk, hp⟩
            obtain ⟨rfl, rfl⟩ := snoc_inj he
            have := (hp.snoc_tok (t := .mixedContainer) rfl).snoc_tok hk
            exact .inr ⟨ho, by simpa using this⟩
          · rintro ho ⟨done, k, he, hd, hk⟩
            obtain ⟨rfl, rfl⟩ := snoc_inj he
            have := (Stopped.ofBody hd).snoc_tok (isKey_isItem hk)
            exact .inl (.inr ⟨ho, by simpa using this⟩)
          · intro _
            right
            rcases hB with hl | ⟨ho, hs'⟩
            · obtain ⟨ho, pre', k, he, hk, hp⟩ := hl
              obtain ⟨rfl, rfl⟩ := snoc_inj he
              have := (hp.snoc_tok (t := .mixedContainer) rfl).snoc_tok hk
              exact .inr ⟨ho, by simpa using this⟩
            · obtain ⟨done, k, he, hd, hk⟩ := hs'
              obtain ⟨rfl, rfl⟩ := snoc_inj he
              have := (Stopped.ofBody hd).snoc_tok (isKey_isItem hk)
              exact .inr ⟨ho, by simpa using this⟩

theorem stepObjectValue_g {st st' : St} {data d' : Bytes} (hG : GInv st) (hs : st.state = .objectValue)
    (h : stepObjectValue st data = .cont st' d') : GInv st' := by
  obtain ⟨T0, body, o, hL, htape, hB, hFl, hMx, hSt⟩ := hG
  rw [hs] at hB hFl hMx hSt htape
  have hmix : st.mixed = false := hSt (.inr (.inr rfl))
  simp only [holeOf, reduceCtorEq, if_false, List.append_nil] at htape
  unfold stepObjectValue at h
  split at h
  · contradiction
  · split at h
    · -- `{`
      simp only [Step.cont.injEq] at h
      obtain ⟨rfl, _⟩ := h
      refine G.step_body (s' := .parseOpen) (body' := body) hL (by simp [holeOf, htape]) hB hFl hMx ?_ ?_
        (fun hm => .inl hm) (by simp)
      · rintro ⟨ho, hp⟩; exact .inl (.inr ⟨ho, hp⟩)
      · rintro _ ⟨done, k, ops, rfl, hd, hk, hops⟩
        exact .inr ⟨done, k, ops, [], by simp, hd, hk, hops, .inl rfl⟩
    · split at h
      · contradiction
      · split at h
        · next tape' rest' hlex =>
          simp only [Step.cont.injEq] at h
          obtain ⟨rfl, _⟩ := h
          obtain ⟨t, rfl, ht⟩ := lexValue_tok' hlex
          obtain ⟨htk, hts, hte, htm⟩ := scal_isKey ht
          refine G.step_body (s' := .key) (body' := body ++ [t]) hL (by simp [holeOf, htape]) hB hFl hMx ?_ ?_
            (fun hm => .inl hm) (fun _ => hmix)
          · rintro ⟨ho, hp⟩; exact ⟨ho, hp.snoc_tok (scal_isItem ht).1⟩
          · rintro _ ⟨done, k, ops, rfl, hd, hk, hops⟩
            right
            rcases ht with ⟨s, rfl⟩ | ⟨s, rfl⟩
            · exact ⟨done, [k] ++ ops ++ [.unquoted s], by simp, hd, .inr ⟨k, ops, s, rfl, hk, hops⟩, by simp⟩
            · refine ⟨done ++ [k] ++ ops ++ [.quoted s], [], by simp, ?_, .inl rfl, ?_⟩
              · exact hd.body_snoc_field hk hops (Gr.scal rfl)
              · intro _ h
                rw [List.getLast?_append]; simp
        · cases ‹Fail› <;> simp [Step.fail] at h

theorem set_mid (A B : List Tok) (c X : Tok) : (A ++ c :: B).set A.length X = A ++ X :: B := by
  induction A with
  | nil => rfl
  | cons a A ih => simp [ih]

theorem get_mid' (A B : List Tok) (c : Tok) : (A ++ c :: B)[A.length]? = some c := by simp

theorem closeOf_eq {T R : List Tok} {p' : Nat} {o' : Bool} (hL : Lv T p' o')
    (hz : closeState (T ++ R)[0]? = (false, .key)) : closeState (T ++ R)[p']? = closeOf T := by
  cases hL with
  | root => simpa [closeOf] using hz
  | @nest T2 pre2 p2 o2 c2 _ _ _ _ _ _ =>
    have : (T2 ++ pre2 ++ [c2] ++ R)[T2.length + pre2.length]? = some c2 := by
      have := get_mid' (T2 ++ pre2) R c2
      simpa using this
    rw [this]; simp [closeOf]

/-- closing the innermost container `c` (kind kept, `end` and flag written) -/
theorem G.close {T pre body tape' : List Tok} {p' : Nat} {o' m : Bool} {c : Tok}
    (hL : Lv T p' o') (hP : Pend o' pre T.length)
    (hF : T.getLast?.map Tok.flag = some true → LooseH o' pre T.length)
    (hc : c.isStartTok = true)
    (hbody : BLoose .arrayValue c.isObj body (T.length + pre.length + 1) ∨
      (c.isObj = true ∧ m = false ∧ Gr (.body false) body (T.length + pre.length + 1)))
    (htape' : tape' = T ++ pre ++
      (if c.isObj then Tok.object (T.length + pre.length + 1 + body.length) m
        else Tok.array (T.length + pre.length + 1 + body.length) m) ::
        (body ++ [.endTok (T.length + pre.length)])) :
    G tape' p' (closeOf T).2 (closeOf T).1 := by
  subst htape'
  cases c <;> simp [Tok.isStartTok] at hc
  · -- array
    simp only [Tok.isObj, Bool.false_eq_true, if_false]
    refine G.ret hL hP hF rfl ?_
    rcases hbody with (⟨_, hi⟩ | ⟨h, _⟩) | ⟨h, _⟩
    · exact Gr.arr hi
    · simp [Tok.isObj] at h
    · simp [Tok.isObj] at h
  · simp only [Tok.isObj, if_true]
    refine G.ret hL hP hF rfl ?_
    rcases hbody with (⟨h, _⟩ | ⟨_, hs⟩) | ⟨_, hm, hb⟩
    · simp [Tok.isObj] at h
    · exact Gr.obj hs.gr (by simp)
    · exact Gr.obj hb (by simp [hm])

theorem stepArrayOp_g {st st' : St} {data d' : Bytes} {onErr : Res} (hG : GInv st) (hs : st.state = .arrayValue)
    (h : stepArrayOp onErr st data = .cont st' d') : GInv st' := by
  obtain ⟨T0, body, o, hL, htape, hB, hFl, hMx, hSt⟩ := hG
  rw [hs] at hB hFl hMx hSt htape
  simp only [holeOf, reduceCtorEq, if_false, List.append_nil] at htape
  have hLo : Loose o body T0.length := by
    rcases hB with h | ⟨_, h⟩
    · exact h
    · exact absurd h (by simp [BStrict])
  unfold stepArrayOp at h
  split at h
  · contradiction
  · next tape mixed hpre =>
    -- the tape after the optional `MixedContainer` insertion is still `T0 ++ body1`, `body1` loose
    have h1 : ∃ body1, tape = T0 ++ body1 ∧ Loose o body1 T0.length := by
      unfold arrayOpPre at hpre
      split at hpre
      · simp at hpre; exact ⟨body, by rw [← hpre.1, htape], hLo⟩
      · split at hpre
        · next sl hsc =>
          split at hpre
          · next tape1 hins =>
            simp at hpre
            obtain ⟨rfl, _⟩ := hpre
            obtain ⟨X, l, hX, rfl⟩ := insertBeforeLast_some hins
            rw [hX] at hsc
            simp at hsc
            have hl : l.isStartTok = false ∧ l.isEndTok = false ∧ l ≠ .mixedContainer := by
              cases l <;> simp [Tok.asScalar] at hsc <;> simp [Tok.isStartTok, Tok.isEndTok]
            -- `l` is the last token of the body
            rcases List.eq_nil_or_concat body with rfl | ⟨xs, l', rfl⟩
            · simp only [List.append_nil] at htape
              rcases hL.kind with ⟨rfl, _, _⟩ | ⟨c, hc, hcs, _, _, _⟩
              · rw [htape] at hX; simp at hX
              · rw [htape] at hX
                have := congrArg List.getLast? hX
                rw [hc] at this; simp at this; subst this
                simp [hcs] at hl
            · simp only [List.concat_eq_append] at htape hLo
              rw [htape, ← List.append_assoc] at hX
              obtain ⟨rfl, rfl⟩ := snoc_inj hX
              refine ⟨xs ++ [.mixedContainer, l'], by simp, ?_⟩
              rcases hLo with ⟨ho, hi⟩ | ⟨ho, hs'⟩
              · obtain ⟨h1, h2⟩ := hi.items_unsnoc' rfl xs l' rfl hl.2.1
                have := (h1.items_snoc_tok (t := .mixedContainer) rfl).items_snoc_tok h2
                exact .inl ⟨ho, by simpa using this⟩
              · obtain ⟨h1, h2⟩ := hs'.unsnoc' hl.2.1 hl.2.2
                have := (h1.snoc_tok (t := .mixedContainer) rfl).snoc_tok h2
                exact .inr ⟨ho, by simpa using this⟩
          · simp at hpre
        · simp at hpre
    obtain ⟨body1, rfl, hLo1⟩ := h1
    split at h
    · next o' r hop =>
      simp only [Step.cont.injEq] at h
      obtain ⟨rfl, _⟩ := h
      have hLo2 : Loose o (body1 ++ [.operator o']) T0.length := by
        rcases hLo1 with ⟨ho, hi⟩ | ⟨ho, hs'⟩
        · exact .inl ⟨ho, hi.items_snoc_tok rfl⟩
        · exact .inr ⟨ho, hs'.snoc_tok rfl⟩
      refine ⟨T0, body1 ++ [.operator o'], o, hL, by simp [hs, holeOf], ?_, ?_, ?_, ?_⟩
      all_goals simp only [hs]
      · exact .inl hLo2
      · exact fun _ => hLo2
      · exact fun _ => hLo2
      · simp
    · contradiction

theorem close_tape (T pre body : List Tok) (c X e : Tok) :
    (T ++ pre ++ [c] ++ body).set (T.length + pre.length) X ++ [e] = T ++ pre ++ X :: (body ++ [e]) := by
  have := set_mid (T ++ pre) body c X
  simp only [List.length_append] at this
  simp only [List.append_assoc, List.singleton_append] at this ⊢
  rw [this]; simp

theorem close_tape' (T pre body : List Tok) (c X e : Tok) :
    (T ++ pre ++ [c] ++ body ++ [e]).set (T.length + pre.length) X = T ++ pre ++ X :: (body ++ [e]) := by
  have := set_mid (T ++ pre) (body ++ [e]) c X
  simp only [List.length_append] at this
  simp only [List.append_assoc, List.singleton_append, List.cons_append] at this ⊢
  exact this

theorem stepArrayValue_g {n : Nat} {st st' : St} {data d' : Bytes} (hG : GInv st) (hinv : StInv st)
    (hs : st.state = .arrayValue) (h : stepArrayValue n st data = .cont st' d') : GInv st' := by
  have hG0 := hG
  obtain ⟨state, mixed, parent, tape⟩ := st
  simp only at hs; subst hs
  obtain ⟨T0, body, o, hL, htape, hB, hFl, hMx, hSt⟩ := hG
  simp only [holeOf, reduceCtorEq, if_false, List.append_nil] at htape hB hFl hMx
  subst htape
  have hLo : Loose o body T0.length := by
    rcases hB with h | ⟨_, h⟩
    · exact h
    · exact absurd h (by simp [BStrict])
  obtain ⟨hT, _, _⟩ := hinv
  simp only [decide_false, reduceCtorEq] at hT
  -- pushing one token that is not a container start
  have hpush : ∀ t : Tok, t.isItem = true → G (T0 ++ body ++ [t]) parent .arrayValue mixed := by
    intro t ht
    have hLo2 : Loose o (body ++ [t]) T0.length := by
      rcases hLo with ⟨ho, hi⟩ | ⟨ho, hs'⟩
      · exact .inl ⟨ho, hi.items_snoc_tok ht⟩
      · exact .inr ⟨ho, hs'.snoc_tok ht⟩
    exact ⟨T0, body ++ [t], o, hL, by simp [holeOf], .inl hLo2, fun _ => hLo2, fun _ => hLo2, by simp⟩
  unfold stepArrayValue at h
  split at h
  · contradiction
  · split at h
    · -- `{`
      simp only [Step.cont.injEq] at h
      obtain ⟨rfl, _⟩ := h
      exact ⟨T0, body, o, hL, by simp [holeOf], .inl (.inl hLo), fun _ => .inl hLo, fun _ => .inl hLo, by simp⟩
    · split at h
      · -- `}`
        simp only at h
        split at h
        · contradiction
        · next hnz =>
          have hp := hT.parent_ne_zero hnz
          split at h
          · contradiction
          · next tape' hset =>
            simp only [Step.cont.injEq] at h
            obtain ⟨rfl, _⟩ := h
            obtain ⟨rfl, _⟩ := setTok_some hset
            cases hL with
            | root => exact absurd rfl hp
            | @nest T pre p' o' c hL' hP hF hc he hne =>
              have hget : (T ++ pre ++ [c] ++ body)[T.length + pre.length]? = some c := by
                have := get_mid' (T ++ pre) body c
                simpa using this
              have hcs : closeState (T ++ pre ++ [c] ++ body)[p']? = closeOf T := by
                have hz := hT.closeState_zero
                have := closeOf_eq (R := pre ++ [c] ++ body) hL' (by simpa using hz)
                simpa using this
              simp only [Nat.add_eq, hget, he, hcs]
              show G _ _ _ _
              refine G.close (m := mixed) (c := c) (body := body) hL' hP hF hc (.inl ?_) ?_
              · have : (T ++ pre ++ [c]).length = T.length + pre.length + 1 := by simp; omega
                rw [this] at hLo; exact hLo
              · rw [close_tape]
                cases c <;> simp [Tok.isStartTok] at hc
                all_goals simp [Tok.isObj]; omega
      · split at h
        · -- quoted / variable
          split at h
          · next tape' rest' hlex =>
            simp only [Step.cont.injEq] at h
            obtain ⟨rfl, _⟩ := h
            obtain ⟨t, rfl, ht⟩ := lexValue_tok' hlex
            exact hpush t (scal_isItem ht).1
          · cases ‹Fail› <;> simp [Step.fail] at h
        · split at h
          · exact stepArrayOp_g hG0 rfl h
          · split at h
            · next tape' rest' hlex =>
              simp only [Step.cont.injEq] at h
              obtain ⟨rfl, _⟩ := h
              obtain ⟨t, rfl, ht⟩ := parseScalarTok_tok' hlex
              exact hpush t ht
            · cases ‹Fail› <;> simp [Step.fail] at h

/-- entering a new container `c` (the placeholder, or a parameter block's object) -/
theorem G.enter {T0 body body' tape' : List Tok} {o : Bool} {parent : Nat} {c : Tok} {s' : PState}
    {mixed' : Bool} (hL : Lv T0 parent o) (hP : Pend o body T0.length)
    (hF : T0.getLast?.map Tok.flag = some true → LooseH o body T0.length)
    (hc : c.isStartTok = true) (he : endOf (some c) = parent) (hne : T0 ++ body ≠ [])
    (hflag : c.flag = false)
    (htape' : tape' = T0 ++ body ++ [c] ++ body' ++ holeOf s')
    (hB' : BLoose s' c.isObj body' (T0.length + body.length + 1) ∨
      (c.isObj = true ∧ BStrict s' body' (T0.length + body.length + 1)))
    (hmx : mixed' = false) :
    G tape' (T0.length + body.length) s' mixed' := by
  have hlen : (T0 ++ body ++ [c]).length = T0.length + body.length + 1 := by simp; omega
  refine ⟨T0 ++ body ++ [c], body', c.isObj, Lv.nest hL hP hF hc he hne, htape', ?_, ?_, ?_, fun _ => hmx⟩
  · rw [hlen]; exact hB'
  · intro hf; simp [hflag] at hf
  · intro hm; simp [hmx] at hm

theorem TInv.zero_notStart {T : List Tok} {p : Nat} {ph : Bool} (h : TInv T p ph) :
    ∀ t, T[0]? = some t → t.isStartTok = false := by
  obtain ⟨C, hC⟩ := h
  intro t ht
  have hz := hC.zero
  rw [List.getElem?_map, ht] at hz
  cases t <;> try rfl
  · exact absurd rfl (hz _)
  · exact absurd rfl (hz _)

/-- the `if mixed_mode { tape[parent].mixed = true }` edit only changes the flag of the token of
the innermost level -/
theorem flag_edit_lv {T0 R : List Tok} {p : Nat} {o : Bool} (hL : Lv T0 p o)
    (hz : ∀ t, (T0 ++ R)[0]? = some t → t.isStartTok = false) :
    ∃ T0', (match (T0 ++ R)[p]? with
      | some (.array e _) => (T0 ++ R).set p (.array e true)
      | some (.object e _) => (T0 ++ R).set p (.object e true)
      | _ => T0 ++ R) = T0' ++ R ∧ Lv T0' p o ∧ T0'.length = T0.length := by
  cases hL with
  | root =>
    refine ⟨[], ?_, .root, rfl⟩
    cases hR : ([] ++ R)[0]? with
    | none => rfl
    | some t =>
      have := hz t hR
      cases t <;> simp [Tok.isStartTok] at this <;> rfl
  | @nest T pre p' o' c hL' hP hF hc he hne =>
    have hget : (T ++ pre ++ [c] ++ R)[T.length + pre.length]? = some c := by
      have := get_mid' (T ++ pre) R c
      simpa using this
    have hset : ∀ X, (T ++ pre ++ [c] ++ R).set (T.length + pre.length) X = T ++ pre ++ [X] ++ R := by
      intro X
      have := set_mid (T ++ pre) R c X
      simp only [List.length_append] at this
      simpa using this
    rw [hget]
    cases c <;> simp [Tok.isStartTok] at hc
    · next e m =>
      refine ⟨T ++ pre ++ [.array e true], by simp only [hset], ?_, by simp⟩
      exact Lv.nest (c := .array e true) hL' hP hF rfl he hne
    · next e m =>
      refine ⟨T ++ pre ++ [.object e true], by simp only [hset], ?_, by simp⟩
      exact Lv.nest (c := .object e true) hL' hP hF rfl he hne

/-- what a regular tape looks like at the very end -/
theorem G.final {tape : List Tok} {m : Bool} (h : G tape 0 .key m) : ∃ x, Gr (.body x) tape 0 := by
  obtain ⟨T0, body, o, hL, htape, hB, _, _, _⟩ := h
  rcases hL.kind with ⟨rfl, _, _⟩ | ⟨_, _, _, _, _, hp⟩
  · simp only [holeOf, reduceCtorEq, if_false, List.append_nil, List.nil_append] at htape
    subst htape
    rcases hB with ⟨_, hs⟩ | ⟨_, done, lastf, rfl, hd, hl, _⟩
    · exact ⟨true, hs.gr⟩
    · exact ⟨false, hd.fold hl⟩
  · exact absurd rfl hp

theorem paramTok_notStart (b : Bool) (sl : Slice) : (paramTok b sl).isStartTok = false := by
  cases b <;> rfl

theorem paramTok_isItem (b : Bool) (sl : Slice) : (paramTok b sl).isItem = true := by
  cases b <;> rfl

theorem G.param_val {T0 body : List Tok} {o mixed : Bool} {parent : Nat} (hL : Lv T0 parent o)
    (hB : BLoose .key o body T0.length ∨ (o = true ∧ BStrict .key body T0.length))
    (hFl : T0.getLast?.map Tok.flag = some true → BLoose .key o body T0.length)
    (hMx : mixed = true → BLoose .key o body T0.length) (hmix : mixed = false)
    (pt : Tok) (hpk : pt.isKey = true) (s : Slice) :
    G (T0 ++ body ++ [pt] ++ [.unquoted s]) parent .key mixed := by
  refine G.step_body (s' := .key) (body' := body ++ [pt, .unquoted s]) hL
    (by simp [holeOf]) hB hFl hMx ?_ ?_ (fun hm => .inl hm) (fun _ => hmix)
  · rintro ⟨ho, hs⟩
    have := (hs.snoc_tok (isKey_isItem hpk)).snoc_tok (t := .unquoted s) rfl
    exact ⟨ho, by simpa using this⟩
  · rintro _ ⟨done, lastf, rfl, hd, hl, _⟩
    exact .inr ⟨done ++ lastf, [pt] ++ [] ++ [.unquoted s], by simp, hd.fold hl,
      .inr ⟨pt, [], s, rfl, hpk, .inl rfl⟩, by simp⟩

theorem G.param_obj {T0 body : List Tok} {o mixed : Bool} {parent : Nat} (hL : Lv T0 parent o)
    (hB : BLoose .key o body T0.length ∨ (o = true ∧ BStrict .key body T0.length))
    (hFl : T0.getLast?.map Tok.flag = some true → BLoose .key o body T0.length)
    (hmix : mixed = false) (pt : Tok) (hpk : pt.isKey = true) (s : Slice) :
    G (T0 ++ body ++ [pt] ++ [.object parent false, .unquoted s]) (T0 ++ body ++ [pt]).length .kvs mixed := by
  have hP : Pend o (body ++ [pt]) T0.length := by
    rcases hB with ⟨ho, hs⟩ | ⟨ho, done, lastf, rfl, hd, hl, _⟩
    · exact .inl (.inl (.inr ⟨ho, hs.snoc_tok (isKey_isItem hpk)⟩))
    · exact .inr ⟨ho, done ++ lastf, pt, [], [], by simp, hd.fold hl, hpk, .inl rfl, .inl rfl⟩
  have := G.enter (c := .object parent false) (body' := [.unquoted s]) (s' := .kvs) (mixed' := mixed)
    (tape' := T0 ++ body ++ [pt] ++ [.object parent false, .unquoted s]) hL hP
    (by
      intro hf
      obtain ⟨ho, hs⟩ := hFl hf
      exact .inl (.inr ⟨ho, hs.snoc_tok (isKey_isItem hpk)⟩))
    rfl rfl (by simp) rfl (by simp [holeOf]) (.inr ⟨rfl, [], _, rfl, Gr.bnil, rfl⟩) hmix
  have hlen : (T0 ++ body ++ [pt]).length = T0.length + (body ++ [pt]).length := by simp <;> omega
  rw [hlen]; exact this

theorem paramDefBody_g {mixed : Bool} {tape : List Tok} {parent : Nat} {st' : St} {data d' : Bytes}
    (hG : G tape parent .key mixed) (h : paramDefBody mixed tape parent data = .cont st' d') :
    GInv st' := by
  obtain ⟨T0, body, o, hL, htape, hB, hFl, hMx, hSt⟩ := hG
  have hmix : mixed = false := hSt (.inl rfl)
  simp only [holeOf, reduceCtorEq, if_false, List.append_nil] at htape
  subst htape
  unfold paramDefBody at h
  simp only at h
  split_cont h
  all_goals
    simp only [Step.cont.injEq] at h
    obtain ⟨rfl, _⟩ := h
    show G _ _ _ _
    first
    | exact G.param_val hL hB hFl hMx hmix _ (paramTok_isKey _ _) _
    | exact G.param_obj hL hB hFl hmix _ (paramTok_isKey _ _) _

theorem paramDef_g {st st' : St} {data d' : Bytes} {initial : Bool}
    (hG : GInv st) (hinv : StInv st)
    (hst : (initial = false ∧ st.state = .key) ∨ (initial = true ∧ st.state = .parseOpen ∧ st.mixed = false))
    (h : paramDef st data initial = .cont st' d') : GInv st' := by
  obtain ⟨state, mixed, parent, tape⟩ := st
  unfold paramDef at h
  split at h
  · simp at h
  · split at h
    · simp at h
    · next tape1 parent1 hp =>
      refine paramDefBody_g ?_ h
      unfold paramDefPre at hp
      rcases hst with ⟨rfl, hs⟩ | ⟨rfl, hs, hm⟩
      · simp at hp hs; obtain ⟨rfl, rfl⟩ := hp; subst hs; exact hG
      · simp only at hs hm; subst hs; subst hm
        simp only [if_true] at hp
        split at hp
        · simp at hp
        · simp only [Option.map_eq_some_iff, Prod.mk.injEq] at hp
          obtain ⟨t, hset, rfl, rfl⟩ := hp
          obtain ⟨rfl, _⟩ := setTok_some hset
          obtain ⟨T0, body, o, hL, htape, hB, hFl, hMx, hSt⟩ := hG
          simp only [holeOf, if_true] at htape hB hFl hL
          subst htape
          simp only at h ⊢
          obtain ⟨hT, _, _⟩ := hinv
          simp only [decide_true] at hT
          obtain ⟨X, t0, hX, _, hXne, _⟩ := hT.hole_shape
          have hXe : X = T0 ++ body := (snoc_inj (by simpa using hX.symm)).1
          have hset' : (T0 ++ body ++ [Tok.array 0 false]).set ((T0 ++ body ++ [Tok.array 0 false]).length - 1)
              (.object parent false) = T0 ++ body ++ [.object parent false] := by
            have := set_mid (T0 ++ body) [] (.array 0 false) (.object parent false)
            simpa using this
          rw [hset']
          have := G.enter (c := .object parent false) (body' := []) (s' := .key) (mixed' := false)
            (tape' := T0 ++ body ++ [.object parent false]) hL hB hFl rfl rfl
            (by rw [← hXe]; exact hXne) rfl (by simp [holeOf])
            (.inr ⟨rfl, [], [], rfl, Gr.bnil, .inl rfl, by simp⟩) rfl
          simpa using this

theorem stepParseOpen_g {st st' : St} {data d' : Bytes} (hG : GInv st) (hinv : StInv st)
    (hs : st.state = .parseOpen) (h : stepParseOpen st data = .cont st' d') : GInv st' := by
  have hG0 := hG
  have hinv0 := hinv
  obtain ⟨state, mixed, parent, tape⟩ := st
  simp only at hs; subst hs
  obtain ⟨T0, body, o, hL, htape, hB, hFl, hMx, hSt⟩ := hG
  simp only [holeOf, if_true] at htape hB hFl hMx hL
  subst htape
  obtain ⟨hT, _, _⟩ := hinv
  simp only [decide_true] at hT
  obtain ⟨X, t0, hX, _, hXne, _⟩ := hT.hole_shape
  have hXe : X = T0 ++ body := (snoc_inj (by simpa using hX.symm)).1
  have hne : T0 ++ body ≠ [] := by rw [← hXe]; exact hXne
  have hlen1 : (T0 ++ body ++ [Tok.array 0 false]).length - 1 = T0.length + body.length := by simp
  have hsetlast : ∀ Y, (T0 ++ body ++ [Tok.array 0 false]).set (T0.length + body.length) Y = T0 ++ body ++ [Y] := by
    intro Y
    have := set_mid (T0 ++ body) [] (.array 0 false) Y
    simpa using this
  unfold stepParseOpen at h
  split at h
  · contradiction
  · split at h
    · -- `}`: empty array
      split at h
      · contradiction
      · simp only at h
        split at h
        · contradiction
        · next tape' hset =>
          simp only [Step.cont.injEq] at h
          obtain ⟨rfl, _⟩ := h
          obtain ⟨rfl, _⟩ := setTok_some hset
          have hcs : closeState (T0 ++ body ++ [Tok.array 0 false])[parent]? = closeOf T0 := by
            have hz := hT.closeState_zero
            have := closeOf_eq (R := body ++ [Tok.array 0 false]) hL (by simpa using hz)
            simpa using this
          simp only [hcs, hlen1, hsetlast]
          show G _ _ _ _
          have hV : Gr .val (Tok.array (T0.length + body.length + 1) false :: ([] ++ [.endTok (T0.length + body.length)]))
              (T0.length + body.length) := (Gr.arr (mid := []) (m := false) Gr.inil).cast (by simp) rfl
          have := G.ret (mid := []) hL hB hFl rfl hV
          simpa using this
    · split at h
      · -- `[`
        split at h
        · contradiction
        · next hm => exact paramDef_g hG0 hinv0 (.inr ⟨rfl, rfl, by simpa using hm⟩) h
      · split at h
        · -- `{`
          split at h
          · contradiction
          · split at h
            · contradiction
            · split at h
              · simp only [Step.cont.injEq] at h
                obtain ⟨rfl, _⟩ := h
                exact hG0
              · split at h
                · contradiction
                · simp only at h
                  split at h
                  · contradiction
                  · next tape' hset =>
                    simp only [Step.cont.injEq] at h
                    obtain ⟨rfl, _⟩ := h
                    obtain ⟨rfl, _⟩ := setTok_some hset
                    simp only [hlen1, hsetlast]
                    show G _ _ _ _
                    exact G.enter (c := .array parent false) (body' := []) (s' := .arrayValue) hL hB hFl rfl rfl
                      hne rfl (by simp [holeOf]) (.inl (.inl ⟨rfl, Gr.inil⟩)) rfl
        · -- first scalar of the container
          split at h
          · cases ‹Fail› <;> simp [Step.fail] at h
          · next tape1 rest' hlex =>
            obtain ⟨t, rfl, ht⟩ := lexValue_tok' hlex
            obtain ⟨htk, hts, _, _⟩ := scal_isKey ht
            simp only at h
            -- the optional flag edit
            generalize htape2 : (if mixed = true then
                match (T0 ++ body ++ [Tok.array 0 false] ++ [t])[parent]? with
                | some (.array e _) => (T0 ++ body ++ [Tok.array 0 false] ++ [t]).set parent (.array e true)
                | some (.object e _) => (T0 ++ body ++ [Tok.array 0 false] ++ [t]).set parent (.object e true)
                | _ => T0 ++ body ++ [Tok.array 0 false] ++ [t]
              else T0 ++ body ++ [Tok.array 0 false] ++ [t]) = tape2 at h
            have hedit : ∃ T0', tape2 = T0' ++ body ++ [Tok.array 0 false, t] ∧
                Lv T0' parent o ∧ T0'.length = T0.length ∧
                (T0'.getLast?.map Tok.flag = some true → LooseH o body T0.length) := by
              rw [← htape2]
              have e : T0 ++ body ++ [Tok.array 0 false] ++ [t] = T0 ++ (body ++ [Tok.array 0 false, t]) := by simp
              rw [e]
              by_cases hm : mixed = true
              · rw [if_pos hm]
                have hz : ∀ t', (T0 ++ (body ++ [Tok.array 0 false, t]))[0]? = some t' → t'.isStartTok = false := by
                  intro t' ht'
                  refine hT.zero_notStart t' ?_
                  have hlt : 0 < (T0 ++ body ++ [Tok.array 0 false]).length := by simp <;> omega
                  have : (T0 ++ body ++ [Tok.array 0 false] ++ [t])[0]? = some t' := by rw [e]; exact ht'
                  rw [List.getElem?_append_left hlt] at this
                  exact this
                obtain ⟨T0', h1, h2, h3⟩ := flag_edit_lv (R := body ++ [Tok.array 0 false, t]) hL hz
                exact ⟨T0', h1.trans (by simp), h2, h3, fun _ => hMx hm⟩
              · rw [if_neg hm]
                exact ⟨T0, by simp, hL, rfl, hFl⟩
            obtain ⟨T0', hE, hL', hlen', hFl'⟩ := hedit
            subst hE
            have hlen2 : (T0' ++ body ++ [Tok.array 0 false, t]).length - 2 = T0'.length + body.length := by simp <;> omega
            have hset2 : ∀ Y, (T0' ++ body ++ [Tok.array 0 false, t]).set (T0'.length + body.length) Y =
                T0' ++ body ++ [Y] ++ [t] := by
              intro Y
              have := set_mid (T0' ++ body) [t] (.array 0 false) Y
              simpa using this
            have hne' : T0' ++ body ≠ [] := by
              intro h0
              have := congrArg List.length h0
              have h1 := congrArg List.length (show T0 ++ body = X from hXe.symm)
              have h2 : 0 < X.length := List.length_pos_iff.2 hXne
              simp only [List.length_append, List.length_nil] at this h1; omega
            rw [← hlen'] at hB hFl'
            split at h
            · contradiction
            · split at h
              · contradiction
              · split at h
                · split at h
                  · contradiction
                  · next tape' hset =>
                    simp only [Step.cont.injEq] at h
                    obtain ⟨rfl, _⟩ := h
                    obtain ⟨rfl, _⟩ := setTok_some hset
                    simp only [hlen2, hset2]
                    show G _ _ _ _
                    exact G.enter (c := .object parent false) (body' := [t]) (s' := .kvs) hL' hB hFl' rfl rfl
                      hne' rfl (by simp [holeOf]) (.inr ⟨rfl, [], t, rfl, Gr.bnil, htk⟩) rfl
                · split at h
                  · contradiction
                  · next tape' hset =>
                    simp only [Step.cont.injEq] at h
                    obtain ⟨rfl, _⟩ := h
                    obtain ⟨rfl, _⟩ := setTok_some hset
                    simp only [hlen2, hset2]
                    show G _ _ _ _
                    exact G.enter (c := .array parent false) (body' := [t]) (s' := .arrayValue) hL' hB hFl' rfl rfl
                      hne' rfl (by simp [holeOf]) (.inl (.inl ⟨rfl, Gr.itok (scal_isItem ht).1 Gr.inil⟩)) rfl

/-- closing the innermost object from Key state (`}` / `]` / end of input with one open object) -/
theorem G.close_key {T pre body : List Tok} {p' : Nat} {o' mixed : Bool} {c : Tok}
    (hL : Lv T p' o') (hP : Pend o' pre T.length)
    (hF : T.getLast?.map Tok.flag = some true → LooseH o' pre T.length)
    (hc : c.isStartTok = true)
    (hB : BLoose .key c.isObj body (T ++ pre ++ [c]).length ∨
      (c.isObj = true ∧ BStrict .key body (T ++ pre ++ [c]).length))
    (hmix : mixed = false) :
    G ((T ++ pre ++ [c] ++ body ++ [Tok.endTok (T.length + pre.length)]).set (T.length + pre.length)
      (Tok.object (T ++ pre ++ [c] ++ body).length mixed)) p' (closeOf T).2 (closeOf T).1 := by
  have hlen : (T ++ pre ++ [c]).length = T.length + pre.length + 1 := by simp <;> omega
  rw [hlen] at hB
  have ho : c.isObj = true := by
    rcases hB with ⟨h, _⟩ | ⟨h, _⟩ <;> exact h
  refine G.close (m := mixed) (c := c) (body := body) hL hP hF hc ?_ ?_
  · rcases hB with ⟨h, hs⟩ | ⟨h, done, lastf, rfl, hd, hl, _⟩
    · exact .inl (.inr ⟨h, hs⟩)
    · exact .inr ⟨h, hmix, hd.fold hl⟩
  · rw [close_tape', ho]
    simp <;> omega

theorem stepKey_g {st st' : St} {data d' : Bytes} (hG : GInv st) (hinv : StInv st)
    (hs : st.state = .key) (h : stepKey st data = .cont st' d') : GInv st' := by
  have hG0 := hG
  have hinv0 := hinv
  obtain ⟨state, mixed, parent, tape⟩ := st
  simp only at hs; subst hs
  obtain ⟨T0, body, o, hL, htape, hB, hFl, hMx, hSt⟩ := hG
  simp only [holeOf, reduceCtorEq, if_false, List.append_nil] at htape hB hFl hMx hL
  subst htape
  have hmix : mixed = false := hSt (.inl rfl)
  obtain ⟨hT, _, _⟩ := hinv
  simp only [decide_false, reduceCtorEq] at hT
  unfold stepKey at h
  split at h
  · contradiction
  · split at h
    · -- `}` / `]`
      simp only at h
      cases hL with
      | root =>
        have hz : endOf (([] : List Tok) ++ body)[0]? = 0 := hT.parent_zero
        rw [if_pos ⟨rfl, hz⟩] at h
        simp only [Step.cont.injEq] at h
        obtain ⟨rfl, _⟩ := h
        rw [hz, hT.closeState_zero]
        subst hmix
        exact hG0
      | @nest T pre p' o' c hL' hP hF hc he hne =>
        have hp : T.length + pre.length ≠ 0 := by
          have : 0 < (T ++ pre).length := List.length_pos_iff.2 hne
          simp at this; omega
        rw [if_neg (by intro hc'; exact hp hc'.1)] at h
        split at h
        · contradiction
        · next tape' hset =>
          simp only [Step.cont.injEq] at h
          obtain ⟨rfl, _⟩ := h
          obtain ⟨rfl, _⟩ := setTok_some hset
          have hget : (T ++ pre ++ [c] ++ body)[T.length + pre.length]? = some c := by
            have := get_mid' (T ++ pre) body c
            simpa using this
          have hcs : closeState (T ++ pre ++ [c] ++ body)[p']? = closeOf T := by
            have hz := hT.closeState_zero
            have := closeOf_eq (R := pre ++ [c] ++ body) hL' (by simpa using hz)
            simpa using this
          simp only [Nat.add_eq, hget, he, hcs]
          show G _ _ _ _
          exact G.close_key hL' hP hF hc hB hmix
    · split at h
      · -- `{`
        split at h
        · contradiction
        · split at h
          · contradiction
          · split at h
            · simp only [Step.cont.injEq] at h
              obtain ⟨rfl, _⟩ := h
              exact hG0
            · split at h
              · next hd hlast =>
                -- header
                simp only [Step.cont.injEq] at h
                obtain ⟨rfl, _⟩ := h
                -- the last token of the tape is the last token of the body
                have hb : ∃ xs, body = xs ++ [.unquoted hd] := by
                  rcases List.eq_nil_or_concat body with rfl | ⟨xs, l, rfl⟩
                  · simp only [List.append_nil] at hlast
                    rcases hL.kind with ⟨rfl, _, _⟩ | ⟨c, hc, hcs, _, _, _⟩
                    · simp at hlast
                    · rw [hc] at hlast; simp at hlast; subst hlast; simp [Tok.isStartTok] at hcs
                  · simp only [List.concat_eq_append] at hlast ⊢
                    rw [← List.append_assoc, List.getLast?_append] at hlast
                    simp at hlast; subst hlast
                    exact ⟨xs, rfl⟩
                obtain ⟨xs, rfl⟩ := hb
                have hdl : (T0 ++ (xs ++ [Tok.unquoted hd])).dropLast = T0 ++ xs := by
                  rw [← List.append_assoc, List.dropLast_concat]
                rw [hdl]
                show G _ _ _ _
                refine G.step_body (s' := .parseOpen) (body' := xs ++ [.header hd]) hL (by simp [holeOf])
                  hB hFl hMx ?_ ?_ (fun hm => .inl hm) (by simp)
                · rintro ⟨ho, hs⟩
                  exact .inr ⟨ho, xs, hd, rfl, hs.unsnoc rfl (by simp)⟩
                · rintro _ ⟨done, lastf, he, hdn, hl, hl'⟩
                  right
                  rcases hl with rfl | ⟨k, ops, h', rfl, hk, hops⟩
                  · simp only [List.append_nil] at he
                    subst he
                    exact absurd (by simp) (hl' rfl hd)
                  · have : xs ++ [Tok.unquoted hd] = (done ++ [k] ++ ops) ++ [.unquoted h'] := by
                      rw [he]; simp
                    obtain ⟨rfl, hh⟩ := snoc_inj this
                    simp only [Tok.unquoted.injEq] at hh; subst hh
                    exact ⟨done, k, ops, [.header hd], by simp, hdn, hk, hops, .inr ⟨hd, rfl⟩⟩
              · contradiction
      · split at h
        · -- `[`
          exact paramDef_g hG0 hinv0 (.inl ⟨rfl, rfl⟩) h
        · split at h
          · next tape' rest' hlex =>
            simp only [Step.cont.injEq] at h
            obtain ⟨rfl, _⟩ := h
            obtain ⟨t, rfl, ht⟩ := lexValue_tok' hlex
            obtain ⟨htk, hts, _, _⟩ := scal_isKey ht
            show G _ _ _ _
            refine G.step_body (s' := .kvs) (body' := body ++ [t]) hL (by simp [holeOf]) hB hFl hMx ?_ ?_
              (fun hm => .inl hm) (fun _ => hmix)
            · rintro ⟨ho, hs⟩
              exact ⟨ho, body, t, rfl, (scal_isItem ht).1, hs⟩
            · rintro _ ⟨done, lastf, rfl, hd, hl, _⟩
              exact .inr ⟨done ++ lastf, t, rfl, hd.fold hl, htk⟩
          · cases ‹Fail› <;> simp [Step.fail] at h

theorem stepAt_g {n : Nat} {st st' : St} {data d' : Bytes} (hG : GInv st) (hinv : StInv st)
    (h : stepAt n st data = .cont st' d') : GInv st' := by
  unfold stepAt at h
  cases hs : st.state <;> simp only [hs] at h
  · exact stepKey_g hG hinv hs h
  · exact stepKvs_g hG hs h
  · exact stepObjectValue_g hG hs h
  · exact stepArrayValue_g hG hinv hs h
  · exact stepParseOpen_g hG hinv hs h

theorem atEof_g {st : St} {T : List Tok} {b : Bool} (hG : GInv st) (hinv : StInv st)
    (h : atEof st = .ok T b) : ∃ x, Gr (.body x) T 0 := by
  obtain ⟨state, mixed, parent, tape⟩ := st
  unfold atEof at h
  split at h
  · simp at h
  · next hs =>
    simp only [ne_eq, Decidable.not_not] at hs
    subst hs
    split at h
    · next hp =>
      simp only at hp; subst hp
      simp only [Res.ok.injEq] at h
      obtain ⟨rfl, _⟩ := h
      exact G.final hG
    · next hp =>
      simp only at h
      split at h
      · next hg =>
        split at h
        · simp at h
        · next tape' hset =>
          simp only [Res.ok.injEq] at h
          obtain ⟨rfl, _⟩ := h
          obtain ⟨rfl, _⟩ := setTok_some hset
          obtain ⟨T0, body, o, hL, htape, hB, hFl, hMx, hSt⟩ := hG
          simp only [holeOf, reduceCtorEq, if_false, List.append_nil] at htape hB hFl hMx hL
          subst htape
          have hmix : mixed = false := hSt (.inl rfl)
          cases hL with
          | root => exact absurd rfl hp
          | @nest T pre p' o' c hL' hP hF hc he hne =>
            have hget : (T ++ pre ++ [c] ++ body)[T.length + pre.length]? = some c := by
              have := get_mid' (T ++ pre) body c
              simpa using this
            simp only [Nat.add_eq, hget, he] at hg
            subst hg
            have hT0 : T = [] := by
              rcases hL'.kind with ⟨h, _, _⟩ | ⟨_, _, _, _, _, h⟩
              · exact h
              · exact absurd rfl h
            have := G.close_key (mixed := false) hL' hP hF hc hB rfl
            have hco : closeOf T = (false, .key) := by rw [hT0]; rfl
            rw [hco] at this
            exact G.final this
      · simp at h

theorem GInv.init : GInv St.init :=
  ⟨[], [], true, .root, by simp [St.init, holeOf],
    .inr ⟨rfl, [], [], rfl, Gr.bnil, .inl rfl, by simp⟩, by simp, by simp [St.init], by simp [St.init]⟩

theorem run_g (n : Nat) : ∀ (fuel : Nat) (st : St) (data : Bytes) (T : List Tok) (b : Bool),
    StInv st → GInv st → run n fuel st data = .ok T b → ∃ x, Gr (.body x) T 0
  | 0, _, _, _, _, _, _, h => by simp [run] at h
  | fuel + 1, st, data, T, b, hinv, hG, h => by
    simp only [run, step] at h
    cases hsk : skipWs data with
    | none =>
      simp only [hsk] at h
      exact atEof_g hG hinv h
    | some d =>
      simp only [hsk] at h
      cases hstep : stepAt n st d with
      | cont st' data' =>
        simp only [hstep] at h
        exact run_g n fuel st' data' T b (stepAt_inv hinv hstep) (stepAt_g hG hinv hstep) h
      | done r =>
        simp only [hstep] at h
        subst h
        exact absurd hstep stepAt_not_ok

/-- every accepted tape is a regular body from index 0 -/
theorem parse_gr (input : Bytes) (T : List Tok) (b : Bool) (h : parse input = .ok T b) :
    ∃ x, Gr (.body x) T 0 := by
  unfold parse at h
  simp only at h
  generalize hr : run input.length _ St.init _ = r at h
  cases r <;> simp [Res.withBom] at h
  obtain ⟨rfl, _⟩ := h
  exact run_g _ _ _ _ _ _ StInv.init GInv.init hr

/-- what the invariant says about Key / KeyValueSeparator / ObjectValue states: `mixed_mode` is off,
and in Key state the innermost open container (if any) is an `Object` token.  Hence three arms of
tape.rs are dead code: `[b'=', ..] if mixed_mode` in KeyValueSeparator (tape.rs:694) and the
`Some(TextToken::Array { .. })` / `_ => 0` arms of the two `match self.token_tape.get(parent_ind)`
that run in Key state (end of input: tape.rs:538 / 540; `}`: tape.rs:562; the `_` arm is only
taken with `parent_ind == 0`, which the end-of-input path has excluded before). -/
theorem ginv_key_facts {st : St} (hG : GInv st) :
    (st.state = .key ∨ st.state = .kvs ∨ st.state = .objectValue → st.mixed = false) ∧
    (st.state = .key → st.parent ≠ 0 → ∃ e m, st.tape[st.parent]? = some (.object e m)) := by
  obtain ⟨T0, body, o, hL, htape, hB, _, _, hSt⟩ := hG
  refine ⟨hSt, ?_⟩
  intro hs hp
  rw [hs] at hB htape
  have ho : o = true := by
    rcases hB with ⟨h, _⟩ | ⟨h, _⟩ <;> exact h
  rcases hL.kind with ⟨_, h0, _⟩ | ⟨c, hc, hcs, hco, hlen, _⟩
  · exact absurd h0 hp
  · simp only [holeOf, reduceCtorEq, if_false, List.append_nil] at htape
    have hget : st.tape[st.parent]? = some c := by
      rw [htape, List.getElem?_append_left (by omega)]
      rw [List.getLast?_eq_getElem?] at hc
      have : T0.length - 1 = st.parent := by omega
      rw [this] at hc; exact hc
    rw [ho] at hco
    cases c <;> simp [Tok.isObj] at hco
    exact ⟨_, _, hget⟩

/-- **C06 (text half), the grammar of accepted tapes** — for EVERY input the text parser accepts,
the tape is derivable in the tree grammar `Gr` from index 0 as an object body (`Gr (.body x) T 0`).
The derivation contains one sub-derivation per container token, so it says for every `Object`
token (`Gr.obj`) that its body — the tokens between it and the `End` its `end` field points to,
which points back — is a `.body`: `key [Operator] value` groups (`Gr.bfield`: the key is an
`Unquoted` / `Quoted` / `Parameter` / `UndefinedParameter` token, the optional operator ONE `Operator`
token, the value a `.val`), then nothing, or the FIRST `MixedContainer` followed by a value list
(`Gr.bmixed`); an `Object` flagged mixed does reach its `MixedContainer`.  A `.val` is a quoted or
unquoted scalar (`Gr.scal`), an `Array` with a value list as body (`Gr.arr`), an `Object`, or a `Header`
directly followed by an `Array` / `Object` (`Gr.hdr`).  Value lists (`.items`: array bodies and the
part behind a `MixedContainer`) hold values and — only there — bare `Operator`, `MixedContainer`,
parameter and scalar tokens (`Gr.itok`, `Tok.isItem`).  The phases "after the key", "after the
operator", "after the header" of the loop are the pending tokens of `BStrict` in the invariant
`GInv` this is proved from (`parse_gr`).
Index forms: every `Header` token is directly followed by a container (`HInv`), and the executable
walk `Dom.wfTape` succeeds (root body and the body of every `Object` token). -/
theorem C06_text_object_grammar (input : Bytes) (T : List Tok) (b : Bool) (h : parse input = .ok T b) :
    (∃ x, Gr (.body x) T 0) ∧ HInv T ∧ Dom.wfTape (toDomTape T) = true := by
  obtain ⟨x, hx⟩ := parse_gr input T b h
  obtain ⟨h1, h2⟩ := C17_parsed_tape_links input T b h
  obtain ⟨h3, h4⟩ := gr_objects hx
  exact ⟨⟨x, hx⟩, parse_hinv input T b h, by simp only [Dom.wfTape, h1, h2, h3, h4, Bool.and_self]⟩

/-- `x={a=rgb{1} b c <2}`: header field, then the array part with an operator -/
example : (match parse [120, 61, 123, 97, 61, 114, 103, 98, 123, 49, 125, 32, 98, 32, 99, 32, 60, 50, 125] with
    | .ok T _ => T.length == 13
    | _ => false) = true := by decide +kernel

/-- **C17 hypothesis for ALL inputs**: every tape the text parser model accepts satisfies the
structural hypothesis `Dom.wfTape` of the DOM / JSON / writer theorems: links both ways, nothing
at index 0, a header is followed by a container, stack-pass nesting, and every object body — the
root and each `Object` token — is a regular `key [op] value` sequence ending at its end or at a
`MixedContainer`, which is reached for objects flagged mixed. -/
theorem C17_parsed_tape_wf (input : Bytes) (T : List Tok) (b : Bool) (h : parse input = .ok T b) :
    Dom.wfTape (toDomTape T) = true := by
  obtain ⟨h1, h2⟩ := C17_parsed_tape_links input T b h
  obtain ⟨x, hx⟩ := parse_gr input T b h
  obtain ⟨h3, h4⟩ := gr_objects hx
  simp only [Dom.wfTape, h1, h2, h3, h4, Bool.and_self]

end Jomini.TextTape

namespace Jomini.TextTape
/-- the hypothesis is satisfiable: `a=rgb{1}` parses (tape U H A U E) -/
example : parse [97, 61, 114, 103, 98, 123, 49, 125] =
    .ok [.unquoted ⟨8, [97]⟩, .header ⟨6, [114, 103, 98]⟩, .array 4 false, .unquoted ⟨2, [49]⟩, .endTok 2] false := by
  decide +kernel

example : Dom.wfTape (toDomTape
    [.unquoted ⟨8, [97]⟩, .header ⟨6, [114, 103, 98]⟩, .array 4 false, .unquoted ⟨2, [49]⟩, .endTok 2]) = true :=
  C17_parsed_tape_wf [97, 61, 114, 103, 98, 123, 49, 125] _ false (by decide +kernel)

/-- a tolerated malformation: `x={a=b c d {} e=f g}` (mixed mode, left again after `{}`, entered a
second time: two `MixedContainer` tokens in one object) is accepted … -/
example : (match parse [120,61,123,97,61,98,32,99,32,100,32,123,125,32,101,61,102,32,103,125] with
    | .ok T _ => T.count .mixedContainer == 2
    | _ => false) = true := by decide +kernel

/-- … and its tape is well-formed -/
example (T : List Tok) (b : Bool)
    (h : parse [120,61,123,97,61,98,32,99,32,100,32,123,125,32,101,61,102,32,103,125] = .ok T b) :
    Dom.wfTape (toDomTape T) = true := C17_parsed_tape_wf _ T b h
end Jomini.TextTape
