import JominiModel.Model.Dom
import JominiModel.Proofs.TextTapeScalars
import JominiModel.Proofs.TextTapeFaithful3
/-
Closing the loop between the text tape parser model (`TextTape.parse`) and the structural
hypothesis `Dom.wfTape` of the DOM / JSON / writer theorems (C17, C16, C05, C14).

`toDomTape` is the obvious token translation (positions dropped).

Proved for ALL inputs (`C17_parsed_tape_links`): the link / nesting / header part of
`Dom.wfTape`, i.e. `Dom.linksOk (toDomTape T) && Dom.nestOk (toDomTape T)`.
The container / `End` clauses and the nesting pass come from `C06_text_inv`; the header clause
(a `Header` token is followed by a container) is a new parser invariant `HInv`, proved per state.

The object-body part (`objWalk` from the root and from every `Object` token) is proved for the
tapes of the document fragments (see the second half of this file); what is missing for the
full `C17_parsed_tape_wf` is said at the end of the file.
-/
namespace Jomini.TextTape

def toDomOp : Op → Dom.Op
  | .lt => .lt | .le => .le | .gt => .gt | .ge => .ge
  | .ne => .ne | .exact => .exact | .eq => .eq | .exists_ => .exists_

/-- `TextTape.Tok → Dom.TTok`: drop the positions of the scalars -/
def toDomTok : Tok → Dom.TTok
  | .array e m => .array e m
  | .object e m => .object e m
  | .mixedContainer => .mixedContainer
  | .unquoted s => .unquoted s.bytes
  | .quoted s => .quoted s.bytes
  | .parameter s => .parameter s.bytes
  | .undefParameter s => .undefinedParameter s.bytes
  | .operator o => .operator (toDomOp o)
  | .endTok i => .end_ i
  | .header s => .header s.bytes

def toDomTape (T : List Tok) : Dom.Tape := (T.map toDomTok).toArray

@[simp] theorem toDomTape_get (T : List Tok) (i : Nat) :
    (toDomTape T)[i]? = (T[i]?).map toDomTok := by
  simp [toDomTape]

@[simp] theorem toDomTape_size (T : List Tok) : (toDomTape T).size = T.length := by
  simp [toDomTape]

@[simp] theorem toDomTape_toList (T : List Tok) : (toDomTape T).toList = T.map toDomTok := by
  simp [toDomTape]

theorem toDomTok_end {t : Tok} {i : Nat} : toDomTok t = .end_ i ↔ t = .endTok i := by
  cases t <;> simp [toDomTok]

/-! ### nesting: the two stack passes are the same function -/

theorem dom_nestOkF_eq : ∀ (ts : List Tok) (i : Nat) (st : List Nat),
    Dom.nestOkF (ts.map toDomTok) i st = nestOkFrom ts i st := by
  intro ts
  induction ts with
  | nil => intro i st; simp [Dom.nestOkF, nestOkFrom]
  | cons t ts ih =>
    intro i st
    cases t <;> simp only [List.map_cons, toDomTok, Dom.nestOkF, nestOkFrom, ih]
    case endTok j =>
      cases st with
      | nil => rfl
      | cons top st' =>
        by_cases h : top = j <;> simp [h]

theorem dom_nestOk (input : Bytes) (T : List Tok) (h : WfTextTape input T) :
    Dom.nestOk (toDomTape T) = true := by
  have hw := (C06_text_checker_sound input T).2 h
  simp only [wfTextTape, Bool.and_eq_true] at hw
  simp only [Dom.nestOk, toDomTape_toList, dom_nestOkF_eq]
  exact hw.1.2

/-! ### links -/

/-- the header clause of `Dom.linkOkAt` as a property of the tape: a `Header` is followed by a
container (in particular it is never the last token) -/
def HInv (T : List Tok) : Prop :=
  ∀ i h, T[i]? = some (.header h) → ∃ e m, T[i + 1]? = some (.array e m) ∨ T[i + 1]? = some (.object e m)

theorem dom_linkOkAt (input : Bytes) (T : List Tok) (hw : WfTextTape input T) (hh : HInv T)
    (i : Nat) (t : Tok) (ht : T[i]? = some t) :
    Dom.linkOkAt (toDomTape T) i (toDomTok t) = true := by
  cases t with
  | array e m =>
    obtain ⟨h1, h2⟩ := hw.start_link i e ⟨m, .inl ht⟩
    obtain ⟨h3, _, _⟩ := hw.end_link e i h2
    simp [toDomTok, Dom.linkOkAt, h1, h3, h2]
  | object e m =>
    obtain ⟨h1, h2⟩ := hw.start_link i e ⟨m, .inr ht⟩
    obtain ⟨h3, _, _⟩ := hw.end_link e i h2
    simp [toDomTok, Dom.linkOkAt, h1, h3, h2]
  | endTok j =>
    obtain ⟨h1, h2, m, h3⟩ := hw.end_link i j ht
    rcases h3 with h3 | h3 <;>
      simp [toDomTok, Dom.linkOkAt, h1, h2, h3, Dom.TTok.containerEnd?]
  | header s =>
    obtain ⟨e, m, h3⟩ := hh i s ht
    rcases h3 with h3 | h3 <;>
      simp [toDomTok, Dom.linkOkAt, h3, Dom.TTok.isContainer]
  | _ => simp [toDomTok, Dom.linkOkAt]

theorem dom_linksOkF (input : Bytes) (T : List Tok) (hw : WfTextTape input T) (hh : HInv T) :
    ∀ (ts : List Tok) (i : Nat), (∀ k t, ts[k]? = some t → T[i + k]? = some t) →
      Dom.linksOkF (toDomTape T) i (ts.map toDomTok) = true := by
  intro ts
  induction ts with
  | nil => intro i _; simp [Dom.linksOkF]
  | cons t ts ih =>
    intro i hsub
    simp only [List.map_cons, Dom.linksOkF, Bool.and_eq_true]
    refine ⟨dom_linkOkAt input T hw hh i t (by simpa using hsub 0 t (by simp)), ih (i + 1) ?_⟩
    intro k t' hk
    have := hsub (k + 1) t' (by simpa using hk)
    simpa [Nat.add_assoc, Nat.add_comm 1 k] using this

theorem dom_linksOk (input : Bytes) (T : List Tok) (hw : WfTextTape input T) (hh : HInv T) :
    Dom.linksOk (toDomTape T) = true := by
  simp only [Dom.linksOk, toDomTape_toList]
  exact dom_linksOkF input T hw hh T 0 (by intro k t h; simpa using h)

/-! ### the header invariant, for all inputs -/

def Tok.isHdr : Tok → Bool
  | .header _ => true
  | _ => false

theorem HInv.nil : HInv [] := by intro i h hi; simp at hi

theorem HInv.push {T : List Tok} (h : HInv T) {t : Tok} (ht : t.isHdr = false) : HInv (T ++ [t]) := by
  intro i s hi
  by_cases hlt : i < T.length
  · rw [List.getElem?_append_left hlt] at hi
    obtain ⟨e, m, h1⟩ := h i s hi
    have hlt1 : i + 1 < T.length := by
      rcases h1 with h1 | h1 <;> exact (List.getElem?_eq_some_iff.1 h1).1
    exact ⟨e, m, by rw [List.getElem?_append_left hlt1]; exact h1⟩
  · rw [List.getElem?_append_right (by omega)] at hi
    by_cases h0 : i - T.length = 0
    · rw [h0] at hi; simp at hi; subst hi; simp [Tok.isHdr] at ht
    · obtain ⟨k, hk⟩ := Nat.exists_eq_succ_of_ne_zero h0
      rw [hk] at hi; simp at hi

theorem HInv.set {T : List Tok} (h : HInv T) (j : Nat) {X : Tok} (hX : X.isStartTok = true) :
    HInv (T.set j X) := by
  intro i s hi
  rw [List.getElem?_set] at hi
  split at hi
  · split at hi
    · simp at hi; subst hi; simp [Tok.isStartTok] at hX
    · simp at hi
  · next hne =>
    obtain ⟨e, m, h1⟩ := h i s hi
    rw [List.getElem?_set]
    split
    · next hj =>
      have hlt : j < T.length := by
        rcases h1 with h1 | h1 <;> (have := (List.getElem?_eq_some_iff.1 h1).1; omega)
      simp only [hlt, if_true]
      cases X <;> simp [Tok.isStartTok] at hX
      · exact ⟨_, _, .inl rfl⟩
      · exact ⟨_, _, .inr rfl⟩
    · exact ⟨e, m, h1⟩

theorem HInv.setTok {T T' : List Tok} (h : HInv T) {j : Nat} {X : Tok}
    (hset : setTok T j X = some T') (hX : X.isStartTok = true) : HInv T' := by
  obtain ⟨rfl, _⟩ := setTok_some hset; exact h.set j hX

theorem HInv.insert {T0 : List Tok} {l : Tok} (h : HInv (T0 ++ [l])) (hl : l.isStartTok = false) :
    HInv (T0 ++ [.mixedContainer, l]) := by
  intro i s hi
  have hlast : l.isHdr = false := by
    cases l <;> try rfl
    next s' =>
      obtain ⟨e, m, h1⟩ := h T0.length s' (by simp)
      simp at h1
  by_cases hlt : i < T0.length
  · rw [List.getElem?_append_left hlt] at hi
    obtain ⟨e, m, h1⟩ := h i s (by rw [List.getElem?_append_left hlt]; exact hi)
    by_cases hlt1 : i + 1 < T0.length
    · rw [List.getElem?_append_left hlt1] at h1
      exact ⟨e, m, by rw [List.getElem?_append_left hlt1]; exact h1⟩
    · have : i + 1 = T0.length := by omega
      rw [this] at h1
      simp at h1
      rcases h1 with h1 | h1 <;> (subst h1; simp [Tok.isStartTok] at hl)
  · rw [List.getElem?_append_right (by omega)] at hi
    by_cases h0 : i - T0.length = 0
    · rw [h0] at hi; simp at hi
    · obtain ⟨k, hk⟩ := Nat.exists_eq_succ_of_ne_zero h0
      rw [hk] at hi
      cases k with
      | zero => simp at hi; subst hi; simp [Tok.isHdr] at hlast
      | succ k => simp at hi

theorem HInv.header {T0 : List Tok} {s : Slice} (h : HInv (T0 ++ [.unquoted s])) :
    HInv (T0 ++ [.header s, .array 0 false]) := by
  intro i s' hi
  by_cases hlt : i < T0.length
  · rw [List.getElem?_append_left hlt] at hi
    obtain ⟨e, m, h1⟩ := h i s' (by rw [List.getElem?_append_left hlt]; exact hi)
    by_cases hlt1 : i + 1 < T0.length
    · rw [List.getElem?_append_left hlt1] at h1
      exact ⟨e, m, by rw [List.getElem?_append_left hlt1]; exact h1⟩
    · have : i + 1 = T0.length := by omega
      rw [this] at h1
      simp at h1
  · rw [List.getElem?_append_right (by omega)] at hi
    by_cases h0 : i - T0.length = 0
    · have : i + 1 = T0.length + 1 := by omega
      rw [this]
      exact ⟨0, false, .inl (by simp)⟩
    · obtain ⟨k, hk⟩ := Nat.exists_eq_succ_of_ne_zero h0
      rw [hk] at hi
      cases k with
      | zero => simp at hi
      | succ k => simp at hi

theorem parseScalarTok_tok {tape tape' : List Tok} {d rest : Bytes}
    (h : parseScalarTok tape d = .ok (tape', rest)) :
    ∃ t, tape' = tape ++ [t] ∧ t.isHdr = false ∧ t.isStartTok = false := by
  unfold parseScalarTok at h
  split at h <;> simp at h
  exact ⟨_, h.1.symm, rfl, rfl⟩

theorem lexValue_tok {tape tape' : List Tok} {d rest : Bytes} (h : lexValue tape d = .ok (tape', rest)) :
    ∃ t, tape' = tape ++ [t] ∧ t.isHdr = false ∧ t.isStartTok = false := by
  unfold lexValue at h
  split at h
  · simp at h
  · split at h
    · unfold parseQuoteTok at h
      split at h <;> simp at h
      exact ⟨_, h.1.symm, rfl, rfl⟩
    · split at h
      · unfold parseVariableTok at h
        split at h
        · split at h
          · split at h <;> simp at h
            exact ⟨_, h.1.symm, rfl, rfl⟩
          · simp at h
        · exact parseScalarTok_tok h
      · exact parseScalarTok_tok h

theorem paramTok_isHdr (b : Bool) (sl : Slice) : (paramTok b sl).isHdr = false := by
  cases b <;> rfl

theorem paramDefBody_hinv {mixed : Bool} {tape : List Tok} {parent : Nat} {st' : St} {data d' : Bytes}
    (hH : HInv tape) (h : paramDefBody mixed tape parent data = .cont st' d') : HInv st'.tape := by
  unfold paramDefBody at h
  simp only at h
  split_cont h
  all_goals
    simp only [Step.cont.injEq] at h
    obtain ⟨rfl, _⟩ := h
    have hT2 : ∀ b sl, HInv (tape ++ [paramTok b sl]) := fun b sl => hH.push (paramTok_isHdr b sl)
    first
    | exact (hT2 _ _).push rfl
    | have h4 : ∀ b sl kv, HInv (tape ++ [paramTok b sl] ++ [.object parent false, .unquoted kv]) := by
        intro b sl kv
        have := ((hT2 b sl).push (t := .object parent false) rfl).push (t := .unquoted kv) rfl
        simpa using this
      exact h4 _ _ _

theorem paramDef_hinv {st st' : St} {data d' : Bytes} {initial : Bool}
    (hH : HInv st.tape) (h : paramDef st data initial = .cont st' d') : HInv st'.tape := by
  unfold paramDef at h
  split at h
  · simp at h
  · split at h
    · simp at h
    · next tape parent hp =>
      refine paramDefBody_hinv ?_ h
      unfold paramDefPre at hp
      cases initial with
      | false => simp at hp; obtain ⟨rfl, rfl⟩ := hp; exact hH
      | true =>
        simp only [if_true] at hp
        split at hp
        · simp at hp
        · simp only [Option.map_eq_some_iff, Prod.mk.injEq] at hp
          obtain ⟨t, hset, rfl, rfl⟩ := hp
          exact hH.setTok hset rfl

theorem stepKey_hinv {st st' : St} {data d' : Bytes} (hH : HInv st.tape)
    (h : stepKey st data = .cont st' d') : HInv st'.tape := by
  unfold stepKey at h
  split at h
  · contradiction
  · split at h
    · simp only at h
      split at h
      · simp only [Step.cont.injEq] at h
        obtain ⟨rfl, _⟩ := h
        exact hH
      · split at h
        · contradiction
        · next tape' hset =>
          simp only [Step.cont.injEq] at h
          obtain ⟨rfl, _⟩ := h
          exact (hH.push (t := .endTok st.parent) rfl).setTok hset rfl
    · split at h
      · split at h
        · contradiction
        · split at h
          · contradiction
          · split at h
            · simp only [Step.cont.injEq] at h
              obtain ⟨rfl, _⟩ := h
              exact hH
            · split at h
              · next hd hlast =>
                simp only [Step.cont.injEq] at h
                obtain ⟨rfl, _⟩ := h
                rcases List.eq_nil_or_concat st.tape with hnil | ⟨T0, l, hTl⟩
                · simp [hnil] at hlast
                · simp only [List.concat_eq_append] at hTl
                  rw [hTl] at hlast hH ⊢
                  simp at hlast; subst hlast
                  simp only [List.dropLast_concat]
                  exact hH.header
              · contradiction
      · split at h
        · exact paramDef_hinv hH h
        · split at h
          · next tape' rest' hlex =>
            simp only [Step.cont.injEq] at h
            obtain ⟨rfl, _⟩ := h
            obtain ⟨t, rfl, ht, _⟩ := lexValue_tok hlex
            exact hH.push ht
          · cases ‹Fail› <;> simp [Step.fail] at h

theorem sh_plain_notStart {l : Tok} (h : l.sh = .plain) : l.isStartTok = false := by
  cases l <;> simp [Tok.sh] at h <;> rfl

theorem stepKvs_hinv {st st' : St} {data d' : Bytes} (hinv : StInv st) (hs : st.state = .kvs)
    (hH : HInv st.tape) (h : stepKvs st data = .cont st' d') : HInv st'.tape := by
  obtain ⟨_, _, hlast⟩ := hinv
  unfold stepKvs at h
  split at h
  · contradiction
  · split at h
    · split at h
      all_goals
        simp only [Step.cont.injEq] at h
        obtain ⟨rfl, _⟩ := h
      · exact hH.push (t := .operator .eq) rfl
      · exact hH
    · simp only [Step.cont.injEq] at h
      obtain ⟨rfl, _⟩ := h
      exact hH.push (t := .operator _) rfl
    · split at h
      · simp only [Step.cont.injEq] at h
        obtain ⟨rfl, _⟩ := h
        exact hH
      · split at h
        · contradiction
        · next tape' hins =>
          simp only [Step.cont.injEq] at h
          obtain ⟨rfl, _⟩ := h
          obtain ⟨T0, l, hTl, rfl⟩ := insertBeforeLast_some hins
          rw [hTl] at hH
          exact hH.insert (sh_plain_notStart (hlast hs T0 l hTl))

theorem stepObjectValue_hinv {st st' : St} {data d' : Bytes}
    (hH : HInv st.tape) (h : stepObjectValue st data = .cont st' d') : HInv st'.tape := by
  unfold stepObjectValue at h
  split at h
  · contradiction
  · split at h
    · simp only [Step.cont.injEq] at h
      obtain ⟨rfl, _⟩ := h
      exact hH.push (t := .array 0 false) rfl
    · split at h
      · contradiction
      · split at h
        · next tape' rest' hlex =>
          simp only [Step.cont.injEq] at h
          obtain ⟨rfl, _⟩ := h
          obtain ⟨t, rfl, ht, _⟩ := lexValue_tok hlex
          exact hH.push ht
        · cases ‹Fail› <;> simp [Step.fail] at h

theorem asScalar_notStart {t : Tok} {s : Slice} (h : t.asScalar = some s) : t.isStartTok = false := by
  cases t <;> simp [Tok.asScalar] at h <;> rfl

theorem stepArrayOp_hinv {st st' : St} {data d' : Bytes} {onErr : Res}
    (hH : HInv st.tape) (h : stepArrayOp onErr st data = .cont st' d') : HInv st'.tape := by
  unfold stepArrayOp at h
  split at h
  · contradiction
  · next tape mixed hpre =>
    have hT1 : HInv tape := by
      unfold arrayOpPre at hpre
      split at hpre
      · simp at hpre; rw [← hpre.1]; exact hH
      · split at hpre
        · next sl hsc =>
          split at hpre
          · next tape1 hins =>
            simp at hpre
            obtain ⟨rfl, _⟩ := hpre
            obtain ⟨T0, l, hTl, rfl⟩ := insertBeforeLast_some hins
            rw [hTl] at hH hsc
            simp at hsc
            exact hH.insert (asScalar_notStart hsc)
          · simp at hpre
        · simp at hpre
    split at h
    · simp only [Step.cont.injEq] at h
      obtain ⟨rfl, _⟩ := h
      exact hT1.push (t := .operator _) rfl
    · contradiction

theorem stepArrayValue_hinv {n : Nat} {st st' : St} {data d' : Bytes}
    (hH : HInv st.tape) (h : stepArrayValue n st data = .cont st' d') : HInv st'.tape := by
  unfold stepArrayValue at h
  split at h
  · contradiction
  · split at h
    · simp only [Step.cont.injEq] at h
      obtain ⟨rfl, _⟩ := h
      exact hH.push (t := .array 0 false) rfl
    · split at h
      · simp only at h
        split at h
        · contradiction
        · split at h
          · contradiction
          · next tape' hset =>
            simp only [Step.cont.injEq] at h
            obtain ⟨rfl, _⟩ := h
            exact (hH.setTok hset (by split <;> rfl)).push (t := .endTok _) rfl
      · split at h
        · split at h
          · next tape' rest' hlex =>
            simp only [Step.cont.injEq] at h
            obtain ⟨rfl, _⟩ := h
            obtain ⟨t, rfl, ht, _⟩ := lexValue_tok hlex
            exact hH.push ht
          · cases ‹Fail› <;> simp [Step.fail] at h
        · split at h
          · exact stepArrayOp_hinv hH h
          · split at h
            · next tape' rest' hlex =>
              simp only [Step.cont.injEq] at h
              obtain ⟨rfl, _⟩ := h
              obtain ⟨t, rfl, ht, _⟩ := parseScalarTok_tok hlex
              exact hH.push ht
            · cases ‹Fail› <;> simp [Step.fail] at h

theorem flag_parent_hinv {T : List Tok} (hH : HInv T) (p : Nat) :
    HInv (match T[p]? with
      | some (.array e _) => T.set p (.array e true)
      | some (.object e _) => T.set p (.object e true)
      | _ => T) := by
  split
  · exact hH.set p rfl
  · exact hH.set p rfl
  · exact hH

theorem stepParseOpen_hinv {st st' : St} {data d' : Bytes}
    (hH : HInv st.tape) (h : stepParseOpen st data = .cont st' d') : HInv st'.tape := by
  unfold stepParseOpen at h
  split at h
  · contradiction
  · split at h
    · split at h
      · contradiction
      · simp only at h
        split at h
        · contradiction
        · next tape' hset =>
          simp only [Step.cont.injEq] at h
          obtain ⟨rfl, _⟩ := h
          exact (hH.setTok hset rfl).push (t := .endTok _) rfl
    · split at h
      · split at h
        · contradiction
        · exact paramDef_hinv hH h
      · split at h
        · split at h
          · contradiction
          · split at h
            · contradiction
            · split at h
              · simp only [Step.cont.injEq] at h
                obtain ⟨rfl, _⟩ := h
                exact hH
              · split at h
                · contradiction
                · simp only at h
                  split at h
                  · contradiction
                  · next tape' hset =>
                    simp only [Step.cont.injEq] at h
                    obtain ⟨rfl, _⟩ := h
                    exact hH.setTok hset rfl
        · split at h
          · cases ‹Fail› <;> simp [Step.fail] at h
          · next tape1 rest' hlex =>
            obtain ⟨t, rfl, ht, _⟩ := lexValue_tok hlex
            simp only at h
            generalize htape2 : (if st.mixed = true then
                match (st.tape ++ [t])[st.parent]? with
                | some (.array e _) => (st.tape ++ [t]).set st.parent (.array e true)
                | some (.object e _) => (st.tape ++ [t]).set st.parent (.object e true)
                | _ => st.tape ++ [t]
              else st.tape ++ [t]) = tape2 at h
            have h2 : HInv tape2 := by
              rw [← htape2]; split
              · exact flag_parent_hinv (hH.push ht) _
              · exact hH.push ht
            split at h
            · contradiction
            · split at h
              · contradiction
              · split at h
                · split at h
                  · contradiction
                  · next tape' hset =>
                    simp only [Step.cont.injEq] at h
                    obtain ⟨rfl, _⟩ := h
                    exact h2.setTok hset rfl
                · split at h
                  · contradiction
                  · next tape' hset =>
                    simp only [Step.cont.injEq] at h
                    obtain ⟨rfl, _⟩ := h
                    exact h2.setTok hset rfl

theorem stepAt_hinv {n : Nat} {st st' : St} {data d' : Bytes} (hinv : StInv st) (hH : HInv st.tape)
    (h : stepAt n st data = .cont st' d') : HInv st'.tape := by
  unfold stepAt at h
  cases hs : st.state <;> simp only [hs] at h
  · exact stepKey_hinv hH h
  · exact stepKvs_hinv hinv hs hH h
  · exact stepObjectValue_hinv hH h
  · exact stepArrayValue_hinv hH h
  · exact stepParseOpen_hinv hH h

theorem atEof_hinv {st : St} {T : List Tok} {b : Bool} (hH : HInv st.tape) (h : atEof st = .ok T b) :
    HInv T := by
  unfold atEof at h
  split at h
  · simp at h
  · split at h
    · simp only [Res.ok.injEq] at h
      obtain ⟨rfl, _⟩ := h
      exact hH
    · simp only at h
      split at h
      · split at h
        · simp at h
        · next tape' hset =>
          simp only [Res.ok.injEq] at h
          obtain ⟨rfl, _⟩ := h
          exact (hH.push (t := .endTok st.parent) rfl).setTok hset rfl
      · simp at h

theorem run_hinv (n : Nat) : ∀ (fuel : Nat) (st : St) (data : Bytes) (T : List Tok) (b : Bool),
    StInv st → HInv st.tape → run n fuel st data = .ok T b → HInv T
  | 0, _, _, _, _, _, _, h => by simp [run] at h
  | fuel + 1, st, data, T, b, hinv, hH, h => by
    simp only [run, step] at h
    cases hsk : skipWs data with
    | none =>
      simp only [hsk] at h
      exact atEof_hinv hH h
    | some d =>
      simp only [hsk] at h
      cases hstep : stepAt n st d with
      | cont st' data' =>
        simp only [hstep] at h
        exact run_hinv n fuel st' data' T b (stepAt_inv hinv hstep) (stepAt_hinv hinv hH hstep) h
      | done r =>
        simp only [hstep] at h
        subst h
        exact absurd hstep stepAt_not_ok

/-- every accepted tape: a `Header` token is followed by its container -/
theorem parse_hinv (input : Bytes) (T : List Tok) (b : Bool) (h : parse input = .ok T b) : HInv T := by
  unfold parse at h
  simp only at h
  generalize hr : run input.length _ St.init _ = r at h
  cases r <;> simp [Res.withBom] at h
  obtain ⟨rfl, _⟩ := h
  exact run_hinv _ _ _ _ _ _ StInv.init (by simpa [St.init] using HInv.nil) hr

/-- C17 hypothesis, link / nesting / header part, for ALL inputs: on every tape the parser model
accepts, container and `End` tokens are linked both ways, nothing carries index 0, every
`Header` is followed by a container, and the stack pass over the tape succeeds. -/
theorem C17_parsed_tape_links (input : Bytes) (T : List Tok) (b : Bool) (h : parse input = .ok T b) :
    Dom.linksOk (toDomTape T) = true ∧ Dom.nestOk (toDomTape T) = true := by
  have hw := C06_text_inv input T b h
  exact ⟨dom_linksOk input T hw (parse_hinv input T b h), dom_nestOk input T hw⟩

end Jomini.TextTape

namespace Jomini.TextTape
/-- the hypothesis is satisfiable: `a=rgb{1}` parses (tape U H A U E) -/
example : parse [97, 61, 114, 103, 98, 123, 49, 125] =
    .ok [.unquoted ⟨8, [97]⟩, .header ⟨6, [114, 103, 98]⟩, .array 4 false, .unquoted ⟨2, [49]⟩, .endTok 2] false := by
  decide +kernel
end Jomini.TextTape
