import JominiModel.Model.Dom
import JominiModel.Proofs.TextTapeScalars
import JominiModel.Proofs.TextTapeFaithful3
/-
Closing the loop between the text tape parser model (`TextTape.parse`) and the structural
hypothesis `Dom.wfTape` of the DOM / JSON / writer theorems (C17, C16, C05, C14).

`toDomTape` is the obvious token translation (positions dropped).

Proved for ALL inputs (`C17_parsed_tape_links`): the link / nesting / header part of
`Dom.wfTape`, i.e. `Dom.linksOk (toDomTape T) && Dom.nestOk (toDomTape T)`.
The container / `End` clauses and the nesting pass come from `C06_text_inv`; the header clause
(a `Header` token is followed by a container) is a new parser invariant `HInv`, proved per state.

The object-body part (`objWalk` from the root and from every `Object` token) is proved for the
tapes of the document fragments (see the second half of this file); what is missing for the
full `C17_parsed_tape_wf` is said at the end of the file.
-/
namespace Jomini.TextTape

def toDomOp : Op → Dom.Op
  | .lt => .lt | .le => .le | .gt => .gt | .ge => .ge
  | .ne => .ne | .exact => .exact | .eq => .eq | .exists_ => .exists_

/-- `TextTape.Tok → Dom.TTok`: drop the positions of the scalars -/
def toDomTok : Tok → Dom.TTok
  | .array e m => .array e m
  | .object e m => .object e m
  | .mixedContainer => .mixedContainer
  | .unquoted s => .unquoted s.bytes
  | .quoted s => .quoted s.bytes
  | .parameter s => .parameter s.bytes
  | .undefParameter s => .undefinedParameter s.bytes
  | .operator o => .operator (toDomOp o)
  | .endTok i => .end_ i
  | .header s => .header s.bytes

def toDomTape (T : List Tok) : Dom.Tape := (T.map toDomTok).toArray

@[simp] theorem toDomTape_get (T : List Tok) (i : Nat) :
    (toDomTape T)[i]? = (T[i]?).map toDomTok := by
  simp [toDomTape]

@[simp] theorem toDomTape_size (T : List Tok) : (toDomTape T).size = T.length := by
  simp [toDomTape]

@[simp] theorem toDomTape_toList (T : List Tok) : (toDomTape T).toList = T.map toDomTok := by
  simp [toDomTape]

theorem toDomTok_end {t : Tok} {i : Nat} : toDomTok t = .end_ i ↔ t = .endTok i := by
  cases t <;> simp [toDomTok]

/-! ### nesting: the two stack passes are the same function -/

theorem dom_nestOkF_eq : ∀ (ts : List Tok) (i : Nat) (st : List Nat),
    Dom.nestOkF (ts.map toDomTok) i st = nestOkFrom ts i st := by
  intro ts
  induction ts with
  | nil => intro i st; simp [Dom.nestOkF, nestOkFrom]
  | cons t ts ih =>
    intro i st
    cases t <;> simp only [List.map_cons, toDomTok, Dom.nestOkF, nestOkFrom, ih]
    case endTok j =>
      cases st with
      | nil => rfl
      | cons top st' =>
        by_cases h : top = j <;> simp [h]

theorem dom_nestOk (input : Bytes) (T : List Tok) (h : WfTextTape input T) :
    Dom.nestOk (toDomTape T) = true := by
  have hw := (C06_text_checker_sound input T).2 h
  simp only [wfTextTape, Bool.and_eq_true] at hw
  simp only [Dom.nestOk, toDomTape_toList, dom_nestOkF_eq]
  exact hw.1.2

/-! ### links -/

/-- the header clause of `Dom.linkOkAt` as a property of the tape: a `Header` is followed by a
container (in particular it is never the last token) -/
def HInv (T : List Tok) : Prop :=
  ∀ i h, T[i]? = some (.header h) → ∃ e m, T[i + 1]? = some (.array e m) ∨ T[i + 1]? = some (.object e m)

theorem dom_linkOkAt (input : Bytes) (T : List Tok) (hw : WfTextTape input T) (hh : HInv T)
    (i : Nat) (t : Tok) (ht : T[i]? = some t) :
    Dom.linkOkAt (toDomTape T) i (toDomTok t) = true := by
  cases t with
  | array e m =>
    obtain ⟨h1, h2⟩ := hw.start_link i e ⟨m, .inl ht⟩
    obtain ⟨h3, _, _⟩ := hw.end_link e i h2
    simp [toDomTok, Dom.linkOkAt, h1, h3, h2]
  | object e m =>
    obtain ⟨h1, h2⟩ := hw.start_link i e ⟨m, .inr ht⟩
    obtain ⟨h3, _, _⟩ := hw.end_link e i h2
    simp [toDomTok, Dom.linkOkAt, h1, h3, h2]
  | endTok j =>
    obtain ⟨h1, h2, m, h3⟩ := hw.end_link i j ht
    rcases h3 with h3 | h3 <;>
      simp [toDomTok, Dom.linkOkAt, h1, h2, h3, Dom.TTok.containerEnd?]
  | header s =>
    obtain ⟨e, m, h3⟩ := hh i s ht
    rcases h3 with h3 | h3 <;>
      simp [toDomTok, Dom.linkOkAt, h3, Dom.TTok.isContainer]
  | _ => simp [toDomTok, Dom.linkOkAt]

theorem dom_linksOkF (input : Bytes) (T : List Tok) (hw : WfTextTape input T) (hh : HInv T) :
    ∀ (ts : List Tok) (i : Nat), (∀ k t, ts[k]? = some t → T[i + k]? = some t) →
      Dom.linksOkF (toDomTape T) i (ts.map toDomTok) = true := by
  intro ts
  induction ts with
  | nil => intro i _; simp [Dom.linksOkF]
  | cons t ts ih =>
    intro i hsub
    simp only [List.map_cons, Dom.linksOkF, Bool.and_eq_true]
    refine ⟨dom_linkOkAt input T hw hh i t (by simpa using hsub 0 t (by simp)), ih (i + 1) ?_⟩
    intro k t' hk
    have := hsub (k + 1) t' (by simpa using hk)
    simpa [Nat.add_assoc, Nat.add_comm 1 k] using this

theorem dom_linksOk (input : Bytes) (T : List Tok) (hw : WfTextTape input T) (hh : HInv T) :
    Dom.linksOk (toDomTape T) = true := by
  simp only [Dom.linksOk, toDomTape_toList]
  exact dom_linksOkF input T hw hh T 0 (by intro k t h; simpa using h)

/-! ### the header invariant, for all inputs -/

def Tok.isHdr : Tok → Bool
  | .header _ => true
  | _ => false

theorem HInv.nil : HInv [] := by intro i h hi; simp at hi

theorem HInv.push {T : List Tok} (h : HInv T) {t : Tok} (ht : t.isHdr = false) : HInv (T ++ [t]) := by
  intro i s hi
  by_cases hlt : i < T.length
  · rw [List.getElem?_append_left hlt] at hi
    obtain ⟨e, m, h1⟩ := h i s hi
    have hlt1 : i + 1 < T.length := by
      rcases h1 with h1 | h1 <;> exact (List.getElem?_eq_some_iff.1 h1).1
    exact ⟨e, m, by rw [List.getElem?_append_left hlt1]; exact h1⟩
  · rw [List.getElem?_append_right (by omega)] at hi
    by_cases h0 : i - T.length = 0
    · rw [h0] at hi; simp at hi; subst hi; simp [Tok.isHdr] at ht
    · obtain ⟨k, hk⟩ := Nat.exists_eq_succ_of_ne_zero h0
      rw [hk] at hi; simp at hi

theorem HInv.set {T : List Tok} (h : HInv T) (j : Nat) {X : Tok} (hX : X.isStartTok = true) :
    HInv (T.set j X) := by
  intro i s hi
  rw [List.getElem?_set] at hi
  split at hi
  · split at hi
    · simp at hi; subst hi; simp [Tok.isStartTok] at hX
    · simp at hi
  · next hne =>
    obtain ⟨e, m, h1⟩ := h i s hi
    rw [List.getElem?_set]
    split
    · next hj =>
      have hlt : j < T.length := by
        rcases h1 with h1 | h1 <;> (have := (List.getElem?_eq_some_iff.1 h1).1; omega)
      simp only [hlt, if_true]
      cases X <;> simp [Tok.isStartTok] at hX
      · exact ⟨_, _, .inl rfl⟩
      · exact ⟨_, _, .inr rfl⟩
    · exact ⟨e, m, h1⟩

theorem HInv.setTok {T T' : List Tok} (h : HInv T) {j : Nat} {X : Tok}
    (hset : setTok T j X = some T') (hX : X.isStartTok = true) : HInv T' := by
  obtain ⟨rfl, _⟩ := setTok_some hset; exact h.set j hX

theorem HInv.insert {T0 : List Tok} {l : Tok} (h : HInv (T0 ++ [l])) (hl : l.isStartTok = false) :
    HInv (T0 ++ [.mixedContainer, l]) := by
  intro i s hi
  have hlast : l.isHdr = false := by
    cases l <;> try rfl
    next s' =>
      obtain ⟨e, m, h1⟩ := h T0.length s' (by simp)
      simp at h1
  by_cases hlt : i < T0.length
  · rw [List.getElem?_append_left hlt] at hi
    obtain ⟨e, m, h1⟩ := h i s (by rw [List.getElem?_append_left hlt]; exact hi)
    by_cases hlt1 : i + 1 < T0.length
    · rw [List.getElem?_append_left hlt1] at h1
      exact ⟨e, m, by rw [List.getElem?_append_left hlt1]; exact h1⟩
    · have : i + 1 = T0.length := by omega
      rw [this] at h1
      simp at h1
      rcases h1 with h1 | h1 <;> (subst h1; simp [Tok.isStartTok] at hl)
  · rw [List.getElem?_append_right (by omega)] at hi
    by_cases h0 : i - T0.length = 0
    · rw [h0] at hi; simp at hi
    · obtain ⟨k, hk⟩ := Nat.exists_eq_succ_of_ne_zero h0
      rw [hk] at hi
      cases k with
      | zero => simp at hi; subst hi; simp [Tok.isHdr] at hlast
      | succ k => simp at hi

theorem HInv.header {T0 : List Tok} {s : Slice} (h : HInv (T0 ++ [.unquoted s])) :
    HInv (T0 ++ [.header s, .array 0 false]) := by
  intro i s' hi
  by_cases hlt : i < T0.length
  · rw [List.getElem?_append_left hlt] at hi
    obtain ⟨e, m, h1⟩ := h i s' (by rw [List.getElem?_append_left hlt]; exact hi)
    by_cases hlt1 : i + 1 < T0.length
    · rw [List.getElem?_append_left hlt1] at h1
      exact ⟨e, m, by rw [List.getElem?_append_left hlt1]; exact h1⟩
    · have : i + 1 = T0.length := by omega
      rw [this] at h1
      simp at h1
  · rw [List.getElem?_append_right (by omega)] at hi
    by_cases h0 : i - T0.length = 0
    · have : i + 1 = T0.length + 1 := by omega
      rw [this]
      exact ⟨0, false, .inl (by simp)⟩
    · obtain ⟨k, hk⟩ := Nat.exists_eq_succ_of_ne_zero h0
      rw [hk] at hi
      cases k with
      | zero => simp at hi
      | succ k => simp at hi

theorem parseScalarTok_tok {tape tape' : List Tok} {d rest : Bytes}
    (h : parseScalarTok tape d = .ok (tape', rest)) :
    ∃ t, tape' = tape ++ [t] ∧ t.isHdr = false ∧ t.isStartTok = false := by
  unfold parseScalarTok at h
  split at h <;> simp at h
  exact ⟨_, h.1.symm, rfl, rfl⟩

theorem lexValue_tok {tape tape' : List Tok} {d rest : Bytes} (h : lexValue tape d = .ok (tape', rest)) :
    ∃ t, tape' = tape ++ [t] ∧ t.isHdr = false ∧ t.isStartTok = false := by
  unfold lexValue at h
  split at h
  · simp at h
  · split at h
    · unfold parseQuoteTok at h
      split at h <;> simp at h
      exact ⟨_, h.1.symm, rfl, rfl⟩
    · split at h
      · unfold parseVariableTok at h
        split at h
        · split at h
          · split at h <;> simp at h
            exact ⟨_, h.1.symm, rfl, rfl⟩
          · simp at h
        · exact parseScalarTok_tok h
      · exact parseScalarTok_tok h

theorem paramTok_isHdr (b : Bool) (sl : Slice) : (paramTok b sl).isHdr = false := by
  cases b <;> rfl

theorem paramDefBody_hinv {mixed : Bool} {tape : List Tok} {parent : Nat} {st' : St} {data d' : Bytes}
    (hH : HInv tape) (h : paramDefBody mixed tape parent data = .cont st' d') : HInv st'.tape := by
  unfold paramDefBody at h
  simp only at h
  split_cont h
  all_goals
    simp only [Step.cont.injEq] at h
    obtain ⟨rfl, _⟩ := h
    have hT2 : ∀ b sl, HInv (tape ++ [paramTok b sl]) := fun b sl => hH.push (paramTok_isHdr b sl)
    first
    | exact (hT2 _ _).push rfl
    | have h4 : ∀ b sl kv, HInv (tape ++ [paramTok b sl] ++ [.object parent false, .unquoted kv]) := by
        intro b sl kv
        have := ((hT2 b sl).push (t := .object parent false) rfl).push (t := .unquoted kv) rfl
        simpa using this
      exact h4 _ _ _

theorem paramDef_hinv {st st' : St} {data d' : Bytes} {initial : Bool}
    (hH : HInv st.tape) (h : paramDef st data initial = .cont st' d') : HInv st'.tape := by
  unfold paramDef at h
  split at h
  · simp at h
  · split at h
    · simp at h
    · next tape parent hp =>
      refine paramDefBody_hinv ?_ h
      unfold paramDefPre at hp
      cases initial with
      | false => simp at hp; obtain ⟨rfl, rfl⟩ := hp; exact hH
      | true =>
        simp only [if_true] at hp
        split at hp
        · simp at hp
        · simp only [Option.map_eq_some_iff, Prod.mk.injEq] at hp
          obtain ⟨t, hset, rfl, rfl⟩ := hp
          exact hH.setTok hset rfl

theorem stepKey_hinv {st st' : St} {data d' : Bytes} (hH : HInv st.tape)
    (h : stepKey st data = .cont st' d') : HInv st'.tape := by
  unfold stepKey at h
  split at h
  · contradiction
  · split at h
    · simp only at h
      split at h
      · simp only [Step.cont.injEq] at h
        obtain ⟨rfl, _⟩ := h
        exact hH
      · split at h
        · contradiction
        · next tape' hset =>
          simp only [Step.cont.injEq] at h
          obtain ⟨rfl, _⟩ := h
          exact (hH.push (t := .endTok st.parent) rfl).setTok hset rfl
    · split at h
      · split at h
        · contradiction
        · split at h
          · contradiction
          · split at h
            · simp only [Step.cont.injEq] at h
              obtain ⟨rfl, _⟩ := h
              exact hH
            · split at h
              · next hd hlast =>
                simp only [Step.cont.injEq] at h
                obtain ⟨rfl, _⟩ := h
                rcases List.eq_nil_or_concat st.tape with hnil | ⟨T0, l, hTl⟩
                · simp [hnil] at hlast
                · simp only [List.concat_eq_append] at hTl
                  rw [hTl] at hlast hH ⊢
                  simp at hlast; subst hlast
                  simp only [List.dropLast_concat]
                  exact hH.header
              · contradiction
      · split at h
        · exact paramDef_hinv hH h
        · split at h
          · next tape' rest' hlex =>
            simp only [Step.cont.injEq] at h
            obtain ⟨rfl, _⟩ := h
            obtain ⟨t, rfl, ht, _⟩ := lexValue_tok hlex
            exact hH.push ht
          · cases ‹Fail› <;> simp [Step.fail] at h

theorem sh_plain_notStart {l : Tok} (h : l.sh = .plain) : l.isStartTok = false := by
  cases l <;> simp [Tok.sh] at h <;> rfl

theorem stepKvs_hinv {st st' : St} {data d' : Bytes} (hinv : StInv st) (hs : st.state = .kvs)
    (hH : HInv st.tape) (h : stepKvs st data = .cont st' d') : HInv st'.tape := by
  obtain ⟨_, _, hlast⟩ := hinv
  unfold stepKvs at h
  split at h
  · contradiction
  · split at h
    · split at h
      all_goals
        simp only [Step.cont.injEq] at h
        obtain ⟨rfl, _⟩ := h
      · exact hH.push (t := .operator .eq) rfl
      · exact hH
    · simp only [Step.cont.injEq] at h
      obtain ⟨rfl, _⟩ := h
      exact hH.push (t := .operator _) rfl
    · split at h
      · simp only [Step.cont.injEq] at h
        obtain ⟨rfl, _⟩ := h
        exact hH
      · split at h
        · contradiction
        · next tape' hins =>
          simp only [Step.cont.injEq] at h
          obtain ⟨rfl, _⟩ := h
          obtain ⟨T0, l, hTl, rfl⟩ := insertBeforeLast_some hins
          rw [hTl] at hH
          exact hH.insert (sh_plain_notStart (hlast hs T0 l hTl))

theorem stepObjectValue_hinv {st st' : St} {data d' : Bytes}
    (hH : HInv st.tape) (h : stepObjectValue st data = .cont st' d') : HInv st'.tape := by
  unfold stepObjectValue at h
  split at h
  · contradiction
  · split at h
    · simp only [Step.cont.injEq] at h
      obtain ⟨rfl, _⟩ := h
      exact hH.push (t := .array 0 false) rfl
    · split at h
      · contradiction
      · split at h
        · next tape' rest' hlex =>
          simp only [Step.cont.injEq] at h
          obtain ⟨rfl, _⟩ := h
          obtain ⟨t, rfl, ht, _⟩ := lexValue_tok hlex
          exact hH.push ht
        · cases ‹Fail› <;> simp [Step.fail] at h

theorem asScalar_notStart {t : Tok} {s : Slice} (h : t.asScalar = some s) : t.isStartTok = false := by
  cases t <;> simp [Tok.asScalar] at h <;> rfl

theorem stepArrayOp_hinv {st st' : St} {data d' : Bytes} {onErr : Res}
    (hH : HInv st.tape) (h : stepArrayOp onErr st data = .cont st' d') : HInv st'.tape := by
  unfold stepArrayOp at h
  split at h
  · contradiction
  · next tape mixed hpre =>
    have hT1 : HInv tape := by
      unfold arrayOpPre at hpre
      split at hpre
      · simp at hpre; rw [← hpre.1]; exact hH
      · split at hpre
        · next sl hsc =>
          split at hpre
          · next tape1 hins =>
            simp at hpre
            obtain ⟨rfl, _⟩ := hpre
            obtain ⟨T0, l, hTl, rfl⟩ := insertBeforeLast_some hins
            rw [hTl] at hH hsc
            simp at hsc
            exact hH.insert (asScalar_notStart hsc)
          · simp at hpre
        · simp at hpre
    split at h
    · simp only [Step.cont.injEq] at h
      obtain ⟨rfl, _⟩ := h
      exact hT1.push (t := .operator _) rfl
    · contradiction

theorem stepArrayValue_hinv {n : Nat} {st st' : St} {data d' : Bytes}
    (hH : HInv st.tape) (h : stepArrayValue n st data = .cont st' d') : HInv st'.tape := by
  unfold stepArrayValue at h
  split at h
  · contradiction
  · split at h
    · simp only [Step.cont.injEq] at h
      obtain ⟨rfl, _⟩ := h
      exact hH.push (t := .array 0 false) rfl
    · split at h
      · simp only at h
        split at h
        · contradiction
        · split at h
          · contradiction
          · next tape' hset =>
            simp only [Step.cont.injEq] at h
            obtain ⟨rfl, _⟩ := h
            exact (hH.setTok hset (by split <;> rfl)).push (t := .endTok _) rfl
      · split at h
        · split at h
          · next tape' rest' hlex =>
            simp only [Step.cont.injEq] at h
            obtain ⟨rfl, _⟩ := h
            obtain ⟨t, rfl, ht, _⟩ := lexValue_tok hlex
            exact hH.push ht
          · cases ‹Fail› <;> simp [Step.fail] at h
        · split at h
          · exact stepArrayOp_hinv hH h
          · split at h
            · next tape' rest' hlex =>
              simp only [Step.cont.injEq] at h
              obtain ⟨rfl, _⟩ := h
              obtain ⟨t, rfl, ht, _⟩ := parseScalarTok_tok hlex
              exact hH.push ht
            · cases ‹Fail› <;> simp [Step.fail] at h

theorem flag_parent_hinv {T : List Tok} (hH : HInv T) (p : Nat) :
    HInv (match T[p]? with
      | some (.array e _) => T.set p (.array e true)
      | some (.object e _) => T.set p (.object e true)
      | _ => T) := by
  split
  · exact hH.set p rfl
  · exact hH.set p rfl
  · exact hH

theorem stepParseOpen_hinv {st st' : St} {data d' : Bytes}
    (hH : HInv st.tape) (h : stepParseOpen st data = .cont st' d') : HInv st'.tape := by
  unfold stepParseOpen at h
  split at h
  · contradiction
  · split at h
    · split at h
      · contradiction
      · simp only at h
        split at h
        · contradiction
        · next tape' hset =>
          simp only [Step.cont.injEq] at h
          obtain ⟨rfl, _⟩ := h
          exact (hH.setTok hset rfl).push (t := .endTok _) rfl
    · split at h
      · split at h
        · contradiction
        · exact paramDef_hinv hH h
      · split at h
        · split at h
          · contradiction
          · split at h
            · contradiction
            · split at h
              · simp only [Step.cont.injEq] at h
                obtain ⟨rfl, _⟩ := h
                exact hH
              · split at h
                · contradiction
                · simp only at h
                  split at h
                  · contradiction
                  · next tape' hset =>
                    simp only [Step.cont.injEq] at h
                    obtain ⟨rfl, _⟩ := h
                    exact hH.setTok hset rfl
        · split at h
          · cases ‹Fail› <;> simp [Step.fail] at h
          · next tape1 rest' hlex =>
            obtain ⟨t, rfl, ht, _⟩ := lexValue_tok hlex
            simp only at h
            generalize htape2 : (if st.mixed = true then
                match (st.tape ++ [t])[st.parent]? with
                | some (.array e _) => (st.tape ++ [t]).set st.parent (.array e true)
                | some (.object e _) => (st.tape ++ [t]).set st.parent (.object e true)
                | _ => st.tape ++ [t]
              else st.tape ++ [t]) = tape2 at h
            have h2 : HInv tape2 := by
              rw [← htape2]; split
              · exact flag_parent_hinv (hH.push ht) _
              · exact hH.push ht
            split at h
            · contradiction
            · split at h
              · contradiction
              · split at h
                · split at h
                  · contradiction
                  · next tape' hset =>
                    simp only [Step.cont.injEq] at h
                    obtain ⟨rfl, _⟩ := h
                    exact h2.setTok hset rfl
                · split at h
                  · contradiction
                  · next tape' hset =>
                    simp only [Step.cont.injEq] at h
                    obtain ⟨rfl, _⟩ := h
                    exact h2.setTok hset rfl

theorem stepAt_hinv {n : Nat} {st st' : St} {data d' : Bytes} (hinv : StInv st) (hH : HInv st.tape)
    (h : stepAt n st data = .cont st' d') : HInv st'.tape := by
  unfold stepAt at h
  cases hs : st.state <;> simp only [hs] at h
  · exact stepKey_hinv hH h
  · exact stepKvs_hinv hinv hs hH h
  · exact stepObjectValue_hinv hH h
  · exact stepArrayValue_hinv hH h
  · exact stepParseOpen_hinv hH h

theorem atEof_hinv {st : St} {T : List Tok} {b : Bool} (hH : HInv st.tape) (h : atEof st = .ok T b) :
    HInv T := by
  unfold atEof at h
  split at h
  · simp at h
  · split at h
    · simp only [Res.ok.injEq] at h
      obtain ⟨rfl, _⟩ := h
      exact hH
    · simp only at h
      split at h
      · split at h
        · simp at h
        · next tape' hset =>
          simp only [Res.ok.injEq] at h
          obtain ⟨rfl, _⟩ := h
          exact (hH.push (t := .endTok st.parent) rfl).setTok hset rfl
      · simp at h

theorem run_hinv (n : Nat) : ∀ (fuel : Nat) (st : St) (data : Bytes) (T : List Tok) (b : Bool),
    StInv st → HInv st.tape → run n fuel st data = .ok T b → HInv T
  | 0, _, _, _, _, _, _, h => by simp [run] at h
  | fuel + 1, st, data, T, b, hinv, hH, h => by
    simp only [run, step] at h
    cases hsk : skipWs data with
    | none =>
      simp only [hsk] at h
      exact atEof_hinv hH h
    | some d =>
      simp only [hsk] at h
      cases hstep : stepAt n st d with
      | cont st' data' =>
        simp only [hstep] at h
        exact run_hinv n fuel st' data' T b (stepAt_inv hinv hstep) (stepAt_hinv hinv hH hstep) h
      | done r =>
        simp only [hstep] at h
        subst h
        exact absurd hstep stepAt_not_ok

/-- every accepted tape: a `Header` token is followed by its container -/
theorem parse_hinv (input : Bytes) (T : List Tok) (b : Bool) (h : parse input = .ok T b) : HInv T := by
  unfold parse at h
  simp only at h
  generalize hr : run input.length _ St.init _ = r at h
  cases r <;> simp [Res.withBom] at h
  obtain ⟨rfl, _⟩ := h
  exact run_hinv _ _ _ _ _ _ StInv.init (by simpa [St.init] using HInv.nil) hr

/-- C17 hypothesis, link / nesting / header part, for ALL inputs: on every tape the parser model
accepts, container and `End` tokens are linked both ways, nothing carries index 0, every
`Header` is followed by a container, and the stack pass over the tape succeeds. -/
theorem C17_parsed_tape_links (input : Bytes) (T : List Tok) (b : Bool) (h : parse input = .ok T b) :
    Dom.linksOk (toDomTape T) = true ∧ Dom.nestOk (toDomTape T) = true := by
  have hw := C06_text_inv input T b h
  exact ⟨dom_linksOk input T hw (parse_hinv input T b h), dom_nestOk input T hw⟩

end Jomini.TextTape

namespace Jomini.TextTape

/-! ### the object-body part: a grammar of regular token lists, and its soundness

`Gr k ts b`: the token list `ts`, placed at tape index `b`, is one value (`.val`), a list of array
items (`.items`) or an object body (`.body hasM`: `key [op] value` groups, then nothing
(`hasM = false`) or a `MixedContainer` followed by items).  Container values carry the right
`end` / `End` indices, the body of an `Object` is a `.body`, and an `Object` flagged mixed has a
body that reaches its `MixedContainer`. -/

def Tok.isKey : Tok → Bool
  | .unquoted _ | .quoted _ | .parameter _ | .undefParameter _ => true
  | _ => false

def Tok.isOp : Tok → Bool
  | .operator _ => true
  | _ => false

inductive GK | val | items | body (hasM : Bool)

inductive Gr : GK → List Tok → Nat → Prop
  | scal {t : Tok} {b : Nat} : t.isKey = true → Gr .val [t] b
  | arr {mid : List Tok} {b : Nat} {m : Bool} : Gr .items mid (b + 1) →
      Gr .val (.array (b + 1 + mid.length) m :: (mid ++ [.endTok b])) b
  | obj {mid : List Tok} {b : Nat} {m x : Bool} : Gr (.body x) mid (b + 1) → (m = true → x = true) →
      Gr .val (.object (b + 1 + mid.length) m :: (mid ++ [.endTok b])) b
  | hdr {t : Tok} {r : List Tok} {b : Nat} {h : Slice} : Gr .val (t :: r) (b + 1) → t.isStartTok = true →
      Gr .val (.header h :: t :: r) b
  | inil {b : Nat} : Gr .items [] b
  | ival {v rest : List Tok} {b : Nat} : Gr .val v b → Gr .items rest (b + v.length) → Gr .items (v ++ rest) b
  | itok {t : Tok} {rest : List Tok} {b : Nat} : t.isStartTok = false → Gr .items rest (b + 1) →
      Gr .items (t :: rest) b
  | bnil {b : Nat} : Gr (.body false) [] b
  | bmixed {rest : List Tok} {b : Nat} : Gr .items rest (b + 1) → Gr (.body true) (.mixedContainer :: rest) b
  | bfield {k : Tok} {ops v rest : List Tok} {b : Nat} {x : Bool} : k.isKey = true →
      (ops = [] ∨ ∃ o, ops = [.operator o]) → Gr .val v (b + 1 + ops.length) →
      Gr (.body x) rest (b + 1 + ops.length + v.length) → Gr (.body x) (k :: (ops ++ (v ++ rest))) b

/-- every `Object` token in `[lo, hi)` has a regular body (and reaches its `MixedContainer` when
flagged) -/
def ObjsIn (T : List Tok) (lo hi : Nat) : Prop :=
  ∀ i e m, lo ≤ i → i < hi → T[i]? = some (.object e m) →
    ∃ q, Dom.objWalk (toDomTape T) (i + 1) e = some q ∧ (m = true → q < e)

def Sem (T : List Tok) : GK → Nat → Nat → Prop
  | .val, b, n => ∀ e, b + n ≤ e → Dom.valueNext (toDomTape T) b e = some (b + n)
  | .items, _, _ => True
  | .body x, b, n => ∀ f, n < f →
      ∃ q, Dom.objWalkF f (toDomTape T) b (b + n) = some q ∧ (x = true → q < b + n)

theorem mid_get (A ts B : List Tok) (j : Nat) (hj : j < ts.length) :
    (A ++ ts ++ B)[A.length + j]? = ts[j]? := by
  rw [List.append_assoc, List.getElem?_append_right (by omega)]
  simp [List.getElem?_append_left hj]

theorem Gr.val_head {k : GK} {v : List Tok} {b : Nat} (h : Gr k v b) (hk : k = .val) :
    ∃ t r, v = t :: r ∧ t.isOp = false := by
  cases h <;> simp at hk
  · next t hkey => exact ⟨t, [], rfl, by cases t <;> simp [Tok.isKey] at hkey <;> rfl⟩
  · exact ⟨_, _, rfl, rfl⟩
  · exact ⟨_, _, rfl, rfl⟩
  · exact ⟨_, _, rfl, rfl⟩

theorem opValueOf_nonop (p : Nat) {t : Tok} (h : t.isOp = false) :
    (Dom.opValueOf p (toDomTok t)).2 = p + 1 := by
  cases t <;> simp [Tok.isOp] at h <;> rfl

theorem keyScalar_isKey {t : Tok} (h : t.isKey = true) :
    toDomTok t ≠ .mixedContainer ∧ ∃ kb, (toDomTok t).keyScalar? = some kb := by
  cases t <;> simp [Tok.isKey] at h <;> simp [toDomTok, Dom.TTok.keyScalar?]

theorem gr_sound {k : GK} {ts : List Tok} {b : Nat} (h : Gr k ts b) :
    ∀ T A B, T = A ++ ts ++ B → b = A.length → ObjsIn T b (b + ts.length) ∧ Sem T k b ts.length := by
  induction h with
  | @scal t b hkey =>
    intro T A B hT hb
    have h0 : T[b]? = some t := by rw [hT, hb]; simpa using mid_get A [t] B 0 (by simp)
    refine ⟨?_, ?_⟩
    · intro i e m h1 h2 hi
      have : i = b := by simp at h2; omega
      subst this; rw [h0] at hi; simp at hi; subst hi; simp [Tok.isKey] at hkey
    · intro e he
      cases t <;> simp [Tok.isKey] at hkey <;> simp [Dom.valueNext, h0, toDomTok]
  | @arr mid b m hmid ih =>
    intro T A B hT hb
    have hlen : (Tok.array (b + 1 + mid.length) m :: (mid ++ [.endTok b])).length = mid.length + 2 := by simp
    have h0 : T[b]? = some (.array (b + 1 + mid.length) m) := by
      rw [hT, hb]; simpa using mid_get A _ B 0 (by rw [← hb, hlen]; omega)
    have hl : T[b + 1 + mid.length]? = some (.endTok b) := by
      have := mid_get A (Tok.array (b + 1 + mid.length) m :: (mid ++ [.endTok b])) B (mid.length + 1) (by rw [hlen]; omega)
      rw [hT, hb]; rw [← hb] at this ⊢
      simpa [Nat.add_assoc, Nat.add_comm, Nat.add_left_comm, hb] using this
    obtain ⟨ihO, _⟩ := ih T (A ++ [.array (b + 1 + mid.length) m]) (.endTok b :: B) (by simp [hT]) (by simp [hb])
    refine ⟨?_, ?_⟩
    · intro i e m' h1 h2 hi
      rw [hlen] at h2
      by_cases hib : i = b
      · subst hib; rw [h0] at hi; simp at hi
      · by_cases hie : i = b + 1 + mid.length
        · subst hie; rw [hl] at hi; simp at hi
        · exact ihO i e m' (by omega) (by omega) hi
    · intro e he
      rw [hlen] at he ⊢
      simp only [Dom.valueNext, toDomTape_get, h0, Option.map_some, toDomTok]
      rw [if_pos (by omega)]
      congr 1; omega
  | @obj mid b m x hmid hmx ih =>
    intro T A B hT hb
    have hlen : (Tok.object (b + 1 + mid.length) m :: (mid ++ [.endTok b])).length = mid.length + 2 := by simp
    have h0 : T[b]? = some (.object (b + 1 + mid.length) m) := by
      rw [hT, hb]; simpa using mid_get A _ B 0 (by rw [← hb, hlen]; omega)
    have hl : T[b + 1 + mid.length]? = some (.endTok b) := by
      have := mid_get A (Tok.object (b + 1 + mid.length) m :: (mid ++ [.endTok b])) B (mid.length + 1) (by rw [hlen]; omega)
      rw [hT, hb]; rw [← hb] at this ⊢
      simpa [Nat.add_assoc, Nat.add_comm, Nat.add_left_comm, hb] using this
    obtain ⟨ihO, ihS⟩ := ih T (A ++ [.object (b + 1 + mid.length) m]) (.endTok b :: B) (by simp [hT]) (by simp [hb])
    refine ⟨?_, ?_⟩
    · intro i e m' h1 h2 hi
      rw [hlen] at h2
      by_cases hib : i = b
      · subst hib; rw [h0] at hi; simp at hi
        obtain ⟨rfl, rfl⟩ := hi
        have hTl : mid.length < Dom.fuelOf (toDomTape T) := by
          simp only [Dom.fuelOf, toDomTape_size, hT]; simp; omega
        obtain ⟨q, hq, hx⟩ := ihS _ hTl
        exact ⟨q, hq, fun hm => hx (hmx hm)⟩
      · by_cases hie : i = b + 1 + mid.length
        · subst hie; rw [hl] at hi; simp at hi
        · exact ihO i e m' (by omega) (by omega) hi
    · intro e he
      rw [hlen] at he ⊢
      simp only [Dom.valueNext, toDomTape_get, h0, Option.map_some, toDomTok]
      rw [if_pos (by omega)]
      congr 1; omega
  | @hdr t r b hs hv hst ih =>
    intro T A B hT hb
    have h0 : T[b]? = some (.header hs) := by
      rw [hT, hb]; simpa using mid_get A (.header hs :: t :: r) B 0 (by simp)
    obtain ⟨ihO, ihS⟩ := ih T (A ++ [.header hs]) B (by simp [hT]) (by simp [hb])
    have h1 : T[b + 1]? = some t := by
      rw [hT, hb]; simpa using mid_get A (.header hs :: t :: r) B 1 (by simp)
    refine ⟨?_, ?_⟩
    · intro i e m' h1' h2 hi
      by_cases hib : i = b
      · subst hib; rw [h0] at hi; simp at hi
      · exact ihO i e m' (by omega) (by simp at h2 ⊢; omega) hi
    · intro e he
      have := ihS e (by simp at he ⊢; omega)
      simp only [List.length_cons] at this ⊢
      cases t <;> simp [Tok.isStartTok] at hst
      all_goals
        simp only [Dom.valueNext, toDomTape_get, h0, h1, Option.map_some, toDomTok] at this ⊢
        rw [this]; congr 1; omega
  | inil => intro T A B hT hb; exact ⟨by intro i e m h1 h2; simp at h2; omega, trivial⟩
  | @ival v rest b hv hr ihv ihr =>
    intro T A B hT hb
    obtain ⟨ihO, _⟩ := ihv T A (rest ++ B) (by simp [hT]) hb
    obtain ⟨ihO', _⟩ := ihr T (A ++ v) B (by simp [hT]) (by simp [hb])
    refine ⟨?_, trivial⟩
    intro i e m h1 h2 hi
    by_cases hlt : i < b + v.length
    · exact ihO i e m h1 hlt hi
    · exact ihO' i e m (by omega) (by simp at h2; omega) hi
  | @itok t rest b ht hr ih =>
    intro T A B hT hb
    have h0 : T[b]? = some t := by
      rw [hT, hb]; simpa using mid_get A (t :: rest) B 0 (by simp)
    obtain ⟨ihO, _⟩ := ih T (A ++ [t]) B (by simp [hT]) (by simp [hb])
    refine ⟨?_, trivial⟩
    intro i e m h1 h2 hi
    by_cases hib : i = b
    · subst hib; rw [h0] at hi; simp at hi; subst hi; simp [Tok.isStartTok] at ht
    · exact ihO i e m (by omega) (by simp at h2; omega) hi
  | @bnil b =>
    intro T A B hT hb
    refine ⟨by intro i e m h1 h2; simp at h2; omega, ?_⟩
    intro f hf
    obtain ⟨f', rfl⟩ := Nat.exists_eq_succ_of_ne_zero (by omega : f ≠ 0)
    exact ⟨b, by simp [Dom.objWalkF], by simp⟩
  | @bmixed rest b hr ih =>
    intro T A B hT hb
    have h0 : T[b]? = some .mixedContainer := by
      rw [hT, hb]; simpa using mid_get A (.mixedContainer :: rest) B 0 (by simp)
    obtain ⟨ihO, _⟩ := ih T (A ++ [.mixedContainer]) B (by simp [hT]) (by simp [hb])
    refine ⟨?_, ?_⟩
    · intro i e m h1 h2 hi
      by_cases hib : i = b
      · subst hib; rw [h0] at hi; simp at hi
      · exact ihO i e m (by omega) (by simp at h2; omega) hi
    · intro f hf
      obtain ⟨f', rfl⟩ := Nat.exists_eq_succ_of_ne_zero (by omega : f ≠ 0)
      refine ⟨b, ?_, by simp⟩
      simp [Dom.objWalkF, h0, toDomTok]
  | @bfield k ops v rest b x hkey hops hv hr ihv ihr =>
    intro T A B hT hb
    have h0 : T[b]? = some k := by
      rw [hT, hb]; simpa using mid_get A (k :: (ops ++ (v ++ rest))) B 0 (by simp)
    obtain ⟨ihvO, ihvS⟩ := ihv T (A ++ k :: ops) (rest ++ B) (by simp [hT]) (by simp [hb]; omega)
    obtain ⟨ihrO, ihrS⟩ := ihr T (A ++ k :: (ops ++ v)) B (by simp [hT]) (by simp [hb]; omega)
    obtain ⟨t, r, hvt, htop⟩ := hv.val_head rfl
    have hlen : (k :: (ops ++ (v ++ rest))).length = 1 + ops.length + v.length + rest.length := by
      simp; omega
    have hvlen : 0 < v.length := by rw [hvt]; simp
    refine ⟨?_, ?_⟩
    · intro i e m h1 h2 hi
      rw [hlen] at h2
      by_cases hib : i = b
      · subst hib; rw [h0] at hi; simp at hi; subst hi; simp [Tok.isKey] at hkey
      · by_cases hio : i < b + 1 + ops.length
        · -- an operator token
          rcases hops with rfl | ⟨o, rfl⟩
          · simp at hio; omega
          · have : i = b + 1 := by simp at hio; omega
            subst this
            have h1' : T[b + 1]? = some (.operator o) := by
              rw [hT, hb]; simpa using mid_get A (k :: ([.operator o] ++ (v ++ rest))) B 1 (by simp)
            rw [h1'] at hi; simp at hi
        · by_cases hiv : i < b + 1 + ops.length + v.length
          · exact ihvO i e m (by omega) hiv hi
          · exact ihrO i e m (by omega) (by omega) hi
    · intro f hf
      rw [hlen] at hf ⊢
      obtain ⟨f', rfl⟩ := Nat.exists_eq_succ_of_ne_zero (by omega : f ≠ 0)
      obtain ⟨q, hq, hx⟩ := ihrS f' (by omega)
      obtain ⟨hnm, kb, hkb⟩ := keyScalar_isKey hkey
      have hval := ihvS (b + (1 + ops.length + v.length + rest.length)) (by omega)
      refine ⟨q, ?_, fun hx' => by have := hx hx'; omega⟩
      have he : b + 1 + ops.length + v.length + rest.length = b + (1 + ops.length + v.length + rest.length) := by omega
      rw [he] at hq
      rcases hops with rfl | ⟨o, rfl⟩
      · have h1' : T[b + 1]? = some t := by
          rw [hT, hb, hvt]; simpa using mid_get A (k :: ([] ++ ((t :: r) ++ rest))) B 1 (by simp)
        simp only [List.length_nil, Nat.add_zero] at hval hq ⊢
        rw [Dom.objWalkF, if_neg (by omega)]
        simp only [toDomTape_get, h0, h1', Option.map_some, if_neg hnm, hkb, opValueOf_nonop b htop]
        rw [if_pos (by omega), hval]
        exact hq
      · have h1' : T[b + 1]? = some (.operator o) := by
          rw [hT, hb]; simpa using mid_get A (k :: ([.operator o] ++ (v ++ rest))) B 1 (by simp)
        simp only [List.length_cons, List.length_nil, Nat.zero_add] at hval hq ⊢
        rw [Dom.objWalkF, if_neg (by omega)]
        simp only [toDomTape_get, h0, h1', Option.map_some, if_neg hnm, hkb]
        rw [show (Dom.opValueOf b (toDomTok (Tok.operator o))).2 = b + 1 + 1 from rfl]
        rw [if_pos (by omega), hval]
        exact hq

theorem dom_objectsOkF (T : List Tok) (hO : ObjsIn T 0 T.length) :
    ∀ (ts : List Tok) (i : Nat), (∀ k t, ts[k]? = some t → T[i + k]? = some t) →
      Dom.objectsOkF (toDomTape T) i (ts.map toDomTok) = true := by
  intro ts
  induction ts with
  | nil => intro i _; simp [Dom.objectsOkF]
  | cons t ts ih =>
    intro i hsub
    simp only [List.map_cons, Dom.objectsOkF, Bool.and_eq_true]
    refine ⟨?_, ih (i + 1) ?_⟩
    · have hi : T[i]? = some t := by simpa using hsub 0 t (by simp)
      cases t <;> simp only [toDomTok]
      next e m =>
        obtain ⟨q, hq, hm⟩ := hO i e m (Nat.zero_le _) (List.getElem?_eq_some_iff.1 hi).1 hi
        rw [hq]
        cases m <;> simp at hm ⊢
        exact hm
    · intro k t' hk
      have := hsub (k + 1) t' (by simpa using hk)
      simpa [Nat.add_assoc, Nat.add_comm 1 k] using this

/-- a tape that is a regular body (from index 0) satisfies the object-body part of `Dom.wfTape` -/
theorem gr_objects {T : List Tok} {x : Bool} (h : Gr (.body x) T 0) :
    (Dom.objWalk (toDomTape T) 0 (toDomTape T).size).isSome = true ∧
      Dom.objectsOkF (toDomTape T) 0 (toDomTape T).toList = true := by
  obtain ⟨hO, hS⟩ := gr_sound h T [] [] (by simp) rfl
  refine ⟨?_, ?_⟩
  · obtain ⟨q, hq, _⟩ := hS (Dom.fuelOf (toDomTape T)) (by simp [Dom.fuelOf])
    simp only [Dom.objWalk, toDomTape_size]
    simp only [Nat.zero_add] at hq
    rw [hq]; rfl
  · rw [toDomTape_toList]
    exact dom_objectsOkF T (by simpa using hO) T 0 (by intro k t h; simpa using h)

end Jomini.TextTape

namespace Jomini.TextTape

/-! ### the tapes of the document fragments are regular -/

theorem Gr.cast {k : GK} {ts ts' : List Tok} {b b' : Nat} (h : Gr k ts b) (e1 : ts' = ts) (e2 : b' = b) :
    Gr k ts' b' := by subst e1; subst e2; exact h

theorem Gr.body_append {k : GK} {fs : List Tok} {b : Nat} (h : Gr k fs b) :
    k = .body false → ∀ (x : Bool) (more : List Tok), Gr (.body x) more (b + fs.length) →
      Gr (.body x) (fs ++ more) b := by
  induction h with
  | bnil => intro _ x more hm; simpa using hm
  | @bfield k ops v rest b x' hkey hops hv hr _ ihr =>
    intro hk x more hm
    simp only [GK.body.injEq] at hk
    subst hk
    have := ihr rfl x more (hm.cast rfl (by simp; omega))
    exact (Gr.bfield hkey hops hv this).cast (by simp) rfl
  | _ => intro hk; simp at hk

theorem Scal.tok_isKey (s : Scal) (a : Bytes) : (s.tok a).isKey = true := by
  unfold Scal.tok; split <;> rfl

theorem Scal.tok_notStart (s : Scal) (a : Bytes) : (s.tok a).isStartTok = false := by
  unfold Scal.tok; split <;> rfl

theorem paramTok_isKey (b : Bool) (sl : Slice) : (paramTok b sl).isKey = true := by
  cases b <;> rfl

theorem Op.toks_ok (o : Op) : o.toks = [] ∨ ∃ o', o.toks = [.operator o'] := by
  cases o <;> simp [Op.toks]

theorem gr_elems : ∀ (es : List (Bytes × Scal)) (a : Bytes) (b : Nat), Gr .items (elemToks es a) b
  | [], _, _ => Gr.inil
  | (_, s) :: r, a, b => by
    simp only [elemToks]
    exact Gr.itok (Scal.tok_notStart _ _) (gr_elems r a (b + 1))

theorem jtapeV_head : ∀ (v : JVal) (b : Nat) (a : Bytes), v.isBraced → JValidV v a →
    ∃ t r, jtapeV v b a = t :: r ∧ t.isStartTok = true
  | .scal _ _, _, _, hb, _ => by simp [JVal.isBraced] at hb
  | .empty _ _, _, _, _, _ => by simp only [jtapeV]; exact ⟨_, _, rfl, rfl⟩
  | .obj .., _, _, _, _ => by simp only [jtapeV, List.cons_append, List.nil_append]; exact ⟨_, _, rfl, rfl⟩
  | .arrS .., _, _, _, _ => by simp only [jtapeV, List.cons_append, List.nil_append]; exact ⟨_, _, rfl, rfl⟩
  | .arrC .., _, _, _, _ => by simp only [jtapeV, List.cons_append, List.nil_append]; exact ⟨_, _, rfl, rfl⟩
  | .mixed .., _, _, _, _ => by simp only [jtapeV, List.cons_append, List.nil_append]; exact ⟨_, _, rfl, rfl⟩
  | .ghostIn _ _ _ v, b, a, _, hv => by
    simp only [JValidV] at hv
    simp only [jtapeV]
    exact jtapeV_head v b a hv.2.2.2.1 hv.2.2.2.2.2

theorem isContainer_isBraced {v : JVal} (h : v.isContainer) : v.isBraced := by
  cases v <;> simp [JVal.isContainer] at h <;> simp [JVal.isBraced]

/-! shape lemmas: the constructors of `Gr` in the syntactic shapes of `jtapeV` / `jtapeF` -/

theorem Gr.objShape {mid : List Tok} {b E : Nat} {m x : Bool} (h : Gr (.body x) mid (b + 1))
    (hm : m = true → x = true) (hE : E = b + 1 + mid.length) :
    Gr .val ([.object E m] ++ mid ++ [.endTok b]) b := by
  subst hE; exact (Gr.obj (m := m) h hm).cast (by simp) rfl

theorem Gr.arrShape {mid : List Tok} {b E : Nat} {m : Bool} (h : Gr .items mid (b + 1))
    (hE : E = b + 1 + mid.length) : Gr .val ([.array E m] ++ mid ++ [.endTok b]) b := by
  subst hE; exact (Gr.arr (m := m) h).cast (by simp) rfl

theorem Gr.fieldShape {k : Tok} {ops v rest : List Tok} {b b1 b2 : Nat} {x : Bool} (hk : k.isKey = true)
    (hops : ops = [] ∨ ∃ o, ops = [.operator o]) (hv : Gr .val v b1) (hr : Gr (.body x) rest b2)
    (e1 : b1 = b + 1 + ops.length) (e2 : b2 = b + 1 + ops.length + v.length) :
    Gr (.body x) ([k] ++ ops ++ v ++ rest) b := by
  subst e1; subst e2; exact (Gr.bfield hk hops hv hr).cast (by simp) rfl

theorem Gr.fieldImpShape {k : Tok} {v rest : List Tok} {b b1 b2 : Nat} {x : Bool} (hk : k.isKey = true)
    (hv : Gr .val v b1) (hr : Gr (.body x) rest b2) (e1 : b1 = b + 1) (e2 : b2 = b + 1 + v.length) :
    Gr (.body x) ([k] ++ v ++ rest) b := by
  subst e1; subst e2
  exact (Gr.bfield (ops := []) hk (.inl rfl) (hv.cast rfl (by simp)) (hr.cast rfl (by simp))).cast (by simp) rfl

theorem Gr.hdrShape {k t : Tok} {ops v r rest : List Tok} {b b1 b2 : Nat} {x : Bool} {h : Slice}
    (hk : k.isKey = true) (hops : ops = [] ∨ ∃ o, ops = [.operator o]) (hvt : v = t :: r)
    (ht : t.isStartTok = true) (hv : Gr .val v b1) (hr : Gr (.body x) rest b2)
    (e1 : b1 = b + 1 + ops.length + 1) (e2 : b2 = b + 1 + ops.length + (1 + v.length)) :
    Gr (.body x) ([k] ++ ops ++ [.header h] ++ v ++ rest) b := by
  subst e1; subst e2; subst hvt
  have hH := Gr.hdr (h := h) hv ht
  exact (Gr.bfield hk hops hH (hr.cast rfl (by simp; omega))).cast (by simp) rfl

theorem Gr.itokShape {t : Tok} {rest : List Tok} {b b1 : Nat} (ht : t.isStartTok = false)
    (hr : Gr .items rest b1) (e1 : b1 = b + 1) : Gr .items ([t] ++ rest) b := by
  subst e1; exact (Gr.itok ht hr).cast (by simp) rfl

theorem Gr.mixedShape {k t : Tok} {ops v rest es : List Tok} {b b1 b2 b3 : Nat} (hk : k.isKey = true)
    (hops : ops = [] ∨ ∃ o, ops = [.operator o]) (hv : Gr .val v b1) (hr : Gr (.body false) rest b2)
    (ht : t.isStartTok = false) (hes : Gr .items es b3)
    (e1 : b1 = b + 1 + ops.length) (e2 : b2 = b + 1 + ops.length + v.length)
    (e3 : b3 = b + 1 + ops.length + v.length + rest.length + 1 + 1) :
    Gr (.body true) ([k] ++ ops ++ v ++ rest ++ [.mixedContainer, t] ++ es) b := by
  subst e1; subst e2; subst e3
  have hM := Gr.bmixed (Gr.itok ht hes)
  have hrest := hr.body_append rfl true _ hM
  exact (Gr.bfield hk hops hv hrest).cast (by simp) rfl

theorem Gr.paramValShape {p : Tok} {s : Slice} {rest : List Tok} {b b2 : Nat} {x : Bool}
    (hp : p.isKey = true) (hr : Gr (.body x) rest b2) (e2 : b2 = b + 2) :
    Gr (.body x) ([p, .unquoted s] ++ rest) b := by
  subst e2
  exact (Gr.bfield (ops := []) (v := [.unquoted s]) hp (.inl rfl) (Gr.scal rfl)
    (hr.cast rfl (by simp))).cast (by simp) rfl

theorem Gr.paramObjShape {p : Tok} {s : Slice} {ops v inner rest : List Tok} {b b1 b2 b3 E : Nat} {x : Bool}
    (hp : p.isKey = true) (hops : ops = [] ∨ ∃ o, ops = [.operator o]) (hv : Gr .val v b1)
    (hi : Gr (.body false) inner b2) (hr : Gr (.body x) rest b3)
    (e1 : b1 = b + 3 + ops.length) (e2 : b2 = b + 3 + ops.length + v.length)
    (e3 : b3 = b + 3 + ops.length + v.length + inner.length + 1)
    (hE : E = b + 3 + ops.length + v.length + inner.length) :
    Gr (.body x) ([p, .object E false, .unquoted s] ++ ops ++ v ++ inner ++ [.endTok (b + 1)] ++ rest) b := by
  subst e1; subst e2; subst e3; subst hE
  have hbody := Gr.bfield (b := b + 1 + 1) (k := .unquoted s) rfl hops
    (hv.cast rfl (by omega)) (hi.cast rfl (by omega))
  have hobj := Gr.obj (m := false) hbody (by simp)
  exact (Gr.bfield (ops := []) hp (.inl rfl) (hobj.cast rfl (by simp))
    (hr.cast rfl (by simp; omega))).cast (by simp; omega) rfl

mutual
theorem grV : ∀ (v : JVal) (b : Nat) (a : Bytes), JValidV v a → Gr .val (jtapeV v b a) b
  | .scal _ s, b, a, _ => by simp only [jtapeV]; exact Gr.scal (Scal.tok_isKey _ _)
  | .empty _ _, b, a, _ => by
    simp only [jtapeV]
    exact (Gr.arr (mid := []) (m := false) Gr.inil).cast (by simp) rfl
  | .obj _ _ k g1 o v rest gc, b, a, hv => by
    simp only [JValidV] at hv
    obtain ⟨_, _, _, _, _, _, h7, h8⟩ := hv
    have hV := grV v (b + 1 + 1 + o.toks.length) _ h7
    have hF := grF rest (b + 1 + (1 + o.toks.length + jcntV v)) _ h8
    simp only [jtapeV]
    refine Gr.objShape (Gr.fieldShape (Scal.tok_isKey _ _) (Op.toks_ok o) hV hF rfl ?_) (by simp) ?_
    · rw [len_jtapeV]; omega
    · simp only [List.length_cons, List.length_append, List.length_nil, len_jtapeV, len_jtapeF]; omega
  | .arrS _ _ s0 rest gc, b, a, hv => by
    simp only [JValidV] at hv
    obtain ⟨_, _, _, _, _, _, h7⟩ := hv
    have hVs := grVs rest (b + 1 + 1) _ h7
    simp only [jtapeV]
    refine Gr.arrShape (Gr.itokShape (Scal.tok_notStart _ _) hVs rfl) ?_
    simp only [List.length_cons, List.length_append, List.length_nil, len_jtapeVs]; omega
  | .arrC _ first rest gc, b, a, hv => by
    simp only [JValidV] at hv
    obtain ⟨_, _, _, h4, h5⟩ := hv
    have hV := grV first (b + 1) _ h4
    have hVs := grVs rest (b + 1 + jcntV first) _ h5
    simp only [jtapeV]
    refine Gr.arrShape (Gr.ival hV (hVs.cast rfl (by rw [len_jtapeV]))) ?_
    simp only [List.length_append, len_jtapeV, len_jtapeVs]; omega
  | .ghostIn _ _ _ v, b, a, hv => by
    simp only [JValidV] at hv
    simp only [jtapeV]
    exact grV v b a hv.2.2.2.2.2
  | .mixed _ _ k g1 o v rest gm m0 elems gc, b, a, hv => by
    simp only [JValidV] at hv
    obtain ⟨_, _, _, _, _, _, _, h8, h9, _⟩ := hv
    have hV := grV v (b + 1 + 1 + o.toks.length) _ h8
    have hF := grF rest (b + 1 + (1 + o.toks.length + jcntV v)) _ h9
    have hE := gr_elems elems (gc ++ 125 :: a) (b + 1 + (1 + o.toks.length + jcntV v) + jcntF rest + 1 + 1)
    simp only [jtapeV]
    refine Gr.objShape (Gr.mixedShape (Scal.tok_isKey _ _) (Op.toks_ok o) hV hF (Scal.tok_notStart _ _) hE
      rfl ?_ ?_) (by simp) ?_
    · rw [len_jtapeV]; omega
    · rw [len_jtapeV, len_jtapeF]; omega
    · simp only [List.length_cons, List.length_append, List.length_nil, len_jtapeV, len_jtapeF, len_elemToks]
      omega
theorem grF : ∀ (fs : JFields) (b : Nat) (a : Bytes), JValidF fs a → Gr (.body false) (jtapeF fs b a) b
  | .nil, _, _, _ => by simp only [jtapeF]; exact Gr.bnil
  | .cons _ k g1 o v rest, b, a, hv => by
    simp only [JValidF] at hv
    obtain ⟨_, _, _, _, h5, h6⟩ := hv
    have hV := grV v (b + 1 + o.toks.length) _ h5
    have hF := grF rest (b + (1 + o.toks.length + jcntV v)) _ h6
    simp only [jtapeF]
    exact Gr.fieldShape (Scal.tok_isKey _ _) (Op.toks_ok o) hV hF rfl (by rw [len_jtapeV]; omega)
  | .consImp _ k v rest, b, a, hv => by
    simp only [JValidF] at hv
    obtain ⟨_, _, _, _, h5, h6⟩ := hv
    have hV := grV v (b + 1) _ h5
    have hF := grF rest (b + (1 + jcntV v)) _ h6
    simp only [jtapeF]
    exact Gr.fieldImpShape (Scal.tok_isKey _ _) hV hF rfl (by rw [len_jtapeV]; omega)
  | .ghost _ _ rest, b, a, hv => by
    simp only [JValidF] at hv
    simp only [jtapeF]
    exact grF rest b a hv.2.2
  | .consHdr _ k g1 o gh h body rest, b, a, hv => by
    simp only [JValidF] at hv
    obtain ⟨_, _, _, _, _, _, _, _, h9, h10, h11⟩ := hv
    have hV := grV body (b + 1 + o.toks.length + 1) _ h10
    have hF := grF rest (b + (1 + o.toks.length + (1 + jcntV body))) _ h11
    obtain ⟨t, r, htr, ht⟩ := jtapeV_head body (b + 1 + o.toks.length + 1) (jrenderF rest ++ a)
      (isContainer_isBraced h9) h10
    simp only [jtapeF]
    exact Gr.hdrShape (Scal.tok_isKey _ _) (Op.toks_ok o) htr ht hV hF rfl (by rw [len_jtapeV]; omega)
  | .paramVal _ isU name g1 val g2 rest, b, a, hv => by
    simp only [JValidF] at hv
    have hF := grF rest (b + 2) _ hv.2.2.2.2.2.2.2
    simp only [jtapeF]
    exact Gr.paramValShape (paramTok_isKey _ _) hF rfl
  | .paramObj _ isU name g1 k g2 o v inner gc rest, b, a, hv => by
    simp only [JValidF] at hv
    obtain ⟨_, _, _, _, _, _, _, _, h9, h10, h11⟩ := hv
    have hV := grV v (b + 3 + o.toks.length) _ h9
    have hI := grF inner (b + 2 + (1 + o.toks.length + jcntV v)) _ h10
    have hF := grF rest (b + ((3 + (1 + o.toks.length + jcntV v) + jcntF inner))) _ h11
    simp only [jtapeF]
    refine Gr.paramObjShape (paramTok_isKey _ _) (Op.toks_ok o) hV hI hF rfl ?_ ?_ ?_
    · rw [len_jtapeV]; omega
    · rw [len_jtapeV, len_jtapeF]; omega
    · rw [len_jtapeV, len_jtapeF]; omega
theorem grVs : ∀ (vs : JVals) (b : Nat) (a : Bytes), JValidVs vs a → Gr .items (jtapeVs vs b a) b
  | .nil, _, _, _ => by simp only [jtapeVs]; exact Gr.inil
  | .cons v rest, b, a, hv => by
    simp only [JValidVs] at hv
    simp only [jtapeVs]
    exact Gr.ival (grV v b _ hv.1) ((grVs rest (b + jcntV v) a hv.2).cast rfl (by rw [len_jtapeV]))
end

/-- C17 hypothesis, in full, for the documents of fragment 3 (objects, arrays, empty containers,
ghost objects, headers, implicit `=`, variables, mixed containers, parameter blocks — any depth,
any layout; fragments 1 and 2 are sub-grammars of it).

The full statement would be
  `C17_parsed_tape_wf : parse input = .ok T b → Dom.wfTape (toDomTape T) = true` for ALL inputs.
Its link / nesting / header half IS proved for all inputs (`C17_parsed_tape_links`); missing for
all inputs is the object-body half, i.e. `Gr (.body x) T 0` (`gr_objects` turns that into the two
remaining conjuncts of `Dom.wfTape`) as an invariant of the state machine: in Key /
KeyValueSeparator / ObjectValue states the body of every open object is a `Gr` prefix plus the
pending `key [op] [header]` tokens, and a level in mixed mode has reached its `MixedContainer`. -/
theorem C17_parsed_tape_wf_partial (fs : JFields) (gt : Bytes) (hgt : Blank gt) (hv : JValidF fs gt)
    (hb : hasBom (jrenderF fs ++ gt) = false) :
    ∃ T, parse (jrenderF fs ++ gt) = .ok T false ∧ Dom.wfTape (toDomTape T) = true := by
  have hp := parse_tree fs gt hgt hv hb
  refine ⟨_, hp, ?_⟩
  obtain ⟨h1, h2⟩ := C17_parsed_tape_links _ _ _ hp
  obtain ⟨h3, h4⟩ := gr_objects (grF fs 0 gt hv)
  simp only [Dom.wfTape, h1, h2, h3, h4, Bool.and_self]

/-- the hypotheses are satisfiable (a mixed container, a parameter block) -/
example : ∃ T, parse (jrenderF exampleMixed ++ [10]) = .ok T false ∧ Dom.wfTape (toDomTape T) = true :=
  C17_parsed_tape_wf_partial exampleMixed [10] exampleMixed_valid.2.1 exampleMixed_valid.1 exampleMixed_valid.2.2

example : ∃ T, parse (jrenderF exampleParam ++ [10]) = .ok T false ∧ Dom.wfTape (toDomTape T) = true :=
  C17_parsed_tape_wf_partial exampleParam [10] exampleParam_valid.2.1 exampleParam_valid.1 exampleParam_valid.2.2

end Jomini.TextTape

namespace Jomini.TextTape
/-- the hypothesis is satisfiable: `a=rgb{1}` parses (tape U H A U E) -/
example : parse [97, 61, 114, 103, 98, 123, 49, 125] =
    .ok [.unquoted ⟨8, [97]⟩, .header ⟨6, [114, 103, 98]⟩, .array 4 false, .unquoted ⟨2, [49]⟩, .endTok 2] false := by
  decide +kernel
end Jomini.TextTape
