import JominiModel.Proofs.BinTapeDead
import JominiModel.Proofs.BinTapePayload
import JominiModel.Spec.BinTapeLex
/-
C06 (binary half), object classification: on every accepted tape the body of every `Object`, up to
its first `MixedContainer` marker (or its end), is a sequence of `key value` pairs with every key a
plain token.  `GSeq` / `GCont` / `Body` are the grammar of good tapes; `GInv` (the innermost open
container with its body phase, coupled to the parser state) is the loop invariant.
-/
namespace Jomini.BinTape
open Jomini


/-- where the body of an object stands: complete pairs (`K`: a key comes next), a key waiting for its
value (`V`), or past a `MixedContainer` marker (`M`: anything goes) -/
inductive Phase where
  | K | V | M
  deriving DecidableEq, Repr

mutual
/-- a sequence of good items: plain tokens and good containers (body of an array, the tail behind a
`MixedContainer` marker, the root level) -/
inductive GSeq : Tape → Prop
  | nil : GSeq []
  | plain {l : Tape} {x : BTok} : GSeq l → x.isPlain = true → GSeq (l ++ [x])
  | cont {l c : Tape} : GSeq l → GCont c → GSeq (l ++ c)
/-- a complete good container: an array of good items, or an **object whose body is `key value`
pairs up to its first `MixedContainer` marker (or its end)** -/
inductive GCont : Tape → Prop
  | arr {inner : Tape} (e i : Nat) : GSeq inner → GCont (.array e :: (inner ++ [.end_ i]))
  | obj {inner : Tape} {ph : Phase} (e i : Nat) : Body inner ph → ph ≠ .V → GCont (.object e :: (inner ++ [.end_ i]))
/-- the body of an object, built token by token -/
inductive Body : Tape → Phase → Prop
  | nil : Body [] .K
  | key {l : Tape} {k : BTok} : Body l .K → k.isKey = true → Body (l ++ [k]) .V
  | valPlain {l : Tape} {v : BTok} : Body l .V → v.isVal = true → Body (l ++ [v]) .K
  | valCont {l c : Tape} : Body l .V → GCont c → Body (l ++ c) .K
  | mixed {l : Tape} : Body l .K → Body (l ++ [.mixed]) .M
  | afterPlain {l : Tape} {x : BTok} : Body l .M → x.isPlain = true → Body (l ++ [x]) .M
  | afterCont {l c : Tape} : Body l .M → GCont c → Body (l ++ c) .M
end

theorem GCont.last_end {c : Tape} (h : GCont c) : ∃ l i, c = l ++ [.end_ i] := by
  cases h with
  | @arr inner e i _ => exact ⟨.array e :: inner, i, rfl⟩
  | @obj inner ph e i _ _ => exact ⟨.object e :: inner, i, rfl⟩

theorem snoc_eq_append_cont {l l' c : Tape} {x : BTok} (hc : GCont c) (h : l ++ [x] = l' ++ c) : ∃ i, x = .end_ i := by
  obtain ⟨c', i, rfl⟩ := hc.last_end
  rw [← List.append_assoc] at h
  have := List.append_inj_right' h (by simp)
  simp at this; exact ⟨i, this⟩

/-- removing a plain last token from a good sequence -/
theorem GSeq.unsnoc {l : Tape} {x : BTok} (h : GSeq (l ++ [x])) (hx : x.isPlain = true) : GSeq l := by
  generalize hm : l ++ [x] = m at h
  cases h with
  | nil => simp at hm
  | plain h' _ =>
    have := List.append_inj_left' hm (by simp)
    subst this; exact h'
  | cont h' hc =>
    obtain ⟨i, hi⟩ := snoc_eq_append_cont hc hm
    subst hi; simp [BTok.isPlain] at hx

theorem GSeq.snoc_all {l : Tape} (h : GSeq l) : ∀ (xs : Tape), (∀ x ∈ xs, x.isPlain = true) → GSeq (l ++ xs)
  | [], _ => by simpa using h
  | x :: xs, hx => by
    have h1 : GSeq (l ++ [x]) := GSeq.plain h (hx x (by simp))
    have := GSeq.snoc_all h1 xs (fun y hy => hx y (by simp [hy]))
    simpa using this

/-- a body in phase `V` is a body in phase `K` plus the pending key -/
theorem Body.inv_V {seg : Tape} (h : Body seg .V) : ∃ l k, seg = l ++ [k] ∧ Body l .K ∧ k.isKey = true := by
  cases h with
  | key h' hk => exact ⟨_, _, rfl, h', hk⟩

theorem Body.afterAll {l : Tape} (h : Body l .M) : ∀ (xs : Tape), (∀ x ∈ xs, x.isPlain = true) → Body (l ++ xs) .M
  | [], _ => by simpa using h
  | x :: xs, hx => by
    have h1 : Body (l ++ [x]) .M := Body.afterPlain h (hx x (by simp))
    have := Body.afterAll h1 xs (fun y hy => hx y (by simp [hy]))
    simpa using this

/-- removing a plain last token from a body past the marker: still past the marker, or the marker itself went -/
theorem Body.unsnoc_M {l : Tape} {x : BTok} (h : Body (l ++ [x]) .M) (hx : x.isPlain = true) :
    Body l .M ∨ (x = .mixed ∧ Body l .K) := by
  generalize hm : l ++ [x] = m at h
  cases h with
  | mixed h' =>
    have h1 := List.append_inj_left' hm (by simp)
    have h2 := List.append_inj_right' hm (by simp)
    simp at h2; subst h1; exact Or.inr ⟨h2, h'⟩
  | afterPlain h' _ =>
    have h1 := List.append_inj_left' hm (by simp)
    subst h1; exact Or.inl h'
  | afterCont h' hc =>
    obtain ⟨i, hi⟩ := snoc_eq_append_cont hc hm
    subst hi; simp [BTok.isPlain] at hx


/-- the innermost open container and its body so far -/
inductive Top where
  | root
  | arr (seg : Tape)
  | obj (seg : Tape) (ph : Phase)

/-- may a child container be opened on top of this level? (in an object: only as a value, or past the marker) -/
def ChildOk : Top → Prop
  | .obj _ ph => ph = .V ∨ ph = .M
  | _ => True

/-- the tape while containers are open, every closed part good, every open object with its body phase -/
inductive OpenG : Nat → Tape → Top → Prop
  | root {tape : Tape} : GSeq tape → OpenG 0 tape .root
  | arr {g p : Nat} {pre seg : Tape} {below : Top} : OpenG g pre below → ChildOk below → pre.length = p → p ≠ 0 →
      GSeq seg → OpenG p (pre ++ .array g :: seg) (.arr seg)
  | obj {g p : Nat} {pre seg : Tape} {ph : Phase} {below : Top} : OpenG g pre below → ChildOk below → pre.length = p → p ≠ 0 →
      Body seg ph → OpenG p (pre ++ .object g :: seg) (.obj seg ph)

def InArrS (s : PState) : Prop := s = .arrayValue ∨ s = .openFirst ∨ s = .openSecond

/-- how the parser state and the body of the innermost open container go together -/
def Coupled (s : PState) : Top → Prop
  | .root => True
  | .arr seg => (InArrS s ∨ s = .arrayValueMixed) ∧ (s = .openFirst → seg = []) ∧
      (s = .openSecond → ∃ k, seg = [k] ∧ k.isKey = true) ∧
      (s = .arrayValue → ∀ l x, seg = l ++ [x] → x.isPlain = true → x.isKey = true)
  | .obj seg ph => ¬ InArrS s ∧ (s = .key → ph = .K ∨ ph = .M) ∧
      (s = .keyValueSeparator → ph = .V ∨ (ph = .M ∧ ∃ l x, seg = l ++ [x] ∧ Body l .M ∧ x.isPlain = true)) ∧
      (s = .objectValue → ph = .V ∨ ph = .M) ∧
      (s = .objectToArray → ∃ l x y, seg = l ++ [x, y] ∧ x.isPlain = true ∧ y.isPlain = true ∧
        ((Body l .K ∧ x.isKey = true) ∨ Body l .M)) ∧
      (s = .arrayValueMixed → ph = .M)

/-- the pairs invariant of the loop -/
def GInv (tape : Tape) (parent : Nat) (state : PState) : Prop := ∃ top, OpenG parent tape top ∧ Coupled state top

theorem OpenG.zero {tape : Tape} {top : Top} (h : OpenG 0 tape top) : top = .root ∧ GSeq tape := by
  cases h with
  | root hg => exact ⟨rfl, hg⟩
  | arr _ _ _ hp _ => exact absurd rfl hp
  | obj _ _ _ hp _ => exact absurd rfl hp

/-- the slot of the innermost open container tells its kind -/
theorem OpenG.slot {p : Nat} {tape : Tape} {top : Top} (h : OpenG p tape top) :
    (∀ seg, top = .arr seg → ∃ g, tape[p]? = some (.array g)) ∧
    (∀ seg ph, top = .obj seg ph → ∃ g, tape[p]? = some (.object g)) := by
  cases h with
  | root _ =>
    refine ⟨?_, ?_⟩
    · intro seg h; cases h
    · intro seg ph h; cases h
  | @arr g p pre seg below _ _ hl _ _ =>
    refine ⟨?_, ?_⟩
    · intro seg' _; exact ⟨g, by rw [← hl]; simp⟩
    · intro seg' ph h; cases h
  | @obj g p pre seg ph below _ _ hl _ _ =>
    refine ⟨?_, ?_⟩
    · intro seg' h; cases h
    · intro seg' ph' _; exact ⟨g, by rw [← hl]; simp⟩

/-- a closed child is appended to the level below -/
def childAppended (below : Top) (c : Tape) : Top :=
  match below with
  | .root => .root
  | .arr seg => .arr (seg ++ c)
  | .obj seg .V => .obj (seg ++ c) .K
  | .obj seg ph => .obj (seg ++ c) ph

theorem OpenG.appendCont {g : Nat} {pre c : Tape} {below : Top} (h : OpenG g pre below) (hc : ChildOk below)
    (hg : GCont c) : OpenG g (pre ++ c) (childAppended below c) := by
  cases h with
  | root hs => exact OpenG.root (GSeq.cont hs hg)
  | arr hb hcb hl hp hs =>
    rename_i g' pre' seg below'
    have : pre' ++ BTok.array g' :: seg ++ c = pre' ++ BTok.array g' :: (seg ++ c) := by simp
    rw [this]; exact OpenG.arr hb hcb hl hp (GSeq.cont hs hg)
  | obj hb hcb hl hp hs =>
    rename_i g' pre' seg ph below'
    have e : pre' ++ BTok.object g' :: seg ++ c = pre' ++ BTok.object g' :: (seg ++ c) := by simp
    rw [e]
    rcases hc with rfl | rfl
    · exact OpenG.obj hb hcb hl hp (Body.valCont hs hg)
    · exact OpenG.obj hb hcb hl hp (Body.afterCont hs hg)


theorem BTok.isKey_val {x : BTok} (h : x.isKey = true) : x.isVal = true := by
  simp [BTok.isKey] at h; exact h.1
theorem BTok.isVal_plain {x : BTok} (h : x.isVal = true) : x.isPlain = true := by
  simp [BTok.isVal] at h; exact h.1.1
theorem BTok.isKey_plain {x : BTok} (h : x.isKey = true) : x.isPlain = true := BTok.isVal_plain (BTok.isKey_val h)
theorem BTok.isKey_ne {x : BTok} (h : x.isKey = true) : x ≠ .mixed := by
  have := BTok.isKey_val h; simp [BTok.isVal] at this; exact this.1.2

/-- a scalar lexeme is appended (`next_state` applied) -/
theorem ginv_scalar {p : Nat} {tape : Tape} {s s' : PState} {x : BTok} (hg : GInv tape p s) (hxp : x.isPlain = true)
    (hv : s = .objectValue → x.isVal = true) (hk : s ≠ .objectValue → s ≠ .arrayValueMixed → x.isKey = true)
    (hn : nextState s = some s') (hs : s ≠ .objectToArray) : GInv (tape ++ [x]) p s' := by
  obtain ⟨top, ho, hc⟩ := hg
  cases ho with
  | root hs' => exact ⟨.root, OpenG.root (GSeq.plain hs' hxp), trivial⟩
  | @arr g p pre seg below hb hcb hl hp hseg =>
    have e : pre ++ BTok.array g :: seg ++ [x] = pre ++ BTok.array g :: (seg ++ [x]) := by simp
    rw [e]
    refine ⟨.arr (seg ++ [x]), OpenG.arr hb hcb hl hp (GSeq.plain hseg hxp), ?_⟩
    obtain ⟨c1, c2, c3, c4⟩ := hc
    rcases c1 with (rfl | rfl | rfl) | rfl <;> simp at hn <;> subst hn
    · have hx := hk (by decide) (by decide)
      exact ⟨Or.inl (Or.inl rfl), by simp, by simp, fun _ l y h _ => by
        have := List.append_inj_right' h (by simp); simp at this; subst this; exact hx⟩
    · have hx := hk (by decide) (by decide)
      exact ⟨Or.inl (Or.inr (Or.inr rfl)), by simp, fun _ => ⟨x, by simp [c2 rfl], hx⟩, by simp⟩
    · have hx := hk (by decide) (by decide)
      exact ⟨Or.inl (Or.inl rfl), by simp, by simp, fun _ l y h _ => by
        have := List.append_inj_right' h (by simp); simp at this; subst this; exact hx⟩
    · exact ⟨Or.inr rfl, by simp, by simp, by simp⟩
  | @obj g p pre seg ph below hb hcb hl hp hbody =>
    have e : pre ++ BTok.object g :: seg ++ [x] = pre ++ BTok.object g :: (seg ++ [x]) := by simp
    rw [e]
    obtain ⟨c0, c1, c2, c3, c4, c5⟩ := hc
    cases s <;> simp at hn <;> subst hn
    · exact absurd (Or.inl rfl) c0
    · -- mixed
      have := c5 rfl; subst this
      exact ⟨.obj (seg ++ [x]) .M, OpenG.obj hb hcb hl hp (Body.afterPlain hbody hxp),
        by simp [InArrS], by simp, by simp, by simp, by simp, by simp⟩
    · -- objectValue → key
      rcases c3 rfl with rfl | rfl
      · exact ⟨.obj (seg ++ [x]) .K, OpenG.obj hb hcb hl hp (Body.valPlain hbody (hv rfl)),
          by simp [InArrS], by simp, by simp, by simp, by simp, by simp⟩
      · exact ⟨.obj (seg ++ [x]) .M, OpenG.obj hb hcb hl hp (Body.afterPlain hbody hxp),
          by simp [InArrS], by simp, by simp, by simp, by simp, by simp⟩
    · -- key → keyValueSeparator
      rcases c1 rfl with rfl | rfl
      · exact ⟨.obj (seg ++ [x]) .V, OpenG.obj hb hcb hl hp (Body.key hbody (hk (by decide) (by decide))),
          by simp [InArrS], by simp, by simp, by simp, by simp, by simp⟩
      · exact ⟨.obj (seg ++ [x]) .M, OpenG.obj hb hcb hl hp (Body.afterPlain hbody hxp),
          by simp [InArrS], by simp, fun _ => Or.inr ⟨rfl, seg, x, rfl, hbody, hxp⟩, by simp, by simp, by simp⟩
    · -- keyValueSeparator → objectToArray
      rcases c2 rfl with rfl | ⟨_, l, y, rfl, hl', hy⟩
      · obtain ⟨l, k, rfl, hl', hkk⟩ := hbody.inv_V
        refine ⟨.obj (l ++ [k] ++ [x]) .K, OpenG.obj hb hcb hl hp (Body.valPlain hbody (BTok.isKey_val (hk (by decide) (by decide)))),
          by simp [InArrS], by simp, by simp, by simp, ?_, by simp⟩
        intro _; exact ⟨l, k, x, by simp, BTok.isKey_plain hkk, hxp, Or.inl ⟨hl', hkk⟩⟩
      · refine ⟨.obj (l ++ [y] ++ [x]) .M, OpenG.obj hb hcb hl hp (Body.afterPlain (Body.afterPlain hl' hy) hxp),
          by simp [InArrS], by simp, by simp, by simp, ?_, by simp⟩
        intro _; exact ⟨l, y, x, by simp, hy, hxp, Or.inr hl'⟩
    · exact absurd rfl hs
    · exact absurd (Or.inr (Or.inl rfl)) c0
    · exact absurd (Or.inr (Or.inr rfl)) c0


theorem coupled_child {below : Top} {c : Tape} {s' : PState} (hcb : ChildOk below) (hc : GCont c)
    (hs : (∀ seg, below = .arr seg → s' = .arrayValue) ∧ (∀ seg ph, below = .obj seg ph → s' = .key)) :
    Coupled s' (childAppended below c) := by
  cases below with
  | root => trivial
  | arr seg =>
    have := hs.1 seg rfl; subst this
    refine ⟨Or.inl (Or.inl rfl), by simp, by simp, fun _ l x h hpl => ?_⟩
    obtain ⟨i, hi⟩ := snoc_eq_append_cont hc h.symm
    subst hi; simp [BTok.isPlain] at hpl
  | obj seg ph =>
    have := hs.2 seg ph rfl; subst this
    rcases hcb with rfl | rfl
    · exact ⟨by simp [InArrS], by simp, by simp, by simp, by simp, by simp⟩
    · exact ⟨by simp [InArrS], by simp, by simp, by simp, by simp, by simp⟩

/-- closing the innermost container: it is complete and good, and becomes an item of the level below -/
theorem ginv_pushEnd {tape : Tape} {p : Nat} {T' : Tape} {g' : Nat} {s' : PState} {top : Top}
    (h : pushEnd tape p = .ok (T', g', s')) (ho : OpenAt p tape) (hg : OpenG p tape top)
    (hph : ∀ seg ph, top = .obj seg ph → ph ≠ .V) : GInv T' g' s' := by
  cases hg with
  | root _ =>
    unfold pushEnd at h
    split at h
    · rename_i g hgs; have := ho.zero_slot _ hgs; simp [BTok.isPlain] at this
    · rename_i g hgs; have := ho.zero_slot _ hgs; simp [BTok.isPlain] at this
    · cases h
  | @arr g p pre seg below hb hcb hl hp hseg =>
    have hidx : (pre ++ BTok.array g :: seg)[p]? = some (.array g) := by rw [← hl]; simp
    have hset : ∀ y, (pre ++ BTok.array g :: seg).set p y = pre ++ y :: seg := by intro y; rw [← hl]; simp
    unfold pushEnd at h
    rw [hidx] at h
    simp only [hset] at h
    have hcont : GCont (BTok.array (pre ++ BTok.array g :: seg).length :: (seg ++ [BTok.end_ p])) := GCont.arr _ _ hseg
    have hT : pre ++ BTok.array (pre ++ BTok.array g :: seg).length :: seg ++ [BTok.end_ p]
        = pre ++ (BTok.array (pre ++ BTok.array g :: seg).length :: (seg ++ [BTok.end_ p])) := by simp
    rw [hT] at h
    obtain ⟨h1, h2, h3, h4⟩ := closeTo_eq h
    simp only at h1 h2 h3 h4
    subst h1; have h2' := h2.symm; subst h2'
    refine ⟨_, hb.appendCont hcb hcont, coupled_child hcb hcont ⟨?_, ?_⟩⟩
    · intro seg' hbel
      obtain ⟨e, he⟩ := hb.slot.1 seg' hbel
      have hlt := getElem?_lt_length he
      unfold closeTo at h
      rw [List.getElem?_append_left hlt, he] at h
      simp at h; exact h.symm
    · intro seg' ph' hbel
      obtain ⟨e, he⟩ := hb.slot.2 seg' ph' hbel
      have hlt := getElem?_lt_length he
      unfold closeTo at h
      rw [List.getElem?_append_left hlt, he] at h
      simp at h; exact h.symm
  | @obj g p pre seg ph below hb hcb hl hp hbody =>
    have hidx : (pre ++ BTok.object g :: seg)[p]? = some (.object g) := by rw [← hl]; simp
    have hset : ∀ y, (pre ++ BTok.object g :: seg).set p y = pre ++ y :: seg := by intro y; rw [← hl]; simp
    unfold pushEnd at h
    rw [hidx] at h
    simp only [hset] at h
    have hcont : GCont (BTok.object (pre ++ BTok.object g :: seg).length :: (seg ++ [BTok.end_ p])) :=
      GCont.obj _ _ hbody (hph seg ph rfl)
    have hT : pre ++ BTok.object (pre ++ BTok.object g :: seg).length :: seg ++ [BTok.end_ p]
        = pre ++ (BTok.object (pre ++ BTok.object g :: seg).length :: (seg ++ [BTok.end_ p])) := by simp
    rw [hT] at h
    obtain ⟨h1, h2, h3, h4⟩ := closeTo_eq h
    simp only at h1 h2 h3 h4
    subst h1; have h2' := h2.symm; subst h2'
    refine ⟨_, hb.appendCont hcb hcont, coupled_child hcb hcont ⟨?_, ?_⟩⟩
    · intro seg' hbel
      obtain ⟨e, he⟩ := hb.slot.1 seg' hbel
      have hlt := getElem?_lt_length he
      unfold closeTo at h
      rw [List.getElem?_append_left hlt, he] at h
      simp at h; exact h.symm
    · intro seg' ph' hbel
      obtain ⟨e, he⟩ := hb.slot.2 seg' ph' hbel
      have hlt := getElem?_lt_length he
      unfold closeTo at h
      rw [List.getElem?_append_left hlt, he] at h
      simp at h; exact h.symm


theorem coupled_childOk {s : PState} {top : Top} (hc : Coupled s top) (h1 : s ≠ .key) (h2 : s ≠ .objectToArray) :
    ChildOk top := by
  cases top with
  | root => trivial
  | arr _ => trivial
  | obj seg ph =>
    obtain ⟨c0, c1, c2, c3, c4, c5⟩ := hc
    cases s
    · exact absurd (Or.inl rfl) c0
    · exact Or.inr (c5 rfl)
    · exact c3 rfl
    · exact absurd rfl h1
    · rcases c2 rfl with h | ⟨h, _⟩
      · exact Or.inl h
      · exact Or.inr h
    · exact absurd rfl h2
    · exact absurd (Or.inr (Or.inl rfl)) c0
    · exact absurd (Or.inr (Or.inr rfl)) c0

theorem openArm_ginv {tape : Tape} {parent : Nat} {state : PState} {d : Bytes} {st' : St}
    (h : openArm tape parent state d = .ok st') (hs : state ≠ .objectToArray)
    (ht : TInv tape parent state) (hg : GInv tape parent state) : GInv st'.tape st'.parent st'.state := by
  unfold openArm at h
  split at h
  · rename_i hk
    simp at h; subst h
    obtain ⟨top, ho, hc⟩ := hg
    have hne : tape ≠ [] := fun he => hk (ht.2.2 he)
    have hlen : tape.length ≠ 0 := by cases tape <;> simp_all
    refine ⟨.arr [], ?_, Or.inl (Or.inr (Or.inl rfl)), by simp, by simp, by simp⟩
    exact OpenG.arr ho (coupled_childOk hc hk hs) rfl hlen GSeq.nil
  · split at h
    · cases h
    · cases hr : readId d with
      | none => simp [hr] at h
      | some p =>
        obtain ⟨x, nd⟩ := p
        simp only [hr] at h
        split at h
        · simp at h; subst h; exact hg
        · cases h


/-- `mixed_insert1` on the innermost level: the lone key moves behind a `MixedContainer` marker -/
theorem openG_mixedInsert1 {p : Nat} {t0 : Tape} {x : BTok} {top : Top} (hx : x.isPlain = true)
    (ho : OpenG p (t0 ++ [x]) top) (hc : Coupled .keyValueSeparator top) :
    ∃ top', OpenG p (t0 ++ [.mixed, x]) top' ∧ (∀ seg ph, top' = .obj seg ph → ph = .M) := by
  generalize hm : t0 ++ [x] = tape at ho
  cases ho with
  | root hs =>
    subst hm
    have h1 := hs.unsnoc hx
    exact ⟨.root, OpenG.root (h1.snoc_all [.mixed, x] (by intro z hz; simp at hz; rcases hz with rfl | rfl <;> first | rfl | exact hx)),
      fun _ _ h => by cases h⟩
  | @arr g p pre seg below hb hcb hl hp hseg =>
    obtain ⟨c1, _⟩ := hc
    rcases c1 with (h | h | h) | h <;> cases h
  | @obj g p pre seg ph below hb hcb hl hp hbody =>
    obtain ⟨_, _, c2, _⟩ := hc
    -- the body ends with the popped token
    have key : ∀ l k, seg = l ++ [k] → (Body l .K ∧ k.isKey = true ∨ Body l .M) →
        ∃ top', OpenG p (t0 ++ [.mixed, x]) top' ∧ (∀ seg ph, top' = .obj seg ph → ph = .M) := by
      intro l k hseg hb'
      subst hseg
      have e : pre ++ BTok.object g :: (l ++ [k]) = (pre ++ BTok.object g :: l) ++ [k] := by simp
      rw [e] at hm
      have h1 := List.append_inj_left' hm (by simp)
      have h2 := List.append_inj_right' hm (by simp)
      simp at h2; subst h2; subst h1
      have e2 : pre ++ BTok.object g :: l ++ [BTok.mixed, x] = pre ++ BTok.object g :: (l ++ [BTok.mixed, x]) := by simp
      rw [e2]
      have hbody' : Body (l ++ [BTok.mixed, x]) .M := by
        rcases hb' with ⟨hk, _⟩ | hm'
        · have := Body.afterPlain (Body.mixed hk) hx; simpa using this
        · exact hm'.afterAll [.mixed, x] (by intro z hz; simp at hz; rcases hz with rfl | rfl <;> first | rfl | exact hx)
      exact ⟨.obj _ .M, OpenG.obj hb hcb hl hp hbody', fun _ _ h => by cases h; rfl⟩
    rcases c2 rfl with rfl | ⟨_, l, k, hseg, hl', _⟩
    · obtain ⟨l, k, hseg, hl', hk⟩ := hbody.inv_V
      exact key l k hseg (Or.inl ⟨hl', hk⟩)
    · exact key l k hseg (Or.inr hl')

theorem closeArm_ginv {tape : Tape} {parent : Nat} {state : PState} {d : Bytes} {st' : St}
    (h : closeArm tape parent state d = .ok st') (hs : state ≠ .objectToArray)
    (ht : TInv tape parent state) (hg : GInv tape parent state) : GInv st'.tape st'.parent st'.state := by
  unfold closeArm at h
  simp only at h
  have key : ∀ tape1 top, OpenAt parent tape1 → OpenG parent tape1 top → (∀ seg ph, top = .obj seg ph → ph ≠ .V) →
      (match pushEnd tape1 parent with
        | .error e => (Except.error e : Except Err St)
        | .ok (tape', parent', state') => Except.ok ⟨tape', parent', state', d⟩) = Except.ok st' →
      GInv st'.tape st'.parent st'.state := by
    intro tape1 top ho hog hph hh
    cases hp : pushEnd tape1 parent with
    | error e => simp [hp] at hh
    | ok p =>
      obtain ⟨a, b, c⟩ := p
      simp [hp] at hh; subst hh
      exact ginv_pushEnd hp ho hog hph
  obtain ⟨top, hog, hc⟩ := hg
  cases state
  case keyValueSeparator =>
    obtain ⟨⟨t0, x, rfl, hx, ho⟩, _, _⟩ := ht
    have hm : mixedInsert1 (t0 ++ [x]) = .ok (t0 ++ [.mixed, x]) := by simp [mixedInsert1, pop?]
    simp only [hm] at h
    obtain ⟨top', hog', hph⟩ := openG_mixedInsert1 hx hog hc
    refine key _ top' ?_ hog' (fun seg ph ht' => by rw [hph seg ph ht']; decide) h
    have : t0 ++ [BTok.mixed, x] = t0 ++ [BTok.mixed] ++ [x] := by simp
    rw [this]; exact (ho.snoc_plain rfl).snoc_plain hx
  case objectValue => simp at h
  case objectToArray => exact absurd rfl hs
  case key =>
    refine key _ top ht.openAt hog ?_ h
    intro seg ph htop; subst htop
    rcases hc.2.1 rfl with h | h <;> (rw [h]; decide)
  case arrayValueMixed =>
    refine key _ top ht.openAt hog ?_ h
    intro seg ph htop; subst htop
    rw [hc.2.2.2.2.2 rfl]; decide
  all_goals
    refine key _ top ht.openAt hog ?_ h
    intro seg ph htop; subst htop
    exact absurd (by simp [InArrS]) hc.1


theorem tinv_parent_ne {tape : Tape} {parent : Nat} {state : PState} (hi : TInv tape parent state)
    (hs : state = .arrayValue ∨ state = .openFirst ∨ state = .openSecond) : parent ≠ 0 := by
  obtain ⟨g, hg⟩ := hi.2.1 hs
  intro hp; subst hp
  have := hi.openAt.zero_slot _ hg
  simp [BTok.isPlain] at this

theorem GSeq.unsnoc' {l : Tape} {x : BTok} (h : GSeq (l ++ [x])) (hx : ∀ i, x ≠ .end_ i) : x.isPlain = true ∧ GSeq l := by
  generalize hm : l ++ [x] = m at h
  cases h with
  | nil => simp at hm
  | plain h' hp =>
    have h1 := List.append_inj_left' hm (by simp)
    have h2 := List.append_inj_right' hm (by simp)
    simp at h2; subst h1; subst h2; exact ⟨hp, h'⟩
  | cont h' hc =>
    obtain ⟨i, hi⟩ := snoc_eq_append_cont hc hm
    exact absurd hi (hx i)

theorem equalArm_ginv {tape : Tape} {parent : Nat} {state : PState} {d : Bytes} {st' : St}
    (h : equalArm tape parent state d = .ok st')
    (ht : TInv tape parent state) (hg : GInv tape parent state) : GInv st'.tape st'.parent st'.state := by
  unfold equalArm at h
  split at h
  · -- KeyValueSeparator → ObjectValue
    simp at h; subst h
    obtain ⟨top, hog, hc⟩ := hg
    refine ⟨top, hog, ?_⟩
    cases top with
    | root => trivial
    | arr seg => obtain ⟨c1, _⟩ := hc; rcases c1 with (h | h | h) | h <;> cases h
    | obj seg ph =>
      obtain ⟨c0, c1, c2, c3, c4, c5⟩ := hc
      refine ⟨by simp [InArrS], by simp, by simp, ?_, by simp, by simp⟩
      intro _
      rcases c2 rfl with h | ⟨h, _⟩
      · exact Or.inl h
      · exact Or.inr h
  · -- OpenSecond: the container becomes an object holding its first token as key
    have hp0 := tinv_parent_ne ht (Or.inr (Or.inr rfl))
    cases hso : setParentToObject tape parent with
    | error e => simp [hso] at h
    | ok t2 =>
      simp [hso] at h; subst h
      obtain ⟨e, he, rfl⟩ := setParentToObject_ok hso
      obtain ⟨top, hog, hc⟩ := hg
      cases hog with
      | root _ => exact absurd rfl hp0
      | @obj g p pre seg ph below hb hcb hl hp hbody => exact absurd (Or.inr (Or.inr rfl)) hc.1
      | @arr g p pre seg below hb hcb hl hp hseg =>
        obtain ⟨k, rfl, hk⟩ := hc.2.2.1 rfl
        have hset : (pre ++ BTok.array g :: [k]).set parent (.object e) = pre ++ BTok.object e :: [k] := by
          rw [← hl]; simp
        have hidx : (pre ++ BTok.array g :: [k])[parent]? = some (.array g) := by rw [← hl]; simp
        rw [hidx] at he; simp at he; subst he
        simp only [hset]
        refine ⟨.obj [k] .V, OpenG.obj hb hcb hl hp ?_, by simp [InArrS], by simp, by simp, by simp, by simp, by simp⟩
        have := Body.key Body.nil hk
        simpa using this
  · -- ArrayValueMixed: the `=` is a token
    simp at h; subst h
    exact ginv_scalar hg (x := .equal) rfl (by intro h; cases h) (by intro _ h; exact absurd rfl h) nextState_arrayValueMixed (by decide)
  · -- ArrayValue
    have hp0 := tinv_parent_ne ht (Or.inl rfl)
    obtain ⟨top, hog, hc⟩ := hg
    cases hpp : pop? tape with
    | none => simp [hpp] at h
    | some pr =>
      obtain ⟨t1, last⟩ := pr
      have htape := pop?_length hpp
      subst htape
      simp only [hpp] at h
      generalize hm : t1 ++ [last] = tp at hog
      cases hog with
      | root _ => exact absurd rfl hp0
      | @obj g p pre seg ph below hb hcb hl hp hbody => exact absurd (Or.inl rfl) hc.1
      | @arr g p pre seg below hb hcb hl hp hseg =>
        split at h
        · cases h
        · cases h
        · rename_i hna hne
          -- the popped token is the last token of the array's body
          rcases List.eq_nil_or_concat seg with hs | ⟨seg1, y, hs⟩
          · subst hs
            have := List.append_inj_right' (show t1 ++ [last] = pre ++ [BTok.array g] from hm) (by simp)
            simp at this; exact absurd this (hna g)
          rw [List.concat_eq_append] at hs; subst hs
          have e1 : t1 ++ [last] = (pre ++ BTok.array g :: seg1) ++ [y] := by simpa using hm
          have e2 := List.append_inj_left' e1 (by simp)
          have e3 := List.append_inj_right' e1 (by simp)
          simp at e3; subst e3; subst e2
          obtain ⟨hlp, hseg1⟩ := hseg.unsnoc' hne
          have hlk : last.isKey = true := hc.2.2.2 rfl seg1 last rfl hlp
          split at h
          · cases hso : setParentToObject (pre ++ BTok.array g :: seg1) parent with
            | error e => simp [hso] at h
            | ok t2 =>
              simp [hso] at h; subst h
              obtain ⟨e, he, rfl⟩ := setParentToObject_ok hso
              have hidx : (pre ++ BTok.array g :: seg1)[parent]? = some (.array g) := by rw [← hl]; simp
              rw [hidx] at he; simp at he; subst he
              have hset : (pre ++ BTok.array g :: seg1).set parent (.object g) = pre ++ BTok.object g :: seg1 := by
                rw [← hl]; simp
              have htake : (pre ++ BTok.object g :: seg1).take (parent + 1) = pre ++ [.object g] := by
                rw [← hl, List.take_append]; simp [List.take_of_length_le]
              simp only [hset, htake]
              refine ⟨.obj [last] .V, ?_, by simp [InArrS], by simp, by simp, by simp, by simp, by simp⟩
              have hb' : Body [last] .V := by simpa using Body.key Body.nil hlk
              have := OpenG.obj hb hcb hl hp hb'
              simpa using this
          · simp at h; subst h
            refine ⟨.arr (seg1 ++ [.mixed, last, .equal]), ?_, Or.inr rfl, by simp, by simp, by simp⟩
            have hs' := hseg1.snoc_all [.mixed, last, .equal] (by
              intro z hz; simp at hz; rcases hz with rfl | rfl | rfl <;> first | rfl | exact hlp)
            have := OpenG.arr hb hcb hl hp hs'
            simpa using this
  · cases h


/-- `r` appends one token that may stand in key position -/
def AppendsK (r : Except Err (Tape × Bytes)) (tape : Tape) : Prop :=
  ∀ t' d', r = .ok (t', d') → ∃ x, t' = tape ++ [x] ∧ x.isKey = true

theorem appendsK_fixed (n : Nat) (mk : Bytes → BTok) (hmk : ∀ b, (mk b).isKey = true) (tape : Tape) (d : Bytes) :
    AppendsK (parseFixed n mk tape d) tape := by
  intro t' d' h
  exact ⟨_, (parseFixed_ok h).1, hmk _⟩

theorem scalarArm_ginv {r : Except Err (Tape × Bytes)} {tape : Tape} {parent : Nat} {state : PState} {st' : St}
    (hr : AppendsK r tape) (h : scalarArm r parent state = .ok st') (hs : state ≠ .objectToArray)
    (hg : GInv tape parent state) : GInv st'.tape st'.parent st'.state := by
  unfold scalarArm at h
  cases r with
  | error e => cases h
  | ok p =>
    obtain ⟨T', d'⟩ := p
    obtain ⟨x, rfl, hx⟩ := hr T' d' rfl
    simp only at h
    cases hn : nextState state with
    | none => simp [hn] at h
    | some s' =>
      simp [hn] at h; subst h
      exact ginv_scalar hg (BTok.isKey_plain hx) (fun _ => BTok.isKey_val hx) (fun _ _ => hx) hn hs

theorem tokenArm_ginv {tape : Tape} {parent : Nat} {state : PState} {d : Bytes} {tok : Nat} {st' : St}
    (h : tokenArm false 0 tape parent state d tok = .ok st') (hs : state ≠ .objectToArray)
    (ht : TInv tape parent state) (hg : GInv tape parent state) : GInv st'.tape st'.parent st'.state := by
  unfold tokenArm at h
  by_cases c1 : tok = L.u32
  · rw [if_pos c1] at h; exact scalarArm_ginv (appendsK_fixed _ _ (by intro _; rfl) _ _) h hs hg
  rw [if_neg c1] at h
  by_cases c2 : tok = L.u64
  · rw [if_pos c2] at h; exact scalarArm_ginv (appendsK_fixed _ _ (by intro _; rfl) _ _) h hs hg
  rw [if_neg c2] at h
  by_cases c3 : tok = L.i32
  · rw [if_pos c3] at h
    cases hsa : scalarArm (parseI32 tape d) parent state with
    | error e => simp [hsa] at h
    | ok st => simp [hsa] at h; subst h; exact scalarArm_ginv (appendsK_fixed _ _ (by intro _; rfl) _ _) hsa hs hg
  rw [if_neg c3] at h
  by_cases c4 : tok = L.bool
  · rw [if_pos c4] at h
    refine scalarArm_ginv ?_ h hs hg
    intro T d' hh; obtain ⟨⟨b, hb⟩, _⟩ := parseBool_ok hh; exact ⟨_, hb, rfl⟩
  rw [if_neg c4] at h
  by_cases c5 : tok = L.quoted
  · rw [if_pos c5] at h
    refine scalarArm_ginv ?_ h hs hg
    intro T d' hh; obtain ⟨⟨b, hb⟩, _⟩ := parseQuoted_ok hh; exact ⟨_, hb, rfl⟩
  rw [if_neg c5] at h
  by_cases c6 : tok = L.unquoted
  · rw [if_pos c6] at h
    refine scalarArm_ginv ?_ h hs hg
    intro T d' hh; obtain ⟨⟨b, hb⟩, _⟩ := parseUnquoted_ok hh; exact ⟨_, hb, rfl⟩
  rw [if_neg c6] at h
  by_cases c7 : tok = L.f32
  · rw [if_pos c7] at h; exact scalarArm_ginv (appendsK_fixed _ _ (by intro _; rfl) _ _) h hs hg
  rw [if_neg c7] at h
  by_cases c8 : tok = L.f64
  · rw [if_pos c8] at h; exact scalarArm_ginv (appendsK_fixed _ _ (by intro _; rfl) _ _) h hs hg
  rw [if_neg c8] at h
  by_cases c9 : tok = L.open_
  · rw [if_pos c9] at h; exact openArm_ginv h hs ht hg
  rw [if_neg c9] at h
  by_cases c10 : tok = L.close
  · rw [if_pos c10] at h; exact closeArm_ginv h hs ht hg
  rw [if_neg c10] at h
  by_cases c11 : tok = L.equal
  · rw [if_pos c11] at h; exact equalArm_ginv h ht hg
  rw [if_neg c11] at h
  by_cases c12 : tok = L.rgb ∧ state = .objectValue
  · rw [if_pos c12] at h
    unfold parseRgb at h
    cases hr : readRgb d with
    | error e => simp [hr] at h
    | ok p =>
      obtain ⟨t, rest⟩ := p
      simp [hr] at h; subst h
      obtain ⟨_, rfl⟩ := c12
      obtain ⟨a, b, c, al, rfl⟩ := readRgb_isRgb hr
      exact ginv_scalar hg (x := .rgb a b c al) rfl (fun _ => rfl) (by intro h; exact absurd rfl h) nextState_objectValue (by decide)
  rw [if_neg c12] at h
  by_cases c13 : tok = L.i64
  · rw [if_pos c13] at h; exact scalarArm_ginv (appendsK_fixed _ _ (by intro _; rfl) _ _) h hs hg
  rw [if_neg c13] at h
  refine scalarArm_ginv ?_ h hs hg
  intro T d' hh; simp at hh; obtain ⟨rfl, rfl⟩ := hh; exact ⟨_, rfl, rfl⟩

/-- `mixed_insert2` on the innermost level -/
theorem openG_mixedInsert2 {p : Nat} {t0 : Tape} {x y : BTok} {top : Top} (hx : x.isPlain = true) (hy : y.isPlain = true)
    (ho : OpenG p (t0 ++ [x, y]) top) (hc : Coupled .objectToArray top) :
    ∃ top', OpenG p (t0 ++ [.mixed, x, y]) top' ∧ Coupled .arrayValueMixed top' := by
  have hpl : ∀ z ∈ [BTok.mixed, x, y], z.isPlain = true := by
    intro z hz; simp at hz; rcases hz with rfl | rfl | rfl <;> first | rfl | assumption
  generalize hm : t0 ++ [x, y] = tape at ho
  cases ho with
  | root hs =>
    subst hm
    have e : t0 ++ [x, y] = t0 ++ [x] ++ [y] := by simp
    rw [e] at hs
    have h1 := (hs.unsnoc hy).unsnoc hx
    exact ⟨.root, OpenG.root (h1.snoc_all _ hpl), trivial⟩
  | @arr g p pre seg below hb hcb hl hp hseg =>
    obtain ⟨c1, _⟩ := hc
    rcases c1 with (h | h | h) | h <;> cases h
  | @obj g p pre seg ph below hb hcb hl hp hbody =>
    obtain ⟨_, _, _, _, c4, _⟩ := hc
    obtain ⟨l, a, b, hseg, _, _, hb'⟩ := c4 rfl
    subst hseg
    have e : pre ++ BTok.object g :: (l ++ [a, b]) = (pre ++ BTok.object g :: l) ++ [a, b] := by simp
    rw [e] at hm
    have h1 := List.append_inj_left' hm (by simp)
    have h2 := List.append_inj_right' hm (by simp)
    simp at h2; obtain ⟨rfl, rfl⟩ := h2; subst h1
    have e2 : pre ++ BTok.object g :: l ++ [BTok.mixed, x, y] = pre ++ BTok.object g :: (l ++ [BTok.mixed, x, y]) := by simp
    rw [e2]
    have hbody' : Body (l ++ [BTok.mixed, x, y]) .M := by
      rcases hb' with ⟨hk, _⟩ | hm'
      · have := (Body.mixed hk).afterAll [x, y] (by intro z hz; simp at hz; rcases hz with rfl | rfl <;> assumption)
        simpa using this
      · exact hm'.afterAll _ hpl
    exact ⟨.obj _ .M, OpenG.obj hb hcb hl hp hbody', by simp [InArrS], by simp, by simp, by simp, by simp, by simp⟩

theorem step_ginv {st st' : St} (h : step st = .next st') (ht : TInv st.tape st.parent st.state)
    (hg : GInv st.tape st.parent st.state) : GInv st'.tape st'.parent st'.state := by
  cases hr : readId st.data with
  | none => rw [step_done hr] at h; cases h
  | some p =>
    obtain ⟨tok, d⟩ := p
    rw [step_eq hr] at h
    cases hd : dispatch false 0 st.tape st.parent st.state d tok with
    | error e => simp [hd, Iter.ofExcept] at h
    | ok s =>
      simp [hd, Iter.ofExcept] at h; subst h
      unfold dispatch at hd
      split at hd
      · rename_i hs
        rw [hs] at ht hg
        obtain ⟨⟨t0, x, y, htape, hx, hy, ho⟩, _, _⟩ := ht
        rw [htape] at hg
        rw [htape, mixedInsert2_snoc2] at hd
        simp only at hd
        obtain ⟨top, hog, hc⟩ := hg
        obtain ⟨top', hog', hc'⟩ := openG_mixedInsert2 hx hy hog hc
        refine tokenArm_ginv hd (by decide) ⟨?_, by simp, by simp⟩ ⟨top', hog', hc'⟩
        have : t0 ++ [BTok.mixed, x, y] = t0 ++ [BTok.mixed] ++ [x] ++ [y] := by simp
        simp only; rw [this]
        exact ((ho.snoc_plain rfl).snoc_plain hx).snoc_plain hy
      · rename_i hs
        exact tokenArm_ginv hd hs ht hg

theorem init_ginv (data : Bytes) : GInv (init data).tape (init data).parent (init data).state :=
  ⟨.root, OpenG.root GSeq.nil, trivial⟩

/-- every accepted tape is a sequence of good items: in particular the body of every `Object` is
`key value` pairs up to its first `MixedContainer` marker -/
theorem parse_good (opt : Bool) (data : Bytes) (T : Tape) (h : parse opt data = .ok T) : GSeq T := by
  have h' : parse false data = .ok T := by
    cases opt
    · exact h
    · rwa [parse_true_eq_false] at h
  obtain ⟨r, _, hreach⟩ := run_false_ok_reach _ _ _ _ h'
  obtain ⟨k, hk⟩ := hreach
  have : ∀ (k : Nat) (a : St), TInv a.tape a.parent a.state → GInv a.tape a.parent a.state →
      stepN k a = some ⟨T, 0, .key, r⟩ → GSeq T := by
    intro k
    induction k with
    | zero =>
      intro a _ hg hs; simp [stepN] at hs; subst hs
      obtain ⟨top, ho, _⟩ := hg
      exact ho.zero.2
    | succ k ih =>
      intro a ht hg hs
      cases hst : step a with
      | next a' => simp only [stepN, hst] at hs; exact ih a' (step_inv hst ht) (step_ginv hst ht hg) hs
      | done => simp [stepN, hst] at hs
      | err e => simp [stepN, hst] at hs
  exact this k (init data) (init_inv data) (init_ginv data) hk

end Jomini.BinTape
