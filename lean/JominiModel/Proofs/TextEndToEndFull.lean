import JominiModel.Proofs.TextEndToEnd
import JominiModel.Props.C01
/-
C02 end to end for what the full text syntax adds to save-style documents (item (1) of the full-syntax
round, lifted to BYTES): quoted keys, every operator, the `=` left out before a `{`, ghost `{}` in key
position -- in front of a key, behind a value, at the very start of a nested object (`JVal.ghostIn`).
The carrier is C01's document type `JFields` (Spec/TextTape.lean) with its layout; the full type
`FFields` (Spec/TextDocFull.lean, `C01_faithful_full`) adds to it only mixed containers / arrays that
turn mixed, parameter blocks, and nested objects whose FIRST field is a header field: the first two are
outside the document type of C02 (`C02_mixed_container_paths_differ`,
`C02_parameter_block_paths_differ`), `JFields.toF` embeds the rest (`C02_paths_end_to_end_fdoc`).

`gNode` / `gFields` / `gDoc` forget the layout but keep what `Key` records; the old `toDoc` (plain keys,
Proofs/TextEndToEnd.lean) is the special case without any of it.
-/
namespace Jomini.TextE2E
open Jomini Jomini.TextTape Jomini.TextDoc

/-! ### the translation -/

/-- `n` more ghost `{}` in front of the first field -/
def addLead (n : Nat) : List (Key × TextDe.Op × Node) → List (Key × TextDe.Op × Node)
  | [] => []
  | (k, o, v) :: r => (⟨k.bytes, k.quoted, k.ghosts + n, k.noEq, k.trail⟩, o, v) :: r

/-- a ghost `{}` at the very start of a nested object -/
def addGhost : Node → Node
  | .obj fs => .obj (addLead 1 fs)
  | n => n

/-- the ghost `{}` at the head of a field list -/
def gLead : JFields → Nat
  | .ghost _ _ rest => gLead rest + 1
  | _ => 0

def mkKey (k : Scal) (noEq : Bool) (trail : Nat) : Key := ⟨k.bytes, k.quoted, 0, noEq, trail⟩

mutual
/-- forget the layout of a value, keep the decorations of its keys -/
def gNode : JVal → Node
  | .scal _ s => .leaf ⟨s.bytes, s.quoted⟩
  | .empty _ _ => .arr []
  | .obj _ _ k _ o v rest _ => .obj ((mkKey k false (gLead rest), tOp o, gNode v) :: gFields rest)
  | .arrS _ _ s0 rest _ => .arr (.leaf ⟨s0.bytes, s0.quoted⟩ :: gNodes rest)
  | .arrC _ first rest _ => .arr (gNode first :: gNodes rest)
  | .ghostIn _ _ _ v => addGhost (gNode v)
  | .mixed .. => .arr []
/-- the fields of a list; the ghosts behind a field are its `trail`, those at the head of the list are
counted by `gLead` -/
def gFields : JFields → List (Key × TextDe.Op × Node)
  | .nil => []
  | .cons _ k _ o v rest => (mkKey k false (gLead rest), tOp o, gNode v) :: gFields rest
  | .consImp _ k v rest => (mkKey k true (gLead rest), .eq, gNode v) :: gFields rest
  | .ghost _ _ rest => gFields rest
  | .consHdr _ k _ o _ h body rest => (mkKey k false (gLead rest), tOp o, .hdr h.bytes (gNode body)) :: gFields rest
  | .paramVal _ _ _ _ _ _ rest => gFields rest
  | .paramObj _ _ _ _ _ _ _ _ _ _ rest => gFields rest
def gNodes : JVals → List Node
  | .nil => []
  | .cons v rest => gNode v :: gNodes rest
end

/-- the C02 document of a C01 document, keys as written -/
def gDoc (fs : JFields) : Doc := addLead (gLead fs) (gFields fs)

/-! ### the fragment -/

/-- reader-safe scalar of the full syntax: an ordinary scalar, a variable `@name` or an interpolated expression
`@[ … ]` (both parsers read them as ONE unquoted scalar: `Scal.ValidX`, C07_slice_faithful_x) that, unquoted, does not
begin with `?` (the reader takes a leading `?` for the operator `?=`: `C07_known_question_scalar`,
`C02_question_scalar_paths_differ`) -/
def SafeScalX (s : Scal) : Prop := s.ValidX ∧ (s.quoted = false → ∀ c r, s.bytes = c :: r → c ≠ 63)

theorem SafeScal.toX {s : Scal} (h : SafeScal s) : SafeScalX s := ⟨.inl h.1, h.2⟩

/-- a reader-safe scalar of the full syntax lexes back to itself in front of `after` (extended layout model of C07) -/
theorem scalValidX (s : Scal) (after : Bytes) (hs : SafeScalX s) (ha : s.quoted = false → TextReader.StartsBoundary after) :
    (TextReader.Lexeme.scalar s.quoted s.bytes).ValidX after := by
  obtain ⟨hv, h63⟩ := hs
  rcases hv with hv | hv | hv
  · exact (scalValid s after ⟨hv, h63⟩ ha).toX
  · obtain ⟨hq, r, hb, hne, hall⟩ := hv
    rw [hq]
    simp only [TextReader.Lexeme.ValidX]
    cases r with
    | nil => exact absurd rfl hne
    | cons d r' =>
      exact Or.inr (Or.inl ⟨⟨d, r', hb, fun c hc => by rw [← isBoundary_eq]; exact hall c hc⟩, ha hq⟩)
  · obtain ⟨hq, body, hb, hall⟩ := hv
    rw [hq]
    simp only [TextReader.Lexeme.ValidX]
    exact Or.inr (Or.inr ⟨body, hb, fun c hc => by simpa using hall c hc⟩)

/-- the text of such a scalar does not begin with `=` -/
theorem scal_headX (s : Scal) (hs : SafeScalX s) (x : Bytes) : ∃ c r, s.text ++ x = c :: r ∧ c ≠ 61 := by
  obtain ⟨hv, h63⟩ := hs
  rcases hv with hv | hv | hv
  · exact scal_head s ⟨hv, h63⟩ x
  · obtain ⟨hq, r, hb, _, _⟩ := hv
    exact ⟨64, r ++ x, by simp [Scal.text, hq, hb], by decide⟩
  · obtain ⟨hq, body, hb, _⟩ := hv
    exact ⟨64, 91 :: (body ++ [93]) ++ x, by simp [Scal.text, hq, hb], by decide⟩

/-- an object, possibly behind ghost `{}` -/
def XObj : JVal → Prop
  | .obj .. => True
  | .ghostIn _ _ _ v => XObj v
  | _ => False

mutual
/-- the fragment of the full-syntax end-to-end theorems: reader-safe scalars (variables `@name` and interpolated
expressions `@[ … ]` included; no leading `?`), keys quoted or not, every operator, the implicit
`=`, ghost `{}` in key position; no mixed containers, no parameter blocks -/
def XPlainV : JVal → Prop
  | .scal _ s => SafeScalX s
  | .empty _ _ => True
  | .obj _ _ k _ _ v rest _ => SafeScalX k ∧ XPlainV v ∧ XPlainF rest
  | .arrS _ _ s0 rest _ => SafeScalX s0 ∧ XPlainVs rest
  | .arrC _ first rest _ => XPlainV first ∧ XPlainVs rest
  | .ghostIn _ _ _ v => XObj v ∧ XPlainV v
  | .mixed .. => False
def XPlainF : JFields → Prop
  | .nil => True
  | .cons _ k _ _ v rest => SafeScalX k ∧ XPlainV v ∧ XPlainF rest
  | .consImp _ k v rest => (SafeScalX k ∧ v.isBraced) ∧ XPlainV v ∧ XPlainF rest
  | .ghost _ _ rest => XPlainF rest
  | .consHdr _ k _ _ _ h body rest => SafeScalX k ∧ h.quoted = false ∧ SafeScal h ∧ XPlainV body ∧ XPlainF rest
  | .paramVal .. => False
  | .paramObj .. => False
def XPlainVs : JVals → Prop
  | .nil => True
  | .cons v rest => XPlainV v ∧ XPlainVs rest
end

/-! ### sizes and tapes: ghosts, the implicit `=` and quotes around keys leave no trace on the tape -/

theorem fieldsTsize_addLead (n : Nat) : ∀ (fs : List (Key × TextDe.Op × Node)),
    TextDe.fieldsTsize (addLead n fs) = TextDe.fieldsTsize fs
  | [] => rfl
  | (k, o, v) :: r => by simp [addLead, TextDe.fieldsTsize]

theorem tapeFields_addLead (n b : Nat) : ∀ (fs : List (Key × TextDe.Op × Node)),
    tapeFields b (addLead n fs) = tapeFields b fs
  | [] => rfl
  | (k, o, v) :: r => by simp [addLead, tapeFields, Key.ttok]

theorem tapeNode_addGhost (b : Nat) (nd : Node) : tapeNode b (addGhost nd) = tapeNode b nd := by
  cases nd with
  | obj fs =>
    cases fs with
    | nil => rfl
    | cons f r =>
      obtain ⟨k, o, v⟩ := f
      simp only [addGhost, addLead]
      have := tapeFields_addLead 1 (b + 1) ((k, o, v) :: r)
      simp only [addLead] at this
      simp only [tapeNode, this]
  | leaf l => rfl
  | arr vs => rfl
  | hdr n' b' => rfl

theorem tsize_addGhost (nd : Node) : TextDe.tsize (addGhost nd) = TextDe.tsize nd := by
  cases nd with
  | obj fs => simp only [addGhost, TextDe.tsize, fieldsTsize_addLead]
  | leaf l => rfl
  | arr vs => rfl
  | hdr n' b' => rfl

theorem isHdr_addGhost (nd : Node) : (addGhost nd).isHdr = nd.isHdr := by cases nd <;> rfl

theorem gNode_notHdr : ∀ (v : JVal), (gNode v).isHdr = false
  | .scal _ _ => rfl
  | .empty _ _ => rfl
  | .obj .. => rfl
  | .arrS .. => rfl
  | .arrC .. => rfl
  | .ghostIn _ _ _ v => by simp only [gNode, isHdr_addGhost]; exact gNode_notHdr v
  | .mixed .. => rfl

theorem keyTokX (k : Scal) (after : Bytes) (ne : Bool) (tr : Nat) : toTTok (k.tok after) = (mkKey k ne tr).ttok := by
  unfold Scal.tok Key.ttok mkKey
  cases k.quoted <;> simp [toTTok]

mutual
theorem gcntV : ∀ (v : JVal), XPlainV v → TextDe.tsize (gNode v) = jcntV v
  | .scal _ _, _ => by simp [gNode, TextDe.tsize, jcntV]
  | .empty _ _, _ => by simp [gNode, TextDe.tsize, TextDe.nodesTsize, jcntV]
  | .obj _ _ k _ o v rest _, h => by
      simp only [XPlainV] at h
      simp only [gNode, TextDe.tsize, TextDe.fieldsTsize, jcntV, gcntV v h.2.1, gcntF rest h.2.2, opToks_len]
      omega
  | .arrS _ _ s0 rest _, h => by
      simp only [XPlainV] at h
      simp only [gNode, TextDe.tsize, TextDe.nodesTsize, jcntV, gcntVs rest h.2]
      omega
  | .arrC _ first rest _, h => by
      simp only [XPlainV] at h
      simp only [gNode, TextDe.tsize, TextDe.nodesTsize, jcntV, gcntV first h.1, gcntVs rest h.2]
      omega
  | .ghostIn _ _ _ v, h => by
      simp only [XPlainV] at h
      simp only [gNode, jcntV, tsize_addGhost, gcntV v h.2]
  | .mixed .., h => by simp [XPlainV] at h
theorem gcntF : ∀ (fs : JFields), XPlainF fs → TextDe.fieldsTsize (gFields fs) = jcntF fs
  | .nil, _ => by simp [gFields, TextDe.fieldsTsize, jcntF]
  | .cons _ k _ o v rest, h => by
      simp only [XPlainF] at h
      simp only [gFields, TextDe.fieldsTsize, jcntF, gcntV v h.2.1, gcntF rest h.2.2, opToks_len]
  | .consImp _ k v rest, h => by
      simp only [XPlainF] at h
      simp only [gFields, TextDe.fieldsTsize, jcntF, gcntV v h.2.1, gcntF rest h.2.2, TextDe.opToks]
      simp
  | .ghost _ _ rest, h => by
      simp only [XPlainF] at h
      simp only [gFields, jcntF, gcntF rest h]
  | .consHdr _ k _ o _ hd body rest, h => by
      simp only [XPlainF] at h
      simp only [gFields, TextDe.fieldsTsize, TextDe.tsize, jcntF, gcntV body h.2.2.2.1, gcntF rest h.2.2.2.2, opToks_len]
      omega
  | .paramVal .., h => by simp [XPlainF] at h
  | .paramObj .., h => by simp [XPlainF] at h
theorem gcntVs : ∀ (vs : JVals), XPlainVs vs → TextDe.nodesTsize (gNodes vs) = jcntVs vs
  | .nil, _ => by simp [gNodes, TextDe.nodesTsize, jcntVs]
  | .cons v rest, h => by
      simp only [XPlainVs] at h
      simp only [gNodes, TextDe.nodesTsize, jcntVs, gcntV v h.1, gcntVs rest h.2]
end

theorem gtapeNodes_cons (s : Nat) (v : JVal) (r : List Node) :
    tapeNodes s (gNode v :: r) = tapeNode s (gNode v) ++ tapeNodes (s + TextDe.tsize (gNode v)) r :=
  TextDe.tapeNodes_cons s (gNode v) r (gNode_notHdr v)

mutual
theorem gtapeV : ∀ (v : JVal) (base : Nat) (after : Bytes), XPlainV v →
    (jtapeV v base after).map toTTok = tapeNode base (gNode v)
  | .scal _ s, base, after, _ => by simp [jtapeV, gNode, tapeNode, scalTok_agree]
  | .empty _ _, base, after, _ => by simp [jtapeV, gNode, tapeNode_arr, tapeNodes, TextDe.nodesTsize]
  | .obj _ _ k g1 o v rest gc, base, after, h => by
      simp only [XPlainV] at h
      have hv := gtapeV v (base + 1 + 1 + o.toks.length) (jrenderF rest ++ (gc ++ 125 :: after)) h.2.1
      have hr := gtapeF rest (base + 1 + (1 + o.toks.length + jcntV v)) (gc ++ 125 :: after) h.2.2
      have hcv := gcntV v h.2.1
      have hcf := gcntF rest h.2.2
      have hol := opToks_len o
      have e1 : base + 1 + TextDe.fieldsTsize ((mkKey k false (gLead rest), tOp o, gNode v) :: gFields rest)
          = base + 1 + (1 + o.toks.length + jcntV v) + jcntF rest := by
        simp only [TextDe.fieldsTsize, hcv, hcf, hol]; omega
      have e2 : base + 1 + 1 + (TextDe.opToks (tOp o)).length + TextDe.tsize (gNode v)
          = base + 1 + (1 + o.toks.length + jcntV v) := by rw [hcv, hol]; omega
      simp only [jtapeV, gNode, tapeNode_obj, TextDe.tapeFields_cons, e1, e2, hol,
        List.map_append, List.map_cons, List.map_nil, toTTok_object, toTTok_end, keyTokX _ _ false (gLead rest), opToks_agree,
        hv, hr, List.cons_append, List.nil_append, List.append_assoc]
      rw [hcv, show base + 1 + 1 + o.toks.length + jcntV v = base + 1 + (1 + o.toks.length + jcntV v) by omega]
  | .arrS _ _ s0 rest gc, base, after, h => by
      simp only [XPlainV] at h
      have hr := gtapeVs rest (base + 1 + 1) (gc ++ 125 :: after) h.2
      have hc := gcntVs rest h.2
      have e1 : base + 1 + TextDe.nodesTsize (Node.leaf ⟨s0.bytes, s0.quoted⟩ :: gNodes rest) = base + 1 + 1 + jcntVs rest := by
        simp only [TextDe.nodesTsize, TextDe.tsize, hc]; omega
      simp only [jtapeV, gNode, tapeNode_arr, tapeNodes_leaf, e1,
        List.map_append, List.map_cons, List.map_nil, toTTok_array, toTTok_end, scalTok_agree, hr,
        List.cons_append, List.nil_append, List.append_assoc]
  | .arrC _ first rest gc, base, after, h => by
      simp only [XPlainV] at h
      have hf := gtapeV first (base + 1) (jrenderVs rest ++ (gc ++ 125 :: after)) h.1
      have hr := gtapeVs rest (base + 1 + jcntV first) (gc ++ 125 :: after) h.2
      have hcv := gcntV first h.1
      have hc := gcntVs rest h.2
      have e1 : base + 1 + TextDe.nodesTsize (gNode first :: gNodes rest) = base + 1 + jcntV first + jcntVs rest := by
        simp only [TextDe.nodesTsize, hcv, hc]; omega
      simp only [jtapeV, gNode, tapeNode_arr, gtapeNodes_cons, e1, hcv,
        List.map_append, List.map_cons, List.map_nil, toTTok_array, toTTok_end, hf, hr,
        List.cons_append, List.nil_append, List.append_assoc]
  | .ghostIn _ _ _ v, base, after, h => by
      simp only [XPlainV] at h
      simp only [jtapeV, gNode, tapeNode_addGhost]
      exact gtapeV v base after h.2
  | .mixed .., _, _, h => by simp [XPlainV] at h
theorem gtapeF : ∀ (fs : JFields) (base : Nat) (after : Bytes), XPlainF fs →
    (jtapeF fs base after).map toTTok = tapeFields base (gFields fs)
  | .nil, base, after, _ => by simp [jtapeF, gFields, tapeFields]
  | .cons _ k g1 o v rest, base, after, h => by
      simp only [XPlainF] at h
      have hv := gtapeV v (base + 1 + o.toks.length) (jrenderF rest ++ after) h.2.1
      have hr := gtapeF rest (base + (1 + o.toks.length + jcntV v)) after h.2.2
      have hcv := gcntV v h.2.1
      have hol := opToks_len o
      have e2 : base + 1 + (TextDe.opToks (tOp o)).length + TextDe.tsize (gNode v)
          = base + (1 + o.toks.length + jcntV v) := by rw [hcv, hol]; omega
      simp only [jtapeF, gFields, TextDe.tapeFields_cons, e2, hol, List.map_append, List.map_cons, List.map_nil,
        keyTokX _ _ false (gLead rest), opToks_agree, hv, hr, List.cons_append, List.nil_append, List.append_assoc]
      rw [hcv, show base + 1 + o.toks.length + jcntV v = base + (1 + o.toks.length + jcntV v) by omega]
  | .consImp _ k v rest, base, after, h => by
      simp only [XPlainF] at h
      have hv := gtapeV v (base + 1) (jrenderF rest ++ after) h.2.1
      have hr := gtapeF rest (base + (1 + jcntV v)) after h.2.2
      have hcv := gcntV v h.2.1
      have e2 : base + 1 + (TextDe.opToks TextDe.Op.eq).length + TextDe.tsize (gNode v) = base + (1 + jcntV v) := by
        rw [hcv]; simp [TextDe.opToks]; omega
      have e3 : base + 1 + (TextDe.opToks TextDe.Op.eq).length = base + 1 := by simp [TextDe.opToks]
      simp only [jtapeF, gFields, TextDe.tapeFields_cons, e2, e3, List.map_append, List.map_cons, List.map_nil,
        keyTokX _ _ true (gLead rest), hv, hr, List.cons_append, List.nil_append, List.append_assoc]
      simp only [TextDe.opToks, List.nil_append, List.length_nil, Nat.add_zero, List.cons.injEq, List.append_cancel_left_eq, true_and]
      rw [hcv, show base + 1 + jcntV v = base + (1 + jcntV v) by omega]
  | .ghost _ _ rest, base, after, h => by
      simp only [XPlainF] at h
      simp only [jtapeF, gFields]
      exact gtapeF rest base after h
  | .consHdr _ k g1 o gh hd body rest, base, after, h => by
      simp only [XPlainF] at h
      have hv := gtapeV body (base + 1 + o.toks.length + 1) (jrenderF rest ++ after) h.2.2.2.1
      have hr := gtapeF rest (base + (1 + o.toks.length + (1 + jcntV body))) after h.2.2.2.2
      have hcv := gcntV body h.2.2.2.1
      have hol := opToks_len o
      have e2 : base + 1 + (TextDe.opToks (tOp o)).length + TextDe.tsize (Node.hdr hd.bytes (gNode body))
          = base + (1 + o.toks.length + (1 + jcntV body)) := by
        simp only [TextDe.tsize, hcv, hol]; omega
      simp only [jtapeF, gFields, TextDe.tapeFields_cons, tapeNode, e2, hol, List.map_append, List.map_cons,
        List.map_nil, toTTok_header, keyTokX _ _ false (gLead rest), opToks_agree, hv, hr, List.cons_append,
        List.nil_append, List.append_assoc]
      simp only [TextDe.tsize, hcv]
      rw [show base + 1 + o.toks.length + (jcntV body + 1) = base + (1 + o.toks.length + (1 + jcntV body)) by omega]
  | .paramVal .., _, _, h => by simp [XPlainF] at h
  | .paramObj .., _, _, h => by simp [XPlainF] at h
theorem gtapeVs : ∀ (vs : JVals) (base : Nat) (after : Bytes), XPlainVs vs →
    (jtapeVs vs base after).map toTTok = tapeNodes base (gNodes vs)
  | .nil, base, after, _ => by simp [jtapeVs, gNodes, tapeNodes]
  | .cons v rest, base, after, h => by
      simp only [XPlainVs] at h
      have hv := gtapeV v base (jrenderVs rest ++ after) h.1
      have hr := gtapeVs rest (base + jcntV v) after h.2
      have hcv := gcntV v h.1
      simp only [jtapeVs, gNodes, gtapeNodes_cons, List.map_append, hv, hr, hcv]
end

/-- the C01 tape of a document under any layout, positions dropped, is `tapeOf` of the C02 document -/
theorem gtape_agree (fs : JFields) (gt : Bytes) (h : XPlainF fs) :
    toTextDeTape (jtapeF fs 0 gt) = tapeOf (gDoc fs) := by
  simp only [tapeOf, gDoc, tapeFields_addLead]
  exact gtapeF fs 0 gt h

/-! ### well-formedness of the translated document -/

theorem wfFields_addLead (n : Nat) : ∀ (fs : List (Key × TextDe.Op × Node)), wfFields (addLead n fs) = wfFields fs
  | [] => rfl
  | (k, o, v) :: r => by simp [addLead, wfFields]

theorem wf_addGhost (nd : Node) : (addGhost nd).wf = nd.wf := by
  cases nd with
  | obj fs => simp only [addGhost, Node.wf, wfFields_addLead]
  | leaf l => rfl
  | arr vs => rfl
  | hdr n b => rfl

theorem gNode_xobj : ∀ (v : JVal), XObj v → ∃ f r, gNode v = .obj (f :: r)
  | .obj .., _ => ⟨_, _, rfl⟩
  | .ghostIn _ _ _ v, h => by
      obtain ⟨f, r, hf⟩ := gNode_xobj v (by simpa [XObj] using h)
      obtain ⟨k, o, x⟩ := f
      refine ⟨(⟨k.bytes, k.quoted, k.ghosts + 1, k.noEq, k.trail⟩, o, x), r, ?_⟩
      simp only [gNode, hf, addGhost, addLead]
  | .scal .., h => by simp [XObj] at h
  | .empty .., h => by simp [XObj] at h
  | .arrS .., h => by simp [XObj] at h
  | .arrC .., h => by simp [XObj] at h
  | .mixed .., h => by simp [XObj] at h

/-- a braced value of the fragment translates to a container -/
theorem gbraced_cont (v : JVal) (hp : XPlainV v) (hb : v.isBraced) : IsCont (gNode v) := by
  cases v with
  | scal g s => simp [JVal.isBraced] at hb
  | empty g gc => simp [gNode, IsCont]
  | obj => simp [gNode, IsCont]
  | arrS => simp [gNode, IsCont]
  | arrC => simp [gNode, IsCont]
  | ghostIn g b1 b2 v' =>
    simp only [XPlainV] at hp
    obtain ⟨f, r, hf⟩ := gNode_xobj v' hp.1
    obtain ⟨k, o, x⟩ := f
    simp [gNode, hf, addGhost, addLead, IsCont]
  | mixed => simp [XPlainV] at hp

mutual
theorem gwfV : ∀ (v : JVal) (after : Bytes), XPlainV v → JValidV v after → (gNode v).wf = true
  | .scal _ _, _, _, _ => by simp [gNode, Node.wf]
  | .empty _ _, _, _, _ => by simp [gNode, Node.wf, wfNodes]
  | .obj _ _ k _ o v rest gc, after, hp, hv => by
      simp only [XPlainV] at hp
      simp only [JValidV] at hv
      simp only [gNode, Node.wf, wfFields, Bool.and_eq_true]
      exact ⟨gwfV v _ hp.2.1 hv.2.2.2.2.2.2.1, gwfF rest _ hp.2.2 hv.2.2.2.2.2.2.2⟩
  | .arrS _ _ s0 rest gc, after, hp, hv => by
      simp only [XPlainV] at hp
      simp only [JValidV] at hv
      simp only [gNode, Node.wf, wfNodes, Bool.and_eq_true]
      exact ⟨trivial, gwfVs rest _ hp.2 hv.2.2.2.2.2.2⟩
  | .arrC _ first rest gc, after, hp, hv => by
      simp only [XPlainV] at hp
      simp only [JValidV] at hv
      simp only [gNode, Node.wf, wfNodes, Bool.and_eq_true]
      exact ⟨gwfV first _ hp.1 hv.2.2.2.1, gwfVs rest _ hp.2 hv.2.2.2.2⟩
  | .ghostIn _ _ _ v, after, hp, hv => by
      simp only [XPlainV] at hp
      simp only [JValidV] at hv
      simp only [gNode, wf_addGhost]
      exact gwfV v after hp.2 hv.2.2.2.2.2
  | .mixed .., _, hp, _ => by simp [XPlainV] at hp
theorem gwfF : ∀ (fs : JFields) (after : Bytes), XPlainF fs → JValidF fs after → wfFields (gFields fs) = true
  | .nil, _, _, _ => by simp [gFields, wfFields]
  | .cons _ k _ o v rest, after, hp, hv => by
      simp only [XPlainF] at hp
      simp only [JValidF] at hv
      simp only [gFields, wfFields, Bool.and_eq_true]
      exact ⟨gwfV v _ hp.2.1 hv.2.2.2.2.1, gwfF rest _ hp.2.2 hv.2.2.2.2.2⟩
  | .consImp _ k v rest, after, hp, hv => by
      simp only [XPlainF] at hp
      simp only [JValidF] at hv
      simp only [gFields, wfFields, Bool.and_eq_true]
      exact ⟨gwfV v _ hp.2.1 hv.2.2.2.2.1, gwfF rest _ hp.2.2 hv.2.2.2.2.2⟩
  | .ghost _ _ rest, after, hp, hv => by
      simp only [XPlainF] at hp
      simp only [JValidF] at hv
      simp only [gFields]
      exact gwfF rest after hp hv.2.2
  | .consHdr _ k _ o _ hd body rest, after, hp, hv => by
      simp only [XPlainF] at hp
      simp only [JValidF] at hv
      have hb := hv.2.2.2.2.2.2.2.2
      have hc := gbraced_cont body hp.2.2.2.1 (cont_braced body hb.1)
      simp only [gFields, wfFields, Bool.and_eq_true, hdr_wf _ _ hc]
      exact ⟨gwfV body _ hp.2.2.2.1 hb.2.1, gwfF rest _ hp.2.2.2.2 hb.2.2⟩
  | .paramVal .., _, hp, _ => by simp [XPlainF] at hp
  | .paramObj .., _, hp, _ => by simp [XPlainF] at hp
theorem gwfVs : ∀ (vs : JVals) (after : Bytes), XPlainVs vs → JValidVs vs after → wfNodes (gNodes vs) = true
  | .nil, _, _, _ => by simp [gNodes, wfNodes]
  | .cons v rest, after, hp, hv => by
      simp only [XPlainVs] at hp
      simp only [JValidVs] at hv
      simp only [gNodes, wfNodes, Bool.and_eq_true]
      exact ⟨gwfV v _ hp.1 hv.1, gwfVs rest _ hp.2 hv.2⟩
end

theorem gwfDoc (fs : JFields) (after : Bytes) (hp : XPlainF fs) (hv : JValidF fs after) : wfFields (gDoc fs) = true := by
  simp only [gDoc, wfFields_addLead]; exact gwfF fs after hp hv

/-! ### from bytes to value on the tape path -/

/-- C02 end to end, tape path, full syntax: for every document of the fragment `XPlainF` (keys quoted or not,
every operator, the implicit `=`, ghost `{}` in key position), every valid layout of it, both encodings
and every fitting root type, the tape the parser model produces from the BYTES deserializes to the value
of the layout-free document `gDoc fs`. -/
theorem C02_tape_end_to_end_full (enc : TextDe.Enc) (ty : TextDe.Ty) (fs : JFields) (gt : Bytes)
    (hgt : Blank gt) (hv : JValidF fs gt) (hb : hasBom (jrenderF fs ++ gt) = false) (hp : XPlainF fs)
    (hroot : Ty.isRoot ty = true) (hfit : FitsT enc false ty (.obj (gDoc fs))) :
    ∃ T b, TextTape.parse (jrenderF fs ++ gt) = .ok T b ∧
      TextDe.deTape enc ty (toTextDeTape T) = valueOf enc ty (gDoc fs) := by
  refine ⟨jtapeF fs 0 gt, false, parse_tree fs gt hgt hv hb, ?_⟩
  rw [gtape_agree fs gt hp]
  exact TextDe.deTape_eq_valueOf enc ty (gDoc fs) hroot (gwfDoc fs gt hp hv) hfit

/-! ### the C01 layout document as a C07 layout document -/

/-- the blanks in front of the closing brace of a braced value -/
def dGc : JVal → Bytes
  | .empty _ gc => gc
  | .obj _ _ _ _ _ _ _ gc => gc
  | .arrS _ _ _ _ gc => gc
  | .arrC _ _ _ gc => gc
  | .ghostIn _ _ _ v => dGc v
  | _ => []

mutual
/-- a ghost `{}` is an (empty) container member, a key without its `=` a scalar member followed by its value -/
def dV : JVal → TextReader.DVal
  | .scal g s => .scal g s.quoted s.bytes
  | .empty g gc => .cont g .nil gc
  | .obj g g0 k g1 o v rest gc => .cont g (.field g0 k.quoted k.bytes g1 (trOp o) (dV v) (dM rest)) gc
  | .arrS g g0 s0 rest gc => .cont g (.elem (.scal g0 s0.quoted s0.bytes) (dMs rest)) gc
  | .arrC g first rest gc => .cont g (.elem (dV first) (dMs rest)) gc
  | .ghostIn g b1 b2 v => .cont g (.elem (.cont b1 .nil b2) (dIn v)) (dGc v)
  | .mixed g .. => .cont g .nil []
/-- the members behind the `{` of a braced value -/
def dIn : JVal → TextReader.DMembers
  | .obj _ g0 k g1 o v rest _ => .field g0 k.quoted k.bytes g1 (trOp o) (dV v) (dM rest)
  | .arrS _ g0 s0 rest _ => .elem (.scal g0 s0.quoted s0.bytes) (dMs rest)
  | .arrC _ first rest _ => .elem (dV first) (dMs rest)
  | .ghostIn _ b1 b2 v => .elem (.cont b1 .nil b2) (dIn v)
  | _ => .nil
def dM : JFields → TextReader.DMembers
  | .nil => .nil
  | .cons g0 k g1 o v rest => .field g0 k.quoted k.bytes g1 (trOp o) (dV v) (dM rest)
  | .consImp g0 k v rest => .elem (.scal g0 k.quoted k.bytes) (.elem (dV v) (dM rest))
  | .ghost g gc rest => .elem (.cont g .nil gc) (dM rest)
  | .consHdr g0 k g1 o gh h body rest =>
    .field g0 k.quoted k.bytes g1 (trOp o) (.scal gh h.quoted h.bytes) (.elem (dV body) (dM rest))
  | .paramVal _ _ _ _ _ _ rest => dM rest
  | .paramObj _ _ _ _ _ _ _ _ _ _ rest => dM rest
def dMs : JVals → TextReader.DMembers
  | .nil => .nil
  | .cons v rest => .elem (dV v) (dMs rest)
end

theorem xobj_braced (v : JVal) (h : XObj v) : v.isBraced := by
  cases v <;> simp_all [XObj, JVal.isBraced]

/-- a braced value of the fragment is its gap, `{`, its inner members, its closing gap, `}` -/
theorem dV_braced (v : JVal) (hp : XPlainV v) (hb : v.isBraced) : dV v = .cont v.gap (dIn v) (dGc v) := by
  cases v <;> simp_all [dV, dIn, dGc, JVal.gap, JVal.isBraced, XPlainV]

mutual
theorem grenderV : ∀ (v : JVal), XPlainV v → TextReader.renderV (dV v) = jrenderV v
  | .scal g s, _ => by simp [dV, TextReader.renderV, jrenderV, scalText]
  | .empty g gc, _ => by simp [dV, TextReader.renderV, TextReader.renderM, jrenderV]
  | .obj g g0 k g1 o v rest gc, h => by
      simp only [XPlainV] at h
      simp [dV, TextReader.renderV, TextReader.renderM, jrenderV, scalText, opText_trOp,
        grenderV v h.2.1, grenderM rest h.2.2]
  | .arrS g g0 s0 rest gc, h => by
      simp only [XPlainV] at h
      simp [dV, TextReader.renderV, TextReader.renderM, jrenderV, scalText, grenderMs rest h.2]
  | .arrC g first rest gc, h => by
      simp only [XPlainV] at h
      simp [dV, TextReader.renderV, TextReader.renderM, jrenderV, grenderV first h.1, grenderMs rest h.2]
  | .ghostIn g b1 b2 v, h => by
      simp only [XPlainV] at h
      have := grenderIn v h.2 (xobj_braced v h.1)
      simp only [dV, TextReader.renderV, TextReader.renderM, jrenderV, List.append_assoc, List.cons_append,
        List.nil_append, this]
  | .mixed .., h => by simp [XPlainV] at h
/-- what stands behind the `{` of a braced value -/
theorem grenderIn : ∀ (v : JVal), XPlainV v → v.isBraced → TextReader.renderM (dIn v) ++ (dGc v ++ [125]) = jinner v
  | .scal g s, _, hb => by simp [JVal.isBraced] at hb
  | .empty g gc, _, _ => by simp [dIn, dGc, TextReader.renderM, jinner]
  | .obj g g0 k g1 o v rest gc, h, _ => by
      simp only [XPlainV] at h
      simp [dIn, dGc, TextReader.renderM, jinner, scalText, opText_trOp, grenderV v h.2.1, grenderM rest h.2.2]
  | .arrS g g0 s0 rest gc, h, _ => by
      simp only [XPlainV] at h
      simp [dIn, dGc, TextReader.renderM, TextReader.renderV, jinner, scalText, grenderMs rest h.2]
  | .arrC g first rest gc, h, _ => by
      simp only [XPlainV] at h
      simp [dIn, dGc, TextReader.renderM, jinner, grenderV first h.1, grenderMs rest h.2]
  | .ghostIn g b1 b2 v, h, _ => by
      simp only [XPlainV] at h
      have := grenderIn v h.2 (xobj_braced v h.1)
      simp only [dIn, dGc, TextReader.renderM, TextReader.renderV, jinner, List.append_assoc, List.cons_append,
        List.nil_append, this]
  | .mixed .., h, _ => by simp [XPlainV] at h
theorem grenderM : ∀ (fs : JFields), XPlainF fs → TextReader.renderM (dM fs) = jrenderF fs
  | .nil, _ => by simp [dM, TextReader.renderM, jrenderF]
  | .cons g0 k g1 o v rest, h => by
      simp only [XPlainF] at h
      simp [dM, TextReader.renderM, jrenderF, scalText, opText_trOp, grenderV v h.2.1, grenderM rest h.2.2]
  | .consImp g0 k v rest, h => by
      simp only [XPlainF] at h
      simp [dM, TextReader.renderM, TextReader.renderV, jrenderF, scalText, grenderV v h.2.1, grenderM rest h.2.2]
  | .ghost g gc rest, h => by
      simp only [XPlainF] at h
      simp [dM, TextReader.renderM, TextReader.renderV, jrenderF, grenderM rest h]
  | .consHdr g0 k g1 o gh hd body rest, h => by
      simp only [XPlainF] at h
      simp [dM, TextReader.renderM, TextReader.renderV, jrenderF, scalText, opText_trOp,
        grenderV body h.2.2.2.1, grenderM rest h.2.2.2.2]
  | .paramVal .., h => by simp [XPlainF] at h
  | .paramObj .., h => by simp [XPlainF] at h
theorem grenderMs : ∀ (vs : JVals), XPlainVs vs → TextReader.renderM (dMs vs) = jrenderVs vs
  | .nil, _ => by simp [dMs, TextReader.renderM, jrenderVs]
  | .cons v rest, h => by
      simp only [XPlainVs] at h
      simp [dMs, TextReader.renderM, jrenderVs, grenderV v h.1, grenderMs rest h.2]
end

/-! ### the reader tokens -/

theorem ghostToks_add : ∀ (a n : Nat), ghostToks (a + n) = ghostToks n ++ ghostToks a
  | a, 0 => by simp [ghostToks]
  | a, n + 1 => by
      have := ghostToks_add a n
      show ghostToks ((a + n) + 1) = _
      simp only [ghostToks, this, List.cons_append]

theorem lexFields_addLead (n : Nat) (f : Key × TextDe.Op × Node) (r : List (Key × TextDe.Op × Node)) :
    lexFields (addLead n (f :: r)) = ghostToks n ++ lexFields (f :: r) := by
  obtain ⟨k, o, v⟩ := f
  simp only [addLead, lexFields, ghostToks_add, List.append_assoc]
  simp [Key.rtok, eqToks]

theorem keyRtokX (k : Scal) (ne : Bool) (tr : Nat) :
    toRTok (TextReader.Lexeme.scalar k.quoted k.bytes).tok = (mkKey k ne tr).rtok := by
  unfold Key.rtok mkKey
  cases hq : k.quoted <;> simp [TextReader.Lexeme.tok, toRTok]

theorem isBraced_of_cont {n : Node} (h : IsCont n) : n.isBraced = true := by
  cases n <;> simp_all [IsCont, Node.isBraced]

theorem lexFields_field (k : Scal) (o : TextDe.Op) (v : Node) (tr : Nat) (r : List (Key × TextDe.Op × Node)) :
    lexFields ((mkKey k false tr, o, v) :: r) = (mkKey k false tr).rtok :: .op o :: (lexNode v ++ (ghostToks tr ++ lexFields r)) := by
  simp [lexFields, mkKey, ghostToks, eqToks]

theorem lexFields_imp (k : Scal) (v : Node) (hb : v.isBraced = true) (tr : Nat) (r : List (Key × TextDe.Op × Node)) :
    lexFields ((mkKey k true tr, .eq, v) :: r) = (mkKey k true tr).rtok :: (lexNode v ++ (ghostToks tr ++ lexFields r)) := by
  simp [lexFields, mkKey, ghostToks, eqToks, hb]

mutual
theorem gitemsV : ∀ (v : JVal), XPlainV v → itemToks (TextReader.itemsV (dV v)) = lexNode (gNode v)
  | .scal g s, _ => by
      simp only [dV, TextReader.itemsV, gNode, lexNode, itemToks_cons, itemToks_nil, scalTok']
  | .empty g gc, _ => by
      simp only [dV, TextReader.itemsV, TextReader.itemsM, gNode, lexNode, lexNodes, itemToks_cons, itemToks_nil,
        itemToks_append, tokOpen, tokClose, List.nil_append, List.cons_append]
  | .obj g g0 k g1 o v rest gc, h => by
      simp only [XPlainV] at h
      simp only [dV, TextReader.itemsV, TextReader.itemsM, gNode, lexNode, lexFields_field, itemToks_cons, itemToks_nil,
        itemToks_append, tokOpen, tokClose, tokOp, keyRtokX k false (gLead rest), gitemsV v h.2.1, gitemsM rest h.2.2,
        List.cons_append, List.append_assoc]
  | .arrS g g0 s0 rest gc, h => by
      simp only [XPlainV] at h
      simp only [dV, TextReader.itemsV, TextReader.itemsM, gNode, lexNode, lexNodes, itemToks_cons, itemToks_nil,
        itemToks_append, tokOpen, tokClose, scalTok', gitemsMs rest h.2, List.cons_append, List.nil_append,
        List.append_assoc]
  | .arrC g first rest gc, h => by
      simp only [XPlainV] at h
      simp only [dV, TextReader.itemsV, TextReader.itemsM, gNode, lexNode, lexNodes, itemToks_cons, itemToks_nil,
        itemToks_append, tokOpen, tokClose, gitemsV first h.1, gitemsMs rest h.2, List.cons_append,
        List.append_assoc]
  | .ghostIn g b1 b2 v, h => by
      simp only [XPlainV] at h
      obtain ⟨f, r, hf⟩ := gNode_xobj v h.1
      have hv := gitemsV v h.2
      rw [dV_braced v h.2 (xobj_braced v h.1), hf] at hv
      simp only [TextReader.itemsV, lexNode, itemToks_cons, itemToks_append, itemToks_nil, tokOpen, tokClose,
        List.cons_append, List.cons.injEq, true_and] at hv
      have hin : itemToks (TextReader.itemsM (dIn v)) = lexFields (f :: r) := by
        have := congrArg List.dropLast hv
        simpa using this
      simp only [dV, TextReader.itemsV, TextReader.itemsM, gNode, hf, addGhost, lexNode, lexFields_addLead, ghostToks,
        itemToks_cons, itemToks_nil, itemToks_append, tokOpen, tokClose, hin, List.cons_append, List.nil_append,
        List.append_assoc]
  | .mixed .., h => by simp [XPlainV] at h
theorem gitemsM : ∀ (fs : JFields), XPlainF fs →
    itemToks (TextReader.itemsM (dM fs)) = ghostToks (gLead fs) ++ lexFields (gFields fs)
  | .nil, _ => by simp only [dM, TextReader.itemsM, gFields, gLead, lexFields, ghostToks, itemToks_nil, List.append_nil]
  | .cons g0 k g1 o v rest, h => by
      simp only [XPlainF] at h
      simp only [dM, TextReader.itemsM, gFields, gLead, ghostToks, lexFields_field, itemToks_cons, itemToks_append, tokOp,
        keyRtokX k false (gLead rest), gitemsV v h.2.1, gitemsM rest h.2.2, List.nil_append]
  | .consImp g0 k v rest, h => by
      simp only [XPlainF] at h
      have hb : (gNode v).isBraced = true := isBraced_of_cont (gbraced_cont v h.2.1 h.1.2)
      simp only [dM, TextReader.itemsM, TextReader.itemsV, gFields, gLead, ghostToks, lexFields_imp _ _ hb, itemToks_cons,
        itemToks_append, itemToks_nil, keyRtokX k true (gLead rest), gitemsV v h.2.1, gitemsM rest h.2.2,
        List.nil_append, List.cons_append]
  | .ghost g gc rest, h => by
      simp only [XPlainF] at h
      simp only [dM, TextReader.itemsM, TextReader.itemsV, gFields, gLead, ghostToks, itemToks_cons, itemToks_append,
        itemToks_nil, tokOpen, tokClose, gitemsM rest h, List.cons_append, List.nil_append]
  | .consHdr g0 k g1 o gh hd body rest, h => by
      simp only [XPlainF] at h
      simp only [dM, TextReader.itemsM, TextReader.itemsV, gFields, gLead, ghostToks, lexFields_field, lexNode, itemToks_cons,
        itemToks_nil, itemToks_append, tokOp, keyRtokX k false (gLead rest), keyTok' hd h.2.1, gitemsV body h.2.2.2.1,
        gitemsM rest h.2.2.2.2, List.cons_append, List.nil_append, List.append_assoc]
  | .paramVal .., h => by simp [XPlainF] at h
  | .paramObj .., h => by simp [XPlainF] at h
theorem gitemsMs : ∀ (vs : JVals), XPlainVs vs → itemToks (TextReader.itemsM (dMs vs)) = lexNodes (gNodes vs)
  | .nil, _ => by simp only [dMs, TextReader.itemsM, gNodes, lexNodes, itemToks_nil]
  | .cons v rest, h => by
      simp only [XPlainVs] at h
      simp only [dMs, TextReader.itemsM, gNodes, lexNodes, itemToks_append, gitemsV v h.1, gitemsMs rest h.2]
end

/-- a document that consists of ghost `{}` only: the reader path skips them and ends as on the empty input -/
theorem deStream_ghosts (enc : TextDe.Enc) (ty : TextDe.Ty) (n : Nat) :
    TextDe.deStream enc ty (ghostToks n) = TextDe.deStream enc ty [] := by
  have hlen : (ghostToks n).length + 1 = n + (n + 1) := by rw [TextDe.ghostToks_len]; omega
  have key : ∀ {σ κ : Type} (K : σ → TextDe.RTok → TextDe.R κ)
      (V : σ → κ → TextDe.RTok → TextDe.Op → List TextDe.RTok → TextDe.R (σ × List TextDe.RTok)) (st : σ),
      TextDe.sMapFold true K V ((ghostToks n).length + 1) (ghostToks n) st = TextDe.sMapFold true K V ([] : List TextDe.RTok).length.succ [] st := by
    intro σ κ K V st
    rw [hlen]
    have := TextDe.sMapFold_ghosts true K V (n + 1) [] st n
    rw [List.append_nil] at this
    rw [this, TextDe.sMapFold_end true K V n [] [] st (Or.inr ⟨rfl, rfl, rfl⟩)]
    exact (TextDe.sMapFold_end true K V 0 [] [] st (Or.inr ⟨rfl, rfl, rfl⟩)).symm
  cases ty <;> simp only [TextDe.deStream, key, List.length_nil]

/-- the reader path on the tokens of a document (its leading ghosts, then its fields): the value of `gDoc fs`; a
document that consists of ghosts only has the value of the empty document -/
theorem deStream_gdoc (enc : TextDe.Enc) (ty : TextDe.Ty) (fs : JFields) (hroot : Ty.isRoot ty = true)
    (hwf : wfFields (gDoc fs) = true) (hfit : Fits enc ty (.obj (gDoc fs))) :
    TextDe.deStream enc ty (ghostToks (gLead fs) ++ lexFields (gFields fs)) = valueOf enc ty (gDoc fs) := by
  have h := TextDe.deStream_eq_valueOf enc ty (gDoc fs) hroot hwf hfit
  simp only [gDoc, lexemes] at h hwf hfit ⊢
  cases hg : gFields fs with
  | nil =>
    rw [hg] at h
    simp only [addLead, lexFields, List.append_nil] at h ⊢
    rw [deStream_ghosts]; exact h
  | cons f r =>
    rw [hg] at h
    rw [lexFields_addLead] at h
    exact h

/-! ### a valid C01 layout of the fragment is a valid reader-safe C07 layout -/

/-- what a value renders to does not begin with `=` -/
theorem gvalue_head (v : JVal) (after : Bytes) (hp : XPlainV v) (hv : JValidV v after) (x : Bytes) :
    ∃ c r, jrenderV v ++ x = c :: r ∧ c ≠ 61 := by
  cases v with
  | scal g s =>
    simp only [XPlainV] at hp; simp only [JValidV] at hv
    simp only [jrenderV, List.append_assoc]
    exact gapped_head g hv.1 _ (scal_headX s hp x)
  | empty g gc =>
    simp only [JValidV] at hv
    simp only [jrenderV, List.append_assoc, List.cons_append]
    exact gapped_head g hv.1 _ ⟨123, _, rfl, by decide⟩
  | obj g g0 k g1 o v' rest gc =>
    simp only [JValidV] at hv
    simp only [jrenderV, List.append_assoc, List.cons_append]
    exact gapped_head g hv.1 _ ⟨123, _, rfl, by decide⟩
  | arrS g g0 s0 rest gc =>
    simp only [JValidV] at hv
    simp only [jrenderV, List.append_assoc, List.cons_append]
    exact gapped_head g hv.1 _ ⟨123, _, rfl, by decide⟩
  | arrC g first rest gc =>
    simp only [JValidV] at hv
    simp only [jrenderV, List.append_assoc, List.cons_append]
    exact gapped_head g hv.1 _ ⟨123, _, rfl, by decide⟩
  | ghostIn g b1 b2 v' =>
    simp only [JValidV] at hv
    simp only [jrenderV, List.append_assoc, List.cons_append]
    exact gapped_head g hv.1 _ ⟨123, _, rfl, by decide⟩
  | mixed g g0 k g1 o v' rest gm m0 elems gc => simp [XPlainV] at hp

mutual
theorem gvalidV : ∀ (v : JVal) (after : Bytes), XPlainV v → JValidV v after → TextReader.ValidVX (dV v) after
  | .scal g s, after, hp, hv => by
      simp only [XPlainV] at hp; simp only [JValidV] at hv
      simp only [dV, TextReader.ValidVX]
      exact ⟨gap_of_blank hv.1, scalValidX s after hp (fun hq => sb_of _ (hv.2.2 hq))⟩
  | .empty g gc, after, _, hv => by
      simp only [JValidV] at hv
      simp only [dV, TextReader.ValidVX, TextReader.ValidMX]
      exact ⟨gap_of_blank hv.1, gap_of_blank hv.2, trivial⟩
  | .obj g g0 k g1 o v rest gc, after, hp, hv => by
      simp only [XPlainV] at hp; simp only [JValidV] at hv
      obtain ⟨hg, hg0, hg1, hgc, _, hkb, hvv, hvr⟩ := hv
      simp only [dV, TextReader.ValidVX, TextReader.ValidMX, grenderV v hp.2.1, grenderM rest hp.2.2, opText_trOp]
      refine ⟨gap_of_blank hg, gap_of_blank hgc, gap_of_blank hg0, gap_of_blank hg1, ?_, ?_, ?_, ?_⟩
      · refine scalValidX k _ hp.1 (fun hq => ?_)
        have := sb_append (g1 ++ o.text) (jrenderV v ++ (jrenderF rest ++ (gc ++ 125 :: after)))
          (by simp [opText_ne]) (hkb hq)
        simpa [List.append_assoc] using this
      · exact opValid o _ (gvalue_head v _ hp.2.1 hvv _)
      · exact gvalidV v _ hp.2.1 hvv
      · exact gvalidM rest _ hp.2.2 hvr
  | .arrS g g0 s0 rest gc, after, hp, hv => by
      simp only [XPlainV] at hp; simp only [JValidV] at hv
      obtain ⟨hg, hg0, hgc, _, hsb, _, hvr⟩ := hv
      simp only [dV, TextReader.ValidVX, TextReader.ValidMX, grenderMs rest hp.2]
      exact ⟨gap_of_blank hg, gap_of_blank hgc, ⟨gap_of_blank hg0, scalValidX s0 _ hp.1 (fun hq => sb_of _ (hsb hq))⟩,
        gvalidMs rest _ hp.2 hvr⟩
  | .arrC g first rest gc, after, hp, hv => by
      simp only [XPlainV] at hp; simp only [JValidV] at hv
      obtain ⟨hg, hgc, _, hvf, hvr⟩ := hv
      simp only [dV, TextReader.ValidVX, TextReader.ValidMX, grenderMs rest hp.2]
      exact ⟨gap_of_blank hg, gap_of_blank hgc, gvalidV first _ hp.1 hvf, gvalidMs rest _ hp.2 hvr⟩
  | .ghostIn g b1 b2 v, after, hp, hv => by
      simp only [XPlainV] at hp; simp only [JValidV] at hv
      obtain ⟨hg, hb1, hb2, hbr, _, hvv⟩ := hv
      have ih := gvalidV v after hp.2 hvv
      rw [dV_braced v hp.2 hbr] at ih
      simp only [TextReader.ValidVX] at ih
      simp only [dV, TextReader.ValidVX, TextReader.ValidMX]
      exact ⟨gap_of_blank hg, ih.2.1, ⟨gap_of_blank hb1, gap_of_blank hb2, trivial⟩, ih.2.2⟩
  | .mixed .., _, hp, _ => by simp [XPlainV] at hp
theorem gvalidM : ∀ (fs : JFields) (after : Bytes), XPlainF fs → JValidF fs after → TextReader.ValidMX (dM fs) after
  | .nil, _, _, _ => by simp [dM, TextReader.ValidMX]
  | .cons g0 k g1 o v rest, after, hp, hv => by
      simp only [XPlainF] at hp; simp only [JValidF] at hv
      obtain ⟨hg0, hg1, _, hkb, hvv, hvr⟩ := hv
      simp only [dM, TextReader.ValidMX, grenderV v hp.2.1, grenderM rest hp.2.2, opText_trOp]
      refine ⟨gap_of_blank hg0, gap_of_blank hg1, ?_, ?_, ?_, ?_⟩
      · refine scalValidX k _ hp.1 (fun hq => ?_)
        have := sb_append (g1 ++ o.text) (jrenderV v ++ (jrenderF rest ++ after)) (by simp [opText_ne]) (hkb hq)
        simpa [List.append_assoc] using this
      · exact opValid o _ (gvalue_head v _ hp.2.1 hvv _)
      · exact gvalidV v _ hp.2.1 hvv
      · exact gvalidM rest _ hp.2.2 hvr
  | .consImp g0 k v rest, after, hp, hv => by
      simp only [XPlainF] at hp; simp only [JValidF] at hv
      obtain ⟨hg0, _, _, hkb, hvv, hvr⟩ := hv
      simp only [dM, TextReader.ValidMX, TextReader.ValidVX, TextReader.renderM, grenderV v hp.2.1, grenderM rest hp.2.2]
      exact ⟨⟨gap_of_blank hg0, scalValidX k _ hp.1.1 (fun hq => by simpa [List.append_assoc] using sb_of _ (hkb hq))⟩, gvalidV v _ hp.2.1 hvv,
        gvalidM rest _ hp.2.2 hvr⟩
  | .ghost g gc rest, after, hp, hv => by
      simp only [XPlainF] at hp; simp only [JValidF] at hv
      simp only [dM, TextReader.ValidMX, TextReader.ValidVX]
      exact ⟨⟨gap_of_blank hv.1, gap_of_blank hv.2.1, trivial⟩, gvalidM rest _ hp hv.2.2⟩
  | .consHdr g0 k g1 o gh hd body rest, after, hp, hv => by
      simp only [XPlainF] at hp; simp only [JValidF] at hv
      obtain ⟨hg0, hg1, hgh, _, hkb, _, _, hsb, _, hvb, hvr⟩ := hv
      simp only [dM, TextReader.ValidMX, TextReader.ValidVX, TextReader.renderV, TextReader.renderM, scalText,
        grenderV body hp.2.2.2.1, grenderM rest hp.2.2.2.2, opText_trOp, List.append_assoc]
      refine ⟨gap_of_blank hg0, gap_of_blank hg1, ?_, ?_, ⟨gap_of_blank hgh, ?_⟩, ?_, ?_⟩
      · refine scalValidX k _ hp.1 (fun hq => ?_)
        have := sb_append (g1 ++ o.text) (gh ++ (hd.text ++ (jrenderV body ++ (jrenderF rest ++ after))))
          (by simp [opText_ne]) (hkb hq)
        simpa [List.append_assoc] using this
      · exact opValid o _ (gapped_head gh hgh _ (scal_head hd hp.2.2.1 _))
      · exact (scalValid hd _ hp.2.2.1 (fun _ => sb_of _ hsb)).toX
      · exact gvalidV body _ hp.2.2.2.1 hvb
      · exact gvalidM rest _ hp.2.2.2.2 hvr
  | .paramVal .., _, hp, _ => by simp [XPlainF] at hp
  | .paramObj .., _, hp, _ => by simp [XPlainF] at hp
theorem gvalidMs : ∀ (vs : JVals) (after : Bytes), XPlainVs vs → JValidVs vs after → TextReader.ValidMX (dMs vs) after
  | .nil, _, _, _ => by simp [dMs, TextReader.ValidMX]
  | .cons v rest, after, hp, hv => by
      simp only [XPlainVs] at hp; simp only [JValidVs] at hv
      simp only [dMs, TextReader.ValidMX, grenderMs rest hp.2]
      exact ⟨gvalidV v _ hp.1 hv.1, gvalidMs rest _ hp.2 hv.2⟩
end

/-! ### from bytes to value on the stream path, and both paths -/

/-- the slice reader model is faithful on every valid layout of the fragment (C07_slice_faithful through the
structural map `dM`): it ends cleanly and yields exactly the document's leading ghosts and the tokens of its fields -/
theorem gsliceLex (fs : JFields) (gt : Bytes) (hgt : Blank gt) (hv : JValidF fs gt)
    (hb : hasBom (jrenderF fs ++ gt) = false) (hp : XPlainF fs) :
    (TextReader.sliceTokens (jrenderF fs ++ gt)).out = .end_ ∧
    (TextReader.sliceTokens (jrenderF fs ++ gt)).toks.map toRTok = ghostToks (gLead fs) ++ lexFields (gFields fs) := by
  have hrm := grenderM fs hp
  obtain ⟨h1, h2, _⟩ := Jomini.Props.C07.C07_slice_faithful_x (dM fs) gt false (gvalidM fs gt hp hv)
    (.gap gt (gap_of_blank hgt)) (fun _ => by rw [hrm]; exact no_bom_clash _ hb)
  simp only [TextReader.bomBytes, Bool.false_eq_true, ↓reduceIte, List.nil_append, hrm] at h1 h2
  refine ⟨h2, ?_⟩
  rw [h1, List.map_map]
  exact gitemsM fs hp

/-- C02 end to end, stream path, full syntax: for every document of the fragment `XPlainF` -- reader-safe scalars,
keys quoted or not, every operator, the `=` left out before a `{`, ghost `{}` in key position (in front of a
key, behind a value, at the start of a nested object), arrays, empty containers, header values --, every
valid layout of it, both encodings and every fitting root type, the tokens the slice reader model produces
from the BYTES deserialize to the value of the layout-free document `gDoc fs`. -/
theorem C02_stream_end_to_end_full (enc : TextDe.Enc) (ty : TextDe.Ty) (fs : JFields) (gt : Bytes)
    (hgt : Blank gt) (hv : JValidF fs gt) (hb : hasBom (jrenderF fs ++ gt) = false) (hp : XPlainF fs)
    (hroot : Ty.isRoot ty = true) (hfit : Fits enc ty (.obj (gDoc fs))) :
    (TextReader.sliceTokens (jrenderF fs ++ gt)).out = .end_ ∧
    TextDe.deStream enc ty ((TextReader.sliceTokens (jrenderF fs ++ gt)).toks.map toRTok) = valueOf enc ty (gDoc fs) := by
  obtain ⟨h1, h2⟩ := gsliceLex fs gt hgt hv hb hp
  exact ⟨h1, by rw [h2]; exact deStream_gdoc enc ty fs hroot (gwfDoc fs gt hp hv) hfit⟩

/-- C02 end to end, both paths from the same BYTES, full syntax: tape path = stream path = the document's
value, for every valid layout of every document of `XPlainF`. -/
theorem C02_paths_end_to_end_full (enc : TextDe.Enc) (ty : TextDe.Ty) (fs : JFields) (gt : Bytes)
    (hgt : Blank gt) (hv : JValidF fs gt) (hb : hasBom (jrenderF fs ++ gt) = false) (hp : XPlainF fs)
    (hroot : Ty.isRoot ty = true) (hfit : FitsT enc false ty (.obj (gDoc fs))) :
    ∃ T b, TextTape.parse (jrenderF fs ++ gt) = .ok T b ∧
      TextDe.deTape enc ty (toTextDeTape T) = valueOf enc ty (gDoc fs) ∧
      TextDe.deStream enc ty ((TextReader.sliceTokens (jrenderF fs ++ gt)).toks.map toRTok) = valueOf enc ty (gDoc fs) := by
  obtain ⟨T, b, h1, h2⟩ := C02_tape_end_to_end_full enc ty fs gt hgt hv hb hp hroot hfit
  exact ⟨T, b, h1, h2, (C02_stream_end_to_end_full enc ty fs gt hgt hv hb hp hroot (TextDe.fitsT_fits enc hfit)).2⟩

/-- … for EVERY root target type (errors included): the same result on both paths, namely `valueOf`, unless the
(type, document) pair contains one of the combinations of `Bad` -/
theorem C02_error_agreement_end_to_end_full (enc : TextDe.Enc) (ty : TextDe.Ty) (fs : JFields) (gt : Bytes)
    (hgt : Blank gt) (hv : JValidF fs gt) (hb : hasBom (jrenderF fs ++ gt) = false) (hp : XPlainF fs)
    (hroot : Ty.isRoot ty = true) :
    (∃ T b, TextTape.parse (jrenderF fs ++ gt) = .ok T b ∧
      TextDe.deTape enc ty (toTextDeTape T) = valueOf enc ty (gDoc fs) ∧
      TextDe.deStream enc ty ((TextReader.sliceTokens (jrenderF fs ++ gt)).toks.map toRTok) = valueOf enc ty (gDoc fs)) ∨
    Bad enc false ty (.obj (gDoc fs)) := by
  rcases TextDe.fitsT_or_bad enc (ty.height + 1) ty false (.obj (gDoc fs)) (Nat.lt_succ_self _) with h | h
  · exact Or.inl (C02_paths_end_to_end_full enc ty fs gt hgt hv hb hp hroot h)
  · exact Or.inr h

/-- … the streaming reader, for every fault-free read schedule and every buffer capacity that fits -/
theorem C02_stream_end_to_end_scheduled_full (enc : TextDe.Enc) (ty : TextDe.Ty) (fs : JFields) (gt : Bytes)
    (cap : Nat) (sched : List TextReader.Step)
    (hgt : Blank gt) (hv : JValidF fs gt) (hb : hasBom (jrenderF fs ++ gt) = false) (hp : XPlainF fs)
    (hw : TextReader.WfSched sched) (hnf : TextReader.NoFaults sched)
    (hcap : TextReader.Spec.need (jrenderF fs ++ gt) ≤ cap)
    (hroot : Ty.isRoot ty = true) (hfit : Fits enc ty (.obj (gDoc fs))) :
    (TextReader.streamTokens cap sched (jrenderF fs ++ gt)).out = .end_ ∧
    TextDe.deStream enc ty ((TextReader.streamTokens cap sched (jrenderF fs ++ gt)).toks.map toRTok)
      = valueOf enc ty (gDoc fs) := by
  obtain ⟨e1, e2, _⟩ := Jomini.Props.C07.C07_stream_eq_slice_fits (jrenderF fs ++ gt) cap sched hw hnf hcap
  obtain ⟨s1, s2⟩ := C02_stream_end_to_end_full enc ty fs gt hgt hv hb hp hroot hfit
  exact ⟨e2.trans s1, by rw [e1]; exact s2⟩

/-- … stated on texttape's FULL document type (`C01_faithful_full`, Spec/TextDocFull.lean): `JFields.toF` embeds the
carrier with the same bytes, so the parse result is the one `C01_faithful_full` describes.  What `FFields` adds beyond
the image of `toF` are mixed containers / arrays that turn mixed and parameter blocks -- outside the document type of
C02, where the two paths differ (`C02_mixed_container_paths_differ`, `C02_parameter_block_paths_differ`) -- and
nested objects whose FIRST field is a header field, which stay out. -/
theorem C02_paths_end_to_end_fdoc (enc : TextDe.Enc) (ty : TextDe.Ty) (fs : JFields) (gt : Bytes)
    (hgt : Blank gt) (hv : JValidF fs gt) (hb : hasBom (frenderF fs.toF ++ gt) = false) (hp : XPlainF fs)
    (hroot : Ty.isRoot ty = true) (hfit : FitsT enc false ty (.obj (gDoc fs))) :
    FValidF fs.toF gt ∧
    ∃ T, TextTape.parse (frenderF fs.toF ++ gt) = .ok T false ∧ T.map Tok.erase = dtapeF fs.toF 0 ∧
      TextDe.deTape enc ty (toTextDeTape T) = valueOf enc ty (gDoc fs) ∧
      TextDe.deStream enc ty ((TextReader.sliceTokens (frenderF fs.toF ++ gt)).toks.map toRTok) = valueOf enc ty (gDoc fs) := by
  have hfv := toF_validF fs gt hv
  obtain ⟨T, hT, hE⟩ := Jomini.Props.C01.C01_faithful_full fs.toF gt hgt hfv hb
  rw [toF_renderF] at hb hT ⊢
  obtain ⟨T', b, h1, h2, h3⟩ := C02_paths_end_to_end_full enc ty fs gt hgt hv hb hp hroot hfit
  rw [hT] at h1
  cases h1
  exact ⟨hfv, T, hT, hE, h2, h3⟩

/-! ### the hypotheses are satisfiable -/

/-- `"a"=@x {} b{ c<2 } d={ {} e=3 {} }` + newline: a quoted key, a variable as a value, a ghost `{}` between fields, the `=` left out
before `{`, an operator, a ghost at the start of a nested object and one behind its last value -/
def exampleFull : JFields :=
  .cons [] ⟨true, [97]⟩ [] .eq (.scal [] ⟨false, [64, 120]⟩)
   (.ghost [32] []
    (.consImp [32] ⟨false, [98]⟩ (.obj [] [32] ⟨false, [99]⟩ [] .lt (.scal [] ⟨false, [50]⟩) .nil [32])
     (.cons [32] ⟨false, [100]⟩ [] .eq
        (.ghostIn [] [32] [] (.obj [] [32] ⟨false, [101]⟩ [] .eq (.scal [] ⟨false, [51]⟩) (.ghost [32] [] .nil) [32]))
      .nil)))

theorem exampleFull_valid : JValidF exampleFull [10] := by
  have hb : ∀ (c : UInt8) (r : Bytes), isBoundary c = true → StartsBoundary (c :: r) := fun c r h => .inr ⟨c, r, rfl, h⟩
  have sp : Blank [32] := .ws 32 [] (by decide +kernel) .nil
  have u : ∀ c : UInt8, isBoundary c = false → isBlank c = false → c ≠ 34 → c ≠ 64 → (Scal.mk false [c]).ValidX :=
    fun c a b d e => .inl (unq_valid c a b d e)
  simp only [exampleFull, JValidF, JValidV, JValidVs, jrenderF, jrenderV, jrenderVs, jinner, Op.text, Scal.text,
    JVal.isContainer, JVal.isBraced, JVal.gap, List.nil_append, List.append_nil, and_true, true_and,
    Bool.false_eq_true, ↓reduceIte, List.cons_append, List.append_assoc, forall_const]
  and_intros
  all_goals first
    | exact .nil
    | exact sp
    | exact hb _ _ (by decide +kernel)
    | (intro _; exact hb _ _ (by decide +kernel))
    | exact u _ (by decide +kernel) (by decide +kernel) (by decide) (by decide)
    | exact .inl (by unfold Scal.Valid; simp only [↓reduceIte]; decide +kernel)
    | exact .inr (.inl ⟨rfl, [120], rfl, by simp, by decide +kernel⟩)

theorem exampleFull_plain : XPlainF exampleFull := by
  have u : ∀ c : UInt8, TextTape.isBoundary c = false → TextTape.isBlank c = false → c ≠ 34 → c ≠ 64 → c ≠ 63 →
      SafeScal (Scal.mk false [c]) := by
    intro c h1 h2 h3 h4 h5
    refine ⟨unq_valid c h1 h2 h3 h4, ?_⟩
    intro _ c' r hc
    simp only [List.cons.injEq] at hc
    rw [← hc.1]; exact h5
  have hq : SafeScal (Scal.mk true [97]) := ⟨by unfold Scal.Valid; simp only [↓reduceIte]; decide +kernel, by simp⟩
  have hvar : SafeScalX (Scal.mk false [64, 120]) :=
    ⟨.inr (.inl ⟨rfl, [120], rfl, by simp, by decide +kernel⟩), fun _ c r h => by simp at h; rw [← h.1]; decide⟩
  have h50 := u 50 (by decide +kernel) (by decide +kernel) (by decide) (by decide) (by decide)
  have h51 := u 51 (by decide +kernel) (by decide +kernel) (by decide) (by decide) (by decide)
  have h98 := u 98 (by decide +kernel) (by decide +kernel) (by decide) (by decide) (by decide)
  have h99 := u 99 (by decide +kernel) (by decide +kernel) (by decide) (by decide) (by decide)
  have h100 := u 100 (by decide +kernel) (by decide +kernel) (by decide) (by decide) (by decide)
  have h101 := u 101 (by decide +kernel) (by decide +kernel) (by decide) (by decide) (by decide)
  simp only [exampleFull, XPlainF, XPlainV, XPlainVs, XObj, JVal.isBraced, hq.toX, hvar, h50.toX, h51.toX, h98.toX, h99.toX,
    h100.toX, h101.toX, and_true, true_and, and_self]


example :
    ∃ T b, TextTape.parse (jrenderF exampleFull ++ [10]) = .ok T b ∧
      TextDe.deTape .utf8 (.map .ign) (toTextDeTape T) = valueOf .utf8 (.map .ign) (gDoc exampleFull) ∧
      TextDe.deStream .utf8 (.map .ign) ((TextReader.sliceTokens (jrenderF exampleFull ++ [10])).toks.map toRTok)
        = valueOf .utf8 (.map .ign) (gDoc exampleFull) ∧
      valueOf .utf8 (.map .ign) (gDoc exampleFull) = .ok (.map [(.str [97], .ign), (.str [98], .ign), (.str [100], .ign)]) ∧
      valueOf .utf8 (.st [([97], .str), ([98], .map (.prop .i64)), ([100], .st [([101], .u8)])]) (gDoc exampleFull)
        = .ok (.st [([97], .str [64, 120]), ([98], .map [(.str [99], .prop .lt (.int 2))]), ([100], .st [([101], .uint 3)])]) := by
  obtain ⟨T, b, h1, h2, h3⟩ := C02_paths_end_to_end_full .utf8 (.map .ign) exampleFull [10]
    (.ws 10 [] (by decide +kernel) .nil) exampleFull_valid (by decide +kernel) exampleFull_plain rfl
    (.map (fun _ _ _ _ => .ign))
  exact ⟨T, b, h1, h2, h3, by rfl, by rfl⟩

/-- a document that consists of ghost `{}` only (`{} {}` + newline) is inside the theorems: both paths return the value
of the empty document -/
example :
    ∃ T b, TextTape.parse ([123, 125, 32, 123, 125] ++ [10]) = .ok T b ∧
      TextDe.deTape .utf8 (.st [([97], .opt .str)]) (toTextDeTape T) = .ok (.st [([97], .none)]) ∧
      TextDe.deStream .utf8 (.st [([97], .opt .str)]) ((TextReader.sliceTokens ([123, 125, 32, 123, 125] ++ [10])).toks.map toRTok)
        = .ok (.st [([97], .none)]) := by
  have sp : Blank [32] := .ws 32 [] (by decide +kernel) .nil
  obtain ⟨T, b, h1, h2, h3⟩ := C02_paths_end_to_end_full .utf8 (.st [([97], .opt .str)]) (.ghost [] [] (.ghost [32] [] .nil)) [10]
    (.ws 10 [] (by decide +kernel) .nil) (by simp only [JValidF]; exact ⟨.nil, .nil, sp, .nil, trivial⟩) (by decide +kernel)
    (by simp [XPlainF]) rfl (.st (fun k o v hm => by simp [gDoc, gFields, addLead] at hm))
  exact ⟨T, b, h1, h2, h3⟩

end Jomini.TextE2E
