import JominiModel.Spec.TextDoc
/-
Helper lemmas for C02: what both deserializer models do with a scalar token under a scalar
target type; struct bookkeeping (missing `Option`s, unknown fields).
-/
namespace Jomini.TextDe
open Jomini Jomini.TextDoc

theorem map_ok {α β ε} (f : α → β) (a : α) : (Except.ok a : Except ε α).map f = .ok (f a) := rfl
theorem map_error {α β ε} (f : α → β) (e : ε) : (Except.error e : Except ε α).map f = .error e := rfl

/-- the value deserializer looks at token `i` (with or without a captured operator) -/
def VK.at (vk : VK) (i : Nat) : Prop := (∃ o, vk = .opval o i) ∨ vk = .value i

macro "stream_leaf" : tactic =>
  `(tactic| (simp only [sde, sLeaf, RTok.asScalar, valueOfScalar, Option.bind]
             split <;> simp_all [Except.map]))

/-- stream path, scalar token, scalar target: the leaf conversion of the spec -/
theorem sde_scalar (enc : Enc) : ∀ (ty : Ty), Ty.isScalarTy ty = true → ∀ (f : Nat), Ty.wrapDepth ty < f →
    ∀ (tok : RTok) (s : Bytes), (tok = .unq s ∨ tok = .quo s) → ∀ (o : Op) (rest : List RTok),
    sde enc f ty tok o rest = (valueOfScalar enc ty s).map (fun v => (v, rest))
  | .bool, _, f + 1, _, tok, s, ht, o, rest => by rcases ht with rfl | rfl <;> stream_leaf
  | .i64, _, f + 1, _, tok, s, ht, o, rest => by rcases ht with rfl | rfl <;> stream_leaf
  | .u64, _, f + 1, _, tok, s, ht, o, rest => by rcases ht with rfl | rfl <;> stream_leaf
  | .i32, _, f + 1, _, tok, s, ht, o, rest => by rcases ht with rfl | rfl <;> stream_leaf
  | .i16, _, f + 1, _, tok, s, ht, o, rest => by rcases ht with rfl | rfl <;> stream_leaf
  | .u16, _, f + 1, _, tok, s, ht, o, rest => by rcases ht with rfl | rfl <;> stream_leaf
  | .i8, _, f + 1, _, tok, s, ht, o, rest => by rcases ht with rfl | rfl <;> stream_leaf
  | .u8, _, f + 1, _, tok, s, ht, o, rest => by rcases ht with rfl | rfl <;> stream_leaf
  | .u32, _, f + 1, _, tok, s, ht, o, rest => by rcases ht with rfl | rfl <;> stream_leaf
  | .f64, _, f + 1, _, tok, s, ht, o, rest => by rcases ht with rfl | rfl <;> stream_leaf
  | .f32, _, f + 1, _, tok, s, ht, o, rest => by rcases ht with rfl | rfl <;> stream_leaf
  | .str, _, f + 1, _, tok, s, ht, o, rest => by
      rcases ht with rfl | rfl <;> simp [sde, sStr, valueOfScalar, Except.map]
  | .any, _, f + 1, _, tok, s, ht, o, rest => by
      rcases ht with rfl | rfl <;> simp [sde, sAny, valueOfScalar, Except.map]
  | .ign, _, f + 1, _, tok, s, ht, o, rest => by
      rcases ht with rfl | rfl <;> simp [sde, valueOfScalar, Except.map]
  | .en vs, _, f + 1, _, tok, s, ht, o, rest => by
      rcases ht with rfl | rfl <;> simp only [sde, sStr, valueOfScalar] <;> split <;> simp_all [Except.map]
  | .opt t, h, f + 1, hf, tok, s, ht, o, rest => by
      have ih := sde_scalar enc t (by simpa [Ty.isScalarTy] using h) f (by simp [Ty.wrapDepth] at hf; omega) tok s ht o rest
      simp only [sde, ih, valueOfScalar]
      cases valueOfScalar enc t s <;> simp [Except.map]

/-- stream path in field position: `Property` captures the operator -/
theorem sde_field (enc : Enc) : ∀ (ty : Ty), Ty.isFieldScalarTy ty = true → ∀ (f : Nat), Ty.wrapDepth ty < f →
    ∀ (tok : RTok) (s : Bytes), (tok = .unq s ∨ tok = .quo s) → ∀ (o : Op) (rest : List RTok),
    sde enc f ty tok o rest = (valueOfField enc ty o s).map (fun v => (v, rest))
  | .prop t, h, f + 1, hf, tok, s, ht, o, rest => by
      have ih := sde_scalar enc t (by simpa [Ty.isFieldScalarTy] using h) f (by simp [Ty.wrapDepth] at hf; omega) tok s ht .eq rest
      simp only [sde, ih, valueOfField]
      cases valueOfScalar enc t s <;> simp [Except.map]
  | .opt t, h, f + 1, hf, tok, s, ht, o, rest => by
      have ih := sde_field enc t (by simpa [Ty.isFieldScalarTy] using h) f (by simp [Ty.wrapDepth] at hf; omega) tok s ht o rest
      simp only [sde, ih, valueOfField]
      cases valueOfField enc t o s <;> simp [Except.map]
  | .bool, h, f, hf, tok, s, ht, o, rest => by simpa [valueOfField] using sde_scalar enc .bool rfl f hf tok s ht o rest
  | .i64, h, f, hf, tok, s, ht, o, rest => by simpa [valueOfField] using sde_scalar enc .i64 rfl f hf tok s ht o rest
  | .u64, h, f, hf, tok, s, ht, o, rest => by simpa [valueOfField] using sde_scalar enc .u64 rfl f hf tok s ht o rest
  | .i32, h, f, hf, tok, s, ht, o, rest => by simpa [valueOfField] using sde_scalar enc .i32 rfl f hf tok s ht o rest
  | .i16, h, f, hf, tok, s, ht, o, rest => by simpa [valueOfField] using sde_scalar enc .i16 rfl f hf tok s ht o rest
  | .u16, h, f, hf, tok, s, ht, o, rest => by simpa [valueOfField] using sde_scalar enc .u16 rfl f hf tok s ht o rest
  | .i8, h, f, hf, tok, s, ht, o, rest => by simpa [valueOfField] using sde_scalar enc .i8 rfl f hf tok s ht o rest
  | .u8, h, f, hf, tok, s, ht, o, rest => by simpa [valueOfField] using sde_scalar enc .u8 rfl f hf tok s ht o rest
  | .u32, h, f, hf, tok, s, ht, o, rest => by simpa [valueOfField] using sde_scalar enc .u32 rfl f hf tok s ht o rest
  | .f64, h, f, hf, tok, s, ht, o, rest => by simpa [valueOfField] using sde_scalar enc .f64 rfl f hf tok s ht o rest
  | .f32, h, f, hf, tok, s, ht, o, rest => by simpa [valueOfField] using sde_scalar enc .f32 rfl f hf tok s ht o rest
  | .str, h, f, hf, tok, s, ht, o, rest => by simpa [valueOfField] using sde_scalar enc .str rfl f hf tok s ht o rest
  | .any, h, f, hf, tok, s, ht, o, rest => by simpa [valueOfField] using sde_scalar enc .any rfl f hf tok s ht o rest
  | .ign, h, f, hf, tok, s, ht, o, rest => by simpa [valueOfField] using sde_scalar enc .ign rfl f hf tok s ht o rest
  | .en vs, h, f, hf, tok, s, ht, o, rest => by simpa [valueOfField] using sde_scalar enc (.en vs) rfl f hf tok s ht o rest

macro "tape_leaf" h:ident : tactic =>
  `(tactic| (simp only [tde, tLeaf, vkReadScalar, tokAt, $h:ident, TTok.asScalar, valueOfScalar, Option.bind]
             split <;> simp_all [shapeFuel, tShape, tokAt]))

/-- tape path, scalar token at index `i`, scalar target: the leaf conversion of the spec -/
theorem tde_scalar (enc : Enc) (toks : List TTok) (i : Nat) (s : Bytes)
    (hq : toks[i]? = some (.unq s) ∨ toks[i]? = some (.quo s)) :
    ∀ (ty : Ty), Ty.isScalarTy ty = true → ∀ (f : Nat), Ty.wrapDepth ty < f →
    ∀ (vk : VK), VK.at vk i → tde enc toks f ty vk = valueOfScalar enc ty s
  | .bool, _, f + 1, _, vk, hv => by rcases hv with ⟨o, rfl⟩ | rfl <;> rcases hq with h | h <;> tape_leaf h
  | .i64, _, f + 1, _, vk, hv => by rcases hv with ⟨o, rfl⟩ | rfl <;> rcases hq with h | h <;> tape_leaf h
  | .u64, _, f + 1, _, vk, hv => by rcases hv with ⟨o, rfl⟩ | rfl <;> rcases hq with h | h <;> tape_leaf h
  | .i32, _, f + 1, _, vk, hv => by rcases hv with ⟨o, rfl⟩ | rfl <;> rcases hq with h | h <;> tape_leaf h
  | .i16, _, f + 1, _, vk, hv => by rcases hv with ⟨o, rfl⟩ | rfl <;> rcases hq with h | h <;> tape_leaf h
  | .u16, _, f + 1, _, vk, hv => by rcases hv with ⟨o, rfl⟩ | rfl <;> rcases hq with h | h <;> tape_leaf h
  | .i8, _, f + 1, _, vk, hv => by rcases hv with ⟨o, rfl⟩ | rfl <;> rcases hq with h | h <;> tape_leaf h
  | .u8, _, f + 1, _, vk, hv => by rcases hv with ⟨o, rfl⟩ | rfl <;> rcases hq with h | h <;> tape_leaf h
  | .u32, _, f + 1, _, vk, hv => by rcases hv with ⟨o, rfl⟩ | rfl <;> rcases hq with h | h <;> tape_leaf h
  | .f64, _, f + 1, _, vk, hv => by rcases hv with ⟨o, rfl⟩ | rfl <;> rcases hq with h | h <;> tape_leaf h
  | .f32, _, f + 1, _, vk, hv => by rcases hv with ⟨o, rfl⟩ | rfl <;> rcases hq with h | h <;> tape_leaf h
  | .str, _, f + 1, _, vk, hv => by
      rcases hv with ⟨o, rfl⟩ | rfl <;> rcases hq with h | h <;>
        simp [tde, tStr, vkReadStr, tokAt, h, TTok.asScalar, valueOfScalar, Except.map]
  | .any, _, f + 1, _, vk, hv => by
      rcases hv with ⟨o, rfl⟩ | rfl <;> rcases hq with h | h <;>
        simp [tde, tAny, tShape, shapeFuel, tokAt, h, valueOfScalar]
  | .ign, _, f + 1, _, vk, hv => by simp [tde, valueOfScalar]
  | .en vs, _, f + 1, _, vk, hv => by
      rcases hv with ⟨o, rfl⟩ | rfl <;> rcases hq with h | h <;>
        simp only [tde, readArray, tokAt, h, tStr, vkReadStr, TTok.asScalar, valueOfScalar, Option.map] <;>
        split <;> simp_all
  | .opt t, h, f + 1, hf, vk, hv => by
      have ih := tde_scalar enc toks i s hq t (by simpa [Ty.isScalarTy] using h) f (by simp [Ty.wrapDepth] at hf; omega) vk hv
      simp only [tde, ih, valueOfScalar]

/-- tape path in field position (`OperatorValue` kind): `Property` captures the operator -/
theorem tde_field (enc : Enc) (toks : List TTok) (i : Nat) (s : Bytes)
    (hq : toks[i]? = some (.unq s) ∨ toks[i]? = some (.quo s)) (o : Op) :
    ∀ (ty : Ty), Ty.isFieldScalarTy ty = true → ∀ (f : Nat), Ty.wrapDepth ty < f →
    tde enc toks f ty (.opval o i) = valueOfField enc ty o s
  | .prop t, h, f + 1, hf => by
      have ih := tde_scalar enc toks i s hq t (by simpa [Ty.isFieldScalarTy] using h) f (by simp [Ty.wrapDepth] at hf; omega) (.value i) (Or.inr rfl)
      simp only [tde, ih, valueOfField]
  | .opt t, h, f + 1, hf => by
      have ih := tde_field enc toks i s hq o t (by simpa [Ty.isFieldScalarTy] using h) f (by simp [Ty.wrapDepth] at hf; omega)
      simp only [tde, ih, valueOfField]
  | .bool, h, f, hf => by simpa [valueOfField] using tde_scalar enc toks i s hq .bool rfl f hf _ (Or.inl ⟨o, rfl⟩)
  | .i64, h, f, hf => by simpa [valueOfField] using tde_scalar enc toks i s hq .i64 rfl f hf _ (Or.inl ⟨o, rfl⟩)
  | .u64, h, f, hf => by simpa [valueOfField] using tde_scalar enc toks i s hq .u64 rfl f hf _ (Or.inl ⟨o, rfl⟩)
  | .i32, h, f, hf => by simpa [valueOfField] using tde_scalar enc toks i s hq .i32 rfl f hf _ (Or.inl ⟨o, rfl⟩)
  | .i16, h, f, hf => by simpa [valueOfField] using tde_scalar enc toks i s hq .i16 rfl f hf _ (Or.inl ⟨o, rfl⟩)
  | .u16, h, f, hf => by simpa [valueOfField] using tde_scalar enc toks i s hq .u16 rfl f hf _ (Or.inl ⟨o, rfl⟩)
  | .i8, h, f, hf => by simpa [valueOfField] using tde_scalar enc toks i s hq .i8 rfl f hf _ (Or.inl ⟨o, rfl⟩)
  | .u8, h, f, hf => by simpa [valueOfField] using tde_scalar enc toks i s hq .u8 rfl f hf _ (Or.inl ⟨o, rfl⟩)
  | .u32, h, f, hf => by simpa [valueOfField] using tde_scalar enc toks i s hq .u32 rfl f hf _ (Or.inl ⟨o, rfl⟩)
  | .f64, h, f, hf => by simpa [valueOfField] using tde_scalar enc toks i s hq .f64 rfl f hf _ (Or.inl ⟨o, rfl⟩)
  | .f32, h, f, hf => by simpa [valueOfField] using tde_scalar enc toks i s hq .f32 rfl f hf _ (Or.inl ⟨o, rfl⟩)
  | .str, h, f, hf => by simpa [valueOfField] using tde_scalar enc toks i s hq .str rfl f hf _ (Or.inl ⟨o, rfl⟩)
  | .any, h, f, hf => by simpa [valueOfField] using tde_scalar enc toks i s hq .any rfl f hf _ (Or.inl ⟨o, rfl⟩)
  | .ign, h, f, hf => by simpa [valueOfField] using tde_scalar enc toks i s hq .ign rfl f hf _ (Or.inl ⟨o, rfl⟩)
  | .en vs, h, f, hf => by simpa [valueOfField] using tde_scalar enc toks i s hq (.en vs) rfl f hf _ (Or.inl ⟨o, rfl⟩)

/-! ### struct bookkeeping -/

/-- what `structFinish` puts at each declared field: the seen value, or `none` for an unseen `Option` -/
def finishEntry (n : Bytes) (t : Ty) (got : Option Val) : Option (Bytes × Val) :=
  match got, t with
  | some v, _ => some (n, v)
  | none, .opt _ => some (n, Val.none)
  | none, _ => none

theorem structFinish_ok : ∀ (fs : List (Bytes × Ty)) (i : Nat) (seen : List (Nat × Val)) (out : List (Bytes × Val)),
    structFinish fs i seen = .ok out →
    out.length = fs.length ∧
    ∀ (k : Nat) (hk : k < fs.length), out[k]? = finishEntry fs[k].1 fs[k].2 (seenGet (i + k) seen)
  | [], i, seen, out, h => by
      simp [structFinish] at h; subst h; simp
  | (n, t) :: rest, i, seen, out, h => by
      simp only [structFinish] at h
      cases hs : seenGet i seen with
      | some v =>
        simp only [hs] at h
        cases hr : structFinish rest (i + 1) seen with
        | error e => simp [hr, Except.map] at h
        | ok tl =>
          simp only [hr, Except.map, Except.ok.injEq] at h
          subst h
          have ih := structFinish_ok rest (i + 1) seen tl hr
          refine ⟨by simp [ih.1], ?_⟩
          intro k hk
          cases k with
          | zero => simp [finishEntry, hs]
          | succ k =>
            have := ih.2 k (by simpa using hk)
            simpa [Nat.add_assoc, Nat.add_comm 1 k] using this
      | none =>
        simp only [hs] at h
        cases t with
        | opt t' =>
          simp only at h
          cases hr : structFinish rest (i + 1) seen with
          | error e => simp [hr, Except.map] at h
          | ok tl =>
            simp only [hr, Except.map, Except.ok.injEq] at h
            subst h
            have ih := structFinish_ok rest (i + 1) seen tl hr
            refine ⟨by simp [ih.1], ?_⟩
            intro k hk
            cases k with
            | zero => simp [finishEntry, hs]
            | succ k =>
              have := ih.2 k (by simpa using hk)
              simpa [Nat.add_assoc, Nat.add_comm 1 k] using this
        | _ => simp at h

end Jomini.TextDe
