/-
The converse of `C04_fits_or_misfit`: a traversal that meets one of the five combinations (`MeetsRoot`) does NOT fit
(`meets_not_fits`), hence the classification is EXACT: `fitsRoot c ty d = true ↔ ¬ ∃ m, MeetsRoot c m ty d`
(`fitsRoot_iff_no_misfit`).  No constructor of `MeetsN / MeetsNs / MeetsMapF / MeetsStructF / MeetsTokF` over-approximates:
every one of them forces the corresponding conjunct of `fits…` to `false`.
-/
import JominiModel.Proofs.BinDeMisfit
set_option linter.unusedSimpArgs false
namespace Jomini.BinDe
open Jomini

mutual
theorem meetsN_not (c : Cfg) (m : Misfit) (n : BNode) (t : Ty) (h : MeetsN c m n t) : fitsN c n t = false := by
  cases n with
  | leaf l => cases h
  | rgb col =>
    cases h with
    | rgbMap hc _ => simp only [fitsN, hc]
    | rgbStruct hc _ => simp only [fitsN, hc]
  | arr vs =>
    cases h with
    | arrMap hc hn _ => simp only [fitsN, hc, hn]
    | arrStruct hc hn _ => simp only [fitsN, hc, hn]
    | inSeq hc h' => simp only [fitsN, hc]; exact meetsNs_not c m vs _ h'
    | inAny hc h' => simp only [fitsN, hc]; exact meetsNs_not c m vs _ h'
  | obj fs =>
    cases h with
    | objAny hc _ => simp only [fitsN, hc]
    | objSeq hc _ => simp only [fitsN, hc]
    | inMap hc h' => simp only [fitsN, hc]; exact meetsMapF_not c m fs _ h'
    | inStruct hc h' => simp only [fitsN, hc]; exact meetsStructF_not c m fs _ h'
theorem meetsNs_not (c : Cfg) (m : Misfit) (vs : BNodes) (et : Ty) (h : MeetsNs c m vs et) : fitsNs c vs et = false := by
  cases vs with
  | nil => cases h
  | cons v rest =>
    cases v with
    | rgb col => simp only [fitsNs]
    | leaf l =>
      cases h with
      | here h1 => cases h1
      | there h' => simp only [fitsNs, meetsNs_not c m rest et h', Bool.and_false]
    | arr ws =>
      cases h with
      | here h1 => simp only [fitsNs, meetsN_not c m (.arr ws) et h1, Bool.false_and]
      | there h' => simp only [fitsNs, meetsNs_not c m rest et h', Bool.and_false]
    | obj fs =>
      cases h with
      | here h1 => simp only [fitsNs, meetsN_not c m (.obj fs) et h1, Bool.false_and]
      | there h' => simp only [fitsNs, meetsNs_not c m rest et h', Bool.and_false]
theorem meetsMapF_not (c : Cfg) (m : Misfit) (fs : BFields) (vt : Ty) (h : MeetsMapF c m fs vt) :
    fitsMapF c fs vt = false := by
  cases fs with
  | nil => cases h
  | cons g k v rest =>
    cases h with
    | here h1 => simp only [fitsMapF, meetsN_not c m v vt h1, Bool.false_and]
    | there h' => simp only [fitsMapF, meetsMapF_not c m rest vt h', Bool.and_false]
theorem meetsStructF_not (c : Cfg) (m : Misfit) (fs : BFields) (decl : Fields) (h : MeetsStructF c m fs decl) :
    fitsStructF c fs decl = false := by
  cases fs with
  | nil => cases h
  | cons g k v rest =>
    cases h with
    | here hwb hg h1 =>
      unfold whichOf at hwb; simp only [binSem] at hwb
      simp only [fitsStructF, hwb, hg, meetsN_not c m v _ h1, Bool.false_and]
    | there h' => simp only [fitsStructF, meetsStructF_not c m rest decl h', Bool.and_false]
end

theorem meetsTokF_not (c : Cfg) (m : Misfit) (fs : BFields) (decl : Fields) (h : MeetsTokF c m fs decl) :
    fitsTokF c fs decl = false := by
  induction h with
  | here hwb hg h1 => simp only [fitsTokF, hwb, hg, meetsN_not c m _ _ h1, Bool.false_and]
  | there _ ih => simp only [fitsTokF, ih, Bool.and_false]

/-- (soundness of the classification) a root request whose traversal meets one of the five combinations does not fit. -/
theorem meets_not_fits (c : Cfg) (m : Misfit) (ty : RootTy) (d : BDoc) (h : MeetsRoot c m ty d) :
    fitsRoot c ty d = false := by
  cases ty with
  | tok decl => exact meetsTokF_not c m d decl h
  | plain t =>
    cases t with
    | map vt => exact meetsMapF_not c m d vt h
    | struct decl => exact meetsStructF_not c m d decl h
    | _ => exact h.elim

/-- (exactness of the classification) a root request fits iff the traversal meets none of the five combinations. -/
theorem fitsRoot_iff_no_misfit (c : Cfg) (ty : RootTy) (d : BDoc) :
    fitsRoot c ty d = true ↔ ¬ ∃ m, MeetsRoot c m ty d := by
  constructor
  · rintro hf ⟨m, hm⟩
    rw [meets_not_fits c m ty d hm] at hf
    exact Bool.false_ne_true hf
  · intro hn
    rcases C04_fits_or_misfit c ty d with h | h
    · exact h
    · exact (hn h).elim

/-- (for concrete derivations) a key resolution read off a computable check: `Res` has no decidable equality. -/
theorem res_some_of_check {r : Res (Option Nat)} {i : Nat}
    (h : (match r with | .ok (some j) => j == i | _ => false) = true) : r = .ok (some i) := by
  cases r with
  | error e => simp at h
  | ok w =>
    cases w with
    | none => simp at h
    | some j => simp at h; simp [h]

end Jomini.BinDe
