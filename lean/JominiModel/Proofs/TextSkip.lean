import JominiModel.Model.TextReader
import JominiModel.Spec.TextReader
import JominiModel.Proofs.SwarReader
/-
C09 (text): `skip_container`'s 8-bytes-at-a-time path is unobservable.
`C09_*` theorems live here so that the coordinator can re-export them from Props/C09.lean.
-/
namespace Jomini.TextReader
open Jomini Jomini.TextReader.Spec Jomini.TextReader.Swar

/-- `count_chunk(w, b)` is the number of bytes of `w` equal to `b`. -/
theorem C09_countChunk_spec (b0 b1 b2 b3 b4 b5 b6 b7 b : UInt8) :
    (countChunk (le64 b0 b1 b2 b3 b4 b5 b6 b7) b).toNat = [b0, b1, b2, b3, b4, b5, b6, b7].count b :=
  countChunk_spec b0 b1 b2 b3 b4 b5 b6 b7 b

example : (countChunk (le64 123 32 123 125 97 123 0 255) 123).toNat = 3 := by decide

/-- bytes that the skipper's `None` state treats as plain or as braces -/
def plainBytes (l : Bytes) : Prop := ∀ x ∈ l, (x == 34) = false ∧ (x == 35) = false

theorem depthAfter_count (l : Bytes) : ∀ (depth : Int), 1 ≤ depth - (l.count 125 : Int) →
    depthAfter l depth = some (depth - (l.count 125 : Int) + (l.count 123 : Int)) := by
  induction l with
  | nil => intro depth _; simp [depthAfter]
  | cons c l ih =>
    intro depth h
    simp only [depthAfter]
    by_cases h1 : (c == 123) = true
    · have hc : c = 123 := by simpa using h1
      subst hc
      have e1 : (123 :: l).count (125 : UInt8) = l.count 125 := by simp [List.count_cons]
      have e2 : (123 :: l).count (123 : UInt8) = l.count 123 + 1 := by simp [List.count_cons]
      rw [e1] at h
      simp only [beq_self_eq_true, if_true]
      rw [ih (depth + 1) (by omega), e1, e2]
      congr 1; push_cast; omega
    · by_cases h2 : (c == 125) = true
      · have hc : c = 125 := by simpa using h2
        subst hc
        have e1 : (125 :: l).count (125 : UInt8) = l.count 125 + 1 := by simp [List.count_cons]
        have e2 : (125 :: l).count (123 : UInt8) = l.count 123 := by simp [List.count_cons]
        rw [e1] at h
        have hne : ¬ (depth - 1 == 0) = true := by
          simp only [beq_iff_eq]; push_cast at h; omega
        simp only [show ((125 : UInt8) == 123) = false by decide, Bool.false_eq_true, if_false, beq_self_eq_true, if_true, hne]
        rw [ih (depth - 1) (by push_cast at h; omega), e1, e2]
        congr 1; push_cast; omega
      · have e1 : (c :: l).count (125 : UInt8) = l.count 125 := by
          simp only [List.count_cons]; simp at h2; simp [h2]
        have e2 : (c :: l).count (123 : UInt8) = l.count 123 := by
          simp only [List.count_cons]; simp at h1; simp [h1]
        rw [e1] at h
        simp only [h1, h2, Bool.false_eq_true, if_false]
        rw [ih depth h, e1, e2]

theorem count_zero_of_not_any (l : Bytes) (b : UInt8) (h : l.any (· == b) = false) : l.count b = 0 := by
  rw [List.count_eq_zero]
  intro hm
  have : l.any (· == b) = true := List.any_eq_true.mpr ⟨b, hm, by simp⟩
  rw [h] at this; simp at this

/-- **the 8-byte chunk step of `skip_container` is eight bytewise steps.**  If `chunkStep` accepts the word
(no `"`, no `#`, and the depth stays ≥ 1 after subtracting all the closes of the chunk) then none of the eight bytes is a
quote or a comment start and walking them one by one from `depth` never closes the container and ends at the
same depth; in particular the chunk path can never skip past the matching close. -/
theorem C09_chunk_eq_bytes (b0 b1 b2 b3 b4 b5 b6 b7 : UInt8) (depth d' : Int)
    (h : chunkStep (le64 b0 b1 b2 b3 b4 b5 b6 b7) depth = some d') :
    plainBytes [b0, b1, b2, b3, b4, b5, b6, b7] ∧ depthAfter [b0, b1, b2, b3, b4, b5, b6, b7] depth = some d' := by
  unfold chunkStep at h
  simp only [containsByte_spec, countChunk_spec] at h
  generalize hl : [b0, b1, b2, b3, b4, b5, b6, b7] = l at h ⊢
  split at h
  · simp at h
  · rename_i hq
    simp only [Bool.or_eq_true, not_or, Bool.not_eq_true] at hq
    have hplain : plainBytes l := by
      intro x hx
      constructor
      · cases hx34 : (x == 34) with
        | false => rfl
        | true =>
          have : l.any (· == 34) = true := List.any_eq_true.mpr ⟨x, hx, hx34⟩
          rw [hq.1] at this; simp at this
      · cases hx35 : (x == 35) with
        | false => rfl
        | true =>
          have : l.any (· == 35) = true := List.any_eq_true.mpr ⟨x, hx, hx35⟩
          rw [hq.2] at this; simp at this
    refine ⟨hplain, ?_⟩
    have hcl : (if l.any (· == 125) = true then ((l.count 125 : Nat) : Int) else 0) = (l.count 125 : Int) := by
      split
      · rfl
      · rename_i hn; simp only [Bool.not_eq_true] at hn; rw [count_zero_of_not_any l 125 hn]; rfl
    have hop : (if l.any (· == 123) = true then ((l.count 123 : Nat) : Int) else 0) = (l.count 123 : Int) := by
      split
      · rfl
      · rename_i hn; simp only [Bool.not_eq_true] at hn; rw [count_zero_of_not_any l 123 hn]; rfl
    simp only [hcl, hop] at h
    split at h
    · simp at h
    · rename_i hd
      simp only [Option.some.injEq] at h
      rw [depthAfter_count l depth (by omega), h]

example : chunkStep (le64 123 32 123 125 97 123 0 255) 2 = some 4 := by decide
example : chunkStep (le64 123 32 123 125 97 123 0 255) 1 = none := by decide

end Jomini.TextReader

namespace Jomini.TextReader
open Jomini Jomini.TextReader.Spec Jomini.TextReader.Swar

theorem drop_cons_info {w : Bytes} {ptr : Nat} {c : UInt8} {tl : Bytes} (h : w.drop ptr = c :: tl) :
    w[ptr]? = some c ∧ w.drop (ptr + 1) = tl ∧ w.length = ptr + 1 + tl.length := by
  have hl := congrArg List.length h
  simp at hl
  refine ⟨?_, ?_, by omega⟩
  · have : (w.drop ptr)[0]? = some c := by rw [h]; rfl
    rw [List.getElem?_drop] at this
    simpa using this
  · have : w.drop (ptr + 1) = (w.drop ptr).drop 1 := by rw [List.drop_drop]
    rw [this, h]; rfl

theorem skipRef_quote_other {c : UInt8} {tl : Bytes} {depth : Int} {ptr : Nat} (hc : ¬(c == 92) = true) :
    skipRef (c :: tl) .quote depth ptr =
      if c != 34 then skipRef tl .quote depth (ptr + 1) else skipRef tl .none depth (ptr + 1) := by
  rcases tl with _ | ⟨x, _ | ⟨d, r⟩⟩ <;> simp [skipRef, hc]

/-- walking plain bytes one at a time from `depth` -/
theorem skipRef_plain (l : Bytes) : ∀ (rest : Bytes) (depth d' : Int) (ptr : Nat), plainBytes l →
    depthAfter l depth = some d' →
    skipRef (l ++ rest) .none depth ptr = skipRef rest .none d' (ptr + l.length) := by
  induction l with
  | nil => intro rest depth d' ptr _ h; simp [depthAfter] at h; subst h; simp
  | cons c l ih =>
    intro rest depth d' ptr hp h
    have hc := hp c (by simp)
    have hp' : plainBytes l := fun x hx => hp x (by simp [hx])
    simp only [depthAfter] at h
    simp only [List.cons_append, skipRef, hc.1, hc.2, Bool.false_eq_true, if_false, List.length_cons]
    have e : ptr + (l.length + 1) = ptr + 1 + l.length := by omega
    split at h
    · rename_i h1; simp only [h1, if_true]; rw [e]; exact ih rest _ _ _ hp' h
    · rename_i h1
      simp only [h1, Bool.false_eq_true, if_false]
      split at h
      · rename_i h2
        simp only [h2, if_true]
        split at h
        · simp at h
        · rename_i h3; simp only [h3, Bool.false_eq_true, if_false]; rw [e]; exact ih rest _ _ _ hp' h
      · rename_i h2; simp only [h2, Bool.false_eq_true, if_false]; rw [e]; exact ih rest _ _ _ hp' h

/-- **the SWAR loop of `skip_container` is unobservable**: on every window, from every state, depth and position,
the model's scan with the 8-bytes-at-a-time path computes exactly what the purely bytewise reference computes
(same stopping point, same state and depth handed to the refill). -/
theorem C09_skipScan_eq_bytewise (w : Bytes) : ∀ (fuel : Nat) (st : SkipSt) (depth : Int) (ptr : Nat),
    ptr ≤ w.length → w.length - ptr + 1 ≤ fuel →
    skipScan w fuel st depth ptr = skipRef (w.drop ptr) st depth ptr := by
  intro fuel
  induction fuel with
  | zero => intro st depth ptr _ h; omega
  | succ f ih =>
    intro st depth ptr hp hf
    cases hd : w.drop ptr with
    | nil =>
      have hlen : ptr = w.length := by
        have := congrArg List.length hd; simp at this; omega
      subst hlen
      cases st with
      | none => simp [skipScan, skipRef]
      | quote => simp [skipScan, skipRef]
      | comment => simp [skipScan, skipRef]
    | cons c tl =>
      obtain ⟨hget, htl, hlen⟩ := drop_cons_info hd
      have hne : ¬ (ptr == w.length) = true := by simp; omega
      have ih1 : ∀ st' depth', skipScan w f st' depth' (ptr + 1) = skipRef tl st' depth' (ptr + 1) := by
        intro st' depth'
        rw [ih st' depth' (ptr + 1) (by omega) (by omega), htl]
      cases st with
      | comment =>
        rw [skipScan]
        simp only [hne, Bool.false_eq_true, if_false, hget, skipRef]
        split <;> exact ih1 _ _
      | quote =>
        rw [skipScan]
        simp only [hne, Bool.false_eq_true, if_false, hget]
        by_cases hc : (c == 92) = true
        · simp only [hc, if_true]
          rcases tl with _ | ⟨x, _ | ⟨d, r'⟩⟩
          · have : w.length - ptr ≤ 2 := by simp at hlen; omega
            simp [this, skipRef, hc]
          · have : w.length - ptr ≤ 2 := by simp at hlen; omega
            simp [this, skipRef, hc]
          · have : ¬ w.length - ptr ≤ 2 := by simp at hlen; omega
            simp only [this, if_false, skipRef, hc, if_true]
            rw [ih .quote depth (ptr + 2) (by simp at hlen; omega) (by omega)]
            have : w.drop (ptr + 2) = d :: r' := by
              have : w.drop (ptr + 2) = (w.drop (ptr + 1)).drop 1 := by rw [List.drop_drop]
              rw [this, htl]; rfl
            rw [this]
        · simp only [hc, Bool.false_eq_true, if_false]
          rw [skipRef_quote_other hc]
          split <;> exact ih1 _ _
      | none =>
        -- the byte step, common to both branches
        have hbyte : (if (ptr == w.length) = true then SkipScan.refill .none depth ptr
            else
              match w[ptr]? with
              | none => SkipScan.ub
              | some val =>
                if val == 123 then skipScan w f .none (depth + 1) (ptr + 1)
                else if val == 125 then
                  if depth - 1 == 0 then .done (ptr + 1) else skipScan w f .none (depth - 1) (ptr + 1)
                else if val == 34 then skipScan w f .quote depth (ptr + 1)
                else if val == 35 then skipScan w f .comment depth (ptr + 1)
                else skipScan w f .none depth (ptr + 1)) = skipRef (c :: tl) .none depth ptr := by
          simp only [hne, Bool.false_eq_true, if_false, hget, skipRef, ih1]
        rw [skipScan]
        by_cases hbig : w.length - ptr > 8
        · simp only [hbig, if_true]
          have hsome : (read64 w ptr).isSome = true := by
            unfold read64; rw [word8_isSome_iff]; simp; omega
          cases hr : read64 w ptr with
          | none => rw [hr] at hsome; simp at hsome
          | some data =>
            simp only [Option.map_some]
            cases hcs : chunkStep data depth with
            | none => simp only; exact hbyte
            | some d' =>
              simp only
              unfold read64 at hr
              obtain ⟨b0, b1, b2, b3, b4, b5, b6, b7, rest, hw, hdata⟩ := word8_some hr
              subst hdata
              obtain ⟨hplain, hdep⟩ := C09_chunk_eq_bytes b0 b1 b2 b3 b4 b5 b6 b7 depth d' hcs
              rw [ih .none d' (ptr + 8) (by omega) (by omega)]
              have hrest : w.drop (ptr + 8) = rest := by
                have : w.drop (ptr + 8) = (w.drop ptr).drop 8 := by rw [List.drop_drop]
                rw [this, hw]; rfl
              rw [hrest, ← hd, hw]
              have := skipRef_plain [b0, b1, b2, b3, b4, b5, b6, b7] rest depth d' ptr hplain hdep
              simpa using this.symm
        · simp only [hbig, if_false]
          exact hbyte

end Jomini.TextReader
