import JominiModel.Model.TextReader
import JominiModel.Spec.TextReader
import JominiModel.Proofs.SwarReader
import JominiModel.Proofs.TextReaderStream
import JominiModel.Proofs.TextFault
/-
C09 (text): `skip_container`'s 8-bytes-at-a-time path is unobservable.
`C09_*` theorems live here so that the coordinator can re-export them from Props/C09.lean.
-/
namespace Jomini.TextReader
open Jomini Jomini.TextReader.Spec Jomini.TextReader.Swar

/-- `count_chunk(w, b)` is the number of bytes of `w` equal to `b`. -/
theorem C09_countChunk_spec (b0 b1 b2 b3 b4 b5 b6 b7 b : UInt8) :
    (countChunk (le64 b0 b1 b2 b3 b4 b5 b6 b7) b).toNat = [b0, b1, b2, b3, b4, b5, b6, b7].count b :=
  countChunk_spec b0 b1 b2 b3 b4 b5 b6 b7 b

example : (countChunk (le64 123 32 123 125 97 123 0 255) 123).toNat = 3 := by decide

/-- bytes that the skipper's `None` state treats as plain or as braces -/
def plainBytes (l : Bytes) : Prop := ∀ x ∈ l, (x == 34) = false ∧ (x == 35) = false

theorem depthAfter_count (l : Bytes) : ∀ (depth : Int), 1 ≤ depth - (l.count 125 : Int) →
    depthAfter l depth = some (depth - (l.count 125 : Int) + (l.count 123 : Int)) := by
  induction l with
  | nil => intro depth _; simp [depthAfter]
  | cons c l ih =>
    intro depth h
    simp only [depthAfter]
    by_cases h1 : (c == 123) = true
    · have hc : c = 123 := by simpa using h1
      subst hc
      have e1 : (123 :: l).count (125 : UInt8) = l.count 125 := by simp [List.count_cons]
      have e2 : (123 :: l).count (123 : UInt8) = l.count 123 + 1 := by simp [List.count_cons]
      rw [e1] at h
      simp only [beq_self_eq_true, if_true]
      rw [ih (depth + 1) (by omega), e1, e2]
      congr 1; push_cast; omega
    · by_cases h2 : (c == 125) = true
      · have hc : c = 125 := by simpa using h2
        subst hc
        have e1 : (125 :: l).count (125 : UInt8) = l.count 125 + 1 := by simp [List.count_cons]
        have e2 : (125 :: l).count (123 : UInt8) = l.count 123 := by simp [List.count_cons]
        rw [e1] at h
        have hne : ¬ (depth - 1 == 0) = true := by
          simp only [beq_iff_eq]; push_cast at h; omega
        simp only [show ((125 : UInt8) == 123) = false by decide, Bool.false_eq_true, if_false, beq_self_eq_true, if_true, hne]
        rw [ih (depth - 1) (by push_cast at h; omega), e1, e2]
        congr 1; push_cast; omega
      · have e1 : (c :: l).count (125 : UInt8) = l.count 125 := by
          simp only [List.count_cons]; simp at h2; simp [h2]
        have e2 : (c :: l).count (123 : UInt8) = l.count 123 := by
          simp only [List.count_cons]; simp at h1; simp [h1]
        rw [e1] at h
        simp only [h1, h2, Bool.false_eq_true, if_false]
        rw [ih depth h, e1, e2]

theorem count_zero_of_not_any (l : Bytes) (b : UInt8) (h : l.any (· == b) = false) : l.count b = 0 := by
  rw [List.count_eq_zero]
  intro hm
  have : l.any (· == b) = true := List.any_eq_true.mpr ⟨b, hm, by simp⟩
  rw [h] at this; simp at this

/-- **the 8-byte chunk step of `skip_container` is eight bytewise steps.**  If `chunkStep` accepts the word
(no `"`, no `#`, and the depth stays ≥ 1 after subtracting all the closes of the chunk) then none of the eight bytes is a
quote or a comment start and walking them one by one from `depth` never closes the container and ends at the
same depth; in particular the chunk path can never skip past the matching close. -/
theorem C09_chunk_eq_bytes (b0 b1 b2 b3 b4 b5 b6 b7 : UInt8) (depth d' : Int)
    (h : chunkStep (le64 b0 b1 b2 b3 b4 b5 b6 b7) depth = some d') :
    plainBytes [b0, b1, b2, b3, b4, b5, b6, b7] ∧ depthAfter [b0, b1, b2, b3, b4, b5, b6, b7] depth = some d' := by
  unfold chunkStep at h
  simp only [containsByte_spec, countChunk_spec] at h
  generalize hl : [b0, b1, b2, b3, b4, b5, b6, b7] = l at h ⊢
  split at h
  · simp at h
  · rename_i hq
    simp only [Bool.or_eq_true, not_or, Bool.not_eq_true] at hq
    have hplain : plainBytes l := by
      intro x hx
      constructor
      · cases hx34 : (x == 34) with
        | false => rfl
        | true =>
          have : l.any (· == 34) = true := List.any_eq_true.mpr ⟨x, hx, hx34⟩
          rw [hq.1] at this; simp at this
      · cases hx35 : (x == 35) with
        | false => rfl
        | true =>
          have : l.any (· == 35) = true := List.any_eq_true.mpr ⟨x, hx, hx35⟩
          rw [hq.2] at this; simp at this
    refine ⟨hplain, ?_⟩
    have hcl : (if l.any (· == 125) = true then ((l.count 125 : Nat) : Int) else 0) = (l.count 125 : Int) := by
      split
      · rfl
      · rename_i hn; simp only [Bool.not_eq_true] at hn; rw [count_zero_of_not_any l 125 hn]; rfl
    have hop : (if l.any (· == 123) = true then ((l.count 123 : Nat) : Int) else 0) = (l.count 123 : Int) := by
      split
      · rfl
      · rename_i hn; simp only [Bool.not_eq_true] at hn; rw [count_zero_of_not_any l 123 hn]; rfl
    simp only [hcl, hop] at h
    split at h
    · simp at h
    · rename_i hd
      simp only [Option.some.injEq] at h
      rw [depthAfter_count l depth (by omega), h]

example : chunkStep (le64 123 32 123 125 97 123 0 255) 2 = some 4 := by decide
example : chunkStep (le64 123 32 123 125 97 123 0 255) 1 = none := by decide

end Jomini.TextReader

namespace Jomini.TextReader
open Jomini Jomini.TextReader.Spec Jomini.TextReader.Swar

theorem drop_cons_info {w : Bytes} {ptr : Nat} {c : UInt8} {tl : Bytes} (h : w.drop ptr = c :: tl) :
    w[ptr]? = some c ∧ w.drop (ptr + 1) = tl ∧ w.length = ptr + 1 + tl.length := by
  have hl := congrArg List.length h
  simp at hl
  refine ⟨?_, ?_, by omega⟩
  · have : (w.drop ptr)[0]? = some c := by rw [h]; rfl
    rw [List.getElem?_drop] at this
    simpa using this
  · have : w.drop (ptr + 1) = (w.drop ptr).drop 1 := by rw [List.drop_drop]
    rw [this, h]; rfl

theorem skipRef_quote_other {c : UInt8} {tl : Bytes} {depth : Int} {ptr : Nat} (hc : ¬(c == 92) = true) :
    skipRef (c :: tl) .quote depth ptr =
      if c != 34 then skipRef tl .quote depth (ptr + 1) else skipRef tl .none depth (ptr + 1) := by
  rcases tl with _ | ⟨x, _ | ⟨d, r⟩⟩ <;> simp [skipRef, hc]

/-- walking plain bytes one at a time from `depth` -/
theorem skipRef_plain (l : Bytes) : ∀ (rest : Bytes) (depth d' : Int) (ptr : Nat), plainBytes l →
    depthAfter l depth = some d' →
    skipRef (l ++ rest) .none depth ptr = skipRef rest .none d' (ptr + l.length) := by
  induction l with
  | nil => intro rest depth d' ptr _ h; simp [depthAfter] at h; subst h; simp
  | cons c l ih =>
    intro rest depth d' ptr hp h
    have hc := hp c (by simp)
    have hp' : plainBytes l := fun x hx => hp x (by simp [hx])
    simp only [depthAfter] at h
    simp only [List.cons_append, skipRef, hc.1, hc.2, Bool.false_eq_true, if_false, List.length_cons]
    have e : ptr + (l.length + 1) = ptr + 1 + l.length := by omega
    split at h
    · rename_i h1; simp only [h1, if_true]; rw [e]; exact ih rest _ _ _ hp' h
    · rename_i h1
      simp only [h1, Bool.false_eq_true, if_false]
      split at h
      · rename_i h2
        simp only [h2, if_true]
        split at h
        · simp at h
        · rename_i h3; simp only [h3, Bool.false_eq_true, if_false]; rw [e]; exact ih rest _ _ _ hp' h
      · rename_i h2; simp only [h2, Bool.false_eq_true, if_false]; rw [e]; exact ih rest _ _ _ hp' h

/-- **the SWAR loop of `skip_container` is unobservable**: on every window, from every state, depth and position,
the model's scan with the 8-bytes-at-a-time path computes exactly what the purely bytewise reference computes
(same stopping point, same state and depth handed to the refill). -/
theorem C09_skipScan_eq_bytewise (w : Bytes) : ∀ (fuel : Nat) (st : SkipSt) (depth : Int) (ptr : Nat),
    ptr ≤ w.length → w.length - ptr + 1 ≤ fuel →
    skipScan w fuel st depth ptr = skipRef (w.drop ptr) st depth ptr := by
  intro fuel
  induction fuel with
  | zero => intro st depth ptr _ h; omega
  | succ f ih =>
    intro st depth ptr hp hf
    cases hd : w.drop ptr with
    | nil =>
      have hlen : ptr = w.length := by
        have := congrArg List.length hd; simp at this; omega
      subst hlen
      cases st with
      | none => simp [skipScan, skipRef]
      | quote => simp [skipScan, skipRef]
      | comment => simp [skipScan, skipRef]
    | cons c tl =>
      obtain ⟨hget, htl, hlen⟩ := drop_cons_info hd
      have hne : ¬ (ptr == w.length) = true := by simp; omega
      have ih1 : ∀ st' depth', skipScan w f st' depth' (ptr + 1) = skipRef tl st' depth' (ptr + 1) := by
        intro st' depth'
        rw [ih st' depth' (ptr + 1) (by omega) (by omega), htl]
      cases st with
      | comment =>
        rw [skipScan]
        simp only [hne, Bool.false_eq_true, if_false, hget, skipRef]
        split <;> exact ih1 _ _
      | quote =>
        rw [skipScan]
        simp only [hne, Bool.false_eq_true, if_false, hget]
        by_cases hc : (c == 92) = true
        · simp only [hc, if_true]
          rcases tl with _ | ⟨x, _ | ⟨d, r'⟩⟩
          · have : w.length - ptr ≤ 2 := by simp at hlen; omega
            simp [this, skipRef, hc]
          · have : w.length - ptr ≤ 2 := by simp at hlen; omega
            simp [this, skipRef, hc]
          · have : ¬ w.length - ptr ≤ 2 := by simp at hlen; omega
            simp only [this, if_false, skipRef, hc, if_true]
            rw [ih .quote depth (ptr + 2) (by simp at hlen; omega) (by omega)]
            have : w.drop (ptr + 2) = d :: r' := by
              have : w.drop (ptr + 2) = (w.drop (ptr + 1)).drop 1 := by rw [List.drop_drop]
              rw [this, htl]; rfl
            rw [this]
        · simp only [hc, Bool.false_eq_true, if_false]
          rw [skipRef_quote_other hc]
          split <;> exact ih1 _ _
      | none =>
        -- the byte step, common to both branches
        have hbyte : (if (ptr == w.length) = true then SkipScan.refill .none depth ptr
            else
              match w[ptr]? with
              | none => SkipScan.ub
              | some val =>
                if val == 123 then skipScan w f .none (depth + 1) (ptr + 1)
                else if val == 125 then
                  if depth - 1 == 0 then .done (ptr + 1) else skipScan w f .none (depth - 1) (ptr + 1)
                else if val == 34 then skipScan w f .quote depth (ptr + 1)
                else if val == 35 then skipScan w f .comment depth (ptr + 1)
                else skipScan w f .none depth (ptr + 1)) = skipRef (c :: tl) .none depth ptr := by
          simp only [hne, Bool.false_eq_true, if_false, hget, skipRef, ih1]
        rw [skipScan]
        by_cases hbig : w.length - ptr > 8
        · simp only [hbig, if_true]
          have hsome : (read64 w ptr).isSome = true := by
            unfold read64; rw [word8_isSome_iff]; simp; omega
          cases hr : read64 w ptr with
          | none => rw [hr] at hsome; simp at hsome
          | some data =>
            simp only [Option.map_some]
            cases hcs : chunkStep data depth with
            | none => simp only; exact hbyte
            | some d' =>
              simp only
              unfold read64 at hr
              obtain ⟨b0, b1, b2, b3, b4, b5, b6, b7, rest, hw, hdata⟩ := word8_some hr
              subst hdata
              obtain ⟨hplain, hdep⟩ := C09_chunk_eq_bytes b0 b1 b2 b3 b4 b5 b6 b7 depth d' hcs
              rw [ih .none d' (ptr + 8) (by omega) (by omega)]
              have hrest : w.drop (ptr + 8) = rest := by
                have : w.drop (ptr + 8) = (w.drop ptr).drop 8 := by rw [List.drop_drop]
                rw [this, hw]; rfl
              rw [hrest, ← hd, hw]
              have := skipRef_plain [b0, b1, b2, b3, b4, b5, b6, b7] rest depth d' ptr hplain hdep
              simpa using this.symm
        · simp only [hbig, if_false]
          exact hbyte

end Jomini.TextReader

namespace Jomini.TextReader
open Jomini Jomini.TextReader.Spec Jomini.TextReader.Swar

/-! ### the bytewise reference as a left-to-right state machine -/

def shiftSS (k : Nat) : SkipScan → SkipScan
  | .done p => .done (p + k)
  | .refill st d p => .refill st d (p + k)
  | x => x

theorem skipRef_quote_bs {c : UInt8} {tl : Bytes} {depth : Int} {ptr : Nat} (hc : (c == 92) = true) :
    skipRef (c :: tl) .quote depth ptr =
      match tl with
      | [] => .refill .quote depth ptr
      | [_] => .refill .quote depth ptr
      | _ :: e :: r => skipRef (e :: r) .quote depth (ptr + 2) := by
  rcases tl with _ | ⟨x, _ | ⟨d, r⟩⟩ <;> simp [skipRef, hc]

theorem skipRef_none_cons (c : UInt8) (rest : Bytes) (depth : Int) (ptr : Nat) :
    skipRef (c :: rest) .none depth ptr =
      if c == 123 then skipRef rest .none (depth + 1) (ptr + 1)
      else if c == 125 then
        if depth - 1 == 0 then .done (ptr + 1) else skipRef rest .none (depth - 1) (ptr + 1)
      else if c == 34 then skipRef rest .quote depth (ptr + 1)
      else if c == 35 then skipRef rest .comment depth (ptr + 1)
      else skipRef rest .none depth (ptr + 1) := by
  rcases rest with _ | ⟨x, _ | ⟨d, r⟩⟩ <;> simp [skipRef]

theorem skipRef_comment_cons (c : UInt8) (rest : Bytes) (depth : Int) (ptr : Nat) :
    skipRef (c :: rest) .comment depth ptr =
      if c == 10 then skipRef rest .none depth (ptr + 1) else skipRef rest .comment depth (ptr + 1) := by
  rcases rest with _ | ⟨x, _ | ⟨d, r⟩⟩ <;> simp [skipRef]

theorem skipRef_nil (st : SkipSt) (depth : Int) (ptr : Nat) : skipRef [] st depth ptr = .refill st depth ptr := by
  cases st <;> simp [skipRef]

theorem skipRef_shift (k : Nat) (n : Nat) : ∀ (l : Bytes) (st : SkipSt) (depth : Int) (ptr : Nat), l.length ≤ n →
    skipRef l st depth (ptr + k) = shiftSS k (skipRef l st depth ptr) := by
  induction n with
  | zero =>
    intro l st depth ptr hl
    have : l = [] := List.eq_nil_of_length_eq_zero (by omega)
    subst this; simp [skipRef_nil, shiftSS]
  | succ n ih =>
    intro l st depth ptr hl
    cases l with
    | nil => simp [skipRef_nil, shiftSS]
    | cons c rest =>
      have hr : rest.length ≤ n := by simp at hl; omega
      have e : ptr + k + 1 = (ptr + 1) + k := by omega
      cases st with
      | none =>
        simp only [skipRef_none_cons, e]
        split; · exact ih rest _ _ _ hr
        split
        · split
          · simp [shiftSS]
          · exact ih rest _ _ _ hr
        split; · exact ih rest _ _ _ hr
        split; · exact ih rest _ _ _ hr
        exact ih rest _ _ _ hr
      | comment =>
        simp only [skipRef_comment_cons, e]
        split <;> exact ih rest _ _ _ hr
      | quote =>
        by_cases hc : (c == 92) = true
        · simp only [skipRef_quote_bs hc]
          rcases rest with _ | ⟨x, _ | ⟨d, r⟩⟩
          · simp [shiftSS]
          · simp [shiftSS]
          · simp only
            have e2 : ptr + k + 2 = (ptr + 2) + k := by omega
            rw [e2]; exact ih (d :: r) _ _ _ (by simp at hr ⊢; omega)
        · simp only [skipRef_quote_other hc, e]
          split <;> exact ih rest _ _ _ hr

/-- where a scan that ran out of bytes stopped: inside the list, at most two bytes before its end -/
theorem skipRef_refill_bounds (n : Nat) : ∀ (l : Bytes) (st : SkipSt) (depth : Int) (ptr : Nat) (st' : SkipSt) (d' : Int) (p : Nat),
    l.length ≤ n → skipRef l st depth ptr = .refill st' d' p → ptr ≤ p ∧ p ≤ ptr + l.length ∧ ptr + l.length ≤ p + 2 := by
  induction n with
  | zero =>
    intro l st depth ptr st' d' p hl h
    have : l = [] := List.eq_nil_of_length_eq_zero (by omega)
    subst this; simp [skipRef_nil] at h; omega
  | succ n ih =>
    intro l st depth ptr st' d' p hl h
    cases l with
    | nil => simp [skipRef_nil] at h; simp; omega
    | cons c rest =>
      have hr : rest.length ≤ n := by simp at hl; omega
      have fin : ∀ {st0 : SkipSt} {d0 : Int}, skipRef rest st0 d0 (ptr + 1) = .refill st' d' p →
          ptr ≤ p ∧ p ≤ ptr + (c :: rest).length ∧ ptr + (c :: rest).length ≤ p + 2 := by
        intro st0 d0 hh
        have := ih rest st0 d0 (ptr + 1) st' d' p hr hh
        simp; omega
      cases st with
      | none =>
        rw [skipRef_none_cons] at h
        split at h; · exact fin h
        split at h
        · split at h
          · simp at h
          · exact fin h
        split at h; · exact fin h
        split at h; · exact fin h
        exact fin h
      | comment =>
        rw [skipRef_comment_cons] at h
        split at h <;> exact fin h
      | quote =>
        by_cases hc : (c == 92) = true
        · rw [skipRef_quote_bs hc] at h
          rcases rest with _ | ⟨x, _ | ⟨d, r⟩⟩
          · simp at h; simp; omega
          · simp at h; simp; omega
          · simp only at h
            have := ih (d :: r) .quote depth (ptr + 2) st' d' p (by simp at hr ⊢; omega) h
            simp at this ⊢; omega
        · rw [skipRef_quote_other hc] at h
          split at h <;> exact fin h

/-- **refilling loses nothing**: scanning `w ++ b` is scanning `w` and, if that runs out of bytes at `p` in state
`(st', d')`, continuing on the not yet consumed bytes of `w` followed by `b`. -/
theorem skipRef_append (b : Bytes) (n : Nat) : ∀ (w : Bytes) (st : SkipSt) (depth : Int) (ptr : Nat), w.length ≤ n →
    skipRef (w ++ b) st depth ptr =
      match skipRef w st depth ptr with
      | .done p => .done p
      | .refill st' d' p => skipRef (w.drop (p - ptr) ++ b) st' d' p
      | x => x := by
  induction n with
  | zero =>
    intro w st depth ptr hl
    have : w = [] := List.eq_nil_of_length_eq_zero (by omega)
    subst this; simp [skipRef_nil]
  | succ n ih =>
    intro w st depth ptr hl
    cases w with
    | nil => simp [skipRef_nil]
    | cons c rest =>
      have hr : rest.length ≤ n := by simp at hl; omega
      -- one byte consumed, then the induction hypothesis
      have step : ∀ (st0 : SkipSt) (d0 : Int),
          skipRef (rest ++ b) st0 d0 (ptr + 1) =
            match skipRef rest st0 d0 (ptr + 1) with
            | .done p => .done p
            | .refill st' d' p => skipRef ((c :: rest).drop (p - ptr) ++ b) st' d' p
            | x => x := by
        intro st0 d0
        rw [ih rest st0 d0 (ptr + 1) hr]
        cases hs : skipRef rest st0 d0 (ptr + 1) with
        | done p => rfl
        | refill st' d' p =>
          have := skipRef_refill_bounds _ rest st0 d0 (ptr + 1) st' d' p (Nat.le_refl _) hs
          simp only
          have e : p - ptr = (p - (ptr + 1)) + 1 := by omega
          rw [e]; rfl
        | ub => rfl
        | fuel => rfl
      cases st with
      | none =>
        simp only [List.cons_append, skipRef_none_cons]
        split; · exact step _ _
        split
        · split
          · rfl
          · exact step _ _
        split; · exact step _ _
        split; · exact step _ _
        exact step _ _
      | comment =>
        simp only [List.cons_append, skipRef_comment_cons]
        split <;> exact step _ _
      | quote =>
        by_cases hc : (c == 92) = true
        · rcases rest with _ | ⟨x, _ | ⟨d, r⟩⟩
          · simp [skipRef_quote_bs hc]
          · simp [skipRef_quote_bs hc]
          · simp only [List.cons_append, skipRef_quote_bs hc]
            rw [show d :: (r ++ b) = (d :: r) ++ b by rfl, ih (d :: r) .quote depth (ptr + 2) (by simp at hr ⊢; omega)]
            cases hs : skipRef (d :: r) .quote depth (ptr + 2) with
            | done p => rfl
            | refill st' d' p =>
              have := skipRef_refill_bounds _ (d :: r) .quote depth (ptr + 2) st' d' p (Nat.le_refl _) hs
              simp only
              have e : p - ptr = (p - (ptr + 2)) + 2 := by omega
              rw [e]; rfl
            | ub => rfl
            | fuel => rfl
        · simp only [List.cons_append, skipRef_quote_other hc]
          split <;> exact step _ _

end Jomini.TextReader

namespace Jomini.TextReader
open Jomini Jomini.TextReader.Spec Jomini.TextReader.Swar

theorem skipRef_done_bounds (n : Nat) : ∀ (l : Bytes) (st : SkipSt) (depth : Int) (ptr p : Nat),
    l.length ≤ n → skipRef l st depth ptr = .done p → ptr < p ∧ p ≤ ptr + l.length := by
  induction n with
  | zero =>
    intro l st depth ptr p hl h
    have : l = [] := List.eq_nil_of_length_eq_zero (by omega)
    subst this; simp [skipRef_nil] at h
  | succ n ih =>
    intro l st depth ptr p hl h
    cases l with
    | nil => simp [skipRef_nil] at h
    | cons c rest =>
      have hr : rest.length ≤ n := by simp at hl; omega
      have fin : ∀ {st0 : SkipSt} {d0 : Int}, skipRef rest st0 d0 (ptr + 1) = .done p →
          ptr < p ∧ p ≤ ptr + (c :: rest).length := by
        intro st0 d0 hh
        have := ih rest st0 d0 (ptr + 1) p hr hh
        simp; omega
      cases st with
      | none =>
        rw [skipRef_none_cons] at h
        split at h; · exact fin h
        split at h
        · split at h
          · simp at h; subst h; simp
          · exact fin h
        split at h; · exact fin h
        split at h; · exact fin h
        exact fin h
      | comment =>
        rw [skipRef_comment_cons] at h
        split at h <;> exact fin h
      | quote =>
        by_cases hc : (c == 92) = true
        · rw [skipRef_quote_bs hc] at h
          rcases rest with _ | ⟨x, _ | ⟨d, r⟩⟩
          · simp at h
          · simp at h
          · simp only at h
            have := ih (d :: r) .quote depth (ptr + 2) p (by simp at hr ⊢; omega) h
            simp at this ⊢; omega
        · rw [skipRef_quote_other hc] at h
          split at h <;> exact fin h

/-- what `skip_container` must return according to the bytewise reference over the whole remaining input `d` -/
def SkipOut (res : Res Unit) (cap pos : Nat) (bom : Bom) (d : Bytes) (st : SkipSt) (depth : Int) : Prop :=
  match skipRef d st depth 0 with
  | .done p => ∃ r', res = .ok r' () ∧ Rel r' (pos + p) bom (d.drop p) ∧ r'.cap = cap
  | .refill _ _ _ => ∃ r', res = .err r' .eof
  | _ => True

/-- **`skip_container` under every schedule**: with a slice reader or a buffer of at least three bytes (the scan carries
at most a backslash and the byte after it across a refill), the streamed skip either reports an I/O error of the `Read`,
or it does exactly what the bytewise reference does on the whole remaining input: it stops right after the matching
close (reader related to the rest), or reports `Eof` when the input ends first. -/
theorem skipLoop_spec (n : Nat) : ∀ (r : Reader) (pos : Nat) (bom : Bom) (d : Bytes) (st : SkipSt) (depth : Int) (fuel : Nat),
    r.src.rest.length ≤ n → Rel r pos bom d → n + 1 ≤ fuel →
    (∃ r', skipLoop fuel r st depth 0 = .err r' .io) ∨
    (∃ r', skipLoop fuel r st depth 0 = .err r' .full ∧ r.cap ≠ 0 ∧ r.cap ≤ 2) ∨
    SkipOut (skipLoop fuel r st depth 0) r.cap pos bom d st depth := by
  induction n with
  | zero =>
    intro r pos bom d st depth fuel hn hrel hfuel
    obtain ⟨f, rfl⟩ : ∃ f, fuel = f + 1 := ⟨fuel - 1, by omega⟩
    have he : r.src.rest = [] := List.eq_nil_of_length_eq_zero (by omega)
    have hd : d = r.win := by rw [← hrel.data, he]; simp
    have hscan : skipScan r.win (r.win.length + 2) st depth 0 = skipRef r.win st depth 0 := by
      have := C09_skipScan_eq_bytewise r.win (r.win.length + 2) st depth 0 (Nat.zero_le _) (by omega)
      simpa using this
    rw [skipLoop, hscan]
    unfold SkipOut
    rw [hd]
    cases hs : skipRef r.win st depth 0 with
    | done p =>
      right; right
      have hb := skipRef_done_bounds _ r.win st depth 0 p (Nat.le_refl _) hs
      obtain ⟨r', ha, hrel', _, _, hc'⟩ := hrel.advance p (by omega)
      simp only [ha]
      rw [hd] at hrel'
      exact ⟨r', rfl, hrel', hc'⟩
    | refill st' d' p =>
      have hb := skipRef_refill_bounds _ r.win st depth 0 st' d' p (Nat.le_refl _) hs
      obtain ⟨r0, ha, hrel0, hw0, hs0, hc0⟩ := hrel.advance p (by omega)
      simp only [ha]
      have hrest0 : r0.src.rest = [] := by rw [hs0]; exact he
      rcases hrel0.fill with ⟨rio, hf, _⟩ | ⟨hf, h1, h2⟩ | ⟨_, r1, hf, _⟩ | ⟨hne, _⟩
      · left; rw [hf]; exact ⟨rio, rfl⟩
      · right; left
        have : r0.win.length ≤ 2 := by rw [hw0]; simp; omega
        rw [hf]
        exact ⟨r0, rfl, by rw [← hc0]; exact h1, by rw [← hc0]; omega⟩
      · right; right; rw [hf]; exact ⟨r1, rfl⟩
      · exact absurd hrest0 hne
    | ub => right; right; trivial
    | fuel => right; right; trivial
  | succ n ih =>
    intro r pos bom d st depth fuel hn hrel hfuel
    obtain ⟨f, rfl⟩ : ∃ f, fuel = f + 1 := ⟨fuel - 1, by omega⟩
    have hd : d = r.win ++ r.src.rest := hrel.data.symm
    have hscan : skipScan r.win (r.win.length + 2) st depth 0 = skipRef r.win st depth 0 := by
      have := C09_skipScan_eq_bytewise r.win (r.win.length + 2) st depth 0 (Nat.zero_le _) (by omega)
      simpa using this
    have happ := skipRef_append r.src.rest _ r.win st depth 0 (Nat.le_refl _)
    rw [← hd] at happ
    rw [skipLoop, hscan]
    unfold SkipOut
    cases hs : skipRef r.win st depth 0 with
    | done p =>
      right; right
      rw [hs] at happ
      simp only at happ
      rw [happ]
      have hb := skipRef_done_bounds _ r.win st depth 0 p (Nat.le_refl _) hs
      obtain ⟨r', ha, hrel', _, _, hc'⟩ := hrel.advance p (by omega)
      simp only [ha]
      exact ⟨r', rfl, hrel', hc'⟩
    | refill st' d' p =>
      rw [hs] at happ
      simp only [Nat.sub_zero] at happ
      have hb := skipRef_refill_bounds _ r.win st depth 0 st' d' p (Nat.le_refl _) hs
      obtain ⟨r0, ha, hrel0, hw0, hs0, hc0⟩ := hrel.advance p (by omega)
      simp only [ha]
      have hdp : d.drop p = r.win.drop p ++ r.src.rest := by rw [hd, List.drop_append_of_le_length (by omega)]
      rw [hdp] at hrel0
      rcases hrel0.fill with ⟨rio, hf, _⟩ | ⟨hf, h1, h2⟩ | ⟨he0, r1, hf, _⟩ | ⟨hne, r1, k, hf, hrel1, hk, hw1, hr1, hc1, _⟩
      · left; rw [hf]; exact ⟨rio, rfl⟩
      · right; left
        have : r0.win.length ≤ 2 := by rw [hw0]; simp; omega
        rw [hf]
        exact ⟨r0, rfl, by rw [← hc0]; exact h1, by rw [← hc0]; omega⟩
      · right; right
        rw [hf]
        have he : r.src.rest = [] := by rw [← hs0]; exact he0
        have : d = r.win := by rw [hd, he]; simp
        rw [this, hs]
        exact ⟨r1, rfl⟩
      · rw [hf]
        simp only
        rw [hs0] at hk hr1
        have hl1 : r1.src.rest.length ≤ n := by rw [hr1]; simp; omega
        rcases ih r1 (pos + p) bom _ st' d' f hl1 hrel1 (by omega) with hio | ⟨rf, hfl, hf1, hf2⟩ | hok
        · left; exact hio
        · right; left; exact ⟨rf, hfl, by rw [← hc0, ← hc1]; exact hf1, by rw [← hc0, ← hc1]; exact hf2⟩
        · right; right
          rw [happ]
          have hsh := skipRef_shift p _ (r.win.drop p ++ r.src.rest) st' d' 0 (Nat.le_refl _)
          simp only [Nat.zero_add] at hsh
          rw [hsh]
          unfold SkipOut at hok
          cases hx : skipRef (r.win.drop p ++ r.src.rest) st' d' 0 with
          | done q =>
            rw [hx] at hok
            simp only [shiftSS] at hok ⊢
            obtain ⟨r', h1, h2, h3⟩ := hok
            refine ⟨r', h1, ?_, by rw [h3, hc1, hc0]⟩
            have e1 : pos + (q + p) = pos + p + q := by omega
            have e2 : d.drop (q + p) = (r.win.drop p ++ r.src.rest).drop q := by
              rw [← hdp, List.drop_drop]; congr 1; omega
            rw [e1, e2]; exact h2
          | refill a b c => rw [hx] at hok; simpa [shiftSS] using hok
          | ub => simp [shiftSS]
          | fuel => simp [shiftSS]
    | ub => right; right; rw [hs] at happ; simp only at happ; rw [happ]; trivial
    | fuel => right; right; rw [hs] at happ; simp only at happ; rw [happ]; trivial

end Jomini.TextReader

namespace Jomini.TextReader
open Jomini Jomini.TextReader.Spec Jomini.TextReader.Swar

/-! ### the bytewise reference against reading tokens and counting opens and closes -/

/-- bytes the skipper's `None` state gives a meaning to -/
def skipSpecial (x : UInt8) : Bool := x == 123 || x == 125 || x == 34 || x == 35

/-- a token whose bytes the byte-level skipper reads the way the tokenizer does: an unquoted scalar (or `@[…]`) must not
contain `{`, `}`, `"` or `#` -/
def skipSafeTok : Token → Bool
  | .unquoted b => b.all (fun x => !skipSpecial x)
  | _ => true

/-- **the reference the property names**: read tokens with the reference lexer and count opens and closes; the result is
the offset (from the start of `d`) just after the close that brings the depth to 0.  `none`: the input ends first, a
token is not skip-safe, or `n` tokens were not enough. -/
def balancedSkip : Nat → Nat → Bom → Bytes → Int → Option Nat
  | 0, _, _, _, _ => none
  | n + 1, pos, bom, d, depth =>
    match specStep (pos == 0) bom d with
    | some (.tok adv t b') =>
      if !skipSafeTok t then none
      else
        match t with
        | .open_ => (balancedSkip n (pos + adv) b' (d.drop adv) (depth + 1)).map (· + adv)
        | .close =>
          if depth - 1 == 0 then some adv
          else (balancedSkip n (pos + adv) b' (d.drop adv) (depth - 1)).map (· + adv)
        | _ => (balancedSkip n (pos + adv) b' (d.drop adv) depth).map (· + adv)
    | _ => none

theorem skipRef_plain_run (l rest : Bytes) (depth : Int) (ptr : Nat) (h : ∀ x ∈ l, skipSpecial x = false) :
    skipRef (l ++ rest) .none depth ptr = skipRef rest .none depth (ptr + l.length) := by
  induction l generalizing ptr with
  | nil => simp
  | cons c l ih =>
    have hc := h c (by simp)
    simp only [skipSpecial, Bool.or_eq_false_iff] at hc
    simp only [List.cons_append, skipRef_none_cons, hc.1.1.1, hc.1.1.2, hc.1.2, hc.2, Bool.false_eq_true, if_false]
    rw [ih (ptr + 1) (fun x hx => h x (by simp [hx]))]
    simp; congr 1; omega

theorem skipRef_comment_run (a rest : Bytes) (depth : Int) (ptr : Nat) (ha : ∀ x ∈ a, (x == 10) = false) :
    skipRef (a ++ 10 :: rest) .comment depth ptr = skipRef rest .none depth (ptr + a.length + 1) := by
  induction a generalizing ptr with
  | nil => simp [skipRef_comment_cons]
  | cons c a ih =>
    have hc := ha c (by simp)
    simp only [List.cons_append, skipRef_comment_cons, hc, Bool.false_eq_true, if_false]
    rw [ih (ptr + 1) (fun x hx => ha x (by simp [hx]))]
    simp; congr 1; omega

theorem blank_not_special (c : UInt8) (h : isBlank c = true) : skipSpecial c = false := by
  unfold isBlank at h; unfold skipSpecial
  simp only [Bool.or_eq_true, beq_iff_eq] at h
  rcases h with (((h | h) | h) | h) | h <;> subst h <;> decide

/-- what the tokenizer skips between tokens, the skipper passes in its `None` state at the same depth -/
theorem Skips.skipRef {pos0 : Bool} {pre : Bytes} {i : Nat} {bom bom' : Bom} (h : Skips pos0 pre i bom bom')
    (x : Bytes) (depth : Int) (ptr : Nat) :
    TextReader.Spec.skipRef (pre ++ x) .none depth ptr = TextReader.Spec.skipRef x .none depth (ptr + pre.length) := by
  induction h generalizing ptr with
  | nil => simp
  | @blank c pre i bom bom' hb _ ih =>
    have hc := blank_not_special c hb
    simp only [skipSpecial, Bool.or_eq_false_iff] at hc
    simp only [List.cons_append, skipRef_none_cons, hc.1.1.1, hc.1.1.2, hc.1.2, hc.2, Bool.false_eq_true, if_false]
    rw [ih]; simp; congr 1; omega
  | @comment a pre i bom bom' ha _ ih =>
    simp only [List.cons_append, skipRef_none_cons]
    simp only [show ((35 : UInt8) == 123) = false by decide, show ((35 : UInt8) == 125) = false by decide,
      show ((35 : UInt8) == 34) = false by decide, Bool.false_eq_true, if_false, beq_self_eq_true, if_true, List.append_assoc, List.cons_append]
    rw [skipRef_comment_run a _ depth (ptr + 1) ha, ih]
    simp; congr 1; omega
  | @bom pre bom' _ _ ih =>
    have := skipRef_plain_run [0xef, 0xbb, 0xbf] (pre ++ x) depth ptr (by intro y hy; simp at hy; rcases hy with rfl | rfl | rfl <;> decide)
    simp only [List.cons_append, List.nil_append] at this
    simp only [List.cons_append]
    rw [this, ih]; simp; congr 1; omega

/-- a quoted scalar: the skipper's `Quote` state finds the closing quote the tokenizer finds -/
theorem skipRef_quoted (n0 : Nat) : ∀ (tl : Bytes) (n : Nat) (depth : Int) (ptr i : Nat), tl.length ≤ n0 →
    quoteEnd tl i = some n →
    skipRef tl .quote depth ptr = skipRef (tl.drop (n - i + 1)) .none depth (ptr + (n - i) + 1) := by
  induction n0 with
  | zero =>
    intro tl n depth ptr i hl h
    have : tl = [] := List.eq_nil_of_length_eq_zero (by omega)
    subst this; simp [quoteEnd] at h
  | succ n0 ih =>
    intro tl n depth ptr i hl h
    cases tl with
    | nil => simp [quoteEnd] at h
    | cons c rest =>
      have hr : rest.length ≤ n0 := by simp at hl; omega
      by_cases hc : (c == 92) = true
      · rcases rest with _ | ⟨x, r⟩
        · rw [quoteEnd_bs1 hc] at h; simp at h
        · rw [quoteEnd_bs2 hc] at h
          have hb := quoteEnd_bounds h
          rcases r with _ | ⟨e, r'⟩
          · simp [quoteEnd] at h
          · rw [skipRef_quote_bs hc]
            simp only
            have := ih (e :: r') n depth (ptr + 2) (i + 2) (by simp at hr ⊢; omega) h
            rw [this]
            have e1 : n - i + 1 = (n - (i + 2) + 1) + 2 := by omega
            have e2 : ptr + 2 + (n - (i + 2)) + 1 = ptr + (n - i) + 1 := by omega
            rw [e1, e2]; rfl
      · by_cases hq : (c != 34) = true
        · rw [quoteEnd_other hc hq] at h
          have hb := quoteEnd_bounds h
          rw [skipRef_quote_other hc]
          simp only [hq, if_true]
          have := ih rest n depth (ptr + 1) (i + 1) hr h
          rw [this]
          have e1 : n - i + 1 = (n - (i + 1) + 1) + 1 := by omega
          have e2 : ptr + 1 + (n - (i + 1)) + 1 = ptr + (n - i) + 1 := by omega
          rw [e1, e2]; rfl
        · rw [quoteEnd_quote hc hq] at h
          simp only [Option.some.injEq] at h
          subst h
          rw [skipRef_quote_other hc]
          simp only [hq, Bool.false_eq_true, if_false]
          simp

end Jomini.TextReader

namespace Jomini.TextReader
open Jomini Jomini.TextReader.Spec Jomini.TextReader.Swar

/-- effect of one token on the skipper: continue on `rest` at offset `q` -/
def stepResult (t : Token) (depth : Int) (rest : Bytes) (q : Nat) : SkipScan :=
  match t with
  | .open_ => skipRef rest .none (depth + 1) q
  | .close => if depth - 1 == 0 then .done q else skipRef rest .none (depth - 1) q
  | _ => skipRef rest .none depth q

theorem skip_take (l : Bytes) (m : Nat) (depth : Int) (p : Nat) (hsafe : ∀ x ∈ l.take m, skipSpecial x = false) (hm : m ≤ l.length) :
    skipRef l .none depth p = skipRef (l.drop m) .none depth (p + m) := by
  have := skipRef_plain_run (l.take m) (l.drop m) depth p hsafe
  rw [List.take_append_drop] at this
  rw [this]; simp; congr 1; omega

theorem unqTok_skip {c : UInt8} {tl : Bytes} {i adv : Nat} {t : Token} (depth : Int) (p : Nat)
    (h : unqTok c tl i = .tok adv t) (hs : skipSafeTok t = true) :
    i < adv ∧ adv ≤ i + 1 + tl.length ∧
    skipRef (c :: tl) .none depth p = stepResult t depth ((c :: tl).drop (adv - i)) (p + (adv - i)) := by
  unfold unqTok at h
  cases hf : findIdx isBoundary tl 0 with
  | none => rw [hf] at h; simp at h
  | some k =>
    rw [hf] at h
    simp only [Scan.tok.injEq] at h
    obtain ⟨rfl, rfl⟩ := h
    have hb := findIdx_some_bounds hf
    refine ⟨by omega, by omega, ?_⟩
    simp only [skipSafeTok, List.all_eq_true, Bool.not_eq_true'] at hs
    have e : i + 1 + k - i = 1 + k := by omega
    rw [e]
    simp only [stepResult]
    exact skip_take (c :: tl) (1 + k) depth p hs (by simp; omega)

theorem tokenAt_skip {c : UInt8} {tl : Bytes} {i adv : Nat} {t : Token} (depth : Int) (p : Nat)
    (h : tokenAt c tl i = .tok adv t) (hs : skipSafeTok t = true) :
    i < adv ∧ adv ≤ i + 1 + tl.length ∧
    skipRef (c :: tl) .none depth p = stepResult t depth ((c :: tl).drop (adv - i)) (p + (adv - i)) := by
  unfold tokenAt at h
  split at h
  · rename_i hc
    simp only [Scan.tok.injEq] at h; obtain ⟨rfl, rfl⟩ := h
    refine ⟨by omega, by omega, ?_⟩
    simp [skipRef_none_cons, hc, stepResult]
  split at h
  · rename_i h1 hc
    simp only [Scan.tok.injEq] at h; obtain ⟨rfl, rfl⟩ := h
    refine ⟨by omega, by omega, ?_⟩
    have h1' : (c == 123) = false := by simpa using h1
    simp [skipRef_none_cons, h1', hc, stepResult]
  split at h
  · rename_i h1 h2 hc
    unfold quoteTok at h
    cases hq : quoteScan tl 0 with
    | more _ _ => rw [hq] at h; simp at h
    | closed n =>
      rw [hq] at h
      simp only [Scan.tok.injEq] at h; obtain ⟨rfl, rfl⟩ := h
      have he := quoteScan_closed hq
      have hb := quoteEnd_bounds he
      refine ⟨by omega, by omega, ?_⟩
      have h1' : (c == 123) = false := by simpa using h1
      have h2' : (c == 125) = false := by simpa using h2
      simp only [skipRef_none_cons, h1', h2', hc, Bool.false_eq_true, if_false, if_true, stepResult]
      rw [skipRef_quoted _ tl n depth (p + 1) 0 (Nat.le_refl _) he]
      have e : i + 1 + n + 1 - i = (n + 1) + 1 := by omega
      rw [e]
      simp only [Nat.sub_zero, List.drop_succ_cons]
      congr 1; omega
  -- every remaining arm consumes bytes that are plain for the skipper
  have hop2 : ∀ {a b : Op}, opTok2 a b tl i = .tok adv t → skipSpecial c = false →
      i < adv ∧ adv ≤ i + 1 + tl.length ∧
      skipRef (c :: tl) .none depth p = stepResult t depth ((c :: tl).drop (adv - i)) (p + (adv - i)) := by
    intro a b h hc
    unfold opTok2 at h
    cases tl with
    | nil => simp at h
    | cons d r =>
      simp only at h
      split at h
      · simp only [Scan.tok.injEq] at h; obtain ⟨rfl, rfl⟩ := h
        refine ⟨by omega, by simp, ?_⟩
        have e : i + 1 - i = 1 := by omega
        rw [e]; simp only [stepResult]
        exact skip_take (c :: d :: r) 1 depth p (by simp [hc]) (by simp)
      · rename_i hd
        simp only [Scan.tok.injEq] at h; obtain ⟨rfl, rfl⟩ := h
        refine ⟨by omega, by simp; omega, ?_⟩
        have e : i + 2 - i = 2 := by omega
        rw [e]; simp only [stepResult]
        have hd61 : d = 61 := by simpa using hd
        exact skip_take (c :: d :: r) 2 depth p (by subst hd61; intro x hx; simp at hx; rcases hx with rfl | rfl; exact hc; decide) (by simp)
  have hop1 : ∀ {o : Op}, opTok1 o tl i = .tok adv t → skipSpecial c = false →
      i < adv ∧ adv ≤ i + 1 + tl.length ∧
      skipRef (c :: tl) .none depth p = stepResult t depth ((c :: tl).drop (adv - i)) (p + (adv - i)) := by
    intro o h hc
    unfold opTok1 at h
    cases tl with
    | nil => simp at h
    | cons d r =>
      simp only at h
      split at h
      · rename_i hd
        simp only [Scan.tok.injEq] at h; obtain ⟨rfl, rfl⟩ := h
        refine ⟨by omega, by simp; omega, ?_⟩
        have e : i + 2 - i = 2 := by omega
        rw [e]; simp only [stepResult]
        have hd61 : d = 61 := by simpa using hd
        exact skip_take (c :: d :: r) 2 depth p (by subst hd61; intro x hx; simp at hx; rcases hx with rfl | rfl; exact hc; decide) (by simp)
      · simp only [Scan.tok.injEq] at h; obtain ⟨rfl, rfl⟩ := h
        refine ⟨by omega, by simp, ?_⟩
        have e : i + 1 - i = 1 := by omega
        rw [e]; simp only [stepResult]
        exact skip_take (c :: d :: r) 1 depth p (by simp [hc]) (by simp)
  split at h
  · -- '@'
    unfold atTok at h
    cases tl with
    | nil => simp at h
    | cons d r =>
      simp only at h
      split at h
      · cases hf : findIdx (· == 93) r 0 with
        | none => rw [hf] at h; simp at h
        | some k =>
          rw [hf] at h
          simp only [Scan.tok.injEq] at h; obtain ⟨rfl, rfl⟩ := h
          have hb := findIdx_some_bounds hf
          refine ⟨by omega, by simp; omega, ?_⟩
          simp only [skipSafeTok, List.all_eq_true, Bool.not_eq_true'] at hs
          have e : i + 2 + k + 1 - i = 2 + k + 1 := by omega
          rw [e]; simp only [stepResult]
          exact skip_take (c :: d :: r) (2 + k + 1) depth p hs (by simp; omega)
      · exact unqTok_skip depth p h hs
  split at h; · rename_i hc; exact hop2 h (by rw [eq_of_beq hc]; decide)
  split at h; · rename_i hc; exact hop2 h (by rw [eq_of_beq hc]; decide)
  split at h; · rename_i hc; exact hop1 h (by rw [eq_of_beq hc]; decide)
  split at h; · rename_i hc; exact hop1 h (by rw [eq_of_beq hc]; decide)
  split at h; · rename_i hc; exact hop2 h (by rw [eq_of_beq hc]; decide)
  exact unqTok_skip depth p h hs

end Jomini.TextReader

namespace Jomini.TextReader
open Jomini Jomini.TextReader.Spec Jomini.TextReader.Swar

/-- the reference step sees a token start `c` after the skipped prefix `pre` -/
theorem interp_token_skip {pre tl : Bytes} {c : UInt8} {bomR b' : Bom} {adv : Nat} {t : Token} (depth : Int)
    (h35 : (c == 35) = false)
    (h : interp (pre ++ c :: tl) (bomR, tokenAt c tl pre.length) = some (.tok adv t b'))
    (hs : skipSafeTok t = true) :
    skipRef (c :: tl) .none depth pre.length = stepResult t depth ((pre ++ c :: tl).drop adv) adv := by
  have hlen : (pre ++ c :: tl).length = pre.length + 1 + tl.length := by simp; omega
  cases htok : tokenAt c tl pre.length with
  | bomFill => exact absurd htok (tokenAt_not_bomFill _ _ _)
  | tok adv' t' =>
    rw [htok] at h
    simp only [interp, Option.some.injEq, Step1.tok.injEq] at h
    obtain ⟨rfl, rfl, _⟩ := h
    obtain ⟨h1, h2, h3⟩ := tokenAt_skip depth pre.length htok hs
    rw [h3]
    have e1 : pre.length + (adv' - pre.length) = adv' := by omega
    have e2 : (pre ++ c :: tl).drop adv' = (c :: tl).drop (adv' - pre.length) := by
      rw [List.drop_append]; simp; omega
    rw [e1, e2]
  | refill st carry off =>
    rw [htok] at h
    rcases tokenAt_refill htok with ⟨rfl, hc, _⟩ | ⟨rfl, _, _⟩ | ⟨rfl, _, hc, _, _⟩
    · exfalso
      subst hc
      simp only [interp] at h
      have hne : (tl.length + 1 == 0) = false := by simp
      simp only [hne, Bool.false_eq_true, if_false] at h
      have hd : (pre ++ c :: tl).drop ((pre ++ c :: tl).length - (tl.length + 1)) = c :: tl := by
        rw [hlen]; have : pre.length + 1 + tl.length - (tl.length + 1) = pre.length := by omega
        rw [this]; simp
      rw [hd] at h
      simp [h35] at h
    · simp [interp] at h
    · subst hc
      simp only [interp, Option.some.injEq, Step1.tok.injEq] at h
      obtain ⟨rfl, rfl, _⟩ := h
      have hd : (pre ++ c :: tl).drop ((pre ++ c :: tl).length - (tl.length + 1)) = c :: tl := by
        rw [hlen]; have : pre.length + 1 + tl.length - (tl.length + 1) = pre.length := by omega
        rw [this]; simp
      rw [hd] at hs ⊢
      simp only [skipSafeTok, List.all_eq_true, Bool.not_eq_true'] at hs
      simp only [stepResult, List.drop_length]
      have := skip_take (c :: tl) (c :: tl).length depth pre.length (by rw [List.take_length]; exact hs) (Nat.le_refl _)
      rw [this, hlen]; simp; congr 1; omega

/-- **one token, the tokenizer's view and the skipper's view**: if the reference step reads the skip-safe token `t`
consuming `adv` bytes, the bytewise skipper passes exactly those bytes and has counted `t`. -/
theorem specStep_skip {pos0 : Bool} {bom b' : Bom} {d : Bytes} {adv : Nat} {t : Token} (depth : Int)
    (h : specStep pos0 bom d = some (.tok adv t b')) (hs : skipSafeTok t = true) :
    skipRef d .none depth 0 = stepResult t depth (d.drop adv) adv := by
  obtain ⟨pre, tail, bom_s, rfl, hsk, ht⟩ := decompose pos0 d.length d 0 bom (Nat.le_refl _)
  simp only [Nat.zero_add] at ht
  rw [hsk.skipRef, Nat.zero_add]
  unfold specStep at h
  rw [hsk.fbLoop, Nat.zero_add] at h
  rcases fbLoop_tail ht with ⟨rfl, h1⟩ | ⟨a, rfl, h1⟩ | ⟨c, tl, bomR, rfl, h35, _, h1⟩ | ⟨tl, rfl, hlt, hbc, h1⟩
  · rw [h1] at h; simp [interp] at h
  · rw [h1] at h
    simp only [interp] at h
    have hne : ((35 :: a).length == 0) = false := by simp
    simp only [hne, Bool.false_eq_true, if_false] at h
    have hd : (pre ++ 35 :: a).drop ((pre ++ 35 :: a).length - (35 :: a).length) = 35 :: a := by simp
    rw [hd] at h
    simp at h
  · have h1' := h1 []
    simp only [List.append_nil] at h1'
    rw [h1'] at h
    have hnb := tokenAt_not_bomFill c tl pre.length
    have h' : interp (pre ++ c :: tl) (bomR, tokenAt c tl pre.length) = some (.tok adv t b') := by
      cases htk : tokenAt c tl pre.length with
      | bomFill => exact absurd htk hnb
      | tok _ _ => rw [htk] at h; exact h
      | refill _ _ _ => rw [htk] at h; exact h
    exact interp_token_skip depth h35 h' hs
  · -- fewer than three bytes starting with 0xEF: not a BOM, the scan with the BOM ruled out decides
    obtain ⟨_, hbu, hj, hp⟩ := hbc
    have hpre : pre = [] := List.eq_nil_of_length_eq_zero hj
    subst hpre
    rw [h1] at h
    simp only [List.nil_append] at h ⊢
    have hnbc : ¬BomCheck pos0 0xef 0 .notPresent := by simp [BomCheck]
    have hfN := fbLoop_token (pos0 := pos0) (r := tl) (j := 0) (bom := .notPresent) (c := 0xef) (by decide) (by decide) hnbc
    rw [hfN] at h
    have h' : interp (([] : Bytes) ++ 0xef :: tl) (bomAfter 0xef .notPresent, tokenAt 0xef tl ([] : Bytes).length) = some (.tok adv t b') := by
      simpa using h
    have := interp_token_skip (pre := []) depth (by decide) h' hs
    simpa using this

/-- **reading tokens and counting opens and closes = the bytewise skipper**: if token counting over skip-safe tokens
finds the matching close and lands at offset `q`, the bytewise reference stops exactly there. -/
theorem balancedSkip_skipRef (n : Nat) : ∀ (pos : Nat) (bom : Bom) (d : Bytes) (depth : Int) (q : Nat),
    balancedSkip n pos bom d depth = some q → skipRef d .none depth 0 = .done q := by
  induction n with
  | zero => intro pos bom d depth q h; simp [balancedSkip] at h
  | succ n ih =>
    intro pos bom d depth q h
    rw [balancedSkip] at h
    cases hsp : specStep (pos == 0) bom d with
    | none => rw [hsp] at h; simp at h
    | some st =>
      rw [hsp] at h
      cases st with
      | end_ _ => simp at h
      | eof _ _ => simp at h
      | tok adv t b' =>
        simp only at h
        by_cases hs : skipSafeTok t = true
        · simp only [hs, Bool.not_true, Bool.false_eq_true, if_false] at h
          rw [specStep_skip depth hsp hs]
          have cont : ∀ depth', (balancedSkip n (pos + adv) b' (d.drop adv) depth').map (· + adv) = some q →
              skipRef (d.drop adv) .none depth' adv = .done q := by
            intro depth' hh
            cases hb : balancedSkip n (pos + adv) b' (d.drop adv) depth' with
            | none => rw [hb] at hh; simp at hh
            | some q' =>
              rw [hb] at hh
              simp only [Option.map_some, Option.some.injEq] at hh
              have := ih _ _ _ _ _ hb
              have hsh := skipRef_shift adv _ (d.drop adv) .none depth' 0 (Nat.le_refl _)
              simp only [Nat.zero_add] at hsh
              rw [hsh, this]; simp [shiftSS, hh]
          cases t with
          | open_ => simp only [stepResult]; exact cont _ h
          | close =>
            simp only [stepResult]
            by_cases hz : (depth - 1 == 0) = true
            · simp only [hz, if_true, Option.some.injEq] at h ⊢; rw [h]
            · simp only [hz, Bool.false_eq_true, if_false] at h ⊢; exact cont _ h
          | op o => simp only [stepResult]; exact cont _ h
          | unquoted b => simp only [stepResult]; exact cont _ h
          | quoted b => simp only [stepResult]; exact cont _ h
        · simp [hs] at h

/-- **C09 (text), `skip_container` lands exactly after the matching close.**  Let the reader be related to the remaining
input `d` (it has just returned the `Open` token), the schedule fault-free, the reader a slice reader or its buffer at
least three bytes.  If reading tokens with the reference lexer and counting opens and closes — over skip-safe tokens:
quoted scalars may contain anything (braces, escapes, `#`), comments may contain anything, unquoted scalars and `@[…]`
contain no `{ } " #` — reaches the matching close at offset `q`, then `skip_container` succeeds and leaves the reader
related to `d.drop q`, i.e. at exactly the token that follows the matching close, under every read schedule.

EXCLUSION (`skipSafeTok`, built into `balancedSkip`): the skipped tokens contain no unquoted scalar with a `"` inside and no
`@[…]` expression with `{ } " #` inside.  This is exactly the complement of two RECORDED FINDINGS on valid inputs
(`C09_skipSafe_or_known`, Proofs/TextSkipDoc.lean): `skip-quote-inside-unquoted` (`a={ b"c } d`: `skip_container` returns
`Err(Eof)`, `C09_known_quote_in_unquoted_breaks`) and `skip-brace-inside-interpolation` (`a={ @[}] } d`: `skip_container`
returns `Ok` inside the scalar, `C09_known_interpolation_brace_breaks`); on those shapes the skip does NOT land where reading
tokens lands, on the model and on the real code alike. -/
theorem C09_text_skip (r : Reader) (pos : Nat) (bom : Bom) (d : Bytes) (n q fuel : Nat)
    (hrel : Rel r pos bom d) (hnf : NoFaults r.src.sched) (hcap : r.cap = 0 ∨ 3 ≤ r.cap)
    (hfuel : r.src.rest.length + 1 ≤ fuel)
    (hbal : balancedSkip n pos bom d 1 = some q) :
    ∃ r', skipContainer fuel r = .ok r' () ∧ Rel r' (pos + q) bom (d.drop q) := by
  have href := balancedSkip_skipRef n pos bom d 1 q hbal
  rcases skipLoop_spec _ r pos bom d .none 1 fuel (Nat.le_refl _) hrel hfuel with ⟨r', hio⟩ | ⟨_, _, h1, h2⟩ | hok
  · exfalso
    have := skipLoop_inv NoFaults_closed fuel r .none 1 0 hnf
    rw [hio] at this
    exact this.2.2 rfl
  · exfalso; rcases hcap with h | h
    · exact h1 h
    · omega
  · unfold SkipOut at hok
    rw [href] at hok
    obtain ⟨r', h1, h2, _⟩ := hok
    exact ⟨r', h1, h2⟩

/-- **C20, `skip_container`**: under every schedule (short reads, transient and persistent faults), slice reader or
buffer ≥ 3, `skip_container` either reports an I/O error or does exactly what the fault-free call does: it stops right
after the matching close of the bytewise reference (reader related to the rest), or reports `Eof` when the input ends
first.  It never lands anywhere else and never reports success without the matching close. -/
theorem C20_text_skip_container (r : Reader) (pos : Nat) (bom : Bom) (d : Bytes) (fuel : Nat)
    (hrel : Rel r pos bom d) (hcap : r.cap = 0 ∨ 3 ≤ r.cap) (hfuel : r.src.rest.length + 1 ≤ fuel) :
    (∃ r', skipContainer fuel r = .err r' .io) ∨ SkipOut (skipContainer fuel r) r.cap pos bom d .none 1 := by
  rcases skipLoop_spec _ r pos bom d .none 1 fuel (Nat.le_refl _) hrel hfuel with h | ⟨_, _, h1, h2⟩ | h
  · exact Or.inl h
  · exfalso; rcases hcap with h | h
    · exact h1 h
    · omega
  · exact Or.inr h

-- `{ "}" #}\n b="\"}" } c` after the first Open: token counting and the skipper both land on ` c`
example : balancedSkip 20 1 .unknown [32, 34, 125, 34, 32, 35, 125, 10, 32, 98, 61, 34, 92, 34, 125, 34, 32, 125, 32, 99] 1 = some 18 := by
  decide +kernel

end Jomini.TextReader

namespace Jomini.TextReader
open Jomini Jomini.TextReader.Spec Jomini.TextReader.Swar

/-! ### skip_unquoted_value -/

def shiftU (k : Nat) : SkipU → SkipU
  | .open_ p => .open_ (p + k)
  | x => x

theorem skipUScan_shift (l : Bytes) (i k : Nat) : skipUScan l (i + k) = shiftU k (skipUScan l i) := by
  induction l generalizing i with
  | nil => simp [skipUScan, shiftU]
  | cons c l ih =>
    simp only [skipUScan]
    split; · simp [shiftU]
    split
    · rw [show i + k + 1 = (i + 1) + k by omega]; exact ih (i + 1)
    · simp [shiftU]

theorem skipUScan_append (w b : Bytes) (i : Nat) :
    skipUScan (w ++ b) i = match skipUScan w i with | .windowEnd => skipUScan b (i + w.length) | x => x := by
  induction w generalizing i with
  | nil => simp [skipUScan]
  | cons c w ih =>
    simp only [List.cons_append, skipUScan]
    split; · rfl
    split
    · rw [ih (i + 1)]; simp; cases skipUScan w (i + 1) <;> simp <;> congr 1 <;> omega
    · rfl

theorem skipUScan_open_bounds {l : Bytes} {i p : Nat} (h : skipUScan l i = .open_ p) :
    i ≤ p ∧ p < i + l.length ∧ l[p - i]? = some 123 ∧ ∀ x ∈ l.take (p - i), isBlank x = true := by
  induction l generalizing i with
  | nil => simp [skipUScan] at h
  | cons c l ih =>
    simp only [skipUScan] at h
    split at h
    · rename_i hc
      simp only [SkipU.open_.injEq] at h; subst h
      simp; exact eq_of_beq hc
    split at h
    · rename_i _ hb
      obtain ⟨h1, h2, h3, h4⟩ := ih h
      refine ⟨by omega, by simp; omega, ?_, ?_⟩
      · have : p - i = (p - (i + 1)) + 1 := by omega
        rw [this]; simpa using h3
      · have : p - i = (p - (i + 1)) + 1 := by omega
        rw [this]
        intro x hx; simp at hx
        rcases hx with rfl | hx
        · exact hb
        · exact h4 x hx
    · simp at h

theorem skipUScan_windowEnd_blank {l : Bytes} {i : Nat} (hs : skipUScan l i = .windowEnd) : ∀ y ∈ l, isBlank y = true := by
  induction l generalizing i with
  | nil => simp
  | cons c w ihw =>
    simp only [skipUScan] at hs
    split at hs
    · simp at hs
    split at hs
    · rename_i _ hb
      intro y hy; simp at hy; rcases hy with rfl | hy
      · exact hb
      · exact ihw hs y hy
    · simp at hs

/-- the `\\n\\t\\t\\t` word test of `skip_unquoted_value` only skips four blanks: one iteration is the plain blank scan of
the window -/
theorem skipUnquotedValue_unfold (f : Nat) (r : Reader) :
    skipUnquotedValue (f + 1) r =
      match skipUScan r.win 0 with
      | .open_ p =>
        match advance r (p + 1) with
        | some r' => skipContainer (f + 1) r'
        | none => .panic
      | .stop => .ok r ()
      | .windowEnd =>
        match advance r r.win.length with
        | none => .panic
        | some r0 =>
          match fillBuf r0 with
          | (r1, .ok 0) => .ok r1 ()
          | (r1, .ok _) => skipUnquotedValue f r1
          | (r1, .full) => .err r1 .full
          | (r1, .io) => .err r1 .io := by
  rw [skipUnquotedValue]
  rcases hw : r.win with _ | ⟨b0, _ | ⟨b1, _ | ⟨b2, _ | ⟨b3, tl⟩⟩⟩⟩
  · rfl
  · rfl
  · rfl
  · rfl
  · simp only
    by_cases h : (b0 == 10 && b1 == 9 && b2 == 9 && b3 == 9) = true
    · simp only [h, if_true]
      simp only [Bool.and_eq_true, beq_iff_eq] at h
      obtain ⟨⟨⟨rfl, rfl⟩, rfl⟩, rfl⟩ := h
      have e : skipUScan (10 :: 9 :: 9 :: 9 :: tl) 0 = skipUScan tl 4 := by simp [skipUScan, isBlank]
      rw [e]; rfl
    · simp only [h, Bool.false_eq_true, if_false]; rfl

/-- what `skip_unquoted_value` must do on the remaining input `d` -/
def SkipUOut (res : Res Unit) (pos : Nat) (bom : Bom) (d : Bytes) (n : Nat) : Prop :=
  match skipUScan d 0 with
  | .open_ p => ∀ q, balancedSkip n (pos + p + 1) bom (d.drop (p + 1)) 1 = some q →
      ∃ r', res = .ok r' () ∧ Rel r' (pos + p + 1 + q) bom (d.drop (p + 1 + q))
  | .stop => ∃ r' j, res = .ok r' () ∧ Rel r' (pos + j) bom (d.drop j) ∧ ∀ x ∈ d.take j, isBlank x = true
  | .windowEnd => ∃ r', res = .ok r' () ∧ Rel r' (pos + d.length) bom []

theorem skipU_spec (m : Nat) : ∀ (r : Reader) (pos : Nat) (bom : Bom) (d : Bytes) (n fuel : Nat),
    r.src.rest.length ≤ m → Rel r pos bom d → NoFaults r.src.sched → (r.cap = 0 ∨ 3 ≤ r.cap) → m + 1 ≤ fuel →
    SkipUOut (skipUnquotedValue fuel r) pos bom d n := by
  induction m with
  | zero =>
    intro r pos bom d n fuel hm hrel hnf hcap hfuel
    obtain ⟨f, rfl⟩ : ∃ f, fuel = f + 1 := ⟨fuel - 1, by omega⟩
    have he : r.src.rest = [] := List.eq_nil_of_length_eq_zero (by omega)
    have hd : d = r.win := by rw [← hrel.data, he]; simp
    rw [skipUnquotedValue_unfold]
    unfold SkipUOut
    rw [hd]
    cases hs : skipUScan r.win 0 with
    | open_ p =>
      simp only
      intro q hq
      obtain ⟨h1, h2, _, _⟩ := skipUScan_open_bounds hs
      obtain ⟨r', ha, hrel', _, hs', hc'⟩ := hrel.advance (p + 1) (by omega)
      simp only [ha]
      rw [hd] at hrel'
      have := C09_text_skip r' (pos + (p + 1)) bom _ n q (f + 1) hrel' (by rw [hs']; exact hnf) (by rw [hc']; exact hcap)
        (by rw [hs', he]; simp) (by rw [show pos + (p + 1) = pos + p + 1 by omega]; exact hq)
      obtain ⟨r'', h3, h4⟩ := this
      refine ⟨r'', h3, ?_⟩
      rw [show pos + p + 1 + q = pos + (p + 1) + q by omega, ← List.drop_drop]
      exact h4
    | stop =>
      simp only
      exact ⟨r, 0, rfl, by simpa [hd] using hrel, by simp⟩
    | windowEnd =>
      simp only
      obtain ⟨r0, ha, hrel0, hw0, hs0, hc0⟩ := hrel.advance r.win.length (Nat.le_refl _)
      simp only [ha]
      have hw0' : r0.win = [] := by rw [hw0]; simp
      rcases hrel0.fill with ⟨rio, hf, _, hnn⟩ | ⟨hf, h1, h2⟩ | ⟨_, r1, hf, hrel1, _⟩ | ⟨hne, _⟩
      · exact absurd (by rw [hs0]; exact hnf) hnn
      · exfalso; rw [hw0'] at h2; simp at h2; exact h1 h2
      · rw [hf]; simp only
        refine ⟨r1, rfl, ?_⟩
        rw [hd] at hrel1; simpa using hrel1
      · exact absurd (by rw [hs0]; exact he) hne
  | succ m ih =>
    intro r pos bom d n fuel hm hrel hnf hcap hfuel
    obtain ⟨f, rfl⟩ : ∃ f, fuel = f + 1 := ⟨fuel - 1, by omega⟩
    have hd : d = r.win ++ r.src.rest := hrel.data.symm
    have happ := skipUScan_append r.win r.src.rest 0
    rw [← hd] at happ
    rw [skipUnquotedValue_unfold]
    unfold SkipUOut
    cases hs : skipUScan r.win 0 with
    | open_ p =>
      rw [hs] at happ; simp only at happ; rw [happ]
      simp only
      intro q hq
      obtain ⟨h1, h2, _, _⟩ := skipUScan_open_bounds hs
      obtain ⟨r', ha, hrel', _, hs', hc'⟩ := hrel.advance (p + 1) (by omega)
      simp only [ha]
      have := C09_text_skip r' (pos + (p + 1)) bom _ n q (f + 1) hrel' (by rw [hs']; exact hnf) (by rw [hc']; exact hcap)
        (by rw [hs']; omega) (by rw [show pos + (p + 1) = pos + p + 1 by omega]; exact hq)
      obtain ⟨r'', h3, h4⟩ := this
      refine ⟨r'', h3, ?_⟩
      rw [show pos + p + 1 + q = pos + (p + 1) + q by omega, ← List.drop_drop]
      exact h4
    | stop =>
      rw [hs] at happ; simp only at happ; rw [happ]
      simp only
      exact ⟨r, 0, rfl, by simpa using hrel, by simp⟩
    | windowEnd =>
      rw [hs] at happ; simp only [Nat.zero_add] at happ
      obtain ⟨r0, ha, hrel0, hw0, hs0, hc0⟩ := hrel.advance r.win.length (Nat.le_refl _)
      simp only [ha]
      have hw0' : r0.win = [] := by rw [hw0]; simp
      have hdd : d.drop r.win.length = r.src.rest := by rw [hd]; simp
      rw [hdd] at hrel0
      rcases hrel0.fill with ⟨rio, hf, _, hnn⟩ | ⟨hf, h1, h2⟩ | ⟨he0, r1, hf, hrel1, _⟩ | ⟨hne, r1, k, hf, hrel1, hk, hw1, hr1, hc1, hnf1⟩
      · exact absurd (by rw [hs0]; exact hnf) hnn
      · exfalso; rw [hw0'] at h2; simp at h2; exact h1 h2
      · rw [hf]; simp only
        have he : r.src.rest = [] := by rw [← hs0]; exact he0
        rw [happ, he]; simp only [skipUScan]
        refine ⟨r1, rfl, ?_⟩
        rw [he] at hrel1
        have : d.length = r.win.length := by rw [hd, he]; simp
        rw [this]; exact hrel1
      · rw [hf]; simp only
        rw [hs0] at hk hr1
        have hl1 : r1.src.rest.length ≤ m := by rw [hr1]; simp; omega
        have hih := ih r1 (pos + r.win.length) bom r.src.rest n f hl1 hrel1 (hnf1 (by rw [hs0]; exact hnf))
          (by rw [hc1, hc0]; exact hcap) (by omega)
        unfold SkipUOut at hih
        rw [happ]
        have hsh := skipUScan_shift r.src.rest 0 r.win.length
        simp only [Nat.zero_add] at hsh
        rw [hsh]
        cases hx : skipUScan r.src.rest 0 with
        | open_ p =>
          rw [hx] at hih
          simp only [shiftU] at hih ⊢
          intro q hq
          have e1 : pos + (p + r.win.length) + 1 = pos + r.win.length + p + 1 := by omega
          have e2 : d.drop (p + r.win.length + 1) = r.src.rest.drop (p + 1) := by
            rw [hd, show p + r.win.length + 1 = r.win.length + (p + 1) by omega, ← List.drop_drop]; simp
          rw [e1, e2] at hq
          obtain ⟨r', h3, h4⟩ := hih q hq
          refine ⟨r', h3, ?_⟩
          have e3 : pos + (p + r.win.length) + 1 + q = pos + r.win.length + p + 1 + q := by omega
          have e4 : d.drop (p + r.win.length + 1 + q) = r.src.rest.drop (p + 1 + q) := by
            rw [hd, show p + r.win.length + 1 + q = r.win.length + (p + 1 + q) by omega, ← List.drop_drop]; simp
          rw [e3, e4]; exact h4
        | stop =>
          rw [hx] at hih
          simp only [shiftU] at hih ⊢
          obtain ⟨r', j, h3, h4, h5⟩ := hih
          refine ⟨r', r.win.length + j, h3, ?_, ?_⟩
          · have e4 : d.drop (r.win.length + j) = r.src.rest.drop j := by rw [hd, ← List.drop_drop]; simp
            rw [show pos + (r.win.length + j) = pos + r.win.length + j by omega, e4]; exact h4
          · intro x hx'
            rw [hd, List.take_append] at hx'
            simp at hx'
            rcases hx' with hx' | hx'
            · -- the whole window was blank
              exact skipUScan_windowEnd_blank hs x (List.mem_of_mem_take hx')
            · exact h5 x hx'
        | windowEnd =>
          rw [hx] at hih
          simp only [shiftU] at hih ⊢
          obtain ⟨r', h3, h4⟩ := hih
          refine ⟨r', h3, ?_⟩
          have : pos + d.length = pos + r.win.length + r.src.rest.length := by rw [hd]; simp; omega
          rw [this]; exact h4

/-- **C09 (text), `skip_unquoted_value`.**  Exact condition: the container is skipped iff only blank bytes (space, tab,
LF, CR, `;`) lie between the scalar just read and a `{` (`skipUScan d 0 = open_ p`, `p` = number of those blanks).
Then — under every fault-free schedule, slice reader or buffer ≥ 3 — the reader lands exactly after the close that
token counting finds (`balancedSkip` on the bytes after the `{`).  In every other case nothing but blanks is consumed:
in particular a `#` comment between the scalar and the `{` stops it (the recorded finding `skipu-comment-before-brace`),
and the container is then NOT skipped.  Behind the `{` it is `skip_container`, with the same exclusion (`skipSafeTok` =
the complement of the recorded findings `skip-quote-inside-unquoted` / `skip-brace-inside-interpolation`, see
`C09_text_skip`). -/
theorem C09_text_skipu (r : Reader) (pos : Nat) (bom : Bom) (d : Bytes) (n fuel : Nat)
    (hrel : Rel r pos bom d) (hnf : NoFaults r.src.sched) (hcap : r.cap = 0 ∨ 3 ≤ r.cap)
    (hfuel : r.src.rest.length + 1 ≤ fuel) :
    SkipUOut (skipUnquotedValue fuel r) pos bom d n :=
  skipU_spec _ r pos bom d n fuel (Nat.le_refl _) hrel hnf hcap hfuel

-- ` \n{ 1 } b`: two blanks, then the container
example : skipUScan [32, 10, 123, 32, 49, 32, 125, 32, 98] 0 = .open_ 2 := by rfl
-- ` #k\n{ 1 } b`: the comment stops it
example : skipUScan [32, 35, 107, 10, 123, 32, 49, 32, 125, 32, 98] 0 = .stop := by rfl

end Jomini.TextReader
