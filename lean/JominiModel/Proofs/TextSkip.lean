import JominiModel.Model.TextReader
import JominiModel.Spec.TextReader
import JominiModel.Proofs.SwarReader
import JominiModel.Proofs.TextReaderStream
/-
C09 (text): `skip_container`'s 8-bytes-at-a-time path is unobservable.
`C09_*` theorems live here so that the coordinator can re-export them from Props/C09.lean.
-/
namespace Jomini.TextReader
open Jomini Jomini.TextReader.Spec Jomini.TextReader.Swar

/-- `count_chunk(w, b)` is the number of bytes of `w` equal to `b`. -/
theorem C09_countChunk_spec (b0 b1 b2 b3 b4 b5 b6 b7 b : UInt8) :
    (countChunk (le64 b0 b1 b2 b3 b4 b5 b6 b7) b).toNat = [b0, b1, b2, b3, b4, b5, b6, b7].count b :=
  countChunk_spec b0 b1 b2 b3 b4 b5 b6 b7 b

example : (countChunk (le64 123 32 123 125 97 123 0 255) 123).toNat = 3 := by decide

/-- bytes that the skipper's `None` state treats as plain or as braces -/
def plainBytes (l : Bytes) : Prop := ∀ x ∈ l, (x == 34) = false ∧ (x == 35) = false

theorem depthAfter_count (l : Bytes) : ∀ (depth : Int), 1 ≤ depth - (l.count 125 : Int) →
    depthAfter l depth = some (depth - (l.count 125 : Int) + (l.count 123 : Int)) := by
  induction l with
  | nil => intro depth _; simp [depthAfter]
  | cons c l ih =>
    intro depth h
    simp only [depthAfter]
    by_cases h1 : (c == 123) = true
    · have hc : c = 123 := by simpa using h1
      subst hc
      have e1 : (123 :: l).count (125 : UInt8) = l.count 125 := by simp [List.count_cons]
      have e2 : (123 :: l).count (123 : UInt8) = l.count 123 + 1 := by simp [List.count_cons]
      rw [e1] at h
      simp only [beq_self_eq_true, if_true]
      rw [ih (depth + 1) (by omega), e1, e2]
      congr 1; push_cast; omega
    · by_cases h2 : (c == 125) = true
      · have hc : c = 125 := by simpa using h2
        subst hc
        have e1 : (125 :: l).count (125 : UInt8) = l.count 125 + 1 := by simp [List.count_cons]
        have e2 : (125 :: l).count (123 : UInt8) = l.count 123 := by simp [List.count_cons]
        rw [e1] at h
        have hne : ¬ (depth - 1 == 0) = true := by
          simp only [beq_iff_eq]; push_cast at h; omega
        simp only [show ((125 : UInt8) == 123) = false by decide, Bool.false_eq_true, if_false, beq_self_eq_true, if_true, hne]
        rw [ih (depth - 1) (by push_cast at h; omega), e1, e2]
        congr 1; push_cast; omega
      · have e1 : (c :: l).count (125 : UInt8) = l.count 125 := by
          simp only [List.count_cons]; simp at h2; simp [h2]
        have e2 : (c :: l).count (123 : UInt8) = l.count 123 := by
          simp only [List.count_cons]; simp at h1; simp [h1]
        rw [e1] at h
        simp only [h1, h2, Bool.false_eq_true, if_false]
        rw [ih depth h, e1, e2]

theorem count_zero_of_not_any (l : Bytes) (b : UInt8) (h : l.any (· == b) = false) : l.count b = 0 := by
  rw [List.count_eq_zero]
  intro hm
  have : l.any (· == b) = true := List.any_eq_true.mpr ⟨b, hm, by simp⟩
  rw [h] at this; simp at this

/-- **the 8-byte chunk step of `skip_container` is eight bytewise steps.**  If `chunkStep` accepts the word
(no `"`, no `#`, and the depth stays ≥ 1 after subtracting all the closes of the chunk) then none of the eight bytes is a
quote or a comment start and walking them one by one from `depth` never closes the container and ends at the
same depth; in particular the chunk path can never skip past the matching close. -/
theorem C09_chunk_eq_bytes (b0 b1 b2 b3 b4 b5 b6 b7 : UInt8) (depth d' : Int)
    (h : chunkStep (le64 b0 b1 b2 b3 b4 b5 b6 b7) depth = some d') :
    plainBytes [b0, b1, b2, b3, b4, b5, b6, b7] ∧ depthAfter [b0, b1, b2, b3, b4, b5, b6, b7] depth = some d' := by
  unfold chunkStep at h
  simp only [containsByte_spec, countChunk_spec] at h
  generalize hl : [b0, b1, b2, b3, b4, b5, b6, b7] = l at h ⊢
  split at h
  · simp at h
  · rename_i hq
    simp only [Bool.or_eq_true, not_or, Bool.not_eq_true] at hq
    have hplain : plainBytes l := by
      intro x hx
      constructor
      · cases hx34 : (x == 34) with
        | false => rfl
        | true =>
          have : l.any (· == 34) = true := List.any_eq_true.mpr ⟨x, hx, hx34⟩
          rw [hq.1] at this; simp at this
      · cases hx35 : (x == 35) with
        | false => rfl
        | true =>
          have : l.any (· == 35) = true := List.any_eq_true.mpr ⟨x, hx, hx35⟩
          rw [hq.2] at this; simp at this
    refine ⟨hplain, ?_⟩
    have hcl : (if l.any (· == 125) = true then ((l.count 125 : Nat) : Int) else 0) = (l.count 125 : Int) := by
      split
      · rfl
      · rename_i hn; simp only [Bool.not_eq_true] at hn; rw [count_zero_of_not_any l 125 hn]; rfl
    have hop : (if l.any (· == 123) = true then ((l.count 123 : Nat) : Int) else 0) = (l.count 123 : Int) := by
      split
      · rfl
      · rename_i hn; simp only [Bool.not_eq_true] at hn; rw [count_zero_of_not_any l 123 hn]; rfl
    simp only [hcl, hop] at h
    split at h
    · simp at h
    · rename_i hd
      simp only [Option.some.injEq] at h
      rw [depthAfter_count l depth (by omega), h]

example : chunkStep (le64 123 32 123 125 97 123 0 255) 2 = some 4 := by decide
example : chunkStep (le64 123 32 123 125 97 123 0 255) 1 = none := by decide

end Jomini.TextReader

namespace Jomini.TextReader
open Jomini Jomini.TextReader.Spec Jomini.TextReader.Swar

theorem drop_cons_info {w : Bytes} {ptr : Nat} {c : UInt8} {tl : Bytes} (h : w.drop ptr = c :: tl) :
    w[ptr]? = some c ∧ w.drop (ptr + 1) = tl ∧ w.length = ptr + 1 + tl.length := by
  have hl := congrArg List.length h
  simp at hl
  refine ⟨?_, ?_, by omega⟩
  · have : (w.drop ptr)[0]? = some c := by rw [h]; rfl
    rw [List.getElem?_drop] at this
    simpa using this
  · have : w.drop (ptr + 1) = (w.drop ptr).drop 1 := by rw [List.drop_drop]
    rw [this, h]; rfl

theorem skipRef_quote_other {c : UInt8} {tl : Bytes} {depth : Int} {ptr : Nat} (hc : ¬(c == 92) = true) :
    skipRef (c :: tl) .quote depth ptr =
      if c != 34 then skipRef tl .quote depth (ptr + 1) else skipRef tl .none depth (ptr + 1) := by
  rcases tl with _ | ⟨x, _ | ⟨d, r⟩⟩ <;> simp [skipRef, hc]

/-- walking plain bytes one at a time from `depth` -/
theorem skipRef_plain (l : Bytes) : ∀ (rest : Bytes) (depth d' : Int) (ptr : Nat), plainBytes l →
    depthAfter l depth = some d' →
    skipRef (l ++ rest) .none depth ptr = skipRef rest .none d' (ptr + l.length) := by
  induction l with
  | nil => intro rest depth d' ptr _ h; simp [depthAfter] at h; subst h; simp
  | cons c l ih =>
    intro rest depth d' ptr hp h
    have hc := hp c (by simp)
    have hp' : plainBytes l := fun x hx => hp x (by simp [hx])
    simp only [depthAfter] at h
    simp only [List.cons_append, skipRef, hc.1, hc.2, Bool.false_eq_true, if_false, List.length_cons]
    have e : ptr + (l.length + 1) = ptr + 1 + l.length := by omega
    split at h
    · rename_i h1; simp only [h1, if_true]; rw [e]; exact ih rest _ _ _ hp' h
    · rename_i h1
      simp only [h1, Bool.false_eq_true, if_false]
      split at h
      · rename_i h2
        simp only [h2, if_true]
        split at h
        · simp at h
        · rename_i h3; simp only [h3, Bool.false_eq_true, if_false]; rw [e]; exact ih rest _ _ _ hp' h
      · rename_i h2; simp only [h2, Bool.false_eq_true, if_false]; rw [e]; exact ih rest _ _ _ hp' h

/-- **the SWAR loop of `skip_container` is unobservable**: on every window, from every state, depth and position,
the model's scan with the 8-bytes-at-a-time path computes exactly what the purely bytewise reference computes
(same stopping point, same state and depth handed to the refill). -/
theorem C09_skipScan_eq_bytewise (w : Bytes) : ∀ (fuel : Nat) (st : SkipSt) (depth : Int) (ptr : Nat),
    ptr ≤ w.length → w.length - ptr + 1 ≤ fuel →
    skipScan w fuel st depth ptr = skipRef (w.drop ptr) st depth ptr := by
  intro fuel
  induction fuel with
  | zero => intro st depth ptr _ h; omega
  | succ f ih =>
    intro st depth ptr hp hf
    cases hd : w.drop ptr with
    | nil =>
      have hlen : ptr = w.length := by
        have := congrArg List.length hd; simp at this; omega
      subst hlen
      cases st with
      | none => simp [skipScan, skipRef]
      | quote => simp [skipScan, skipRef]
      | comment => simp [skipScan, skipRef]
    | cons c tl =>
      obtain ⟨hget, htl, hlen⟩ := drop_cons_info hd
      have hne : ¬ (ptr == w.length) = true := by simp; omega
      have ih1 : ∀ st' depth', skipScan w f st' depth' (ptr + 1) = skipRef tl st' depth' (ptr + 1) := by
        intro st' depth'
        rw [ih st' depth' (ptr + 1) (by omega) (by omega), htl]
      cases st with
      | comment =>
        rw [skipScan]
        simp only [hne, Bool.false_eq_true, if_false, hget, skipRef]
        split <;> exact ih1 _ _
      | quote =>
        rw [skipScan]
        simp only [hne, Bool.false_eq_true, if_false, hget]
        by_cases hc : (c == 92) = true
        · simp only [hc, if_true]
          rcases tl with _ | ⟨x, _ | ⟨d, r'⟩⟩
          · have : w.length - ptr ≤ 2 := by simp at hlen; omega
            simp [this, skipRef, hc]
          · have : w.length - ptr ≤ 2 := by simp at hlen; omega
            simp [this, skipRef, hc]
          · have : ¬ w.length - ptr ≤ 2 := by simp at hlen; omega
            simp only [this, if_false, skipRef, hc, if_true]
            rw [ih .quote depth (ptr + 2) (by simp at hlen; omega) (by omega)]
            have : w.drop (ptr + 2) = d :: r' := by
              have : w.drop (ptr + 2) = (w.drop (ptr + 1)).drop 1 := by rw [List.drop_drop]
              rw [this, htl]; rfl
            rw [this]
        · simp only [hc, Bool.false_eq_true, if_false]
          rw [skipRef_quote_other hc]
          split <;> exact ih1 _ _
      | none =>
        -- the byte step, common to both branches
        have hbyte : (if (ptr == w.length) = true then SkipScan.refill .none depth ptr
            else
              match w[ptr]? with
              | none => SkipScan.ub
              | some val =>
                if val == 123 then skipScan w f .none (depth + 1) (ptr + 1)
                else if val == 125 then
                  if depth - 1 == 0 then .done (ptr + 1) else skipScan w f .none (depth - 1) (ptr + 1)
                else if val == 34 then skipScan w f .quote depth (ptr + 1)
                else if val == 35 then skipScan w f .comment depth (ptr + 1)
                else skipScan w f .none depth (ptr + 1)) = skipRef (c :: tl) .none depth ptr := by
          simp only [hne, Bool.false_eq_true, if_false, hget, skipRef, ih1]
        rw [skipScan]
        by_cases hbig : w.length - ptr > 8
        · simp only [hbig, if_true]
          have hsome : (read64 w ptr).isSome = true := by
            unfold read64; rw [word8_isSome_iff]; simp; omega
          cases hr : read64 w ptr with
          | none => rw [hr] at hsome; simp at hsome
          | some data =>
            simp only [Option.map_some]
            cases hcs : chunkStep data depth with
            | none => simp only; exact hbyte
            | some d' =>
              simp only
              unfold read64 at hr
              obtain ⟨b0, b1, b2, b3, b4, b5, b6, b7, rest, hw, hdata⟩ := word8_some hr
              subst hdata
              obtain ⟨hplain, hdep⟩ := C09_chunk_eq_bytes b0 b1 b2 b3 b4 b5 b6 b7 depth d' hcs
              rw [ih .none d' (ptr + 8) (by omega) (by omega)]
              have hrest : w.drop (ptr + 8) = rest := by
                have : w.drop (ptr + 8) = (w.drop ptr).drop 8 := by rw [List.drop_drop]
                rw [this, hw]; rfl
              rw [hrest, ← hd, hw]
              have := skipRef_plain [b0, b1, b2, b3, b4, b5, b6, b7] rest depth d' ptr hplain hdep
              simpa using this.symm
        · simp only [hbig, if_false]
          exact hbyte

end Jomini.TextReader

namespace Jomini.TextReader
open Jomini Jomini.TextReader.Spec Jomini.TextReader.Swar

/-! ### the bytewise reference as a left-to-right state machine -/

def shiftSS (k : Nat) : SkipScan → SkipScan
  | .done p => .done (p + k)
  | .refill st d p => .refill st d (p + k)
  | x => x

theorem skipRef_quote_bs {c : UInt8} {tl : Bytes} {depth : Int} {ptr : Nat} (hc : (c == 92) = true) :
    skipRef (c :: tl) .quote depth ptr =
      match tl with
      | [] => .refill .quote depth ptr
      | [_] => .refill .quote depth ptr
      | _ :: e :: r => skipRef (e :: r) .quote depth (ptr + 2) := by
  rcases tl with _ | ⟨x, _ | ⟨d, r⟩⟩ <;> simp [skipRef, hc]

theorem skipRef_none_cons (c : UInt8) (rest : Bytes) (depth : Int) (ptr : Nat) :
    skipRef (c :: rest) .none depth ptr =
      if c == 123 then skipRef rest .none (depth + 1) (ptr + 1)
      else if c == 125 then
        if depth - 1 == 0 then .done (ptr + 1) else skipRef rest .none (depth - 1) (ptr + 1)
      else if c == 34 then skipRef rest .quote depth (ptr + 1)
      else if c == 35 then skipRef rest .comment depth (ptr + 1)
      else skipRef rest .none depth (ptr + 1) := by
  rcases rest with _ | ⟨x, _ | ⟨d, r⟩⟩ <;> simp [skipRef]

theorem skipRef_comment_cons (c : UInt8) (rest : Bytes) (depth : Int) (ptr : Nat) :
    skipRef (c :: rest) .comment depth ptr =
      if c == 10 then skipRef rest .none depth (ptr + 1) else skipRef rest .comment depth (ptr + 1) := by
  rcases rest with _ | ⟨x, _ | ⟨d, r⟩⟩ <;> simp [skipRef]

theorem skipRef_nil (st : SkipSt) (depth : Int) (ptr : Nat) : skipRef [] st depth ptr = .refill st depth ptr := by
  cases st <;> simp [skipRef]

theorem skipRef_shift (k : Nat) (n : Nat) : ∀ (l : Bytes) (st : SkipSt) (depth : Int) (ptr : Nat), l.length ≤ n →
    skipRef l st depth (ptr + k) = shiftSS k (skipRef l st depth ptr) := by
  induction n with
  | zero =>
    intro l st depth ptr hl
    have : l = [] := List.eq_nil_of_length_eq_zero (by omega)
    subst this; simp [skipRef_nil, shiftSS]
  | succ n ih =>
    intro l st depth ptr hl
    cases l with
    | nil => simp [skipRef_nil, shiftSS]
    | cons c rest =>
      have hr : rest.length ≤ n := by simp at hl; omega
      have e : ptr + k + 1 = (ptr + 1) + k := by omega
      cases st with
      | none =>
        simp only [skipRef_none_cons, e]
        split; · exact ih rest _ _ _ hr
        split
        · split
          · simp [shiftSS]
          · exact ih rest _ _ _ hr
        split; · exact ih rest _ _ _ hr
        split; · exact ih rest _ _ _ hr
        exact ih rest _ _ _ hr
      | comment =>
        simp only [skipRef_comment_cons, e]
        split <;> exact ih rest _ _ _ hr
      | quote =>
        by_cases hc : (c == 92) = true
        · simp only [skipRef_quote_bs hc]
          rcases rest with _ | ⟨x, _ | ⟨d, r⟩⟩
          · simp [shiftSS]
          · simp [shiftSS]
          · simp only
            have e2 : ptr + k + 2 = (ptr + 2) + k := by omega
            rw [e2]; exact ih (d :: r) _ _ _ (by simp at hr ⊢; omega)
        · simp only [skipRef_quote_other hc, e]
          split <;> exact ih rest _ _ _ hr

/-- where a scan that ran out of bytes stopped: inside the list, at most two bytes before its end -/
theorem skipRef_refill_bounds (n : Nat) : ∀ (l : Bytes) (st : SkipSt) (depth : Int) (ptr : Nat) (st' : SkipSt) (d' : Int) (p : Nat),
    l.length ≤ n → skipRef l st depth ptr = .refill st' d' p → ptr ≤ p ∧ p ≤ ptr + l.length ∧ ptr + l.length ≤ p + 2 := by
  induction n with
  | zero =>
    intro l st depth ptr st' d' p hl h
    have : l = [] := List.eq_nil_of_length_eq_zero (by omega)
    subst this; simp [skipRef_nil] at h; omega
  | succ n ih =>
    intro l st depth ptr st' d' p hl h
    cases l with
    | nil => simp [skipRef_nil] at h; simp; omega
    | cons c rest =>
      have hr : rest.length ≤ n := by simp at hl; omega
      have fin : ∀ {st0 : SkipSt} {d0 : Int}, skipRef rest st0 d0 (ptr + 1) = .refill st' d' p →
          ptr ≤ p ∧ p ≤ ptr + (c :: rest).length ∧ ptr + (c :: rest).length ≤ p + 2 := by
        intro st0 d0 hh
        have := ih rest st0 d0 (ptr + 1) st' d' p hr hh
        simp; omega
      cases st with
      | none =>
        rw [skipRef_none_cons] at h
        split at h; · exact fin h
        split at h
        · split at h
          · simp at h
          · exact fin h
        split at h; · exact fin h
        split at h; · exact fin h
        exact fin h
      | comment =>
        rw [skipRef_comment_cons] at h
        split at h <;> exact fin h
      | quote =>
        by_cases hc : (c == 92) = true
        · rw [skipRef_quote_bs hc] at h
          rcases rest with _ | ⟨x, _ | ⟨d, r⟩⟩
          · simp at h; simp; omega
          · simp at h; simp; omega
          · simp only at h
            have := ih (d :: r) .quote depth (ptr + 2) st' d' p (by simp at hr ⊢; omega) h
            simp at this ⊢; omega
        · rw [skipRef_quote_other hc] at h
          split at h <;> exact fin h

/-- **refilling loses nothing**: scanning `w ++ b` is scanning `w` and, if that runs out of bytes at `p` in state
`(st', d')`, continuing on the not yet consumed bytes of `w` followed by `b`. -/
theorem skipRef_append (b : Bytes) (n : Nat) : ∀ (w : Bytes) (st : SkipSt) (depth : Int) (ptr : Nat), w.length ≤ n →
    skipRef (w ++ b) st depth ptr =
      match skipRef w st depth ptr with
      | .done p => .done p
      | .refill st' d' p => skipRef (w.drop (p - ptr) ++ b) st' d' p
      | x => x := by
  induction n with
  | zero =>
    intro w st depth ptr hl
    have : w = [] := List.eq_nil_of_length_eq_zero (by omega)
    subst this; simp [skipRef_nil]
  | succ n ih =>
    intro w st depth ptr hl
    cases w with
    | nil => simp [skipRef_nil]
    | cons c rest =>
      have hr : rest.length ≤ n := by simp at hl; omega
      -- one byte consumed, then the induction hypothesis
      have step : ∀ (st0 : SkipSt) (d0 : Int),
          skipRef (rest ++ b) st0 d0 (ptr + 1) =
            match skipRef rest st0 d0 (ptr + 1) with
            | .done p => .done p
            | .refill st' d' p => skipRef ((c :: rest).drop (p - ptr) ++ b) st' d' p
            | x => x := by
        intro st0 d0
        rw [ih rest st0 d0 (ptr + 1) hr]
        cases hs : skipRef rest st0 d0 (ptr + 1) with
        | done p => rfl
        | refill st' d' p =>
          have := skipRef_refill_bounds _ rest st0 d0 (ptr + 1) st' d' p (Nat.le_refl _) hs
          simp only
          have e : p - ptr = (p - (ptr + 1)) + 1 := by omega
          rw [e]; rfl
        | ub => rfl
        | fuel => rfl
      cases st with
      | none =>
        simp only [List.cons_append, skipRef_none_cons]
        split; · exact step _ _
        split
        · split
          · rfl
          · exact step _ _
        split; · exact step _ _
        split; · exact step _ _
        exact step _ _
      | comment =>
        simp only [List.cons_append, skipRef_comment_cons]
        split <;> exact step _ _
      | quote =>
        by_cases hc : (c == 92) = true
        · rcases rest with _ | ⟨x, _ | ⟨d, r⟩⟩
          · simp [skipRef_quote_bs hc]
          · simp [skipRef_quote_bs hc]
          · simp only [List.cons_append, skipRef_quote_bs hc]
            rw [show d :: (r ++ b) = (d :: r) ++ b by rfl, ih (d :: r) .quote depth (ptr + 2) (by simp at hr ⊢; omega)]
            cases hs : skipRef (d :: r) .quote depth (ptr + 2) with
            | done p => rfl
            | refill st' d' p =>
              have := skipRef_refill_bounds _ (d :: r) .quote depth (ptr + 2) st' d' p (Nat.le_refl _) hs
              simp only
              have e : p - ptr = (p - (ptr + 2)) + 2 := by omega
              rw [e]; rfl
            | ub => rfl
            | fuel => rfl
        · simp only [List.cons_append, skipRef_quote_other hc]
          split <;> exact step _ _

end Jomini.TextReader

namespace Jomini.TextReader
open Jomini Jomini.TextReader.Spec Jomini.TextReader.Swar

theorem skipRef_done_bounds (n : Nat) : ∀ (l : Bytes) (st : SkipSt) (depth : Int) (ptr p : Nat),
    l.length ≤ n → skipRef l st depth ptr = .done p → ptr < p ∧ p ≤ ptr + l.length := by
  induction n with
  | zero =>
    intro l st depth ptr p hl h
    have : l = [] := List.eq_nil_of_length_eq_zero (by omega)
    subst this; simp [skipRef_nil] at h
  | succ n ih =>
    intro l st depth ptr p hl h
    cases l with
    | nil => simp [skipRef_nil] at h
    | cons c rest =>
      have hr : rest.length ≤ n := by simp at hl; omega
      have fin : ∀ {st0 : SkipSt} {d0 : Int}, skipRef rest st0 d0 (ptr + 1) = .done p →
          ptr < p ∧ p ≤ ptr + (c :: rest).length := by
        intro st0 d0 hh
        have := ih rest st0 d0 (ptr + 1) p hr hh
        simp; omega
      cases st with
      | none =>
        rw [skipRef_none_cons] at h
        split at h; · exact fin h
        split at h
        · split at h
          · simp at h; subst h; simp
          · exact fin h
        split at h; · exact fin h
        split at h; · exact fin h
        exact fin h
      | comment =>
        rw [skipRef_comment_cons] at h
        split at h <;> exact fin h
      | quote =>
        by_cases hc : (c == 92) = true
        · rw [skipRef_quote_bs hc] at h
          rcases rest with _ | ⟨x, _ | ⟨d, r⟩⟩
          · simp at h
          · simp at h
          · simp only at h
            have := ih (d :: r) .quote depth (ptr + 2) p (by simp at hr ⊢; omega) h
            simp at this ⊢; omega
        · rw [skipRef_quote_other hc] at h
          split at h <;> exact fin h

/-- what `skip_container` must return according to the bytewise reference over the whole remaining input `d` -/
def SkipOut (res : Res Unit) (cap pos : Nat) (bom : Bom) (d : Bytes) (st : SkipSt) (depth : Int) : Prop :=
  match skipRef d st depth 0 with
  | .done p => ∃ r', res = .ok r' () ∧ Rel r' (pos + p) bom (d.drop p) ∧ r'.cap = cap
  | .refill _ _ _ => ∃ r', res = .err r' .eof
  | _ => True

/-- **`skip_container` under every schedule**: with a slice reader or a buffer of at least three bytes (the scan carries
at most a backslash and the byte after it across a refill), the streamed skip either reports an I/O error of the `Read`,
or it does exactly what the bytewise reference does on the whole remaining input: it stops right after the matching
close (reader related to the rest), or reports `Eof` when the input ends first. -/
theorem skipLoop_spec (n : Nat) : ∀ (r : Reader) (pos : Nat) (bom : Bom) (d : Bytes) (st : SkipSt) (depth : Int) (fuel : Nat),
    r.src.rest.length ≤ n → Rel r pos bom d → (r.cap = 0 ∨ 3 ≤ r.cap) → n + 1 ≤ fuel →
    (∃ r', skipLoop fuel r st depth 0 = .err r' .io) ∨
    SkipOut (skipLoop fuel r st depth 0) r.cap pos bom d st depth := by
  induction n with
  | zero =>
    intro r pos bom d st depth fuel hn hrel hcap hfuel
    obtain ⟨f, rfl⟩ : ∃ f, fuel = f + 1 := ⟨fuel - 1, by omega⟩
    have he : r.src.rest = [] := List.eq_nil_of_length_eq_zero (by omega)
    have hd : d = r.win := by rw [← hrel.data, he]; simp
    have hscan : skipScan r.win (r.win.length + 2) st depth 0 = skipRef r.win st depth 0 := by
      have := C09_skipScan_eq_bytewise r.win (r.win.length + 2) st depth 0 (Nat.zero_le _) (by omega)
      simpa using this
    rw [skipLoop, hscan]
    unfold SkipOut
    rw [hd]
    cases hs : skipRef r.win st depth 0 with
    | done p =>
      right
      have hb := skipRef_done_bounds _ r.win st depth 0 p (Nat.le_refl _) hs
      obtain ⟨r', ha, hrel', _, _, hc'⟩ := hrel.advance p (by omega)
      simp only [ha]
      rw [hd] at hrel'
      exact ⟨r', rfl, hrel', hc'⟩
    | refill st' d' p =>
      have hb := skipRef_refill_bounds _ r.win st depth 0 st' d' p (Nat.le_refl _) hs
      obtain ⟨r0, ha, hrel0, hw0, hs0, hc0⟩ := hrel.advance p (by omega)
      simp only [ha]
      have hrest0 : r0.src.rest = [] := by rw [hs0]; exact he
      rcases hrel0.fill with ⟨rio, hf, _⟩ | ⟨hf, h1, h2⟩ | ⟨_, r1, hf, _⟩ | ⟨hne, _⟩
      · left; rw [hf]; exact ⟨rio, rfl⟩
      · exfalso
        have : r0.win.length ≤ 2 := by rw [hw0]; simp; omega
        rcases hcap with h | h
        · exact h1 (by rw [hc0]; exact h)
        · rw [hc0] at h2; omega
      · right; rw [hf]; exact ⟨r1, rfl⟩
      · exact absurd hrest0 hne
    | ub => right; trivial
    | fuel => right; trivial
  | succ n ih =>
    intro r pos bom d st depth fuel hn hrel hcap hfuel
    obtain ⟨f, rfl⟩ : ∃ f, fuel = f + 1 := ⟨fuel - 1, by omega⟩
    have hd : d = r.win ++ r.src.rest := hrel.data.symm
    have hscan : skipScan r.win (r.win.length + 2) st depth 0 = skipRef r.win st depth 0 := by
      have := C09_skipScan_eq_bytewise r.win (r.win.length + 2) st depth 0 (Nat.zero_le _) (by omega)
      simpa using this
    have happ := skipRef_append r.src.rest _ r.win st depth 0 (Nat.le_refl _)
    rw [← hd] at happ
    rw [skipLoop, hscan]
    unfold SkipOut
    cases hs : skipRef r.win st depth 0 with
    | done p =>
      right
      rw [hs] at happ
      simp only at happ
      rw [happ]
      have hb := skipRef_done_bounds _ r.win st depth 0 p (Nat.le_refl _) hs
      obtain ⟨r', ha, hrel', _, _, hc'⟩ := hrel.advance p (by omega)
      simp only [ha]
      exact ⟨r', rfl, hrel', hc'⟩
    | refill st' d' p =>
      rw [hs] at happ
      simp only [Nat.sub_zero] at happ
      have hb := skipRef_refill_bounds _ r.win st depth 0 st' d' p (Nat.le_refl _) hs
      obtain ⟨r0, ha, hrel0, hw0, hs0, hc0⟩ := hrel.advance p (by omega)
      simp only [ha]
      have hdp : d.drop p = r.win.drop p ++ r.src.rest := by rw [hd, List.drop_append_of_le_length (by omega)]
      rw [hdp] at hrel0
      rcases hrel0.fill with ⟨rio, hf, _⟩ | ⟨hf, h1, h2⟩ | ⟨he0, r1, hf, _⟩ | ⟨hne, r1, k, hf, hrel1, hk, hw1, hr1, hc1, _⟩
      · left; rw [hf]; exact ⟨rio, rfl⟩
      · exfalso
        have : r0.win.length ≤ 2 := by rw [hw0]; simp; omega
        rcases hcap with h | h
        · exact h1 (by rw [hc0]; exact h)
        · rw [hc0] at h2; omega
      · right
        rw [hf]
        have he : r.src.rest = [] := by rw [← hs0]; exact he0
        have : d = r.win := by rw [hd, he]; simp
        rw [this, hs]
        exact ⟨r1, rfl⟩
      · rw [hf]
        simp only
        rw [hs0] at hk hr1
        have hl1 : r1.src.rest.length ≤ n := by rw [hr1]; simp; omega
        have hcap1 : r1.cap = 0 ∨ 3 ≤ r1.cap := by rw [hc1, hc0]; exact hcap
        rcases ih r1 (pos + p) bom _ st' d' f hl1 hrel1 hcap1 (by omega) with hio | hok
        · left; exact hio
        · right
          rw [happ]
          have hsh := skipRef_shift p _ (r.win.drop p ++ r.src.rest) st' d' 0 (Nat.le_refl _)
          simp only [Nat.zero_add] at hsh
          rw [hsh]
          unfold SkipOut at hok
          cases hx : skipRef (r.win.drop p ++ r.src.rest) st' d' 0 with
          | done q =>
            rw [hx] at hok
            simp only [shiftSS] at hok ⊢
            obtain ⟨r', h1, h2, h3⟩ := hok
            refine ⟨r', h1, ?_, by rw [h3, hc1, hc0]⟩
            have e1 : pos + (q + p) = pos + p + q := by omega
            have e2 : d.drop (q + p) = (r.win.drop p ++ r.src.rest).drop q := by
              rw [← hdp, List.drop_drop]; congr 1; omega
            rw [e1, e2]; exact h2
          | refill a b c => rw [hx] at hok; simpa [shiftSS] using hok
          | ub => simp [shiftSS]
          | fuel => simp [shiftSS]
    | ub => right; rw [hs] at happ; simp only at happ; rw [happ]; trivial
    | fuel => right; rw [hs] at happ; simp only at happ; rw [happ]; trivial

end Jomini.TextReader
