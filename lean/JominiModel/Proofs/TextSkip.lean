import JominiModel.Model.TextReader
import JominiModel.Spec.TextReader
import JominiModel.Proofs.SwarReader
/-
C09 (text): `skip_container`'s 8-bytes-at-a-time path is unobservable.
`C09_*` theorems live here so that the coordinator can re-export them from Props/C09.lean.
-/
namespace Jomini.TextReader
open Jomini Jomini.TextReader.Spec Jomini.TextReader.Swar

/-- `count_chunk(w, b)` is the number of bytes of `w` equal to `b`. -/
theorem C09_countChunk_spec (b0 b1 b2 b3 b4 b5 b6 b7 b : UInt8) :
    (countChunk (le64 b0 b1 b2 b3 b4 b5 b6 b7) b).toNat = [b0, b1, b2, b3, b4, b5, b6, b7].count b :=
  countChunk_spec b0 b1 b2 b3 b4 b5 b6 b7 b

example : (countChunk (le64 123 32 123 125 97 123 0 255) 123).toNat = 3 := by decide

/-- bytes that the skipper's `None` state treats as plain or as braces -/
def plainBytes (l : Bytes) : Prop := ∀ x ∈ l, (x == 34) = false ∧ (x == 35) = false

theorem depthAfter_count (l : Bytes) : ∀ (depth : Int), 1 ≤ depth - (l.count 125 : Int) →
    depthAfter l depth = some (depth - (l.count 125 : Int) + (l.count 123 : Int)) := by
  induction l with
  | nil => intro depth _; simp [depthAfter]
  | cons c l ih =>
    intro depth h
    simp only [depthAfter]
    by_cases h1 : (c == 123) = true
    · have hc : c = 123 := by simpa using h1
      subst hc
      have e1 : (123 :: l).count (125 : UInt8) = l.count 125 := by simp [List.count_cons]
      have e2 : (123 :: l).count (123 : UInt8) = l.count 123 + 1 := by simp [List.count_cons]
      rw [e1] at h
      simp only [beq_self_eq_true, if_true]
      rw [ih (depth + 1) (by omega), e1, e2]
      congr 1; push_cast; omega
    · by_cases h2 : (c == 125) = true
      · have hc : c = 125 := by simpa using h2
        subst hc
        have e1 : (125 :: l).count (125 : UInt8) = l.count 125 + 1 := by simp [List.count_cons]
        have e2 : (125 :: l).count (123 : UInt8) = l.count 123 := by simp [List.count_cons]
        rw [e1] at h
        have hne : ¬ (depth - 1 == 0) = true := by
          simp only [beq_iff_eq]; push_cast at h; omega
        simp only [show ((125 : UInt8) == 123) = false by decide, Bool.false_eq_true, if_false, beq_self_eq_true, if_true, hne]
        rw [ih (depth - 1) (by push_cast at h; omega), e1, e2]
        congr 1; push_cast; omega
      · have e1 : (c :: l).count (125 : UInt8) = l.count 125 := by
          simp only [List.count_cons]; simp at h2; simp [h2]
        have e2 : (c :: l).count (123 : UInt8) = l.count 123 := by
          simp only [List.count_cons]; simp at h1; simp [h1]
        rw [e1] at h
        simp only [h1, h2, Bool.false_eq_true, if_false]
        rw [ih depth h, e1, e2]

theorem count_zero_of_not_any (l : Bytes) (b : UInt8) (h : l.any (· == b) = false) : l.count b = 0 := by
  rw [List.count_eq_zero]
  intro hm
  have : l.any (· == b) = true := List.any_eq_true.mpr ⟨b, hm, by simp⟩
  rw [h] at this; simp at this

/-- **the 8-byte chunk step of `skip_container` is eight bytewise steps.**  If `chunkStep` accepts the word
(no `"`, no `#`, and the depth stays ≥ 1 after subtracting all the closes of the chunk) then none of the eight bytes is a
quote or a comment start and walking them one by one from `depth` never closes the container and ends at the
same depth; in particular the chunk path can never skip past the matching close. -/
theorem C09_chunk_eq_bytes (b0 b1 b2 b3 b4 b5 b6 b7 : UInt8) (depth d' : Int)
    (h : chunkStep (le64 b0 b1 b2 b3 b4 b5 b6 b7) depth = some d') :
    plainBytes [b0, b1, b2, b3, b4, b5, b6, b7] ∧ depthAfter [b0, b1, b2, b3, b4, b5, b6, b7] depth = some d' := by
  unfold chunkStep at h
  simp only [containsByte_spec, countChunk_spec] at h
  generalize hl : [b0, b1, b2, b3, b4, b5, b6, b7] = l at h ⊢
  split at h
  · simp at h
  · rename_i hq
    simp only [Bool.or_eq_true, not_or, Bool.not_eq_true] at hq
    have hplain : plainBytes l := by
      intro x hx
      constructor
      · cases hx34 : (x == 34) with
        | false => rfl
        | true =>
          have : l.any (· == 34) = true := List.any_eq_true.mpr ⟨x, hx, hx34⟩
          rw [hq.1] at this; simp at this
      · cases hx35 : (x == 35) with
        | false => rfl
        | true =>
          have : l.any (· == 35) = true := List.any_eq_true.mpr ⟨x, hx, hx35⟩
          rw [hq.2] at this; simp at this
    refine ⟨hplain, ?_⟩
    have hcl : (if l.any (· == 125) = true then ((l.count 125 : Nat) : Int) else 0) = (l.count 125 : Int) := by
      split
      · rfl
      · rename_i hn; simp only [Bool.not_eq_true] at hn; rw [count_zero_of_not_any l 125 hn]; rfl
    have hop : (if l.any (· == 123) = true then ((l.count 123 : Nat) : Int) else 0) = (l.count 123 : Int) := by
      split
      · rfl
      · rename_i hn; simp only [Bool.not_eq_true] at hn; rw [count_zero_of_not_any l 123 hn]; rfl
    simp only [hcl, hop] at h
    split at h
    · simp at h
    · rename_i hd
      simp only [Option.some.injEq] at h
      rw [depthAfter_count l depth (by omega), h]

example : chunkStep (le64 123 32 123 125 97 123 0 255) 2 = some 4 := by decide
example : chunkStep (le64 123 32 123 125 97 123 0 255) 1 = none := by decide

end Jomini.TextReader
