import JominiModel.Proofs.TextTapeStable
import JominiModel.Proofs.TextTapeScalars
import JominiModel.Proofs.TextTapeTotal
/-
C19 (text tape), the tail behind the split point: helper lemmas for `C19_text_tape_tail_sharp`
(Proofs/TextTapeCut.lean).

* pointwise stability: a token that is not the last one and not an open container (`NotOpen`)
  is never touched again by the run (`run_settled`) — sharper than the frozen PREFIX of
  Proofs/TextTapeStable.lean, which stops at the still open top-level container;
* the tape never shrinks (`run_len_le`);
* every scalar of a truncated parse carries the bytes of the FULL input at its offset
  (`scalars_from_full`).
-/
namespace Jomini.TextTape
open Jomini

/-- the token at `i` is not an open container: a container start there has its `end` behind it -/
def NotOpen (T : List Tok) (i : Nat) : Prop :=
  ∀ e m, (T[i]? = some (.array e m) ∨ T[i]? = some (.object e m)) → i < e

/-- the parent token is an open container: its `end` slot (the grand-parent) lies in front of it -/
theorem TInv.grand_lt {T : List Tok} {p : Nat} {ph : Bool} (h : TInv T p ph) (hp : p ≠ 0) :
    endOf T[p]? < p := by
  obtain ⟨C, hC⟩ := h
  cases hC.chain with
  | top => exact absurd rfl hp
  | link h0 hg hp' hch =>
    rw [List.getElem?_map] at hp'
    cases hT : T[p]? with
    | none => simp [hT] at hp'
    | some t =>
      rw [hT] at hp'
      cases t <;> simp [Tok.sh] at hp' <;> subst hp' <;> simpa [endOf] using hg

theorem settled_ne_exc {st : St} (hinv : StInv st) {i : Nat} (hi : i + 1 < st.tape.length)
    (hn : NotOpen st.tape i) : i ≠ exc st := by
  obtain ⟨hT, _, _⟩ := hinv
  unfold exc
  split
  · omega
  · next hp =>
    intro heq
    subst heq
    obtain ⟨m, hm⟩ := hT.parent_tok hp
    have hlt := hT.grand_lt hp
    have := hn _ m hm
    omega

/-- one iteration does not touch a settled token -/
theorem step_settled {n : Nat} {st st' : St} {d d' : Bytes} (hinv : StInv st) {i : Nat}
    (hi : i + 1 < st.tape.length) (hn : NotOpen st.tape i) (h : stepAt n st d = .cont st' d') :
    st'.tape[i]? = st.tape[i]? ∧ i + 1 < st'.tape.length ∧ NotOpen st'.tape i := by
  obtain ⟨hk, _⟩ := stepAt_keep hinv h
  have he := hk.2 i hi (settled_ne_exc hinv hi hn)
  refine ⟨he, by have := hk.1; omega, ?_⟩
  intro e m hc
  rw [he] at hc
  exact hn e m hc

theorem atEof_settled {st : St} {T : List Tok} {b : Bool} (hinv : StInv st) {i : Nat}
    (hi : i + 1 < st.tape.length) (hn : NotOpen st.tape i) (h : atEof st = .ok T b) :
    T[i]? = st.tape[i]? := by
  have hne := settled_ne_exc hinv hi hn
  unfold atEof at h
  split at h
  · simp at h
  · split at h
    · simp at h; rw [← h.1]
    · next hp =>
      simp only at h
      split at h
      · split at h
        · simp at h
        · next tape' hset =>
          simp only [Res.ok.injEq] at h
          obtain ⟨rfl, _⟩ := h
          obtain ⟨rfl, _⟩ := setTok_some hset
          rw [exc_of_ne hp] at hne
          rw [List.getElem?_set_ne (Ne.symm hne), List.getElem?_append_left (by omega)]
      · simp at h

theorem run_settled (n : Nat) : ∀ (fuel : Nat) (st : St) (d : Bytes) (T : List Tok) (b : Bool) (i : Nat),
    StInv st → i + 1 < st.tape.length → NotOpen st.tape i → run n fuel st d = .ok T b →
    T[i]? = st.tape[i]?
  | 0, _, _, _, _, _, _, _, _, h => by simp [run] at h
  | fuel + 1, st, d, T, b, i, hinv, hi, hn, h => by
    simp only [run, step] at h
    cases hsk : skipWs d with
    | none => simp only [hsk] at h; exact atEof_settled hinv hi hn h
    | some x =>
      simp only [hsk] at h
      cases hstep : stepAt n st x with
      | done r =>
        simp only [hstep] at h
        subst h
        exact absurd hstep stepAt_not_ok
      | cont st' d' =>
        simp only [hstep] at h
        obtain ⟨he, hi', hn'⟩ := step_settled hinv hi hn hstep
        rw [← he]
        exact run_settled n fuel st' d' T b i (stepAt_inv hinv hstep) hi' hn' h

theorem atEof_len_le {st : St} {T : List Tok} {b : Bool} (h : atEof st = .ok T b) :
    st.tape.length ≤ T.length ∧ T.length ≤ st.tape.length + 1 := by
  unfold atEof at h
  split at h
  · simp at h
  · split at h
    · simp at h; rw [← h.1]; omega
    · simp only at h
      split at h
      · split at h
        · simp at h
        · next tape' hset =>
          simp only [Res.ok.injEq] at h
          obtain ⟨rfl, _⟩ := h
          obtain ⟨rfl, _⟩ := setTok_some hset
          simp
      · simp at h

/-- the tape never shrinks -/
theorem run_len_le (n : Nat) : ∀ (fuel : Nat) (st : St) (d : Bytes) (T : List Tok) (b : Bool),
    StInv st → run n fuel st d = .ok T b → st.tape.length ≤ T.length
  | 0, _, _, _, _, _, h => by simp [run] at h
  | fuel + 1, st, d, T, b, hinv, h => by
    simp only [run, step] at h
    cases hsk : skipWs d with
    | none => simp only [hsk] at h; exact (atEof_len_le h).1
    | some x =>
      simp only [hsk] at h
      cases hstep : stepAt n st x with
      | done r =>
        simp only [hstep] at h
        subst h
        exact absurd hstep stepAt_not_ok
      | cont st' d' =>
        simp only [hstep] at h
        have h1 := (stepAt_keep hinv hstep).1.1
        have h2 := run_len_le n fuel st' d' T b (stepAt_inv hinv hstep) h
        omega

theorem NotOpen.shift {T : List Tok} {i : Nat} (L : Nat) (h : NotOpen T i) :
    NotOpen (T.map (Tok.shift L)) i := by
  intro e m hc
  apply h e m
  rw [getElem?_shift] at hc
  cases hT : T[i]? with
  | none => rw [hT] at hc; simp at hc
  | some t =>
    rw [hT] at hc
    cases t <;> simp [Tok.shift] at hc ⊢ <;> exact hc

/-- the bytes of a truncated input at an offset inside it are the bytes of the full input there -/
theorem take_drop_take (d : Bytes) (k a n : Nat) (h : a + n ≤ k) :
    ((d.take k).drop a).take n = (d.drop a).take n := by
  rw [List.drop_take, List.take_take, Nat.min_eq_left (by omega)]

/-- nothing is fabricated: every scalar of the tape of a truncated input carries exactly the bytes
the FULL input has at the scalar's offset (and lies inside the truncated part) -/
theorem scalars_from_full (d : Bytes) (k : Nat) (hk : k ≤ d.length) (T' : List Tok) (b' : Bool)
    (h' : parse (d.take k) = .ok T' b') :
    ∀ s ∈ slices T', s.bytes.length ≤ s.tail ∧ s.tail ≤ k ∧
      s.bytes = (d.drop (k - s.tail)).take s.bytes.length := by
  have hw := C06_text_inv _ T' b' h'
  intro s hs
  obtain ⟨h1, h2, h3⟩ := hw.scalars_inside s hs
  have hlen : (d.take k).length = k := by simp; omega
  rw [hlen] at h1
  refine ⟨h2, h1, ?_⟩
  simp only [Slice.off, hlen] at h3
  exact h3.trans (take_drop_take d k (k - s.tail) s.bytes.length (by omega))

/-! ### how much one iteration / the rest of a run can add to the tape -/
theorem setTok_len {T T' : List Tok} {j : Nat} {X : Tok} (h : setTok T j X = some T') : T'.length = T.length := by
  obtain ⟨rfl, _⟩ := setTok_some h; simp
theorem insertBeforeLast_len {T T' : List Tok} {x : Tok} (h : insertBeforeLast T x = some T') :
    T'.length = T.length + 1 := by
  obtain ⟨T0, l, rfl, rfl⟩ := insertBeforeLast_some h; simp
theorem lexValue_len {tape tape' : List Tok} {d rest : Bytes} (h : lexValue tape d = .ok (tape', rest)) :
    tape'.length = tape.length + 1 := by
  obtain ⟨t, rfl, _⟩ := lexValue_push h; simp
theorem parseScalarTok_len {tape tape' : List Tok} {d rest : Bytes} (h : parseScalarTok tape d = .ok (tape', rest)) :
    tape'.length = tape.length + 1 := by
  obtain ⟨t, rfl, _⟩ := parseScalarTok_push h; simp

theorem paramDefBody_len {mixed : Bool} {tape : List Tok} {parent : Nat} {st' : St} {data d' : Bytes}
    (h : paramDefBody mixed tape parent data = .cont st' d') : st'.tape.length ≤ tape.length + 3 := by
  unfold paramDefBody at h
  simp only at h
  split_cont h
  all_goals
    simp only [Step.cont.injEq] at h
    obtain ⟨rfl, _⟩ := h
    simp

theorem stepKvs_len {st st' : St} {d d' : Bytes} (h : stepKvs st d = .cont st' d') :
    st'.tape.length ≤ st.tape.length + 3 := by
  unfold stepKvs at h
  split_cont h
  all_goals
    simp only [Step.cont.injEq] at h
    obtain ⟨rfl, _⟩ := h
    try (have e2 := insertBeforeLast_len (by assumption))
    simp at *
    try omega
theorem paramDef_len {st st' : St} {data d' : Bytes} {i : Bool}
    (h : paramDef st data i = .cont st' d') : st'.tape.length ≤ st.tape.length + 3 := by
  unfold paramDef at h
  split at h
  · contradiction
  · split at h
    · contradiction
    · next tape parent hp =>
      have hb := paramDefBody_len h
      unfold paramDefPre at hp
      cases i with
      | false => simp at hp; obtain ⟨rfl, rfl⟩ := hp; exact hb
      | true =>
        simp only [if_true] at hp
        split at hp
        · simp at hp
        · simp only [Option.map_eq_some_iff, Prod.mk.injEq] at hp
          obtain ⟨t, hset, rfl, rfl⟩ := hp
          have := setTok_len hset
          omega

theorem stepKey_len {st st' : St} {d d' : Bytes} (h : stepKey st d = .cont st' d') :
    st'.tape.length ≤ st.tape.length + 3 := by
  unfold stepKey at h
  split at h
  · contradiction
  · split at h
    · simp only at h
      split_cont h
      all_goals
        simp only [Step.cont.injEq] at h
        obtain ⟨rfl, _⟩ := h
        try (have e1 := setTok_len (by assumption))
        simp at *
        try omega
    · split at h
      · split_cont h
        · simp only [Step.cont.injEq] at h
          obtain ⟨rfl, _⟩ := h
          simp
        · simp only [Step.cont.injEq] at h
          obtain ⟨rfl, _⟩ := h
          simp only [List.length_append, List.length_dropLast, List.length_cons, List.length_nil]
          omega
      · split at h
        · exact paramDef_len h
        · split at h
          · next hlex =>
            simp only [Step.cont.injEq] at h
            obtain ⟨rfl, _⟩ := h
            have := lexValue_len hlex
            simp; omega
          · cases ‹Fail› <;> simp [Step.fail] at h
theorem stepObjectValue_len {st st' : St} {d d' : Bytes} (h : stepObjectValue st d = .cont st' d') :
    st'.tape.length ≤ st.tape.length + 3 := by
  unfold stepObjectValue at h
  split_cont h
  · simp only [Step.cont.injEq] at h
    obtain ⟨rfl, _⟩ := h
    simp
  · next hlex =>
    simp only [Step.cont.injEq] at h
    obtain ⟨rfl, _⟩ := h
    have := lexValue_len hlex
    simp; omega
  · cases ‹Fail› <;> simp [Step.fail] at h

theorem stepArrayOp_len {st st' : St} {d d' : Bytes} {r : Res} (h : stepArrayOp r st d = .cont st' d') :
    st'.tape.length ≤ st.tape.length + 3 := by
  unfold stepArrayOp at h
  split at h
  · contradiction
  · next tape mixed hpre =>
    have hl : tape.length ≤ st.tape.length + 1 := by
      unfold arrayOpPre at hpre
      split at hpre
      · simp at hpre; rw [← hpre.1]; omega
      · split at hpre
        · split at hpre
          · next hins => simp at hpre; rw [← hpre.1]; have := insertBeforeLast_len hins; omega
          · simp at hpre
        · simp at hpre
    split at h
    · simp only [Step.cont.injEq] at h
      obtain ⟨rfl, _⟩ := h
      simp; omega
    · contradiction

theorem stepArrayValue_len {n : Nat} {st st' : St} {d d' : Bytes} (h : stepArrayValue n st d = .cont st' d') :
    st'.tape.length ≤ st.tape.length + 3 := by
  unfold stepArrayValue at h
  split at h
  · contradiction
  · split at h
    · simp only [Step.cont.injEq] at h
      obtain ⟨rfl, _⟩ := h
      simp
    · split at h
      · simp only at h
        split_cont h
        next hset =>
        simp only [Step.cont.injEq] at h
        obtain ⟨rfl, _⟩ := h
        have := setTok_len hset
        simp; omega
      · split at h
        · split at h
          · next hlex =>
            simp only [Step.cont.injEq] at h
            obtain ⟨rfl, _⟩ := h
            have := lexValue_len hlex
            simp; omega
          · cases ‹Fail› <;> simp [Step.fail] at h
        · split at h
          · exact stepArrayOp_len h
          · split at h
            · next hlex =>
              simp only [Step.cont.injEq] at h
              obtain ⟨rfl, _⟩ := h
              have := parseScalarTok_len hlex
              simp; omega
            · cases ‹Fail› <;> simp [Step.fail] at h

theorem flag_parent_len (T : List Tok) (p : Nat) :
    (match T[p]? with
      | some (.array e _) => T.set p (.array e true)
      | some (.object e _) => T.set p (.object e true)
      | _ => T).length = T.length := by
  have := congrArg List.length (flag_parent_sh T p)
  rw [List.length_map, List.length_map] at this
  exact this

theorem stepParseOpen_len {st st' : St} {d d' : Bytes} (h : stepParseOpen st d = .cont st' d') :
    st'.tape.length ≤ st.tape.length + 3 := by
  unfold stepParseOpen at h
  split at h
  · contradiction
  · split at h
    · split at h
      · contradiction
      · simp only at h
        split at h
        · contradiction
        · next hset =>
          simp only [Step.cont.injEq] at h
          obtain ⟨rfl, _⟩ := h
          have := setTok_len hset
          simp; omega
    · split at h
      · split at h
        · contradiction
        · exact paramDef_len h
      · split at h
        · split at h
          · contradiction
          · split at h
            · contradiction
            · split at h
              · simp only [Step.cont.injEq] at h
                obtain ⟨rfl, _⟩ := h
                omega
              · split at h
                · contradiction
                · simp only at h
                  split at h
                  · contradiction
                  · next hset =>
                    simp only [Step.cont.injEq] at h
                    obtain ⟨rfl, _⟩ := h
                    have := setTok_len hset
                    simp only; omega
        · split at h
          · cases ‹Fail› <;> simp [Step.fail] at h
          · next tape1 rest' hlex =>
            have hl1 := lexValue_len hlex
            simp only at h
            generalize htape2 : (if st.mixed = true then
                match tape1[st.parent]? with
                | some (.array e _) => tape1.set st.parent (.array e true)
                | some (.object e _) => tape1.set st.parent (.object e true)
                | _ => tape1
              else tape1) = tape2 at h
            have hl2 : tape2.length = tape1.length := by
              rw [← htape2]; split
              · exact flag_parent_len _ _
              · rfl
            split_cont h
            all_goals
              next hset =>
              simp only [Step.cont.injEq] at h
              obtain ⟨rfl, _⟩ := h
              have := setTok_len hset
              simp only; omega

theorem stepAt_len_le {n : Nat} {st st' : St} {d d' : Bytes} (h : stepAt n st d = .cont st' d') :
    st'.tape.length ≤ st.tape.length + 3 := by
  unfold stepAt at h
  cases hs : st.state <;> simp only [hs] at h
  · exact stepKey_len h
  · exact stepKvs_len h
  · exact stepObjectValue_len h
  · exact stepArrayValue_len h
  · exact stepParseOpen_len h

/-- a run adds at most three tokens per iteration and one at the end of the input -/
theorem run_len_bound (n : Nat) : ∀ (fuel : Nat) (st : St) (d : Bytes) (T : List Tok) (b : Bool),
    run n fuel st d = .ok T b → T.length ≤ st.tape.length + 3 * mu st.state d + 1
  | 0, _, _, _, _, h => by simp [run] at h
  | fuel + 1, st, d, T, b, h => by
    simp only [run, step] at h
    cases hsk : skipWs d with
    | none =>
      simp only [hsk] at h
      have := (atEof_len_le h).2
      omega
    | some x =>
      simp only [hsk] at h
      cases hstep : stepAt n st x with
      | done r =>
        simp only [hstep] at h
        subst h
        exact absurd hstep stepAt_not_ok
      | cont st' d' =>
        simp only [hstep] at h
        have h0 := run_len_bound n fuel st' d' T b h
        have h1 := (stepAt_prog hstep).mu_lt
        have h2 := (skipWs_suffix hsk).length_le
        have h3 := stepAt_len_le hstep
        simp only [mu] at h0 h1 ⊢
        omega

/-- behind the split point (the next iteration leaves fewer than two bytes) the truncated run adds
at most 13 tokens -/
theorem short_tail_len {n : Nat} {st : St} {d : Bytes} (hs : Short n st d) :
    ∀ (fuel : Nat) (T : List Tok) (b : Bool), run n fuel st d = .ok T b → T.length ≤ st.tape.length + 13
  | 0, _, _, h => by simp [run] at h
  | fuel + 1, T, b, h => by
    simp only [run] at h
    cases hstep : step n st d with
    | done r =>
      simp only [hstep] at h
      subst h
      unfold step at hstep
      cases hsk : skipWs d with
      | none =>
        simp only [hsk, Step.done.injEq] at hstep
        have := (atEof_len_le hstep).2
        omega
      | some x =>
        simp only [hsk] at hstep
        exact absurd hstep stepAt_not_ok
    | cont st1 d1 =>
      simp only [hstep] at h
      have hd1 := hs st1 d1 hstep
      have h0 := run_len_bound n fuel st1 d1 T b h
      have h3 : st1.tape.length ≤ st.tape.length + 3 := by
        unfold step at hstep
        cases hsk : skipWs d with
        | none => simp [hsk] at hstep
        | some x =>
          simp only [hsk] at hstep
          exact stepAt_len_le hstep
      have hfl : flag st1.state ≤ 1 := by cases st1.state <;> simp [flag]
      simp only [mu] at h0
      omega

/-! ### the sharp bound: what a run can still do with at most one byte left -/

theorem splitAtScalar_one (c : UInt8) : splitAtScalar [c] = some ([c], []) := by
  rw [splitAtScalar_eq_fallback sse_eq_tab]
  have := findFirst_le isBoundary [c]
  simp only [List.length_cons, List.length_nil] at this
  have hm : max (findFirst isBoundary [c]) 1 = 1 := by omega
  simp [splitAtScalarFallback, splitAtChecked, hm]

theorem lexValue_one {tape tape' : List Tok} {c : UInt8} {r : Bytes} (h : lexValue tape [c] = .ok (tape', r)) :
    r = [] := by
  unfold lexValue at h
  simp only at h
  split at h
  · next h34 =>
    subst h34
    unfold parseQuoteTok at h
    rw [parseQuoteScalar_eq_fallback] at h
    simp [parseQuoteScalarFallback, quoteClose] at h
  · split at h
    · unfold parseVariableTok at h
      simp [parseScalarTok, splitAtScalar_one] at h
      exact h.2
    · simp [parseScalarTok, splitAtScalar_one] at h
      exact h.2

theorem stepKey_len1 {st st' : St} {c : UInt8} {d' : Bytes} (h : stepKey st [c] = .cont st' d') :
    st'.tape.length ≤ st.tape.length + 1 := by
  unfold stepKey at h
  simp only at h
  split at h
  · split_cont h
    all_goals
      simp only [Step.cont.injEq] at h
      obtain ⟨rfl, _⟩ := h
      try (have e1 := setTok_len (by assumption))
      simp at *
      try omega
  · split at h
    · simp [skipWs, skipWsAux] at h
    · split at h
      · simp [paramDef] at h
      · split at h
        · next hlex =>
          simp only [Step.cont.injEq] at h
          obtain ⟨rfl, _⟩ := h
          have := lexValue_len hlex
          simp; omega
        · cases ‹Fail› <;> simp [Step.fail] at h

theorem stepKvs_len1 {st st' : St} {c : UInt8} {d' : Bytes} (h : stepKvs st [c] = .cont st' d') :
    st'.tape.length ≤ st.tape.length + 1 := by
  unfold stepKvs at h
  split_cont h
  all_goals
    simp only [Step.cont.injEq] at h
    obtain ⟨rfl, _⟩ := h
    try (have e2 := insertBeforeLast_len (by assumption))
    simp at *
    try omega

theorem stepObjectValue_len1 {st st' : St} {c : UInt8} {d' : Bytes} (h : stepObjectValue st [c] = .cont st' d') :
    st'.tape.length ≤ st.tape.length + 1 := by
  unfold stepObjectValue at h
  split_cont h
  · simp only [Step.cont.injEq] at h
    obtain ⟨rfl, _⟩ := h
    simp
  · next hlex =>
    simp only [Step.cont.injEq] at h
    obtain ⟨rfl, _⟩ := h
    have := lexValue_len hlex
    simp; omega
  · cases ‹Fail› <;> simp [Step.fail] at h

theorem stepParseOpen_len1 {st st' : St} {c : UInt8} {d' : Bytes} (h : stepParseOpen st [c] = .cont st' d') :
    st'.tape.length ≤ st.tape.length + 1 := by
  unfold stepParseOpen at h
  simp only at h
  split at h
  · split at h
    · contradiction
    · split at h
      · contradiction
      · next hset =>
        simp only [Step.cont.injEq] at h
        obtain ⟨rfl, _⟩ := h
        have := setTok_len hset
        simp; omega
  · split at h
    · split at h
      · contradiction
      · unfold paramDef at h
        rw [if_pos (by simp)] at h
        contradiction
    · split at h
      · simp only [skipWs, skipWsAux] at h
        contradiction
      · split at h
        · cases ‹Fail› <;> simp [Step.fail] at h
        · next tape1 rest' hlex =>
          have := lexValue_one hlex
          subst this
          simp [skipWs, skipWsAux] at h

/-- one iteration on a single remaining byte adds at most one token — except the first operator of
an array (`MixedContainer` and the operator: two tokens), after which ArrayValue is left with no
input, which the end of the input does not accept -/
theorem stepArrayValue_len1 {n : Nat} {st st' : St} {c : UInt8} {d' : Bytes} (hs : st.state = .arrayValue)
    (h : stepArrayValue n st [c] = .cont st' d') :
    st'.tape.length ≤ st.tape.length + 1 ∨ (st'.state = .arrayValue ∧ d' = []) := by
  unfold stepArrayValue at h
  simp only at h
  split at h
  · simp only [Step.cont.injEq] at h
    obtain ⟨rfl, _⟩ := h
    left; simp
  · split at h
    · split_cont h
      next hset =>
      simp only [Step.cont.injEq] at h
      obtain ⟨rfl, _⟩ := h
      have := setTok_len hset
      left; simp; omega
    · split at h
      · split at h
        · next hlex =>
          simp only [Step.cont.injEq] at h
          obtain ⟨rfl, _⟩ := h
          have := lexValue_len hlex
          left; simp; omega
        · cases ‹Fail› <;> simp [Step.fail] at h
      · split at h
        · right
          unfold stepArrayOp at h
          split at h
          · contradiction
          · split at h
            · next o r hop =>
              simp only [Step.cont.injEq] at h
              obtain ⟨rfl, rfl⟩ := h
              refine ⟨?_, ?_⟩
              · exact hs
              · unfold lexOperator at hop
                simp only [List.head?_nil, List.tail_nil] at hop
                repeat' (split at hop)
                all_goals simp_all
            · contradiction
        · split at h
          · next hlex =>
            simp only [Step.cont.injEq] at h
            obtain ⟨rfl, _⟩ := h
            have := parseScalarTok_len hlex
            left; simp; omega
          · cases ‹Fail› <;> simp [Step.fail] at h

theorem stepAt_len1 {n : Nat} {st st' : St} {c : UInt8} {d' : Bytes} (h : stepAt n st [c] = .cont st' d') :
    st'.tape.length ≤ st.tape.length + 1 ∨ (st'.state = .arrayValue ∧ d' = []) := by
  unfold stepAt at h
  cases hs : st.state <;> simp only [hs] at h
  · exact .inl (stepKey_len1 h)
  · exact .inl (stepKvs_len1 h)
  · exact .inl (stepObjectValue_len1 h)
  · exact stepArrayValue_len1 hs h
  · exact .inl (stepParseOpen_len1 h)

theorem atEof_key {st : St} {T : List Tok} {b : Bool} (h : atEof st = .ok T b) : st.state = .key := by
  unfold atEof at h
  split at h
  · simp at h
  · next hs => simpa using hs

/-- with at most one byte of input left a successful run adds at most three tokens: one per
iteration (at most two iterations: KeyValueSeparator may hand its byte on) and the `End` of the EOF
tolerance -/
theorem one_byte_tail {n : Nat} : ∀ (fuel : Nat) (st : St) (d : Bytes) (T : List Tok) (b : Bool),
    d.length ≤ 1 → run n fuel st d = .ok T b → T.length ≤ st.tape.length + 2 + flag st.state
  | 0, _, _, _, _, _, h => by simp [run] at h
  | fuel + 1, st, d, T, b, hd, h => by
    simp only [run, step] at h
    cases hsk : skipWs d with
    | none =>
      simp only [hsk] at h
      have := (atEof_len_le h).2
      omega
    | some x =>
      simp only [hsk] at h
      obtain ⟨c, cs, rfl, _, _, hlen⟩ := skipWsAux_some d false x hsk
      have hcs : cs = [] := by
        cases cs with
        | nil => rfl
        | cons a as => simp at hlen; omega
      subst hcs
      cases hstep : stepAt n st [c] with
      | done r =>
        simp only [hstep] at h
        subst h
        exact absurd hstep stepAt_not_ok
      | cont st1 d1 =>
        simp only [hstep] at h
        have hprog := stepAt_prog hstep
        rcases stepAt_len1 hstep with hl | ⟨hsa, hd1⟩
        · rcases hprog with hlt | ⟨heq, hf1, hf0⟩
          · -- the byte is consumed: the next iteration sees the end of the input
            have hd1 : d1 = [] := by
              cases d1 with
              | nil => rfl
              | cons a as => simp at hlt
            subst hd1
            cases fuel with
            | zero => simp [run] at h
            | succ f =>
              simp only [run, step, skipWs, skipWsAux] at h
              have := (atEof_len_le h).2
              omega
          · -- the byte is handed on (KeyValueSeparator / ParseOpen): one more iteration like this
            have := one_byte_tail fuel st1 d1 T b (by simp at heq; omega) h
            omega
        · subst hd1
          cases fuel with
          | zero => simp [run] at h
          | succ f =>
            simp only [run, step, skipWs, skipWsAux] at h
            have := atEof_key h
            rw [hsa] at this; cases this

/-- behind the split point the truncated run adds at most SIX tokens: three in the iteration that
leaves fewer than two bytes (a parameter block `[[x] k` pushes three), then at most three more
(`one_byte_tail`).  The bound is attained: `a={[[x] k }` ends with `Parameter, Object, MixedContainer,
Unquoted, End, End` behind `a, Object`. -/
theorem short_tail_sharp {n : Nat} {st : St} {d : Bytes} (hs : Short n st d) :
    ∀ (fuel : Nat) (T : List Tok) (b : Bool), run n fuel st d = .ok T b → T.length ≤ st.tape.length + 6
  | 0, _, _, h => by simp [run] at h
  | fuel + 1, T, b, h => by
    simp only [run] at h
    cases hstep : step n st d with
    | done r =>
      simp only [hstep] at h
      subst h
      unfold step at hstep
      cases hsk : skipWs d with
      | none =>
        simp only [hsk, Step.done.injEq] at hstep
        have := (atEof_len_le hstep).2
        omega
      | some x =>
        simp only [hsk] at hstep
        exact absurd hstep stepAt_not_ok
    | cont st1 d1 =>
      simp only [hstep] at h
      have hd1 := hs st1 d1 hstep
      have h0 := one_byte_tail fuel st1 d1 T b (by omega) h
      have h3 : st1.tape.length ≤ st.tape.length + 3 := by
        unfold step at hstep
        cases hsk : skipWs d with
        | none => simp [hsk] at hstep
        | some x =>
          simp only [hsk] at hstep
          exact stepAt_len_le hstep
      have hfl : flag st1.state ≤ 1 := by cases st1.state <;> simp [flag]
      omega

/-! ### the pinned split point: the state after exactly `j` iterations -/

/-- the state and cursor of the main loop after exactly `j` iterations, none of which ended the
parse (a function of the input: nothing is chosen). -/
def iter (n : Nat) : Nat → St → Bytes → Option (St × Bytes)
  | 0, st, d => some (st, d)
  | j + 1, st, d =>
    match step n st d with
    | .cont st' d' => iter n j st' d'
    | .done _ => none

theorem run_iter (n : Nat) : ∀ (j : Nat) (st : St) (d : Bytes) (st' : St) (d' : Bytes),
    iter n j st d = some (st', d') → ∀ F, run n (F + j) st d = run n F st' d'
  | 0, st, d, st', d', h, F => by
    simp only [iter, Option.some.injEq, Prod.mk.injEq] at h
    rw [h.1, h.2]; rfl
  | j + 1, st, d, st', d', h, F => by
    simp only [iter] at h
    cases hstep : step n st d with
    | done r => rw [hstep] at h; cases h
    | cont st1 d1 =>
      rw [hstep] at h
      rw [show F + (j + 1) = (F + j) + 1 by omega, run_cont hstep]
      exact run_iter n j st1 d1 st' d' h F

/-- two runs from the same state that both end agree, whatever their fuel -/
theorem run_det {n f1 f2 : Nat} {st : St} {d : Bytes} {r1 r2 : Res}
    (h1 : run n f1 st d = r1) (hr1 : r1 ≠ .outOfFuel) (h2 : run n f2 st d = r2) (hr2 : r2 ≠ .outOfFuel) :
    r1 = r2 := by
  have a := run_more_fuel n f1 f2 st d r1 h1 hr1
  have b := run_more_fuel n f2 f1 st d r2 h2 hr2
  rw [Nat.add_comm] at b
  rw [← a, ← b]

/-- C19, run level with the split point pinned: the parse of a truncated input `dp` and the parse of
any extension `dp ++ q` are in the SAME state (positions shifted by `|q|`) after the same number `j`
of iterations, and from there the truncated parse has fewer than two bytes of lookahead left after
its next iteration (or ends). -/
theorem iter_lockstep (n1 n2 : Nat) (q : Bytes) : ∀ (fuel : Nat) (st : St) (dp : Bytes) (T' : List Tok) (b' : Bool),
    run n1 fuel st dp = .ok T' b' → StInv st →
    ∃ j st0 d0 fuel0, StInv st0 ∧ iter n1 j st dp = some (st0, d0) ∧
      iter n2 j (st.shift q.length) (dp ++ q) = some (st0.shift q.length, d0 ++ q) ∧
      Short n1 st0 d0 ∧ run n1 fuel0 st0 d0 = .ok T' b'
  | 0, _, _, _, _, h, _ => by simp [run] at h
  | fuel + 1, st, dp, T', b', h, hinv => by
    cases hstep : step n1 st dp with
    | done r =>
      refine ⟨0, st, dp, fuel + 1, hinv, rfl, rfl, ?_, h⟩
      intro st' d' hc
      rw [hstep] at hc; cases hc
    | cont st' d' =>
    by_cases hd : d'.length < 2
    · refine ⟨0, st, dp, fuel + 1, hinv, rfl, rfl, ?_, h⟩
      intro st'' d'' hc
      rw [hstep] at hc
      simp only [Step.cont.injEq] at hc
      rw [← hc.2]; exact hd
    · have hd2 : 2 ≤ d'.length := by omega
      have hrun : run n1 (fuel + 1) st dp = run n1 fuel st' d' := run_cont hstep
      rw [hrun] at h
      have hstep2 : step n2 (st.shift q.length) (dp ++ q) = .cont (st'.shift q.length) (d' ++ q) := by
        simp only [step] at hstep ⊢
        cases hsk : skipWs dp with
        | none => simp [hsk] at hstep
        | some x =>
          simp only [hsk] at hstep
          rw [skipWs_append q hsk]
          obtain ⟨c, cs, rfl, _⟩ := skipWsAux_some dp false x hsk
          simpa using stepAt_append (n2 := n2) q hstep hd2
      have hinv' : StInv st' := by
        simp only [step] at hstep
        cases hsk : skipWs dp with
        | none => simp [hsk] at hstep
        | some x => simp only [hsk] at hstep; exact stepAt_inv hinv hstep
      obtain ⟨j, st0, d0, fuel0, h1, h2, h3, h4, h5⟩ := iter_lockstep n1 n2 q fuel st' d' T' b' h hinv'
      refine ⟨j + 1, st0, d0, fuel0, h1, ?_, ?_, h4, h5⟩
      · simp only [iter, hstep]; exact h2
      · simp only [iter, hstep2]; exact h3

/-- a container token whose `end` slot is still 0: the open container of the top level -/
def isOpenTop : Tok → Bool
  | .array 0 _ => true
  | .object 0 _ => true
  | _ => false

/-- the number of FINAL tokens of a loop state, as a function of the state: at the top level all but
the last token, inside containers everything in front of the open top-level container. -/
def frozenLen (st : St) : Nat :=
  if st.parent = 0 then st.tape.length - 1 else st.tape.findIdx isOpenTop

theorem frozen_frozenLen {st : St} (hinv : StInv st) (hne : st.tape ≠ []) : Frozen (frozenLen st) st := by
  obtain ⟨f, hf, hf0, hf1⟩ := exists_frozen hinv hne
  have hfl : frozenLen st = f := by
    unfold frozenLen
    by_cases hp : st.parent = 0
    · rw [if_pos hp]; have := hf0 hp; omega
    · rw [if_neg hp]
      obtain ⟨mx, hm⟩ := hf1 hp
      have hlt : f < st.tape.length := hf.1
      rw [List.findIdx_eq hlt]
      constructor
      · rcases hm with hm | hm <;>
        · rw [List.getElem?_eq_getElem hlt] at hm
          simp only [Option.some.injEq] at hm
          rw [hm]; rfl
      · intro i hi
        have hno := hf.2.1 i hi
        have hil : i < st.tape.length := by omega
        cases ht : st.tape[i] with
        | array e m =>
          have := hno e m (.inl (by rw [List.getElem?_eq_getElem hil, ht]))
          cases e with
          | zero => omega
          | succ e => rfl
        | object e m =>
          have := hno e m (.inr (by rw [List.getElem?_eq_getElem hil, ht]))
          cases e with
          | zero => omega
          | succ e => rfl
        | _ => rfl
  rw [hfl]; exact hf


end Jomini.TextTape
