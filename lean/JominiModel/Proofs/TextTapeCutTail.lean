import JominiModel.Proofs.TextTapeStable
import JominiModel.Proofs.TextTapeScalars
import JominiModel.Proofs.TextTapeTotal
/-
C19 (text tape), the tail behind the split point: helper lemmas for `C19_text_tape_tail_partial`
(Proofs/TextTapeCut.lean).

* pointwise stability: a token that is not the last one and not an open container (`NotOpen`)
  is never touched again by the run (`run_settled`) — sharper than the frozen PREFIX of
  Proofs/TextTapeStable.lean, which stops at the still open top-level container;
* the tape never shrinks (`run_len_le`);
* every scalar of a truncated parse carries the bytes of the FULL input at its offset
  (`scalars_from_full`).
-/
namespace Jomini.TextTape
open Jomini

/-- the token at `i` is not an open container: a container start there has its `end` behind it -/
def NotOpen (T : List Tok) (i : Nat) : Prop :=
  ∀ e m, (T[i]? = some (.array e m) ∨ T[i]? = some (.object e m)) → i < e

/-- the parent token is an open container: its `end` slot (the grand-parent) lies in front of it -/
theorem TInv.grand_lt {T : List Tok} {p : Nat} {ph : Bool} (h : TInv T p ph) (hp : p ≠ 0) :
    endOf T[p]? < p := by
  obtain ⟨C, hC⟩ := h
  cases hC.chain with
  | top => exact absurd rfl hp
  | link h0 hg hp' hch =>
    rw [List.getElem?_map] at hp'
    cases hT : T[p]? with
    | none => simp [hT] at hp'
    | some t =>
      rw [hT] at hp'
      cases t <;> simp [Tok.sh] at hp' <;> subst hp' <;> simpa [endOf] using hg

theorem settled_ne_exc {st : St} (hinv : StInv st) {i : Nat} (hi : i + 1 < st.tape.length)
    (hn : NotOpen st.tape i) : i ≠ exc st := by
  obtain ⟨hT, _, _⟩ := hinv
  unfold exc
  split
  · omega
  · next hp =>
    intro heq
    subst heq
    obtain ⟨m, hm⟩ := hT.parent_tok hp
    have hlt := hT.grand_lt hp
    have := hn _ m hm
    omega

/-- one iteration does not touch a settled token -/
theorem step_settled {n : Nat} {st st' : St} {d d' : Bytes} (hinv : StInv st) {i : Nat}
    (hi : i + 1 < st.tape.length) (hn : NotOpen st.tape i) (h : stepAt n st d = .cont st' d') :
    st'.tape[i]? = st.tape[i]? ∧ i + 1 < st'.tape.length ∧ NotOpen st'.tape i := by
  obtain ⟨hk, _⟩ := stepAt_keep hinv h
  have he := hk.2 i hi (settled_ne_exc hinv hi hn)
  refine ⟨he, by have := hk.1; omega, ?_⟩
  intro e m hc
  rw [he] at hc
  exact hn e m hc

theorem atEof_settled {st : St} {T : List Tok} {b : Bool} (hinv : StInv st) {i : Nat}
    (hi : i + 1 < st.tape.length) (hn : NotOpen st.tape i) (h : atEof st = .ok T b) :
    T[i]? = st.tape[i]? := by
  have hne := settled_ne_exc hinv hi hn
  unfold atEof at h
  split at h
  · simp at h
  · split at h
    · simp at h; rw [← h.1]
    · next hp =>
      simp only at h
      split at h
      · split at h
        · simp at h
        · next tape' hset =>
          simp only [Res.ok.injEq] at h
          obtain ⟨rfl, _⟩ := h
          obtain ⟨rfl, _⟩ := setTok_some hset
          rw [exc_of_ne hp] at hne
          rw [List.getElem?_set_ne (Ne.symm hne), List.getElem?_append_left (by omega)]
      · simp at h

theorem run_settled (n : Nat) : ∀ (fuel : Nat) (st : St) (d : Bytes) (T : List Tok) (b : Bool) (i : Nat),
    StInv st → i + 1 < st.tape.length → NotOpen st.tape i → run n fuel st d = .ok T b →
    T[i]? = st.tape[i]?
  | 0, _, _, _, _, _, _, _, _, h => by simp [run] at h
  | fuel + 1, st, d, T, b, i, hinv, hi, hn, h => by
    simp only [run, step] at h
    cases hsk : skipWs d with
    | none => simp only [hsk] at h; exact atEof_settled hinv hi hn h
    | some x =>
      simp only [hsk] at h
      cases hstep : stepAt n st x with
      | done r =>
        simp only [hstep] at h
        subst h
        exact absurd hstep stepAt_not_ok
      | cont st' d' =>
        simp only [hstep] at h
        obtain ⟨he, hi', hn'⟩ := step_settled hinv hi hn hstep
        rw [← he]
        exact run_settled n fuel st' d' T b i (stepAt_inv hinv hstep) hi' hn' h

theorem atEof_len_le {st : St} {T : List Tok} {b : Bool} (h : atEof st = .ok T b) :
    st.tape.length ≤ T.length ∧ T.length ≤ st.tape.length + 1 := by
  unfold atEof at h
  split at h
  · simp at h
  · split at h
    · simp at h; rw [← h.1]; omega
    · simp only at h
      split at h
      · split at h
        · simp at h
        · next tape' hset =>
          simp only [Res.ok.injEq] at h
          obtain ⟨rfl, _⟩ := h
          obtain ⟨rfl, _⟩ := setTok_some hset
          simp
      · simp at h

/-- the tape never shrinks -/
theorem run_len_le (n : Nat) : ∀ (fuel : Nat) (st : St) (d : Bytes) (T : List Tok) (b : Bool),
    StInv st → run n fuel st d = .ok T b → st.tape.length ≤ T.length
  | 0, _, _, _, _, _, h => by simp [run] at h
  | fuel + 1, st, d, T, b, hinv, h => by
    simp only [run, step] at h
    cases hsk : skipWs d with
    | none => simp only [hsk] at h; exact (atEof_len_le h).1
    | some x =>
      simp only [hsk] at h
      cases hstep : stepAt n st x with
      | done r =>
        simp only [hstep] at h
        subst h
        exact absurd hstep stepAt_not_ok
      | cont st' d' =>
        simp only [hstep] at h
        have h1 := (stepAt_keep hinv hstep).1.1
        have h2 := run_len_le n fuel st' d' T b (stepAt_inv hinv hstep) h
        omega

theorem NotOpen.shift {T : List Tok} {i : Nat} (L : Nat) (h : NotOpen T i) :
    NotOpen (T.map (Tok.shift L)) i := by
  intro e m hc
  apply h e m
  rw [getElem?_shift] at hc
  cases hT : T[i]? with
  | none => rw [hT] at hc; simp at hc
  | some t =>
    rw [hT] at hc
    cases t <;> simp [Tok.shift] at hc ⊢ <;> exact hc

/-- the bytes of a truncated input at an offset inside it are the bytes of the full input there -/
theorem take_drop_take (d : Bytes) (k a n : Nat) (h : a + n ≤ k) :
    ((d.take k).drop a).take n = (d.drop a).take n := by
  rw [List.drop_take, List.take_take, Nat.min_eq_left (by omega)]

/-- nothing is fabricated: every scalar of the tape of a truncated input carries exactly the bytes
the FULL input has at the scalar's offset (and lies inside the truncated part) -/
theorem scalars_from_full (d : Bytes) (k : Nat) (hk : k ≤ d.length) (T' : List Tok) (b' : Bool)
    (h' : parse (d.take k) = .ok T' b') :
    ∀ s ∈ slices T', s.bytes.length ≤ s.tail ∧ s.tail ≤ k ∧
      s.bytes = (d.drop (k - s.tail)).take s.bytes.length := by
  have hw := C06_text_inv _ T' b' h'
  intro s hs
  obtain ⟨h1, h2, h3⟩ := hw.scalars_inside s hs
  have hlen : (d.take k).length = k := by simp; omega
  rw [hlen] at h1
  refine ⟨h2, h1, ?_⟩
  simp only [Slice.off, hlen] at h3
  exact h3.trans (take_drop_take d k (k - s.tail) s.bytes.length (by omega))

/-! ### how much one iteration / the rest of a run can add to the tape -/
theorem setTok_len {T T' : List Tok} {j : Nat} {X : Tok} (h : setTok T j X = some T') : T'.length = T.length := by
  obtain ⟨rfl, _⟩ := setTok_some h; simp
theorem insertBeforeLast_len {T T' : List Tok} {x : Tok} (h : insertBeforeLast T x = some T') :
    T'.length = T.length + 1 := by
  obtain ⟨T0, l, rfl, rfl⟩ := insertBeforeLast_some h; simp
theorem lexValue_len {tape tape' : List Tok} {d rest : Bytes} (h : lexValue tape d = .ok (tape', rest)) :
    tape'.length = tape.length + 1 := by
  obtain ⟨t, rfl, _⟩ := lexValue_push h; simp
theorem parseScalarTok_len {tape tape' : List Tok} {d rest : Bytes} (h : parseScalarTok tape d = .ok (tape', rest)) :
    tape'.length = tape.length + 1 := by
  obtain ⟨t, rfl, _⟩ := parseScalarTok_push h; simp

theorem paramDefBody_len {mixed : Bool} {tape : List Tok} {parent : Nat} {st' : St} {data d' : Bytes}
    (h : paramDefBody mixed tape parent data = .cont st' d') : st'.tape.length ≤ tape.length + 3 := by
  unfold paramDefBody at h
  simp only at h
  split_cont h
  all_goals
    simp only [Step.cont.injEq] at h
    obtain ⟨rfl, _⟩ := h
    simp

theorem stepKvs_len {st st' : St} {d d' : Bytes} (h : stepKvs st d = .cont st' d') :
    st'.tape.length ≤ st.tape.length + 3 := by
  unfold stepKvs at h
  split_cont h
  all_goals
    simp only [Step.cont.injEq] at h
    obtain ⟨rfl, _⟩ := h
    try (have e2 := insertBeforeLast_len (by assumption))
    simp at *
    try omega
theorem paramDef_len {st st' : St} {data d' : Bytes} {i : Bool}
    (h : paramDef st data i = .cont st' d') : st'.tape.length ≤ st.tape.length + 3 := by
  unfold paramDef at h
  split at h
  · contradiction
  · split at h
    · contradiction
    · next tape parent hp =>
      have hb := paramDefBody_len h
      unfold paramDefPre at hp
      cases i with
      | false => simp at hp; obtain ⟨rfl, rfl⟩ := hp; exact hb
      | true =>
        simp only [if_true] at hp
        split at hp
        · simp at hp
        · simp only [Option.map_eq_some_iff, Prod.mk.injEq] at hp
          obtain ⟨t, hset, rfl, rfl⟩ := hp
          have := setTok_len hset
          omega

theorem stepKey_len {st st' : St} {d d' : Bytes} (h : stepKey st d = .cont st' d') :
    st'.tape.length ≤ st.tape.length + 3 := by
  unfold stepKey at h
  split at h
  · contradiction
  · split at h
    · simp only at h
      split_cont h
      all_goals
        simp only [Step.cont.injEq] at h
        obtain ⟨rfl, _⟩ := h
        try (have e1 := setTok_len (by assumption))
        simp at *
        try omega
    · split at h
      · split_cont h
        · simp only [Step.cont.injEq] at h
          obtain ⟨rfl, _⟩ := h
          simp
        · simp only [Step.cont.injEq] at h
          obtain ⟨rfl, _⟩ := h
          simp only [List.length_append, List.length_dropLast, List.length_cons, List.length_nil]
          omega
      · split at h
        · exact paramDef_len h
        · split at h
          · next hlex =>
            simp only [Step.cont.injEq] at h
            obtain ⟨rfl, _⟩ := h
            have := lexValue_len hlex
            simp; omega
          · cases ‹Fail› <;> simp [Step.fail] at h
theorem stepObjectValue_len {st st' : St} {d d' : Bytes} (h : stepObjectValue st d = .cont st' d') :
    st'.tape.length ≤ st.tape.length + 3 := by
  unfold stepObjectValue at h
  split_cont h
  · simp only [Step.cont.injEq] at h
    obtain ⟨rfl, _⟩ := h
    simp
  · next hlex =>
    simp only [Step.cont.injEq] at h
    obtain ⟨rfl, _⟩ := h
    have := lexValue_len hlex
    simp; omega
  · cases ‹Fail› <;> simp [Step.fail] at h

theorem stepArrayOp_len {st st' : St} {d d' : Bytes} {r : Res} (h : stepArrayOp r st d = .cont st' d') :
    st'.tape.length ≤ st.tape.length + 3 := by
  unfold stepArrayOp at h
  split at h
  · contradiction
  · next tape mixed hpre =>
    have hl : tape.length ≤ st.tape.length + 1 := by
      unfold arrayOpPre at hpre
      split at hpre
      · simp at hpre; rw [← hpre.1]; omega
      · split at hpre
        · split at hpre
          · next hins => simp at hpre; rw [← hpre.1]; have := insertBeforeLast_len hins; omega
          · simp at hpre
        · simp at hpre
    split at h
    · simp only [Step.cont.injEq] at h
      obtain ⟨rfl, _⟩ := h
      simp; omega
    · contradiction

theorem stepArrayValue_len {n : Nat} {st st' : St} {d d' : Bytes} (h : stepArrayValue n st d = .cont st' d') :
    st'.tape.length ≤ st.tape.length + 3 := by
  unfold stepArrayValue at h
  split at h
  · contradiction
  · split at h
    · simp only [Step.cont.injEq] at h
      obtain ⟨rfl, _⟩ := h
      simp
    · split at h
      · simp only at h
        split_cont h
        next hset =>
        simp only [Step.cont.injEq] at h
        obtain ⟨rfl, _⟩ := h
        have := setTok_len hset
        simp; omega
      · split at h
        · split at h
          · next hlex =>
            simp only [Step.cont.injEq] at h
            obtain ⟨rfl, _⟩ := h
            have := lexValue_len hlex
            simp; omega
          · cases ‹Fail› <;> simp [Step.fail] at h
        · split at h
          · exact stepArrayOp_len h
          · split at h
            · next hlex =>
              simp only [Step.cont.injEq] at h
              obtain ⟨rfl, _⟩ := h
              have := parseScalarTok_len hlex
              simp; omega
            · cases ‹Fail› <;> simp [Step.fail] at h

theorem flag_parent_len (T : List Tok) (p : Nat) :
    (match T[p]? with
      | some (.array e _) => T.set p (.array e true)
      | some (.object e _) => T.set p (.object e true)
      | _ => T).length = T.length := by
  have := congrArg List.length (flag_parent_sh T p)
  rw [List.length_map, List.length_map] at this
  exact this

theorem stepParseOpen_len {st st' : St} {d d' : Bytes} (h : stepParseOpen st d = .cont st' d') :
    st'.tape.length ≤ st.tape.length + 3 := by
  unfold stepParseOpen at h
  split at h
  · contradiction
  · split at h
    · split at h
      · contradiction
      · simp only at h
        split at h
        · contradiction
        · next hset =>
          simp only [Step.cont.injEq] at h
          obtain ⟨rfl, _⟩ := h
          have := setTok_len hset
          simp; omega
    · split at h
      · split at h
        · contradiction
        · exact paramDef_len h
      · split at h
        · split at h
          · contradiction
          · split at h
            · contradiction
            · split at h
              · simp only [Step.cont.injEq] at h
                obtain ⟨rfl, _⟩ := h
                omega
              · split at h
                · contradiction
                · simp only at h
                  split at h
                  · contradiction
                  · next hset =>
                    simp only [Step.cont.injEq] at h
                    obtain ⟨rfl, _⟩ := h
                    have := setTok_len hset
                    simp only; omega
        · split at h
          · cases ‹Fail› <;> simp [Step.fail] at h
          · next tape1 rest' hlex =>
            have hl1 := lexValue_len hlex
            simp only at h
            generalize htape2 : (if st.mixed = true then
                match tape1[st.parent]? with
                | some (.array e _) => tape1.set st.parent (.array e true)
                | some (.object e _) => tape1.set st.parent (.object e true)
                | _ => tape1
              else tape1) = tape2 at h
            have hl2 : tape2.length = tape1.length := by
              rw [← htape2]; split
              · exact flag_parent_len _ _
              · rfl
            split_cont h
            all_goals
              next hset =>
              simp only [Step.cont.injEq] at h
              obtain ⟨rfl, _⟩ := h
              have := setTok_len hset
              simp only; omega

theorem stepAt_len_le {n : Nat} {st st' : St} {d d' : Bytes} (h : stepAt n st d = .cont st' d') :
    st'.tape.length ≤ st.tape.length + 3 := by
  unfold stepAt at h
  cases hs : st.state <;> simp only [hs] at h
  · exact stepKey_len h
  · exact stepKvs_len h
  · exact stepObjectValue_len h
  · exact stepArrayValue_len h
  · exact stepParseOpen_len h

/-- a run adds at most three tokens per iteration and one at the end of the input -/
theorem run_len_bound (n : Nat) : ∀ (fuel : Nat) (st : St) (d : Bytes) (T : List Tok) (b : Bool),
    run n fuel st d = .ok T b → T.length ≤ st.tape.length + 3 * mu st.state d + 1
  | 0, _, _, _, _, h => by simp [run] at h
  | fuel + 1, st, d, T, b, h => by
    simp only [run, step] at h
    cases hsk : skipWs d with
    | none =>
      simp only [hsk] at h
      have := (atEof_len_le h).2
      omega
    | some x =>
      simp only [hsk] at h
      cases hstep : stepAt n st x with
      | done r =>
        simp only [hstep] at h
        subst h
        exact absurd hstep stepAt_not_ok
      | cont st' d' =>
        simp only [hstep] at h
        have h0 := run_len_bound n fuel st' d' T b h
        have h1 := (stepAt_prog hstep).mu_lt
        have h2 := (skipWs_suffix hsk).length_le
        have h3 := stepAt_len_le hstep
        simp only [mu] at h0 h1 ⊢
        omega

/-- behind the split point (the next iteration leaves fewer than two bytes) the truncated run adds
at most 13 tokens -/
theorem short_tail_len {n : Nat} {st : St} {d : Bytes} (hs : Short n st d) :
    ∀ (fuel : Nat) (T : List Tok) (b : Bool), run n fuel st d = .ok T b → T.length ≤ st.tape.length + 13
  | 0, _, _, h => by simp [run] at h
  | fuel + 1, T, b, h => by
    simp only [run] at h
    cases hstep : step n st d with
    | done r =>
      simp only [hstep] at h
      subst h
      unfold step at hstep
      cases hsk : skipWs d with
      | none =>
        simp only [hsk, Step.done.injEq] at hstep
        have := (atEof_len_le hstep).2
        omega
      | some x =>
        simp only [hsk] at hstep
        exact absurd hstep stepAt_not_ok
    | cont st1 d1 =>
      simp only [hstep] at h
      have hd1 := hs st1 d1 hstep
      have h0 := run_len_bound n fuel st1 d1 T b h
      have h3 : st1.tape.length ≤ st.tape.length + 3 := by
        unfold step at hstep
        cases hsk : skipWs d with
        | none => simp [hsk] at hstep
        | some x =>
          simp only [hsk] at hstep
          exact stepAt_len_le hstep
      have hfl : flag st1.state ≤ 1 := by cases st1.state <;> simp [flag]
      simp only [mu] at h0
      omega

/-! ### the sharp bound: what a run can still do with at most one byte left -/

theorem splitAtScalar_one (c : UInt8) : splitAtScalar [c] = some ([c], []) := by
  rw [splitAtScalar_eq_fallback sse_eq_tab]
  have := findFirst_le isBoundary [c]
  simp only [List.length_cons, List.length_nil] at this
  have hm : max (findFirst isBoundary [c]) 1 = 1 := by omega
  simp [splitAtScalarFallback, splitAtChecked, hm]

theorem lexValue_one {tape tape' : List Tok} {c : UInt8} {r : Bytes} (h : lexValue tape [c] = .ok (tape', r)) :
    r = [] := by
  unfold lexValue at h
  simp only at h
  split at h
  · next h34 =>
    subst h34
    unfold parseQuoteTok at h
    rw [parseQuoteScalar_eq_fallback] at h
    simp [parseQuoteScalarFallback, quoteClose] at h
  · split at h
    · unfold parseVariableTok at h
      simp [parseScalarTok, splitAtScalar_one] at h
      exact h.2
    · simp [parseScalarTok, splitAtScalar_one] at h
      exact h.2

theorem stepKey_len1 {st st' : St} {c : UInt8} {d' : Bytes} (h : stepKey st [c] = .cont st' d') :
    st'.tape.length ≤ st.tape.length + 1 := by
  unfold stepKey at h
  simp only at h
  split at h
  · split_cont h
    all_goals
      simp only [Step.cont.injEq] at h
      obtain ⟨rfl, _⟩ := h
      try (have e1 := setTok_len (by assumption))
      simp at *
      try omega
  · split at h
    · simp [skipWs, skipWsAux] at h
    · split at h
      · simp [paramDef] at h
      · split at h
        · next hlex =>
          simp only [Step.cont.injEq] at h
          obtain ⟨rfl, _⟩ := h
          have := lexValue_len hlex
          simp; omega
        · cases ‹Fail› <;> simp [Step.fail] at h

theorem stepKvs_len1 {st st' : St} {c : UInt8} {d' : Bytes} (h : stepKvs st [c] = .cont st' d') :
    st'.tape.length ≤ st.tape.length + 1 := by
  unfold stepKvs at h
  split_cont h
  all_goals
    simp only [Step.cont.injEq] at h
    obtain ⟨rfl, _⟩ := h
    try (have e2 := insertBeforeLast_len (by assumption))
    simp at *
    try omega

theorem stepObjectValue_len1 {st st' : St} {c : UInt8} {d' : Bytes} (h : stepObjectValue st [c] = .cont st' d') :
    st'.tape.length ≤ st.tape.length + 1 := by
  unfold stepObjectValue at h
  split_cont h
  · simp only [Step.cont.injEq] at h
    obtain ⟨rfl, _⟩ := h
    simp
  · next hlex =>
    simp only [Step.cont.injEq] at h
    obtain ⟨rfl, _⟩ := h
    have := lexValue_len hlex
    simp; omega
  · cases ‹Fail› <;> simp [Step.fail] at h

theorem stepParseOpen_len1 {st st' : St} {c : UInt8} {d' : Bytes} (h : stepParseOpen st [c] = .cont st' d') :
    st'.tape.length ≤ st.tape.length + 1 := by
  unfold stepParseOpen at h
  simp only at h
  split at h
  · split at h
    · contradiction
    · split at h
      · contradiction
      · next hset =>
        simp only [Step.cont.injEq] at h
        obtain ⟨rfl, _⟩ := h
        have := setTok_len hset
        simp; omega
  · split at h
    · split at h
      · contradiction
      · unfold paramDef at h
        rw [if_pos (by simp)] at h
        contradiction
    · split at h
      · simp only [skipWs, skipWsAux] at h
        contradiction
      · split at h
        · cases ‹Fail› <;> simp [Step.fail] at h
        · next tape1 rest' hlex =>
          have := lexValue_one hlex
          subst this
          simp [skipWs, skipWsAux] at h

/-- one iteration on a single remaining byte adds at most one token — except the first operator of
an array (`MixedContainer` and the operator: two tokens), after which ArrayValue is left with no
input, which the end of the input does not accept -/
theorem stepArrayValue_len1 {n : Nat} {st st' : St} {c : UInt8} {d' : Bytes} (hs : st.state = .arrayValue)
    (h : stepArrayValue n st [c] = .cont st' d') :
    st'.tape.length ≤ st.tape.length + 1 ∨ (st'.state = .arrayValue ∧ d' = []) := by
  unfold stepArrayValue at h
  simp only at h
  split at h
  · simp only [Step.cont.injEq] at h
    obtain ⟨rfl, _⟩ := h
    left; simp
  · split at h
    · split_cont h
      next hset =>
      simp only [Step.cont.injEq] at h
      obtain ⟨rfl, _⟩ := h
      have := setTok_len hset
      left; simp; omega
    · split at h
      · split at h
        · next hlex =>
          simp only [Step.cont.injEq] at h
          obtain ⟨rfl, _⟩ := h
          have := lexValue_len hlex
          left; simp; omega
        · cases ‹Fail› <;> simp [Step.fail] at h
      · split at h
        · right
          unfold stepArrayOp at h
          split at h
          · contradiction
          · split at h
            · next o r hop =>
              simp only [Step.cont.injEq] at h
              obtain ⟨rfl, rfl⟩ := h
              refine ⟨?_, ?_⟩
              · exact hs
              · unfold lexOperator at hop
                simp only [List.head?_nil, List.tail_nil] at hop
                repeat' (split at hop)
                all_goals simp_all
            · contradiction
        · split at h
          · next hlex =>
            simp only [Step.cont.injEq] at h
            obtain ⟨rfl, _⟩ := h
            have := parseScalarTok_len hlex
            left; simp; omega
          · cases ‹Fail› <;> simp [Step.fail] at h

theorem stepAt_len1 {n : Nat} {st st' : St} {c : UInt8} {d' : Bytes} (h : stepAt n st [c] = .cont st' d') :
    st'.tape.length ≤ st.tape.length + 1 ∨ (st'.state = .arrayValue ∧ d' = []) := by
  unfold stepAt at h
  cases hs : st.state <;> simp only [hs] at h
  · exact .inl (stepKey_len1 h)
  · exact .inl (stepKvs_len1 h)
  · exact .inl (stepObjectValue_len1 h)
  · exact stepArrayValue_len1 hs h
  · exact .inl (stepParseOpen_len1 h)

theorem atEof_key {st : St} {T : List Tok} {b : Bool} (h : atEof st = .ok T b) : st.state = .key := by
  unfold atEof at h
  split at h
  · simp at h
  · next hs => simpa using hs

/-- with at most one byte of input left a successful run adds at most three tokens: one per
iteration (at most two iterations: KeyValueSeparator may hand its byte on) and the `End` of the EOF
tolerance -/
theorem one_byte_tail {n : Nat} : ∀ (fuel : Nat) (st : St) (d : Bytes) (T : List Tok) (b : Bool),
    d.length ≤ 1 → run n fuel st d = .ok T b → T.length ≤ st.tape.length + 2 + flag st.state
  | 0, _, _, _, _, _, h => by simp [run] at h
  | fuel + 1, st, d, T, b, hd, h => by
    simp only [run, step] at h
    cases hsk : skipWs d with
    | none =>
      simp only [hsk] at h
      have := (atEof_len_le h).2
      omega
    | some x =>
      simp only [hsk] at h
      obtain ⟨c, cs, rfl, _, _, hlen⟩ := skipWsAux_some d false x hsk
      have hcs : cs = [] := by
        cases cs with
        | nil => rfl
        | cons a as => simp at hlen; omega
      subst hcs
      cases hstep : stepAt n st [c] with
      | done r =>
        simp only [hstep] at h
        subst h
        exact absurd hstep stepAt_not_ok
      | cont st1 d1 =>
        simp only [hstep] at h
        have hprog := stepAt_prog hstep
        rcases stepAt_len1 hstep with hl | ⟨hsa, hd1⟩
        · rcases hprog with hlt | ⟨heq, hf1, hf0⟩
          · -- the byte is consumed: the next iteration sees the end of the input
            have hd1 : d1 = [] := by
              cases d1 with
              | nil => rfl
              | cons a as => simp at hlt
            subst hd1
            cases fuel with
            | zero => simp [run] at h
            | succ f =>
              simp only [run, step, skipWs, skipWsAux] at h
              have := (atEof_len_le h).2
              omega
          · -- the byte is handed on (KeyValueSeparator / ParseOpen): one more iteration like this
            have := one_byte_tail fuel st1 d1 T b (by simp at heq; omega) h
            omega
        · subst hd1
          cases fuel with
          | zero => simp [run] at h
          | succ f =>
            simp only [run, step, skipWs, skipWsAux] at h
            have := atEof_key h
            rw [hsa] at this; cases this

/-- behind the split point the truncated run adds at most SIX tokens: three in the iteration that
leaves fewer than two bytes (a parameter block `[[x] k` pushes three), then at most three more
(`one_byte_tail`).  The bound is attained: `a={[[x] k }` ends with `Parameter, Object, MixedContainer,
Unquoted, End, End` behind `a, Object`. -/
theorem short_tail_sharp {n : Nat} {st : St} {d : Bytes} (hs : Short n st d) :
    ∀ (fuel : Nat) (T : List Tok) (b : Bool), run n fuel st d = .ok T b → T.length ≤ st.tape.length + 6
  | 0, _, _, h => by simp [run] at h
  | fuel + 1, T, b, h => by
    simp only [run] at h
    cases hstep : step n st d with
    | done r =>
      simp only [hstep] at h
      subst h
      unfold step at hstep
      cases hsk : skipWs d with
      | none =>
        simp only [hsk, Step.done.injEq] at hstep
        have := (atEof_len_le hstep).2
        omega
      | some x =>
        simp only [hsk] at hstep
        exact absurd hstep stepAt_not_ok
    | cont st1 d1 =>
      simp only [hstep] at h
      have hd1 := hs st1 d1 hstep
      have h0 := one_byte_tail fuel st1 d1 T b (by omega) h
      have h3 : st1.tape.length ≤ st.tape.length + 3 := by
        unfold step at hstep
        cases hsk : skipWs d with
        | none => simp [hsk] at hstep
        | some x =>
          simp only [hsk] at hstep
          exact stepAt_len_le hstep
      have hfl : flag st1.state ≤ 1 := by cases st1.state <;> simp [flag]
      omega

end Jomini.TextTape
