import JominiModel.Proofs.TextTapePrefix
/-
C19 (text tape parser), part 2: what an iteration can change on the tape.  Everything below the
last token stays as it is, except the token of the innermost open container (`tape[parent]`).
Hence the tokens below every open container and below the last token are final.
-/
namespace Jomini.TextTape
open Jomini

/-- `T'` keeps every token of `T` below its last one, except possibly the one at `p`. -/
def Keep (T T' : List Tok) (p : Nat) : Prop :=
  T.length ≤ T'.length ∧ ∀ i, i + 1 < T.length → i ≠ p → T'[i]? = T[i]?

theorem Keep.refl (T : List Tok) (p : Nat) : Keep T T p := ⟨Nat.le_refl _, fun _ _ _ => rfl⟩

theorem Keep.trans {T T1 T2 : List Tok} {p : Nat} (h1 : Keep T T1 p) (h2 : Keep T1 T2 p) : Keep T T2 p :=
  ⟨Nat.le_trans h1.1 h2.1, fun i hi hp => by
    rw [h2.2 i (by have := h1.1; omega) hp, h1.2 i hi hp]⟩

theorem Keep.append (T R : List Tok) (p : Nat) : Keep T (T ++ R) p :=
  ⟨by simp, fun i hi _ => List.getElem?_append_left (by omega)⟩

theorem Keep.setTok {T T' : List Tok} {j : Nat} {X : Tok} (p : Nat) (h : setTok T j X = some T')
    (hj : j = p ∨ T.length ≤ j + 1) : Keep T T' p := by
  obtain ⟨rfl, _⟩ := setTok_some h
  refine ⟨by simp, fun i hi hp => ?_⟩
  rw [List.getElem?_set_ne]
  rcases hj with rfl | hj
  · exact fun h => hp h.symm
  · omega

theorem Keep.of_getLast {T T0 : List Tok} {l : Tok} (R : List Tok) (p : Nat) (h : T = T0 ++ [l]) :
    Keep T (T0 ++ R) p ∨ R = [] := by
  by_cases hR : R = []
  · exact .inr hR
  · left
    subst h
    refine ⟨by simp; exact List.length_pos_iff.2 hR, fun i hi _ => ?_⟩
    simp only [List.length_append, List.length_cons, List.length_nil] at hi
    rw [List.getElem?_append_left (by omega), List.getElem?_append_left (by omega)]

theorem Keep.replaceLast {T0 : List Tok} {l : Tok} (R : List Tok) (hR : R ≠ []) (p : Nat) :
    Keep (T0 ++ [l]) (T0 ++ R) p := by
  refine ⟨by simp; exact List.length_pos_iff.2 hR, fun i hi _ => ?_⟩
  simp only [List.length_append, List.length_cons, List.length_nil] at hi
  rw [List.getElem?_append_left (by omega), List.getElem?_append_left (by omega)]

/-- the only index below the last token an iteration may overwrite. -/
def exc (st : St) : Nat := if st.parent = 0 then st.tape.length else st.parent

/-- where `parent_ind` can go: it stays, it moves to the grand-parent, or to a token at / behind
the old last token. -/
def ParentOk (st st' : St) : Prop :=
  st'.parent = st.parent ∨ (st.parent ≠ 0 ∧ st'.parent = endOf st.tape[st.parent]?) ∨
    st.tape.length ≤ st'.parent + 1

theorem exc_of_ne {st : St} (h : st.parent ≠ 0) : exc st = st.parent := by simp [exc, h]

theorem paramDefBody_keep {mixed : Bool} {tape : List Tok} {parent : Nat} {st' : St} {data d' : Bytes} (p : Nat)
    (h : paramDefBody mixed tape parent data = .cont st' d') :
    Keep tape st'.tape p ∧ (st'.parent = parent ∨ tape.length ≤ st'.parent + 1) := by
  unfold paramDefBody at h
  simp only at h
  split_cont h
  all_goals
    simp only [Step.cont.injEq] at h
    obtain ⟨rfl, _⟩ := h
    try simp only [List.append_assoc]
    refine ⟨Keep.append _ _ _, ?_⟩
    first
    | exact .inl rfl
    | exact .inl trivial
    | (right; simp only [List.length_append, List.length_cons, List.length_nil]; omega)

theorem paramDef_keep {st st' : St} {data d' : Bytes} {i : Bool}
    (h : paramDef st data i = .cont st' d') :
    Keep st.tape st'.tape (exc st) ∧ ParentOk st st' := by
  unfold paramDef at h
  split at h
  · contradiction
  · split at h
    · contradiction
    · next tape parent hp =>
      obtain ⟨hk, hpar⟩ := paramDefBody_keep (exc st) h
      unfold paramDefPre at hp
      cases i with
      | false =>
        simp at hp
        obtain ⟨rfl, rfl⟩ := hp
        refine ⟨hk, ?_⟩
        rcases hpar with h1 | h1
        · exact .inl h1
        · exact .inr (.inr h1)
      | true =>
        simp only [if_true] at hp
        split at hp
        · simp at hp
        · simp only [Option.map_eq_some_iff, Prod.mk.injEq] at hp
          obtain ⟨t, hset, rfl, rfl⟩ := hp
          have hk0 := Keep.setTok (exc st) hset (.inr (by omega))
          have hlen : t.length = st.tape.length := by
            obtain ⟨rfl, _⟩ := setTok_some hset; simp
          refine ⟨hk0.trans hk, .inr (.inr ?_)⟩
          rcases hpar with h1 | h1
          · rw [h1]; omega
          · omega

theorem stepKey_keep {st st' : St} {d d' : Bytes} (hinv : StInv st) (hs : st.state = .key)
    (h : stepKey st d = .cont st' d') : Keep st.tape st'.tape (exc st) ∧ ParentOk st st' := by
  obtain ⟨hT, _, _⟩ := hinv
  simp only [hs, decide_false, reduceCtorEq] at hT
  unfold stepKey at h
  split at h
  · contradiction
  · split at h
    · simp only at h
      split at h
      · simp only [Step.cont.injEq] at h
        obtain ⟨rfl, _⟩ := h
        exact ⟨Keep.refl _ _, .inl rfl⟩
      · next hnz =>
        have hp := hT.parent_ne_zero hnz
        split at h
        · contradiction
        · next tape' hset =>
          simp only [Step.cont.injEq] at h
          obtain ⟨rfl, _⟩ := h
          refine ⟨(Keep.append st.tape _ _).trans (Keep.setTok _ hset (.inl (exc_of_ne hp).symm)), ?_⟩
          exact .inr (.inl ⟨hp, rfl⟩)
    · split at h
      · split at h
        · contradiction
        · split at h
          · contradiction
          · split at h
            · simp only [Step.cont.injEq] at h
              obtain ⟨rfl, _⟩ := h
              exact ⟨Keep.refl _ _, .inl rfl⟩
            · split at h
              · next hd hlast =>
                simp only [Step.cont.injEq] at h
                obtain ⟨rfl, _⟩ := h
                rcases List.eq_nil_or_concat st.tape with hnil | ⟨T0, l, hTl⟩
                · simp [hnil] at hlast
                · simp only [List.concat_eq_append] at hTl
                  refine ⟨?_, .inl rfl⟩
                  simp only [hTl, List.dropLast_concat]
                  exact Keep.replaceLast _ (by simp) _
              · contradiction
      · split at h
        · exact paramDef_keep h
        · split at h
          · next tape' rest' hlex =>
            simp only [Step.cont.injEq] at h
            obtain ⟨rfl, _⟩ := h
            obtain ⟨t, rfl, _⟩ := lexValue_push hlex
            exact ⟨Keep.append _ _ _, .inl rfl⟩
          · cases ‹Fail› <;> simp [Step.fail] at h

theorem stepKvs_keep {st st' : St} {d d' : Bytes}
    (h : stepKvs st d = .cont st' d') : Keep st.tape st'.tape (exc st) ∧ ParentOk st st' := by
  unfold stepKvs at h
  split at h
  · contradiction
  · split at h
    · split at h
      all_goals
        simp only [Step.cont.injEq] at h
        obtain ⟨rfl, _⟩ := h
      · exact ⟨Keep.append _ _ _, .inl rfl⟩
      · exact ⟨Keep.refl _ _, .inl rfl⟩
    · simp only [Step.cont.injEq] at h
      obtain ⟨rfl, _⟩ := h
      exact ⟨Keep.append _ _ _, .inl rfl⟩
    · split at h
      · simp only [Step.cont.injEq] at h
        obtain ⟨rfl, _⟩ := h
        exact ⟨Keep.refl _ _, .inl rfl⟩
      · split at h
        · contradiction
        · next tape' hins =>
          simp only [Step.cont.injEq] at h
          obtain ⟨rfl, _⟩ := h
          obtain ⟨T0, l, hT0, rfl⟩ := insertBeforeLast_some hins
          refine ⟨?_, .inl rfl⟩
          simp only [hT0]
          exact Keep.replaceLast _ (by simp) _

theorem stepObjectValue_keep {st st' : St} {d d' : Bytes}
    (h : stepObjectValue st d = .cont st' d') : Keep st.tape st'.tape (exc st) ∧ ParentOk st st' := by
  unfold stepObjectValue at h
  split at h
  · contradiction
  · split at h
    · simp only [Step.cont.injEq] at h
      obtain ⟨rfl, _⟩ := h
      exact ⟨Keep.append _ _ _, .inl rfl⟩
    · split at h
      · contradiction
      · split at h
        · next tape' rest' hlex =>
          simp only [Step.cont.injEq] at h
          obtain ⟨rfl, _⟩ := h
          obtain ⟨t, rfl, _⟩ := lexValue_push hlex
          exact ⟨Keep.append _ _ _, .inl rfl⟩
        · cases ‹Fail› <;> simp [Step.fail] at h

theorem flagTape_keep (m : Bool) (p : Nat) (T : List Tok) (q : Nat) (hq : p = q ∨ T.length ≤ p + 1 ∨ m = false) :
    Keep T (flagTape m p T) q := by
  unfold flagTape
  split
  · next hm =>
    split
    · refine ⟨by simp, fun i hi hne => ?_⟩
      rw [List.getElem?_set_ne]
      rcases hq with rfl | hq | hq
      · exact fun h => hne h.symm
      · omega
      · simp [hq] at hm
    · refine ⟨by simp, fun i hi hne => ?_⟩
      rw [List.getElem?_set_ne]
      rcases hq with rfl | hq | hq
      · exact fun h => hne h.symm
      · omega
      · simp [hq] at hm
    · exact Keep.refl _ _
  · exact Keep.refl _ _

theorem flagTape_length (m : Bool) (p : Nat) (T : List Tok) : (flagTape m p T).length = T.length := by
  unfold flagTape; split
  · split <;> simp
  · rfl

theorem poAfter_keep {st st' : St} {T0 : List Tok} {t : Tok} {rest' d' : Bytes}
    (hp : st.parent ≠ 0 ∨ st.mixed = false) (hne : T0 ≠ [])
    (h : poAfter st (T0 ++ [t]) rest' = .cont st' d') :
    Keep T0 st'.tape (exc st) ∧ T0.length ≤ st'.parent + 1 := by
  unfold poAfter at h
  simp only at h
  have hk1 : Keep T0 (flagTape st.mixed st.parent (T0 ++ [t])) (exc st) :=
    (Keep.append T0 [t] _).trans (flagTape_keep _ _ _ _ (by
      rcases hp with hp | hp
      · exact .inl (exc_of_ne hp).symm
      · exact .inr (.inr hp)))
  have hl : (flagTape st.mixed st.parent (T0 ++ [t])).length = T0.length + 1 := by
    rw [flagTape_length]; simp
  generalize flagTape st.mixed st.parent (T0 ++ [t]) = A at h hk1 hl
  split_cont h
  all_goals
    simp only [Step.cont.injEq] at h
    obtain ⟨rfl, _⟩ := h
    have hset := ‹setTok A _ _ = some _›
    refine ⟨?_, by simp only; omega⟩
    obtain ⟨rfl, _⟩ := setTok_some hset
    refine ⟨by simp only [List.length_set]; omega, fun i hi hne => ?_⟩
    rw [List.getElem?_set_ne (by omega)]
    exact hk1.2 i hi hne

theorem stepParseOpen_keep {st st' : St} {d d' : Bytes} (hinv : StInv st) (hs : st.state = .parseOpen)
    (h : stepParseOpen st d = .cont st' d') : Keep st.tape st'.tape (exc st) ∧ ParentOk st st' := by
  obtain ⟨hT, hne, _⟩ := hinv
  simp only [hs, decide_true] at hT
  obtain ⟨T0, t0, hT0, ht0, hne0, hp0⟩ := hT.hole_shape
  match d with
  | [] => simp [stepParseOpen] at h
  | c :: cs =>
  by_cases h125 : c = 125
  · subst h125
    unfold stepParseOpen at h
    simp only [if_true] at h
    split_cont h
    simp only [Step.cont.injEq] at h
    obtain ⟨rfl, _⟩ := h
    have hset := ‹setTok st.tape _ _ = some _›
    exact ⟨(Keep.setTok _ hset (.inr (by omega))).trans (Keep.append _ _ _), .inl rfl⟩
  · by_cases h91 : c = 91
    · subst h91
      unfold stepParseOpen at h
      simp only [show (91 : UInt8) ≠ 125 by decide, if_false, if_true] at h
      split at h
      · contradiction
      · exact paramDef_keep h
    · by_cases h123 : c = 123
      · subst h123
        unfold stepParseOpen at h
        simp only [show (123 : UInt8) ≠ 125 by decide, show (123 : UInt8) ≠ 91 by decide, if_false, if_true] at h
        split_cont h
        · simp only [Step.cont.injEq] at h
          obtain ⟨rfl, _⟩ := h
          exact ⟨Keep.refl _ _, .inl rfl⟩
        · simp only [Step.cont.injEq] at h
          obtain ⟨rfl, _⟩ := h
          have hset := ‹setTok st.tape _ _ = some _›
          exact ⟨Keep.setTok _ hset (.inr (by omega)), .inr (.inr (by simp only; omega))⟩
      · rw [stepParseOpen_lex h125 h91 h123] at h
        cases hlex : lexValue st.tape (c :: cs) with
        | error f => rw [hlex] at h; cases f <;> simp [Step.fail] at h
        | ok p =>
          obtain ⟨tape1, rest'⟩ := p
          rw [hlex] at h
          simp only at h
          obtain ⟨t, rfl, _⟩ := lexValue_push hlex
          -- the parent is below the placeholder, so it is not the last token
          have hpar : st.parent ≠ 0 ∨ st.mixed = false ∨ True := .inr (.inr trivial)
          have hk : Keep st.tape st'.tape (exc st) ∧ st.tape.length ≤ st'.parent + 1 := by
            by_cases hm : st.mixed = false
            · exact poAfter_keep (.inr hm) (by rw [hT0]; simp) h
            · by_cases hp : st.parent = 0
              · -- mixed mode at top level: the flag edit would hit `tape[0]`, which is not a container
                have hz : ∀ e m, st.tape[0]? ≠ some (.array e m) ∧ st.tape[0]? ≠ some (.object e m) := by
                  obtain ⟨C, hC⟩ := hT
                  intro e m
                  have := hC.zero e
                  rw [List.getElem?_map] at this
                  constructor <;> intro h0 <;> rw [h0] at this <;> exact this rfl
                have hfl : flagTape st.mixed st.parent (st.tape ++ [t]) = st.tape ++ [t] := by
                  unfold flagTape
                  have hlen : 0 < st.tape.length := by rw [hT0]; simp
                  rw [hp, List.getElem?_append_left hlen]
                  split
                  · split
                    · next e m h0 => exact absurd h0 (hz e m).1
                    · next e m h0 => exact absurd h0 (hz e m).2
                    · rfl
                  · rfl
                have h' : poAfter { st with mixed := false } (st.tape ++ [t]) rest' = .cont st' d' := by
                  unfold poAfter at h ⊢
                  simp only [hfl] at h
                  simpa [flagTape] using h
                have := poAfter_keep (st := { st with mixed := false }) (.inr rfl) (by rw [hT0]; simp) h'
                simpa [exc] using this
              · exact poAfter_keep (.inl hp) (by rw [hT0]; simp) h
          exact ⟨hk.1, .inr (.inr hk.2)⟩

theorem stepArrayOp_keep {st st' : St} {d d' : Bytes} {r : Res}
    (h : stepArrayOp r st d = .cont st' d') : Keep st.tape st'.tape (exc st) ∧ ParentOk st st' := by
  unfold stepArrayOp at h
  split at h
  · contradiction
  · next tape mixed hpre =>
    have hk : Keep st.tape tape (exc st) := by
      unfold arrayOpPre at hpre
      split at hpre
      · simp at hpre; rw [← hpre.1]; exact Keep.refl _ _
      · split at hpre
        · split at hpre
          · next tape1 hins =>
            simp at hpre
            obtain ⟨rfl, _⟩ := hpre
            obtain ⟨T0, l, hT0, rfl⟩ := insertBeforeLast_some hins
            rw [hT0]; exact Keep.replaceLast _ (by simp) _
          · simp at hpre
        · simp at hpre
    split at h
    · simp only [Step.cont.injEq] at h
      obtain ⟨rfl, _⟩ := h
      exact ⟨hk.trans (Keep.append _ _ _), .inl rfl⟩
    · contradiction

theorem stepArrayValue_keep {n : Nat} {st st' : St} {d d' : Bytes} (hinv : StInv st) (hs : st.state = .arrayValue)
    (h : stepArrayValue n st d = .cont st' d') : Keep st.tape st'.tape (exc st) ∧ ParentOk st st' := by
  obtain ⟨hT, _, _⟩ := hinv
  simp only [hs, decide_false, reduceCtorEq] at hT
  unfold stepArrayValue at h
  split at h
  · contradiction
  · split at h
    · simp only [Step.cont.injEq] at h
      obtain ⟨rfl, _⟩ := h
      exact ⟨Keep.append _ _ _, .inl rfl⟩
    · split at h
      · simp only at h
        split at h
        · contradiction
        · next hnz =>
          have hp := hT.parent_ne_zero hnz
          split at h
          · contradiction
          · next tape' hset =>
            simp only [Step.cont.injEq] at h
            obtain ⟨rfl, _⟩ := h
            exact ⟨(Keep.setTok _ hset (.inl (exc_of_ne hp).symm)).trans (Keep.append _ _ _),
              .inr (.inl ⟨hp, rfl⟩)⟩
      · split at h
        · split at h
          · next tape' rest' hlex =>
            simp only [Step.cont.injEq] at h
            obtain ⟨rfl, _⟩ := h
            obtain ⟨t, rfl, _⟩ := lexValue_push hlex
            exact ⟨Keep.append _ _ _, .inl rfl⟩
          · cases ‹Fail› <;> simp [Step.fail] at h
        · split at h
          · exact stepArrayOp_keep h
          · split at h
            · next tape' rest' hlex =>
              simp only [Step.cont.injEq] at h
              obtain ⟨rfl, _⟩ := h
              obtain ⟨t, rfl, _⟩ := parseScalarTok_push hlex
              exact ⟨Keep.append _ _ _, .inl rfl⟩
            · cases ‹Fail› <;> simp [Step.fail] at h

theorem stepAt_keep {n : Nat} {st st' : St} {d d' : Bytes} (hinv : StInv st)
    (h : stepAt n st d = .cont st' d') : Keep st.tape st'.tape (exc st) ∧ ParentOk st st' := by
  unfold stepAt at h
  cases hs : st.state <;> simp only [hs] at h
  · exact stepKey_keep hinv hs h
  · exact stepKvs_keep h
  · exact stepObjectValue_keep h
  · exact stepArrayValue_keep hinv hs h
  · exact stepParseOpen_keep hinv hs h

/-! ### the frozen prefix of the tape -/

/-- every container token below `f` is closed (its `end` points forward). -/
def NoOpenBelow (f : Nat) (T : List Tok) : Prop :=
  ∀ i, i < f → ∀ e m, (T[i]? = some (.array e m) ∨ T[i]? = some (.object e m)) → i < e

/-- `f` lies below the last token and below every open container. -/
def Frozen (f : Nat) (st : St) : Prop :=
  f + 1 ≤ st.tape.length ∧ NoOpenBelow f st.tape ∧ (st.parent ≠ 0 → f ≤ st.parent)

/-- the grand-parent (if any) is an open container: its `end` slot points backwards. -/
theorem TInv.grand_open {T : List Tok} {p : Nat} {ph : Bool} (h : TInv T p ph) (hp : p ≠ 0)
    (hg : endOf T[p]? ≠ 0) :
    ∃ e m, (T[endOf T[p]?]? = some (.array e m) ∨ T[endOf T[p]?]? = some (.object e m)) ∧ e < endOf T[p]? := by
  obtain ⟨mm, hm⟩ := h.parent_tok hp
  obtain ⟨C, hC⟩ := h
  cases hC.chain with
  | top => exact absurd rfl hp
  | link h0 hgp hp' hch =>
    rename_i g C'
    have hge : g = endOf T[p]? := by
      rw [List.getElem?_map] at hp'
      rcases hm with hm | hm <;> rw [hm] at hp' <;> simp [Tok.sh] at hp' <;> exact hp'.symm
    rw [← hge] at hg ⊢
    cases hch with
    | top => exact absurd rfl hg
    | link h0' hgp' hp'' _ =>
      rename_i g'  C''
      rw [List.getElem?_map] at hp''
      cases hT : T[g]? with
      | none => simp [hT] at hp''
      | some t =>
        rw [hT] at hp''
        cases t <;> simp [Tok.sh] at hp''
        · subst hp''; exact ⟨_, _, .inl rfl, hgp'⟩
        · subst hp''; exact ⟨_, _, .inr rfl, hgp'⟩

theorem step_frozen {n f : Nat} {st st' : St} {d d' : Bytes} (hinv : StInv st) (hf : Frozen f st)
    (h : stepAt n st d = .cont st' d') : st'.tape.take f = st.tape.take f ∧ Frozen f st' := by
  obtain ⟨hk, hpar⟩ := stepAt_keep hinv h
  obtain ⟨hlen, hno, hfp⟩ := hf
  have hsame : ∀ i, i < f → st'.tape[i]? = st.tape[i]? := by
    intro i hi
    apply hk.2 i (by omega)
    unfold exc
    split
    · omega
    · next hp => have := hfp hp; omega
  refine ⟨?_, by have := hk.1; omega, ?_, ?_⟩
  · apply List.ext_getElem?
    intro i
    simp only [List.getElem?_take]
    split
    · next hi => exact hsame i hi
    · rfl
  · intro i hi e m hc
    rw [hsame i hi] at hc
    exact hno i hi e m hc
  · intro hp'
    rcases hpar with h1 | ⟨hp, h1⟩ | h1
    · rw [h1] at hp' ⊢; exact hfp hp'
    · rw [h1] at hp' ⊢
      obtain ⟨e, m, hc, he⟩ := hinv.1.grand_open hp hp'
      rcases Nat.lt_or_ge (endOf st.tape[st.parent]?) f with hlt | hge
      · have := hno _ hlt e m hc; omega
      · exact hge
    · omega

theorem atEof_frozen {f : Nat} {st : St} {T : List Tok} {b : Bool} (hinv : StInv st) (hf : Frozen f st)
    (h : atEof st = .ok T b) : T.take f = st.tape.take f := by
  obtain ⟨hlen, _, hfp⟩ := hf
  unfold atEof at h
  split at h
  · simp at h
  · split at h
    · simp at h; rw [← h.1]
    · next hp =>
      simp only at h
      split at h
      · split at h
        · simp at h
        · next tape' hset =>
          simp only [Res.ok.injEq] at h
          obtain ⟨rfl, _⟩ := h
          obtain ⟨rfl, _⟩ := setTok_some hset
          have := hfp hp
          apply List.ext_getElem?
          intro i
          simp only [List.getElem?_take]
          split
          · next hi =>
            rw [List.getElem?_set_ne (by omega), List.getElem?_append_left (by omega)]
          · rfl
      · simp at h

/-- C19, stability: from an invariant state on, the tokens below a frozen index never change. -/
theorem run_frozen (n f : Nat) : ∀ (fuel : Nat) (st : St) (d : Bytes) (T : List Tok) (b : Bool),
    StInv st → Frozen f st → run n fuel st d = .ok T b → T.take f = st.tape.take f
  | 0, _, _, _, _, _, _, h => by simp [run] at h
  | fuel + 1, st, d, T, b, hinv, hf, h => by
    simp only [run, step] at h
    cases hsk : skipWs d with
    | none => simp only [hsk] at h; exact atEof_frozen hinv hf h
    | some x =>
      simp only [hsk] at h
      cases hstep : stepAt n st x with
      | done r =>
        simp only [hstep] at h
        subst h
        exact absurd hstep stepAt_not_ok
      | cont st' d' =>
        simp only [hstep] at h
        obtain ⟨h1, h2⟩ := step_frozen hinv hf hstep
        rw [run_frozen n f fuel st' d' T b (stepAt_inv hinv hstep) h2 h, h1]

/-! ### the invariants do not see positions -/

theorem sh_shift (L : Nat) (t : Tok) : (t.shift L).sh = t.sh := by cases t <;> rfl

theorem map_sh_shift (L : Nat) (T : List Tok) : (T.map (Tok.shift L)).map Tok.sh = T.map Tok.sh := by
  simp [List.map_map, Function.comp_def, sh_shift]

theorem StInv.shift {st : St} (L : Nat) (h : StInv st) : StInv (st.shift L) := by
  obtain ⟨⟨C, hC⟩, h2, h3⟩ := h
  refine ⟨⟨C, by rw [St.shift_tape, map_sh_shift]; exact hC⟩, ?_, ?_⟩
  · intro hs; simpa [St.shift] using h2 hs
  · intro hs T0 l hl
    simp only [St.shift_tape] at hl
    rcases List.eq_nil_or_concat st.tape with hnil | ⟨T1, l1, hT1⟩
    · simp [hnil] at hl
    · simp only [List.concat_eq_append] at hT1
      rw [hT1] at hl
      have := congrArg List.getLast? hl
      simp at this
      rw [← this, sh_shift]
      exact h3 hs T1 l1 hT1

theorem Frozen.shift {f : Nat} {st : St} (L : Nat) (h : Frozen f st) : Frozen f (st.shift L) := by
  obtain ⟨h1, h2, h3⟩ := h
  refine ⟨by simpa [St.shift] using h1, ?_, h3⟩
  intro i hi e m hc
  simp only [St.shift_tape, getElem?_shift] at hc
  apply h2 i hi e m
  cases hT : st.tape[i]? with
  | none => simp [hT] at hc
  | some t => rw [hT] at hc; cases t <;> simp [Tok.shift] at hc ⊢ <;> exact hc

/-- the smallest open container: it stores `end = 0` and lies below all the others. -/
theorem Chain.root {L : List Sh} {p : Nat} {C : List Nat} (h : Chain L p C) (hp : p ≠ 0) :
    ∃ r, r ∈ C ∧ L[r]? = some (.start 0) ∧ ∀ c ∈ C, r ≤ c := by
  induction h with
  | top => exact absurd rfl hp
  | link h0 hg hpl hch ih =>
    rename_i p g C'
    by_cases hg0 : g = 0
    · subst hg0
      cases hch with
      | top => exact ⟨p, by simp, hpl, by simp⟩
      | link h0' => omega
    · obtain ⟨r, hr, hl, hmin⟩ := ih hg0
      have hrg : r ≤ g := (hch.bound r hr).1
      refine ⟨r, List.mem_cons_of_mem _ hr, hl, ?_⟩
      intro c hc
      rcases List.mem_cons.1 hc with rfl | hc
      · omega
      · exact hmin c hc

/-- every invariant state with a non-empty tape has a frozen index: the last token at top level,
the open top-level container otherwise. -/
theorem exists_frozen {st : St} (hinv : StInv st) (hne : st.tape ≠ []) :
    ∃ f, Frozen f st ∧ (st.parent = 0 → f + 1 = st.tape.length) ∧
      (st.parent ≠ 0 → ∃ mx, st.tape[f]? = some (.array 0 mx) ∨ st.tape[f]? = some (.object 0 mx)) := by
  obtain ⟨⟨C, hC⟩, _, _⟩ := hinv
  have hlen : 0 < st.tape.length := List.length_pos_iff.2 hne
  have hclosed : ∀ (i e : Nat) (m : Bool),
      (st.tape[i]? = some (Tok.array e m) ∨ st.tape[i]? = some (Tok.object e m)) →
      (st.tape.map Tok.sh)[i]? = some (Sh.start e) := by
    intro i e m hc
    rw [List.getElem?_map]
    rcases hc with hc | hc <;> rw [hc] <;> rfl
  by_cases hp : st.parent = 0
  · refine ⟨st.tape.length - 1, ⟨by omega, ?_, fun h => absurd hp h⟩, fun _ => by omega, fun h => absurd hp h⟩
    intro i hi e m hc
    have hC0 : C = [] := by
      have := hC.chain; rw [hp] at this
      cases this with
      | top => rfl
      | link h0 => omega
    rcases hC.starts i e (hclosed i e m hc) with h1 | h1 | h1
    · rw [hC0] at h1; simp at h1
    · exact h1.2.1
    · have := h1.2; simp at this; omega
  · obtain ⟨r, hr, hl, hmin⟩ := hC.chain.root hp
    have hrb := hC.chain.bound r hr
    refine ⟨r, ⟨by simp at hrb; omega, ?_, fun _ => hrb.1⟩, fun h => absurd h hp, fun _ => ?_⟩
    · intro i hi e m hc
      rcases hC.starts i e (hclosed i e m hc) with h1 | h1 | h1
      · have := hmin i h1; omega
      · exact h1.2.1
      · -- the placeholder is the last token, above the parent
        obtain ⟨L0, hL, hpl, _⟩ := hC.hole h1.1
        have h2 := h1.2
        have := congrArg List.length hL
        simp at this h2
        omega
    · rw [List.getElem?_map] at hl
      cases hT : st.tape[r]? with
      | none => simp [hT] at hl
      | some t =>
        rw [hT] at hl
        cases t <;> simp [Tok.sh] at hl
        · subst hl; exact ⟨_, .inl rfl⟩
        · subst hl; exact ⟨_, .inr rfl⟩

/-- more fuel does not change a finished run. -/
theorem run_more_fuel (n : Nat) : ∀ (fuel k : Nat) (st : St) (d : Bytes) (r : Res),
    run n fuel st d = r → r ≠ .outOfFuel → run n (fuel + k) st d = r
  | 0, _, _, _, _, h, hr => by simp [run] at h; exact absurd h.symm hr
  | fuel + 1, k, st, d, r, h, hr => by
    rw [show fuel + 1 + k = (fuel + k) + 1 by omega]
    simp only [run] at h ⊢
    cases hs : step n st d with
    | done r' => simpa [hs] using h
    | cont st' d' =>
      simp only [hs] at h ⊢
      exact run_more_fuel n fuel k st' d' r h hr

end Jomini.TextTape
