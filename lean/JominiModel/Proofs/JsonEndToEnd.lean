import JominiModel.Proofs.TextTapeFaithful3
import JominiModel.Proofs.JsonTape
import JominiModel.Proofs.JsonUtf8
/-
C16_end_to_end: from BYTES to JSON.  The text tape parser model (`TextTape.parse`, C01's
fragment-3 documents `JFields` rendered under any valid layout, `faithful_tree`) composed with the
JSON model: the translation `toJsonTok` / `toJsonTape` of the parser's tokens, the translation
`toJsonDoc` of the layout-free content tree `KFields` into this slice's `Doc`, the equality
`toJsonTape (tape of d) = tapeOf (toJsonDoc d)`, validity ⇒ `docOk`, and the composition with
`C16_content_tapeOf`.

Sub-fragment covered: everything fragment 3 expresses — scalars (quoted / unquoted), empty
containers, objects, arrays of scalars / objects / arrays, headers, object→array mixed containers,
parameter blocks (value and object form), ghost `{}`, implicit `=` before `{`, all operators.
-/
set_option linter.unusedSimpArgs false
namespace Jomini.JsonEndToEnd
open Jomini Jomini.Json

/-! ### translations: text-tape tokens → JSON-model tokens, fragment-3 content → `Doc` -/

def toJsonOp : TextTape.Op → Json.Op
  | .lt => .lt | .le => .le | .gt => .gt | .ge => .ge
  | .ne => .ne | .exact => .exact | .eq => .eq | .exists_ => .exists_

/-- positions are dropped: the JSON model only reads the bytes of a scalar -/
def toJsonTok : TextTape.Tok → Json.TTok
  | .array e m => .array e m
  | .object e m => .object e m
  | .mixedContainer => .mixed
  | .unquoted s => .unquoted s.bytes
  | .quoted s => .quoted s.bytes
  | .parameter s => .param s.bytes
  | .undefParameter s => .undefParam s.bytes
  | .operator o => .op (toJsonOp o)
  | .endTok i => .end_ i
  | .header s => .header s.bytes

def toJsonTape (T : List TextTape.Tok) : Json.Tape := (T.map toJsonTok).toArray

theorem toJsonTok_erase (x : TextTape.Tok) : toJsonTok x.erase = toJsonTok x := by
  cases x <;> rfl

def scalTok (s : TextTape.Scal) : Json.TTok := if s.quoted then .quoted s.bytes else .unquoted s.bytes

def opField (o : TextTape.Op) : Option Json.Op :=
  match o with
  | .eq => none
  | o => some (toJsonOp o)

mutual
def nodeOfK : TextTape.KVal → Node
  | .scal s => .scalar s.quoted s.bytes
  | .empty => .arr false []
  | .obj fs => .obj false false (fieldsOfK fs) []
  | .arr vs => .arr false (itemsOfK vs)
  | .hdr h body => .header h (nodeOfK body)
  | .mixed fs vs => .obj true true (fieldsOfK fs) (vs.map fun s => Item.val (.scalar s.quoted s.bytes))
def fieldsOfK : TextTape.KFields → List Field
  | .nil => []
  | .cons k o v rest => .mk (scalTok k) (opField o) (nodeOfK v) :: fieldsOfK rest
  | .paramVal isU name val rest =>
    .mk (if isU then .undefParam name else .param name) none (.scalar false val.bytes) :: fieldsOfK rest
  | .paramObj isU name fs rest =>
    .mk (if isU then .undefParam name else .param name) none (.obj false false (fieldsOfK fs) []) :: fieldsOfK rest
def itemsOfK : TextTape.KVals → List Item
  | .nil => []
  | .cons v rest => itemOfK v :: itemsOfK rest
def itemOfK : TextTape.KVal → Item
  | .hdr h body => .hdr h (nodeOfK body)
  | .scal s => .val (.scalar s.quoted s.bytes)
  | .empty => .val (.arr false [])
  | .obj fs => .val (.obj false false (fieldsOfK fs) [])
  | .arr vs => .val (.arr false (itemsOfK vs))
  | .mixed fs vs => .val (.obj true true (fieldsOfK fs) (vs.map fun s => Item.val (.scalar s.quoted s.bytes)))
end

/-- the document of a fragment-3 content tree -/
def toJsonDoc (kf : TextTape.KFields) : Doc := ⟨fieldsOfK kf, false, []⟩

/-! ### sizes and token lists agree -/

open TextTape in
theorem opToks (o : TextTape.Op) :
    o.toks.length = (if (opField o).isSome then 1 else 0) ∧
    o.toks.map toJsonTok = (match opField o with | some x => [Json.TTok.op x] | none => []) := by
  cases o <;> simp [TextTape.Op.toks, opField, toJsonTok]

theorem scalItems_size (vs : List TextTape.Scal) :
    itemsSize (vs.map fun s => Item.val (.scalar s.quoted s.bytes)) = vs.length := by
  induction vs with
  | nil => rfl
  | cons s r ih => simp [itemsSize, Item.size, Node.size, ih]; omega

theorem scalTok_eq (s : TextTape.Scal) (a : Bytes) : toJsonTok ((s.tok a).erase) = scalTok s := by
  unfold TextTape.Scal.tok scalTok
  split <;> rfl

theorem scalItems_toks (vs : List TextTape.Scal) (i : Nat) :
    itemsToks (vs.map fun s => Item.val (.scalar s.quoted s.bytes)) i =
      (vs.map fun s => (s.tok []).erase).map toJsonTok := by
  induction vs generalizing i with
  | nil => rfl
  | cons s r ih =>
    simp only [List.map_cons, itemsToks, Item.toks, Node.toks, ih, scalTok_eq, scalTok]
    rfl

mutual
theorem size_node : (v : TextTape.KVal) → (nodeOfK v).size = TextTape.kcntV v
  | .scal s => by simp [nodeOfK, Node.size, TextTape.kcntV]
  | .empty => by simp [nodeOfK, Node.size, TextTape.kcntV, itemsSize]
  | .obj fs => by simp [nodeOfK, Node.size, TextTape.kcntV, itemsSize, size_fields fs]
  | .arr vs => by simp [nodeOfK, Node.size, TextTape.kcntV, size_items vs]
  | .hdr h body => by simp [nodeOfK, Node.size, TextTape.kcntV, size_node body]
  | .mixed fs vs => by simp [nodeOfK, Node.size, TextTape.kcntV, size_fields fs, scalItems_size]
theorem size_fields : (fs : TextTape.KFields) → fieldsSize (fieldsOfK fs) = TextTape.kcntF fs
  | .nil => by simp [fieldsOfK, fieldsSize, TextTape.kcntF]
  | .cons k o v rest => by
    simp [fieldsOfK, fieldsSize, Field.size, TextTape.kcntF, size_node v, size_fields rest, (opToks o).1]
  | .paramVal isU name val rest => by
    simp [fieldsOfK, fieldsSize, Field.size, Node.size, TextTape.kcntF, size_fields rest]
  | .paramObj isU name fs rest => by
    simp [fieldsOfK, fieldsSize, Field.size, Node.size, itemsSize, TextTape.kcntF, size_fields fs, size_fields rest]; omega
theorem size_items : (vs : TextTape.KVals) → itemsSize (itemsOfK vs) = TextTape.kcntVs vs
  | .nil => by simp [itemsOfK, itemsSize, TextTape.kcntVs]
  | .cons v rest => by simp [itemsOfK, itemsSize, TextTape.kcntVs, size_item v, size_items rest]
theorem size_item : (v : TextTape.KVal) → (itemOfK v).size = TextTape.kcntV v
  | .hdr h body => by simp [itemOfK, Item.size, TextTape.kcntV, size_node body]
  | .scal s => by simp [itemOfK, Item.size, Node.size, TextTape.kcntV]
  | .empty => by simp [itemOfK, Item.size, Node.size, TextTape.kcntV, itemsSize]
  | .obj fs => by simp [itemOfK, Item.size, Node.size, TextTape.kcntV, itemsSize, size_fields fs]
  | .arr vs => by simp [itemOfK, Item.size, Node.size, TextTape.kcntV, size_items vs]
  | .mixed fs vs => by simp [itemOfK, Item.size, Node.size, TextTape.kcntV, size_fields fs, scalItems_size]
end

mutual
theorem toks_node : (v : TextTape.KVal) → (base : Nat) →
    (TextTape.ktapeV v base).map toJsonTok = (nodeOfK v).toks base
  | .scal s, base => by simp [TextTape.ktapeV, nodeOfK, Node.toks, scalTok_eq, scalTok]
  | .empty, base => by simp [TextTape.ktapeV, nodeOfK, Node.toks, itemsToks, itemsSize, toJsonTok]
  | .obj fs, base => by
    simp [TextTape.ktapeV, nodeOfK, Node.toks, itemsToks, itemsSize, toJsonTok, toks_fields fs (base + 1), size_fields fs]
  | .arr vs, base => by
    simp [TextTape.ktapeV, nodeOfK, Node.toks, toJsonTok, toks_items vs (base + 1), size_items vs]
  | .hdr h body, base => by
    simp [TextTape.ktapeV, nodeOfK, Node.toks, toJsonTok, toks_node body (base + 1)]
  | .mixed fs vs, base => by
    simp [TextTape.ktapeV, nodeOfK, Node.toks, toJsonTok, toks_fields fs (base + 1), size_fields fs,
      scalItems_size, scalItems_toks]
theorem toks_fields : (fs : TextTape.KFields) → (base : Nat) →
    (TextTape.ktapeF fs base).map toJsonTok = fieldsToks (fieldsOfK fs) base
  | .nil, base => by simp [TextTape.ktapeF, fieldsOfK, fieldsToks]
  | .cons k o v rest, base => by
    have ho := opToks o
    cases hop : opField o with
    | none =>
      rw [hop] at ho
      simp only [Option.isSome_none, Bool.false_eq_true, if_false] at ho
      simp [TextTape.ktapeF, fieldsOfK, fieldsToks, Field.toks, Field.size, hop, ho.1, ho.2, scalTok_eq,
        toks_node v (base + 1), toks_fields rest (base + (1 + TextTape.kcntV v)), size_node v]
    | some x =>
      rw [hop] at ho
      simp only [Option.isSome_some, if_true] at ho
      simp [TextTape.ktapeF, fieldsOfK, fieldsToks, Field.toks, Field.size, hop, ho.1, ho.2, scalTok_eq,
        toks_node v (base + 1 + 1), toks_fields rest (base + (1 + 1 + TextTape.kcntV v)), size_node v]
  | .paramVal isU name val rest, base => by
    cases isU <;>
      simp [TextTape.ktapeF, fieldsOfK, fieldsToks, Field.toks, Field.size, Node.toks, Node.size, toJsonTok,
        TextTape.paramTok, toks_fields rest (base + 2)]
  | .paramObj isU name fs rest, base => by
    cases isU <;>
      simp [TextTape.ktapeF, fieldsOfK, fieldsToks, Field.toks, Field.size, Node.toks, Node.size, itemsToks, itemsSize,
        toJsonTok, TextTape.paramTok, toks_fields fs (base + 2), toks_fields rest (base + (3 + TextTape.kcntF fs)),
        size_fields fs] <;> (congr 1; omega)
theorem toks_items : (vs : TextTape.KVals) → (base : Nat) →
    (TextTape.ktapeVs vs base).map toJsonTok = itemsToks (itemsOfK vs) base
  | .nil, base => by simp [TextTape.ktapeVs, itemsOfK, itemsToks]
  | .cons v rest, base => by
    simp [TextTape.ktapeVs, itemsOfK, itemsToks, toks_item v base, toks_items rest (base + TextTape.kcntV v), size_item v]
theorem toks_item : (v : TextTape.KVal) → (base : Nat) →
    (TextTape.ktapeV v base).map toJsonTok = (itemOfK v).toks base
  | .hdr h body, base => by
    simp [TextTape.ktapeV, itemOfK, Item.toks, toJsonTok, toks_node body (base + 1)]
  | .scal s, base => by simp [TextTape.ktapeV, itemOfK, Item.toks, Node.toks, scalTok_eq, scalTok]
  | .empty, base => by simp [TextTape.ktapeV, itemOfK, Item.toks, Node.toks, itemsToks, itemsSize, toJsonTok]
  | .obj fs, base => by
    simp [TextTape.ktapeV, itemOfK, Item.toks, Node.toks, itemsToks, itemsSize, toJsonTok, toks_fields fs (base + 1), size_fields fs]
  | .arr vs, base => by
    simp [TextTape.ktapeV, itemOfK, Item.toks, Node.toks, toJsonTok, toks_items vs (base + 1), size_items vs]
  | .mixed fs vs, base => by
    simp [TextTape.ktapeV, itemOfK, Item.toks, Node.toks, toJsonTok, toks_fields fs (base + 1), size_fields fs,
      scalItems_size, scalItems_toks]
end

/-- the JSON-model tape of a parsed fragment-3 document is the token list of its `Doc` -/
theorem toJsonTape_eq (T : List TextTape.Tok) (kf : TextTape.KFields)
    (h : T.map TextTape.Tok.erase = TextTape.ktapeF kf 0) : toJsonTape T = tapeOf (toJsonDoc kf) := by
  have h1 : T.map toJsonTok = (T.map TextTape.Tok.erase).map toJsonTok := by
    simp [List.map_map, Function.comp_def, toJsonTok_erase]
  unfold toJsonTape tapeOf toJsonDoc
  rw [h1, h, toks_fields kf 0]
  simp [itemsToks]

/-! ### a valid fragment-3 document gives a well-formed `Doc` -/

theorem scalTok_key (s : TextTape.Scal) : isKeyTok (scalTok s) = true := by
  unfold scalTok; split <;> rfl

theorem scalItems_ok (vs : List TextTape.Scal) :
    itemsOk (vs.map fun s => Item.val (.scalar s.quoted s.bytes)) = true := by
  induction vs with
  | nil => rfl
  | cons s r ih => simp [itemsOk, itemOk, Node.isHeader, nodeOk, ih]

/-- what holds of the node of a value -/
def VOk (v : TextTape.JVal) : Prop :=
  nodeOk (nodeOfK (TextTape.kcontentV v)) = true ∧
  itemOk (itemOfK (TextTape.kcontentV v)) = true ∧
  (v.isBraced → (nodeOfK (TextTape.kcontentV v)).isContainer = true)

mutual
theorem ok_V : (v : TextTape.JVal) → (after : Bytes) → TextTape.JValidV v after → VOk v
  | .scal g s, _, _ => by
    simp [VOk, TextTape.kcontentV, nodeOfK, itemOfK, nodeOk, itemOk, Node.isHeader, TextTape.JVal.isBraced]
  | .empty g gc, _, _ => by
    simp [VOk, TextTape.kcontentV, nodeOfK, itemOfK, nodeOk, itemOk, itemsOk, Node.isHeader, Node.isContainer]
  | .obj g g0 k g1 o v rest gc, after, h => by
    simp only [TextTape.JValidV] at h
    have hv := (ok_V v _ h.2.2.2.2.2.2.1).1
    have hr := ok_F rest _ h.2.2.2.2.2.2.2
    simp [VOk, TextTape.kcontentV, TextTape.kcontentF, nodeOfK, itemOfK, fieldsOfK, nodeOk, itemOk, itemsOk, fieldsOk, fieldOk,
      Node.isHeader, Node.isContainer, scalTok_key, hv, hr]
  | .arrS g g0 s0 rest gc, after, h => by
    simp only [TextTape.JValidV] at h
    have hr := ok_Vs rest _ h.2.2.2.2.2.2
    simp [VOk, TextTape.kcontentV, TextTape.kcontentVs, nodeOfK, itemOfK, itemsOfK, nodeOk, itemOk, itemsOk,
      Node.isHeader, Node.isContainer, hr]
  | .arrC g first rest gc, after, h => by
    simp only [TextTape.JValidV] at h
    have hf := (ok_V first _ h.2.2.2.1).2.1
    have hr := ok_Vs rest _ h.2.2.2.2
    simp [VOk, TextTape.kcontentV, TextTape.kcontentVs, nodeOfK, itemOfK, itemsOfK, nodeOk, itemOk, itemsOk,
      Node.isHeader, Node.isContainer, hf, hr]
  | .ghostIn g b1 b2 v, after, h => by
    simp only [TextTape.JValidV] at h
    have hv := ok_V v _ h.2.2.2.2.2
    exact ⟨by simpa [TextTape.kcontentV] using hv.1, by simpa [TextTape.kcontentV] using hv.2.1,
      fun _ => by simpa [TextTape.kcontentV] using hv.2.2 h.2.2.2.1⟩
  | .mixed g g0 k g1 o v rest gm m0 elems gc, after, h => by
    simp only [TextTape.JValidV] at h
    have hv := (ok_V v _ h.2.2.2.2.2.2.2.1).1
    have hr := ok_F rest _ h.2.2.2.2.2.2.2.2.1
    have hs := scalItems_ok (m0 :: elems.map (·.2))
    simp only [List.map_cons, List.map_map] at hs
    simp [VOk, TextTape.kcontentV, TextTape.kcontentF, nodeOfK, itemOfK, fieldsOfK, nodeOk, itemOk, fieldsOk, fieldOk,
      Node.isHeader, Node.isContainer, scalTok_key, hv, hr, hs]
theorem ok_F : (fs : TextTape.JFields) → (after : Bytes) → TextTape.JValidF fs after →
    fieldsOk (fieldsOfK (TextTape.kcontentF fs)) = true
  | .nil, _, _ => rfl
  | .cons g0 k g1 o v rest, after, h => by
    simp only [TextTape.JValidF] at h
    have hv := (ok_V v _ h.2.2.2.2.1).1
    have hr := ok_F rest _ h.2.2.2.2.2
    simp [TextTape.kcontentF, fieldsOfK, fieldsOk, fieldOk, scalTok_key, hv, hr]
  | .consImp g0 k v rest, after, h => by
    simp only [TextTape.JValidF] at h
    have hv := (ok_V v _ h.2.2.2.2.1).1
    have hr := ok_F rest _ h.2.2.2.2.2
    simp [TextTape.kcontentF, fieldsOfK, fieldsOk, fieldOk, scalTok_key, hv, hr]
  | .ghost g gc rest, after, h => by
    simp only [TextTape.JValidF] at h
    simpa [TextTape.kcontentF] using ok_F rest _ h.2.2
  | .consHdr g0 k g1 o gh hh body rest, after, h => by
    simp only [TextTape.JValidF] at h
    have hb := ok_V body _ h.2.2.2.2.2.2.2.2.2.1
    have hbr : body.isBraced := by
      have := h.2.2.2.2.2.2.2.2.1
      cases body <;> simp [TextTape.JVal.isContainer] at this <;> trivial
    have hr := ok_F rest _ h.2.2.2.2.2.2.2.2.2.2
    simp [TextTape.kcontentF, fieldsOfK, nodeOfK, fieldsOk, fieldOk, nodeOk, scalTok_key, hb.1, hb.2.2 hbr, hr]
  | .paramVal g0 isU name g1 val g2 rest, after, h => by
    simp only [TextTape.JValidF] at h
    have hr := ok_F rest _ h.2.2.2.2.2.2.2
    cases isU <;> simp [TextTape.kcontentF, fieldsOfK, fieldsOk, fieldOk, nodeOk, isKeyTok, hr]
  | .paramObj g0 isU name g1 k g2 o v inner gc rest, after, h => by
    simp only [TextTape.JValidF] at h
    have hv := (ok_V v _ h.2.2.2.2.2.2.2.2.1).1
    have hi := ok_F inner _ h.2.2.2.2.2.2.2.2.2.1
    have hr := ok_F rest _ h.2.2.2.2.2.2.2.2.2.2
    have hk := scalTok_key ⟨false, k.bytes⟩
    cases isU <;>
      simp [TextTape.kcontentF, fieldsOfK, fieldsOk, fieldOk, nodeOk, itemsOk, hk, hv, hi, hr] <;> rfl
theorem ok_Vs : (vs : TextTape.JVals) → (after : Bytes) → TextTape.JValidVs vs after →
    itemsOk (itemsOfK (TextTape.kcontentVs vs)) = true
  | .nil, _, _ => rfl
  | .cons v rest, after, h => by
    simp only [TextTape.JValidVs] at h
    have hv := (ok_V v _ h.1).2.1
    have hr := ok_Vs rest _ h.2
    simp [TextTape.kcontentVs, itemsOfK, itemsOk, hv, hr]
end

theorem docOk_of_valid (fs : TextTape.JFields) (after : Bytes) (h : TextTape.JValidF fs after) :
    docOk (toJsonDoc (TextTape.kcontentF fs)) = true := by
  simp [docOk, toJsonDoc, ok_F fs after h, itemsOk]

/-! ### from bytes to JSON -/

/-- the tape with positions that the parser produces for a fragment-3 document, translated, is
the token list of the document's `Doc` -/
theorem toJsonTape_jtapeF (fs : TextTape.JFields) (gt : Bytes) :
    toJsonTape (TextTape.jtapeF fs 0 gt) = tapeOf (toJsonDoc (TextTape.kcontentF fs)) :=
  toJsonTape_eq _ _ (TextTape.jtapeF_erase fs 0 gt)

/-- C16_end_to_end: parse the rendering of a fragment-3 document `fs` under ANY valid layout
(`JValidF`, trailing blanks `gt`, no BOM); convert the resulting tape with any options and either
encoding: the result is `jsonOfDoc` of the document's content — the same for every layout. -/
theorem end_to_end (fs : TextTape.JFields) (gt : Bytes) (hgt : TextTape.Blank gt)
    (hv : TextTape.JValidF fs gt) (hb : TextTape.hasBom (TextTape.jrenderF fs ++ gt) = false)
    (o : Opts) (enc : Enc) :
    ∃ T, TextTape.parse (TextTape.jrenderF fs ++ gt) = .ok T false ∧
      toJsonTape T = tapeOf (toJsonDoc (TextTape.kcontentF fs)) ∧
      toJson o enc .obj (toJsonTape T) = .ok (some (jsonOfDoc o enc (toJsonDoc (TextTape.kcontentF fs)))) := by
  obtain ⟨T, hp, he⟩ := TextTape.faithful_tree fs gt hgt hv hb
  have ht := toJsonTape_eq T _ he
  refine ⟨T, hp, ht, ?_⟩
  rw [ht]
  exact toJson_obj_doc o enc _ _ (docAt_tapeOf _ (docOk_of_valid fs gt hv))

/-- layout independence of the JSON: two valid layouts of documents with the same content
convert to the same JSON value (hence the same bytes). -/
theorem end_to_end_layout_independent (fs fs' : TextTape.JFields) (gt gt' : Bytes)
    (hgt : TextTape.Blank gt) (hgt' : TextTape.Blank gt')
    (hv : TextTape.JValidF fs gt) (hv' : TextTape.JValidF fs' gt')
    (hb : TextTape.hasBom (TextTape.jrenderF fs ++ gt) = false)
    (hb' : TextTape.hasBom (TextTape.jrenderF fs' ++ gt') = false)
    (hc : TextTape.kcontentF fs = TextTape.kcontentF fs') (o : Opts) (enc : Enc) :
    ∃ T T', TextTape.parse (TextTape.jrenderF fs ++ gt) = .ok T false ∧
      TextTape.parse (TextTape.jrenderF fs' ++ gt') = .ok T' false ∧
      toJson o enc .obj (toJsonTape T) = toJson o enc .obj (toJsonTape T') := by
  obtain ⟨T, hp, _, hj⟩ := end_to_end fs gt hgt hv hb o enc
  obtain ⟨T', hp', _, hj'⟩ := end_to_end fs' gt' hgt' hv' hb' o enc
  exact ⟨T, T', hp, hp', by rw [hj, hj', hc]⟩

/-- … and the bytes written are a JSON text and well-formed UTF-8 (`ff` = the float printer). -/
theorem end_to_end_valid_output (ff : Nat → Bytes) (hff : ∀ b, JsonSpec.isNumber (ff b) = true)
    (fs : TextTape.JFields) (gt : Bytes) (hgt : TextTape.Blank gt)
    (hv : TextTape.JValidF fs gt) (hb : TextTape.hasBom (TextTape.jrenderF fs ++ gt) = false)
    (o : Opts) (enc : Enc) :
    ∃ T v, TextTape.parse (TextTape.jrenderF fs ++ gt) = .ok T false ∧
      toJson o enc .obj (toJsonTape T) = .ok (some v) ∧
      JsonSpec.JsonText (render ff o v) ∧ JsonSpec.validUtf8 (render ff o v) = true := by
  obtain ⟨T, hp, _, hj⟩ := end_to_end fs gt hgt hv hb o enc
  refine ⟨T, _, hp, hj, ?_, ?_⟩
  · unfold render
    split
    · exact jsonText_pretty ff hff _
    · exact jsonText_compact ff hff _
  · exact (V_iff _).mpr (V_render ff hff o _ (jsonOfDoc_ok o enc _))

/-- hypotheses satisfiable: `a={1 {b=c} {}} d={{x}}` + newline (C01's `exampleTree`) -/
example : ∃ T, TextTape.parse (TextTape.jrenderF TextTape.exampleTree ++ [10]) = .ok T false ∧
    toJson ⟨false, .preserve, .all⟩ .utf8 .obj (toJsonTape T) =
      .ok (some (jsonOfDoc ⟨false, .preserve, .all⟩ .utf8 (toJsonDoc (TextTape.kcontentF TextTape.exampleTree)))) := by
  obtain ⟨hv, hg, hb⟩ := TextTape.exampleTree_valid
  obtain ⟨T, hp, _, hj⟩ := end_to_end TextTape.exampleTree [10] hg hv hb ⟨false, .preserve, .all⟩ .utf8
  exact ⟨T, hp, hj⟩

end Jomini.JsonEndToEnd
