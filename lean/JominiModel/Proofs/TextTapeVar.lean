import JominiModel.Proofs.TextTapeFaithful2
import JominiModel.Proofs.TextTapeTotal
/-
`@variables` and `@[…]`: the single-lexeme and single-iteration lemmas of the faithfulness proofs,
restated for `Scal.ValidX` (ordinary scalar, variable, interpolated expression).
-/
namespace Jomini.TextTape
open Jomini

theorem bnd_at : isBoundary 64 = false := by decide +kernel
theorem blank_at : isBlank 64 = false := by decide +kernel

/-- facts about the first byte of the rendering. -/
theorem Scal.ValidX.head {s : Scal} (h : s.ValidX) :
    ∃ c r, s.text = c :: r ∧ isBlank c = false ∧ c ≠ 35 ∧ c ≠ 125 ∧ c ≠ 93 ∧ c ≠ 123 ∧ c ≠ 91 ∧ c ≠ 61 ∧
      (s.quoted = true → c = 34) ∧ (s.quoted = false → c ≠ 34) := by
  rcases h with h | ⟨hq, r, hb, _⟩ | ⟨hq, body, hb, _⟩
  · obtain ⟨c, r, h1, h2, h3, h4, h5, h6, h7, h8, h9, h10⟩ := h.head
    exact ⟨c, r, h1, h2, h3, h4, h5, h6, h7, h8, h9, fun hq => (h10 hq).1⟩
  · exact ⟨64, r, by simp [Scal.text, hq, hb], blank_at, by decide, by decide, by decide, by decide, by decide,
      by decide, by simp [hq], fun _ => by decide⟩
  · exact ⟨64, 91 :: (body ++ [93]), by simp [Scal.text, hq, hb], blank_at, by decide, by decide, by decide,
      by decide, by decide, by decide, by simp [hq], fun _ => by decide⟩

theorem skipWs_scalX {s : Scal} (h : s.ValidX) (X : Bytes) : skipWs (s.text ++ X) = some (s.text ++ X) := by
  obtain ⟨c, r, hs, hbl, h35, _⟩ := h.head
  rw [hs]; exact skipWs_cons _ hbl h35

theorem firstIdx_append_not (p : UInt8 → Bool) : ∀ (l : Bytes) (c : UInt8) (X : Bytes),
    (∀ x ∈ l, p x = false) → p c = true → firstIdx p (l ++ c :: X) = some l.length
  | [], c, X, _, hc => by simp [firstIdx, hc]
  | a :: l, c, X, hl, hc => by
    have ha : p a = false := hl a (by simp)
    simp [firstIdx, ha, firstIdx_append_not p l c X (fun x hx => hl x (by simp [hx])) hc]

theorem lexValue_scalX {s : Scal} (h : s.ValidX) (tape : List Tok) (X : Bytes)
    (hX : s.quoted = false → StartsBoundary X) :
    lexValue tape (s.text ++ X) = .ok (tape ++ [s.tok X], X) := by
  rcases h with h | ⟨hq, r, hb, hne, hr⟩ | ⟨hq, body, hb, hbody⟩
  · exact lexValue_scal h tape X hX
  · -- `@name`
    obtain ⟨r0, r1, hr0⟩ : ∃ r0 r1, r = r0 :: r1 := by
      cases r with
      | nil => exact absurd rfl hne
      | cons a b => exact ⟨a, b, rfl⟩
    subst hr0
    have htext : s.text = 64 :: r0 :: r1 := by simp [Scal.text, hq, hb]
    have h91 : r0 ≠ 91 := by
      intro h; have := hr r0 (by simp); rw [h] at this; simp [bnd_lbr] at this
    have hsp : splitAtScalar ((64 :: r0 :: r1) ++ X) = some (64 :: r0 :: r1, X) :=
      splitAtScalar_token (by simp) (by
        intro c hc
        rcases List.mem_cons.1 hc with rfl | hc
        · exact bnd_at
        · exact hr c hc) (hX hq)
    rw [htext]
    simp only [List.cons_append] at hsp ⊢
    simp only [lexValue, show (64 : UInt8) ≠ 34 by decide, if_false, if_true, parseVariableTok,
      List.getElem?_cons_succ, List.getElem?_cons_zero, Option.some.injEq, h91, parseScalarTok, hsp]
    simp [Scal.tok, hq, hb]; omega
  · -- `@[ … ]`
    have htext : s.text = 64 :: 91 :: (body ++ [93]) := by simp [Scal.text, hq, hb]
    have hp93 : (fun c : UInt8 => decide (c = 93)) 93 = true := by decide
    have hpb : ∀ x ∈ body, (fun c : UInt8 => decide (c = 93)) x = false := by
      intro x hx; simpa using hbody x hx
    have hidx : firstIdx (fun c => decide (c = 93)) (body ++ 93 :: X) = some body.length :=
      firstIdx_append_not _ body 93 X hpb hp93
    have hdrop : (body ++ 93 :: X).drop (body.length + 1) = X := by
      rw [show body ++ 93 :: X = (body ++ [93]) ++ X by simp, List.drop_append_of_le_length (by simp)]
      rw [List.drop_of_length_le (by simp)]; simp
    have htake : (body ++ 93 :: X).take (body.length + 1) = body ++ [93] := by
      rw [show body ++ 93 :: X = (body ++ [93]) ++ X by simp, List.take_append_of_le_length (by simp)]
      rw [List.take_of_length_le (by simp)]
    rw [htext]
    simp only [List.cons_append, List.append_assoc, List.nil_append]
    simp only [lexValue, show (64 : UInt8) ≠ 34 by decide, if_false, if_true, parseVariableTok,
      List.getElem?_cons_succ, List.getElem?_cons_zero, List.drop_succ_cons, List.drop_zero, hidx, splitAtChecked]
    have hle : body.length + 2 + 1 ≤ (64 :: 91 :: (body ++ 93 :: X)).length := by simp
    rw [if_pos hle]
    simp only [List.take_succ_cons, List.drop_succ_cons, htake, hdrop]
    simp [Scal.tok, hq, hb]; omega

theorem Scal.ValidX.text_pos {s : Scal} (h : s.ValidX) : 1 ≤ s.text.length := by
  obtain ⟨c, r, htx, _⟩ := h.head
  simp [htx]

/-- blanks followed by a scalar never start with `=`. -/
theorem head_blank_scalX {w : Bytes} (hw : Blank w) {s : Scal} (hs : s.ValidX) (Z : Bytes) :
    (w ++ (s.text ++ Z)).head? ≠ some 61 := by
  cases hw with
  | nil =>
    obtain ⟨c, r, htx, _, _, _, _, _, _, h61, _⟩ := hs.head
    simp [htx, h61]
  | ws c w hc _ =>
    simp only [List.cons_append, List.head?_cons, ne_eq, Option.some.injEq]
    intro h; subst h; simp [blank_eq] at hc
  | comment body w _ _ => simp

/-! ### single iterations -/

theorem step_key_scalX {n : Nat} {st : St} {g : Bytes} {s : Scal} {X : Bytes} (hst : st.state = .key)
    (hg : Blank g) (hs : s.ValidX) (hX : s.quoted = false → StartsBoundary X) :
    step n st (g ++ (s.text ++ X)) =
      .cont { st with tape := st.tape ++ [s.tok X], state := .kvs } X := by
  obtain ⟨c, r, htx, _, _, h125, h93, h123, h91, _, _, _⟩ := hs.head
  have hlex := lexValue_scalX hs st.tape X hX
  simp only [step, skipWs_blank hg, skipWs_scalX hs, stepAt, hst]
  rw [htx] at hlex ⊢
  simp only [List.cons_append] at hlex ⊢
  simp only [stepKey, h125, h93, h123, h91, false_or, if_false, hlex]

theorem step_parseopen_fieldX {n : Nat} {st : St} {T : List Tok} {g0 g1 : Bytes} {k : Scal} {o : Op} {Y : Bytes}
    (hst : st.state = .parseOpen) (hm : st.mixed = false) (hT : st.tape = T ++ [.array 0 false])
    (h0 : Blank g0) (hk : k.ValidX) (h1 : Blank g1)
    (hkb : k.quoted = false → StartsBoundary (g1 ++ o.text)) :
    step n st (g0 ++ (k.text ++ (g1 ++ (o.text ++ Y)))) =
      .cont { state := .kvs, mixed := false, parent := T.length,
              tape := T ++ [.object st.parent false, k.tok (g1 ++ (o.text ++ Y))] } (o.text ++ Y) := by
  obtain ⟨c, r, htx, _, _, h125, _, h123, h91, _, _, _⟩ := hk.head
  have hkX : k.quoted = false → StartsBoundary (g1 ++ (o.text ++ Y)) := by
    intro hq
    rcases hkb hq with h | ⟨c', r', h, hc'⟩
    · have : o.text ≠ [] := by cases o <;> simp [Op.text]
      simp at h; exact absurd h.2 this
    · exact .inr ⟨c', r' ++ Y, by rw [← List.cons_append, ← h]; simp, hc'⟩
  have hlex := lexValue_scalX hk st.tape (g1 ++ (o.text ++ Y)) hkX
  simp only [step, skipWs_blank h0, skipWs_scalX hk, stepAt, hst]
  rw [htx] at hlex ⊢
  simp only [List.cons_append] at hlex ⊢
  simp only [stepParseOpen, h125, h91, h123, if_false, hlex, hm, Bool.false_eq_true, skipWs_blank h1,
    skipWs_op, firstFieldPeek_op, if_true]
  rw [hT]
  simp [setTok]

theorem step_parseopen_scalar_arrX {n : Nat} {st : St} {T : List Tok} {g0 : Bytes} {s : Scal} {Z d2 : Bytes}
    (hst : st.state = .parseOpen) (hm : st.mixed = false) (hT : st.tape = T ++ [.array 0 false])
    (h0 : Blank g0) (hs : s.ValidX) (hZ : s.quoted = false → StartsBoundary Z)
    (hsk : skipWs Z = some d2) (hpk : firstFieldPeek d2 = false) :
    step n st (g0 ++ (s.text ++ Z)) =
      .cont { state := .arrayValue, mixed := false, parent := T.length,
              tape := T ++ [.array st.parent false, s.tok Z] } d2 := by
  obtain ⟨c, r, htx, _, _, h125, _, h123, h91, _, _, _⟩ := hs.head
  have hlex := lexValue_scalX hs st.tape Z hZ
  simp only [step, skipWs_blank h0, skipWs_scalX hs, stepAt, hst]
  rw [htx] at hlex ⊢
  simp only [List.cons_append] at hlex ⊢
  simp only [stepParseOpen, h125, h91, h123, if_false, hlex, hm, Bool.false_eq_true, hsk, hpk]
  rw [hT]
  simp [setTok]

/-! ### parameter definitions -/

/-- what `parse_parameter_definition` does after `[[name]` / `[[!name]` (a verbatim copy of the
tail of `paramDefBody`); `nt` = recorded position of the name. -/
def pdAfter (mixed : Bool) (tape : List Tok) (parent : Nat) (isU : Bool) (nt : Nat) (name d3 : Bytes) : Step :=
  let ptok : Tok := paramTok isU ⟨nt, name⟩
  match skipWs d3 with
  | none => .done (.err .eof)
  | some d4 =>
    match splitAtScalar d4 with
    | none => .done .panic
    | some (kv, d5) =>
      match skipWs d5 with
      | none => .done (.err .eof)
      | some d6 =>
        match d6 with
        | [] => .done .panic
        | c :: rest =>
          if c = 93 then
            .cont { state := .key, mixed := mixed, parent := parent,
                    tape := tape ++ [ptok] ++ [.unquoted ⟨d4.length, kv⟩] } rest
          else
            .cont { state := .kvs, mixed := mixed, parent := (tape ++ [ptok]).length,
                    tape := tape ++ [ptok] ++ [.object parent false, .unquoted ⟨d4.length, kv⟩] } d6

/-- a parameter name: non-empty, no boundary byte (so it ends at the `]`). -/
def ParamName (name : Bytes) : Prop := name ≠ [] ∧ ∀ c ∈ name, isBoundary c = false

theorem paramDefBody_name (mixed : Bool) (tape : List Tok) (parent : Nat) (isU : Bool) {name : Bytes}
    (hn : ParamName name) (Y : Bytes) :
    paramDefBody mixed tape parent (91 :: 91 :: ((if isU then [33] else []) ++ (name ++ 93 :: Y))) =
      pdAfter mixed tape parent isU (name ++ 93 :: Y).length name Y := by
  obtain ⟨c0, r0, hc0⟩ : ∃ c0 r0, name = c0 :: r0 := by
    cases name with
    | nil => exact absurd rfl hn.1
    | cons c r => exact ⟨c, r, rfl⟩
  subst hc0
  have hsp : splitAtScalar (c0 :: (r0 ++ 93 :: Y)) = some (c0 :: r0, 93 :: Y) :=
    splitAtScalar_token hn.1 hn.2 (.inr ⟨93, Y, rfl, bnd_rbr⟩)
  have hc33 : c0 ≠ 33 := by
    intro h; have := hn.2 c0 (by simp); rw [h] at this; simp [bnd_bang] at this
  cases isU with
  | true =>
    simp only [if_true, List.cons_append, List.nil_append]
    unfold paramDefBody pdAfter
    simp only [List.getElem?_cons_succ, List.getElem?_cons_zero, decide_true, if_true, List.length_cons,
      List.drop_succ_cons, List.drop_zero, List.isEmpty_cons, Bool.false_eq_true, if_false, hsp,
      List.head?_cons, ne_eq, not_true_eq_false, List.tail_cons, List.length_append]
    rw [if_neg (by omega)]
    try rfl
  | false =>
    simp only [Bool.false_eq_true, if_false, List.nil_append, List.cons_append]
    unfold paramDefBody pdAfter
    have hd : decide (c0 = 33) = false := by simp [hc33]
    simp only [List.getElem?_cons_succ, List.getElem?_cons_zero, Option.some.injEq, hd, Bool.false_eq_true,
      if_false, List.length_cons, Nat.add_zero,
      List.drop_succ_cons, List.drop_zero, List.isEmpty_cons, hsp,
      List.head?_cons, ne_eq, not_true_eq_false, List.tail_cons, List.length_append]
    rw [if_neg (by omega)]
    try rfl


theorem erase_unquoted (s : Slice) : (Tok.unquoted s).erase = .unquoted ⟨0, s.bytes⟩ := rfl

theorem paramTok_erase (b : Bool) (t : Nat) (n : Bytes) :
    (paramTok b ⟨t, n⟩).erase = paramTok b ⟨0, n⟩ := by cases b <;> rfl


end Jomini.TextTape
