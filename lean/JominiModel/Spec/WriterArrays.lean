import JominiModel.Spec.WriterNested
/-
Reference definitions for C15_parse_back_arrays: root fields whose values are scalars, non-empty
arrays of scalars or empty containers, with every container-start flavour
(`write_object_start` / `write_array_start` / `write_start`).  Core Lean only.
-/
namespace Jomini.Writer.Spec
open Jomini Jomini.Writer
open Jomini.TextTape (Scal)

/-- how a container is opened -/
inductive Flavour where
  | objectStart | arrayStart | start
  deriving DecidableEq, Repr

def Flavour.call : Flavour → Call
  | .objectStart => .objectStart
  | .arrayStart => .arrayStart
  | .start => .start

/-- a root-level value: a scalar, a non-empty array of scalars opened with `write_array_start` or
`write_start` (which resolves to an array because no operator follows the first element), or an
empty container opened in any of the three ways (all three give `{ }`, which parses as an empty
array) -/
inductive AVal where
  | scal (c : SCall)
  | arr (unknown : Bool) (first : SCall) (rest : List SCall)
  | empty (fl : Flavour)

structure AField where
  key : SCall
  op : Option Writer.Op
  val : AVal

def AVal.calls : AVal → List Call
  | .scal c => [c.call]
  | .arr unknown first rest =>
    (if unknown then Call.start else Call.arrayStart) :: first.call :: (rest.map SCall.call ++ [.end])
  | .empty fl => [fl.call, .end]

def AField.calls (x : AField) : List Call := x.key.call :: (opCalls x.op ++ x.val.calls)

def acalls : List AField → List Call
  | [] => []
  | x :: r => x.calls ++ acalls r

/-- the text of the further elements of an array: one space in front of each -/
def elemsText : List SCall → Bytes
  | [] => []
  | e :: r => 32 :: (e.scal.text ++ elemsText r)

/-- the text of a root-level value: an array has its elements on one indented line -/
def AVal.text (c : UInt8) (f : Nat) : AVal → Bytes
  | .scal s => s.scal.text
  | .arr _ first rest => 123 :: (([10] ++ ind c f 1) ++ (first.scal.text ++ (elemsText rest ++ [10, 125])))
  | .empty _ => [123, 32, 125]

def atext (c : UInt8) (f : Nat) : List AField → Bool → Bytes
  | [], _ => []
  | x :: r, first =>
    (if first then [] else [10]) ++ (x.key.scal.text ++ (sepText (opOf x.op) ++ (x.val.text c f ++ atext c f r false)))

/-- the content in the text-tape slice's terms -/
def elemsK : List SCall → TextTape.KVals
  | [] => .nil
  | e :: r => .cons (.scal e.scal) (elemsK r)

def AVal.content : AVal → TextTape.KVal
  | .scal s => .scal s.scal
  | .arr _ first rest => .arr (.cons (.scal first.scal) (elemsK rest))
  | .empty _ => .empty

def acontent : List AField → TextTape.KFields
  | [] => .nil
  | x :: r => .cons x.key.scal (opOf x.op) x.val.content (acontent r)

def AVal.Valid : AVal → Prop
  | .scal s => s.Valid
  | .arr _ first rest => first.Valid ∧ ∀ e ∈ rest, e.Valid
  | .empty _ => True

/-- the form a tape gives rise to: arrays and empty containers written with `write_array_start`
(what `write_tape` does for an `Array` token), no explicit `=` operator -/
def AVal.Canon : AVal → Prop
  | .scal _ => True
  | .arr unknown _ _ => unknown = false
  | .empty fl => fl = .arrayStart

def AField.Canon (x : AField) : Prop := x.op ≠ some .eq ∧ x.val.Canon

end Jomini.Writer.Spec
