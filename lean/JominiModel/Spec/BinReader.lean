import JominiModel.Model.BinLexer
import JominiModel.Model.BinReader
/-
Reference notions for the streaming binary reader properties (C08 / C20).
-/
namespace Jomini.BinReader
open Jomini Jomini.BinLexer

/-- the token starting at the head of `rest` can be decided inside a buffer of `cap` bytes:
no prefix of `rest` on which `read_token` still says `Eof` is as long as the buffer.  (For a
token of `m` bytes this is `m ≤ cap`; for a failing trailing token it also counts the bytes the
reader has to hold before it can report the failure.) -/
def FitsAt (cap : Nat) (rest : Bytes) : Prop :=
  ∀ k, k ≤ rest.length → readToken (rest.take k) = .error .eof → k < cap

/-- `FitsBuffer`: every token of the input (walking the token boundaries from the start, and
including a failing trailing token) can be decided inside `cap` bytes. -/
inductive Fits (cap : Nat) : Bytes → Prop
  | mk (d : Bytes) (head : FitsAt cap d)
      (tail : ∀ t r, readToken d = .ok (t, r) → Fits cap r) : Fits cap d

/-- A call log agrees with the slice lexer started on `d`: every returned token is the
lexer's next token, a clean end is reported only on empty remaining input, `Eof` /
`InvalidRgb` only where the lexer reports them, I/O errors change nothing, and no other
outcome (`BufferFull`, out-of-window pointer, model fuel) occurs. -/
def Agrees : Bytes → List Call → Prop
  | _, [] => True
  | d, .tok t :: cs => ∃ r, readToken d = .ok (t, r) ∧ Agrees r cs
  | d, .done :: cs => d = [] ∧ Agrees d cs
  | d, .err (.lexer .eof) :: cs => readToken d = .error .eof ∧ d ≠ [] ∧ Agrees d cs
  | d, .err (.lexer .invalidRgb) :: cs => readToken d = .error .invalidRgb ∧ Agrees d cs
  | d, .err .read :: cs => Agrees d cs
  | _, .err _ :: _ => False

/-- the tokens of a call log -/
def callToks : List Call → List Token
  | [] => []
  | .tok t :: cs => t :: callToks cs
  | _ :: cs => callToks cs

/-- fuel-free description of a whole lexer run: tokens, terminal outcome, unread bytes -/
inductive Lexes : Bytes → List Token → Terminal → Bytes → Prop
  | tok {d r left : Bytes} {t : Token} {ts : List Token} {term : Terminal} :
      readToken d = .ok (t, r) → Lexes r ts term left → Lexes d (t :: ts) term left
  | done : Lexes [] [] .done []
  | eof {d : Bytes} : readToken d = .error .eof → d ≠ [] → Lexes d [] (.err .eof) d
  | rgb {d : Bytes} : readToken d = .error .invalidRgb → Lexes d [] (.err .invalidRgb) d

/-- executable form of `Fits` (fuel: one step per token) -/
def fitsLoop (cap : Nat) : Nat → Bytes → Bool
  | 0, _ => false
  | fuel + 1, d =>
    (List.range (d.length + 1)).all (fun k =>
      match readToken (d.take k) with
      | .error .eof => decide (k < cap)
      | _ => true) &&
    match readToken d with
    | .ok (_, r) => fitsLoop cap fuel r
    | .error _ => true

def fitsBuffer (cap : Nat) (d : Bytes) : Bool := fitsLoop cap (d.length / 2 + 2) d

end Jomini.BinReader
