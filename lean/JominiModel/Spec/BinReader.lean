import JominiModel.Model.BinLexer
import JominiModel.Model.BinReader
/-
Reference notions for the streaming binary reader properties (C08 / C20).
-/
namespace Jomini.BinReader
open Jomini Jomini.BinLexer

/-- the token starting at the head of `rest` can be decided inside a buffer of `cap` bytes:
no prefix of `rest` on which `read_token` still says `Eof` is as long as the buffer.  (For a
token of `m` bytes this is `m ≤ cap`; for a failing trailing token it also counts the bytes the
reader has to hold before it can report the failure.) -/
def FitsAt (cap : Nat) (rest : Bytes) : Prop :=
  ∀ k, k ≤ rest.length → readToken (rest.take k) = .error .eof → k < cap

/-- `FitsBuffer`: every token of the input (walking the token boundaries from the start, and
including a failing trailing token) can be decided inside `cap` bytes. -/
inductive Fits (cap : Nat) : Bytes → Prop
  | mk (d : Bytes) (head : FitsAt cap d)
      (tail : ∀ t r, readToken d = .ok (t, r) → Fits cap r) : Fits cap d

/-- executable form of `Fits` (fuel: one step per token) -/
def fitsLoop (cap : Nat) : Nat → Bytes → Bool
  | 0, _ => false
  | fuel + 1, d =>
    (List.range (d.length + 1)).all (fun k =>
      match readToken (d.take k) with
      | .error .eof => decide (k < cap)
      | _ => true) &&
    match readToken d with
    | .ok (_, r) => fitsLoop cap fuel r
    | .error _ => true

def fitsBuffer (cap : Nat) (d : Bytes) : Bool := fitsLoop cap (d.length / 2 + 2) d

end Jomini.BinReader
