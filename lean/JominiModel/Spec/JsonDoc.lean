import JominiModel.Model.Json
import JominiModel.Spec.Json
/-
Reference side of C16_content / C16_total: a document tree (`Node` / `Item` / `Field`),
what it means for a token list to BE that tree (`docAt`: every token and every end link in
place — a decidable check), a search for the tree of a given token list (`docOf`), the
token list of a tree (`tapeOf`) and the JSON value of a tree (`jsonOf`).

`WfTape t` (the hypothesis of C16_total) is "`t` is the token list of some tree";
`wfTapeB` decides a sufficient condition by running `docOf` and checking its answer with
`docAt`.  The driver evaluates `wfTapeB` on every tape the real parser produced in the
check (op `wf`), so the hypothesis is runtime-checked on all generated inputs.
-/
namespace Jomini.Json
open Jomini Jomini.JsonSpec

mutual
/-- a value -/
inductive Node where
  | scalar (quoted : Bool) (s : Bytes)
  /-- `{ items }` read as an array; `mixed` is the flag stored in the `Array` token -/
  | arr (mixed : Bool) (items : List Item)
  /-- `{ fields [MixedContainer items] }`; `flag` is the flag stored in the `Object` token, the
  `MixedContainer` token is present iff `mixed` (the parser does not always set the flag, but
  never sets it without the token: `flag → mixed`) -/
  | obj (flag : Bool) (mixed : Bool) (fields : List Field) (rest : List Item)
  /-- `header { … }` (`rgb { 1 2 3 }`): the body is an array or object -/
  | header (s : Bytes) (body : Node)
/-- what `ArrayReader::values()` steps over: values, and (mixed containers) operator and
`MixedContainer` tokens -/
inductive Item where
  | val (n : Node)
  /-- a header token with its body inside a value list (`{ a=b 1 color = rgb { 1 2 3 } }`):
  `values()` steps over the header token and then over the body as a SEPARATE value -/
  | hdr (s : Bytes) (body : Node)
  /-- a parameter token `[[x]` / `[[!x]` stepped over as a value (the array view of an object) -/
  | paramTok (undef : Bool) (s : Bytes)
  | opTok (o : Op)
  | mixedTok
/-- `key [op] value`; `key` is the key token itself (quoted / unquoted / parameter) -/
inductive Field where
  | mk (key : TTok) (op : Option Op) (val : Node)
end

/-- a whole document: top-level fields, and (if the top level turned into a mixed container)
the `MixedContainer` token followed by bare items -/
structure Doc where
  fields : List Field
  mixed : Bool
  rest : List Item

/-! ### sizes (number of tokens) and nesting depth -/

mutual
def Node.size : Node → Nat
  | .scalar _ _ => 1
  | .arr _ items => 2 + itemsSize items
  | .obj _ m fields rest => 2 + fieldsSize fields + (if m then 1 else 0) + itemsSize rest
  | .header _ body => 1 + body.size
def itemsSize : List Item → Nat
  | [] => 0
  | x :: xs => x.size + itemsSize xs
def Item.size : Item → Nat
  | .val n => n.size
  | .hdr _ body => 1 + body.size
  | .paramTok _ _ => 1
  | .opTok _ => 1
  | .mixedTok => 1
def fieldsSize : List Field → Nat
  | [] => 0
  | f :: fs => f.size + fieldsSize fs
def Field.size : Field → Nat
  | .mk _ op v => 1 + (if op.isSome then 1 else 0) + v.size
end

mutual
def Node.depth : Node → Nat
  | .scalar _ _ => 1
  | .arr _ items => 1 + itemsDepth items
  | .obj _ _ fields rest => 1 + max (fieldsDepth fields) (itemsDepth rest)
  | .header _ body => 1 + body.depth
def itemsDepth : List Item → Nat
  | [] => 0
  | x :: xs => max x.depth (itemsDepth xs)
def Item.depth : Item → Nat
  | .val n => n.depth
  | .hdr _ body => 1 + body.depth
  | .paramTok _ _ => 1
  | .opTok _ => 1
  | .mixedTok => 1
def fieldsDepth : List Field → Nat
  | [] => 0
  | f :: fs => max f.depth (fieldsDepth fs)
def Field.depth : Field → Nat
  | .mk _ _ v => v.depth
end

def Node.isContainer : Node → Bool
  | .arr _ _ | .obj _ _ _ _ => true
  | _ => false

def Node.isHeader : Node → Bool
  | .header _ _ => true
  | _ => false

/-! ### a token list IS a tree: every token and end link in place -/

mutual
/-- node `n` occupies the tokens `[i, i + n.size)` of `t` -/
def nodeAt (t : Tape) : Node → Nat → Bool
  | .scalar q s, i => decide (t[i]? = some (if q then TTok.quoted s else TTok.unquoted s))
  | .arr m items, i =>
    decide (t[i]? = some (TTok.array (i + 1 + itemsSize items) m)) &&
    itemsAt t items (i + 1) &&
    decide (t[i + 1 + itemsSize items]? = some (TTok.end_ i))
  | .obj flag m fields rest, i =>
    decide (t[i]? = some (TTok.object (i + 1 + fieldsSize fields + (if m then 1 else 0) + itemsSize rest) flag)) &&
    fieldsAt t fields (i + 1) &&
    (if m then decide (t[i + 1 + fieldsSize fields]? = some TTok.mixed) && itemsAt t rest (i + 1 + fieldsSize fields + 1)
     else rest.isEmpty && !flag) &&
    decide (t[i + 1 + fieldsSize fields + (if m then 1 else 0) + itemsSize rest]? = some (TTok.end_ i))
  | .header s body, i =>
    decide (t[i]? = some (TTok.header s)) && body.isContainer && nodeAt t body (i + 1)
def itemsAt (t : Tape) : List Item → Nat → Bool
  | [], _ => true
  | x :: xs, i => itemAt t x i && itemsAt t xs (i + x.size)
def itemAt (t : Tape) : Item → Nat → Bool
  | .val n, i => !n.isHeader && nodeAt t n i
  | .hdr s body, i => decide (t[i]? = some (TTok.header s)) && body.isContainer && nodeAt t body (i + 1)
  | .paramTok u s, i => decide (t[i]? = some (if u then TTok.undefParam s else TTok.param s))
  | .opTok o, i => decide (t[i]? = some (TTok.op o))
  | .mixedTok, i => decide (t[i]? = some TTok.mixed)
def fieldsAt (t : Tape) : List Field → Nat → Bool
  | [], _ => true
  | f :: fs, i => fieldAt t f i && fieldsAt t fs (i + f.size)
def fieldAt (t : Tape) : Field → Nat → Bool
  | .mk k op v, i =>
    isKeyTok k && decide (t[i]? = some k) &&
    (match op with
     | some o => decide (t[i + 1]? = some (TTok.op o)) && nodeAt t v (i + 2)
     | none => nodeAt t v (i + 1))
end

/-- the whole token list is the field list of `d` -/
def docAt (t : Tape) (d : Doc) : Bool :=
  fieldsAt t d.fields 0 &&
  (if d.mixed then decide (t[fieldsSize d.fields]? = some TTok.mixed) && itemsAt t d.rest (fieldsSize d.fields + 1)
   else d.rest.isEmpty) &&
  decide (fieldsSize d.fields + (if d.mixed then 1 else 0) + itemsSize d.rest = t.size)

/-- C06's conclusion in the form C16 needs it -/
def WfTape (t : Tape) : Prop := ∃ d, docAt t d = true

/-! ### finding the tree of a token list (unverified search; its answer is checked by `docAt`) -/

mutual
/-- the value at `i`: the node and the index after it -/
def parseNode (t : Tape) : Nat → Nat → Option (Node × Nat)
  | 0, _ => none
  | fuel + 1, i =>
    match t[i]? with
    | some (.unquoted s) => some (.scalar false s, i + 1)
    | some (.quoted s) => some (.scalar true s, i + 1)
    | some (.array e m) =>
      match parseItems t fuel (i + 1) e with
      | some items => some (.arr m items, e + 1)
      | none => none
    | some (.object e m) =>
      match parseFields t fuel (i + 1) e with
      | some (fields, rest) =>
        some (.obj m (decide (t[i + 1 + fieldsSize fields]? = some TTok.mixed)) fields rest, e + 1)
      | none => none
    | some (.header s) =>
      match parseNode t fuel (i + 1) with
      | some (body, n) => some (.header s body, n)
      | none => none
    | _ => none
def parseItems (t : Tape) : Nat → Nat → Nat → Option (List Item)
  | 0, _, _ => none
  | fuel + 1, i, e =>
    if i ≥ e then some []
    else
      match t[i]? with
      | some (.op o) =>
        match parseItems t fuel (i + 1) e with
        | some xs => some (.opTok o :: xs)
        | none => none
      | some .mixed =>
        match parseItems t fuel (i + 1) e with
        | some xs => some (.mixedTok :: xs)
        | none => none
      | some (.param s) =>
        match parseItems t fuel (i + 1) e with
        | some xs => some (.paramTok false s :: xs)
        | none => none
      | some (.undefParam s) =>
        match parseItems t fuel (i + 1) e with
        | some xs => some (.paramTok true s :: xs)
        | none => none
      | _ =>
        match parseNode t fuel i with
        | some (.header s body, next) =>
          match parseItems t fuel next e with
          | some xs => some (.hdr s body :: xs)
          | none => none
        | some (n, next) =>
          match parseItems t fuel next e with
          | some xs => some (.val n :: xs)
          | none => none
        | none => none
def parseFields (t : Tape) : Nat → Nat → Nat → Option (List Field × List Item)
  | 0, _, _ => none
  | fuel + 1, i, e =>
    if i ≥ e then some ([], [])
    else
      match t[i]? with
      | some .mixed =>
        match parseItems t fuel (i + 1) e with
        | some xs => some ([], xs)
        | none => none
      | some k =>
        match t[i + 1]? with
        | some (.op o) =>
          match parseNode t fuel (i + 2) with
          | some (v, next) =>
            match parseFields t fuel next e with
            | some (fs, rest) => some (.mk k (some o) v :: fs, rest)
            | none => none
          | none => none
        | _ =>
          match parseNode t fuel (i + 1) with
          | some (v, next) =>
            match parseFields t fuel next e with
            | some (fs, rest) => some (.mk k none v :: fs, rest)
            | none => none
          | none => none
      | none => none
end

def docOf (t : Tape) : Option Doc :=
  match parseFields t (2 * t.size + 2) 0 t.size with
  | some (fs, rest) => some ⟨fs, decide (t[fieldsSize fs]? = some TTok.mixed), rest⟩
  | none => none

/-- decidable sufficient condition for `WfTape` -/
def wfTapeB (t : Tape) : Bool :=
  match docOf t with
  | some d => docAt t d
  | none => false

theorem wfTapeB_sound (t : Tape) (h : wfTapeB t = true) : WfTape t := by
  unfold wfTapeB at h
  split at h
  · rename_i d _; exact ⟨d, h⟩
  · simp at h

/-! ### the token list of a tree (`base` = index of the first token) -/

mutual
def Node.toks : Node → Nat → List TTok
  | .scalar q s, _ => [if q then .quoted s else .unquoted s]
  | .arr m items, i =>
    [TTok.array (i + 1 + itemsSize items) m] ++ itemsToks items (i + 1) ++ [TTok.end_ i]
  | .obj flag m fields rest, i =>
    [TTok.object (i + 1 + fieldsSize fields + (if m then 1 else 0) + itemsSize rest) flag] ++
      fieldsToks fields (i + 1) ++ (if m then [TTok.mixed] else []) ++
      itemsToks rest (i + 1 + fieldsSize fields + (if m then 1 else 0)) ++ [TTok.end_ i]
  | .header s body, i => [TTok.header s] ++ body.toks (i + 1)
def itemsToks : List Item → Nat → List TTok
  | [], _ => []
  | x :: xs, i => x.toks i ++ itemsToks xs (i + x.size)
def Item.toks : Item → Nat → List TTok
  | .val n, i => n.toks i
  | .hdr s body, i => [TTok.header s] ++ body.toks (i + 1)
  | .paramTok u s, _ => [if u then TTok.undefParam s else TTok.param s]
  | .opTok o, _ => [.op o]
  | .mixedTok, _ => [.mixed]
def fieldsToks : List Field → Nat → List TTok
  | [], _ => []
  | f :: fs, i => f.toks i ++ fieldsToks fs (i + f.size)
def Field.toks : Field → Nat → List TTok
  | .mk k op v, i =>
    match op with
    | some o => [k, .op o] ++ v.toks (i + 2)
    | none => [k] ++ v.toks (i + 1)
end

def tapeOf (d : Doc) : Tape :=
  (fieldsToks d.fields 0 ++ (if d.mixed then [TTok.mixed] else []) ++
    itemsToks d.rest (fieldsSize d.fields + (if d.mixed then 1 else 0))).toArray

/-! ### the JSON value of a tree -/

/-- what the array serializer looks at in a value it steps over -/
inductive ItemTag where
  | mixedT
  | opT (o : Op)
  /-- anything else, with the text `read_str()` gives for it (`none` = "not a string") -/
  | keyT (k : Option Bytes)

def Item.tag (enc : Enc) : Item → ItemTag
  | .mixedTok => .mixedT
  | .opTok o => .opT o
  | .val (.scalar _ s) => .keyT (some (decode enc s))
  | .val (.header s _) => .keyT (some (decode enc s))
  | .hdr s _ => .keyT (some (decode enc s))
  | .paramTok _ s => .keyT (some (decode enc s))
  | .val _ => .keyT none

def ItemTag.key : ItemTag → Bytes
  | .keyT (some k) => k
  | .keyT none => kInvalidKey
  | .opT o => o.symbol
  | .mixedT => kInvalidKey

/-- the array serializer on the tagged, already converted items: `MixedContainer` markers are
dropped, `key op value` runs become single-entry objects (`=` is no operator), everything
else is the value itself -/
def windowZ : List (ItemTag × JVal) → Nat → List JVal
  | [], _ => []
  | _ :: rest, skip + 1 => windowZ rest skip
  | (tag, jv) :: rest, 0 =>
    match tag with
    | .mixedT => windowZ rest 0
    | _ =>
      match rest with
      | (.opT op, _) :: (_, vjv) :: _ =>
        JVal.obj [(tag.key, wrapOp (if op = .eq then none else some op) vjv)] :: windowZ rest 2
      | _ => jv :: windowZ rest 0

/-- `JsonArrayBuilder`: plain array, or the typed wrapper in KeyValuePairs mode -/
def arrayShape (o : Opts) (xs : List JVal) : JVal :=
  if o.dup ≠ .kvp then .arr xs else .obj [(kType, .str kArray), (kVal, .arr xs)]

/-- the entries of an object from its `(key token, operator, converted value)` triples -/
def entriesByMode (o : Opts) (enc : Enc) (ents : List (TTok × Option Op × JVal)) : List (Bytes × JVal) :=
  match o.dup with
  | .group =>
    (stableGroupBy (fun x : TTok × Option Op × JVal => keyBytes x.1) ents).map (fun g =>
      (keyJson enc g.1.1,
        match g.2 with
        | [] => wrapOp g.1.2.1 g.1.2.2
        | _ :: _ => JVal.arr ((g.1 :: g.2).map (fun x => wrapOp x.2.1 x.2.2))))
  | _ => ents.map (fun x => (keyJson enc x.1, wrapOp x.2.1 x.2.2))

def remainderOf (xs : List JVal) (items : List Item) : Option JVal :=
  match items with
  | [] => none
  | _ :: _ => some (.arr xs)

mutual
/-- the JSON value of a node -/
def jsonOf (o : Opts) (enc : Enc) : Node → JVal
  | .scalar q s => narrowScalar o enc q s
  | .arr _ items => arrayShape o (windowZ (jsonItems o enc items) 0)
  | .obj _ _ fields rest =>
    objectShape o (entriesByMode o enc (jsonFields o enc fields))
      (remainderOf (windowZ (jsonItems o enc rest) 0) rest)
  | .header s body => .obj [(decode enc s, jsonOf o enc body)]
/-- the values `values()` yields for the items, tagged and converted.  A header item yields
TWO values: the header token, converted as the complete single-entry object, and then its
body again (this is what the code does — known finding `header-array-view-duplicates-body`). -/
def jsonItems (o : Opts) (enc : Enc) : List Item → List (ItemTag × JVal)
  | [] => []
  | x :: xs => jsonItem o enc x ++ jsonItems o enc xs
def jsonItem (o : Opts) (enc : Enc) : Item → List (ItemTag × JVal)
  | .val n => [(Item.tag enc (.val n), jsonOf o enc n)]
  | .hdr s body => [(.keyT (some (decode enc s)), .obj [(decode enc s, jsonOf o enc body)]), (.keyT none, jsonOf o enc body)]
  | .paramTok _ s => [(.keyT (some (decode enc s)), .null)]
  | .opTok op => [(.opT op, .null)]
  | .mixedTok => [(.mixedT, .null)]
def jsonFields (o : Opts) (enc : Enc) : List Field → List (TTok × Option Op × JVal)
  | [] => []
  | f :: fs => jsonField o enc f :: jsonFields o enc fs
def jsonField (o : Opts) (enc : Enc) : Field → TTok × Option Op × JVal
  | .mk k op v => (k, op, jsonOf o enc v)
end

/-! ### the array view of an object (`read_array()` on an `Object` token without the flag) -/

def keyItem : TTok → Item
  | .quoted s => .val (.scalar true s)
  | .unquoted s => .val (.scalar false s)
  | .param s => .paramTok false s
  | .undefParam s => .paramTok true s
  | _ => .mixedTok

def valItems : Node → List Item
  | .header s b => [.hdr s b]
  | n => [.val n]

def Field.asItems : Field → List Item
  | .mk k op v => keyItem k :: ((match op with | some o => [Item.opTok o] | none => []) ++ valItems v)

def fieldsAsItems : List Field → List Item
  | [] => []
  | f :: fs => f.asItems ++ fieldsAsItems fs

/-- all tokens between the braces of an object, as `values()` steps over them -/
def objItems (m : Bool) (fields : List Field) (rest : List Item) : List Item :=
  fieldsAsItems fields ++ (if m then Item.mixedTok :: rest else [])

/-- the JSON value of a document (`tape.reader().json()`) -/
def jsonOfDoc (o : Opts) (enc : Enc) (d : Doc) : JVal :=
  objectShape o (entriesByMode o enc (jsonFields o enc d.fields))
    (remainderOf (windowZ (jsonItems o enc d.rest) 0) d.rest)

end Jomini.Json
