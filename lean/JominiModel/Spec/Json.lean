import JominiModel.Model.Basic
/-
Reference definitions for property C16: the RFC 8259 grammar at the byte level
(`JsonText`), a number recogniser, and "strip insignificant whitespace".
Independent of the model of json/mod.rs (imports only the shared basics).

UTF-8 well-formedness of string contents is NOT part of this grammar (bytes ≥ 0x80 are
accepted as unescaped characters); it is checked on the real output by the harness
(`str::from_utf8`).
-/
namespace Jomini.JsonSpec
open Jomini

/-- RFC 8259 §2 `ws`: space, \t, \n, \r -/
def isWs (b : UInt8) : Bool := b.toNat == 32 || b.toNat == 9 || b.toNat == 10 || b.toNat == 13

def AllWs (w : Bytes) : Prop := ∀ b ∈ w, isWs b = true

/-! ### numbers: `[ minus ] int [ frac ] [ exp ]` as a DFA -/

inductive NumSt where
  | start | minus | zero | int | dot | frac | e | esign | exp
  deriving DecidableEq, Repr

def isDig (c : UInt8) : Bool := decide (48 ≤ c.toNat) && decide (c.toNat ≤ 57)
def isDig19 (c : UInt8) : Bool := decide (49 ≤ c.toNat) && decide (c.toNat ≤ 57)
def isE (c : UInt8) : Bool := c.toNat == 101 || c.toNat == 69

def numStep : NumSt → UInt8 → Option NumSt
  | .start, c => if c.toNat == 45 then some .minus else if c.toNat == 48 then some .zero else if isDig19 c then some .int else none
  | .minus, c => if c.toNat == 48 then some .zero else if isDig19 c then some .int else none
  | .zero, c => if c.toNat == 46 then some .dot else if isE c then some .e else none
  | .int, c => if isDig c then some .int else if c.toNat == 46 then some .dot else if isE c then some .e else none
  | .dot, c => if isDig c then some .frac else none
  | .frac, c => if isDig c then some .frac else if isE c then some .e else none
  | .e, c => if c.toNat == 43 || c.toNat == 45 then some .esign else if isDig c then some .exp else none
  | .esign, c => if isDig c then some .exp else none
  | .exp, c => if isDig c then some .exp else none

def numRun : Bytes → NumSt → Option NumSt
  | [], s => some s
  | c :: cs, s =>
    match numStep s c with
    | none => none
    | some s' => numRun cs s'

def NumSt.accepting : NumSt → Bool
  | .zero | .int | .frac | .exp => true
  | _ => false

/-- RFC 8259 §6 number -/
def isNumber (bs : Bytes) : Bool :=
  match numRun bs .start with
  | some s => s.accepting
  | none => false

/-! ### strings -/

def isHexDig (c : UInt8) : Bool :=
  isDig c || (decide (97 ≤ c.toNat) && decide (c.toNat ≤ 102)) || (decide (65 ≤ c.toNat) && decide (c.toNat ≤ 70))

/-- the character after a backslash in a two-character escape: `" \ / b f n r t` -/
def isSimpleEsc (c : UInt8) : Bool :=
  c.toNat == 34 || c.toNat == 92 || c.toNat == 47 || c.toNat == 98 || c.toNat == 102 ||
  c.toNat == 110 || c.toNat == 114 || c.toNat == 116

/-- RFC 8259 §7: the characters between the quotation marks -/
inductive StrBody : Bytes → Prop where
  | nil : StrBody []
  | plain (b : UInt8) (r : Bytes) : 32 ≤ b.toNat → b.toNat ≠ 34 → b.toNat ≠ 92 → StrBody r → StrBody (b :: r)
  | esc (c : UInt8) (r : Bytes) : isSimpleEsc c = true → StrBody r → StrBody (92 :: c :: r)
  | uni (h1 h2 h3 h4 : UInt8) (r : Bytes) :
      isHexDig h1 = true → isHexDig h2 = true → isHexDig h3 = true → isHexDig h4 = true →
      StrBody r → StrBody (92 :: 117 :: h1 :: h2 :: h3 :: h4 :: r)

/-- a string token: quotation mark, body, quotation mark -/
def StringTok (bs : Bytes) : Prop := ∃ body, StrBody body ∧ bs = 34 :: body ++ [34]

/-! ### values (RFC 8259 §3-5; structural characters may be surrounded by whitespace) -/

mutual
inductive Value : Bytes → Prop where
  | null : Value [110, 117, 108, 108]
  | true_ : Value [116, 114, 117, 101]
  | false_ : Value [102, 97, 108, 115, 101]
  | num (n : Bytes) : isNumber n = true → Value n
  | str (s : Bytes) : StringTok s → Value s
  | arrEmpty (w : Bytes) : AllWs w → Value ([91] ++ w ++ [93])
  | arr (es : Bytes) : Elems es → Value ([91] ++ es ++ [93])
  | objEmpty (w : Bytes) : AllWs w → Value ([123] ++ w ++ [125])
  | obj (ms : Bytes) : Members ms → Value ([123] ++ ms ++ [125])
/-- `value *( value-separator value )`, each value with its surrounding whitespace -/
inductive Elems : Bytes → Prop where
  | one (w1 v w2 : Bytes) : AllWs w1 → Value v → AllWs w2 → Elems (w1 ++ v ++ w2)
  | cons (w1 v w2 rest : Bytes) : AllWs w1 → Value v → AllWs w2 → Elems rest → Elems (w1 ++ v ++ w2 ++ [44] ++ rest)
/-- `member *( value-separator member )`, `member = string name-separator value` -/
inductive Members : Bytes → Prop where
  | one (w1 k w2 w3 v w4 : Bytes) : AllWs w1 → StringTok k → AllWs w2 → AllWs w3 → Value v → AllWs w4 →
      Members (w1 ++ k ++ w2 ++ [58] ++ w3 ++ v ++ w4)
  | cons (w1 k w2 w3 v w4 rest : Bytes) : AllWs w1 → StringTok k → AllWs w2 → AllWs w3 → Value v → AllWs w4 →
      Members rest → Members (w1 ++ k ++ w2 ++ [58] ++ w3 ++ v ++ w4 ++ [44] ++ rest)
end

/-- RFC 8259 §2 `JSON-text = ws value ws` -/
def JsonText (bs : Bytes) : Prop := ∃ w1 v w2, AllWs w1 ∧ Value v ∧ AllWs w2 ∧ bs = w1 ++ v ++ w2

/-! ### insignificant whitespace -/

/-- scanner state: outside a string, inside a string, right after a backslash inside a string -/
inductive StripSt where
  | out | str | esc
  deriving DecidableEq, Repr

/-- outside a string drop whitespace (a quotation mark opens a string); inside a string keep
everything: a backslash protects the next byte, a quotation mark closes the string -/
def strip : Bytes → StripSt → Bytes
  | [], _ => []
  | b :: rest, .out =>
    if b.toNat == 34 then b :: strip rest .str
    else if isWs b then strip rest .out
    else b :: strip rest .out
  | b :: rest, .str =>
    if b.toNat == 92 then b :: strip rest .esc
    else if b.toNat == 34 then b :: strip rest .out
    else b :: strip rest .str
  | b :: rest, .esc => b :: strip rest .str

/-- remove the whitespace RFC 8259 calls insignificant (everything outside strings) -/
def stripInsignificantWs (bs : Bytes) : Bytes := strip bs .out

end Jomini.JsonSpec

namespace Jomini.JsonSpec

/-! ### well-formed UTF-8 (Unicode Table 3-7 / RFC 3629) as a DFA -/

inductive U8St where
  | acc | c1 | c2 | e0 | ed | c3 | f0 | f4
  deriving DecidableEq, Repr

def isCont8 (b : UInt8) : Bool := decide (128 ≤ b.toNat) && decide (b.toNat < 192)

def u8Step : U8St → UInt8 → Option U8St
  | .acc, b =>
    if b.toNat < 128 then some .acc
    else if 0xC2 ≤ b.toNat ∧ b.toNat ≤ 0xDF then some .c1
    else if b.toNat = 0xE0 then some .e0
    else if b.toNat = 0xED then some .ed
    else if 0xE1 ≤ b.toNat ∧ b.toNat ≤ 0xEF then some .c2
    else if b.toNat = 0xF0 then some .f0
    else if b.toNat = 0xF4 then some .f4
    else if 0xF1 ≤ b.toNat ∧ b.toNat ≤ 0xF3 then some .c3
    else none
  | .c1, b => if isCont8 b then some .acc else none
  | .c2, b => if isCont8 b then some .c1 else none
  | .e0, b => if 0xA0 ≤ b.toNat ∧ b.toNat ≤ 0xBF then some .c1 else none
  | .ed, b => if 0x80 ≤ b.toNat ∧ b.toNat ≤ 0x9F then some .c1 else none
  | .c3, b => if isCont8 b then some .c2 else none
  | .f0, b => if 0x90 ≤ b.toNat ∧ b.toNat ≤ 0xBF then some .c2 else none
  | .f4, b => if 0x80 ≤ b.toNat ∧ b.toNat ≤ 0x8F then some .c2 else none

def u8Run : Bytes → U8St → Option U8St
  | [], s => some s
  | b :: bs, s =>
    match u8Step s b with
    | none => none
    | some s' => u8Run bs s'

/-- the byte string is well-formed UTF-8 (no overlong forms, no surrogates, ≤ U+10FFFF,
no truncated sequence) -/
def validUtf8 (bs : Bytes) : Bool := u8Run bs .acc == some .acc

/-! ### grouping duplicate keys -/

/-- Stable grouping: each distinct key once, in order of first appearance, as
`(first item, the later items with the same key in their original order)`.
(`n` bounds the number of groups; `stableGroupBy` passes the length of the list.) -/
def stableGroupByF {α κ : Type} [DecidableEq κ] (key : α → κ) : Nat → List α → List (α × List α)
  | 0, _ => []
  | _ + 1, [] => []
  | n + 1, x :: xs =>
    (x, xs.filter (fun y => decide (key y = key x))) ::
      stableGroupByF key n (xs.filter (fun y => !decide (key y = key x)))

def stableGroupBy {α κ : Type} [DecidableEq κ] (key : α → κ) (l : List α) : List (α × List α) :=
  stableGroupByF key l.length l

end Jomini.JsonSpec
