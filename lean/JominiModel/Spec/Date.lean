import JominiModel.Model.Date
/-
Reference notions the C13 theorems talk about: the packed bit field, the canonical
value of each date type for given components, calendar validity, and the text grammar
of the component parser.
-/
namespace Jomini.Date
open Jomini

/-- the `u16` bit field of `RawDate::from_ymdh_opt` (date.rs:339) -/
def pack (m d h : Nat) : BitVec 16 :=
  (BitVec.ofNat 16 m <<< 12) + (BitVec.ofNat 16 d <<< 7) + (BitVec.ofNat 16 h <<< 2)

def mkRaw (y : Int) (m d h : Nat) : RawDate := ⟨y, pack m d h⟩
def mkDate (y : Int) (m d : Nat) : Date := ⟨mkRaw y m d 0⟩
def mkDateHour (y : Int) (m d h : Nat) : DateHour := ⟨mkRaw y m d h⟩
def mkUniform (y : Int) (m d : Nat) : UniformDate := ⟨mkRaw y m d 0⟩

/-- days of month `m` (0 for anything that is not a month) -/
def dpm (m : Nat) : Nat := daysPerMonth.getD m 0

/-- month and day exist in the 365-day calendar -/
def ValidMd (m d : Nat) : Prop := 1 ≤ m ∧ m ≤ 12 ∧ 1 ≤ d ∧ d ≤ dpm m
instance (m d : Nat) : Decidable (ValidMd m d) := by unfold ValidMd; infer_instance

/-- month and day exist in the uniform 12 × 30 calendar -/
def ValidUniformMd (m d : Nat) : Prop := 1 ≤ m ∧ m ≤ 12 ∧ 1 ≤ d ∧ d ≤ 30
instance (m d : Nat) : Decidable (ValidUniformMd m d) := by unfold ValidUniformMd; infer_instance

/-- what a `RawDate` accepts: month 1-12, day 1-31, hour 0 (absent) or 1-24 -/
def ValidRaw (m d h : Nat) : Prop := 1 ≤ m ∧ m ≤ 12 ∧ 1 ≤ d ∧ d ≤ 31 ∧ h ≤ 24
instance (m d h : Nat) : Decidable (ValidRaw m d h) := by unfold ValidRaw; infer_instance

/-- hour of a `DateHour`: 1-24 -/
def ValidHour (h : Nat) : Prop := 1 ≤ h ∧ h ≤ 24
instance (h : Nat) : Decidable (ValidHour h) := by unfold ValidHour; infer_instance

/-- 0-based day of the year of `m`/`d` (`julian_ordinal_day(m) + d`) -/
def ordinal (m d : Nat) : Int := (julianOrdinalDay m).getD 0 + (d : Int)

/-- the binary value of a date: hours since 1 January −5000 in the 365-day calendar -/
def binOf (y : Int) (m d h0 : Nat) : Int := ((y + 5000) * 365 + ordinal m d) * 24 + (h0 : Int)

/-- the day number of a valid date: `365·y ± ordinal`, mirrored before year 0 -/
def daysOf (y : Int) (m d : Nat) : Int :=
  if y * 365 < 0 then y * 365 - ordinal m d else y * 365 + ordinal m d

/-! ### text grammar of the component parser -/

/-- `t` is one or two ASCII digits with decimal value `v` -/
def Num12 (t : Bytes) (v : Nat) : Prop :=
  (∃ a, t = [a] ∧ isDigit a = true ∧ v = digitVal a) ∨
  (∃ a b, t = [a, b] ∧ isDigit a = true ∧ isDigit b = true ∧ v = digitVal a * 10 + digitVal b)

/-- `data` is `.M.D` (then `h = 0`) or `.M.D.H` with `H ≠ 0`, every component one or two digits -/
def IsRestText (data : Bytes) (m d h : Nat) : Prop :=
  ∃ mt dt, Num12 mt m ∧ Num12 dt d ∧
    ((h = 0 ∧ data = 46 :: mt ++ 46 :: dt) ∨
     (∃ ht, Num12 ht h ∧ h ≠ 0 ∧ data = 46 :: mt ++ 46 :: dt ++ 46 :: ht))

/-! ### `Date::parse` front end -/

/-- the three slice patterns of `Date::_parse` (date.rs:553-564): `YYYY.MM.DD`, `YYYY.MM.D`,
`YYYY.M.DD` by length and dot positions only -/
def Date.isFastShape (s : Bytes) : Bool :=
  (s.length == 10 && s[4]? == some 46 && s[7]? == some 46) ||
  (s.length == 9 && s[4]? == some 46 && (s[7]? == some 46 || s[6]? == some 46))

/-- first byte is '-' or a digit -/
def Date.firstOk (s : Bytes) : Bool :=
  match s[0]? with
  | some c => c == 45 || isDigit c
  | none => false

/-- the strings `Date::parse` refuses without looking at the components (date.rs:578):
not one of the fast shapes, not 8 bytes long, and shorter than 5 / longer than 12 bytes or
not starting with '-' or a digit. -/
def Date.earlyReject (s : Bytes) : Bool :=
  !Date.isFastShape s && s.length != 8 && (decide (s.length < 5) || decide (s.length > 12) || !Date.firstOk s)

end Jomini.Date
