import JominiModel.Spec.JsonDoc
/-
Independent reading of "the JSON carries the document's content" (C16_scalars_preserved,
C16_keys_in_order): the SCALAR LEAVES of a JSON value and of a document tree, each defined on
its own structure — neither mentions `jsonOf`, the array windowing or the grouping algorithm.

* `jleaves v`: every key (as a string leaf) and every scalar of a JSON value, in output order;
  `jvals v`: the scalars only.
* `dleaves rm o enc n`: every key, operator name, header name (as string leaves) and every scalar
  (read back through the narrowing table, `narrowScalar`) of a document value, in document order;
  `rm` = whether the trailing array part of a mixed container is announced by the documented
  `"remainder"` key; `dvals`: the scalars only.
* `plainNode`: the scope of the leaf theorems — value lists (arrays and the trailing part of mixed
  containers) consist of values only: no operator / `MixedContainer` / parameter tokens and no
  header token among them.  (Header tokens among values are the recorded finding
  `header-array-view-duplicates-body`; `key op value` runs inside arrays turn a scalar into a
  key, which a leaf-by-leaf reading through the narrowing table cannot express.)
-/
namespace Jomini.Json
open Jomini Jomini.JsonSpec

mutual
def jleaves : JVal → List JVal
  | .null => [.null]
  | .bool b => [.bool b]
  | .int i => [.int i]
  | .float f => [.float f]
  | .str s => [.str s]
  | .arr xs => jleavesL xs
  | .obj kvs => jleavesO kvs
def jleavesL : List JVal → List JVal
  | [] => []
  | x :: xs => jleaves x ++ jleavesL xs
def jleavesO : List (Bytes × JVal) → List JVal
  | [] => []
  | (k, v) :: r => .str k :: (jleaves v ++ jleavesO r)
end

mutual
def jvals : JVal → List JVal
  | .null => [.null]
  | .bool b => [.bool b]
  | .int i => [.int i]
  | .float f => [.float f]
  | .str s => [.str s]
  | .arr xs => jvalsL xs
  | .obj kvs => jvalsO kvs
def jvalsL : List JVal → List JVal
  | [] => []
  | x :: xs => jvals x ++ jvalsL xs
def jvalsO : List (Bytes × JVal) → List JVal
  | [] => []
  | (_, v) :: r => jvals v ++ jvalsO r
end

/-- the keys of a JSON object, in output order -/
def jkeys : JVal → List Bytes
  | .obj kvs => kvs.map (·.1)
  | _ => []

mutual
def plainNode : Node → Bool
  | .scalar _ _ => true
  | .arr _ items => plainItems items
  | .obj _ _ fields rest => plainFields fields && plainItems rest
  | .header _ body => plainNode body
def plainItems : List Item → Bool
  | [] => true
  | x :: xs => plainItem x && plainItems xs
def plainItem : Item → Bool
  | .val n => plainNode n
  | _ => false
def plainFields : List Field → Bool
  | [] => true
  | f :: fs => plainField f && plainFields fs
def plainField : Field → Bool
  | .mk _ _ v => plainNode v
end

section
variable (rm : Bool) (o : Opts) (enc : Enc)

mutual
def dleaves : Node → List JVal
  | .scalar q s => [narrowScalar o enc q s]
  | .arr _ items => dleavesItems items
  | .obj _ _ fields rest =>
    dleavesFields fields ++
      (match rest with
       | [] => []
       | x :: xs => (if rm then [JVal.str kRemainder] else []) ++ dleavesItems (x :: xs))
  | .header s body => JVal.str (decode enc s) :: dleaves body
def dleavesItems : List Item → List JVal
  | [] => []
  | x :: xs => dleavesItem x ++ dleavesItems xs
def dleavesItem : Item → List JVal
  | .val n => dleaves n
  | _ => []
def dleavesFields : List Field → List JVal
  | [] => []
  | f :: fs => dleavesField f ++ dleavesFields fs
def dleavesField : Field → List JVal
  | .mk k op v =>
    JVal.str (keyJson enc k) :: ((match op with | some x => [JVal.str x.name] | none => []) ++ dleaves v)
end

mutual
def dvals : Node → List JVal
  | .scalar q s => [narrowScalar o enc q s]
  | .arr _ items => dvalsItems items
  | .obj _ _ fields rest => dvalsFields fields ++ dvalsItems rest
  | .header _ body => dvals body
def dvalsItems : List Item → List JVal
  | [] => []
  | x :: xs => dvalsItem x ++ dvalsItems xs
def dvalsItem : Item → List JVal
  | .val n => dvals n
  | _ => []
def dvalsFields : List Field → List JVal
  | [] => []
  | f :: fs => dvalsField f ++ dvalsFields fs
def dvalsField : Field → List JVal
  | .mk _ _ v => dvals v
end

end

/-- the strings of the KeyValuePairs encoding (`{"type":"obj","val":[…]}`, `{"type":"array",…}`) -/
def isTypedWord : JVal → Bool
  | .str s => decide (s = kType) || decide (s = kObj) || decide (s = kVal) || decide (s = kArray)
  | _ => false

/-- first occurrences, in order -/
def firstOcc : List Bytes → List Bytes
  | [] => []
  | k :: ks => k :: (firstOcc ks).filter (fun x => !decide (x = k))

/-- the keys of an object's fields as written to the JSON, in document order -/
def fieldKeys (enc : Enc) : List Field → List Bytes
  | [] => []
  | .mk k _ _ :: fs => keyJson enc k :: fieldKeys enc fs

/-- the `"remainder"` key, if the object has a trailing array part -/
def remKey : List Item → List Bytes
  | [] => []
  | _ :: _ => [kRemainder]

/-- exclusion for the recorded finding `group-keyed-by-raw-bytes`: within this object two keys are
the same JSON key exactly when they are the same raw bytes -/
def KeysAgree (enc : Enc) (fields : List Field) : Prop :=
  ∀ f ∈ fields, ∀ g ∈ fields, match f, g with
    | .mk k _ _, .mk k' _ _ => (keyBytes k = keyBytes k' ↔ keyJson enc k = keyJson enc k')

end Jomini.Json
