import JominiModel.Spec.JsonDoc
/-
Independent reading of "the JSON carries the document's content" (C16_scalars_preserved,
C16_keys_in_order): the SCALAR LEAVES of a JSON value and of a document tree, each defined on
its own structure — neither mentions `jsonOf`, the array windowing or the grouping algorithm.

* `jleaves v`: every key (as a string leaf) and every scalar of a JSON value, in output order;
  `jvals v`: the scalars only.
* `dleaves rm o enc n`: every key, operator name, header name (as string leaves) and every scalar
  (read back through the narrowing table, `narrowScalar`) of a document value, in document order;
  `rm` = whether the trailing array part of a mixed container is announced by the documented
  `"remainder"` key; `dvals`: the scalars only.
* `runNode`: the scope of the leaf theorems — value lists (arrays and the trailing part of mixed
  containers) consist of values, `key op value` runs and `MixedContainer` markers; inside a run the
  scalar is a KEY and reads as a string.  Outside the scope: a header token among the values (the
  recorded finding `header-array-view-duplicates-body`), parameter tokens among the values, lone
  operator tokens, a container in key position of a run.
-/
namespace Jomini.Json
open Jomini Jomini.JsonSpec

mutual
def jleaves : JVal → List JVal
  | .null => [.null]
  | .bool b => [.bool b]
  | .int i => [.int i]
  | .float f => [.float f]
  | .str s => [.str s]
  | .arr xs => jleavesL xs
  | .obj kvs => jleavesO kvs
def jleavesL : List JVal → List JVal
  | [] => []
  | x :: xs => jleaves x ++ jleavesL xs
def jleavesO : List (Bytes × JVal) → List JVal
  | [] => []
  | (k, v) :: r => .str k :: (jleaves v ++ jleavesO r)
end

mutual
def jvals : JVal → List JVal
  | .null => [.null]
  | .bool b => [.bool b]
  | .int i => [.int i]
  | .float f => [.float f]
  | .str s => [.str s]
  | .arr xs => jvalsL xs
  | .obj kvs => jvalsO kvs
def jvalsL : List JVal → List JVal
  | [] => []
  | x :: xs => jvals x ++ jvalsL xs
def jvalsO : List (Bytes × JVal) → List JVal
  | [] => []
  | (_, v) :: r => jvals v ++ jvalsO r
end

/-- the keys of a JSON object, in output order -/
def jkeys : JVal → List Bytes
  | .obj kvs => kvs.map (·.1)
  | _ => []

/-! ### the document-side reading of a value list

`values()` of an array (or of the trailing part of a mixed container) is read as follows — this is
the documented shape of mixed containers (`levels={ 10 0=2 1=2 }` gives `[10,{"0":2},{"1":2}]`),
stated on the document: a `MixedContainer` marker contributes nothing; a scalar that is followed by
an operator and a value forms a RUN `key op value`: the scalar is a KEY there and contributes a
STRING leaf (its decoded bytes, not narrowed), the operator contributes its name (`=` nothing), the
value its own leaves; anything else contributes its own leaves. -/

def isValItem : Item → Bool
  | .val _ => true
  | _ => false

def isScalarItem : Item → Bool
  | .val (.scalar _ _) => true
  | _ => false

/-- the decoded text of a scalar item (what it is called as a key) -/
def keyString (enc : Enc) : Item → Bytes
  | .val (.scalar _ s) => decode enc s
  | _ => kInvalidKey

def opLeaf (op : Op) : List JVal := if op = .eq then [] else [.str op.name]

/-- the run rule over items paired with their own leaves; `kp` / `opp` = what a key / an operator
contributes; `skip` counts the operator and value already consumed by a run -/
def runG (kp : Bytes → List JVal) (opp : Op → List JVal) (enc : Enc) : List (Item × List JVal) → Nat → List JVal
  | [], _ => []
  | _ :: xs, skip + 1 => runG kp opp enc xs skip
  | (x, lv) :: xs, 0 =>
    match x with
    | .mixedTok => runG kp opp enc xs 0
    | _ =>
      match xs with
      | (.opTok op, _) :: (_, vl) :: _ => kp (keyString enc x) ++ opp op ++ vl ++ runG kp opp enc xs 2
      | _ => lv ++ runG kp opp enc xs 0

/-- keys and operator names as string leaves -/
def runLeaves (enc : Enc) := runG (fun k => [JVal.str k]) opLeaf enc
/-- values only -/
def runVals (enc : Enc) := runG (fun _ => []) (fun _ => []) enc

/-- positional side conditions of the run rule (the scope of the leaf theorems): the key of a run
is a scalar and its value a value; outside runs only values and `MixedContainer` markers occur
(a lone operator token would be written as `null`) -/
def okRun : List Item → Nat → Bool
  | [], _ => true
  | _ :: xs, skip + 1 => okRun xs skip
  | x :: xs, 0 =>
    match x with
    | .mixedTok => okRun xs 0
    | _ =>
      match xs with
      | .opTok _ :: v :: _ => isScalarItem x && isValItem v && okRun xs 2
      | _ => isValItem x && okRun xs 0

mutual
/-- the scope of `C16_scalars_preserved`: value lists consist of values, operator tokens and
`MixedContainer` markers arranged as `okRun` says — no header token among the values (recorded
finding `header-array-view-duplicates-body`) and no parameter token among them -/
def runNode : Node → Bool
  | .scalar _ _ => true
  | .arr _ items => runItems items && okRun items 0
  | .obj _ _ fields rest => runFields fields && runItems rest && okRun rest 0
  | .header _ body => runNode body
def runItems : List Item → Bool
  | [] => true
  | x :: xs => runItem x && runItems xs
def runItem : Item → Bool
  | .val n => runNode n
  | .opTok _ => true
  | .mixedTok => true
  | _ => false
def runFields : List Field → Bool
  | [] => true
  | f :: fs => runField f && runFields fs
def runField : Field → Bool
  | .mk _ _ v => runNode v
end

section
variable (rm : Bool) (o : Opts) (enc : Enc)

mutual
def dleaves : Node → List JVal
  | .scalar q s => [narrowScalar o enc q s]
  | .arr _ items => runLeaves enc (dleavesItems items) 0
  | .obj _ _ fields rest =>
    dleavesFields fields ++
      (match rest with
       | [] => []
       | x :: xs => (if rm then [JVal.str kRemainder] else []) ++ runLeaves enc (dleavesItems (x :: xs)) 0)
  | .header s body => JVal.str (decode enc s) :: dleaves body
/-- every item with its own leaves -/
def dleavesItems : List Item → List (Item × List JVal)
  | [] => []
  | x :: xs => (x, dleavesItem x) :: dleavesItems xs
def dleavesItem : Item → List JVal
  | .val n => dleaves n
  | _ => []
def dleavesFields : List Field → List JVal
  | [] => []
  | f :: fs => dleavesField f ++ dleavesFields fs
def dleavesField : Field → List JVal
  | .mk k op v =>
    JVal.str (keyJson enc k) :: ((match op with | some x => [JVal.str x.name] | none => []) ++ dleaves v)
end

mutual
def dvals : Node → List JVal
  | .scalar q s => [narrowScalar o enc q s]
  | .arr _ items => runVals enc (dvalsItems items) 0
  | .obj _ _ fields rest => dvalsFields fields ++ runVals enc (dvalsItems rest) 0
  | .header _ body => dvals body
def dvalsItems : List Item → List (Item × List JVal)
  | [] => []
  | x :: xs => (x, dvalsItem x) :: dvalsItems xs
def dvalsItem : Item → List JVal
  | .val n => dvals n
  | _ => []
def dvalsFields : List Field → List JVal
  | [] => []
  | f :: fs => dvalsField f ++ dvalsFields fs
def dvalsField : Field → List JVal
  | .mk _ _ v => dvals v
end

end

/-- the strings of the KeyValuePairs encoding (`{"type":"obj","val":[…]}`, `{"type":"array",…}`) -/
def isTypedWord : JVal → Bool
  | .str s => decide (s = kType) || decide (s = kObj) || decide (s = kVal) || decide (s = kArray)
  | _ => false

/-- first occurrences, in order -/
def firstOcc : List Bytes → List Bytes
  | [] => []
  | k :: ks => k :: (firstOcc ks).filter (fun x => !decide (x = k))

/-- the keys of an object's fields as written to the JSON, in document order -/
def fieldKeys (enc : Enc) : List Field → List Bytes
  | [] => []
  | .mk k _ _ :: fs => keyJson enc k :: fieldKeys enc fs

/-- the `"remainder"` key, if the object has a trailing array part -/
def remKey : List Item → List Bytes
  | [] => []
  | _ :: _ => [kRemainder]

/-- exclusion for the recorded finding `group-keyed-by-raw-bytes`: within this object two keys are
the same JSON key exactly when they are the same raw bytes -/
def KeysAgree (enc : Enc) (fields : List Field) : Prop :=
  ∀ f ∈ fields, ∀ g ∈ fields, match f, g with
    | .mk k _ _, .mk k' _ _ => (keyBytes k = keyBytes k' ↔ keyJson enc k = keyJson enc k')

end Jomini.Json
