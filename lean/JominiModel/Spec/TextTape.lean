import JominiModel.Model.TextTape
/-
Reference notions the C01 / C06 (text) / C19 (text tape) theorems talk about.  Core Lean only.
-/
namespace Jomini.TextTape

/-- Layout filler: any mixture of blank bytes (measured `wsTape`: space, tab, LF, CR, ';') and
complete comments `# … \n`. -/
inductive Blank : Bytes → Prop
  | nil : Blank []
  | ws (c : UInt8) (w : Bytes) : isBlank c = true → Blank w → Blank (c :: w)
  | comment (body w : Bytes) : (∀ c ∈ body, c ≠ 10) → Blank w → Blank (35 :: (body ++ 10 :: w))

/-- the scalars of a tape, in tape order. -/
def slices (toks : List Tok) : List Slice := toks.filterMap Tok.slice?

/-- `toks[i]` is a container start whose `end` field is `e`. -/
def IsStart (toks : List Tok) (i e : Nat) : Prop :=
  ∃ m, toks[i]? = some (.array e m) ∨ toks[i]? = some (.object e m)

/-- C06, text half: what "structurally sound" means for a text tape over `input`. -/
structure WfTextTape (input : Bytes) (toks : List Tok) : Prop where
  /-- every container start indexes a later `End` token that indexes it back -/
  start_link : ∀ i e, IsStart toks i e → i < e ∧ toks[e]? = some (.endTok i)
  /-- every `End` indexes an earlier container start (never index 0) that indexes it back -/
  end_link : ∀ i j, toks[i]? = some (.endTok j) → 0 < j ∧ j < i ∧ IsStart toks j i
  /-- containers are properly nested: two container intervals never cross -/
  nested : ∀ i e i' e', IsStart toks i e → IsStart toks i' e' → i < i' → i' < e → e' < e
  /-- every scalar is the sub-slice of the input at its offset -/
  scalars_inside : ∀ s ∈ slices toks, s.tail ≤ input.length ∧ s.bytes.length ≤ s.tail ∧
      s.bytes = (input.drop (s.off input.length)).take s.bytes.length
  /-- every scalar starts strictly after the previous scalar's start -/
  scalars_increasing : (slices toks).Pairwise (fun s t => s.off input.length < t.off input.length)

end Jomini.TextTape

/-! ### abstract documents, fragment 1: flat `key op value` fields (C01_faithful / layout) -/
namespace Jomini.TextTape

/-- a scalar as the document model sees it: quoted or not, and its content bytes (for a quoted
scalar: what stands between the quotes, escapes included). -/
structure Scal where
  quoted : Bool
  bytes : Bytes
deriving DecidableEq, Repr

/-- the bytes of the scalar in the file. -/
def Scal.text (s : Scal) : Bytes := if s.quoted then 34 :: (s.bytes ++ [34]) else s.bytes

/-- well-formed scalar.  Quoted: the quote that ends the rendering is the first unescaped one.
Unquoted: non-empty, no boundary byte, and the first byte is not a blank (`;`), `"` or `@`. -/
def Scal.Valid (s : Scal) : Prop :=
  if s.quoted then quoteClose (s.bytes ++ [34]) false = some s.bytes.length
  else (∀ c ∈ s.bytes, isBoundary c = false) ∧
    ∃ c r, s.bytes = c :: r ∧ isBlank c = false ∧ c ≠ 34 ∧ c ≠ 64

def Op.text : Op → Bytes
  | .eq => [61] | .lt => [60] | .le => [60, 61] | .gt => [62] | .ge => [62, 61]
  | .ne => [33, 61] | .exact => [61, 61] | .exists_ => [63, 61]

/-- `x` is empty or starts with a boundary byte (what has to follow an unquoted scalar). -/
def StartsBoundary (x : Bytes) : Prop := x = [] ∨ ∃ c r, x = c :: r ∧ isBoundary c = true

/-- a field with its layout: blanks before the key, before the operator and before the value. -/
structure LField where
  g0 : Bytes
  key : Scal
  g1 : Bytes
  op : Op
  g2 : Bytes
  val : Scal

def LField.render (f : LField) : Bytes :=
  f.g0 ++ (f.key.text ++ (f.g1 ++ (f.op.text ++ (f.g2 ++ f.val.text))))

/-- the document: fields, then trailing blanks `gt`. -/
def renderFlat : List LField → Bytes → Bytes
  | [], gt => gt
  | f :: fs, gt => f.render ++ renderFlat fs gt

/-- layout validity: gaps are blanks; an unquoted scalar is followed by nothing or a boundary byte
(so `a ?= b` needs its blank and `;` cannot be glued to a scalar). -/
def ValidFlat : List LField → Bytes → Prop
  | [], gt => Blank gt
  | f :: fs, gt =>
    Blank f.g0 ∧ Blank f.g1 ∧ Blank f.g2 ∧ f.key.Valid ∧ f.val.Valid ∧
    (f.key.quoted = false → StartsBoundary (f.g1 ++ f.op.text)) ∧
    (f.val.quoted = false → StartsBoundary (renderFlat fs gt)) ∧
    ValidFlat fs gt

/-- the token of a scalar that is followed by `after` in the input. -/
def Scal.tok (s : Scal) (after : Bytes) : Tok :=
  if s.quoted then .quoted ⟨s.bytes.length + 1 + after.length, s.bytes⟩
  else .unquoted ⟨s.bytes.length + after.length, s.bytes⟩

def Op.toks : Op → List Tok
  | .eq => []
  | o => [.operator o]

/-- the expected tape of a flat document (with the positions its layout implies). -/
def tapeFlat : List LField → Bytes → List Tok
  | [], _ => []
  | f :: fs, gt =>
    let after := renderFlat fs gt
    [f.key.tok (f.g1 ++ (f.op.text ++ (f.g2 ++ (f.val.text ++ after))))] ++ f.op.toks ++
      [f.val.tok after] ++ tapeFlat fs gt

/-- forget where a scalar stands: what is left is the document's content. -/
def Tok.erase : Tok → Tok
  | .unquoted s => .unquoted ⟨0, s.bytes⟩
  | .quoted s => .quoted ⟨0, s.bytes⟩
  | .parameter s => .parameter ⟨0, s.bytes⟩
  | .undefParameter s => .undefParameter ⟨0, s.bytes⟩
  | .header s => .header ⟨0, s.bytes⟩
  | t => t

/-- the layout-free content tape of a flat document: keys, operators, scalar bytes with their
quotedness, in document order. -/
def contentFlat : List (Scal × Op × Scal) → List Tok
  | [] => []
  | (k, o, v) :: fs =>
    [(k.tok []).erase] ++ o.toks ++ [(v.tok []).erase] ++ contentFlat fs

def LField.content (f : LField) : Scal × Op × Scal := (f.key, f.op, f.val)

end Jomini.TextTape

/-! ### abstract documents, fragment 2: nested objects (any depth) with their layout -/
namespace Jomini.TextTape

mutual
/-- a value with its layout: a scalar behind blanks `g`, or a non-empty object
`g { g0 key g1 op value fields… gc }` (the first field is explicit: it is the one ParseOpen sees). -/
inductive LVal
  | scal (g : Bytes) (s : Scal)
  | obj (g g0 : Bytes) (key : Scal) (g1 : Bytes) (op : Op) (v : LVal) (rest : LFields) (gc : Bytes)
/-- further fields `g0 key g1 op value`. -/
inductive LFields
  | nil
  | cons (g0 : Bytes) (key : Scal) (g1 : Bytes) (op : Op) (v : LVal) (rest : LFields)
end

mutual
def renderV : LVal → Bytes
  | .scal g s => g ++ s.text
  | .obj g g0 k g1 o v rest gc =>
    g ++ 123 :: (g0 ++ (k.text ++ (g1 ++ (o.text ++ (renderV v ++ (renderF rest ++ (gc ++ [125])))))))
def renderF : LFields → Bytes
  | .nil => []
  | .cons g0 k g1 o v rest => g0 ++ (k.text ++ (g1 ++ (o.text ++ (renderV v ++ renderF rest))))
end

mutual
/-- layout validity of a value followed by `after`. -/
def ValidV : LVal → Bytes → Prop
  | .scal g s, after => Blank g ∧ s.Valid ∧ (s.quoted = false → StartsBoundary after)
  | .obj g g0 k g1 o v rest gc, after =>
    Blank g ∧ Blank g0 ∧ Blank g1 ∧ Blank gc ∧ k.Valid ∧
    (k.quoted = false → StartsBoundary (g1 ++ o.text)) ∧
    ValidV v (renderF rest ++ (gc ++ 125 :: after)) ∧ ValidF rest (gc ++ 125 :: after)
def ValidF : LFields → Bytes → Prop
  | .nil, _ => True
  | .cons g0 k g1 o v rest, after =>
    Blank g0 ∧ Blank g1 ∧ k.Valid ∧ (k.quoted = false → StartsBoundary (g1 ++ o.text)) ∧
    ValidV v (renderF rest ++ after) ∧ ValidF rest after
end

mutual
/-- number of tape tokens. -/
def cntV : LVal → Nat
  | .scal _ _ => 1
  | .obj _ _ _ _ o v rest _ => 2 + (1 + o.toks.length + cntV v) + cntF rest
def cntF : LFields → Nat
  | .nil => 0
  | .cons _ _ _ o v rest => (1 + o.toks.length + cntV v) + cntF rest
end

mutual
/-- the expected tape of a value whose first token gets index `base` and which is followed by
`after` in the input. -/
def tapeV : LVal → Nat → Bytes → List Tok
  | .scal _ s, _, after => [s.tok after]
  | .obj _ _ k g1 o v rest gc, base, after =>
    let tail := renderF rest ++ (gc ++ 125 :: after)
    [.object (base + 1 + (1 + o.toks.length + cntV v) + cntF rest) false] ++
      ([k.tok (g1 ++ (o.text ++ (renderV v ++ tail)))] ++ o.toks ++
        tapeV v (base + 1 + 1 + o.toks.length) tail ++
        tapeF rest (base + 1 + (1 + o.toks.length + cntV v)) (gc ++ 125 :: after)) ++
      [.endTok base]
def tapeF : LFields → Nat → Bytes → List Tok
  | .nil, _, _ => []
  | .cons _ k g1 o v rest, base, after =>
    [k.tok (g1 ++ (o.text ++ (renderV v ++ (renderF rest ++ after))))] ++ o.toks ++
      tapeV v (base + 1 + o.toks.length) (renderF rest ++ after) ++
      tapeF rest (base + (1 + o.toks.length + cntV v)) after
end

mutual
/-- main-loop iterations the value takes. -/
def stepsV : LVal → Nat
  | .scal _ _ => 1
  | .obj _ _ _ _ _ v rest _ => 3 + stepsV v + stepsF rest + 1
def stepsF : LFields → Nat
  | .nil => 0
  | .cons _ _ _ _ v rest => 2 + stepsV v + stepsF rest
end

mutual
/-- the layout-free content: keys, operators, scalars, object boundaries. -/
inductive CVal
  | scal (s : Scal)
  | obj (fs : CFields)
inductive CFields
  | nil
  | cons (key : Scal) (op : Op) (v : CVal) (rest : CFields)
end

mutual
def contentV : LVal → CVal
  | .scal _ s => .scal s
  | .obj _ _ k _ o v rest _ => .obj (.cons k o (contentV v) (contentFs rest))
def contentFs : LFields → CFields
  | .nil => .nil
  | .cons _ k _ o v rest => .cons k o (contentV v) (contentFs rest)
end

mutual
/-- the position-free tape of a content tree whose first token gets index `base`. -/
def ctapeV : CVal → Nat → List Tok
  | .scal s, _ => [(s.tok []).erase]
  | .obj fs, base => [.object (base + 1 + ccntF fs) false] ++ ctapeF fs (base + 1) ++ [.endTok base]
def ctapeF : CFields → Nat → List Tok
  | .nil, _ => []
  | .cons k o v rest, base =>
    [(k.tok []).erase] ++ o.toks ++ ctapeV v (base + 1 + o.toks.length) ++
      ctapeF rest (base + (1 + o.toks.length + ccntV v))
def ccntV : CVal → Nat
  | .scal _ => 1
  | .obj fs => 2 + ccntF fs
def ccntF : CFields → Nat
  | .nil => 0
  | .cons _ o v rest => (1 + o.toks.length + ccntV v) + ccntF rest
end

end Jomini.TextTape

/-! ### `@variables` and `@[…]` interpolated expressions as scalars -/
namespace Jomini.TextTape

/-- `@name`: unquoted, `@` followed by at least one byte, no boundary byte. -/
def Scal.IsVar (s : Scal) : Prop :=
  s.quoted = false ∧ ∃ r, s.bytes = 64 :: r ∧ r ≠ [] ∧ ∀ c ∈ r, isBoundary c = false

/-- `@[ … ]`: unquoted, everything up to and including the first `]` (blanks, operators, braces
inside are part of the scalar). -/
def Scal.IsInterp (s : Scal) : Prop :=
  s.quoted = false ∧ ∃ body, s.bytes = 64 :: 91 :: (body ++ [93]) ∧ ∀ c ∈ body, c ≠ 93

/-- well-formed scalar of fragment 3: an ordinary scalar, a variable or an interpolated expression. -/
def Scal.ValidX (s : Scal) : Prop := s.Valid ∨ s.IsVar ∨ s.IsInterp

/-- a parameter name `[[name]`: non-empty, no boundary byte. -/
def IsParamName (name : Bytes) : Prop := name ≠ [] ∧ ∀ c ∈ name, isBoundary c = false

/-- `[[name]` / `[[!name]` -/
def paramOpen (isU : Bool) (name : Bytes) : Bytes := 91 :: 91 :: ((if isU then [33] else []) ++ (name ++ [93]))

/-- a run of scalars with their blanks (the array part of a mixed container). -/
def renderElems : List (Bytes × Scal) → Bytes
  | [] => []
  | (g, s) :: r => g ++ (s.text ++ renderElems r)

def ElemsValid : List (Bytes × Scal) → Bytes → Prop
  | [], _ => True
  | (g, s) :: r, after =>
    Blank g ∧ s.ValidX ∧ (s.quoted = false → StartsBoundary (renderElems r ++ after)) ∧ ElemsValid r after

def elemToks : List (Bytes × Scal) → Bytes → List Tok
  | [], _ => []
  | (_, s) :: r, after => s.tok (renderElems r ++ after) :: elemToks r after

end Jomini.TextTape

/-! ### abstract documents, fragment 3: objects, arrays (of scalars, objects, arrays) and empty
containers, any depth -/
namespace Jomini.TextTape

mutual
/-- a value with its layout (`g` = blanks in front of it, `gc` = blanks in front of its `}`).
Arrays come in two forms because the parser treats their first element differently: `arrS` starts
with a scalar (`g0 s0`), `arrC` with a non-empty container. -/
inductive JVal
  | scal (g : Bytes) (s : Scal)
  | empty (g gc : Bytes)
  | obj (g g0 : Bytes) (key : Scal) (g1 : Bytes) (op : Op) (v : JVal) (rest : JFields) (gc : Bytes)
  | arrS (g g0 : Bytes) (s0 : Scal) (rest : JVals) (gc : Bytes)
  | arrC (g : Bytes) (first : JVal) (rest : JVals) (gc : Bytes)
  /-- `g { b1 { b2 } …inside of v… `: a ghost `{}` at the very start of the (braced) value `v`; the
  parser drops it, the kind of the container not being known yet -/
  | ghostIn (g b1 b2 : Bytes) (v : JVal)
  /-- object→array mixed container `{ key op v fields… m0 elems… }`: an object that continues as a
  bare list of scalars (the first of them, `m0`, is what the parser first takes for a key) -/
  | mixed (g g0 : Bytes) (key : Scal) (g1 : Bytes) (op : Op) (v : JVal) (rest : JFields)
      (gm : Bytes) (m0 : Scal) (elems : List (Bytes × Scal)) (gc : Bytes)
inductive JFields
  | nil
  | cons (g0 : Bytes) (key : Scal) (g1 : Bytes) (op : Op) (v : JVal) (rest : JFields)
  /-- `key { … }`: the `=` before a `{` is optional (never on the first field of a nested container,
  where `b { … }` is an array starting with `b`) -/
  | consImp (g0 : Bytes) (key : Scal) (v : JVal) (rest : JFields)
  /-- ghost `{}` in key position: leaves no trace -/
  | ghost (g gc : Bytes) (rest : JFields)
  /-- `key op h { … }`: an unquoted scalar `h` directly followed by a non-empty container is the
  header of that container (`rgb { 1 2 3 }`, `hsv { … }`, `LIST { … }`) -/
  | consHdr (g0 : Bytes) (key : Scal) (g1 : Bytes) (op : Op) (gh : Bytes) (h : Scal) (body : JVal) (rest : JFields)
  /-- parameter block, value form: `[[name] value ]` / `[[!name] value ]` -/
  | paramVal (g0 : Bytes) (isU : Bool) (name : Bytes) (g1 : Bytes) (val : Scal) (g2 : Bytes) (rest : JFields)
  /-- parameter block, object form: `[[name] key op value fields… ]` -/
  | paramObj (g0 : Bytes) (isU : Bool) (name : Bytes) (g1 : Bytes) (key : Scal) (g2 : Bytes) (op : Op)
      (v : JVal) (inner : JFields) (gc : Bytes) (rest : JFields)
inductive JVals
  | nil
  | cons (v : JVal) (rest : JVals)
end

mutual
def jrenderV : JVal → Bytes
  | .scal g s => g ++ s.text
  | .empty g gc => g ++ 123 :: (gc ++ [125])
  | .obj g g0 k g1 o v rest gc =>
    g ++ 123 :: (g0 ++ (k.text ++ (g1 ++ (o.text ++ (jrenderV v ++ (jrenderF rest ++ (gc ++ [125])))))))
  | .arrS g g0 s0 rest gc => g ++ 123 :: (g0 ++ (s0.text ++ (jrenderVs rest ++ (gc ++ [125]))))
  | .arrC g first rest gc => g ++ 123 :: (jrenderV first ++ (jrenderVs rest ++ (gc ++ [125])))
  | .ghostIn g b1 b2 v => g ++ 123 :: (b1 ++ 123 :: (b2 ++ 125 :: jinner v))
  | .mixed g g0 k g1 o v rest gm m0 elems gc =>
    g ++ 123 :: (g0 ++ (k.text ++ (g1 ++ (o.text ++ (jrenderV v ++ (jrenderF rest ++
      (gm ++ (m0.text ++ (renderElems elems ++ (gc ++ [125])))))))))) 
/-- what stands behind the opening `{` of a braced value. -/
def jinner : JVal → Bytes
  | .scal _ _ => []
  | .empty _ gc => gc ++ [125]
  | .obj _ g0 k g1 o v rest gc =>
    g0 ++ (k.text ++ (g1 ++ (o.text ++ (jrenderV v ++ (jrenderF rest ++ (gc ++ [125]))))))
  | .arrS _ g0 s0 rest gc => g0 ++ (s0.text ++ (jrenderVs rest ++ (gc ++ [125])))
  | .arrC _ first rest gc => jrenderV first ++ (jrenderVs rest ++ (gc ++ [125]))
  | .ghostIn _ b1 b2 v => b1 ++ 123 :: (b2 ++ 125 :: jinner v)
  | .mixed _ g0 k g1 o v rest gm m0 elems gc =>
    g0 ++ (k.text ++ (g1 ++ (o.text ++ (jrenderV v ++ (jrenderF rest ++
      (gm ++ (m0.text ++ (renderElems elems ++ (gc ++ [125])))))))))
def jrenderF : JFields → Bytes
  | .nil => []
  | .cons g0 k g1 o v rest => g0 ++ (k.text ++ (g1 ++ (o.text ++ (jrenderV v ++ jrenderF rest))))
  | .consImp g0 k v rest => g0 ++ (k.text ++ (jrenderV v ++ jrenderF rest))
  | .ghost g gc rest => g ++ 123 :: (gc ++ 125 :: jrenderF rest)
  | .consHdr g0 k g1 o gh h body rest =>
    g0 ++ (k.text ++ (g1 ++ (o.text ++ (gh ++ (h.text ++ (jrenderV body ++ jrenderF rest))))))
  | .paramVal g0 isU name g1 val g2 rest =>
    g0 ++ (paramOpen isU name ++ (g1 ++ (val.text ++ (g2 ++ 93 :: jrenderF rest))))
  | .paramObj g0 isU name g1 k g2 o v inner gc rest =>
    g0 ++ (paramOpen isU name ++ (g1 ++ (k.text ++ (g2 ++ (o.text ++ (jrenderV v ++ (jrenderF inner ++
      (gc ++ 93 :: jrenderF rest))))))))
def jrenderVs : JVals → Bytes
  | .nil => []
  | .cons v rest => jrenderV v ++ jrenderVs rest
end

/-- a value written with braces. -/
def JVal.isBraced : JVal → Prop
  | .scal .. => False
  | _ => True

/-- a non-empty container (what may stand first in an `arrC`; a leading `{}` would be dropped by
the parser as a ghost object, the kind of the container not being known yet). -/
def JVal.isContainer : JVal → Prop
  | .obj .. | .arrS .. | .arrC .. | .ghostIn .. | .mixed .. => True
  | _ => False

/-- the blanks in front of a value. -/
def JVal.gap : JVal → Bytes
  | .scal g _ | .empty g _ | .obj g .. | .arrS g .. | .arrC g .. | .ghostIn g .. | .mixed g .. => g

mutual
/-- layout validity of a value followed by `after`. -/
def JValidV : JVal → Bytes → Prop
  | .scal g s, after => Blank g ∧ s.ValidX ∧ (s.quoted = false → StartsBoundary after)
  | .empty g gc, _ => Blank g ∧ Blank gc
  | .obj g g0 k g1 o v rest gc, after =>
    Blank g ∧ Blank g0 ∧ Blank g1 ∧ Blank gc ∧ k.ValidX ∧
    (k.quoted = false → StartsBoundary (g1 ++ o.text)) ∧
    JValidV v (jrenderF rest ++ (gc ++ 125 :: after)) ∧ JValidF rest (gc ++ 125 :: after)
  | .arrS g g0 s0 rest gc, after =>
    Blank g ∧ Blank g0 ∧ Blank gc ∧ s0.ValidX ∧
    (s0.quoted = false → StartsBoundary (jrenderVs rest ++ (gc ++ 125 :: after))) ∧
    -- what follows the first scalar is not an operator (else the container would be an object)
    (∀ d2, skipWs (jrenderVs rest ++ (gc ++ 125 :: after)) = some d2 → firstFieldPeek d2 = false) ∧
    JValidVs rest (gc ++ 125 :: after)
  | .arrC g first rest gc, after =>
    Blank g ∧ Blank gc ∧ first.isContainer ∧
    JValidV first (jrenderVs rest ++ (gc ++ 125 :: after)) ∧ JValidVs rest (gc ++ 125 :: after)
  | .ghostIn g b1 b2 v, after =>
    -- (the blanks `v` carries in front of its own `{` are not rendered: they must be empty)
    Blank g ∧ Blank b1 ∧ Blank b2 ∧ v.isBraced ∧ v.gap = [] ∧ JValidV v after
  | .mixed g g0 k g1 o v rest gm m0 elems gc, after =>
    let E := renderElems elems ++ (gc ++ 125 :: after)
    Blank g ∧ Blank g0 ∧ Blank g1 ∧ Blank gm ∧ Blank gc ∧ k.ValidX ∧
    (k.quoted = false → StartsBoundary (g1 ++ o.text)) ∧
    JValidV v (jrenderF rest ++ (gm ++ (m0.text ++ E))) ∧ JValidF rest (gm ++ (m0.text ++ E)) ∧
    m0.ValidX ∧ (m0.quoted = false → StartsBoundary E) ∧
    -- what follows `m0` is neither an operator nor a `{` (else `m0` would be a key)
    (∀ d2, skipWs E = some d2 → lexOperator true d2 = none ∧ d2.head? ≠ some 123) ∧
    ElemsValid elems (gc ++ 125 :: after)
def JValidF : JFields → Bytes → Prop
  | .nil, _ => True
  | .cons g0 k g1 o v rest, after =>
    Blank g0 ∧ Blank g1 ∧ k.ValidX ∧ (k.quoted = false → StartsBoundary (g1 ++ o.text)) ∧
    JValidV v (jrenderF rest ++ after) ∧ JValidF rest after
  | .consImp g0 k v rest, after =>
    Blank g0 ∧ k.ValidX ∧ v.isBraced ∧
    (k.quoted = false → StartsBoundary (jrenderV v ++ (jrenderF rest ++ after))) ∧
    JValidV v (jrenderF rest ++ after) ∧ JValidF rest after
  | .ghost g gc rest, after => Blank g ∧ Blank gc ∧ JValidF rest after
  | .consHdr g0 k g1 o gh h body rest, after =>
    Blank g0 ∧ Blank g1 ∧ Blank gh ∧ k.ValidX ∧ (k.quoted = false → StartsBoundary (g1 ++ o.text)) ∧
    h.Valid ∧ h.quoted = false ∧ StartsBoundary (jrenderV body ++ (jrenderF rest ++ after)) ∧
    body.isContainer ∧ JValidV body (jrenderF rest ++ after) ∧ JValidF rest after
  | .paramVal g0 isU name g1 val g2 rest, after =>
    Blank g0 ∧ Blank g1 ∧ Blank g2 ∧ IsParamName name ∧ val.Valid ∧ val.quoted = false ∧
    StartsBoundary (g2 ++ 93 :: (jrenderF rest ++ after)) ∧ JValidF rest after
  | .paramObj g0 isU name g1 k g2 o v inner gc rest, after =>
    Blank g0 ∧ Blank g1 ∧ Blank g2 ∧ Blank gc ∧ IsParamName name ∧ k.Valid ∧ k.quoted = false ∧
    StartsBoundary (g2 ++ o.text) ∧
    JValidV v (jrenderF inner ++ (gc ++ 93 :: (jrenderF rest ++ after))) ∧
    JValidF inner (gc ++ 93 :: (jrenderF rest ++ after)) ∧ JValidF rest after
def JValidVs : JVals → Bytes → Prop
  | .nil, _ => True
  | .cons v rest, after => JValidV v (jrenderVs rest ++ after) ∧ JValidVs rest after
end

mutual
def jcntV : JVal → Nat
  | .scal _ _ => 1
  | .empty _ _ => 2
  | .obj _ _ _ _ o v rest _ => 2 + (1 + o.toks.length + jcntV v) + jcntF rest
  | .arrS _ _ _ rest _ => 2 + 1 + jcntVs rest
  | .arrC _ first rest _ => 2 + jcntV first + jcntVs rest
  | .ghostIn _ _ _ v => jcntV v
  | .mixed _ _ _ _ o v rest _ _ elems _ => 2 + (1 + o.toks.length + jcntV v) + jcntF rest + 2 + elems.length
def jcntF : JFields → Nat
  | .nil => 0
  | .cons _ _ _ o v rest => (1 + o.toks.length + jcntV v) + jcntF rest
  | .consImp _ _ v rest => (1 + jcntV v) + jcntF rest
  | .ghost _ _ rest => jcntF rest
  | .consHdr _ _ _ o _ _ body rest => (1 + o.toks.length + (1 + jcntV body)) + jcntF rest
  | .paramVal _ _ _ _ _ _ rest => 2 + jcntF rest
  | .paramObj _ _ _ _ _ _ o v inner _ rest => (3 + (1 + o.toks.length + jcntV v) + jcntF inner) + jcntF rest
def jcntVs : JVals → Nat
  | .nil => 0
  | .cons v rest => jcntV v + jcntVs rest
end

mutual
/-- the expected tape of a value whose first token gets index `base`, followed by `after`. -/
def jtapeV : JVal → Nat → Bytes → List Tok
  | .scal _ s, _, after => [s.tok after]
  | .empty _ _, base, _ => [.array (base + 1) false, .endTok base]
  | .obj _ _ k g1 o v rest gc, base, after =>
    let tail := jrenderF rest ++ (gc ++ 125 :: after)
    [.object (base + 1 + (1 + o.toks.length + jcntV v) + jcntF rest) false] ++
      ([k.tok (g1 ++ (o.text ++ (jrenderV v ++ tail)))] ++ o.toks ++
        jtapeV v (base + 1 + 1 + o.toks.length) tail ++
        jtapeF rest (base + 1 + (1 + o.toks.length + jcntV v)) (gc ++ 125 :: after)) ++
      [.endTok base]
  | .arrS _ _ s0 rest gc, base, after =>
    [.array (base + 1 + 1 + jcntVs rest) false] ++
      ([s0.tok (jrenderVs rest ++ (gc ++ 125 :: after))] ++
        jtapeVs rest (base + 1 + 1) (gc ++ 125 :: after)) ++
      [.endTok base]
  | .arrC _ first rest gc, base, after =>
    [.array (base + 1 + jcntV first + jcntVs rest) false] ++
      (jtapeV first (base + 1) (jrenderVs rest ++ (gc ++ 125 :: after)) ++
        jtapeVs rest (base + 1 + jcntV first) (gc ++ 125 :: after)) ++
      [.endTok base]
  | .ghostIn _ _ _ v, base, after => jtapeV v base after
  | .mixed _ _ k g1 o v rest gm m0 elems gc, base, after =>
    let E := renderElems elems ++ (gc ++ 125 :: after)
    let tail := jrenderF rest ++ (gm ++ (m0.text ++ E))
    [.object (base + 1 + (1 + o.toks.length + jcntV v) + jcntF rest + 2 + elems.length) true] ++
      ([k.tok (g1 ++ (o.text ++ (jrenderV v ++ tail)))] ++ o.toks ++
        jtapeV v (base + 1 + 1 + o.toks.length) tail ++
        jtapeF rest (base + 1 + (1 + o.toks.length + jcntV v)) (gm ++ (m0.text ++ E)) ++
        [.mixedContainer, m0.tok E] ++ elemToks elems (gc ++ 125 :: after)) ++
      [.endTok base]
def jtapeF : JFields → Nat → Bytes → List Tok
  | .nil, _, _ => []
  | .cons _ k g1 o v rest, base, after =>
    [k.tok (g1 ++ (o.text ++ (jrenderV v ++ (jrenderF rest ++ after))))] ++ o.toks ++
      jtapeV v (base + 1 + o.toks.length) (jrenderF rest ++ after) ++
      jtapeF rest (base + (1 + o.toks.length + jcntV v)) after
  | .consImp _ k v rest, base, after =>
    [k.tok (jrenderV v ++ (jrenderF rest ++ after))] ++
      jtapeV v (base + 1) (jrenderF rest ++ after) ++ jtapeF rest (base + (1 + jcntV v)) after
  | .ghost _ _ rest, base, after => jtapeF rest base after
  | .consHdr _ k g1 o gh h body rest, base, after =>
    let Z := jrenderV body ++ (jrenderF rest ++ after)
    [k.tok (g1 ++ (o.text ++ (gh ++ (h.text ++ Z))))] ++ o.toks ++
      [.header ⟨h.bytes.length + Z.length, h.bytes⟩] ++
      jtapeV body (base + 1 + o.toks.length + 1) (jrenderF rest ++ after) ++
      jtapeF rest (base + (1 + o.toks.length + (1 + jcntV body))) after
  | .paramVal _ isU name g1 val g2 rest, base, after =>
    let R := jrenderF rest ++ after
    [paramTok isU ⟨(name ++ 93 :: (g1 ++ (val.text ++ (g2 ++ 93 :: R)))).length, name⟩,
      .unquoted ⟨(val.text ++ (g2 ++ 93 :: R)).length, val.bytes⟩] ++ jtapeF rest (base + 2) after
  | .paramObj _ isU name g1 k g2 o v inner gc rest, base, after =>
    let R := jrenderF rest ++ after
    let tail := jrenderF inner ++ (gc ++ 93 :: R)
    let Y := g1 ++ (k.text ++ (g2 ++ (o.text ++ (jrenderV v ++ tail))))
    [paramTok isU ⟨(name ++ 93 :: Y).length, name⟩,
      .object (base + 2 + (1 + o.toks.length + jcntV v) + jcntF inner) false,
      .unquoted ⟨(k.text ++ (g2 ++ (o.text ++ (jrenderV v ++ tail)))).length, k.bytes⟩] ++ o.toks ++
      jtapeV v (base + 3 + o.toks.length) tail ++
      jtapeF inner (base + 2 + (1 + o.toks.length + jcntV v)) (gc ++ 93 :: R) ++
      [.endTok (base + 1)] ++
      jtapeF rest (base + ((3 + (1 + o.toks.length + jcntV v) + jcntF inner))) after
def jtapeVs : JVals → Nat → Bytes → List Tok
  | .nil, _, _ => []
  | .cons v rest, base, after =>
    jtapeV v base (jrenderVs rest ++ after) ++ jtapeVs rest (base + jcntV v) after
end

mutual
/-- main-loop iterations. -/
def jstepsV : JVal → Nat
  | .scal _ _ => 1
  | .empty _ _ => 2
  | .obj _ _ _ _ _ v rest _ => 3 + jstepsV v + jstepsF rest + 1
  | .arrS _ _ _ rest _ => 2 + jstepsVs rest + 1
  | .arrC _ first rest _ => 2 + jstepsV first + jstepsVs rest + 1
  | .ghostIn _ _ _ v => 1 + jstepsV v
  | .mixed _ _ _ _ _ v rest _ _ elems _ => 3 + jstepsV v + jstepsF rest + 2 + elems.length + 1
def jstepsF : JFields → Nat
  | .nil => 0
  | .cons _ _ _ _ v rest => 2 + jstepsV v + jstepsF rest
  | .consImp _ _ v rest => 2 + jstepsV v + jstepsF rest
  | .ghost _ _ rest => 1 + jstepsF rest
  | .consHdr _ _ _ _ _ _ body rest => 3 + jstepsV body + jstepsF rest
  | .paramVal _ _ _ _ _ _ rest => 1 + jstepsF rest
  | .paramObj _ _ _ _ _ _ _ v inner _ rest => 2 + jstepsV v + jstepsF inner + 1 + jstepsF rest
def jstepsVs : JVals → Nat
  | .nil => 0
  | .cons v rest => jstepsV v + jstepsVs rest
end

end Jomini.TextTape

/-! ### fragment 3: layout-free content -/
namespace Jomini.TextTape

mutual
/-- the document model of fragment 3: scalars, empty containers, objects, arrays. -/
inductive KVal
  | scal (s : Scal)
  | empty
  | obj (fs : KFields)
  | arr (vs : KVals)
  /-- a container with a header (`rgb { … }`) -/
  | hdr (h : Bytes) (body : KVal)
  /-- object→array mixed container: fields, then bare scalars -/
  | mixed (fs : KFields) (vs : List Scal)
inductive KFields
  | nil
  | cons (key : Scal) (op : Op) (v : KVal) (rest : KFields)
  /-- parameter block, value form -/
  | paramVal (isU : Bool) (name : Bytes) (val : Scal) (rest : KFields)
  /-- parameter block, object form -/
  | paramObj (isU : Bool) (name : Bytes) (fs : KFields) (rest : KFields)
inductive KVals
  | nil
  | cons (v : KVal) (rest : KVals)
end

mutual
def kcontentV : JVal → KVal
  | .scal _ s => .scal s
  | .empty _ _ => .empty
  | .obj _ _ k _ o v rest _ => .obj (.cons k o (kcontentV v) (kcontentF rest))
  | .arrS _ _ s0 rest _ => .arr (.cons (.scal s0) (kcontentVs rest))
  | .arrC _ first rest _ => .arr (.cons (kcontentV first) (kcontentVs rest))
  | .ghostIn _ _ _ v => kcontentV v
  | .mixed _ _ k _ o v rest _ m0 elems _ =>
    .mixed (.cons k o (kcontentV v) (kcontentF rest)) (m0 :: elems.map (·.2))
def kcontentF : JFields → KFields
  | .nil => .nil
  | .cons _ k _ o v rest => .cons k o (kcontentV v) (kcontentF rest)
  | .consImp _ k v rest => .cons k .eq (kcontentV v) (kcontentF rest)
  | .ghost _ _ rest => kcontentF rest
  | .consHdr _ k _ o _ h body rest => .cons k o (.hdr h.bytes (kcontentV body)) (kcontentF rest)
  | .paramVal _ isU name _ val _ rest => .paramVal isU name val (kcontentF rest)
  | .paramObj _ isU name _ k _ o v inner _ rest =>
    -- (the first key of a parameter block is read as an unquoted scalar whatever it looks like)
    .paramObj isU name (.cons ⟨false, k.bytes⟩ o (kcontentV v) (kcontentF inner)) (kcontentF rest)
def kcontentVs : JVals → KVals
  | .nil => .nil
  | .cons v rest => .cons (kcontentV v) (kcontentVs rest)
end

mutual
def kcntV : KVal → Nat
  | .scal _ => 1
  | .empty => 2
  | .obj fs => 2 + kcntF fs
  | .arr vs => 2 + kcntVs vs
  | .hdr _ body => 1 + kcntV body
  | .mixed fs vs => 2 + kcntF fs + 1 + vs.length
def kcntF : KFields → Nat
  | .nil => 0
  | .cons _ o v rest => (1 + o.toks.length + kcntV v) + kcntF rest
  | .paramVal _ _ _ rest => 2 + kcntF rest
  | .paramObj _ _ fs rest => (3 + kcntF fs) + kcntF rest
def kcntVs : KVals → Nat
  | .nil => 0
  | .cons v rest => kcntV v + kcntVs rest
end

mutual
/-- the position-free tape of a content tree whose first token gets index `base`: keys,
operators, scalar bytes (quoted vs unquoted), container kinds and their `end` links. -/
def ktapeV : KVal → Nat → List Tok
  | .scal s, _ => [(s.tok []).erase]
  | .empty, base => [.array (base + 1) false, .endTok base]
  | .obj fs, base => [.object (base + 1 + kcntF fs) false] ++ ktapeF fs (base + 1) ++ [.endTok base]
  | .arr vs, base => [.array (base + 1 + kcntVs vs) false] ++ ktapeVs vs (base + 1) ++ [.endTok base]
  | .hdr h body, base => [.header ⟨0, h⟩] ++ ktapeV body (base + 1)
  | .mixed fs vs, base =>
    [.object (base + 1 + kcntF fs + 1 + vs.length) true] ++ ktapeF fs (base + 1) ++
      [.mixedContainer] ++ vs.map (fun s => (s.tok []).erase) ++ [.endTok base]
def ktapeF : KFields → Nat → List Tok
  | .nil, _ => []
  | .cons k o v rest, base =>
    [(k.tok []).erase] ++ o.toks ++ ktapeV v (base + 1 + o.toks.length) ++
      ktapeF rest (base + (1 + o.toks.length + kcntV v))
  | .paramVal isU name val rest, base =>
    [paramTok isU ⟨0, name⟩, .unquoted ⟨0, val.bytes⟩] ++ ktapeF rest (base + 2)
  | .paramObj isU name fs rest, base =>
    [paramTok isU ⟨0, name⟩, .object (base + 2 + kcntF fs) false] ++ ktapeF fs (base + 2) ++
      [.endTok (base + 1)] ++ ktapeF rest (base + (3 + kcntF fs))
def ktapeVs : KVals → Nat → List Tok
  | .nil, _ => []
  | .cons v rest, base => ktapeV v base ++ ktapeVs rest (base + kcntV v)
end

end Jomini.TextTape
