import JominiModel.Model.TextTape
/-
Reference notions the C01 / C06 (text) / C19 (text tape) theorems talk about.  Core Lean only.
-/
namespace Jomini.TextTape

/-- Layout filler: any mixture of blank bytes (measured `wsTape`: space, tab, LF, CR, ';') and
complete comments `# … \n`. -/
inductive Blank : Bytes → Prop
  | nil : Blank []
  | ws (c : UInt8) (w : Bytes) : isBlank c = true → Blank w → Blank (c :: w)
  | comment (body w : Bytes) : (∀ c ∈ body, c ≠ 10) → Blank w → Blank (35 :: (body ++ 10 :: w))

/-- the scalars of a tape, in tape order. -/
def slices (toks : List Tok) : List Slice := toks.filterMap Tok.slice?

/-- `toks[i]` is a container start whose `end` field is `e`. -/
def IsStart (toks : List Tok) (i e : Nat) : Prop :=
  ∃ m, toks[i]? = some (.array e m) ∨ toks[i]? = some (.object e m)

/-- C06, text half: what "structurally sound" means for a text tape over `input`. -/
structure WfTextTape (input : Bytes) (toks : List Tok) : Prop where
  /-- every container start indexes a later `End` token that indexes it back -/
  start_link : ∀ i e, IsStart toks i e → i < e ∧ toks[e]? = some (.endTok i)
  /-- every `End` indexes an earlier container start (never index 0) that indexes it back -/
  end_link : ∀ i j, toks[i]? = some (.endTok j) → 0 < j ∧ j < i ∧ IsStart toks j i
  /-- containers are properly nested: two container intervals never cross -/
  nested : ∀ i e i' e', IsStart toks i e → IsStart toks i' e' → i < i' → i' < e → e' < e
  /-- every scalar is the sub-slice of the input at its offset -/
  scalars_inside : ∀ s ∈ slices toks, s.tail ≤ input.length ∧ s.bytes.length ≤ s.tail ∧
      s.bytes = (input.drop (s.off input.length)).take s.bytes.length
  /-- every scalar starts strictly after the previous scalar's start -/
  scalars_increasing : (slices toks).Pairwise (fun s t => s.off input.length < t.off input.length)

end Jomini.TextTape

/-! ### abstract documents, fragment 1: flat `key op value` fields (C01_faithful / layout) -/
namespace Jomini.TextTape

/-- a scalar as the document model sees it: quoted or not, and its content bytes (for a quoted
scalar: what stands between the quotes, escapes included). -/
structure Scal where
  quoted : Bool
  bytes : Bytes
deriving DecidableEq, Repr

/-- the bytes of the scalar in the file. -/
def Scal.text (s : Scal) : Bytes := if s.quoted then 34 :: (s.bytes ++ [34]) else s.bytes

/-- well-formed scalar.  Quoted: the quote that ends the rendering is the first unescaped one.
Unquoted: non-empty, no boundary byte, and the first byte is not a blank (`;`), `"` or `@`. -/
def Scal.Valid (s : Scal) : Prop :=
  if s.quoted then quoteClose (s.bytes ++ [34]) false = some s.bytes.length
  else (∀ c ∈ s.bytes, isBoundary c = false) ∧
    ∃ c r, s.bytes = c :: r ∧ isBlank c = false ∧ c ≠ 34 ∧ c ≠ 64

def Op.text : Op → Bytes
  | .eq => [61] | .lt => [60] | .le => [60, 61] | .gt => [62] | .ge => [62, 61]
  | .ne => [33, 61] | .exact => [61, 61] | .exists_ => [63, 61]

/-- `x` is empty or starts with a boundary byte (what has to follow an unquoted scalar). -/
def StartsBoundary (x : Bytes) : Prop := x = [] ∨ ∃ c r, x = c :: r ∧ isBoundary c = true

/-- a field with its layout: blanks before the key, before the operator and before the value. -/
structure LField where
  g0 : Bytes
  key : Scal
  g1 : Bytes
  op : Op
  g2 : Bytes
  val : Scal

def LField.render (f : LField) : Bytes :=
  f.g0 ++ (f.key.text ++ (f.g1 ++ (f.op.text ++ (f.g2 ++ f.val.text))))

/-- the document: fields, then trailing blanks `gt`. -/
def renderFlat : List LField → Bytes → Bytes
  | [], gt => gt
  | f :: fs, gt => f.render ++ renderFlat fs gt

/-- layout validity: gaps are blanks; an unquoted scalar is followed by nothing or a boundary byte
(so `a ?= b` needs its blank and `;` cannot be glued to a scalar). -/
def ValidFlat : List LField → Bytes → Prop
  | [], gt => Blank gt
  | f :: fs, gt =>
    Blank f.g0 ∧ Blank f.g1 ∧ Blank f.g2 ∧ f.key.Valid ∧ f.val.Valid ∧
    (f.key.quoted = false → StartsBoundary (f.g1 ++ f.op.text)) ∧
    (f.val.quoted = false → StartsBoundary (renderFlat fs gt)) ∧
    ValidFlat fs gt

/-- the token of a scalar that is followed by `after` in the input. -/
def Scal.tok (s : Scal) (after : Bytes) : Tok :=
  if s.quoted then .quoted ⟨s.bytes.length + 1 + after.length, s.bytes⟩
  else .unquoted ⟨s.bytes.length + after.length, s.bytes⟩

def Op.toks : Op → List Tok
  | .eq => []
  | o => [.operator o]

/-- the expected tape of a flat document (with the positions its layout implies). -/
def tapeFlat : List LField → Bytes → List Tok
  | [], _ => []
  | f :: fs, gt =>
    let after := renderFlat fs gt
    [f.key.tok (f.g1 ++ (f.op.text ++ (f.g2 ++ (f.val.text ++ after))))] ++ f.op.toks ++
      [f.val.tok after] ++ tapeFlat fs gt

/-- forget where a scalar stands: what is left is the document's content. -/
def Tok.erase : Tok → Tok
  | .unquoted s => .unquoted ⟨0, s.bytes⟩
  | .quoted s => .quoted ⟨0, s.bytes⟩
  | .parameter s => .parameter ⟨0, s.bytes⟩
  | .undefParameter s => .undefParameter ⟨0, s.bytes⟩
  | .header s => .header ⟨0, s.bytes⟩
  | t => t

/-- the layout-free content tape of a flat document: keys, operators, scalar bytes with their
quotedness, in document order. -/
def contentFlat : List (Scal × Op × Scal) → List Tok
  | [] => []
  | (k, o, v) :: fs =>
    [(k.tok []).erase] ++ o.toks ++ [(v.tok []).erase] ++ contentFlat fs

def LField.content (f : LField) : Scal × Op × Scal := (f.key, f.op, f.val)

end Jomini.TextTape
