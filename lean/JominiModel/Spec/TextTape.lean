import JominiModel.Model.TextTape
/-
Reference notions the C01 / C06 (text) / C19 (text tape) theorems talk about.  Core Lean only.
-/
namespace Jomini.TextTape

/-- Layout filler: any mixture of blank bytes (measured `wsTape`: space, tab, LF, CR, ';') and
complete comments `# … \n`. -/
inductive Blank : Bytes → Prop
  | nil : Blank []
  | ws (c : UInt8) (w : Bytes) : isBlank c = true → Blank w → Blank (c :: w)
  | comment (body w : Bytes) : (∀ c ∈ body, c ≠ 10) → Blank w → Blank (35 :: (body ++ 10 :: w))

/-- the scalars of a tape, in tape order. -/
def slices (toks : List Tok) : List Slice := toks.filterMap Tok.slice?

/-- `toks[i]` is a container start whose `end` field is `e`. -/
def IsStart (toks : List Tok) (i e : Nat) : Prop :=
  ∃ m, toks[i]? = some (.array e m) ∨ toks[i]? = some (.object e m)

/-- C06, text half: what "structurally sound" means for a text tape over `input`. -/
structure WfTextTape (input : Bytes) (toks : List Tok) : Prop where
  /-- every container start indexes a later `End` token that indexes it back -/
  start_link : ∀ i e, IsStart toks i e → i < e ∧ toks[e]? = some (.endTok i)
  /-- every `End` indexes an earlier container start (never index 0) that indexes it back -/
  end_link : ∀ i j, toks[i]? = some (.endTok j) → 0 < j ∧ j < i ∧ IsStart toks j i
  /-- containers are properly nested: two container intervals never cross -/
  nested : ∀ i e i' e', IsStart toks i e → IsStart toks i' e' → i < i' → i' < e → e' < e
  /-- every scalar is the sub-slice of the input at its offset -/
  scalars_inside : ∀ s ∈ slices toks, s.tail ≤ input.length ∧ s.bytes.length ≤ s.tail ∧
      s.bytes = (input.drop (s.off input.length)).take s.bytes.length
  /-- every scalar starts strictly after the previous scalar's start -/
  scalars_increasing : (slices toks).Pairwise (fun s t => s.off input.length < t.off input.length)

end Jomini.TextTape

/-! ### abstract documents, fragment 1: flat `key op value` fields (C01_faithful / layout) -/
namespace Jomini.TextTape

/-- a scalar as the document model sees it: quoted or not, and its content bytes (for a quoted
scalar: what stands between the quotes, escapes included). -/
structure Scal where
  quoted : Bool
  bytes : Bytes
deriving DecidableEq, Repr

/-- the bytes of the scalar in the file. -/
def Scal.text (s : Scal) : Bytes := if s.quoted then 34 :: (s.bytes ++ [34]) else s.bytes

/-- well-formed scalar.  Quoted: the quote that ends the rendering is the first unescaped one.
Unquoted: non-empty, no boundary byte, and the first byte is not a blank (`;`), `"` or `@`. -/
def Scal.Valid (s : Scal) : Prop :=
  if s.quoted then quoteClose (s.bytes ++ [34]) false = some s.bytes.length
  else (∀ c ∈ s.bytes, isBoundary c = false) ∧
    ∃ c r, s.bytes = c :: r ∧ isBlank c = false ∧ c ≠ 34 ∧ c ≠ 64

def Op.text : Op → Bytes
  | .eq => [61] | .lt => [60] | .le => [60, 61] | .gt => [62] | .ge => [62, 61]
  | .ne => [33, 61] | .exact => [61, 61] | .exists_ => [63, 61]

/-- `x` is empty or starts with a boundary byte (what has to follow an unquoted scalar). -/
def StartsBoundary (x : Bytes) : Prop := x = [] ∨ ∃ c r, x = c :: r ∧ isBoundary c = true

/-- a field with its layout: blanks before the key, before the operator and before the value. -/
structure LField where
  g0 : Bytes
  key : Scal
  g1 : Bytes
  op : Op
  g2 : Bytes
  val : Scal

def LField.render (f : LField) : Bytes :=
  f.g0 ++ (f.key.text ++ (f.g1 ++ (f.op.text ++ (f.g2 ++ f.val.text))))

/-- the document: fields, then trailing blanks `gt`. -/
def renderFlat : List LField → Bytes → Bytes
  | [], gt => gt
  | f :: fs, gt => f.render ++ renderFlat fs gt

/-- layout validity: gaps are blanks; an unquoted scalar is followed by nothing or a boundary byte
(so `a ?= b` needs its blank and `;` cannot be glued to a scalar). -/
def ValidFlat : List LField → Bytes → Prop
  | [], gt => Blank gt
  | f :: fs, gt =>
    Blank f.g0 ∧ Blank f.g1 ∧ Blank f.g2 ∧ f.key.Valid ∧ f.val.Valid ∧
    (f.key.quoted = false → StartsBoundary (f.g1 ++ f.op.text)) ∧
    (f.val.quoted = false → StartsBoundary (renderFlat fs gt)) ∧
    ValidFlat fs gt

/-- the token of a scalar that is followed by `after` in the input. -/
def Scal.tok (s : Scal) (after : Bytes) : Tok :=
  if s.quoted then .quoted ⟨s.bytes.length + 1 + after.length, s.bytes⟩
  else .unquoted ⟨s.bytes.length + after.length, s.bytes⟩

def Op.toks : Op → List Tok
  | .eq => []
  | o => [.operator o]

/-- the expected tape of a flat document (with the positions its layout implies). -/
def tapeFlat : List LField → Bytes → List Tok
  | [], _ => []
  | f :: fs, gt =>
    let after := renderFlat fs gt
    [f.key.tok (f.g1 ++ (f.op.text ++ (f.g2 ++ (f.val.text ++ after))))] ++ f.op.toks ++
      [f.val.tok after] ++ tapeFlat fs gt

/-- forget where a scalar stands: what is left is the document's content. -/
def Tok.erase : Tok → Tok
  | .unquoted s => .unquoted ⟨0, s.bytes⟩
  | .quoted s => .quoted ⟨0, s.bytes⟩
  | .parameter s => .parameter ⟨0, s.bytes⟩
  | .undefParameter s => .undefParameter ⟨0, s.bytes⟩
  | .header s => .header ⟨0, s.bytes⟩
  | t => t

/-- the layout-free content tape of a flat document: keys, operators, scalar bytes with their
quotedness, in document order. -/
def contentFlat : List (Scal × Op × Scal) → List Tok
  | [] => []
  | (k, o, v) :: fs =>
    [(k.tok []).erase] ++ o.toks ++ [(v.tok []).erase] ++ contentFlat fs

def LField.content (f : LField) : Scal × Op × Scal := (f.key, f.op, f.val)

end Jomini.TextTape

/-! ### abstract documents, fragment 2: nested objects (any depth) with their layout -/
namespace Jomini.TextTape

mutual
/-- a value with its layout: a scalar behind blanks `g`, or a non-empty object
`g { g0 key g1 op value fields… gc }` (the first field is explicit: it is the one ParseOpen sees). -/
inductive LVal
  | scal (g : Bytes) (s : Scal)
  | obj (g g0 : Bytes) (key : Scal) (g1 : Bytes) (op : Op) (v : LVal) (rest : LFields) (gc : Bytes)
/-- further fields `g0 key g1 op value`. -/
inductive LFields
  | nil
  | cons (g0 : Bytes) (key : Scal) (g1 : Bytes) (op : Op) (v : LVal) (rest : LFields)
end

mutual
def renderV : LVal → Bytes
  | .scal g s => g ++ s.text
  | .obj g g0 k g1 o v rest gc =>
    g ++ 123 :: (g0 ++ (k.text ++ (g1 ++ (o.text ++ (renderV v ++ (renderF rest ++ (gc ++ [125])))))))
def renderF : LFields → Bytes
  | .nil => []
  | .cons g0 k g1 o v rest => g0 ++ (k.text ++ (g1 ++ (o.text ++ (renderV v ++ renderF rest))))
end

mutual
/-- layout validity of a value followed by `after`. -/
def ValidV : LVal → Bytes → Prop
  | .scal g s, after => Blank g ∧ s.Valid ∧ (s.quoted = false → StartsBoundary after)
  | .obj g g0 k g1 o v rest gc, after =>
    Blank g ∧ Blank g0 ∧ Blank g1 ∧ Blank gc ∧ k.Valid ∧
    (k.quoted = false → StartsBoundary (g1 ++ o.text)) ∧
    ValidV v (renderF rest ++ (gc ++ 125 :: after)) ∧ ValidF rest (gc ++ 125 :: after)
def ValidF : LFields → Bytes → Prop
  | .nil, _ => True
  | .cons g0 k g1 o v rest, after =>
    Blank g0 ∧ Blank g1 ∧ k.Valid ∧ (k.quoted = false → StartsBoundary (g1 ++ o.text)) ∧
    ValidV v (renderF rest ++ after) ∧ ValidF rest after
end

mutual
/-- number of tape tokens. -/
def cntV : LVal → Nat
  | .scal _ _ => 1
  | .obj _ _ _ _ o v rest _ => 2 + (1 + o.toks.length + cntV v) + cntF rest
def cntF : LFields → Nat
  | .nil => 0
  | .cons _ _ _ o v rest => (1 + o.toks.length + cntV v) + cntF rest
end

mutual
/-- the expected tape of a value whose first token gets index `base` and which is followed by
`after` in the input. -/
def tapeV : LVal → Nat → Bytes → List Tok
  | .scal _ s, _, after => [s.tok after]
  | .obj _ _ k g1 o v rest gc, base, after =>
    let tail := renderF rest ++ (gc ++ 125 :: after)
    [.object (base + 1 + (1 + o.toks.length + cntV v) + cntF rest) false] ++
      ([k.tok (g1 ++ (o.text ++ (renderV v ++ tail)))] ++ o.toks ++
        tapeV v (base + 1 + 1 + o.toks.length) tail ++
        tapeF rest (base + 1 + (1 + o.toks.length + cntV v)) (gc ++ 125 :: after)) ++
      [.endTok base]
def tapeF : LFields → Nat → Bytes → List Tok
  | .nil, _, _ => []
  | .cons _ k g1 o v rest, base, after =>
    [k.tok (g1 ++ (o.text ++ (renderV v ++ (renderF rest ++ after))))] ++ o.toks ++
      tapeV v (base + 1 + o.toks.length) (renderF rest ++ after) ++
      tapeF rest (base + (1 + o.toks.length + cntV v)) after
end

mutual
/-- main-loop iterations the value takes. -/
def stepsV : LVal → Nat
  | .scal _ _ => 1
  | .obj _ _ _ _ _ v rest _ => 3 + stepsV v + stepsF rest + 1
def stepsF : LFields → Nat
  | .nil => 0
  | .cons _ _ _ _ v rest => 2 + stepsV v + stepsF rest
end

mutual
/-- the layout-free content: keys, operators, scalars, object boundaries. -/
inductive CVal
  | scal (s : Scal)
  | obj (fs : CFields)
inductive CFields
  | nil
  | cons (key : Scal) (op : Op) (v : CVal) (rest : CFields)
end

mutual
def contentV : LVal → CVal
  | .scal _ s => .scal s
  | .obj _ _ k _ o v rest _ => .obj (.cons k o (contentV v) (contentFs rest))
def contentFs : LFields → CFields
  | .nil => .nil
  | .cons _ k _ o v rest => .cons k o (contentV v) (contentFs rest)
end

mutual
/-- the position-free tape of a content tree whose first token gets index `base`. -/
def ctapeV : CVal → Nat → List Tok
  | .scal s, _ => [(s.tok []).erase]
  | .obj fs, base => [.object (base + 1 + ccntF fs) false] ++ ctapeF fs (base + 1) ++ [.endTok base]
def ctapeF : CFields → Nat → List Tok
  | .nil, _ => []
  | .cons k o v rest, base =>
    [(k.tok []).erase] ++ o.toks ++ ctapeV v (base + 1 + o.toks.length) ++
      ctapeF rest (base + (1 + o.toks.length + ccntV v))
def ccntV : CVal → Nat
  | .scal _ => 1
  | .obj fs => 2 + ccntF fs
def ccntF : CFields → Nat
  | .nil => 0
  | .cons _ o v rest => (1 + o.toks.length + ccntV v) + ccntF rest
end

end Jomini.TextTape
