import JominiModel.Model.TextTape
/-
Reference notions the C01 / C06 (text) / C19 (text tape) theorems talk about.  Core Lean only.
-/
namespace Jomini.TextTape

/-- Layout filler: any mixture of blank bytes (measured `wsTape`: space, tab, LF, CR, ';') and
complete comments `# … \n`. -/
inductive Blank : Bytes → Prop
  | nil : Blank []
  | ws (c : UInt8) (w : Bytes) : isBlank c = true → Blank w → Blank (c :: w)
  | comment (body w : Bytes) : (∀ c ∈ body, c ≠ 10) → Blank w → Blank (35 :: (body ++ 10 :: w))

/-- the scalars of a tape, in tape order. -/
def slices (toks : List Tok) : List Slice := toks.filterMap Tok.slice?

/-- `toks[i]` is a container start whose `end` field is `e`. -/
def IsStart (toks : List Tok) (i e : Nat) : Prop :=
  ∃ m, toks[i]? = some (.array e m) ∨ toks[i]? = some (.object e m)

/-- C06, text half: what "structurally sound" means for a text tape over `input`. -/
structure WfTextTape (input : Bytes) (toks : List Tok) : Prop where
  /-- every container start indexes a later `End` token that indexes it back -/
  start_link : ∀ i e, IsStart toks i e → i < e ∧ toks[e]? = some (.endTok i)
  /-- every `End` indexes an earlier container start (never index 0) that indexes it back -/
  end_link : ∀ i j, toks[i]? = some (.endTok j) → 0 < j ∧ j < i ∧ IsStart toks j i
  /-- containers are properly nested: two container intervals never cross -/
  nested : ∀ i e i' e', IsStart toks i e → IsStart toks i' e' → i < i' → i' < e → e' < e
  /-- every scalar is the sub-slice of the input at its offset -/
  scalars_inside : ∀ s ∈ slices toks, s.tail ≤ input.length ∧ s.bytes.length ≤ s.tail ∧
      s.bytes = (input.drop (s.off input.length)).take s.bytes.length
  /-- every scalar starts strictly after the previous scalar's start -/
  scalars_increasing : (slices toks).Pairwise (fun s t => s.off input.length < t.off input.length)

end Jomini.TextTape
