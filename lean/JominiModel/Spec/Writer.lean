import JominiModel.Model.Writer
/-
Reference definitions the C14 / C15 theorems talk about (core Lean only).
-/
namespace Jomini.Writer.Spec
open Jomini Jomini.Writer

/-- Reference scanner for the inside of a quoted scalar (the input just after the opening
quote): a backslash takes the next byte with it, an unescaped `"` ends the scalar.
Returns (content between the quotes, rest after the closing quote); `none` = ran off the
end.  This is the reading of text/tape.rs `parse_quote_scalar_fallback`.  `escaped` = the
previous byte was an escaping backslash. -/
def scanQuotedAux : Bytes → Bool → Option (Bytes × Bytes)
  | [], _ => none
  | x :: xs, true =>
    match scanQuotedAux xs false with
    | some (s, r) => some (x :: s, r)
    | none => none
  | x :: xs, false =>
    if x = 92 then
      match scanQuotedAux xs true with
      | some (s, r) => some (x :: s, r)
      | none => none
    else if x = 34 then some ([], xs)
    else
      match scanQuotedAux xs false with
      | some (s, r) => some (x :: s, r)
      | none => none

def scanQuoted (d : Bytes) : Option (Bytes × Bytes) := scanQuotedAux d false

/-- a quoted scalar including its opening quote -/
def scanQuotedScalar : Bytes → Option (Bytes × Bytes)
  | 34 :: rest => scanQuoted rest
  | _ => none

/-- delete the backslash of every backslash escape (the byte after it is kept verbatim; a
lone backslash at the very end is kept) -/
def unescapeAux : Bytes → Bool → Bytes
  | [], escaped => if escaped then [92] else []
  | x :: xs, true => x :: unescapeAux xs false
  | x :: xs, false => if x = 92 then unescapeAux xs true else x :: unescapeAux xs false

def unescape (d : Bytes) : Bytes := unescapeAux d false

/-- the documented quirk of `write_quoted`: exactly one trailing `\n` is dropped -/
def dropOneTrailingNewline (x : Bytes) : Bytes :=
  match x.getLast? with
  | some last => if last = 10 then x.dropLast else x
  | none => x

/-- what `escape` is meant to compute: every `\` and `"` of the payload (minus one trailing
newline) gets a backslash in front, every other byte is copied -/
def escapeSpec (x : Bytes) : Bytes := escapeEach (dropOneTrailingNewline x)

/-! ### the call history -/

/-- a call with its payload forgotten -/
inductive Kind where
  | start | objectStart | arrayStart | «end» | mixedMode | value | header
  | operator | rgb
  deriving DecidableEq, Repr

def binKind : BinTok → Kind
  | .array => .arrayStart
  | .object => .objectStart
  | .mixedContainer => .mixedMode
  | .equal => .operator
  | .end => .end
  | .rgb _ => .rgb
  | _ => .value

def kind : Call → Kind
  | .start => .start
  | .objectStart => .objectStart
  | .arrayStart => .arrayStart
  | .end => .end
  | .mixedMode => .mixedMode
  | .header _ => .header
  | .operator _ => .operator
  | .rgb _ => .rgb
  | .binary t => binKind t
  | _ => .value

/-- number of starts not yet matched by an end, counted on the history alone: a start adds
one, an end removes one when there is one (otherwise it is the call that fails), everything
else (including the self-contained `write_rgb`) leaves it alone -/
def unmatchedStarts : List Kind → Nat → Nat
  | [], d => d
  | .start :: ks, d | .objectStart :: ks, d | .arrayStart :: ks, d => unmatchedStarts ks (d + 1)
  | .end :: ks, d => unmatchedStarts ks (d - 1)
  | _ :: ks, d => unmatchedStarts ks d

/-- the machine part of the writer state: everything except the bytes written and the
indent configuration -/
structure Core where
  mode : DepthMode
  depth : List DepthMode
  state : WriteState
  needsLineTerminator : Bool
  mixedMode : MixedMode
  deriving DecidableEq, Repr

def core (s : State) : Core :=
  { mode := s.mode, depth := s.depth, state := s.state,
    needsLineTerminator := s.needsLineTerminator, mixedMode := s.mixedMode }

/-- what a caller can observe, as a function of the machine part -/
def Core.obs (k : Core) : Obs :=
  { depth := k.depth.length,
    expectingKey := (match k.state with | .key | .firstKey => true | _ => false),
    atArrayValue := (match k.state with | .arrayValue => true | _ => false),
    atUnknownStart := (match k.state with | .firstUnknown => true | _ => false) }

/-! #### the reference automaton over call kinds

What each kind of call does to the machine part, stated without any reference to the bytes
written, the indent configuration or the payload. -/

/-- before anything is written: a pending line terminator is consumed; in a list position
directly after a `key=` of a mixed container the pending "keyed" mark is consumed instead
of writing a separator -/
def Core.preamble (k : Core) : Core :=
  { k with
    needsLineTerminator := false,
    mixedMode :=
      if (k.state = .arrayValue ∨ k.state = .secondUnknown) ∧ k.needsLineTerminator = false ∧ k.mixedMode = .keyed
      then .started else k.mixedMode }

/-- a value has been written: advance through the transition table -/
def Core.epilogue (k : Core) : Except WErr Core :=
  match k.state.next with
  | none => .error .panic
  | some st => .ok { k with state := st, needsLineTerminator := decide (st = .key) }

def Core.value (k : Core) : Except WErr Core := k.preamble.epilogue

def Core.open (k : Core) (mode : DepthMode) (st : WriteState) : Core :=
  { k.preamble with depth := k.mode :: k.depth, needsLineTerminator := true, mode := mode, state := st }

def Core.close (k : Core) : Except WErr Core :=
  match k.depth with
  | [] => .error .stackEmpty
  | m :: rest =>
    .ok { mode := m, depth := rest, state := (match m with | .object => .key | .array => .arrayValue),
          needsLineTerminator := true, mixedMode := .disabled }

def Core.operator (k : Core) : Core :=
  if k.mixedMode = .disabled then { k with mode := .object, state := .objectValue }
  else { k with mixedMode := .keyed }

def Core.header (k : Core) : Core := { k.preamble with state := .objectValue }

def Core.mixed (k : Core) : Core := { k with mode := .array, mixedMode := .started }

/-- `write_rgb`: header, array start, three values, end (a fourth value for the alpha channel
does not change the outcome, see `Proofs/Writer.lean`) -/
def Core.rgb (k : Core) : Except WErr Core :=
  match (k.header.open .array .arrayValueFirst).value with
  | .error e => .error e
  | .ok k =>
  match k.value with
  | .error e => .error e
  | .ok k =>
  match k.value with
  | .error e => .error e
  | .ok k => k.close

def coreStep (k : Core) : Kind → Except WErr Core
  | .start => .ok (k.open .array .firstUnknown)
  | .objectStart => .ok (k.open .object .firstKey)
  | .arrayStart => .ok (k.open .array .arrayValueFirst)
  | .end => k.close
  | .mixedMode => .ok k.mixed
  | .value => k.value
  | .header => .ok k.header
  | .operator => .ok k.operator
  | .rgb => k.rgb

/-- the observations the reference automaton predicts for a call history (a failed call
leaves the machine as it was) -/
def refRun : List Kind → Core → List (Except WErr Obs)
  | [], _ => []
  | kd :: ks, k =>
    match coreStep k kd with
    | .ok k' => .ok k'.obs :: refRun ks k'
    | .error e => .error e :: refRun ks k

/-- the machine part of a fresh writer -/
def Core.init : Core :=
  { mode := .object, depth := [], state := .key, needsLineTerminator := false, mixedMode := .disabled }

/-- the decimal value read back with an optional leading `-` (what `to_i64` computes on
`-?digits`) -/
def signedDecVal : Bytes → Int
  | 45 :: d => - (decVal d : Int)
  | d => (decVal d : Int)

/-! ### flat documents (the proved instance of C15_lexemes) -/

/-- root-level `key value` pairs written with `write_unquoted`, the `=` left implicit -/
def flatCalls : List (Bytes × Bytes) → List Call
  | [] => []
  | (k, v) :: r => .unquoted k :: .unquoted v :: flatCalls r

/-- the text such a document must be: `k=v` lines, every line but the first preceded by `\n` -/
def flatLines : List (Bytes × Bytes) → Bool → Bytes
  | [], _ => []
  | (k, v) :: r, first => (if first then [] else [10]) ++ k ++ [61] ++ v ++ flatLines r false

/-! ### tapes with positions -/

/-- a tape token as the parser produces it: the token plus where its scalar sits in the
parsed input (`offset`, `len`; meaningless for structural tokens) -/
structure PTok where
  tok : Tok
  offset : Nat
  len : Nat
  deriving DecidableEq, Repr

/-- forget the positions -/
def erasePos (t : List PTok) : List Tok := t.map (·.tok)

/-- `write_tape` on a positioned tape: only the tokens are looked at -/
def writeTapeP (t : List PTok) (s : State) : Except WErr State := writeTape (erasePos t) s

end Jomini.Writer.Spec
