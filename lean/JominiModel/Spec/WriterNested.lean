import JominiModel.Spec.WriterFlat
/-
Reference definitions for nested-object documents (C15 growth): fields whose values are scalars
or non-empty objects, to any depth.  Core Lean only.
-/
namespace Jomini.Writer.Spec
open Jomini Jomini.Writer
open Jomini.TextTape (Scal)

mutual
/-- a value: a scalar call, or a non-empty object (first field + further fields) -/
inductive NVal where
  | scal (c : SCall)
  | obj (key : SCall) (op : Option Writer.Op) (v : NVal) (rest : NFields)
/-- `key [operator] value` fields -/
inductive NFields where
  | nil
  | cons (key : SCall) (op : Option Writer.Op) (v : NVal) (rest : NFields)
end

def opCalls : Option Writer.Op → List Call
  | none => []
  | some o => [.operator o]

/-- the operator a field denotes (`none` = implicit `=`) -/
def opOf : Option Writer.Op → TextTape.Op
  | none => .eq
  | some o => opTT o

mutual
/-- the calls that write a value: objects through `write_object_start … write_end` -/
def ncallsV : NVal → List Call
  | .scal c => [c.call]
  | .obj k o v r => [.objectStart] ++ (k.call :: (opCalls o ++ (ncallsV v ++ ncallsF r))) ++ [.end]
def ncallsF : NFields → List Call
  | .nil => []
  | .cons k o v r => k.call :: (opCalls o ++ (ncallsV v ++ ncallsF r))
end

/-- `depth × factor` copies of the indent byte -/
def ind (c : UInt8) (f d : Nat) : Bytes := List.replicate (d * f) c

mutual
/-- the text of a value written at nesting depth `d` -/
def textV (c : UInt8) (f : Nat) : Nat → NVal → Bytes
  | _, .scal s => s.scal.text
  | d, .obj k o v r =>
    [123] ++ ([10] ++ ind c f (d + 1) ++ k.scal.text ++ sepText (opOf o) ++ textV c f (d + 1) v ++
      textF c f (d + 1) r) ++ [10] ++ ind c f d ++ [125]
/-- fields at depth `d`: each on its own line, indented -/
def textF (c : UInt8) (f : Nat) : Nat → NFields → Bytes
  | _, .nil => []
  | d, .cons k o v r =>
    [10] ++ ind c f d ++ k.scal.text ++ sepText (opOf o) ++ textV c f d v ++ textF c f d r
end

/-- a whole document: root fields at depth 0, no newline before the first -/
def textRoot (c : UInt8) (f : Nat) (fs : NFields) : Bytes := (textF c f 0 fs).drop 1

mutual
/-- the tokens a value must parse to, positions of scalars erased, `b` = index of its first token -/
def etoksV : Nat → NVal → List TextTape.Tok
  | _, .scal s => [(s.scal.tok []).erase]
  | b, .obj k o v r =>
    [TextTape.Tok.object (b + 1 + (etoksF (b + 1) (.cons k o v r)).length) false] ++ etoksF (b + 1) (.cons k o v r) ++
      [TextTape.Tok.endTok b]
def etoksF : Nat → NFields → List TextTape.Tok
  | _, .nil => []
  | b, .cons k o v r =>
    ((k.scal.tok []).erase :: (opOf o).toks) ++
      (etoksV (b + (1 + (opOf o).toks.length)) v ++
        etoksF (b + (1 + (opOf o).toks.length) + (etoksV (b + (1 + (opOf o).toks.length)) v).length) r)
end

mutual
/-- every scalar of the document is a scalar of the text format -/
def ValidV : NVal → Prop
  | .scal s => s.scal.Valid
  | .obj k _ v r => k.scal.Valid ∧ ValidV v ∧ ValidF r
def ValidF : NFields → Prop
  | .nil => True
  | .cons k _ v r => k.scal.Valid ∧ ValidV v ∧ ValidF r
end


mutual
/-- no explicit `=` operator call: the canonical form a tape gives rise to (a tape has no token for `=`) -/
def CanonV : NVal → Prop
  | .scal _ => True
  | .obj _ o v r => o ≠ some .eq ∧ CanonV v ∧ CanonF r
def CanonF : NFields → Prop
  | .nil => True
  | .cons _ o v r => o ≠ some .eq ∧ CanonV v ∧ CanonF r
end


/-! #### the content of a nested-object document in the text-tape slice's terms -/

mutual
def kOfV : NVal → TextTape.KVal
  | .scal c => .scal c.scal
  | .obj k o v r => .obj (.cons k.scal (opOf o) (kOfV v) (kOfF r))
def kOfF : NFields → TextTape.KFields
  | .nil => .nil
  | .cons k o v r => .cons k.scal (opOf o) (kOfV v) (kOfF r)
end


end Jomini.Writer.Spec
