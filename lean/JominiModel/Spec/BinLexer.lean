import JominiModel.Model.BinLexer
/-
Reference notions the binary-lexer properties talk about.
-/
namespace Jomini.BinLexer
open Jomini

/-- Tokens the codec round trip is claimed for.  The payload ranges are what the Rust types
already enforce (`u32`, `i64`, `[u8; 4]`, …); the two real exclusions are
* `Id x` where `x` is one of the 13 reserved lexeme ids (it re-lexes as that lexeme), and
* strings longer than 65535 bytes (`len as u16` wraps).
Both are demonstrated on the compiled code by the harness (`write:excluded-differs`). -/
def WfTok : Token → Prop
  | .u32 v => v < 2 ^ 32
  | .u64 v => v < 2 ^ 64
  | .i32 v => -(2 ^ 31 : Int) ≤ v ∧ v < (2 ^ 31 : Int)
  | .i64 v => -(2 ^ 63 : Int) ≤ v ∧ v < (2 ^ 63 : Int)
  | .quoted s => s.length ≤ 65535
  | .unquoted s => s.length ≤ 65535
  | .f32 b => b.length = 4
  | .f64 b => b.length = 8
  | .rgb c => c.r < 2 ^ 32 ∧ c.g < 2 ^ 32 ∧ c.b < 2 ^ 32 ∧
      (match c.a with | some a => a < 2 ^ 32 | none => True)
  | .id x => x < 65536 ∧ isId x = true
  | _ => True

instance (t : Token) : Decidable (WfTok t) := by
  cases t <;> simp only [WfTok] <;> try infer_instance
  rename_i c
  cases c.a <;> infer_instance

/-- token boundaries of an input: the offsets at which `next_token` is called when the
input is lexed from the start (0, and the end of every token). -/
def boundariesLoop : Nat → Bytes → Nat → List Nat
  | 0, _, at_ => [at_]
  | fuel + 1, d, at_ =>
    match readToken d with
    | .ok (_, rest) => at_ :: boundariesLoop fuel rest (at_ + (d.length - rest.length))
    | .error _ => [at_]

def boundaries (d : Bytes) : List Nat := boundariesLoop (d.length / 2 + 1) d 0

end Jomini.BinLexer
