import JominiModel.Model.BinTape
/-
Reference definitions for C03 "the tape mirrors the lexeme stream", with no document type:
the flat lexeme list of a byte string (`Lexes`, one lexeme after the other, exactly the slice
readers of lexer.rs) and the flattening of a tape back into lexemes (`flat`).  Core Lean only.
-/
namespace Jomini.BinTape
open Jomini

/-- a lexeme of the binary stream: `{`, `}`, `=`, or a scalar / id with its decoded payload
(the rgb marker 0x0243 is the plain id it is on the wire) -/
inductive Lx where
  | open_ | close | equal
  | tok (t : BTok)
  deriving DecidableEq, Repr

/-- read one lexeme from the front (lexer.rs `read_id` + the payload reader of its type).
NB: this reuses the model's own slice readers and decoders — `readId`, `split?`, `readBool`, `readString`,
`leNat`, `toSigned` of `Model/BinTape.lean` — so the lexeme list is *defined* through the same
byte→lexeme decoding the parser model uses.  That decoding itself (ids, payload widths, little-endian /
two's-complement values, length-prefixed strings) is tied to the code by C08's codec theorems and
correspondence (Model/BinLexer, `lex` ops), not by C03; C03 is about what the tape does with the lexemes. -/
def lexOne (d : Bytes) : Option (Lx × Bytes) :=
  match readId d with
  | none => none
  | some (id, r) =>
    if id = L.open_ then some (.open_, r)
    else if id = L.close then some (.close, r)
    else if id = L.equal then some (.equal, r)
    else if id = L.u32 then (split? 4 r).map fun p => (.tok (.u32 (leNat p.1)), p.2)
    else if id = L.u64 then (split? 8 r).map fun p => (.tok (.u64 (leNat p.1)), p.2)
    else if id = L.i32 then (split? 4 r).map fun p => (.tok (.i32 (toSigned 32 (leNat p.1))), p.2)
    else if id = L.i64 then (split? 8 r).map fun p => (.tok (.i64 (toSigned 64 (leNat p.1))), p.2)
    else if id = L.f32 then (split? 4 r).map fun p => (.tok (.f32 p.1), p.2)
    else if id = L.f64 then (split? 8 r).map fun p => (.tok (.f64 p.1), p.2)
    else if id = L.bool then (readBool r).map fun p => (.tok (.bool p.1), p.2)
    else if id = L.quoted then (readString r).map fun p => (.tok (.quoted p.1), p.2)
    else if id = L.unquoted then (readString r).map fun p => (.tok (.unquoted p.1), p.2)
    else some (.tok (.token id), r)

/-- `Lexes d L`: `L` is the lexeme list of `d` — lexemes are read one after the other until fewer
than two bytes are left or a payload is cut short -/
inductive Lexes : Bytes → List Lx → Prop
  | done {d : Bytes} : lexOne d = none → Lexes d []
  | cons {d r : Bytes} {x : Lx} {xs : List Lx} : lexOne d = some (x, r) → Lexes r xs → Lexes d (x :: xs)

/-- the lexemes a tape token stands for: container starts are `{`, `End` is `}`, the
`MixedContainer` marker stands for nothing, an `Rgb` token for its whole block, every other
token for itself.  End pointers are dropped. -/
def flatten : BTok → List Lx
  | .array _ => [.open_]
  | .object _ => [.open_]
  | .end_ _ => [.close]
  | .mixed => []
  | .equal => [.equal]
  | .rgb r g b none => [.tok (.token L.rgb), .open_, .tok (.u32 r), .tok (.u32 g), .tok (.u32 b), .close]
  | .rgb r g b (some a) => [.tok (.token L.rgb), .open_, .tok (.u32 r), .tok (.u32 g), .tok (.u32 b), .tok (.u32 a), .close]
  | t => [.tok t]

def flat (T : Tape) : List Lx := T.flatMap flatten


/-- why an input lexeme is not on the tape (tags of the WEAK accounting `C03_dropped_lexemes_partial`; they carry
no context — the contextual statement is `Move` / `Moves` below) -/
inductive DropKind where
  /-- the `=` after a key (`KeyValueSeparator`/`OpenSecond`, or the `=` that triggers the only_empties rewrite) -/
  | eqAfterKey
  /-- a ghost `{}` in key position -/
  | ghost
  /-- one of the empty `{}` containers discarded by the only_empties rewrite (tape.rs:600-616) -/
  | emptyRun
  /-- the odd trailing token `chunks_exact(2)` overlooks in that rewrite -/
  | oddToken
  deriving DecidableEq, Repr

/-- what each kind of dropped lexeme can be -/
def DropOk (p : Lx × DropKind) : Prop :=
  match p.2 with
  | .eqAfterKey => p.1 = .equal
  | .ghost => p.1 = .open_ ∨ p.1 = .close
  | .emptyRun => p.1 = .open_ ∨ p.1 = .close
  | .oddToken => True

/-- `InterT A D C`: `C` is an interleaving of the kept lexemes `A` and the dropped (tagged) lexemes `D`,
both in their original order -/
inductive InterT : List Lx → List (Lx × DropKind) → List Lx → Prop
  | nil : InterT [] [] []
  | left (x : Lx) {A : List Lx} {D : List (Lx × DropKind)} {C : List Lx} : InterT A D C → InterT (x :: A) D (x :: C)
  | right (p : Lx × DropKind) {A : List Lx} {D : List (Lx × DropKind)} {C : List Lx} : InterT A D C → InterT A (p :: D) (p.1 :: C)

end Jomini.BinTape

namespace Jomini.BinTape

/-- a token that can stand in value position: plain, and neither the `MixedContainer` marker nor an `Equal`
(the parser pushes those only behind a marker / in key position) -/
def BTok.isVal (t : BTok) : Bool := t.isPlain && (t != .mixed) && (t != .equal)

/-- a token that can stand in key position: a scalar or id — plain, not the marker, not `Equal`, not an `Rgb`
(an rgb block is recognised in value position only) -/
def BTok.isKey (t : BTok) : Bool :=
  t.isVal && (match t with | .rgb _ _ _ _ => false | _ => true)

/-- `n` empty containers, as lexemes -/
def pairsLex : Nat → List Lx
  | 0 => []
  | n + 1 => .open_ :: .close :: pairsLex n

/-- **One iteration of the loop, seen on the lexeme content of the tape.**  `Move p A L1 B o q`: the tape's
lexeme content goes from `A` to `B` while the lexemes `L1` are read; `o` is `some odd` exactly for the
only_empties rewrite (tape.rs:600-616), `odd` being what `chunks_exact(2)` overlooks.  The flags say whether
**a value is owed** (an `=` has just been dropped, `ObjectValue`): `p` before the move, `q` after it.  There
are four moves and no other:
* `keep`: everything read (at least one lexeme) is appended — a key, a value, `{`, `}`, an `=` in a mixed
  container, an rgb block; this is the ONLY move possible while a value is owed, so the lexeme that follows a
  dropped `=` is always recorded (in particular an empty container in value position is never dropped);
* `eqAfterKey`: an `=` is read and not recorded; no value is owed, and the last lexeme on the tape is a key
  token `k` (a scalar or id: not `{`, `}`, `=`, not an rgb block); afterwards a value is owed;
* `ghost`: an adjacent `{ }` pair is read and not recorded; no value is owed (tape.rs:549, state `Key`);
* `rewrite`: an `=` is read and not recorded; no value is owed; the tape ends with the `{` of a container, then
  `n ≥ 1` empty containers, then at most one more tape token (`odd`: a scalar, an id or an rgb block —
  `isVal`; never `{`, `}` or `=`), then the key token `last`; the empty containers and `odd` are removed
  (the container becomes an object with key `last`); afterwards a value is owed.

What the relation does NOT express (it is an **upper bound on what may be dropped** in these respects, because
the lexeme content of the tape does not show them): whether the innermost open container is an object or an
array, and where a `MixedContainer` marker stands (`flatten .mixed = []`).  So `eqAfterKey` and `ghost` are
allowed behind any key token / at any point where no value is owed, although the parser performs them only in
`KeyValueSeparator` / `OpenSecond`, respectively `Key`, i.e. in key position of an object or of the root.
The structural side of these facts is `C06_bin_object_pairs`. -/
inductive Move : Bool → List Lx → List Lx → List Lx → Option (List Lx) → Bool → Prop
  | keep (p : Bool) (A L1 : List Lx) : L1 ≠ [] → Move p A L1 (A ++ L1) none false
  | eqAfterKey (A : List Lx) (k : BTok) : k.isKey = true →
      Move false (A ++ [.tok k]) [.equal] (A ++ [.tok k]) none true
  | ghost (A : List Lx) : Move false A [.open_, .close] A none false
  | rewrite (A : List Lx) (n : Nat) (odd : List Lx) (last : BTok) : 1 ≤ n → last.isKey = true →
      (odd = [] ∨ ∃ y : BTok, odd = flatten y ∧ y.isVal = true) →
      Move false (A ++ [.open_] ++ pairsLex n ++ odd ++ flatten last) [.equal] (A ++ [.open_] ++ flatten last)
        (some odd) true

/-- a run of moves: from content `A` (value owed: `p`), reading `L`, to content `C`; `odds` lists the `odd`
chunk of every rewrite move, in order (its length is the number of rewritten containers) -/
inductive Moves : Bool → List Lx → List Lx → List Lx → List (List Lx) → Prop
  | nil (p : Bool) (A : List Lx) : Moves p A [] A []
  | step {p q : Bool} {A B C L1 L2 : List Lx} {o : Option (List Lx)} {odds : List (List Lx)} :
      Move p A L1 B o q → Moves q B L2 C odds → Moves p A (L1 ++ L2) C (o.toList ++ odds)

/-- scalar / id lexemes (everything but `{`, `}`, `=`) -/
def Lx.isTok : Lx → Bool
  | .tok _ => true
  | _ => false

end Jomini.BinTape
