import JominiModel.Spec.WriterGen
import JominiModel.Spec.TextDocFull
/-
C14 over the text-tape slice's FULL document type (`FFields`, Spec/TextDocFull.lean): which documents
`write_tape` preserves.  `FPlainF` is everything in `FFields` except the recorded findings, the shape
the property's quantifier leaves out, and three shapes found while proving the theorem (reported with
witnesses on the real code).
-/
namespace Jomini.Writer.Spec
open Jomini Jomini.Writer
open Jomini.TextTape (FVal FFirst FFields FVals FItems Scal)

/-- a braced value: writing it ends with a `write_end`, which switches a stale mixed mode off -/
def closesV : FVal → Bool
  | .scal .. => false
  | .ghostIn _ _ _ v => closesV v
  | _ => true

/-- the content of the value is the empty container (`{}`, also behind ghost objects: `{ {} }`) -/
def emptyC : FVal → Bool
  | .empty .. => true
  | .ghostIn _ _ _ v => emptyC v
  | _ => false

mutual
/-- some value of the field list is braced (a `write_end` happens while the fields are written) -/
def closesF : FFields → Bool
  | .nil => false
  | .cons _ _ _ _ v rest => closesV v || closesF rest
  | .consImp _ _ v rest => closesV v || closesF rest
  | .ghost _ _ rest => closesF rest
  | .consHdr _ _ _ _ _ _ body rest => closesV body || closesF rest
  | .paramVal _ _ _ _ _ _ rest => closesF rest
  | .paramObj _ _ _ _ _ _ _ v inner _ rest => closesV v || (closesF inner || closesF rest)
  | .paramHdr _ _ _ _ _ _ body rest => closesV body || closesF rest
end

def closesVs : FVals → Bool
  | .nil => false
  | .cons v rest => closesV v || closesVs rest

def closesFirst : FFirst → Bool
  | .kv _ _ _ v => closesV v
  | .flds f => closesF f

/-- the last thing the field list writes is a scalar-valued parameter block (possibly inside
object-valued ones): the machine is left waiting for `=` (known finding `roundtrip-param-scalar`,
harmless only when a `}` — or the end of the document — follows) -/
def openEnd : FFields → Bool
  | .nil => false
  | .cons _ _ _ _ _ rest => openEnd rest
  | .consImp _ _ _ rest => openEnd rest
  | .ghost _ _ rest => openEnd rest
  | .consHdr _ _ _ _ _ _ _ rest => openEnd rest
  | .paramVal _ _ _ _ _ _ rest => if TextTape.fcntF rest = 0 then true else openEnd rest
  | .paramObj _ _ _ _ _ _ _ _ inner _ rest => if TextTape.fcntF rest = 0 then openEnd inner else openEnd rest
  | .paramHdr _ _ _ _ _ _ _ rest => openEnd rest

def openEndFirst : FFirst → Bool
  | .kv .. => false
  | .flds f => openEnd f

/-- in mixed mode two adjacent operator tokens are written glued: `= =` becomes `==`, `< =` becomes
`<=` (reported) -/
def gluesOp (o : TextTape.Op) : FItems → Prop
  | .op _ o2 _ => o.text.length = 1 ∧ o2.text.head? = some 61
  | _ => False

/-- the bare scalar `?` followed by `=` / `==` directly behind the first element of the array:
written glued, `{ 1 ?=b }` reads back as the object `1 ?= b` (reported) -/
def bareQuestion (pre : FVals) (m0 : Scal) (o : TextTape.Op) : Prop :=
  pre = .nil ∧ m0.text = [63] ∧ o.text.head? = some 61

mutual
/-- what `write_tape` preserves.  `w` = a mixed mode that was switched on by a `MixedContainer`
token of an enclosing container is still on (it stays on until the next `write_end`): then a
non-`=` operator of an object field is written on the mixed branch (known finding
`roundtrip-mixed-nested-operator`). -/
def FPlainV (w : Bool) : FVal → Prop
  | .scal .. => True
  | .empty .. => True
  | .obj _ _ first rest _ =>
    FPlainFirst w first ∧ FPlainF (w && !closesFirst first) rest ∧
      (openEndFirst first = true → TextTape.fcntF rest = 0)
  | .arrS _ _ _ rest _ => FPlainVs w rest
  /- first element with empty content: known finding `roundtrip-empty-first-element` -/
  | .arrC _ first rest _ => emptyC first = false ∧ FPlainV w first ∧ FPlainVs (w && !closesV first) rest
  | .ghostIn _ _ _ v => FPlainV w v
  /- an object that continues as a bare value list: outside the property's quantifier (the writer
  documents it as not preserved) -/
  | .mixed .. => False
  | .arrSM _ _ _ pre _ m0 _ o items _ =>
    FPlainVs w pre ∧ ¬ bareQuestion pre m0 o ∧ ¬ gluesOp o items ∧ FPlainI .keyed items
  | .arrCM _ first pre _ _ _ o items _ =>
    emptyC first = false ∧ FPlainV w first ∧ FPlainVs (w && !closesV first) pre ∧ ¬ gluesOp o items ∧ FPlainI .keyed items
def FPlainFirst (w : Bool) : FFirst → Prop
  | .kv _ _ o v => (w = true → o = .eq) ∧ FPlainV w v
  /- (`fcntF f ≠ 0` holds for every valid layout: there `f` starts with a header field or a parameter block) -/
  | .flds f => TextTape.fcntF f ≠ 0 ∧ FPlainF w f
def FPlainF (w : Bool) : FFields → Prop
  | .nil => True
  | .cons _ _ _ o v rest => (w = true → o = .eq) ∧ FPlainV w v ∧ FPlainF (w && !closesV v) rest
  | .consImp _ _ v rest => FPlainV w v ∧ FPlainF (w && !closesV v) rest
  | .ghost _ _ rest => FPlainF w rest
  /- header with an empty body: known finding `roundtrip-header-empty-body` -/
  | .consHdr _ _ _ o _ _ body rest => (w = true → o = .eq) ∧ emptyC body = false ∧ FPlainV w body ∧ FPlainF (w && !closesV body) rest
  /- scalar-valued parameter block followed by another field: known finding `roundtrip-param-scalar` -/
  | .paramVal _ _ _ _ _ _ rest => TextTape.fcntF rest = 0
  | .paramObj _ _ _ _ _ _ o v inner _ rest =>
    (w = true → o = .eq) ∧ FPlainV w v ∧ FPlainF (w && !closesV v) inner ∧
      (openEnd inner = true → TextTape.fcntF rest = 0) ∧ FPlainF (w && !(closesV v || closesF inner)) rest
  /- `[[p] v ] { … }`: written as `[[p] v { … }]`, which reads back as an object-valued parameter
  block (reported) -/
  | .paramHdr .. => False
def FPlainVs (w : Bool) : FVals → Prop
  | .nil => True
  | .cons v rest => FPlainV w v ∧ FPlainVs (w && !closesV v) rest
/-- the array part behind the first operator; `mm` = the writer's mixed mode in front of the item -/
def FPlainI (mm : MixedMode) : FItems → Prop
  | .nil => True
  | .scal _ _ rest => FPlainI (if mm = .keyed then .started else mm) rest
  | .op _ o rest => (mm ≠ .disabled → ¬ gluesOp o rest) ∧ FPlainI (if mm = .disabled then .disabled else .keyed) rest
  | .cont v rest => FPlainV (decide (mm ≠ .disabled)) v ∧
    FPlainI (if closesV v then .disabled else if mm = .keyed then .started else mm) rest
end

/-! #### C15: the call list that writes a document -/

/-- the operator call of an object field (`=` is left implicit) -/
def opCallsT (o : TextTape.Op) : List Call := if o = .eq then [] else [.operator (opW o)]

mutual
/-- the public calls that write the document: `write_object_start` / `write_array_start`, scalars through
`write_unquoted` of their text as it stands on disk (every scalar call — quoted, typed — acts like that,
`step_scall`), `write_header`, `start_mixed_mode` where the `MixedContainer` token stands, `write_operator`
for every operator token, `write_end`.  Parameter blocks have no calls (`write_tape` writes them raw). -/
def dcallsV : FVal → List Call
  | .scal _ x => [.unquoted x.text]
  | .empty _ _ => [.arrayStart, .end]
  | .obj _ _ first rest _ => .objectStart :: (dcallsFirst first ++ (dcallsF rest ++ [.end]))
  | .arrS _ _ s0 rest _ => .arrayStart :: (.unquoted s0.text :: (dcallsVs rest ++ [.end]))
  | .arrC _ first rest _ => .arrayStart :: (dcallsV first ++ (dcallsVs rest ++ [.end]))
  | .ghostIn _ _ _ v => dcallsV v
  | .mixed .. => []
  | .arrSM _ _ s0 pre _ m0 _ o items _ =>
    .arrayStart :: (.unquoted s0.text :: (dcallsVs pre ++
      (.mixedMode :: (.unquoted m0.text :: (.operator (opW o) :: (dcallsI items ++ [.end]))))))
  | .arrCM _ first pre _ m0 _ o items _ =>
    .arrayStart :: (dcallsV first ++ (dcallsVs pre ++
      (.mixedMode :: (.unquoted m0.text :: (.operator (opW o) :: (dcallsI items ++ [.end]))))))
def dcallsFirst : FFirst → List Call
  | .kv k _ o v => .unquoted k.text :: (opCallsT o ++ dcallsV v)
  | .flds f => dcallsF f
def dcallsF : FFields → List Call
  | .nil => []
  | .cons _ k _ o v rest => .unquoted k.text :: (opCallsT o ++ (dcallsV v ++ dcallsF rest))
  | .consImp _ k v rest => .unquoted k.text :: (dcallsV v ++ dcallsF rest)
  | .ghost _ _ rest => dcallsF rest
  | .consHdr _ k _ o _ h body rest => .unquoted k.text :: (opCallsT o ++ (.header h.bytes :: (dcallsV body ++ dcallsF rest)))
  | .paramVal .. => []
  | .paramObj .. => []
  | .paramHdr .. => []
def dcallsVs : FVals → List Call
  | .nil => []
  | .cons v rest => dcallsV v ++ dcallsVs rest
def dcallsI : FItems → List Call
  | .nil => []
  | .scal _ x rest => .unquoted x.text :: dcallsI rest
  | .op _ o rest => .operator (opW o) :: dcallsI rest
  | .cont v rest => dcallsV v ++ dcallsI rest
end

mutual
/-- the documents `dcallsF` describes: no parameter blocks; and in the array part of a mixed array no
operator behind a container (there `write_operator` finds the mixed mode switched off by the container's
`write_end`, takes its object branch and flips the writer into object mode: later bare elements `f g`
come out as `f=g` — witnessed on the real code) -/
def CallsOKV : FVal → Prop
  | .scal .. => True
  | .empty .. => True
  | .obj _ _ first rest _ => CallsOKFirst first ∧ CallsOKF rest
  | .arrS _ _ _ rest _ => CallsOKVs rest
  | .arrC _ first rest _ => CallsOKV first ∧ CallsOKVs rest
  | .ghostIn _ _ _ v => CallsOKV v
  | .mixed .. => False
  | .arrSM _ _ _ pre _ _ _ _ items _ => CallsOKVs pre ∧ CallsOKI false items
  | .arrCM _ first pre _ _ _ _ items _ => CallsOKV first ∧ CallsOKVs pre ∧ CallsOKI false items
def CallsOKFirst : FFirst → Prop
  | .kv _ _ _ v => CallsOKV v
  | .flds f => CallsOKF f
def CallsOKF : FFields → Prop
  | .nil => True
  | .cons _ _ _ _ v rest => CallsOKV v ∧ CallsOKF rest
  | .consImp _ _ v rest => CallsOKV v ∧ CallsOKF rest
  | .ghost _ _ rest => CallsOKF rest
  | .consHdr _ _ _ _ _ _ body rest => CallsOKV body ∧ CallsOKF rest
  | .paramVal .. => False
  | .paramObj .. => False
  | .paramHdr .. => False
def CallsOKVs : FVals → Prop
  | .nil => True
  | .cons v rest => CallsOKV v ∧ CallsOKVs rest
def CallsOKI (afterCont : Bool) : FItems → Prop
  | .nil => True
  | .scal _ _ rest => CallsOKI afterCont rest
  | .op _ _ rest => afterCont = false ∧ CallsOKI afterCont rest
  | .cont v rest => CallsOKV v ∧ CallsOKI true rest
end

end Jomini.Writer.Spec
