import JominiModel.Model.BinDe
/-
Binary documents (the encoding choices made explicit), their raw lexeme stream, their
tape, and the reference meaning `valueOfBin` of a document for a target type:
"integers and booleans verbatim, floats through the flavor, strings through the encoding,
token ids through the resolver (or the configured error / stringify / ignore fallback), rgb
as its components, Options present, unknown fields skipped in their entirety".

The same definitions exist in Rust (harness/src/props/c04.rs `BDoc`, `render_bdoc`,
`value_of_bin`); ops `bde_spec`, `bde_toks`, `bde_tapeof` tie the two.
-/
namespace Jomini.BinDe

inductive BLeaf where
  | i32 (n : Int) | i64 (n : Int) | u32 (n : Nat) | u64 (n : Nat) | bool (b : Bool)
  | f32 (raw : Bytes) | f64 (raw : Bytes) | quoted (b : Bytes) | unquoted (b : Bytes) | id (n : Nat)
  deriving DecidableEq, Repr

mutual
inductive BNode where
  | leaf (l : BLeaf)
  | obj (fs : BFields)
  | arr (vs : BNodes)
  | rgb (c : Rgb)
inductive BFields where
  | nil
  | cons (ghosts : Nat) (key : BLeaf) (val : BNode) (rest : BFields)
inductive BNodes where
  | nil
  | cons (v : BNode) (rest : BNodes)
end

abbrev BDoc := BFields

/-! ### rendering to raw lexemes -/

def BLeaf.tok : BLeaf → Tok
  | .i32 n => .i32 n | .i64 n => .i64 n | .u32 n => .u32 n | .u64 n => .u64 n | .bool b => .bool b
  | .f32 r => .f32 r | .f64 r => .f64 r | .quoted b => .quoted b | .unquoted b => .unquoted b | .id n => .id n

def ghostToks : Nat → List Tok
  | 0 => []
  | n + 1 => .open :: .close :: ghostToks n

def rgbToks (c : Rgb) : List Tok :=
  [.id RGB_ID, .open] ++ c.comps.map Tok.u32 ++ [.close]

mutual
def tokensNode : BNode → List Tok
  | .leaf l => [l.tok]
  | .obj fs => .open :: (tokensFields fs ++ [.close])
  | .arr vs => .open :: (tokensNodes vs ++ [.close])
  | .rgb c => rgbToks c
def tokensFields : BFields → List Tok
  | .nil => []
  | .cons g k v rest => ghostToks g ++ (k.tok :: .equal :: tokensNode v) ++ tokensFields rest
def tokensNodes : BNodes → List Tok
  | .nil => []
  | .cons v rest => tokensNode v ++ tokensNodes rest
end

/-- the raw lexeme stream of a document. -/
def tokensOf (d : BDoc) : List Tok := tokensFields d

/-! ### the tape (`BinaryTape`): containers carry the index of their `End`, `End` the index of its
opener; ghost objects leave no trace; an rgb block is one token as an object value but, in ARRAY
position, the id 0x243 followed by an array (tape.rs `L::RGB if state == ObjectValue`) -/

def BLeaf.ttok : BLeaf → TTok
  | .i32 n => .i32 n | .i64 n => .i64 n | .u32 n => .u32 n | .u64 n => .u64 n | .bool b => .bool b
  | .f32 r => .f32 r | .f64 r => .f64 r | .quoted b => .quoted b | .unquoted b => .unquoted b | .id n => .token n

mutual
/-- tape of a node whose first token lands at index `start`. -/
def tapeNode : BNode → Nat → List TTok
  | .leaf l, _ => [l.ttok]
  | .obj fs, start =>
    let inner := tapeFields fs (start + 1)
    match fs with
    | .nil => [.array (start + 1), .end_ start]      -- `{}` is an (empty) array
    | _ => .object (start + 1 + inner.length) :: (inner ++ [.end_ start])
  | .arr vs, start =>
    let inner := tapeNodes vs (start + 1)
    .array (start + 1 + inner.length) :: (inner ++ [.end_ start])
  | .rgb c, _ => [.rgb c]
def tapeFields : BFields → Nat → List TTok
  | .nil, _ => []
  | .cons _ k v rest, start =>
    let tv := tapeNode v (start + 1)
    k.ttok :: (tv ++ tapeFields rest (start + 1 + tv.length))
def tapeNodes : BNodes → Nat → List TTok
  | .nil, _ => []
  | .cons (.rgb c) rest, start =>
    let comps := c.comps.map TTok.u32
    let blk : List TTok := .token RGB_ID :: .array (start + 2 + comps.length) :: (comps ++ [.end_ (start + 1)])
    blk ++ tapeNodes rest (start + blk.length)
  | .cons v rest, start =>
    let tv := tapeNode v start
    tv ++ tapeNodes rest (start + tv.length)
end

/-- the tape parser refuses a document that starts with `{` (tape.rs `open_empty_err`). -/
def tapeOf (d : BDoc) : Option (List TTok) :=
  match d with
  | .cons (_ + 1) _ _ _ => none
  | _ => some (tapeFields d 0)

/-! ### reference meaning -/

def leafPrim (c : Cfg) : BLeaf → Res Prim
  | .i32 n => .ok (.i32 n) | .i64 n => .ok (.i64 n) | .u32 n => .ok (.u32 n) | .u64 n => .ok (.u64 n)
  | .bool b => .ok (.bool b)
  | .f32 raw => .ok (.f32 (visitF32 raw)) | .f64 raw => .ok (.f64 (visitF64 raw))
  | .quoted b => .ok (.str (decode1252 b)) | .unquoted b => .ok (.str (decode1252 b))
  | .id n => idPrim c n

/-- a `u16` request that meets a token id: the raw id, the resolver is not consulted (all three paths). -/
def u16Leaf (t : Ty) (l : BLeaf) : Option Nat :=
  match t, l with
  | .u16, .id n => some n
  | _, _ => none

/-- a leaf for a type: the primitive it denotes, then what the type accepts. -/
def valLeaf (c : Cfg) (t : Ty) (l : BLeaf) : Res String :=
  match u16Leaf t l with
  | some n => visitPrim .u16 (.u16 n)
  | none =>
  match leafPrim c l with
  | .error e => .error e
  | .ok p =>
    match t with
    | .enum vs => enumVal vs p
    | _ => visitPrim t p

def BNodes.isNil : BNodes → Bool
  | .nil => true
  | _ => false

/-- `opt(opt(…t))` ↦ (number of `opt` layers, `t`): an Option is always present (`visit_some`). -/
def stripOpt : Ty → Nat × Ty
  | .opt t => let (k, core) := stripOpt t; (k + 1, core)
  | t => (0, t)

def wrapSome : Nat → String → String
  | 0, v => v
  | k + 1, v => "some(" ++ wrapSome k v ++ ")"

/-- what differs between the formats: the meaning of a leaf for a type, of a colour for a type,
and of a key.  The container structure (`valNodeG` …) is common to both. -/
structure Sem where
  leaf : Ty → BLeaf → Res String
  color : Ty → Rgb → Res String
  key : BLeaf → Res Prim

def wrapRes (k : Nat) : Res String → Res String
  | .ok v => .ok (wrapSome k v)
  | .error e => .error e

/-- a node for a type = the node for the type under its `opt` layers, wrapped in `some(…)`. -/
def nodeVia (core : Ty → Res String) (t : Ty) : Res String :=
  wrapRes (stripOpt t).1 (core (stripOpt t).2)

mutual
/-- meaning of a node for a type that is not an `opt`.  (`prop` is not part of the binary model.) -/
def valCoreG (S : Sem) : BNode → Ty → Res String
  | .leaf l, core =>
    match core with
    | .ign => .ok "ign"
    | .prop _ => .error .beyond
    | core => S.leaf core l
  | .rgb col, core =>
    match core with
    | .ign => .ok "ign"
    | .prop _ => .error .beyond
    | core => S.color core col
  | .arr vs, core =>
    match core with
    | .ign => .ok "ign"
    | .prop _ => .error .beyond
    | .seq et =>
      match valNodesG S vs et [] with
      | .ok items => .ok ("[" ++ joinComma items ++ "]")
      | .error e => .error e
    | .any =>
      match valNodesG S vs .any [] with
      | .ok items => .ok ("[" ++ joinComma items ++ "]")
      | .error e => .error e
    | .map _ => if vs.isNil then .ok "{}" else .error .type
    | .struct fs => if vs.isNil then structFinish fs (slotsInit fs) [] else .error .type
    | _ => .error .type
  | .obj fs, core =>
    match core with
    | .ign => .ok "ign"
    | .prop _ => .error .beyond
    | .map vt =>
      match valMapG S fs vt [] with
      | .ok items => .ok ("{" ++ joinComma items ++ "}")
      | .error e => .error e
    | .struct decl => valStructG S fs decl false (slotsInit decl)
    | _ => .error .type

def valNodesG (S : Sem) : BNodes → Ty → List String → Res (List String)
  | .nil, _, acc => .ok acc
  | .cons v rest, t, acc =>
    match nodeVia (valCoreG S v) t with
    | .ok x => valNodesG S rest t (acc ++ [x])
    | .error e => .error e

/-- a map: every key as a string, every value as `t`, in document order (duplicates kept). -/
def valMapG (S : Sem) : BFields → Ty → List String → Res (List String)
  | .nil, _, acc => .ok acc
  | .cons _ k v rest, t, acc =>
    match S.leaf .str k with
    | .error e => .error e
    | .ok ks =>
      match nodeVia (valCoreG S v) t with
      | .error e => .error e
      | .ok x => valMapG S rest t (acc ++ [ks ++ "=" ++ x])

/-- a struct: fields in document order; a key naming a declared field fills it (twice is
`duplicate`), any other key's value is skipped whole; ghost objects do not count; at the end every
declared field in order, absent `opt` = `none`, absent otherwise = `missing`. -/
def valStructG (S : Sem) : BFields → Fields → Bool → List (Option String) → Res String
  | .nil, decl, _, slots => structFinish decl slots []
  | .cons _ k v rest, decl, byToken, slots =>
    let which : Res (Option Nat) :=
      match byToken, k with
      | true, .id n => .ok (decl.posTok n 0)
      | _, _ => match S.key k with | .ok p => fieldOfPrim decl byToken p | .error e => .error e
    match which with
    | .error e => .error e
    | .ok none => valStructG S rest decl byToken slots
    | .ok (some i) =>
      match slots[i]?, decl.get? i with
      | some (some _), some (name, _, _) => .error (.duplicate name)
      | some none, some (_, _, fty) =>
        match nodeVia (valCoreG S v) fty with
        | .error e => .error e
        | .ok x => valStructG S rest decl byToken (slots.set i (some x))
      | _, _ => .error .panic
end

/-- meaning of a node for a type. -/
def valNodeG (S : Sem) (n : BNode) (t : Ty) : Res String := nodeVia (valCoreG S n) t

/-- root request over a document. -/
def valueOfG (S : Sem) (ty : RootTy) (d : BDoc) : Res String :=
  match ty with
  | .plain (.map t) =>
    match valMapG S d t [] with
    | .ok items => .ok ("{" ++ joinComma items ++ "}")
    | .error e => .error e
  | .plain (.struct fs) => valStructG S d fs false (slotsInit fs)
  | .tok fs => valStructG S d fs true (slotsInit fs)
  | .plain (.prop _) => .error .beyond
  | .plain _ => .error .other

/-- the binary format: leaves through flavor / encoding / resolver, colours as `ColorSequence`. -/
def binSem (c : Cfg) : Sem := { leaf := valLeaf c, color := colorVisit, key := leafPrim c }

def valNode (c : Cfg) : BNode → Ty → Res String := valNodeG (binSem c)

/-- the value a binary document has for a root request. -/
def valueOfBin (c : Cfg) (ty : RootTy) (d : BDoc) : Res String := valueOfG (binSem c) ty d

end Jomini.BinDe
