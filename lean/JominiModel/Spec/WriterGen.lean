import JominiModel.Spec.WriterArrays
/-
Reference definitions for the general container fragment of C15 / C14: objects, arrays (of scalars,
objects, arrays, empty containers), empty containers and headers, nested to any depth, every
container-start flavour.  Core Lean only.
-/
namespace Jomini.Writer.Spec
open Jomini Jomini.Writer
open Jomini.TextTape (Scal)

mutual
/-- a value as the calls describe it.  Arrays come in two forms, as in the text-tape slice's model:
`arrS` starts with a scalar, `arrC` with a (non-empty) container.  `unknown` = opened with
`write_start` instead of `write_array_start`; objects may be opened with any of the three start
calls (with `write_array_start` / `write_start` the first field must carry an explicit operator:
that is what turns the container into an object; an object has at least one field, see
`GVal.Opened`). -/
inductive GVal where
  | scal (c : SCall)
  | empty (fl : Flavour)
  | obj (fl : Flavour) (fields : GFields)
  | arrS (unknown : Bool) (first : SCall) (rest : GVals)
  | arrC (unknown : Bool) (first : GVal) (rest : GVals)
inductive GFields where
  | nil
  | cons (key : SCall) (op : Option Writer.Op) (v : GVal) (rest : GFields)
  /-- `key op header { … }` through `write_header` -/
  | hdr (key : SCall) (op : Option Writer.Op) (h : Bytes) (body : GVal) (rest : GFields)
inductive GVals where
  | nil
  | cons (v : GVal) (rest : GVals)
end

def GVal.isBraced : GVal → Bool
  | .scal _ => false
  | _ => true

/-- a non-empty container -/
def GVal.isContainer : GVal → Bool
  | .obj .. | .arrS .. | .arrC .. => true
  | _ => false

def arrFl (unknown : Bool) : Flavour := if unknown then .start else .arrayStart

mutual
def gcallsV : GVal → List Call
  | .scal c => [c.call]
  | .empty fl => [fl.call, .end]
  | .obj fl fs => fl.call :: (gcallsF fs ++ [.end])
  | .arrS u first rest => (arrFl u).call :: (first.call :: (gcallsVs rest ++ [.end]))
  | .arrC u first rest => (arrFl u).call :: (gcallsV first ++ (gcallsVs rest ++ [.end]))
def gcallsF : GFields → List Call
  | .nil => []
  | .cons k o v r => k.call :: (opCalls o ++ (gcallsV v ++ gcallsF r))
  | .hdr k o h body r => k.call :: (opCalls o ++ (.header h :: (gcallsV body ++ gcallsF r)))
def gcallsVs : GVals → List Call
  | .nil => []
  | .cons v r => gcallsV v ++ gcallsVs r
end

mutual
/-- the text of a value at nesting depth `d` -/
def gtextV (c : UInt8) (f : Nat) : Nat → GVal → Bytes
  | _, .scal s => s.scal.text
  | _, .empty _ => [123, 32, 125]
  | d, .obj _ fs => 123 :: (gtextF c f (d + 1) fs ++ (([10] ++ ind c f d) ++ [125]))
  | d, .arrS _ first rest =>
    123 :: (([10] ++ ind c f (d + 1)) ++ (first.scal.text ++ (gtextVs c f (d + 1) false rest ++
      (([10] ++ ind c f d) ++ [125]))))
  | d, .arrC _ first rest =>
    123 :: (([10] ++ ind c f (d + 1)) ++ (gtextV c f (d + 1) first ++ (gtextVs c f (d + 1) true rest ++
      (([10] ++ ind c f d) ++ [125]))))
/-- fields at depth `d`: each on its own indented line -/
def gtextF (c : UInt8) (f : Nat) : Nat → GFields → Bytes
  | _, .nil => []
  | d, .cons k o v r =>
    ([10] ++ ind c f d) ++ (k.scal.text ++ (sepText (opOf o) ++ (gtextV c f d v ++ gtextF c f d r)))
  | d, .hdr k o h body r =>
    ([10] ++ ind c f d) ++ (k.scal.text ++ (sepText (opOf o) ++ (h ++ (32 :: (gtextV c f d body ++ gtextF c f d r)))))
/-- further elements of an array: after a scalar a single space, after a container a new line -/
def gtextVs (c : UInt8) (f : Nat) : Nat → Bool → GVals → Bytes
  | _, _, .nil => []
  | d, afterContainer, .cons v r =>
    (if afterContainer then [10] ++ ind c f d else [32]) ++ (gtextV c f d v ++ gtextVs c f d v.isBraced r)
end

def gtextRoot (c : UInt8) (f : Nat) (fs : GFields) : Bytes := (gtextF c f 0 fs).drop 1

/-- the first field carries an explicit operator call -/
def firstOpExplicit : GFields → Prop
  | .nil => True
  | .cons _ o _ _ => o ≠ none
  | .hdr _ o _ _ _ => o ≠ none

mutual
/-- what the writer's state machine needs: an object opened with `write_array_start` / `write_start`
announces itself by an explicit operator on its first field -/
def GVal.Opened : GVal → Prop
  | .scal _ => True
  | .empty _ => True
  | .obj fl fs => fs ≠ .nil ∧ (fl ≠ .objectStart → firstOpExplicit fs) ∧ fs.Opened
  | .arrS _ _ rest => rest.Opened
  | .arrC _ first rest => first.isBraced = true ∧ first.Opened ∧ rest.Opened
def GFields.Opened : GFields → Prop
  | .nil => True
  | .cons _ _ v r => v.Opened ∧ r.Opened
  | .hdr _ _ _ body r => body.Opened ∧ r.Opened
def GVals.Opened : GVals → Prop
  | .nil => True
  | .cons v r => v.Opened ∧ r.Opened
end

mutual
/-- what the parse-back theorem assumes of a document: the caller-supplied scalars are scalars of the
text format (ordinary scalars, `@variables`, `@[…]`: `SCall.ValidX`); an object starts with a plain field (a header field first is not in the text-tape
slice's layout model); the first element of an `arrC` and the body of a header are non-empty
containers (an empty one would be dropped by the parser as a ghost object); a header is an unquoted
scalar -/
def GVal.Good : GVal → Prop
  | .scal s => s.ValidX
  | .empty _ => True
  | .obj _ (.cons k _ v r) => k.ValidX ∧ v.Good ∧ r.Good
  | .obj _ _ => False
  | .arrS _ first rest => first.ValidX ∧ rest.Good
  | .arrC _ first rest => first.isContainer = true ∧ first.Good ∧ rest.Good
def GFields.Good : GFields → Prop
  | .nil => True
  | .cons k _ v r => k.ValidX ∧ v.Good ∧ r.Good
  | .hdr k _ h body r => k.ValidX ∧ (⟨false, h⟩ : Scal).Valid ∧ body.isContainer = true ∧ body.Good ∧ r.Good
def GVals.Good : GVals → Prop
  | .nil => True
  | .cons v r => v.Good ∧ r.Good
end

mutual
/-- the content of a document in the text-tape slice's terms -/
def gcontentV : GVal → TextTape.KVal
  | .scal s => .scal s.scal
  | .empty _ => .empty
  | .obj _ fs => .obj (gcontentF fs)
  | .arrS _ first rest => .arr (.cons (.scal first.scal) (gcontentVs rest))
  | .arrC _ first rest => .arr (.cons (gcontentV first) (gcontentVs rest))
def gcontentF : GFields → TextTape.KFields
  | .nil => .nil
  | .cons k o v r => .cons k.scal (opOf o) (gcontentV v) (gcontentF r)
  | .hdr k o h body r => .cons k.scal (opOf o) (.hdr h (gcontentV body)) (gcontentF r)
def gcontentVs : GVals → TextTape.KVals
  | .nil => .nil
  | .cons v r => .cons (gcontentV v) (gcontentVs r)
end

mutual
/-- the form a tape gives rise to (what `write_tape` does): objects through `write_object_start`,
arrays and empty containers through `write_array_start`, no explicit `=` operator -/
def GVal.Canon : GVal → Prop
  | .scal _ => True
  | .empty fl => fl = .arrayStart
  | .obj fl fs => fl = .objectStart ∧ fs.Canon
  | .arrS u _ rest => u = false ∧ rest.Canon
  | .arrC u first rest => u = false ∧ first.Canon ∧ rest.Canon
def GFields.Canon : GFields → Prop
  | .nil => True
  | .cons _ o v r => o ≠ some .eq ∧ v.Canon ∧ r.Canon
  | .hdr _ o _ body r => o ≠ some .eq ∧ body.Canon ∧ r.Canon
def GVals.Canon : GVals → Prop
  | .nil => True
  | .cons v r => v.Canon ∧ r.Canon
end

/-! #### which documents of the text-tape slice's `JFields` the C14 round trip covers -/

mutual
/-- Everything in `JFields` except: mixed containers (an object that continues as a bare list is
documented as not preserved; the known finding `roundtrip-mixed-nested-operator` lives there too),
parameter blocks (known finding `roundtrip-param-scalar`; the object form is left to the oracle), and
the two ghost shapes the format cannot express on re-reading — an array whose first element, or a
header whose body, has EMPTY content (reachable through `{ {} }`: `a={ { {} } x }`,
`a=rgb { {} }`): written as `{ }` in first position they are dropped as ghost objects. -/
def JPlainV : TextTape.JVal → Prop
  | .scal _ _ => True
  | .empty _ _ => True
  | .obj _ _ _ _ _ v rest _ => JPlainV v ∧ JPlainF rest
  | .arrS _ _ _ rest _ => JPlainVs rest
  | .arrC _ first rest _ => TextTape.kcontentV first ≠ .empty ∧ JPlainV first ∧ JPlainVs rest
  | .ghostIn _ _ _ v => JPlainV v
  | .mixed .. => False
def JPlainF : TextTape.JFields → Prop
  | .nil => True
  | .cons _ _ _ _ v rest => JPlainV v ∧ JPlainF rest
  | .consImp _ _ v rest => JPlainV v ∧ JPlainF rest
  | .ghost _ _ rest => JPlainF rest
  | .consHdr _ _ _ _ _ _ body rest => TextTape.kcontentV body ≠ .empty ∧ JPlainV body ∧ JPlainF rest
  | .paramVal .. => False
  | .paramObj .. => False
def JPlainVs : TextTape.JVals → Prop
  | .nil => True
  | .cons v rest => JPlainV v ∧ JPlainVs rest
end

/-! #### mixed mode: an array that turns into key-value pairs -/

/-- `key = { first rest… a₁ op₁ b₁  a₂ op₂ b₂ … }` written as: key, `write_array_start`, the
elements, `start_mixed_mode`, then for every pair key, `write_operator`, value, finally `write_end`
(scalars only: see the known finding `roundtrip-mixed-nested-operator` for nested objects) -/
structure MixedDoc where
  key : SCall
  first : SCall
  rest : List SCall
  pairs : List (SCall × Writer.Op × SCall)

def pairCalls : List (SCall × Writer.Op × SCall) → List Call
  | [] => []
  | (a, o, b) :: r => a.call :: (.operator o :: (b.call :: pairCalls r))

def MixedDoc.calls (d : MixedDoc) : List Call :=
  d.key.call :: (.arrayStart :: (d.first.call :: (d.rest.map SCall.call ++ (.mixedMode :: (pairCalls d.pairs ++ [.end])))))

/-- in mixed mode the operator is written bare, glued to key and value -/
def pairsText : List (SCall × Writer.Op × SCall) → Bytes
  | [] => []
  | (a, o, b) :: r => 32 :: (a.scal.text ++ (o.symbol ++ (b.scal.text ++ pairsText r)))

def MixedDoc.text (c : UInt8) (f : Nat) (d : MixedDoc) : Bytes :=
  d.key.scal.text ++ ([61, 123] ++ (([10] ++ ind c f 1) ++ (d.first.scal.text ++ (elemsText d.rest ++
    (pairsText d.pairs ++ [10, 125])))))

def pairToks : List (SCall × Writer.Op × SCall) → List TextTape.Tok
  | [] => []
  | (a, o, b) :: r => (a.scal.tok []).erase :: (TextTape.Tok.operator (opTT o) :: ((b.scal.tok []).erase :: pairToks r))

def elemToksS : List SCall → List TextTape.Tok
  | [] => []
  | e :: r => (e.scal.tok []).erase :: elemToksS r

/-- what the call list describes: the key, an array (flagged mixed when there are pairs) with the
elements, `MixedContainer`, then key / operator / value for every pair (`=` is kept as a token in
the array part), `End` -/
def mixedTape (d : MixedDoc) : List TextTape.Tok :=
  match d.pairs with
  | [] =>
    [(d.key.scal.tok []).erase, TextTape.Tok.array (3 + d.rest.length) false, (d.first.scal.tok []).erase] ++
      elemToksS d.rest ++ [TextTape.Tok.endTok 1]
  | ps =>
    [(d.key.scal.tok []).erase, TextTape.Tok.array (3 + d.rest.length + 1 + 3 * ps.length) true,
      (d.first.scal.tok []).erase] ++ elemToksS d.rest ++ (TextTape.Tok.mixedContainer :: pairToks ps) ++ [TextTape.Tok.endTok 1]

/-- what has to be assumed of the call list: valid scalars; no `?=` (it is no operator inside an
array: `d?=e` reads as the key `d?`); and, when nothing stands between the first element and the
first pair, the key of that pair is not the bare `?` (`{ 1 ?=b }` reads as the object `1 ?= b`) -/
def MixedDoc.Good (d : MixedDoc) : Prop :=
  d.key.ValidX ∧ d.first.ValidX ∧ (∀ e ∈ d.rest, e.ValidX) ∧
    (∀ p ∈ d.pairs, p.1.ValidX ∧ p.2.1 ≠ .exists ∧ p.2.2.ValidX) ∧
    (d.rest = [] → ∀ p ∈ d.pairs.head?, p.1.scal.text ≠ [63])


/-- the shape of what `std`'s `Display` prints for a finite `f32` / `f64` (with or without a
precision): an optional `-`, at least one digit, optionally `.` and at least one digit.  `Display`
never switches to exponent notation, whatever the magnitude (`1e300` prints as a 1 followed by
300 zeros), so this covers every finite value; `NaN`, `inf`, `-inf` are the only other outputs. -/
def FloatText (t : Bytes) : Prop :=
  ∃ (neg : Bool) (ip fp : Bytes), t = (if neg then [45] else []) ++ (ip ++ fp) ∧ ip ≠ [] ∧ allDigits ip = true ∧
    (fp = [] ∨ ∃ fd, fp = 46 :: fd ∧ fd ≠ [] ∧ allDigits fd = true)

end Jomini.Writer.Spec
