import JominiModel.Model.Basic
/-
Reference definitions for C12 (string decoding).  Core Lean only.  Nothing here looks at
the model: `trim` recurses from the front, `unescape` is a filter, `cp1252` is the code
page written out, `Utf8.valid` is the well-formedness table of RFC 3629 / Unicode
Table 3-7, `lossy` is the "maximal subpart" replacement practice of the Unicode standard
(§3.9, U+FFFD substitution of maximal subparts), and the UTF-8 encoding of a `Char` is
Lean's own `String.utf8EncodeChar`.
-/
namespace Jomini.Spec.Encoding
open Jomini

/-- ASCII whitespace in the sense of Rust's `is_ascii_whitespace` (WhatWG Infra):
space, tab, line feed, form feed, carriage return. -/
def isWs (b : UInt8) : Bool := b = 0x20 ∨ b = 0x09 ∨ b = 0x0A ∨ b = 0x0C ∨ b = 0x0D

/-- remove trailing ASCII whitespace: the shortest prefix followed only by whitespace. -/
def trim : Bytes → Bytes
  | [] => []
  | x :: xs =>
    match trim xs with
    | [] => if isWs x then [] else [x]
    | t => x :: t

/-- delete every backslash. -/
def unescape (d : Bytes) : Bytes := d.filter (· ≠ 0x5c)

/-- Windows-1252 code points of the bytes 0x80..0x9F (WHATWG index-windows-1252; the five
bytes 81 8D 8F 90 9D that the code page leaves unassigned map to the C1 control of the
same number). -/
def cp1252High : List Nat := [
  0x20AC, 0x0081, 0x201A, 0x0192, 0x201E, 0x2026, 0x2020, 0x2021,
  0x02C6, 0x2030, 0x0160, 0x2039, 0x0152, 0x008D, 0x017D, 0x008F,
  0x0090, 0x2018, 0x2019, 0x201C, 0x201D, 0x2022, 0x2013, 0x2014,
  0x02DC, 0x2122, 0x0161, 0x203A, 0x0153, 0x009D, 0x017E, 0x0178]

/-- code point of a byte in Windows-1252: identity outside 0x80..0x9F. -/
def cp1252Code (b : Nat) : Nat :=
  if 0x80 ≤ b ∧ b < 0xA0 then cp1252High.getD (b - 0x80) 0 else b

/-- the whole code page as a table of 256 code points. -/
def cp1252Table : List Nat := (List.range 256).map cp1252Code

/-- the character a Windows-1252 byte stands for. -/
def cp1252 (b : UInt8) : Char := Char.ofNat (cp1252Code b.toNat)

/-- UTF-8 encoding of a text (Lean's own encoder). -/
def utf8 (cs : List Char) : Bytes := cs.flatMap String.utf8EncodeChar

namespace Utf8

/-- continuation byte 80..BF -/
def cont (b : UInt8) : Bool := 0x80 ≤ b ∧ b ≤ 0xBF

/-- lead byte of a two-byte sequence -/
def lead2 (b : UInt8) : Bool := 0xC2 ≤ b ∧ b ≤ 0xDF
def lead3 (b : UInt8) : Bool := 0xE0 ≤ b ∧ b ≤ 0xEF
def lead4 (b : UInt8) : Bool := 0xF0 ≤ b ∧ b ≤ 0xF4

/-- allowed second byte after a three-byte lead (Table 3-7: E0 A0..BF, ED 80..9F, else 80..BF) -/
def snd3 (b0 b1 : UInt8) : Bool :=
  if b0 = 0xE0 then 0xA0 ≤ b1 ∧ b1 ≤ 0xBF
  else if b0 = 0xED then 0x80 ≤ b1 ∧ b1 ≤ 0x9F
  else cont b1

/-- allowed second byte after a four-byte lead (F0 90..BF, F4 80..8F, else 80..BF) -/
def snd4 (b0 b1 : UInt8) : Bool :=
  if b0 = 0xF0 then 0x90 ≤ b1 ∧ b1 ≤ 0xBF
  else if b0 = 0xF4 then 0x80 ≤ b1 ∧ b1 ≤ 0x8F
  else cont b1

/-- well-formed UTF-8 (RFC 3629 §4 / Unicode Table 3-7), decidable. -/
def valid : Bytes → Bool
  | [] => true
  | b0 :: r0 =>
    if b0 < 0x80 then valid r0
    else if lead2 b0 then
      match r0 with
      | b1 :: r1 => cont b1 && valid r1
      | [] => false
    else if lead3 b0 then
      match r0 with
      | b1 :: b2 :: r2 => snd3 b0 b1 && cont b2 && valid r2
      | _ => false
    else if lead4 b0 then
      match r0 with
      | b1 :: b2 :: b3 :: r3 => snd4 b0 b1 && cont b2 && cont b3 && valid r3
      | _ => false
    else false

/-- `Valid b`: the byte string is well-formed UTF-8. -/
def Valid (b : Bytes) : Prop := valid b = true

instance (b : Bytes) : Decidable (Valid b) := inferInstanceAs (Decidable (valid b = true))

end Utf8

/-- U+FFFD REPLACEMENT CHARACTER in UTF-8 -/
def replacement : Bytes := [0xEF, 0xBF, 0xBD]

open Utf8 in
/-- Lossy decoding, as UTF-8 bytes of the resulting text: well-formed sequences are kept,
every maximal subpart of an ill-formed sequence (the longest prefix of a well-formed
sequence, or else one byte) becomes one U+FFFD, and decoding resumes at the offending
byte. -/
def lossy : Bytes → Bytes
  | [] => []
  | b0 :: r0 =>
    if b0 < 0x80 then b0 :: lossy r0
    else if lead2 b0 then
      match r0 with
      | [] => replacement
      | b1 :: r1 =>
        if cont b1 then b0 :: b1 :: lossy r1 else replacement ++ lossy (b1 :: r1)
    else if lead3 b0 then
      match r0 with
      | [] => replacement
      | b1 :: r1 =>
        if snd3 b0 b1 then
          match r1 with
          | [] => replacement
          | b2 :: r2 =>
            if cont b2 then b0 :: b1 :: b2 :: lossy r2 else replacement ++ lossy (b2 :: r2)
        else replacement ++ lossy (b1 :: r1)
    else if lead4 b0 then
      match r0 with
      | [] => replacement
      | b1 :: r1 =>
        if snd4 b0 b1 then
          match r1 with
          | [] => replacement
          | b2 :: r2 =>
            if cont b2 then
              match r2 with
              | [] => replacement
              | b3 :: r3 =>
                if cont b3 then b0 :: b1 :: b2 :: b3 :: lossy r3
                else replacement ++ lossy (b3 :: r3)
            else replacement ++ lossy (b2 :: r2)
        else replacement ++ lossy (b1 :: r1)
    else replacement ++ lossy r0

end Jomini.Spec.Encoding
