import JominiModel.Model.Writer
import JominiModel.Spec.Writer
import JominiModel.Spec.TextTape
/-
Reference definitions for the end-to-end round-trip theorems of C14 / C15 on *flat* documents
(root-level `key op value` fields): what the calls / the tape describe, what text the writer
must produce, and how that text is a layout (`TextTape.LField`) of the text-tape slice's
document model.  Core Lean only; the TextTape files are imported, not modified.
-/
namespace Jomini.Writer.Spec
open Jomini Jomini.Writer
open Jomini.TextTape (Scal LField)

/-- the writer's operator as the tape parser's operator -/
def opTT : Writer.Op → TextTape.Op
  | .lt => .lt | .le => .le | .gt => .gt | .ge => .ge | .ne => .ne
  | .exact => .exact | .eq => .eq | .exists => .exists_

/-- and back -/
def opW : TextTape.Op → Writer.Op
  | .lt => .lt | .le => .le | .gt => .gt | .ge => .ge | .ne => .ne
  | .exact => .exact | .eq => .eq | .exists_ => .exists

/-- a field of a flat document: key, operator, value, the scalars as they stand on disk
(`Scal`: quoted flag + content bytes, escapes included).  `op = .eq` = plain `=`. -/
structure FItem where
  key : Scal
  op : TextTape.Op
  val : Scal

def FItem.content (it : FItem) : Scal × TextTape.Op × Scal := (it.key, it.op, it.val)

/-- what the writer puts between key and value: `=` glued, every other operator with a
space on both sides -/
def sepText (o : TextTape.Op) : Bytes :=
  if o = .eq then [61] else [32] ++ o.text ++ [32]

/-- the text of a flat document as the writer lays it out: one `key<sep>value` line per field,
lines separated by a single `\n`, nothing before the first and nothing after the last -/
def flatOut : List FItem → Bool → Bytes
  | [], _ => []
  | it :: r, first =>
    (if first then [] else [10]) ++ (it.key.text ++ (sepText it.op ++ (it.val.text ++ flatOut r false)))

/-- that layout in the terms of the tape parser's document model -/
def FItem.layout (it : FItem) (first : Bool) : LField :=
  { g0 := if first then [] else [10], key := it.key,
    g1 := if it.op = .eq then [] else [32], op := it.op,
    g2 := if it.op = .eq then [] else [32], val := it.val }

def layoutOf : List FItem → Bool → List LField
  | [], _ => []
  | it :: r, first => it.layout first :: layoutOf r false

/-! #### C15: the calls of a flat document -/

/-- a scalar-writing call -/
inductive SCall where
  | unq (b : Bytes)
  | quo (payload : Bytes)
  /-- `write_unquoted` with the bytes of a scalar as it stands on disk (for a quoted scalar: the
  quotes and the already escaped content — what `write_tape` writes for a `Quoted` token) -/
  | raw (s : Scal)
  | bool (b : Bool)
  | i32 (i : Int)
  | u32 (n : Nat)
  | i64 (i : Int)
  | u64 (n : Nat)
  | date (f : DateFormat) (year : Int) (month day hour : Nat)

def SCall.call : SCall → Call
  | .unq b => .unquoted b
  | .quo p => .quoted p
  | .raw s => .unquoted s.text
  | .bool b => .bool b
  | .i32 i => .i32 i
  | .u32 n => .u32 n
  | .i64 i => .i64 i
  | .u64 n => .u64 n
  | .date f y m d h => .date f y m d h

/-- the scalar the call denotes on disk: a quoted payload stands escaped between the quotes, the
typed calls write the unquoted text of their value -/
def SCall.scal : SCall → Scal
  | .unq b => ⟨false, b⟩
  | .quo p => ⟨true, escape p⟩
  | .raw s => s
  | .bool b => ⟨false, if b then [121, 101, 115] else [110, 111]⟩
  | .i32 i => ⟨false, fmtInt i⟩
  | .u32 n => ⟨false, fmtNat n⟩
  | .i64 i => ⟨false, fmtInt i⟩
  | .u64 n => ⟨false, fmtNat n⟩
  | .date f y m d h => ⟨false, fmtDate f y m d h⟩

/-- `key [operator] value`: `op = none` leaves the `=` implicit -/
structure FField where
  key : SCall
  op : Option Writer.Op
  val : SCall

def FField.calls (f : FField) : List Call :=
  match f.op with
  | none => [f.key.call, f.val.call]
  | some o => [f.key.call, .operator o, f.val.call]

def fcalls : List FField → List Call
  | [] => []
  | f :: r => f.calls ++ fcalls r

def FField.item (f : FField) : FItem :=
  { key := f.key.scal, op := (match f.op with | none => .eq | some o => opTT o), val := f.val.scal }

/-- what has to be assumed of a call for its text to be a scalar of the text format: only the
caller-supplied raw bytes (`write_unquoted`) need to be one (`Scal.Valid`); quoted payloads and the
typed calls (booleans, integers, dates) always are -/
def SCall.Valid (c : SCall) : Prop :=
  match c with
  | .unq b => (⟨false, b⟩ : Scal).Valid
  | .raw s => s.Valid
  | _ => True

/-- the same with variables admitted: a raw / unquoted payload may also be a `@variable` or an
interpolated `@[…]` expression (`Scal.ValidX` of the text-tape slice) -/
def SCall.ValidX (c : SCall) : Prop :=
  match c with
  | .unq b => (⟨false, b⟩ : Scal).ValidX
  | .raw s => s.ValidX
  | _ => True

/-- the typed scalar calls: `write_bool`, `write_i32`, `write_u32`, `write_i64`, `write_u64`,
`write_date` -/
def SCall.isTyped : SCall → Prop
  | .bool _ | .i32 _ | .u32 _ | .i64 _ | .u64 _ | .date .. => True
  | _ => False

/-! #### C14: the tape of a flat document -/

/-- a parser token as the writer's `write_tape` sees it (scalar bytes, no positions) -/
def ofTT : TextTape.Tok → Writer.Tok
  | .array e m => .array e m
  | .object e m => .object e m
  | .mixedContainer => .mixedContainer
  | .unquoted s => .unquoted s.bytes
  | .quoted s => .quoted s.bytes
  | .parameter s => .parameter s.bytes
  | .undefParameter s => .undefinedParameter s.bytes
  | .operator o => .operator (opW o)
  | .endTok i => .end i
  | .header s => .header s.bytes

/-- the tape of a flat document, positions erased (`TextTape.contentFlat`), as `write_tape` input -/
def tapeOfFlat (doc : List FItem) : List Writer.Tok :=
  (TextTape.contentFlat (doc.map FItem.content)).map ofTT

end Jomini.Writer.Spec
