import JominiModel.Model.BinTape
/-
Reference definitions for C03 "the binary tape mirrors the token stream": an abstract binary
document, its token-stream encoding, and the tape the property expects (`tapeOfBin`).
Core Lean only.
-/
namespace Jomini.BinTape
open Jomini

/-- a scalar lexeme of the binary stream; numeric payloads are the raw little-endian bytes that
stand in the stream (the tape token carries their decoded value, floats the bytes themselves) -/
inductive Sc where
  | id (n : Nat)
  | u32 (b : Bytes) | u64 (b : Bytes) | i32 (b : Bytes) | i64 (b : Bytes)
  | f32 (b : Bytes) | f64 (b : Bytes)
  | bool (x : UInt8)
  | quoted (s : Bytes) | unquoted (s : Bytes)
  deriving DecidableEq, Repr

/-- two little-endian bytes of a 16-bit value -/
def le16 (n : Nat) : Bytes := [UInt8.ofNat (n % 256), UInt8.ofNat (n / 256 % 256)]

def Sc.encode : Sc → Bytes
  | .id n => le16 n
  | .u32 b => le16 L.u32 ++ b
  | .u64 b => le16 L.u64 ++ b
  | .i32 b => le16 L.i32 ++ b
  | .i64 b => le16 L.i64 ++ b
  | .f32 b => le16 L.f32 ++ b
  | .f64 b => le16 L.f64 ++ b
  | .bool x => le16 L.bool ++ [x]
  | .quoted s => le16 L.quoted ++ le16 s.length ++ s
  | .unquoted s => le16 L.unquoted ++ le16 s.length ++ s

/-- the tape token of a scalar: same binary type, payload decoded from the stream bytes -/
def Sc.tok : Sc → BTok
  | .id n => .token n
  | .u32 b => .u32 (leNat b)
  | .u64 b => .u64 (leNat b)
  | .i32 b => .i32 (toSigned 32 (leNat b))
  | .i64 b => .i64 (toSigned 64 (leNat b))
  | .f32 b => .f32 b
  | .f64 b => .f64 b
  | .bool x => .bool (x != 0)
  | .quoted s => .quoted s
  | .unquoted s => .unquoted s

/-- well-formed scalar: fixed payload widths, string length fits `u16`, an id is a 16-bit value
that is not one of the 13 lexemes -/
def Sc.wf : Sc → Bool
  | .id n => decide (n < 65536) && decide (n ∉ [1, 3, 4, 12, 13, 14, 15, 20, 23, 0x167, 0x243, 0x29c, 0x317])
  | .u32 b | .i32 b | .f32 b => b.length == 4
  | .u64 b | .i64 b | .f64 b => b.length == 8
  | .bool _ => true
  | .quoted s | .unquoted s => decide (s.length < 65536)

mutual
/-- a value: scalar, rgb block (only special directly after `key =`), object, array -/
inductive Val where
  | sc (s : Sc)
  | rgb (r g b : Bytes) (a : Option Bytes)
  | obj (fs : Fields)
  | arr (vs : Vals)
/-- `key = value` fields, each preceded by `ghosts` empty `{}` objects -/
inductive Fields where
  | nil
  | cons (ghosts : Nat) (k : Sc) (v : Val) (rest : Fields)
inductive Vals where
  | nil
  | cons (v : Val) (rest : Vals)
end

def ghostBytes : Nat → Bytes
  | 0 => []
  | n + 1 => le16 L.open_ ++ le16 L.close ++ ghostBytes n

mutual
def Val.encode : Val → Bytes
  | .sc s => s.encode
  | .rgb r g b none =>
      le16 L.rgb ++ le16 L.open_ ++ le16 L.u32 ++ r ++ le16 L.u32 ++ g ++ le16 L.u32 ++ b ++ le16 L.close
  | .rgb r g b (some a) =>
      le16 L.rgb ++ le16 L.open_ ++ le16 L.u32 ++ r ++ le16 L.u32 ++ g ++ le16 L.u32 ++ b ++ le16 L.u32 ++ a ++ le16 L.close
  | .obj fs => le16 L.open_ ++ fs.encode ++ le16 L.close
  | .arr vs => le16 L.open_ ++ vs.encode ++ le16 L.close
def Fields.encode : Fields → Bytes
  | .nil => []
  | .cons g k v rest => ghostBytes g ++ k.encode ++ le16 L.equal ++ v.encode ++ rest.encode
def Vals.encode : Vals → Bytes
  | .nil => []
  | .cons v rest => v.encode ++ rest.encode
end

mutual
/-- expected tape of a value whose first token lands at tape index `base`; `asValue`: directly
after `key =` (there an rgb block is one `Rgb` token; elsewhere the marker is an ordinary id
followed by an array of three or four `U32`) -/
def Val.tape (base : Nat) (asValue : Bool) : Val → Tape
  | .sc s => [s.tok]
  | .rgb r g b a =>
    if asValue then [.rgb (leNat r) (leNat g) (leNat b) (a.map leNat)]
    else
      let inner : Tape := [.u32 (leNat r), .u32 (leNat g), .u32 (leNat b)] ++ (match a with | none => [] | some a => [.u32 (leNat a)])
      [.token L.rgb, .array (base + 2 + inner.length)] ++ inner ++ [.end_ (base + 1)]
  | .obj fs =>
    let inner := fs.tape (base + 1)
    (if inner.isEmpty then BTok.array (base + 1 + inner.length) else BTok.object (base + 1 + inner.length))
      :: inner ++ [.end_ base]
  | .arr vs =>
    let inner := vs.tape (base + 1)
    .array (base + 1 + inner.length) :: inner ++ [.end_ base]
/-- ghost objects are dropped -/
def Fields.tape (base : Nat) : Fields → Tape
  | .nil => []
  | .cons _ k v rest =>
    let tv := v.tape (base + 1) true
    k.tok :: tv ++ rest.tape (base + 1 + tv.length)
def Vals.tape (base : Nat) : Vals → Tape
  | .nil => []
  | .cons v rest =>
    let tv := v.tape base false
    tv ++ rest.tape (base + tv.length)
end

mutual
def Val.wf : Val → Bool
  | .sc s => s.wf
  | .rgb r g b a => r.length == 4 && g.length == 4 && b.length == 4 && (match a with | none => true | some a => a.length == 4)
  | .obj fs => fs.wf
  | .arr vs => vs.wf
def Fields.wf : Fields → Bool
  | .nil => true
  | .cons _ k v rest => k.wf && v.wf && rest.wf
def Vals.wf : Vals → Bool
  | .nil => true
  | .cons v rest => v.wf && rest.wf
end

/-- a document is a field list; well-formed when all parts are and no ghost object precedes the
very first key (there is no enclosing object it could be dropped from: the parser rejects it). -/
def Fields.wfDoc : Fields → Bool
  | .nil => true
  | .cons g k v rest => g == 0 && (Fields.cons g k v rest).wf

/-- `tapeOfBin` -/
def tapeOfBin (doc : Fields) : Tape := doc.tape 0

/-- the statement of C03 faithfulness for one document -/
def Faithful (doc : Fields) : Prop := parse false doc.encode = .ok (tapeOfBin doc)

end Jomini.BinTape
