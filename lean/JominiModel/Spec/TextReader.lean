import JominiModel.Model.TextReader
/-
Reference definitions the text-reader theorems talk about: byte-at-a-time scans over the
*whole* remaining input (no windows, no resume offsets, no 8-byte words).
-/
namespace Jomini.TextReader.Spec
open Jomini Jomini.TextReader

/-- offset of the quote that closes a quoted body: a backslash hides the byte after it.
The list starts at offset `i`. -/
def quoteEnd : Bytes → Nat → Option Nat
  | [], _ => none
  | c :: rest, i =>
    if c == 92 then
      match rest with
      | [] => none
      | _ :: rest' => quoteEnd rest' (i + 2)
    else if c != 34 then quoteEnd rest (i + 1)
    else some i

/-- bytewise reference for the inner loops of `skip_container` on the bytes from `ptr` on
(no 8-byte chunks).  Same result type as the model's `skipScan`. -/
def skipRef : Bytes → SkipSt → Int → Nat → SkipScan
  | [], st, depth, ptr => .refill st depth ptr
  | c :: rest, .none, depth, ptr =>
    if c == 123 then skipRef rest .none (depth + 1) (ptr + 1)
    else if c == 125 then
      if depth - 1 == 0 then .done (ptr + 1) else skipRef rest .none (depth - 1) (ptr + 1)
    else if c == 34 then skipRef rest .quote depth (ptr + 1)
    else if c == 35 then skipRef rest .comment depth (ptr + 1)
    else skipRef rest .none depth (ptr + 1)
  | c :: rest, .quote, depth, ptr =>
    if c == 92 then
      match rest with
      | [] => .refill .quote depth ptr
      | [_] => .refill .quote depth ptr
      | _ :: d :: rest' => skipRef (d :: rest') .quote depth (ptr + 2)
    else if c != 34 then skipRef rest .quote depth (ptr + 1)
    else skipRef rest .none depth (ptr + 1)
  | c :: rest, .comment, depth, ptr =>
    if c == 10 then skipRef rest .none depth (ptr + 1)
    else skipRef rest .comment depth (ptr + 1)

/-- bytewise depth tracking over bytes that contain no quote and no `#`: `none` = the container closed. -/
def depthAfter : Bytes → Int → Option Int
  | [], depth => some depth
  | c :: rest, depth =>
    if c == 123 then depthAfter rest (depth + 1)
    else if c == 125 then (if depth - 1 == 0 then none else depthAfter rest (depth - 1))
    else depthAfter rest depth

/-- one step of the reference tokenizer over the whole remaining input -/
inductive Step1
  | tok (adv : Nat) (t : Token) (bom : Bom)   -- token `t`, `adv` bytes consumed
  | end_ (bom : Bom)                          -- clean end of input, everything consumed
  | eof (at_ : Nat) (bom : Bom)               -- `Eof` error reported at offset `at_`
  deriving Repr

/-- end-of-input reading of a scan of the whole remaining input `d` (what `next_opt_refill` does
when `fill_buf` reports `Ok(0)`); `none` for the BOM arm's own refill request and for the
unreachable empty carry. -/
def interp (d : Bytes) : Bom × Scan → Option Step1
  | (b, .tok adv t) => some (.tok adv t b)
  | (b, .refill .none carry _) =>
    if carry == 0 then some (.end_ b)
    else
      match d.drop (d.length - carry) with
      | [] => none
      | c :: _ => if c == 35 then some (.end_ b) else some (.eof (d.length - carry) b)
  | (b, .refill .quote carry _) => some (.eof (d.length - carry) b)
  | (b, .refill .unquoted carry _) => some (.tok d.length (.unquoted (d.drop (d.length - carry))) b)
  | (_, .bomFill) => none

/-- **the reference the property names**: the next token of the whole remaining input `d`, scanned
byte by byte from its start (`pos0` = we are at stream position 0, `bom` = BOM state). -/
def specStep (pos0 : Bool) (bom : Bom) (d : Bytes) : Option Step1 :=
  match fbLoop pos0 d .top 0 bom with
  | (_, .bomFill) => interp d (fbLoop pos0 d .top 0 .notPresent)   -- fewer than three bytes in all: not a BOM
  | res => interp d res

/-! ### what has to fit in the buffer -/

/-- bytes the buffer must hold so that the refill requested by a scan of the window `w` does not report `BufferFull`:
the carried bytes plus one more byte (the look-ahead / the next byte of the token) -/
def carryNeed (w : Bytes) : Bom × Scan → Nat
  | (_, .refill _ k _) => k + 1
  | (_, .bomFill) => w.length + 1
  | _ => 0

def maxOver : Nat → (Nat → Nat) → Nat
  | 0, f => f 0
  | n + 1, f => max (f (n + 1)) (maxOver n f)

/-- the largest requirement over all windows that are prefixes of the remaining input `d`, for one call: these are the
prefixes of the FIRST item of `d` (blank run, comment, token with its look-ahead); longer prefixes decide the token. -/
def callNeed (pos0 : Bool) (bom : Bom) (d : Bytes) : Nat :=
  maxOver d.length (fun j =>
    max (carryNeed (d.take j) (fbLoop pos0 (d.take j) .top 0 bom))
        -- fewer than three bytes in all: the BOM arm's refill can hit the end, the scan then restarts with the BOM ruled out
        (if d.length < 3 then carryNeed (d.take j) (fbLoop pos0 (d.take j) .top 0 .notPresent) else 0))

/-- … and over all calls: follow the reference tokenizer from token to token -/
def needFrom : Nat → Nat → Bom → Bytes → Nat
  | 0, _, _, _ => 0
  | n + 1, pos, bom, d =>
    max (callNeed (pos == 0) bom d)
      (match specStep (pos == 0) bom d with
       | some (.tok adv _ b') => needFrom n (pos + adv) b' (d.drop adv)
       | _ => 0)

/-- **the fit predicate**: the smallest buffer capacity with which every token, comment and look-ahead of `data` fits
(comment length + 1, unquoted length + 1, quoted content + 1, `@[…]` length, 2 for an operator, up to 3 for a leading
`0xEF`, at least 1).  A decidable function of the input; the harness computes the same number with an independent
byte-at-a-time lexer (`ref_lex(..).need`, compared by the op `tneed`). -/
def need (data : Bytes) : Nat := max 1 (needFrom (fuelFor data) 0 .unknown data)

/-- the buffer of capacity `cap` can hold the longest token / comment of `data` together with its look-ahead byte -/
def fits (cap : Nat) (data : Bytes) : Bool := decide (need data ≤ cap)

end Jomini.TextReader.Spec
