import JominiModel.Model.TextReader
/-
Reference definitions the text-reader theorems talk about: byte-at-a-time scans over the
*whole* remaining input (no windows, no resume offsets, no 8-byte words).
-/
namespace Jomini.TextReader.Spec
open Jomini Jomini.TextReader

/-- offset of the quote that closes a quoted body: a backslash hides the byte after it.
The list starts at offset `i`. -/
def quoteEnd : Bytes → Nat → Option Nat
  | [], _ => none
  | c :: rest, i =>
    if c == 92 then
      match rest with
      | [] => none
      | _ :: rest' => quoteEnd rest' (i + 2)
    else if c != 34 then quoteEnd rest (i + 1)
    else some i

/-- bytewise reference for the inner loops of `skip_container` on the bytes from `ptr` on
(no 8-byte chunks).  Same result type as the model's `skipScan`. -/
def skipRef : Bytes → SkipSt → Int → Nat → SkipScan
  | [], st, depth, ptr => .refill st depth ptr
  | c :: rest, .none, depth, ptr =>
    if c == 123 then skipRef rest .none (depth + 1) (ptr + 1)
    else if c == 125 then
      if depth - 1 == 0 then .done (ptr + 1) else skipRef rest .none (depth - 1) (ptr + 1)
    else if c == 34 then skipRef rest .quote depth (ptr + 1)
    else if c == 35 then skipRef rest .comment depth (ptr + 1)
    else skipRef rest .none depth (ptr + 1)
  | c :: rest, .quote, depth, ptr =>
    if c == 92 then
      match rest with
      | [] => .refill .quote depth ptr
      | [_] => .refill .quote depth ptr
      | _ :: d :: rest' => skipRef (d :: rest') .quote depth (ptr + 2)
    else if c != 34 then skipRef rest .quote depth (ptr + 1)
    else skipRef rest .none depth (ptr + 1)
  | c :: rest, .comment, depth, ptr =>
    if c == 10 then skipRef rest .none depth (ptr + 1)
    else skipRef rest .comment depth (ptr + 1)

/-- bytewise depth tracking over bytes that contain no quote and no `#`: `none` = the container closed. -/
def depthAfter : Bytes → Int → Option Int
  | [], depth => some depth
  | c :: rest, depth =>
    if c == 123 then depthAfter rest (depth + 1)
    else if c == 125 then (if depth - 1 == 0 then none else depthAfter rest (depth - 1))
    else depthAfter rest depth

end Jomini.TextReader.Spec
