import JominiModel.Spec.TextTape
/-
The FULL document type of C01 (`C01_faithful_full` / `C01_layout_independent_full`):
`FFields` extends `JFields` (Spec/TextTape.lean, which other slices import and which is left
untouched) by the shapes `JFields` leaves out:

* the array part of a mixed container holds scalars, operators (`0=2`: the `Operator(Equal)` token
  is kept there) and containers (`FItems`);
* the first field of a nested object may be a header field (`{ a = rgb { 1 } … }`) or a parameter
  block (`FFirst`), a parameter value may be the header of a container (`[[p] v] { … }`);
* arrays that turn mixed (`{ 10 0=2 1=2 }`).

`JFields` embeds (`JFields.toF`, Proofs/TextDocFull*.lean) with the same bytes, validity and tape.
-/
namespace Jomini.TextTape

mutual
/-- a value with its layout (`g` = blanks in front of it, `gc` = blanks in front of its `}`) -/
inductive FVal
  | scal (g : Bytes) (s : Scal)
  | empty (g gc : Bytes)
  /-- `{ first fields… }` -/
  | obj (g g0 : Bytes) (first : FFirst) (rest : FFields) (gc : Bytes)
  | arrS (g g0 : Bytes) (s0 : Scal) (rest : FVals) (gc : Bytes)
  | arrC (g : Bytes) (first : FVal) (rest : FVals) (gc : Bytes)
  /-- a ghost `{}` at the very start of the braced value `v` -/
  | ghostIn (g b1 b2 : Bytes) (v : FVal)
  /-- object→array mixed container `{ first fields… m0 items… }` -/
  | mixed (g g0 : Bytes) (first : FFirst) (rest : FFields) (gm : Bytes) (m0 : Scal) (items : FItems)
      (gc : Bytes)
  /-- an array that turns mixed, first element a scalar: `{ s0 pre… m0 op items… }` — the scalar `m0`
  is followed by an operator (`{ 10 0=2 1=2 }`): `MixedContainer` goes in front of `m0` -/
  | arrSM (g g0 : Bytes) (s0 : Scal) (pre : FVals) (gm : Bytes) (m0 : Scal) (go : Bytes) (o : Op)
      (items : FItems) (gc : Bytes)
  /-- the same with a non-empty container as first element -/
  | arrCM (g : Bytes) (first : FVal) (pre : FVals) (gm : Bytes) (m0 : Scal) (go : Bytes) (o : Op)
      (items : FItems) (gc : Bytes)
/-- the first field of a nested object (the one ParseOpen sees) -/
inductive FFirst
  | kv (key : Scal) (g1 : Bytes) (op : Op) (v : FVal)
  /-- the object starts with a header field (`{ a = rgb { 1 } … }`) or a parameter block
  (`{ [[p] v] … }`); `f` holds that field (with the blanks in front of it) and may go on with
  further fields -/
  | flds (f : FFields)
inductive FFields
  | nil
  | cons (g0 : Bytes) (key : Scal) (g1 : Bytes) (op : Op) (v : FVal) (rest : FFields)
  | consImp (g0 : Bytes) (key : Scal) (v : FVal) (rest : FFields)
  | ghost (g gc : Bytes) (rest : FFields)
  | consHdr (g0 : Bytes) (key : Scal) (g1 : Bytes) (op : Op) (gh : Bytes) (h : Scal) (body : FVal) (rest : FFields)
  | paramVal (g0 : Bytes) (isU : Bool) (name : Bytes) (g1 : Bytes) (val : Scal) (g2 : Bytes) (rest : FFields)
  | paramObj (g0 : Bytes) (isU : Bool) (name : Bytes) (g1 : Bytes) (key : Scal) (g2 : Bytes) (op : Op)
      (v : FVal) (inner : FFields) (gc : Bytes) (rest : FFields)
  /-- `[[name] value ] { … }`: the value of a parameter block directly followed by a non-empty
  container is the header of that container -/
  | paramHdr (g0 : Bytes) (isU : Bool) (name : Bytes) (g1 : Bytes) (val : Scal) (g2 : Bytes) (body : FVal)
      (rest : FFields)
inductive FVals
  | nil
  | cons (v : FVal) (rest : FVals)
/-- the array part of a mixed container: scalars, operators, containers -/
inductive FItems
  | nil
  | scal (g : Bytes) (s : Scal) (rest : FItems)
  | op (g : Bytes) (o : Op) (rest : FItems)
  | cont (v : FVal) (rest : FItems)
end

mutual
def frenderV : FVal → Bytes
  | .scal g s => g ++ s.text
  | .empty g gc => g ++ 123 :: (gc ++ [125])
  | .obj g g0 first rest gc =>
    g ++ 123 :: (g0 ++ (frenderFirst first ++ (frenderF rest ++ (gc ++ [125]))))
  | .arrS g g0 s0 rest gc => g ++ 123 :: (g0 ++ (s0.text ++ (frenderVs rest ++ (gc ++ [125]))))
  | .arrC g first rest gc => g ++ 123 :: (frenderV first ++ (frenderVs rest ++ (gc ++ [125])))
  | .ghostIn g b1 b2 v => g ++ 123 :: (b1 ++ 123 :: (b2 ++ 125 :: finner v))
  | .mixed g g0 first rest gm m0 items gc =>
    g ++ 123 :: (g0 ++ (frenderFirst first ++ (frenderF rest ++
      (gm ++ (m0.text ++ (frenderI items ++ (gc ++ [125])))))))
  | .arrSM g g0 s0 pre gm m0 go o items gc =>
    g ++ 123 :: (g0 ++ (s0.text ++ (frenderVs pre ++
      (gm ++ (m0.text ++ (go ++ (o.text ++ (frenderI items ++ (gc ++ [125])))))))))
  | .arrCM g first pre gm m0 go o items gc =>
    g ++ 123 :: (frenderV first ++ (frenderVs pre ++
      (gm ++ (m0.text ++ (go ++ (o.text ++ (frenderI items ++ (gc ++ [125]))))))))
/-- what stands behind the opening `{` of a braced value. -/
def finner : FVal → Bytes
  | .scal _ _ => []
  | .empty _ gc => gc ++ [125]
  | .obj _ g0 first rest gc => g0 ++ (frenderFirst first ++ (frenderF rest ++ (gc ++ [125])))
  | .arrS _ g0 s0 rest gc => g0 ++ (s0.text ++ (frenderVs rest ++ (gc ++ [125])))
  | .arrC _ first rest gc => frenderV first ++ (frenderVs rest ++ (gc ++ [125]))
  | .ghostIn _ b1 b2 v => b1 ++ 123 :: (b2 ++ 125 :: finner v)
  | .mixed _ g0 first rest gm m0 items gc =>
    g0 ++ (frenderFirst first ++ (frenderF rest ++ (gm ++ (m0.text ++ (frenderI items ++ (gc ++ [125]))))))
  | .arrSM _ g0 s0 pre gm m0 go o items gc =>
    g0 ++ (s0.text ++ (frenderVs pre ++
      (gm ++ (m0.text ++ (go ++ (o.text ++ (frenderI items ++ (gc ++ [125]))))))))
  | .arrCM _ first pre gm m0 go o items gc =>
    frenderV first ++ (frenderVs pre ++
      (gm ++ (m0.text ++ (go ++ (o.text ++ (frenderI items ++ (gc ++ [125])))))))
def frenderFirst : FFirst → Bytes
  | .kv k g1 o v => k.text ++ (g1 ++ (o.text ++ frenderV v))
  | .flds f => frenderF f
def frenderF : FFields → Bytes
  | .nil => []
  | .cons g0 k g1 o v rest => g0 ++ (k.text ++ (g1 ++ (o.text ++ (frenderV v ++ frenderF rest))))
  | .consImp g0 k v rest => g0 ++ (k.text ++ (frenderV v ++ frenderF rest))
  | .ghost g gc rest => g ++ 123 :: (gc ++ 125 :: frenderF rest)
  | .consHdr g0 k g1 o gh h body rest =>
    g0 ++ (k.text ++ (g1 ++ (o.text ++ (gh ++ (h.text ++ (frenderV body ++ frenderF rest))))))
  | .paramVal g0 isU name g1 val g2 rest =>
    g0 ++ (paramOpen isU name ++ (g1 ++ (val.text ++ (g2 ++ 93 :: frenderF rest))))
  | .paramObj g0 isU name g1 k g2 o v inner gc rest =>
    g0 ++ (paramOpen isU name ++ (g1 ++ (k.text ++ (g2 ++ (o.text ++ (frenderV v ++ (frenderF inner ++
      (gc ++ 93 :: frenderF rest))))))))
  | .paramHdr g0 isU name g1 val g2 body rest =>
    g0 ++ (paramOpen isU name ++ (g1 ++ (val.text ++ (g2 ++ 93 :: (frenderV body ++ frenderF rest)))))
def frenderVs : FVals → Bytes
  | .nil => []
  | .cons v rest => frenderV v ++ frenderVs rest
def frenderI : FItems → Bytes
  | .nil => []
  | .scal g s rest => g ++ (s.text ++ frenderI rest)
  | .op g o rest => g ++ (o.text ++ frenderI rest)
  | .cont v rest => frenderV v ++ frenderI rest
end

def FVal.isBraced : FVal → Prop
  | .scal .. => False
  | _ => True

def FVal.isContainer : FVal → Prop
  | .obj .. | .arrS .. | .arrC .. | .ghostIn .. | .mixed .. | .arrSM .. | .arrCM .. => True
  | _ => False

def FVal.gap : FVal → Bytes
  | .scal g _ | .empty g _ | .obj g .. | .arrS g .. | .arrC g .. | .ghostIn g .. | .mixed g ..
  | .arrSM g .. | .arrCM g .. => g

/-- a field list that starts with a header field or a parameter block -/
def FFields.startsSpecial : FFields → Prop
  | .consHdr .. | .paramVal .. | .paramObj .. | .paramHdr .. => True
  | _ => False

def FFields.hdrLed : FFields → Prop
  | .consHdr .. => True
  | _ => False

/-- the first field starts with a scalar key (not with a parameter block) -/
def FFirst.scalarLed : FFirst → Prop
  | .kv .. => True
  | .flds f => f.hdrLed

/-- a container whose first token behind `{` is a scalar: as an element of a mixed container's
array part it keeps the mixed mode alive (ParseOpen flags the enclosing container).  An empty
container, one that starts with `{` or with a ghost `{}` makes the parser fall back to reading
`key = value` fields (a tolerated malformation, outside the document type). -/
def FVal.scalarLed : FVal → Prop
  | .obj _ _ first _ _ => first.scalarLed
  | .arrS .. => True
  | .arrSM .. => True
  | .mixed _ _ first .. => first.scalarLed
  | _ => False

mutual
/-- layout validity of a value followed by `after`. -/
def FValidV : FVal → Bytes → Prop
  | .scal g s, after => Blank g ∧ s.ValidX ∧ (s.quoted = false → StartsBoundary after)
  | .empty g gc, _ => Blank g ∧ Blank gc
  | .obj g g0 first rest gc, after =>
    Blank g ∧ Blank g0 ∧ Blank gc ∧
    FValidFirst first (frenderF rest ++ (gc ++ 125 :: after)) ∧ FValidF rest (gc ++ 125 :: after)
  | .arrS g g0 s0 rest gc, after =>
    Blank g ∧ Blank g0 ∧ Blank gc ∧ s0.ValidX ∧
    (s0.quoted = false → StartsBoundary (frenderVs rest ++ (gc ++ 125 :: after))) ∧
    (∀ d2, skipWs (frenderVs rest ++ (gc ++ 125 :: after)) = some d2 → firstFieldPeek d2 = false) ∧
    FValidVs rest (gc ++ 125 :: after)
  | .arrC g first rest gc, after =>
    Blank g ∧ Blank gc ∧ first.isContainer ∧
    FValidV first (frenderVs rest ++ (gc ++ 125 :: after)) ∧ FValidVs rest (gc ++ 125 :: after)
  | .ghostIn g b1 b2 v, after =>
    Blank g ∧ Blank b1 ∧ Blank b2 ∧ v.isBraced ∧ v.gap = [] ∧ FValidV v after
  | .mixed g g0 first rest gm m0 items gc, after =>
    let E := frenderI items ++ (gc ++ 125 :: after)
    Blank g ∧ Blank g0 ∧ Blank gm ∧ Blank gc ∧
    FValidFirst first (frenderF rest ++ (gm ++ (m0.text ++ E))) ∧ FValidF rest (gm ++ (m0.text ++ E)) ∧
    m0.ValidX ∧ (m0.quoted = false → StartsBoundary E) ∧
    (∀ d2, skipWs E = some d2 → lexOperator true d2 = none ∧ d2.head? ≠ some 123) ∧
    FValidI items (gc ++ 125 :: after)
  | .arrSM g g0 s0 pre gm m0 go o items gc, after =>
    let I := frenderI items ++ (gc ++ 125 :: after)
    let M := gm ++ (m0.text ++ (go ++ (o.text ++ I)))
    Blank g ∧ Blank g0 ∧ Blank gm ∧ Blank go ∧ Blank gc ∧ s0.ValidX ∧
    (s0.quoted = false → StartsBoundary (frenderVs pre ++ M)) ∧
    (∀ d2, skipWs (frenderVs pre ++ M) = some d2 → firstFieldPeek d2 = false) ∧
    FValidVs pre M ∧ m0.ValidX ∧ (m0.quoted = false → StartsBoundary (go ++ (o.text ++ I))) ∧
    o ≠ .exists_ ∧ (o.text.length = 1 → I.head? ≠ some 61) ∧ FValidI items (gc ++ 125 :: after)
  | .arrCM g first pre gm m0 go o items gc, after =>
    let I := frenderI items ++ (gc ++ 125 :: after)
    let M := gm ++ (m0.text ++ (go ++ (o.text ++ I)))
    Blank g ∧ Blank gm ∧ Blank go ∧ Blank gc ∧ first.isContainer ∧
    FValidV first (frenderVs pre ++ M) ∧ FValidVs pre M ∧
    m0.ValidX ∧ (m0.quoted = false → StartsBoundary (go ++ (o.text ++ I))) ∧
    o ≠ .exists_ ∧ (o.text.length = 1 → I.head? ≠ some 61) ∧ FValidI items (gc ++ 125 :: after)
def FValidFirst : FFirst → Bytes → Prop
  | .kv k g1 o v, after =>
    Blank g1 ∧ k.ValidX ∧ (k.quoted = false → StartsBoundary (g1 ++ o.text)) ∧ FValidV v after
  | .flds f, after => f.startsSpecial ∧ FValidF f after
def FValidF : FFields → Bytes → Prop
  | .nil, _ => True
  | .cons g0 k g1 o v rest, after =>
    Blank g0 ∧ Blank g1 ∧ k.ValidX ∧ (k.quoted = false → StartsBoundary (g1 ++ o.text)) ∧
    FValidV v (frenderF rest ++ after) ∧ FValidF rest after
  | .consImp g0 k v rest, after =>
    Blank g0 ∧ k.ValidX ∧ v.isBraced ∧
    (k.quoted = false → StartsBoundary (frenderV v ++ (frenderF rest ++ after))) ∧
    FValidV v (frenderF rest ++ after) ∧ FValidF rest after
  | .ghost g gc rest, after => Blank g ∧ Blank gc ∧ FValidF rest after
  | .consHdr g0 k g1 o gh h body rest, after =>
    Blank g0 ∧ Blank g1 ∧ Blank gh ∧ k.ValidX ∧ (k.quoted = false → StartsBoundary (g1 ++ o.text)) ∧
    h.Valid ∧ h.quoted = false ∧ StartsBoundary (frenderV body ++ (frenderF rest ++ after)) ∧
    body.isContainer ∧ FValidV body (frenderF rest ++ after) ∧ FValidF rest after
  | .paramVal g0 isU name g1 val g2 rest, after =>
    Blank g0 ∧ Blank g1 ∧ Blank g2 ∧ IsParamName name ∧ val.Valid ∧ val.quoted = false ∧
    StartsBoundary (g2 ++ 93 :: (frenderF rest ++ after)) ∧ FValidF rest after
  | .paramObj g0 isU name g1 k g2 o v inner gc rest, after =>
    Blank g0 ∧ Blank g1 ∧ Blank g2 ∧ Blank gc ∧ IsParamName name ∧ k.Valid ∧ k.quoted = false ∧
    StartsBoundary (g2 ++ o.text) ∧
    FValidV v (frenderF inner ++ (gc ++ 93 :: (frenderF rest ++ after))) ∧
    FValidF inner (gc ++ 93 :: (frenderF rest ++ after)) ∧ FValidF rest after
  | .paramHdr g0 isU name g1 val g2 body rest, after =>
    Blank g0 ∧ Blank g1 ∧ Blank g2 ∧ IsParamName name ∧ val.Valid ∧ val.quoted = false ∧
    StartsBoundary (g2 ++ 93 :: (frenderV body ++ (frenderF rest ++ after))) ∧
    body.isContainer ∧ FValidV body (frenderF rest ++ after) ∧ FValidF rest after
def FValidVs : FVals → Bytes → Prop
  | .nil, _ => True
  | .cons v rest, after => FValidV v (frenderVs rest ++ after) ∧ FValidVs rest after
def FValidI : FItems → Bytes → Prop
  | .nil, _ => True
  | .scal g s rest, after =>
    Blank g ∧ s.ValidX ∧ (s.quoted = false → StartsBoundary (frenderI rest ++ after)) ∧ FValidI rest after
  | .op g o rest, after =>
    -- (`?=` is not an operator inside an array; `<`, `>`, `=` must not be followed by `=`)
    Blank g ∧ o ≠ .exists_ ∧ (o.text.length = 1 → (frenderI rest ++ after).head? ≠ some 61) ∧
    FValidI rest after
  | .cont v rest, after =>
    v.scalarLed ∧ FValidV v (frenderI rest ++ after) ∧ FValidI rest after
end

mutual
/-- number of tape tokens. -/
def fcntV : FVal → Nat
  | .scal _ _ => 1
  | .empty _ _ => 2
  | .obj _ _ first rest _ => 2 + fcntFirst first + fcntF rest
  | .arrS _ _ _ rest _ => 2 + 1 + fcntVs rest
  | .arrC _ first rest _ => 2 + fcntV first + fcntVs rest
  | .ghostIn _ _ _ v => fcntV v
  | .mixed _ _ first rest _ _ items _ => 2 + fcntFirst first + fcntF rest + 2 + fcntI items
  | .arrSM _ _ _ pre _ _ _ _ items _ => 2 + 1 + fcntVs pre + 3 + fcntI items
  | .arrCM _ first pre _ _ _ _ items _ => 2 + fcntV first + fcntVs pre + 3 + fcntI items
def fcntFirst : FFirst → Nat
  | .kv _ _ o v => 1 + o.toks.length + fcntV v
  | .flds f => fcntF f
def fcntF : FFields → Nat
  | .nil => 0
  | .cons _ _ _ o v rest => (1 + o.toks.length + fcntV v) + fcntF rest
  | .consImp _ _ v rest => (1 + fcntV v) + fcntF rest
  | .ghost _ _ rest => fcntF rest
  | .consHdr _ _ _ o _ _ body rest => (1 + o.toks.length + (1 + fcntV body)) + fcntF rest
  | .paramVal _ _ _ _ _ _ rest => 2 + fcntF rest
  | .paramObj _ _ _ _ _ _ o v inner _ rest => (3 + (1 + o.toks.length + fcntV v) + fcntF inner) + fcntF rest
  | .paramHdr _ _ _ _ _ _ body rest => (2 + fcntV body) + fcntF rest
def fcntVs : FVals → Nat
  | .nil => 0
  | .cons v rest => fcntV v + fcntVs rest
def fcntI : FItems → Nat
  | .nil => 0
  | .scal _ _ rest => 1 + fcntI rest
  | .op _ _ rest => 1 + fcntI rest
  | .cont v rest => fcntV v + fcntI rest
end

mutual
/-- the expected tape of a value whose first token gets index `base`, followed by `after`. -/
def ftapeV : FVal → Nat → Bytes → List Tok
  | .scal _ s, _, after => [s.tok after]
  | .empty _ _, base, _ => [.array (base + 1) false, .endTok base]
  | .obj _ _ first rest gc, base, after =>
    [.object (base + 1 + fcntFirst first + fcntF rest) false] ++
      (ftapeFirst first (base + 1) (frenderF rest ++ (gc ++ 125 :: after)) ++
        ftapeF rest (base + 1 + fcntFirst first) (gc ++ 125 :: after)) ++
      [.endTok base]
  | .arrS _ _ s0 rest gc, base, after =>
    [.array (base + 1 + 1 + fcntVs rest) false] ++
      ([s0.tok (frenderVs rest ++ (gc ++ 125 :: after))] ++
        ftapeVs rest (base + 1 + 1) (gc ++ 125 :: after)) ++
      [.endTok base]
  | .arrC _ first rest gc, base, after =>
    [.array (base + 1 + fcntV first + fcntVs rest) false] ++
      (ftapeV first (base + 1) (frenderVs rest ++ (gc ++ 125 :: after)) ++
        ftapeVs rest (base + 1 + fcntV first) (gc ++ 125 :: after)) ++
      [.endTok base]
  | .ghostIn _ _ _ v, base, after => ftapeV v base after
  | .mixed _ _ first rest gm m0 items gc, base, after =>
    let E := frenderI items ++ (gc ++ 125 :: after)
    [.object (base + 1 + fcntFirst first + fcntF rest + 2 + fcntI items) true] ++
      (ftapeFirst first (base + 1) (frenderF rest ++ (gm ++ (m0.text ++ E))) ++
        ftapeF rest (base + 1 + fcntFirst first) (gm ++ (m0.text ++ E)) ++
        [.mixedContainer, m0.tok E] ++
        ftapeI items (base + 1 + fcntFirst first + fcntF rest + 2) (gc ++ 125 :: after)) ++
      [.endTok base]
  | .arrSM _ _ s0 pre gm m0 go o items gc, base, after =>
    let I := frenderI items ++ (gc ++ 125 :: after)
    let M := gm ++ (m0.text ++ (go ++ (o.text ++ I)))
    [.array (base + 1 + 1 + fcntVs pre + 3 + fcntI items) true] ++
      ([s0.tok (frenderVs pre ++ M)] ++ ftapeVs pre (base + 1 + 1) M ++
        [.mixedContainer, m0.tok (go ++ (o.text ++ I)), .operator o] ++
        ftapeI items (base + 1 + 1 + fcntVs pre + 3) (gc ++ 125 :: after)) ++
      [.endTok base]
  | .arrCM _ first pre gm m0 go o items gc, base, after =>
    let I := frenderI items ++ (gc ++ 125 :: after)
    let M := gm ++ (m0.text ++ (go ++ (o.text ++ I)))
    [.array (base + 1 + fcntV first + fcntVs pre + 3 + fcntI items) true] ++
      (ftapeV first (base + 1) (frenderVs pre ++ M) ++ ftapeVs pre (base + 1 + fcntV first) M ++
        [.mixedContainer, m0.tok (go ++ (o.text ++ I)), .operator o] ++
        ftapeI items (base + 1 + fcntV first + fcntVs pre + 3) (gc ++ 125 :: after)) ++
      [.endTok base]
/-- the tokens of the first field (`base` = index of its first token) -/
def ftapeFirst : FFirst → Nat → Bytes → List Tok
  | .kv k g1 o v, base, after =>
    [k.tok (g1 ++ (o.text ++ (frenderV v ++ after)))] ++ o.toks ++ ftapeV v (base + 1 + o.toks.length) after
  | .flds f, base, after => ftapeF f base after
def ftapeF : FFields → Nat → Bytes → List Tok
  | .nil, _, _ => []
  | .cons _ k g1 o v rest, base, after =>
    [k.tok (g1 ++ (o.text ++ (frenderV v ++ (frenderF rest ++ after))))] ++ o.toks ++
      ftapeV v (base + 1 + o.toks.length) (frenderF rest ++ after) ++
      ftapeF rest (base + (1 + o.toks.length + fcntV v)) after
  | .consImp _ k v rest, base, after =>
    [k.tok (frenderV v ++ (frenderF rest ++ after))] ++
      ftapeV v (base + 1) (frenderF rest ++ after) ++ ftapeF rest (base + (1 + fcntV v)) after
  | .ghost _ _ rest, base, after => ftapeF rest base after
  | .consHdr _ k g1 o gh h body rest, base, after =>
    let Z := frenderV body ++ (frenderF rest ++ after)
    [k.tok (g1 ++ (o.text ++ (gh ++ (h.text ++ Z))))] ++ o.toks ++
      [.header ⟨h.bytes.length + Z.length, h.bytes⟩] ++
      ftapeV body (base + 1 + o.toks.length + 1) (frenderF rest ++ after) ++
      ftapeF rest (base + (1 + o.toks.length + (1 + fcntV body))) after
  | .paramVal _ isU name g1 val g2 rest, base, after =>
    let R := frenderF rest ++ after
    [paramTok isU ⟨(name ++ 93 :: (g1 ++ (val.text ++ (g2 ++ 93 :: R)))).length, name⟩,
      .unquoted ⟨(val.text ++ (g2 ++ 93 :: R)).length, val.bytes⟩] ++ ftapeF rest (base + 2) after
  | .paramObj _ isU name g1 k g2 o v inner gc rest, base, after =>
    let R := frenderF rest ++ after
    let tail := frenderF inner ++ (gc ++ 93 :: R)
    let Y := g1 ++ (k.text ++ (g2 ++ (o.text ++ (frenderV v ++ tail))))
    [paramTok isU ⟨(name ++ 93 :: Y).length, name⟩,
      .object (base + 2 + (1 + o.toks.length + fcntV v) + fcntF inner) false,
      .unquoted ⟨(k.text ++ (g2 ++ (o.text ++ (frenderV v ++ tail)))).length, k.bytes⟩] ++ o.toks ++
      ftapeV v (base + 3 + o.toks.length) tail ++
      ftapeF inner (base + 2 + (1 + o.toks.length + fcntV v)) (gc ++ 93 :: R) ++
      [.endTok (base + 1)] ++
      ftapeF rest (base + ((3 + (1 + o.toks.length + fcntV v) + fcntF inner))) after
  | .paramHdr _ isU name g1 val g2 body rest, base, after =>
    let R := frenderV body ++ (frenderF rest ++ after)
    [paramTok isU ⟨(name ++ 93 :: (g1 ++ (val.text ++ (g2 ++ 93 :: R)))).length, name⟩,
      .header ⟨(val.text ++ (g2 ++ 93 :: R)).length, val.bytes⟩] ++
      ftapeV body (base + 2) (frenderF rest ++ after) ++ ftapeF rest (base + (2 + fcntV body)) after
def ftapeVs : FVals → Nat → Bytes → List Tok
  | .nil, _, _ => []
  | .cons v rest, base, after =>
    ftapeV v base (frenderVs rest ++ after) ++ ftapeVs rest (base + fcntV v) after
def ftapeI : FItems → Nat → Bytes → List Tok
  | .nil, _, _ => []
  | .scal _ s rest, base, after => s.tok (frenderI rest ++ after) :: ftapeI rest (base + 1) after
  | .op _ o rest, base, after => .operator o :: ftapeI rest (base + 1) after
  | .cont v rest, base, after =>
    ftapeV v base (frenderI rest ++ after) ++ ftapeI rest (base + fcntV v) after
end

mutual
/-- main-loop iterations. -/
def fstepsV : FVal → Nat
  | .scal _ _ => 1
  | .empty _ _ => 2
  | .obj _ _ first rest _ => 1 + fstepsFirst first + fstepsF rest + 1
  | .arrS _ _ _ rest _ => 2 + fstepsVs rest + 1
  | .arrC _ first rest _ => 2 + fstepsV first + fstepsVs rest + 1
  | .ghostIn _ _ _ v => 1 + fstepsV v
  | .mixed _ _ first rest _ _ items _ => 1 + fstepsFirst first + fstepsF rest + 2 + fstepsI items + 1
  | .arrSM _ _ _ pre _ _ _ _ items _ => 2 + fstepsVs pre + 2 + fstepsI items + 1
  | .arrCM _ first pre _ _ _ _ items _ => 2 + fstepsV first + fstepsVs pre + 2 + fstepsI items + 1
/-- iterations of the first field, from ParseOpen to Key -/
def fstepsFirst : FFirst → Nat
  | .kv _ _ _ v => 2 + fstepsV v
  | .flds f => fstepsF f
def fstepsF : FFields → Nat
  | .nil => 0
  | .cons _ _ _ _ v rest => 2 + fstepsV v + fstepsF rest
  | .consImp _ _ v rest => 2 + fstepsV v + fstepsF rest
  | .ghost _ _ rest => 1 + fstepsF rest
  | .consHdr _ _ _ _ _ _ body rest => 3 + fstepsV body + fstepsF rest
  | .paramVal _ _ _ _ _ _ rest => 1 + fstepsF rest
  | .paramObj _ _ _ _ _ _ _ v inner _ rest => 2 + fstepsV v + fstepsF inner + 1 + fstepsF rest
  | .paramHdr _ _ _ _ _ _ body rest => 1 + fstepsV body + fstepsF rest
def fstepsVs : FVals → Nat
  | .nil => 0
  | .cons v rest => fstepsV v + fstepsVs rest
def fstepsI : FItems → Nat
  | .nil => 0
  | .scal _ _ rest => 1 + fstepsI rest
  | .op _ _ rest => 1 + fstepsI rest
  | .cont v rest => fstepsV v + fstepsI rest
end

end Jomini.TextTape
