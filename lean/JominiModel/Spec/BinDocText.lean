import JominiModel.Spec.BinDoc
import JominiModel.Model.Scalar
/-
The TEXT view of a document of the shared text/binary subset, and what it means for a target
type (C10).  A logical document is given as the binary document `BDoc`; its text view writes
integers as decimal text, Bool as yes/no, the F32 fixed point as "1.500", strings as scalars,
token ids as the name the resolver gives them, rgb as the header `rgb { r g b }`.

Leaf meaning on the text side is what both text deserializers do (text/de.rs:309-420 and
1195-1316): the typed hint converts the scalar with `Scalar::to_bool / to_i64 / to_u64 / to_f64`
(`Model/Scalar.lean`) and hands the visitor `visit_bool / visit_i64 / visit_u64 / visit_f64`;
a failed conversion falls back to the decoded string.
-/
namespace Jomini.BinDe
open Jomini

/-- decimal digits, most significant first (fuel: more than the number of digits). -/
def digitsAux : Nat → Nat → Bytes → Bytes
  | 0, _, acc => acc
  | f + 1, n, acc =>
    if n < 10 then UInt8.ofNat (48 + n) :: acc
    else digitsAux f (n / 10) (UInt8.ofNat (48 + n % 10) :: acc)

/-- `u64::to_string` / itoa. -/
def fmtNat (n : Nat) : Bytes := digitsAux (n + 1) n []

/-- `i64::to_string`. -/
def fmtInt (n : Int) : Bytes := if n < 0 then 45 :: fmtNat n.natAbs else fmtNat n.natAbs

/-- docgen.rs `Leaf::Fixed`: `format!("{}{}.{:03}", sign, a / 1000, a % 1000)`. -/
def fmtFixed (t : Int) : Bytes :=
  let a := t.natAbs
  let frac := a % 1000
  (if t < 0 then [45] else []) ++ fmtNat (a / 1000) ++
    [46, UInt8.ofNat (48 + frac / 100), UInt8.ofNat (48 + frac / 10 % 10), UInt8.ofNat (48 + frac % 10)]

/-- the scalar a leaf is written as in the text rendering (`none`: not in the shared subset). -/
def leafText (c : Cfg) : BLeaf → Option Bytes
  | .i32 n => some (fmtInt n) | .i64 n => some (fmtInt n)
  | .u32 n => some (fmtNat n) | .u64 n => some (fmtNat n)
  | .bool b => some (if b then [121, 101, 115] else [110, 111])
  | .f32 raw => some (fmtFixed (toSigned 32 (leNat raw)))
  | .f64 _ => none
  | .quoted b => some b | .unquoted b => some b
  | .id n => resolve c n

/-- a text scalar for a type. -/
def textScalarVal (t : Ty) (s : Bytes) : Res String :=
  let str : Prim := .str (decode1252 s)
  match t with
  | .i64 | .i32 | .i16 | .i8 => match Scalar.toI64 s with | .ok n => visitPrim t (.i64 n) | .error _ => visitPrim t str
  | .u64 | .u32 | .u16 | .u8 => match Scalar.toU64 s with | .ok n => visitPrim t (.u64 n) | .error _ => visitPrim t str
  | .f64 | .f32 => match Scalar.toF64 s with | .ok b => visitPrim t (.f64 b) | .error _ => visitPrim t str
  | .bool => match Scalar.toBool s with | .ok b => visitPrim t (.bool b) | .error _ => visitPrim t str
  | .enum vs => enumVal vs str
  | t => visitPrim t str

def textLeaf (c : Cfg) (t : Ty) (l : BLeaf) : Res String :=
  match leafText c l with
  | some s => textScalarVal t s
  | none => .error .beyond

def someStr : Res String → Res String
  | .ok v => .ok ("some(" ++ v ++ ")")
  | .error e => .error e

/-- a text scalar for a type under `Option` layers (`visit_some(self)`). -/
def textScalarOpt : Ty → Bytes → Res String
  | .opt t, s => someStr (textScalarOpt t s)
  | t, s => textScalarVal t s

/-- second element of a header value: the array `{ r g b }` of scalars. -/
def textInner (col : Rgb) (t : Ty) : Res String :=
  match t with
  | .ign => .ok "ign"
  | .opt t' => someStr (textInner col t')
  | .any => .ok ("[" ++ joinComma (col.comps.map (fun v => renderPrim (.str (fmtNat v)))) ++ "]")
  | .seq et => seqFrom et (col.comps.map (fun v et => textScalarOpt et (fmtNat v))) []
  | .struct fs => structFromSeq fs (col.comps.map (fun v et => textScalarOpt et (fmtNat v))) []
  | _ => .error .type

/-- a header value `rgb { r g b }` read with request `t` by the tape-based text deserializer (de.rs:1085-1340 with
dom.rs `read_array`; measured on the real code, see corpus/C10.txt): a scalar request reads the header's NAME
(`read_scalar` on the header token), `deserialize_any` and the struct / map requests go to the BODY `{ r g b }`, a
sequence request gets the two elements *header token* (read with the element type: this same function) and *body*
(`read_array` on a header starts at the header token).  Only a typed pair - first element a string, second a sequence
of integers - reads as `("rgb", [r, g, b])` like the binary `ColorSequence`
(tests/de.rs `same_deserializer_for_header_token`); with `any` elements the text side yields the body twice. -/
def textColor (t : Ty) (col : Rgb) : Res String :=
  match t with
  | .ign => .ok "ign"
  | .any => textInner col .any
  | .seq e =>
    match textColor e col with
    | .error x => .error x
    | .ok v1 =>
      match textInner col e with
      | .error x => .error x
      | .ok v2 => .ok ("[" ++ joinComma [v1, v2] ++ "]")
  | .struct fs => textInner col (.struct fs)
  | .map _ => .error .type
  | .prop _ => .error .beyond
  | .opt t' => someStr (textColor t' col)
  | t => textScalarVal t [114, 103, 98]

/-- the text format: every key is a string. -/
def textSem (c : Cfg) : Sem :=
  { leaf := textLeaf c
    color := textColor
    key := fun k => match leafText c k with | some s => .ok (.str (decode1252 s)) | none => .error .beyond }

/-- the value the text rendering of a document has for a root request. -/
def valueOfText (c : Cfg) (ty : RootTy) (d : BDoc) : Res String := valueOfG (textSem c) ty d

end Jomini.BinDe
