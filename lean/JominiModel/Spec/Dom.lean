import JominiModel.Model.Dom
/-
Reference definitions the C17 theorems talk about: the stable group-by-key of a field list.
-/
namespace Jomini.Dom
open Jomini

/-- the `(operator, value)` pairs of the fields whose raw key bytes are `k`, in field order -/
def occ (k : Bytes) (fs : List Field) : List OpValue :=
  (fs.filter (fun f => decide (f.keyBytes = k))).map Field.ov

/-- the fields whose key did not occur earlier (nor in `seen`), in order -/
def firsts : List Field → List Bytes → List Field
  | [], _ => []
  | f :: fs, seen =>
    if f.keyBytes ∈ seen then firsts fs seen else f :: firsts fs (f.keyBytes :: seen)

/-- stable group-by-key: each distinct key once, in order of first appearance (represented by
its first field), with exactly the `(operator, value)` pairs of that key in field order -/
def groupBy (fs : List Field) : List (Field × List OpValue) :=
  (firsts fs []).map (fun f => (f, occ f.keyBytes fs))

/-- a drained `FieldGroupsIter` item as (first field of the key, its `(operator, value)` pairs) -/
def groupOut (p : Field × GroupEntry) : Field × List OpValue := (p.1, p.2.toList)

/-- `WfObj`: the range is a regular field sequence (decidable: `objWalk` is executable) -/
def WfObj (t : Tape) (s e : Nat) : Prop := (objWalk t s e).isSome = true

instance (t : Tape) (s e : Nat) : Decidable (WfObj t s e) := by unfold WfObj; infer_instance

end Jomini.Dom
