import JominiModel.Model.BinLexer
/-
Reference for C09 (binary): skipping a container = reading tokens with `read_token` and
counting opens and closes.
-/
namespace Jomini.BinLexer
open Jomini

/-- read tokens with the reference lexer, count opens and closes; `some (.ok r)`: the close
matching the already-consumed open (at `depth = 1`) was found and `r` is what follows it.
`none`: fuel exhausted (not with `fuel > |d| / 2`). -/
def balancedSkip : Nat → Bytes → Nat → Option (Except LexErr Bytes)
  | 0, _, _ => none
  | fuel + 1, d, depth =>
    match readToken d with
    | .error e => some (.error e)
    | .ok (.close, r) => if depth - 1 = 0 then some (.ok r) else balancedSkip fuel r (depth - 1)
    | .ok (.open, r) => balancedSkip fuel r (depth + 1)
    | .ok (_, r) => balancedSkip fuel r depth

/-! ### lexeme-level reference (what both `skip_container`s walk over) -/

/-- one lexeme at the head of `w`: its id and the bytes after its payload; `none` when the
lexeme is not complete in `w`.  (Payload widths as in reader.rs:126-156.) -/
def lexeme (w : Bytes) : Option (Nat × Bytes) :=
  match readId w with
  | .error _ => none
  | .ok (id, data) =>
    if id = CLOSE then some (id, data)
    else if id = OPEN then some (id, data)
    else if id = BOOL then (if 1 ≤ data.length then some (id, data.drop 1) else none)
    else if id = F32 ∨ id = U32 ∨ id = I32 then (if 4 ≤ data.length then some (id, data.drop 4) else none)
    else if id = F64 ∨ id = I64 ∨ id = U64 then (if 8 ≤ data.length then some (id, data.drop 8) else none)
    else if id = QUOTED ∨ id = UNQUOTED then
      match readString data with
      | .ok (_, d) => some (id, d)
      | .error _ => none
    else some (id, data)

/-- the container depth after a lexeme -/
def depthAfter (id depth : Nat) : Nat :=
  if id = CLOSE then depth - 1 else if id = OPEN then depth + 1 else depth

/-- walking lexemes from `d` at `depth` finds the matching close and leaves `r` -/
inductive Skips : Bytes → Nat → Bytes → Prop
  | done {d r : Bytes} {depth : Nat} : lexeme d = some (CLOSE, r) → depth - 1 = 0 → Skips d depth r
  | step {d d' r : Bytes} {depth id : Nat} : lexeme d = some (id, d') → ¬(id = CLOSE ∧ depth - 1 = 0) →
      Skips d' (depthAfter id depth) r → Skips d depth r

/-- every lexeme met while skipping from `d` can be decided inside `cap` bytes -/
inductive SkipFits (cap : Nat) : Bytes → Nat → Prop
  | mk (d : Bytes) (depth : Nat)
      (head : ∀ k, k ≤ d.length → lexeme (d.take k) = none → k < cap)
      (tail : ∀ id r, lexeme d = some (id, r) → ¬(id = CLOSE ∧ depth - 1 = 0) →
        SkipFits cap r (depthAfter id depth)) : SkipFits cap d depth

end Jomini.BinLexer
