import JominiModel.Model.BinLexer
/-
Reference for C09 (binary): skipping a container = reading tokens with `read_token` and
counting opens and closes.
-/
namespace Jomini.BinLexer
open Jomini

/-- read tokens with the reference lexer, count opens and closes; `some (.ok r)`: the close
matching the already-consumed open (at `depth = 1`) was found and `r` is what follows it.
`none`: fuel exhausted (not with `fuel > |d| / 2`). -/
def balancedSkip : Nat → Bytes → Nat → Option (Except LexErr Bytes)
  | 0, _, _ => none
  | fuel + 1, d, depth =>
    match readToken d with
    | .error e => some (.error e)
    | .ok (.close, r) => if depth - 1 = 0 then some (.ok r) else balancedSkip fuel r (depth - 1)
    | .ok (.open, r) => balancedSkip fuel r (depth + 1)
    | .ok (_, r) => balancedSkip fuel r depth

end Jomini.BinLexer
