import JominiModel.Model.Derive
/-
Reference definitions the C18 theorems talk about, shared with the driver (`Driver/C18.lean`
uses these very definitions, so the witnesses of the `C18_known_…` theorems are the objects the
correspondence check runs):

* how a document key reaches the generated field visitor (`textKey`, `binI32Key`) — the
  deserializers' behaviour (text/de.rs `deserialize_u16 → deserialize_u64`, binary/de.rs
  `visit_key`), mirrored, tied by the correspondence check, not proved;
* the `FieldSpec` lists of two of the derived structs compiled into the harness (`basicS`, `tokS`)
  and a small sample schema.
-/
namespace Jomini.Derive
open Jomini

def isDigits (s : String) : Bool := !s.isEmpty && s.toList.all Char.isDigit

/-- TEXT: a key is a scalar.  `deserialize_identifier` → `visit_str`; a struct that requests
`deserialize_u16` (token attributes) gets `deserialize_u64`, i.e. `visit_u64` whenever the key
parses as an unsigned integer — a `visit_*` the generated visitor does not implement. -/
def textKey (schema : Schema) (key : String) : Key :=
  if requestsU16 schema && isDigits key then .other else .str key

/-- BINARY: a key written as an I32 token reaches the visitor through `visit_i32`, which the
generated visitor does not implement (whatever the struct requests). -/
def binI32Key : Key := .other

/-- harness `Basic { a: i32, b: Option<i32>, #[default] c, #[default = "d777"] d, #[duplicated] e, #[take_last] f }` -/
def basicS : Schema := [
  { name := "a" }, { name := "b", isOption := true }, { name := "c", dflt := .yes }, { name := "d", dflt := .path },
  { name := "e", kind := .duplicated }, { name := "f", kind := .takeLast }]

/-- harness `Tok`: every field carries `token = …` -/
def tokS : Schema := [
  { name := "a", token := some 0x2d00 },
  { name := "e", token := some 0x2d04, kind := .duplicated },
  { name := "f", token := some 0x2d05, kind := .takeLast, isOption := true },
  { name := "b", token := some 0x2d01, alias := some "bee" },
  { name := "c", token := some 0x2d02, dflt := .yes },
  { name := "u1", token := some 0x2d0d, isOption := true }]

/-- sample: `a` plain, `e` duplicated (alias "core"), `f` take_last, `c` with default -/
def sampleS : Schema := [
  { name := "a" }, { name := "e", alias := some "core", kind := .duplicated },
  { name := "f", kind := .takeLast }, { name := "c", dflt := .yes }]

/-- value deserializer of the witnesses: integers, never fails -/
def intDe : FieldSpec → Int → Except Unit Int := fun _ v => .ok v

end Jomini.Derive
