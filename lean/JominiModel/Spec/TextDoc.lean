import JominiModel.Model.TextDe
/-
Reference definitions for C02: save-style documents, the value a (type, document) pair denotes,
and the parser outputs a document stands for (reader tokens / tape tokens).

"numbers by their decimal meaning, yes/no as booleans, strings decoded with the chosen encoding,
missing Options as None, unknown fields ignored".
Numbers and booleans: the conversions of C11 (`Scalar.toI64` …, through `leafConv`, which adds
serde's range checks for the 32-bit targets); strings: `decode` (C12).
-/
namespace Jomini.TextDe

/-- scalar target types: typed leaves, strings, `any`, `ign`, unit enums, `Option` of those -/
def Ty.isScalarTy : Ty → Bool
  | .bool | .i64 | .u64 | .i32 | .u32 | .i16 | .u16 | .i8 | .u8 | .f64 | .f32 | .str | .any | .ign | .en _ => true
  | .opt t => Ty.isScalarTy t
  | _ => false

/-- scalar target types in field position: additionally `Property<scalar>` (not nested) -/
def Ty.isFieldScalarTy : Ty → Bool
  | .prop t => Ty.isScalarTy t
  | .opt t => Ty.isFieldScalarTy t
  | t => Ty.isScalarTy t

/-- nesting of `Option` / `Property` wrappers (fuel the interpreters need for a scalar) -/
def Ty.wrapDepth : Ty → Nat
  | .opt t => Ty.wrapDepth t + 1
  | .prop t => Ty.wrapDepth t + 1
  | _ => 0

/-! ### structural soundness of a tape (hypothesis of the totality theorem, C05) -/

/-- the `FieldsIter` walk over `[ti, e)` meets only keys (or the `MixedContainer` marker), every
step stays inside the tape, moves forward and lands exactly on `e` -/
def walkOk (toks : List TTok) : Nat → Nat → Nat → Bool
  | 0, _, _ => false
  | f + 1, ti, e =>
    match fieldsNext toks ti e with
    | .ok none => decide (toks[ti]? = some .mixedC ∧ ti < e) || decide (ti = e)
    | .ok (some (_, _, _, ti')) => decide (ti < ti') && decide (ti' ≤ e) && walkOk toks f ti' e
    | .error _ => false

/-- structural soundness of token `i` (decidable): a container's end link lies behind it, inside the
tape, and points back; an object's fields can be walked and, if it is a mixed container, its marker
is found; a header is followed by its container -/
def tokOk (toks : List TTok) (i : Nat) : Bool :=
  match toks[i]? with
  | some (.arr e _) => decide (i < e) && decide (e < toks.length) && decide (toks[e]? = some (.end_ i))
  | some (.obj e _) =>
    decide (i < e) && decide (e < toks.length) && decide (toks[e]? = some (.end_ i)) &&
      walkOk toks (toks.length + 1) (i + 1) e &&
      (match readArray toks i with | .error _ => false | .ok _ => true)
  | some (.hdr _) => (match toks[i + 1]? with | some (.arr _ _) | some (.obj _ _) => true | _ => false)
  | _ => true

/-- structural soundness of a text tape as far as the deserializer relies on it: every token is
sound and the top-level fields can be walked.  Every tape the text parser model accepts satisfies it:
`wfT_of_parse` (Proofs/TextDeParsed.lean, from texttape's grammar of accepted tapes `C06_text_object_grammar`);
the harness op `tde_wft` checks the same on the real parser's tapes. -/
def WfT (toks : List TTok) : Bool :=
  (List.range toks.length).all (tokOk toks) && walkOk toks (toks.length + 1) 0 toks.length

end Jomini.TextDe

namespace Jomini.TextDoc
open Jomini Jomini.TextDe

/-- a scalar as written: its bytes (between the quotes for a quoted one) -/
structure Leaf where
  bytes : Bytes
  quoted : Bool
  deriving Repr

/-- a key as written: its bytes (between the quotes for a quoted key) and what the text syntax allows
around it without changing the value on either path -/
structure Key where
  bytes : Bytes
  quoted : Bool := false
  /-- empty `{}` in front of the key (key position: dropped by the tape parser, skipped by the reader path) -/
  ghosts : Nat := 0
  /-- the `=` between the key and a `{` is left out (`a{ … }`); it has an effect only where the
  syntax allows it: operator `=`, value an object or an array -/
  noEq : Bool := false
  /-- empty `{}` behind the value (key position as well) -/
  trail : Nat := 0
  deriving Repr

/-- an unquoted key followed by its operator: the save-style case -/
abbrev Key.plain (b : Bytes) : Key := ⟨b, false, 0, false, 0⟩

/-- bytes stand for the plain key (documents written as `(bytes, op, value)` lists keep their meaning) -/
instance : Coe Bytes Key := ⟨fun b => ⟨b, false, 0, false, 0⟩⟩

/-- document values: scalars (quoted or not; a variable `@name` is an unquoted scalar like any other),
objects (key operator value, with the decorations of `Key`), arrays, header values
(`rgb { 1 2 3 }`: an unquoted name followed by a container) -/
inductive Node where
  | leaf (l : Leaf)
  | obj (fs : List (Key × Op × Node))
  | arr (vs : List Node)
  | hdr (name : Bytes) (body : Node)
  deriving Repr

mutual
/-- well-formed: the body of every header value is a container -/
def Node.wf : Node → Bool
  | .leaf _ => true
  | .obj fs => wfFields fs
  | .arr vs => wfNodes vs
  | .hdr _ (.obj fs) => wfFields fs
  | .hdr _ (.arr vs) => wfNodes vs
  | .hdr _ _ => false
def wfFields : List (Key × Op × Node) → Bool
  | [] => true
  | (_, _, v) :: r => v.wf && wfFields r
def wfNodes : List Node → Bool
  | [] => true
  | v :: r => v.wf && wfNodes r
end

def Node.isHdr : Node → Bool
  | .hdr _ _ => true
  | _ => false

/-- inside an array a header value is two values: its name and its body (both parsers see it so) -/
def expandNodes : List Node → List Node
  | [] => []
  | .hdr n b :: r => .leaf ⟨n, false⟩ :: b :: expandNodes r
  | v :: r => v :: expandNodes r

/-- a document is the field list of its top-level object -/
abbrev Doc := List (Key × Op × Node)

/-! ### values -/

/-- value of a scalar under a type without operator context -/
def valueOfScalar (enc : Enc) : Ty → Bytes → R Val
  | .str, s => .ok (.str (decode enc s))
  | .any, s => .ok (.str (decode enc s))
  | .ign, _ => .ok .ign
  | .en vs, s => if vs.contains (decode enc s) then .ok (.en (decode enc s)) else .error .other
  | .opt t, s => (valueOfScalar enc t s).map Val.some
  | .seq _, _ | .map _, _ | .st _, _ | .prop _, _ => .error .type
  | ty, s => match leafConv ty s with | some r => r | none => .error .type

/-- value of a scalar in field position (the operator is captured by `Property`) -/
def valueOfField (enc : Enc) : Ty → Op → Bytes → R Val
  | .prop t, o, s => (valueOfScalar enc t s).map (Val.prop o)
  | .opt t, o, s => (valueOfField enc t o s).map Val.some
  | ty, _, s => valueOfScalar enc ty s

/-- elements of a sequence, left to right; the first error wins -/
def seqVals (valF : Node → R Val) : List Node → R (List Val)
  | [] => .ok []
  | v :: r =>
    match valF v with
    | .error e => .error e
    | .ok x =>
      match seqVals valF r with
      | .error e => .error e
      | .ok tl => .ok (x :: tl)

/-- elements of a fixed-length tuple: exactly as many values as the tuple has types are taken, left to
right, the first error wins; a missing value is `invalid length`; values BEHIND the last one taken are
not looked at (that is the tape path; the reader path then demands the closing brace, see `Fits.tup`) -/
def tupVals (valF : Ty → Node → R Val) : List Ty → List Node → R (List Val)
  | [], _ => .ok []
  | _ :: _, [] => .error .other
  | t :: r, x :: xs =>
    match valF t x with
    | .error e => .error e
    | .ok v =>
      match tupVals valF r xs with
      | .error e => .error e
      | .ok tl => .ok (v :: tl)

/-- entries of a map in document order: decoded key, value -/
def mapVals (enc : Enc) (valF : Op → Node → R Val) : List (Key × Op × Node) → List (Val × Val) → R (List (Val × Val))
  | [], acc => .ok acc
  | (k, o, v) :: r, acc =>
    match valF o v with
    | .error e => .error e
    | .ok x => mapVals enc valF r (acc ++ [(Val.str (decode enc k.bytes), x)])

/-- fields of a struct in document order: a declared field takes its value (a second occurrence is
the error `duplicate`), an unknown field is ignored whatever its value is -/
def structVals (enc : Enc) (fs : List (Bytes × Ty)) (valF : Ty → Op → Node → R Val) :
    List (Key × Op × Node) → List (Nat × Val) → R (List (Nat × Val))
  | [], seen => .ok seen
  | (k, o, v) :: r, seen =>
    match lookupIdx (decode enc k.bytes) fs 0 with
    | some (i, t) =>
      if (seenGet i seen).isSome then .error (.duplicate (decode enc k.bytes)) else
      match valF t o v with
      | .error e => .error e
      | .ok x => structVals enc fs valF r (seen ++ [(i, x)])
    | none => structVals enc fs valF r seen

mutual
/-- what `deserialize_any` presents for a value on BOTH paths: a scalar as a string, an array as the
sequence of its values (a header value inside an array being two values).  An object is presented
differently by the two paths (tape: a map; stream: the bare token sequence `key = value …`), see
`C02_any_on_object_paths_differ`; it is an error here and outside `Fits`. -/
def anyVal (enc : Enc) : Node → R Val
  | .leaf l => .ok (.str (decode enc l.bytes))
  | .hdr n _ => .ok (.str (decode enc n))
  | .arr vs => (anyVals enc vs).map Val.seq
  | .obj _ => .error .type
def anyVals (enc : Enc) : List Node → R (List Val)
  | [] => .ok []
  | .hdr n b :: r =>
    (match anyVal enc b with
     | .error e => .error e
     | .ok x =>
       match anyVals enc r with
       | .error e => .error e
       | .ok tl => .ok (.str (decode enc n) :: x :: tl))
  | v :: r =>
    (match anyVal enc v with
     | .error e => .error e
     | .ok x =>
       match anyVals enc r with
       | .error e => .error e
       | .ok tl => .ok (x :: tl))
end

mutual
/-- `any` is defined on both paths: scalars and arrays of such, to any depth -/
def Node.anyOk : Node → Bool
  | .leaf _ => true
  | .arr vs => anyOks vs
  | .obj _ => false
  | .hdr _ _ => false
def anyOks : List Node → Bool
  | [] => true
  | .hdr _ b :: r => b.anyOk && anyOks r
  | v :: r => v.anyOk && anyOks r
end

/-- the value a (type, value node) pair denotes; `o` is the operator the value was written with
(captured by `Property`).  The fuel bounds the nesting of the type (`Ty.height`); every call
descends one level of the type. -/
def valueOfN (enc : Enc) : Nat → Ty → Op → Node → R Val
  | 0, _, _, _ => .error .panic
  | f + 1, ty, o, v =>
    match ty with
    | .ign => .ok .ign
    | .opt t => (valueOfN enc f t o v).map Val.some
    | .prop t => (valueOfN enc f t .eq v).map (Val.prop o)
    | .seq t =>
      (match v with
       | .arr vs => (seqVals (valueOfN enc f t .eq) (expandNodes vs)).map Val.seq
       | _ => .error .type)
    | .map t =>
      (match v with
       | .obj dfs => (mapVals enc (valueOfN enc f t) dfs []).map Val.map
       | .arr [] => .ok (.map []) -- an empty `{}` is an empty map as well
       | _ => .error .type)
    | .st fs =>
      (match v with
       | .obj dfs =>
         (match structVals enc fs (valueOfN enc f) dfs [] with
          | .error e => .error e
          | .ok seen => (structFinish fs 0 seen).map Val.st)
       | .arr [] => (structFinish fs 0 []).map Val.st
       | _ => .error .type)
    | .any => anyVal enc v
    | .tup ts =>
      (match v with
       | .arr vs => (tupVals (fun t x => valueOfN enc f t .eq x) ts (expandNodes vs)).map Val.tup
       | _ => .error .type)
    | ty =>
      -- a header value read with a scalar target yields the header's name; its body is skipped
      (match v with
       | .leaf l => valueOfScalar enc ty l.bytes
       | .hdr n _ => valueOfScalar enc ty n
       | _ => .error .type)

/-- the value of a document under a target type: the root deserializer only works with
key-value pairs (structs and maps) -/
def valueOf (enc : Enc) (ty : Ty) (d : Doc) : R Val :=
  match ty with
  | .st _ | .map _ => valueOfN enc (ty.height + 1) ty .eq (.obj d)
  | _ => .error .other

/-- the root deserializer works with key-value pairs: a struct or a map -/
def Ty.isRoot : Ty → Bool
  | .st _ | .map _ => true
  | _ => false

/-- typed scalars and strings (what a container can never be read as) -/
def Ty.isTypedLeaf : Ty → Bool
  | .bool | .i64 | .u64 | .i32 | .u32 | .i16 | .u16 | .i8 | .u8 | .f64 | .f32 | .str => true
  | _ => false

/-- typed leaves, strings, `any`, unit enums -/
def Ty.isPlainScalar : Ty → Bool
  | .bool | .i64 | .u64 | .i32 | .u32 | .i16 | .u16 | .i8 | .u8 | .f64 | .f32 | .str | .any | .en _ => true
  | _ => false

/-- the (type, value) pairs on which the two paths are proved to agree with `valueOf`.  Mostly: the
target type requests the document's shape -- scalars as scalars, maps as maps (structs may leave fields
undeclared: those are skipped whatever they contain), sequences as sequences; `ign` fits everything;
`Option` / `Property` are transparent; `any` stands for scalars and arrays.  Also the mismatches that
both paths reject identically (the last four constructors), so that error results are covered. -/
inductive Fits (enc : Enc) : Ty → Node → Prop where
  | scalar {ty : Ty} {l : Leaf} : Ty.isPlainScalar ty = true → Fits enc ty (.leaf l)
  | hdrScalar {ty : Ty} {n : Bytes} {b : Node} : Ty.isPlainScalar ty = true → Fits enc ty (.hdr n b)
  | ign {v : Node} : Fits enc .ign v
  | opt {t : Ty} {v : Node} : Fits enc t v → Fits enc (.opt t) v
  | prop {t : Ty} {v : Node} : Fits enc t v → Fits enc (.prop t) v
  | seq {t : Ty} {vs : List Node} : (∀ v, v ∈ expandNodes vs → Fits enc t v) → Fits enc (.seq t) (.arr vs)
  | map {t : Ty} {dfs : List (Key × Op × Node)} : (∀ k o v, (k, o, v) ∈ dfs → Fits enc t v) → Fits enc (.map t) (.obj dfs)
  | st {fs : List (Bytes × Ty)} {dfs : List (Key × Op × Node)} :
      (∀ k o v, (k, o, v) ∈ dfs → ∀ i t, lookupIdx (decode enc k.bytes) fs 0 = some (i, t) → Fits enc t v) →
      Fits enc (.st fs) (.obj dfs)
  /-- `any` on an array of scalars / arrays, to any depth -/
  | anyArr {vs : List Node} : anyOks vs = true → Fits enc .any (.arr vs)
  /-- an empty `{}` read as a map / a struct -/
  | emptyMap {t : Ty} : Fits enc (.map t) (.arr [])
  | emptySt {fs : List (Bytes × Ty)} : Fits enc (.st fs) (.arr [])
  /-- MISMATCHES both paths reject in the same way (`invalid type`): a typed scalar or a string
  requested for a container, a map or a struct requested for a scalar -/
  | leafOnObj {ty : Ty} {dfs : List (Key × Op × Node)} : Ty.isTypedLeaf ty = true → Fits enc ty (.obj dfs)
  | leafOnArr {ty : Ty} {vs : List Node} : Ty.isTypedLeaf ty = true → Fits enc ty (.arr vs)
  | mapOnLeaf {t : Ty} {l : Leaf} : Fits enc (.map t) (.leaf l)
  | stOnLeaf {fs : List (Bytes × Ty)} {l : Leaf} : Fits enc (.st fs) (.leaf l)
  /-- a fixed-length tuple on an array that is NOT LONGER than the tuple (a shorter one: `invalid length`
  on both paths); a longer array is where the paths differ (`Bad.tupLong`) -/
  | tup {ts : List Ty} {vs : List Node} : (expandNodes vs).length ≤ ts.length →
      (∀ t x, (t, x) ∈ List.zip ts (expandNodes vs) → Fits enc t x) → Fits enc (.tup ts) (.arr vs)

/-- `Fits` as the tape path needs it (and therefore the agreement of the two paths).  The flag says
whether the value is in field position: `Property` captures an operator only there (an array element
has none: the tape path then reads the target as a map, the streaming path invents `=`); a header
value in field position is read with a scalar target other than `any`, or ignored (with `any` the tape
path presents the body, the streaming path the name: finding `text-reader-header`). -/
inductive FitsT (enc : Enc) : Bool → Ty → Node → Prop where
  | scalar {b : Bool} {ty : Ty} {l : Leaf} : Ty.isPlainScalar ty = true → FitsT enc b ty (.leaf l)
  | hdrScalar {b : Bool} {ty : Ty} {n : Bytes} {body : Node} : Ty.isPlainScalar ty = true → ty ≠ .any →
      FitsT enc b ty (.hdr n body)
  | ign {b : Bool} {v : Node} : FitsT enc b .ign v
  | opt {b : Bool} {t : Ty} {v : Node} : FitsT enc b t v → FitsT enc b (.opt t) v
  | prop {t : Ty} {v : Node} : FitsT enc false t v → FitsT enc true (.prop t) v
  | seq {b : Bool} {t : Ty} {vs : List Node} :
      (∀ v, v ∈ expandNodes vs → FitsT enc false t v) → FitsT enc b (.seq t) (.arr vs)
  | map {b : Bool} {t : Ty} {dfs : List (Key × Op × Node)} :
      (∀ k o v, (k, o, v) ∈ dfs → FitsT enc true t v) → FitsT enc b (.map t) (.obj dfs)
  | st {b : Bool} {fs : List (Bytes × Ty)} {dfs : List (Key × Op × Node)} :
      (∀ k o v, (k, o, v) ∈ dfs → ∀ i t, lookupIdx (decode enc k.bytes) fs 0 = some (i, t) → FitsT enc true t v) →
      FitsT enc b (.st fs) (.obj dfs)
  | anyArr {b : Bool} {vs : List Node} : anyOks vs = true → FitsT enc b .any (.arr vs)
  | emptyMap {b : Bool} {t : Ty} : FitsT enc b (.map t) (.arr [])
  | emptySt {b : Bool} {fs : List (Bytes × Ty)} : FitsT enc b (.st fs) (.arr [])
  | leafOnObj {b : Bool} {ty : Ty} {dfs : List (Key × Op × Node)} : Ty.isTypedLeaf ty = true → FitsT enc b ty (.obj dfs)
  | leafOnArr {b : Bool} {ty : Ty} {vs : List Node} : Ty.isTypedLeaf ty = true → FitsT enc b ty (.arr vs)
  | mapOnLeaf {b : Bool} {t : Ty} {l : Leaf} : FitsT enc b (.map t) (.leaf l)
  | stOnLeaf {b : Bool} {fs : List (Bytes × Ty)} {l : Leaf} : FitsT enc b (.st fs) (.leaf l)
  | tup {b : Bool} {ts : List Ty} {vs : List Node} : (expandNodes vs).length ≤ ts.length →
      (∀ t x, (t, x) ∈ List.zip ts (expandNodes vs) → FitsT enc false t x) → FitsT enc b (.tup ts) (.arr vs)

/-- the complement of `FitsT`: the (type, value) pair contains a combination on which the two paths
are NOT claimed to agree.  Every atomic combination listed here has a witness on which the modelled
paths (and the real code) do disagree, see `C02_divergent_*` in Props/C02. -/
inductive Bad (enc : Enc) : Bool → Ty → Node → Prop where
  /-- `any` presents an object as a map on the tape path, as the bare token sequence on the stream path -/
  | anyObj {b : Bool} {dfs : List (Key × Op × Node)} : Bad enc b .any (.obj dfs)
  | anyArr {b : Bool} {vs : List Node} : anyOks vs = false → Bad enc b .any (.arr vs)
  /-- `any` on a header value: the body (tape) / the name (stream) -/
  | anyHdr {b : Bool} {n : Bytes} {body : Node} : Bad enc b .any (.hdr n body)
  /-- an enum requested for a container: the tape path takes the first element as the variant -/
  | enObj {b : Bool} {vs : List Bytes} {dfs : List (Key × Op × Node)} : Bad enc b (.en vs) (.obj dfs)
  | enArr {b : Bool} {vs : List Bytes} {xs : List Node} : Bad enc b (.en vs) (.arr xs)
  /-- a sequence requested for something that is not an array: the stream path ignores the current token -/
  | seqLeaf {b : Bool} {t : Ty} {l : Leaf} : Bad enc b (.seq t) (.leaf l)
  | seqObj {b : Bool} {t : Ty} {dfs : List (Key × Op × Node)} : Bad enc b (.seq t) (.obj dfs)
  | seqHdr {b : Bool} {t : Ty} {n : Bytes} {body : Node} : Bad enc b (.seq t) (.hdr n body)
  /-- a map / struct requested for a non-empty array (tape: the synthetic `remainder` key) or a header value -/
  | mapArr {b : Bool} {t : Ty} {x : Node} {xs : List Node} : Bad enc b (.map t) (.arr (x :: xs))
  | mapHdr {b : Bool} {t : Ty} {n : Bytes} {body : Node} : Bad enc b (.map t) (.hdr n body)
  | stArr {b : Bool} {fs : List (Bytes × Ty)} {x : Node} {xs : List Node} : Bad enc b (.st fs) (.arr (x :: xs))
  | stHdr {b : Bool} {fs : List (Bytes × Ty)} {n : Bytes} {body : Node} : Bad enc b (.st fs) (.hdr n body)
  /-- `Property` outside field position (array element, nested `Property`) -/
  | propElem {t : Ty} {v : Node} : Bad enc false (.prop t) v
  | opt {b : Bool} {t : Ty} {v : Node} : Bad enc b t v → Bad enc b (.opt t) v
  | prop {t : Ty} {v : Node} : Bad enc false t v → Bad enc true (.prop t) v
  | seqElem {b : Bool} {t : Ty} {vs : List Node} {v : Node} : v ∈ expandNodes vs → Bad enc false t v → Bad enc b (.seq t) (.arr vs)
  | mapElem {b : Bool} {t : Ty} {dfs : List (Key × Op × Node)} {k : Key} {o : Op} {v : Node} :
      (k, o, v) ∈ dfs → Bad enc true t v → Bad enc b (.map t) (.obj dfs)
  /-- a fixed-length tuple on a LONGER array: the tape path takes the prefix, the reader path demands the closing
  brace; on something that is not an array: as for sequences -/
  | tupLong {b : Bool} {ts : List Ty} {vs : List Node} : ts.length < (expandNodes vs).length → Bad enc b (.tup ts) (.arr vs)
  | tupLeaf {b : Bool} {ts : List Ty} {l : Leaf} : Bad enc b (.tup ts) (.leaf l)
  | tupObj {b : Bool} {ts : List Ty} {dfs : List (Key × Op × Node)} : Bad enc b (.tup ts) (.obj dfs)
  | tupHdr {b : Bool} {ts : List Ty} {n : Bytes} {body : Node} : Bad enc b (.tup ts) (.hdr n body)
  | tupElem {b : Bool} {ts : List Ty} {vs : List Node} {t : Ty} {x : Node} :
      (t, x) ∈ List.zip ts (expandNodes vs) → Bad enc false t x → Bad enc b (.tup ts) (.arr vs)
  | stElem {b : Bool} {fs : List (Bytes × Ty)} {dfs : List (Key × Op × Node)} {k : Key} {o : Op} {v : Node} {i : Nat} {t : Ty} :
      (k, o, v) ∈ dfs → lookupIdx (decode enc k.bytes) fs 0 = some (i, t) → Bad enc true t v → Bad enc b (.st fs) (.obj dfs)

/-! ### parser outputs a document stands for -/

def Leaf.rtok (l : Leaf) : RTok := if l.quoted then .quo l.bytes else .unq l.bytes
def Leaf.ttok (l : Leaf) : TTok := if l.quoted then .quo l.bytes else .unq l.bytes
def Key.rtok (k : Key) : RTok := if k.quoted then .quo k.bytes else .unq k.bytes
def Key.ttok (k : Key) : TTok := if k.quoted then .quo k.bytes else .unq k.bytes

/-- `{ … }` -/
def Node.isBraced : Node → Bool
  | .obj _ | .arr _ => true
  | _ => false

/-- reader tokens of `n` empty `{}` -/
def ghostToks : Nat → List RTok
  | 0 => []
  | n + 1 => RTok.open_ :: RTok.close :: ghostToks n

/-- the operator token between a key and its value: missing where the key asks for the implicit `=`
and the syntax allows it -/
def eqToks (k : Key) (o : Op) (v : Node) : List RTok :=
  if k.noEq && decide (o = .eq) && v.isBraced then [] else [RTok.op o]

mutual
/-- reader tokens of a value -/
def lexNode : Node → List RTok
  | .leaf l => [l.rtok]
  | .obj fs => RTok.open_ :: lexFields fs ++ [RTok.close]
  | .arr vs => RTok.open_ :: lexNodes vs ++ [RTok.close]
  | .hdr n b => RTok.unq n :: lexNode b
def lexFields : List (Key × Op × Node) → List RTok
  | [] => []
  | (k, o, v) :: r =>
    ghostToks k.ghosts ++ (k.rtok :: (eqToks k o v ++ (lexNode v ++ (ghostToks k.trail ++ lexFields r))))
def lexNodes : List Node → List RTok
  | [] => []
  | v :: r => lexNode v ++ lexNodes r
end

/-- reader tokens of a document -/
def lexemes (d : Doc) : List RTok := lexFields d

mutual
/-- tape tokens of a value that starts at tape index `base` (containers carry the index of their
`End`, the `End` the index of its opener; an empty `{}` is an array; the `=` operator is not stored) -/
def tapeNode : Nat → Node → List TTok
  | _, .leaf l => [l.ttok]
  | base, .obj [] => [TTok.arr (base + 1) false, TTok.end_ base]
  | base, .obj (f :: fs) =>
    let body := tapeFields (base + 1) (f :: fs)
    TTok.obj (base + 1 + body.length) false :: body ++ [TTok.end_ base]
  | base, .arr vs =>
    let body := tapeNodes (base + 1) vs
    TTok.arr (base + 1 + body.length) false :: body ++ [TTok.end_ base]
  | base, .hdr n b => TTok.hdr n :: tapeNode (base + 1) b
def tapeFields : Nat → List (Key × Op × Node) → List TTok
  | _, [] => []
  | base, (k, o, v) :: r =>
    let opToks : List TTok := match o with | .eq => [] | o => [TTok.op o]
    let val := tapeNode (base + 1 + opToks.length) v
    k.ttok :: opToks ++ val ++ tapeFields (base + 1 + opToks.length + val.length) r
def tapeNodes : Nat → List Node → List TTok
  | _, [] => []
  | base, .hdr n b :: r =>
    -- inside an array the tape parser writes a header's name as an ordinary unquoted scalar
    let val := tapeNode (base + 1) b
    TTok.unq n :: val ++ tapeNodes (base + 1 + val.length) r
  | base, v :: r =>
    let val := tapeNode base v
    val ++ tapeNodes (base + val.length) r
end

/-- tape tokens of a document -/
def tapeOf (d : Doc) : List TTok := tapeFields 0 d

end Jomini.TextDoc
