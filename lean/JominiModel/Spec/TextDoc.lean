import JominiModel.Model.TextDe
/-
Reference definitions for C02: save-style documents, the value a (type, document) pair denotes,
and the parser outputs a document stands for (reader tokens / tape tokens).

"numbers by their decimal meaning, yes/no as booleans, strings decoded with the chosen encoding,
missing Options as None, unknown fields ignored".
Numbers and booleans: the conversions of C11 (`Scalar.toI64` …, through `leafConv`, which adds
serde's range checks for the 32-bit targets); strings: `decode` (C12).
-/
namespace Jomini.TextDe

/-- scalar target types: typed leaves, strings, `any`, `ign`, unit enums, `Option` of those -/
def Ty.isScalarTy : Ty → Bool
  | .bool | .i64 | .u64 | .i32 | .u32 | .f64 | .f32 | .str | .any | .ign | .en _ => true
  | .opt t => Ty.isScalarTy t
  | _ => false

/-- scalar target types in field position: additionally `Property<scalar>` (not nested) -/
def Ty.isFieldScalarTy : Ty → Bool
  | .prop t => Ty.isScalarTy t
  | .opt t => Ty.isFieldScalarTy t
  | t => Ty.isScalarTy t

/-- nesting of `Option` / `Property` wrappers (fuel the interpreters need for a scalar) -/
def Ty.wrapDepth : Ty → Nat
  | .opt t => Ty.wrapDepth t + 1
  | .prop t => Ty.wrapDepth t + 1
  | _ => 0

end Jomini.TextDe

namespace Jomini.TextDoc
open Jomini Jomini.TextDe

/-- a scalar as written: its bytes (between the quotes for a quoted one) -/
structure Leaf where
  bytes : Bytes
  quoted : Bool
  deriving Repr

/-- save-style document values: scalars, objects (key operator value), arrays -/
inductive Node where
  | leaf (l : Leaf)
  | obj (fs : List (Bytes × Op × Node))
  | arr (vs : List Node)
  deriving Repr

/-- a document is the field list of its top-level object -/
abbrev Doc := List (Bytes × Op × Node)

/-! ### values -/

/-- value of a scalar under a type without operator context -/
def valueOfScalar (enc : Enc) : Ty → Bytes → R Val
  | .str, s => .ok (.str (decode enc s))
  | .any, s => .ok (.str (decode enc s))
  | .ign, _ => .ok .ign
  | .en vs, s => if vs.contains (decode enc s) then .ok (.en (decode enc s)) else .error .other
  | .opt t, s => (valueOfScalar enc t s).map Val.some
  | .seq _, _ | .map _, _ | .st _, _ | .prop _, _ => .error .type
  | ty, s => match leafConv ty s with | some r => r | none => .error .type

/-- value of a scalar in field position (the operator is captured by `Property`) -/
def valueOfField (enc : Enc) : Ty → Op → Bytes → R Val
  | .prop t, o, s => (valueOfScalar enc t s).map (Val.prop o)
  | .opt t, o, s => (valueOfField enc t o s).map Val.some
  | ty, _, s => valueOfScalar enc ty s

/-! ### parser outputs a document stands for -/

def Leaf.rtok (l : Leaf) : RTok := if l.quoted then .quo l.bytes else .unq l.bytes
def Leaf.ttok (l : Leaf) : TTok := if l.quoted then .quo l.bytes else .unq l.bytes

mutual
/-- reader tokens of a value -/
def lexNode : Node → List RTok
  | .leaf l => [l.rtok]
  | .obj fs => RTok.open_ :: lexFields fs ++ [RTok.close]
  | .arr vs => RTok.open_ :: lexNodes vs ++ [RTok.close]
def lexFields : List (Bytes × Op × Node) → List RTok
  | [] => []
  | (k, o, v) :: r => RTok.unq k :: RTok.op o :: (lexNode v ++ lexFields r)
def lexNodes : List Node → List RTok
  | [] => []
  | v :: r => lexNode v ++ lexNodes r
end

/-- reader tokens of a document -/
def lexemes (d : Doc) : List RTok := lexFields d

end Jomini.TextDoc
