import JominiModel.Model.Basic
/-
Reference definitions for C11 (scalar conversions).  Core Lean only.
`decVal` (Horner value of a digit string) and `allDigits` live in `Model/Basic.lean`.
-/
namespace Jomini.Spec.Scalar
open Jomini

/-- `s` is a decimal rendering of the natural number `v` in the sense of `to_u64`: an
optional `+` followed by ASCII digits whose decimal value is `v` (leading zeros allowed).
Without a `+` at least one digit is required; the code's quirk is that a bare `"+"` is a
rendering of 0. -/
def IsU64Rendering (s : Bytes) (v : Nat) : Prop :=
  ∃ body : Bytes, allDigits body = true ∧ v = decVal body ∧
    ((s = body ∧ body ≠ []) ∨ s = 43 :: body)

/-- `s` is a decimal rendering of the integer `v` in the sense of `to_i64`: digits, or `+`
digits, or `-` digits (bare `"+"` and `"-"` render 0). -/
def IsI64Rendering (s : Bytes) (v : Int) : Prop :=
  ∃ body : Bytes, allDigits body = true ∧
    ((s = body ∧ body ≠ [] ∧ v = (decVal body : Int)) ∨
     (s = 43 :: body ∧ v = (decVal body : Int)) ∨
     (s = 45 :: body ∧ v = -(decVal body : Int)))

/-- a byte that is neither a digit nor one of the listed sign characters. -/
def Foreign (signs : List UInt8) (b : UInt8) : Prop := isDigit b = false ∧ b ∉ signs

/-- integer part of a `to_f64` input: its digits `ip`, written bare or after a `+`
(`"+"` alone is allowed and has no digits; the bare form may be empty only in front of a `.`). -/
def IsF64Head (hd ip : Bytes) : Prop := allDigits ip = true ∧ (hd = ip ∨ hd = 43 :: ip)

/-- **The grammar of `to_f64`.**  `s` is accepted with sign `neg`, integer digits `ip` and
fraction digits `fp` (`none` = no decimal point):

* `s = ["-"] hd` with `hd` a non-empty head — a plain integer; its value must be at most
  `2^53 - 1` (what binary64 holds exactly);
* `s = ["-"] hd "." f` with `1 ≤ |f| ≤ 22` fraction digits; all digits taken as one
  integer must fit in a `u64`.

Quirks this makes explicit: `"+"` is 0, `"-+5"` is -5, `".5"` and `"-.5"` are accepted,
`"1."`, `"."`, `"-"`, `""` are not, a sign after the first two bytes is not. -/
def F64Accepts (s : Bytes) (neg : Bool) (ip : Bytes) (fp : Option Bytes) : Prop :=
  ∃ hd, IsF64Head hd ip ∧
    match fp with
    | none => s = (if neg then [45] else []) ++ hd ∧ hd ≠ [] ∧ decVal ip ≤ 2^53 - 1
    | some f => s = (if neg then [45] else []) ++ (hd ++ 46 :: f) ∧ allDigits f = true ∧ f ≠ [] ∧
        f.length ≤ 22 ∧ decVal (ip ++ f) ≤ 2^64 - 1

end Jomini.Spec.Scalar
