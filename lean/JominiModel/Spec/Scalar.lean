import JominiModel.Model.Basic
/-
Reference definitions for C11 (scalar conversions).  Core Lean only.
`decVal` (Horner value of a digit string) and `allDigits` live in `Model/Basic.lean`.
-/
namespace Jomini.Spec.Scalar
open Jomini

/-- `s` is a decimal rendering of the natural number `v` in the sense of `to_u64`: an
optional `+` followed by ASCII digits whose decimal value is `v` (leading zeros allowed).
Without a `+` at least one digit is required; the code's quirk is that a bare `"+"` is a
rendering of 0. -/
def IsU64Rendering (s : Bytes) (v : Nat) : Prop :=
  ∃ body : Bytes, allDigits body = true ∧ v = decVal body ∧
    ((s = body ∧ body ≠ []) ∨ s = 43 :: body)

/-- `s` is a decimal rendering of the integer `v` in the sense of `to_i64`: digits, or `+`
digits, or `-` digits (bare `"+"` and `"-"` render 0). -/
def IsI64Rendering (s : Bytes) (v : Int) : Prop :=
  ∃ body : Bytes, allDigits body = true ∧
    ((s = body ∧ body ≠ [] ∧ v = (decVal body : Int)) ∨
     (s = 43 :: body ∧ v = (decVal body : Int)) ∨
     (s = 45 :: body ∧ v = -(decVal body : Int)))

/-- a byte that is neither a digit nor one of the listed sign characters. -/
def Foreign (signs : List UInt8) (b : UInt8) : Prop := isDigit b = false ∧ b ∉ signs

end Jomini.Spec.Scalar
