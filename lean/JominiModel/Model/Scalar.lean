import JominiModel.Model.Basic
import JominiModel.Generated.Tables
/-
Model of /repo/src/scalar.rs:168-338 (`to_bool`, `to_f64`, `to_i64`, `to_i64_t`,
`to_u64`, `to_u64_t`, `to_u64_t2`, `overflow_mul_add`, `POWER_OF_TEN`).

Machine integers: `u64` values are `Nat` with the explicit `< 2^64` tests the Rust
performs through `overflowing_mul` / `overflowing_add`; `i64::try_from(u64)` is the
test `≤ 2^63-1`.  Slices are lists; `&d[i..]` is the remaining list.

Floats: `F64` values are IEEE-754 binary64 *bit patterns* (`Nat < 2^64`).  `u64 as f64`
and `f64 / f64` are modelled as exact round-to-nearest-even of the mathematical value
(`rneBits`); hardware conformance to IEEE-754 is part of the trusted base.
-/
namespace Jomini.Scalar
open Jomini

inductive Err where
  | allDigits | overflow | invalidBool | precisionLoss
  deriving DecidableEq, Repr

def U64_MAX : Nat := 2^64 - 1
def I64_MAX : Nat := 2^63 - 1
def F64_EXACT_MAX : Nat := 9007199254740991 -- 2^53 - 1

/-- scalar.rs:325 `overflow_mul_add` -/
def overflowMulAdd (acc : Nat) (digit : Nat) : Except Err Nat :=
  if acc * 10 > U64_MAX then .error .overflow
  else if acc * 10 + digit > U64_MAX then .error .overflow
  else .ok (acc * 10 + digit)

/-- scalar.rs:311 `to_u64_t2`: accumulate digits, stop at the first non-digit and
return the rest. -/
def toU64T2 : Bytes → Nat → Except Err (Nat × Bytes)
  | [], acc => .ok (acc, [])
  | x :: xs, acc =>
    if !isDigit x then .ok (acc, x :: xs)
    else match overflowMulAdd acc (digitVal x) with
      | .error e => .error e
      | .ok acc' => toU64T2 xs acc'

/-- scalar.rs:299 `to_u64_t` ("at least one byte consumed", tested by comparing the
remaining slice with the input slice). -/
def toU64T (d : Bytes) (start : Nat) : Except Err (Nat × Bytes) :=
  match toU64T2 d start with
  | .error e => .error e
  | .ok (r, left) => if left == d then .error .overflow else .ok (r, left)

/-- scalar.rs:278 `to_u64` -/
def toU64 (d : Bytes) : Except Err Nat :=
  match d with
  | [] => .error .allDigits
  | c :: data =>
    if isDigit c then
      match toU64T2 data (digitVal c) with
      | .error e => .error e
      | .ok (r, left) => if left.isEmpty then .ok r else .error .allDigits
    else if c == 43 then
      match toU64T2 data 0 with
      | .error e => .error e
      | .ok (r, left) => if left.isEmpty then .ok r else .error .allDigits
    else .error .allDigits

def I64_MIN_ABS : Nat := 2^63

/-- the tail shared by the three arms of `to_i64_t`: `to_u64_t2(data, start)`, then
`if sign < 0 { 0i64.checked_sub_unsigned(val) } else { i64::try_from(val).ok() }` (the first
fails above `2^63`, the second above `i64::MAX`), `Overflow` on `None`. -/
def toI64Go (data : Bytes) (sign : Int) (start : Nat) : Except Err (Int × Bytes) :=
  match toU64T2 data start with
  | .error e => .error e
  | .ok (v, rest) =>
    if sign < 0 then
      if v > I64_MIN_ABS then .error .overflow else .ok (0 - (v : Int), rest)
    else
      if v > I64_MAX then .error .overflow else .ok ((v : Int), rest)

/-- scalar.rs:249 `to_i64_t` -/
def toI64T (d : Bytes) : Except Err (Int × Bytes) :=
  match d with
  | [] => .error .allDigits
  | c :: data =>
    if isDigit c then toI64Go data 1 (digitVal c)
    else if c == 45 then toI64Go data (-1) 0
    else if c == 43 then toI64Go data 1 0
    else .error .allDigits

/-- the `if !left.is_empty() { Err(AllDigits) } else { Ok(r) }` of `to_i64` (with `?`). -/
def requireEmpty (r : Except Err (Int × Bytes)) : Except Err Int :=
  match r with
  | .error e => .error e
  | .ok (r, left) => if left.isEmpty then .ok r else .error .allDigits

/-- scalar.rs:239 `to_i64` -/
def toI64 (d : Bytes) : Except Err Int := requireEmpty (toI64T d)

/-- scalar.rs:169 `to_bool` -/
def toBool (d : Bytes) : Except Err Bool :=
  match d with
  | [121, 101, 115] => .ok true     -- "yes"
  | [110, 111] => .ok false         -- "no"
  | _ => .error .invalidBool

/-! ### binary64 arithmetic as exact rounding -/

/-- number of bits of `n` (0 for 0). -/
def bitLen (n : Nat) : Nat := if n = 0 then 0 else n.log2 + 1

/-- `num * 2^(-e)` divided by `den`: quotient, remainder and the divisor used
(`num * 2^(-e) = q * d' + r`). -/
def scaleQ (num den : Nat) (e : Int) : Nat × Nat × Nat :=
  if e ≥ 0 then
    let d' := den * 2 ^ e.toNat
    (num / d', num % d', d')
  else
    let n' := num * 2 ^ (-e).toNat
    (n' / den, n' % den, den)

/-- first-guess quotient `q0 ∈ [2^51, 2^54)`: fix the exponent so that `q ∈ [2^52, 2^53)`. -/
def normExp (q0 : Nat) (e0 : Int) : Int :=
  if q0 ≥ 2^53 then e0 + 1 else if q0 < 2^52 then e0 - 1 else e0

/-- clamp to the subnormal exponent. -/
def clampExp (e : Int) : Int := if e < -1074 then -1074 else e

/-- round half to even. -/
def roundQ (q r d' : Nat) : Nat :=
  if 2 * r > d' then q + 1 else if 2 * r = d' then (if q % 2 = 1 then q + 1 else q) else q

/-- renormalise after a rounding carry and pack exponent and mantissa fields. -/
def packBits (q : Nat) (e : Int) : Nat :=
  let qe : Nat × Int := if q ≥ 2^53 then (q / 2, e + 1) else (q, e)
  if qe.1 < 2^52 then qe.1 -- subnormal (biased exponent 0)
  else
    let biased : Int := qe.2 + 1075
    if biased ≥ 2047 then 2047 * 2^52 -- infinity
    else biased.toNat * 2^52 + (qe.1 - 2^52)

/-- Round-to-nearest-even of the positive rational `num/den` (`den > 0`) to binary64,
returned as the bit pattern without sign.  Only the normal range and zero are
produced by the callers (values are either 0 or in `[1e-22, 2^64]`); subnormal and
overflow cases are nevertheless handled (`inf` on overflow) so the function is total
and faithful. -/
def rneBits (num den : Nat) : Nat :=
  if num = 0 ∨ den = 0 then 0 else
  -- find e with 2^52 ≤ num/den / 2^e < 2^53 (approximately, then fix up)
  let e0 : Int := (bitLen num : Int) - (bitLen den : Int) - 53
  let e : Int := clampExp (normExp (scaleQ num den e0).1 e0)
  let s := scaleQ num den e
  packBits (roundQ s.1 s.2.1 s.2.2) e

/-- `n as f64` for a `u64` `n`. -/
def u64ToF64 (n : Nat) : Nat := rneBits n 1

def signBit : Nat := 2^63

/-- exact integer value of a non-negative binary64 bit pattern whose value is an integer
(what `(i as f64)` holds: an integer `≤ 2^64`). -/
def decodeMag (fi : Nat) : Nat :=
  if fi = 0 then 0 else
    let be := fi / 2^52
    let m := fi % 2^52 + 2^52
    -- value = m * 2^(be - 1075), be ≥ 1075 - 52 here since value ≥ 1
    if be ≥ 1075 then m * 2^(be - 1075) else m / 2^(1075 - be)

/-- the `if left.is_empty()` arm of `to_f64`: a plain integer. -/
def f64Int (negative : Bool) (lead : Nat) : Except Err Nat :=
  if negative then
    if lead > I64_MAX then .error .overflow
    else if lead > F64_EXACT_MAX then .error .precisionLoss
    else
      -- `val as f64` for val = -lead (i64): magnitude rounded, sign set unless zero
      .ok (if lead = 0 then 0 else signBit + u64ToF64 lead)
  else
    if lead > F64_EXACT_MAX then .error .precisionLoss
    else .ok (u64ToF64 lead)

/-- the `left[0] == b'.'` arm of `to_f64`; `frac` is what follows the point. -/
def f64Frac (negative : Bool) (lead : Nat) (frac : Bytes) : Except Err Nat :=
  let exponent := frac.length
  match toU64T frac lead with
  | .error e => .error e
  | .ok (i, left2) =>
    if !left2.isEmpty then .error .allDigits
    else if exponent > Tables.maxFractionDigits then .error .overflow   -- `POWER_OF_TEN.get(exponent)`
    else
      -- (i as f64) / POWER_OF_TEN[exponent]; 10^k (k ≤ 22) is exact in binary64
      let q := rneBits (decodeMag (u64ToF64 i)) (10 ^ exponent)
      -- sign * d, sign = ±1.0 (exact); -0.0 when negative and d = 0
      .ok (if negative then signBit + q else q)

/-- what `to_f64` does once `(lead, left)` is known. -/
def f64Tail (negative : Bool) (lead : Nat) (left : Bytes) : Except Err Nat :=
  match left with
  | [] => f64Int negative lead
  | l0 :: frac => if l0 == 46 then f64Frac negative lead frac else .error .allDigits

/-- the `let (lead, mut left) = if c.is_ascii_digit() … ` dispatch of `to_f64`; `dotLeft` is
`if negative { &d[1..] } else { d }`. -/
def f64Head (dotLeft : Bytes) (c : UInt8) (data : Bytes) : Except Err (Nat × Bytes) :=
  if isDigit c then toU64T2 data (digitVal c)
  else if c == 46 then .ok (0, dotLeft)
  else if c == 43 then toU64T2 data 0
  else .error .allDigits

/-- `to_f64` after the optional minus sign has been taken off. -/
def f64Body (negative : Bool) (dotLeft : Bytes) (c : UInt8) (data : Bytes) : Except Err Nat :=
  match f64Head dotLeft c data with
  | .error e => .error e
  | .ok (lead, left) => f64Tail negative lead left

/-- scalar.rs:179 `to_f64`; result is the f64 bit pattern. -/
def toF64 (d : Bytes) : Except Err Nat :=
  match d with
  | [] => .error .allDigits
  | c0 :: data0 =>
    if c0 == 45 then
      match data0 with
      | [] => .error .allDigits
      | c1 :: data1 => f64Body true data0 c1 data1
    else f64Body false d c0 data0

end Jomini.Scalar
