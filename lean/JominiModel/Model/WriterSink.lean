import JominiModel.Model.Writer
/-
Model of src/text/writer.rs over a sink that FAILS: it accepts the first `cap` bytes and refuses
every further non-empty write (`std::io::Write::write_all` then returns the error after handing over
what still fitted).  `State.out` holds the bytes that reached the sink.

Every public call is mirrored statement by statement: the `?` after a write leaves the call, the
assignments to `self` made before stay.  A call therefore returns `Ok` / the error AND the writer it
leaves behind (`&mut self` survives an `Err`).

Granularity: several `write_all`s in a row (`write!(w, " {} ", op)`, the slow path of `write_indent`,
`"` + escaped + `"`, the pieces `Display` hands to `write_fmt`) behave on such a sink exactly like one
`write_all` of the concatenation, so the model issues one `putF` per run of writes.
-/
namespace Jomini.Writer
open Jomini

/-- a fallible step on the writer: result of the call and the writer afterwards -/
abbrev FM := State → Except WErr Unit × State

namespace FM
def ok : FM := fun s => (.ok (), s)
/-- an assignment to fields of `self` -/
def mod (f : State → State) : FM := fun s => (.ok (), f s)
/-- `a?; b` -/
def seq (a b : FM) : FM := fun s =>
  match a s with
  | (.ok (), s1) => b s1
  | (.error e, s1) => (.error e, s1)
/-- a step that reads `self` -/
def dep (k : State → FM) : FM := fun s => k s s
end FM

/-- `self.writer.write_all(b)?` on the failing sink -/
def putF (cap : Nat) (b : Bytes) : FM := fun s =>
  if b = [] then (.ok (), s)
  else if b.length ≤ cap - s.out.length then (.ok (), put s b)
  else (.error .io, put s (b.take (cap - s.out.length)))

/-- writer.rs:576 -/
def writeLineTerminatorF (cap : Nat) : FM :=
  .dep fun s => if s.needsLineTerminator then
    .seq (putF cap [10]) (.mod fun s => { s with needsLineTerminator := false }) else .ok

/-- writer.rs:623 (cached path and byte-at-a-time path write the same bytes) -/
def writeIndentF (cap : Nat) : FM :=
  .dep fun s => putF cap (List.replicate (s.depth.length * s.indentFactor) s.indentChar)

/-- writer.rs:586 -/
def writePreambleF (cap : Nat) : FM :=
  .dep fun s0 => .seq (writeLineTerminatorF cap) (.dep fun s =>
    match s.state with
    | .arrayValue | .secondUnknown =>
      if s0.needsLineTerminator then writeIndentF cap
      else if s.mixedMode = .keyed then .mod fun s => { s with mixedMode := .started }
      else putF cap [32]
    | .key => writeIndentF cap
    | .keyValueSeparator => putF cap [61]
    | x => if x.noDataYet then writeIndentF cap else .ok)

/-- writer.rs:615 (no write) -/
def writeEpilogueF : FM := fun s =>
  match s.state.next with
  | none => (.error .panic, s)
  | some st => (.ok (), { s with state := st, needsLineTerminator := decide (st = .key) })

/-- writer.rs:157 -/
def writeStartF (cap : Nat) : FM :=
  .seq (writePreambleF cap) (.seq (putF cap [123]) (.mod fun s =>
    { s with depth := s.mode :: s.depth, needsLineTerminator := true, mode := .array, state := .firstUnknown }))

def writeObjectStartF (cap : Nat) : FM :=
  .seq (writeStartF cap) (.mod fun s => { s with mode := .object, state := .firstKey })

def writeArrayStartF (cap : Nat) : FM :=
  .seq (writeStartF cap) (.mod fun s => { s with mode := .array, state := .arrayValueFirst })

/-- writer.rs:187: the stack is popped and mode / state are set BEFORE the first write -/
def writeEndF (cap : Nat) : FM := fun s0 =>
  match s0.depth with
  | [] => (.error .stackEmpty, s0)
  | mode :: rest =>
    let s := { s0 with depth := rest, mode := mode,
                       state := (match mode with | .object => .key | .array => .arrayValue) }
    (FM.seq (if s0.state.noDataYet then putF cap [32] else .seq (putF cap [10]) (writeIndentF cap))
      (.seq (putF cap [125]) (.mod fun s => { s with needsLineTerminator := true, mixedMode := .disabled }))) s

/-- writer.rs:254 -/
def writeOperatorF (cap : Nat) (op : Op) : FM :=
  .dep fun s => if s.mixedMode = .disabled then
    .seq (if op = .eq then putF cap [61] else putF cap ([32] ++ op.symbol ++ [32]))
      (.mod fun s => { s with mode := .object, state := .objectValue })
  else .seq (putF cap op.symbol) (.mod fun s => { s with mixedMode := .keyed })

/-- writer.rs:289 / 568: `write_unquoted`, `write_fmt` -/
def writeUnquotedF (cap : Nat) (data : Bytes) : FM :=
  .seq (writePreambleF cap) (.seq (putF cap data) writeEpilogueF)

/-- writer.rs:316 -/
def writeQuotedF (cap : Nat) (data : Bytes) : FM :=
  .seq (writePreambleF cap) (.seq (putF cap ([34] ++ escape data ++ [34])) writeEpilogueF)

/-- writer.rs:495 -/
def writeHeaderF (cap : Nat) (header : Bytes) : FM :=
  .seq (writePreambleF cap) (.seq (putF cap (header ++ [32])) (.mod fun s => { s with state := .objectValue }))

/-- writer.rs:540 -/
def writeRgbF (cap : Nat) (c : Rgb) : FM :=
  .seq (writeHeaderF cap [114, 103, 98]) (.seq (writeArrayStartF cap) (.seq (writeUnquotedF cap (fmtNat c.r))
    (.seq (writeUnquotedF cap (fmtNat c.g)) (.seq (writeUnquotedF cap (fmtNat c.b))
      (match c.a with
       | some a => .seq (writeUnquotedF cap (fmtNat a)) (writeEndF cap)
       | none => writeEndF cap)))))

def writeBoolF (cap : Nat) (b : Bool) : FM := writeUnquotedF cap (if b then [121, 101, 115] else [110, 111])

/-- writer.rs:685 -/
def writeBinaryF (cap : Nat) : BinTok → FM
  | .array => writeArrayStartF cap
  | .object => writeObjectStartF cap
  | .mixedContainer => .mod startMixedMode
  | .equal => writeOperatorF cap .eq
  | .end => writeEndF cap
  | .bool b => writeBoolF cap b
  | .u32 n => writeUnquotedF cap (fmtNat n)
  | .u64 n => writeUnquotedF cap (fmtNat n)
  | .i64 i => writeUnquotedF cap (fmtInt i)
  | .i32 i => writeUnquotedF cap (fmtInt i)
  | .quoted b => writeQuotedF cap b
  | .unquoted b => writeUnquotedF cap b
  | .f32 t => writeUnquotedF cap t
  | .f64 t => writeUnquotedF cap t
  | .token id => writeUnquotedF cap (unknownPrefix ++ fmtHex id)
  | .rgb c => writeRgbF cap c

/-- one public call on a writer over the failing sink -/
def stepF (cap : Nat) : Call → FM
  | .start => writeStartF cap
  | .objectStart => writeObjectStartF cap
  | .arrayStart => writeArrayStartF cap
  | .end => writeEndF cap
  | .mixedMode => .mod startMixedMode
  | .unquoted b => writeUnquotedF cap b
  | .quoted b => writeQuotedF cap b
  | .header b => writeHeaderF cap b
  | .operator op => writeOperatorF cap op
  | .bool b => writeBoolF cap b
  | .i32 i => writeUnquotedF cap (fmtInt i)
  | .u32 n => writeUnquotedF cap (fmtNat n)
  | .i64 i => writeUnquotedF cap (fmtInt i)
  | .u64 n => writeUnquotedF cap (fmtNat n)
  | .fmt t => writeUnquotedF cap t
  | .date f y m d h => writeUnquotedF cap (fmtDate f y m d h)
  | .rgb c => writeRgbF cap c
  | .binary t => writeBinaryF cap t

/-- a caller that goes on after an error (like `run`): per call the observation or the error; the writer
keeps whatever the failed call left in it -/
def runSink (cap : Nat) : List Call → State → State × List (Except WErr Obs)
  | [], s => (s, [])
  | c :: cs, s =>
    match stepF cap c s with
    | (.ok (), s') => let r := runSink cap cs s'; (r.1, .ok s'.obs :: r.2)
    | (.error e, s') => let r := runSink cap cs s'; (r.1, .error e :: r.2)

/-! ### `write_tape` over the failing sink (writer.rs:725-861, same index walk as `writeTape`) -/

/-- writer.rs:793 -/
def writeEscapedQuotesF (cap : Nat) (x : Bytes) : FM :=
  .seq (writePreambleF cap) (.seq (putF cap ([34] ++ x ++ [34])) writeEpilogueF)

def failF (e : WErr) : FM := fun s => (.error e, s)

mutual
/-- writer.rs:734 `write_object_core` -/
def writeObjectCoreF (cap : Nat) (toks : List Tok) : Nat → Nat → Nat → FM
  | 0, _, _ => failF .fuel
  | fuel + 1, tokenInd, endInd =>
    if tokenInd ≥ endInd then .ok else
    match toks[tokenInd]? with
    | none => failF .panic
    | some key =>
      match key with
      | .mixedContainer => .ok
      | .array .. | .object .. | .operator _ | .end _ | .header _ => failF .panic
      | .quoted _ | .unquoted _ | .parameter _ | .undefinedParameter _ =>
        match toks[tokenInd + 1]? with
        | none => failF .panic
        | some t1 =>
          let opv : Option Op × Nat := match t1 with
            | .operator x => (some x, tokenInd + 2)
            | _ => (none, tokenInd + 1)
          let op := opv.1
          let valueInd := opv.2
          match nextIdx toks (toks.length + 1) valueInd with
          | .error e => failF e
          | .ok next =>
            let opF : FM := match op with | some o => writeOperatorF cap o | none => .ok
            let afterField : FM :=
              match key with
              | .parameter x => writeParamF cap toks fuel [91, 91] x valueInd
              | .undefinedParameter x => writeParamF cap toks fuel [91, 91, 33] x valueInd
              | .quoted x => .seq (writeEscapedQuotesF cap x) (.seq opF (writeValueF cap toks fuel valueInd))
              | .unquoted x => .seq (writeUnquotedF cap x) (.seq opF (writeValueF cap toks fuel valueInd))
              | _ => failF .panic
            .seq afterField (writeObjectCoreF cap toks fuel next endInd)

/-- writer.rs:740-769 -/
def writeParamF (cap : Nat) (toks : List Tok) : Nat → Bytes → Bytes → Nat → FM
  | 0, _, _, _ => failF .fuel
  | fuel + 1, opening, x, valueInd =>
    .seq (writePreambleF cap) (.seq (putF cap (opening ++ x ++ [93, 10]))
      (match toks[valueInd]? with
       | none => failF .panic
       | some (.object e _) =>
         .seq (writeObjectCoreF cap toks fuel (valueInd + 1) e) (.seq (putF cap [10]) (.seq (writeIndentF cap) (putF cap [93])))
       | some (.array e _) =>
         .seq (writeObjectCoreF cap toks fuel e e) (.seq (putF cap [10]) (.seq (writeIndentF cap) (putF cap [93])))
       | some _ => .seq (writeValueF cap toks fuel valueInd) (putF cap [93])))

/-- writer.rs:802 `write_value` -/
def writeValueF (cap : Nat) (toks : List Tok) : Nat → Nat → FM
  | 0, _ => failF .fuel
  | fuel + 1, valueInd =>
    match toks[valueInd]? with
    | none => failF .panic
    | some tok =>
      match tok with
      | .array e _ => .seq (writeArrayStartF cap) (.seq (writeValuesF cap toks fuel (valueInd + 1) e) (writeEndF cap))
      | .object e _ => .seq (writeObjectStartF cap) (.seq (writeObjectCoreF cap toks fuel (valueInd + 1) e) (writeEndF cap))
      | .mixedContainer => .mod startMixedMode
      | .unquoted x => writeUnquotedF cap x
      | .quoted x => writeEscapedQuotesF cap x
      | .parameter _ | .undefinedParameter _ | .end _ => failF .panic
      | .operator op =>
        .seq (.dep fun s => if s.mixedMode = .disabled then putF cap [32] else .mod fun s => { s with mixedMode := .keyed })
          (putF cap op.symbol)
      | .header x =>
        match nextIdx toks (toks.length + 1) (valueInd + 1) with
        | .error e => failF e
        | .ok endInd =>
          if ¬ (valueInd < endInd) then .seq (writeHeaderF cap x) (failF .panic) else
          if ¬ (valueInd + 1 < endInd) then .seq (writeHeaderF cap x) (failF .panic) else
          match nextIdxValues toks (valueInd + 1) with
          | .error e => .seq (writeHeaderF cap x) (failF e)
          | .ok _ => .seq (writeHeaderF cap x) (writeValueF cap toks fuel (valueInd + 1))

/-- writer.rs:845 the `values()` loop -/
def writeValuesF (cap : Nat) (toks : List Tok) : Nat → Nat → Nat → FM
  | 0, _, _ => failF .fuel
  | fuel + 1, tokenInd, endInd =>
    if tokenInd < endInd then
      match nextIdxValues toks tokenInd with
      | .error e => failF e
      | .ok next => .seq (writeValueF cap toks fuel tokenInd) (writeValuesF cap toks fuel next endInd)
    else .ok
end

/-- `write_tape` into the failing sink: the result and what reached the sink -/
def writeTapeF (cap : Nat) (toks : List Tok) : FM :=
  writeObjectCoreF cap toks (4 * toks.length + 8) 0 toks.length

end Jomini.Writer
