import JominiModel.Model.Writer
/-
Model of src/text/writer.rs over a sink that FAILS: it accepts the first `cap` bytes and refuses
every further non-empty write (`std::io::Write::write_all` then returns the error after handing over
what still fitted).  `State.out` holds the bytes that reached the sink.

Every public call is mirrored statement by statement: the `?` after a write leaves the call, the
assignments to `self` made before stay.  A call therefore returns `Ok` / the error AND the writer it
leaves behind (`&mut self` survives an `Err`).

Granularity: several `write_all`s in a row (`write!(w, " {} ", op)`, the slow path of `write_indent`,
`"` + escaped + `"`, the pieces `Display` hands to `write_fmt`) behave on such a sink exactly like one
`write_all` of the concatenation, so the model issues one `putF` per run of writes.
-/
namespace Jomini.Writer
open Jomini

/-- a fallible step on the writer: result of the call and the writer afterwards -/
abbrev FM := State → Except WErr Unit × State

namespace FM
def ok : FM := fun s => (.ok (), s)
/-- an assignment to fields of `self` -/
def mod (f : State → State) : FM := fun s => (.ok (), f s)
/-- `a?; b` -/
def seq (a b : FM) : FM := fun s =>
  match a s with
  | (.ok (), s1) => b s1
  | (.error e, s1) => (.error e, s1)
/-- a step that reads `self` -/
def dep (k : State → FM) : FM := fun s => k s s
end FM

/-- `self.writer.write_all(b)?` on the failing sink -/
def putF (cap : Nat) (b : Bytes) : FM := fun s =>
  if b = [] then (.ok (), s)
  else if b.length ≤ cap - s.out.length then (.ok (), put s b)
  else (.error .io, put s (b.take (cap - s.out.length)))

/-- writer.rs:576 -/
def writeLineTerminatorF (cap : Nat) : FM :=
  .dep fun s => if s.needsLineTerminator then
    .seq (putF cap [10]) (.mod fun s => { s with needsLineTerminator := false }) else .ok

/-- writer.rs:623 (cached path and byte-at-a-time path write the same bytes) -/
def writeIndentF (cap : Nat) : FM :=
  .dep fun s => putF cap (List.replicate (s.depth.length * s.indentFactor) s.indentChar)

/-- writer.rs:586 -/
def writePreambleF (cap : Nat) : FM :=
  .dep fun s0 => .seq (writeLineTerminatorF cap) (.dep fun s =>
    match s.state with
    | .arrayValue | .secondUnknown =>
      if s0.needsLineTerminator then writeIndentF cap
      else if s.mixedMode = .keyed then .mod fun s => { s with mixedMode := .started }
      else putF cap [32]
    | .key => writeIndentF cap
    | .keyValueSeparator => putF cap [61]
    | x => if x.noDataYet then writeIndentF cap else .ok)

/-- writer.rs:615 (no write) -/
def writeEpilogueF : FM := fun s =>
  match s.state.next with
  | none => (.error .panic, s)
  | some st => (.ok (), { s with state := st, needsLineTerminator := decide (st = .key) })

/-- writer.rs:157 -/
def writeStartF (cap : Nat) : FM :=
  .seq (writePreambleF cap) (.seq (putF cap [123]) (.mod fun s =>
    { s with depth := s.mode :: s.depth, needsLineTerminator := true, mode := .array, state := .firstUnknown }))

def writeObjectStartF (cap : Nat) : FM :=
  .seq (writeStartF cap) (.mod fun s => { s with mode := .object, state := .firstKey })

def writeArrayStartF (cap : Nat) : FM :=
  .seq (writeStartF cap) (.mod fun s => { s with mode := .array, state := .arrayValueFirst })

/-- writer.rs:187: the stack is popped and mode / state are set BEFORE the first write -/
def writeEndF (cap : Nat) : FM := fun s0 =>
  match s0.depth with
  | [] => (.error .stackEmpty, s0)
  | mode :: rest =>
    let s := { s0 with depth := rest, mode := mode,
                       state := (match mode with | .object => .key | .array => .arrayValue) }
    (FM.seq (if s0.state.noDataYet then putF cap [32] else .seq (putF cap [10]) (writeIndentF cap))
      (.seq (putF cap [125]) (.mod fun s => { s with needsLineTerminator := true, mixedMode := .disabled }))) s

/-- writer.rs:254 -/
def writeOperatorF (cap : Nat) (op : Op) : FM :=
  .dep fun s => if s.mixedMode = .disabled then
    .seq (if op = .eq then putF cap [61] else putF cap ([32] ++ op.symbol ++ [32]))
      (.mod fun s => { s with mode := .object, state := .objectValue })
  else .seq (putF cap op.symbol) (.mod fun s => { s with mixedMode := .keyed })

/-- writer.rs:289 / 568: `write_unquoted`, `write_fmt` -/
def writeUnquotedF (cap : Nat) (data : Bytes) : FM :=
  .seq (writePreambleF cap) (.seq (putF cap data) writeEpilogueF)

/-- writer.rs:316 -/
def writeQuotedF (cap : Nat) (data : Bytes) : FM :=
  .seq (writePreambleF cap) (.seq (putF cap ([34] ++ escape data ++ [34])) writeEpilogueF)

/-- writer.rs:495 -/
def writeHeaderF (cap : Nat) (header : Bytes) : FM :=
  .seq (writePreambleF cap) (.seq (putF cap (header ++ [32])) (.mod fun s => { s with state := .objectValue }))

/-- writer.rs:540 -/
def writeRgbF (cap : Nat) (c : Rgb) : FM :=
  .seq (writeHeaderF cap [114, 103, 98]) (.seq (writeArrayStartF cap) (.seq (writeUnquotedF cap (fmtNat c.r))
    (.seq (writeUnquotedF cap (fmtNat c.g)) (.seq (writeUnquotedF cap (fmtNat c.b))
      (match c.a with
       | some a => .seq (writeUnquotedF cap (fmtNat a)) (writeEndF cap)
       | none => writeEndF cap)))))

def writeBoolF (cap : Nat) (b : Bool) : FM := writeUnquotedF cap (if b then [121, 101, 115] else [110, 111])

/-- writer.rs:685 -/
def writeBinaryF (cap : Nat) : BinTok → FM
  | .array => writeArrayStartF cap
  | .object => writeObjectStartF cap
  | .mixedContainer => .mod startMixedMode
  | .equal => writeOperatorF cap .eq
  | .end => writeEndF cap
  | .bool b => writeBoolF cap b
  | .u32 n => writeUnquotedF cap (fmtNat n)
  | .u64 n => writeUnquotedF cap (fmtNat n)
  | .i64 i => writeUnquotedF cap (fmtInt i)
  | .i32 i => writeUnquotedF cap (fmtInt i)
  | .quoted b => writeQuotedF cap b
  | .unquoted b => writeUnquotedF cap b
  | .f32 t => writeUnquotedF cap t
  | .f64 t => writeUnquotedF cap t
  | .token id => writeUnquotedF cap (unknownPrefix ++ fmtHex id)
  | .rgb c => writeRgbF cap c

/-- one public call on a writer over the failing sink -/
def stepF (cap : Nat) : Call → FM
  | .start => writeStartF cap
  | .objectStart => writeObjectStartF cap
  | .arrayStart => writeArrayStartF cap
  | .end => writeEndF cap
  | .mixedMode => .mod startMixedMode
  | .unquoted b => writeUnquotedF cap b
  | .quoted b => writeQuotedF cap b
  | .header b => writeHeaderF cap b
  | .operator op => writeOperatorF cap op
  | .bool b => writeBoolF cap b
  | .i32 i => writeUnquotedF cap (fmtInt i)
  | .u32 n => writeUnquotedF cap (fmtNat n)
  | .i64 i => writeUnquotedF cap (fmtInt i)
  | .u64 n => writeUnquotedF cap (fmtNat n)
  | .fmt t => writeUnquotedF cap t
  | .date f y m d h => writeUnquotedF cap (fmtDate f y m d h)
  | .rgb c => writeRgbF cap c
  | .binary t => writeBinaryF cap t

/-- a caller that goes on after an error (like `run`): per call the observation or the error; the writer
keeps whatever the failed call left in it -/
def runSink (cap : Nat) : List Call → State → State × List (Except WErr Obs)
  | [], s => (s, [])
  | c :: cs, s =>
    match stepF cap c s with
    | (.ok (), s') => let r := runSink cap cs s'; (r.1, .ok s'.obs :: r.2)
    | (.error e, s') => let r := runSink cap cs s'; (r.1, .error e :: r.2)

end Jomini.Writer
