import JominiModel.Model.Basic
import JominiModel.Generated.Tables
/-
Model of /repo/src/encoding.rs (`trim_ascii_end`, `decode_windows1252`,
`windows_1252_create`, `decode_utf8`, `utf8_create`), of the helpers it uses from
/repo/src/util.rs (`le_u64`, `repeat_byte`, `contains_zero_byte`), of `char::encode_utf8`
(what `String::push` does) and of std's `String::from_utf8_lossy` / `Utf8Chunks::next`
(library/core/src/str/lossy.rs, library/alloc/src/string.rs).

A Rust `str` / `String` is modelled by its bytes.  `Cow<str>` keeps the variant, because
being *borrowed* is part of the property (zero-copy `&str` fields).  Slices are lists;
`&d[i..]` is the remaining list.  The static `WINDOWS_1252` table is the measured table
`Tables.win1252` (code points); indexing it is an explicit `panic` outcome when out of
bounds, like the Rust index expression.
-/
namespace Jomini.Encoding
open Jomini

/-- `Cow<'a, str>`: borrowed = a sub-slice of the input (no allocation), owned = a new
`String`.  Both carry the UTF-8 bytes of the text. -/
inductive Cow where
  | borrowed (b : Bytes)
  | owned (b : Bytes)
  deriving DecidableEq, Repr

def Cow.bytes : Cow → Bytes
  | .borrowed b => b
  | .owned b => b

def Cow.isBorrowed : Cow → Bool
  | .borrowed _ => true
  | .owned _ => false

/-- outcome of a decoder: a value, or a Rust panic (index out of bounds). -/
inductive Res (α : Type) where
  | ok (v : α)
  | panic
  deriving DecidableEq, Repr

/-- `u8::is_ascii_whitespace`: U+0020, U+0009, U+000A, U+000C, U+000D (not U+000B). -/
def isAsciiWhitespace (b : UInt8) : Bool :=
  b == 32 || b == 9 || b == 10 || b == 12 || b == 13

/-- the `while let [rest @ .., last] = bytes` loop of `trim_ascii_end`, on the reversed
slice (so that `last` is the head). -/
def trimLoop : Bytes → Bytes
  | [] => []
  | last :: rest => if isAsciiWhitespace last then trimLoop rest else last :: rest

/-- encoding.rs:112 `trim_ascii_end` -/
def trimAsciiEnd (d : Bytes) : Bytes := (trimLoop d.reverse).reverse

/-- `u8::is_ascii` -/
def isAscii (b : UInt8) : Bool := b < 128

/-! ### `char::encode_utf8` (what `String::push(char)` appends) -/

/-- core/src/char/methods.rs `encode_utf8_raw` on the code point. -/
def encodeUtf8 (code : Nat) : Bytes :=
  if code < 0x80 then [UInt8.ofNat code]
  else if code < 0x800 then
    [UInt8.ofNat (code / 64 % 32 + 0xC0), UInt8.ofNat (code % 64 + 0x80)]
  else if code < 0x10000 then
    [UInt8.ofNat (code / 4096 % 16 + 0xE0), UInt8.ofNat (code / 64 % 64 + 0x80), UInt8.ofNat (code % 64 + 0x80)]
  else
    [UInt8.ofNat (code / 262144 % 8 + 0xF0), UInt8.ofNat (code / 4096 % 64 + 0x80),
     UInt8.ofNat (code / 64 % 64 + 0x80), UInt8.ofNat (code % 64 + 0x80)]

/-! ### Windows-1252 -/

/-- the `for &c in rest.iter().filter(|&x| *x != b'\\') { result.push(WINDOWS_1252[c as usize]) }`
loop of `windows_1252_create`. -/
def w1252Push : Bytes → Bytes → Res Bytes
  | [], result => .ok result
  | c :: rest, result =>
    if c != 92 then
      match Tables.win1252[c.toNat]? with
      | none => .panic
      | some ch => w1252Push rest (result ++ encodeUtf8 ch)
    else w1252Push rest result

/-- encoding.rs:145 `windows_1252_create` (`split_at` panics when `offset > len`). -/
def windows1252Create (d : Bytes) (offset : Nat) : Res Bytes :=
  if offset > d.length then .panic
  else
    let upto := d.take offset
    let rest := d.drop offset
    w1252Push rest upto

/-- the `for x in bytes { eject |= !x.is_ascii() || *x == b'\\' }` loop. -/
def ejectLoop : Bytes → Bool → Bool
  | [], eject => eject
  | x :: xs, eject => ejectLoop xs (eject || (!isAscii x || x == 92))

/-- encoding.rs:128 `decode_windows1252` -/
def decodeWindows1252 (d : Bytes) : Res Cow :=
  let bytes := trimAsciiEnd d
  let eject := ejectLoop bytes false
  if eject then
    match windows1252Create bytes 0 with
    | .panic => .panic
    | .ok s => .ok (.owned s)
  else .ok (.borrowed bytes)

/-! ### SWAR helpers (util.rs) -/

/-- util.rs `le_u64`: `u64::from_le_bytes` of eight bytes (`b0` is the least significant
byte, so it is the rightmost operand of the concatenation). -/
def leU64 (b0 b1 b2 b3 b4 b5 b6 b7 : UInt8) : BitVec 64 :=
  b7.toBitVec ++ b6.toBitVec ++ b5.toBitVec ++ b4.toBitVec ++
  b3.toBitVec ++ b2.toBitVec ++ b1.toBitVec ++ b0.toBitVec

/-- util.rs `repeat_byte`: `(b as u64) * (u64::MAX / 255)`. -/
def repeatByte (b : UInt8) : BitVec 64 := b.toBitVec.zeroExtend 64 * 0x0101010101010101#64

/-- util.rs `contains_zero_byte`: `x.wrapping_sub(LO) & !x & HI != 0`. -/
def containsZeroByte (x : BitVec 64) : Bool :=
  (x - 0x0101010101010101#64) &&& ~~~x &&& 0x8080808080808080#64 != 0#64

/-! ### `String::from_utf8_lossy` (std) -/

/-- core/src/str/validations.rs `utf8_char_width` (the `UTF8_CHAR_WIDTH` table). -/
def utf8CharWidth (b : UInt8) : Nat :=
  if b < 0x80 then 1
  else if b < 0xC2 then 0
  else if b < 0xE0 then 2
  else if b < 0xF0 then 3
  else if b < 0xF5 then 4
  else 0

/-- `safe_get(xs, i) = *xs.get(i).unwrap_or(&0)` -/
def safeGet (xs : Bytes) (i : Nat) : UInt8 := (xs[i]?).getD 0

/-- `b & 192 != TAG_CONT_U8` negated: `b` is a continuation byte. -/
def isCont (b : UInt8) : Bool := b &&& 192 == 128

/-- the `match (byte, safe_get(self.source, i))` of the 3-byte arm. -/
def second3 (byte b1 : UInt8) : Bool :=
  (byte == 0xE0 && 0xA0 ≤ b1 && b1 ≤ 0xBF) ||
  (0xE1 ≤ byte && byte ≤ 0xEC && 0x80 ≤ b1 && b1 ≤ 0xBF) ||
  (byte == 0xED && 0x80 ≤ b1 && b1 ≤ 0x9F) ||
  (0xEE ≤ byte && byte ≤ 0xEF && 0x80 ≤ b1 && b1 ≤ 0xBF)

/-- the `match (byte, safe_get(self.source, i))` of the 4-byte arm. -/
def second4 (byte b1 : UInt8) : Bool :=
  (byte == 0xF0 && 0x90 ≤ b1 && b1 ≤ 0xBF) ||
  (0xF1 ≤ byte && byte ≤ 0xF3 && 0x80 ≤ b1 && b1 ≤ 0xBF) ||
  (byte == 0xF4 && 0x80 ≤ b1 && b1 ≤ 0x8F)

/-- The `while i < self.source.len()` loop of `Utf8Chunks::next`, entered at a loop head
(where `valid_up_to = i`).  Arguments: fuel, `rest = source[i..]`, `i`.  Result:
`(valid_up_to, i)` when the loop is left (by `break` or by its condition). -/
def chunkScan : Nat → Bytes → Nat → Nat × Nat
  | 0, _, i => (i, i)
  | _ + 1, [], i => (i, i)                      -- `i < len` is false
  | fuel + 1, byte :: rest, i =>                -- `byte = source[i]; i += 1` (now `rest = source[i..]`)
    if byte < 128 then chunkScan fuel rest (i + 1)
    else
      match utf8CharWidth byte with
      | 2 =>
        if !isCont (safeGet rest 0) then (i, i + 1)
        else chunkScan fuel (rest.drop 1) (i + 2)
      | 3 =>
        if !second3 byte (safeGet rest 0) then (i, i + 1)
        else if !isCont (safeGet rest 1) then (i, i + 2)
        else chunkScan fuel (rest.drop 2) (i + 3)
      | 4 =>
        if !second4 byte (safeGet rest 0) then (i, i + 1)
        else if !isCont (safeGet rest 1) then (i, i + 2)
        else if !isCont (safeGet rest 2) then (i, i + 3)
        else chunkScan fuel (rest.drop 3) (i + 4)
      | _ => (i, i + 1)

/-- `Utf8Chunks::next` on a non-empty source: `(valid, invalid, remaining)`. -/
def nextChunk (source : Bytes) : Bytes × Bytes × Bytes :=
  let (validUpTo, i) := chunkScan source.length source 0
  let inspected := source.take i
  let remaining := source.drop i
  (inspected.take validUpTo, inspected.drop validUpTo, remaining)

/-- U+FFFD as UTF-8 -/
def REPLACEMENT : Bytes := [0xEF, 0xBF, 0xBD]

/-- the `for chunk in iter { … }` loop of `from_utf8_lossy` (fuel = number of chunks left
at most). -/
def lossyLoop : Nat → Bytes → Bytes → Bytes
  | 0, _, res => res
  | fuel + 1, source, res =>
    if source.isEmpty then res            -- `iter.next()` is `None`
    else
      match nextChunk source with
      | (valid, invalid, remaining) =>
        let res := res ++ valid
        let res := if !invalid.isEmpty then res ++ REPLACEMENT else res
        lossyLoop fuel remaining res

/-- alloc/src/string.rs `String::from_utf8_lossy` -/
def fromUtf8Lossy (v : Bytes) : Cow :=
  if v.isEmpty then .borrowed []
  else
    match nextChunk v with
    | (firstValid, invalid, remaining) =>
      if invalid.isEmpty then .borrowed firstValid
      else .owned (lossyLoop remaining.length remaining (firstValid ++ REPLACEMENT))

/-- `String::from_utf8(vec).is_ok()`.  std validates with `run_utf8_validation`; the model
uses the `Utf8Chunks` scanner (same language: RFC 3629 well-formed sequences), which is
also how `from_utf8_lossy` decides that it may return the input borrowed. -/
def fromUtf8Ok (v : Bytes) : Bool :=
  v.isEmpty || (match nextChunk v with | (_, invalid, _) => invalid.isEmpty)

/-! ### UTF-8 decoder of jomini -/

/-- encoding.rs:199 `utf8_create` -/
def utf8Create (d : Bytes) (offset : Nat) : Res Bytes :=
  if offset > d.length then .panic
  else
    let upto := d.take offset
    let rest := d.drop offset
    let result := upto ++ rest.filter (fun x => x != 92)
    if fromUtf8Ok result then .ok result
    else .ok (fromUtf8Lossy result).bytes

/-- outcome of the two scanning loops of `decode_utf8` -/
inductive ScanEnd where
  | escape (offset : Nat)     -- a backslash was seen: `return Cow::Owned(utf8_create(d, offset))`
  | done (isAscii : Bool)

/-- the `for &byte in remainder` loop -/
def utf8Remainder : Bytes → Nat → Bool → ScanEnd
  | [], _, isAscii => .done isAscii
  | byte :: rest, offset, isAscii =>
    let isAscii := isAscii && Encoding.isAscii byte
    if byte == 92 then .escape offset
    else utf8Remainder rest (offset + 1) isAscii

/-- the `for n in &mut chunk_iter` loop over `d.chunks_exact(8)`, followed by the
remainder loop. -/
def utf8Chunks : Bytes → Nat → Bool → ScanEnd
  | b0 :: b1 :: b2 :: b3 :: b4 :: b5 :: b6 :: b7 :: rest, offset, isAscii =>
    let wide := leU64 b0 b1 b2 b3 b4 b5 b6 b7
    let isAscii := isAscii && (wide &&& 0x8080808080808080#64 == 0#64)
    if containsZeroByte (wide ^^^ repeatByte 92) then .escape offset
    else utf8Chunks rest (offset + 8) isAscii
  | remainder, offset, isAscii => utf8Remainder remainder offset isAscii

/-- encoding.rs:163 `decode_utf8` -/
def decodeUtf8 (d : Bytes) : Res Cow :=
  let d := trimAsciiEnd d
  match utf8Chunks d 0 true with
  | .escape offset =>
    match utf8Create d offset with
    | .panic => .panic
    | .ok s => .ok (.owned s)
  | .done isAscii =>
    let d := trimAsciiEnd d
    if isAscii then .ok (.borrowed d)
    else .ok (fromUtf8Lossy d)

end Jomini.Encoding
