import JominiModel.Model.Basic
import JominiModel.Generated.Tables
/-
Model of the text tape parser, /repo/src/text/tape.rs:186-1068 (+ `data::is_boundary`).
Core Lean only.  The code is mirrored branch by branch, in the order the Rust tests them.

Representation choices
* `data` (the Rust `&[u8]` cursor) is always a suffix of the input, so it is a `Bytes`.
* A Rust scalar is a pointer + length into the input.  The pointer is identified by its
  distance to the END of the input (`Slice.tail` = number of input bytes from the first
  byte of the scalar to the end of the input): `data` is a suffix, so this is simply
  `data.length` at the moment the scalar is cut.  The byte offset is `|input| - tail`
  (`Slice.off`).  The slice also carries its bytes (cut from `data`), so that the tape can be
  compared across layouts without the input at hand; `wfTextTape` checks that the bytes
  are the input bytes at that offset.
* The tape is a `List Tok`; `tape[i] = x` is the checked `setTok` (panic outcome when out
  of range), `insert(len-1, x)` is `insertBeforeLast`.
* SSE2 loops are "look at the next 16 bytes as a block, first index whose byte is in the
  set" (DESIGN §5).  The byte sets come from `Generated/Tables.lean` (measured).
-/
namespace Jomini.TextTape
open Jomini

/-- membership in a measured 256-entry table. -/
@[inline] def inTab (t : List Bool) (b : UInt8) : Bool := t.getD b.toNat false

def isBoundary (b : UInt8) : Bool := inTab Tables.boundaryTab b
def isSseBoundary (b : UInt8) : Bool := inTab Tables.sseBoundary b
def isBlank (b : UInt8) : Bool := inTab Tables.wsTape b

/-- failure of a sub-parser: a Rust `Err`, or a panic (bounds check / arithmetic overflow). -/
inductive Err | eof | syntax | stackEmpty
deriving DecidableEq, Repr

inductive Fail | err (e : Err) | panic
deriving DecidableEq, Repr

/-! ### skip_ws_t (tape.rs:446) -/

/-- `inComment = true`: we are behind a `#` and look for `\n`.  Returns the rest starting at the
first non-blank byte, `none` when the input ends first (also inside a comment). -/
def skipWsAux : Bytes → Bool → Option Bytes
  | [], _ => none
  | c :: cs, true => if c = 10 then skipWsAux cs false else skipWsAux cs true
  | c :: cs, false =>
    if isBlank c then skipWsAux cs false
    else if c = 35 then skipWsAux cs true
    else some (c :: cs)

def skipWs (d : Bytes) : Option Bytes := skipWsAux d false

/-! ### split_at_scalar_fallback / split_at_scalar (tape.rs:280, 301) -/

/-- `forward_search(.., is_boundary).unwrap_or(d.len())` for a byte set `p`. -/
def findFirst (p : UInt8 → Bool) : Bytes → Nat
  | [] => 0
  | c :: cs => if p c then 0 else findFirst p cs + 1

/-- first index in a block whose byte is in the set (movemask + trailing_zeros). -/
def firstIdx (p : UInt8 → Bool) : Bytes → Option Nat
  | [] => none
  | c :: cs => if p c then some 0 else (firstIdx p cs).map (· + 1)

/-- `d.split_at(ind)`: panics when `ind > d.len()`. -/
def splitAtChecked (d : Bytes) (ind : Nat) : Option (Bytes × Bytes) :=
  if ind ≤ d.length then some (d.take ind, d.drop ind) else none

/-- `none` = panic (`split_at(1)` on an empty slice). -/
def splitAtScalarFallback (d : Bytes) : Option (Bytes × Bytes) :=
  splitAtChecked d (max (findFirst isBoundary d) 1)

/-- the SSE2 loop: `rest` = bytes from `ptr`, `at` = `ptr - start`.  Runs while more than 16
bytes remain (`ptr < end - 16`).  `some e` = boundary found in a block, `e = max (at+tz) 1`. -/
def sseScan : Nat → Bytes → Nat → Option Nat
  | 0, _, _ => none
  | fuel + 1, rest, at_ =>
    if 16 < rest.length then
      match firstIdx isSseBoundary (rest.take 16) with
      | some i => some (max (at_ + i) 1)
      | none => sseScan fuel (rest.drop 16) (at_ + 16)
    else none

def splitAtScalar (d : Bytes) : Option (Bytes × Bytes) :=
  match sseScan (d.length / 16 + 1) d 0 with
  | some e => splitAtChecked d e
  | none => splitAtScalarFallback d

/-! ### parse_quote_scalar_fallback / parse_quote_scalar (tape.rs:186, 233) -/

/-- index (in the haystack `d[1..]`) of the closing quote, bytewise with `\` skipping the next
byte.  `skip = true`: the previous byte was a backslash. -/
def quoteClose : Bytes → Bool → Option Nat
  | [], _ => none
  | _ :: cs, true => (quoteClose cs false).map (· + 1)
  | c :: cs, false =>
    if c = 92 then (quoteClose cs true).map (· + 1)
    else if c = 34 then some 0
    else (quoteClose cs false).map (· + 1)

/-- result for a haystack and the index of the closing quote in it. -/
def quoteCut (hay : Bytes) (k : Nat) : Bytes × Bytes := (hay.take k, hay.drop (k + 1))

/-- `pos` starts at 1, i.e. the first byte is never looked at; an empty `d` is `Err(eof)`. -/
def parseQuoteScalarFallback (d : Bytes) : Except Fail (Bytes × Bytes) :=
  match quoteClose d.tail false with
  | some k => .ok (quoteCut d.tail k)
  | none => .error (.err .eof)

/-- the SSE2 loop over full 16-byte blocks of the haystack; stops (→ fallback) at a block
containing a backslash. -/
def quoteScan : Nat → Bytes → Nat → Option Nat
  | 0, _, _ => none
  | fuel + 1, rest, at_ =>
    if 16 ≤ rest.length then
      if (rest.take 16).any (fun c => c = 92) then none
      else match firstIdx (fun c => c = 34) (rest.take 16) with
        | some i => some (at_ + i)
        | none => quoteScan fuel (rest.drop 16) (at_ + 16)
    else none

/-- `&d[1..]` panics on an empty `d`. -/
def parseQuoteScalar (d : Bytes) : Except Fail (Bytes × Bytes) :=
  match d with
  | [] => .error .panic
  | _ :: hay =>
    match quoteScan (hay.length / 16 + 1) hay 0 with
    | some k => .ok (quoteCut hay k)
    | none => parseQuoteScalarFallback d

/-! ### tokens -/

inductive Op | lt | le | gt | ge | ne | exact | eq | exists_
deriving DecidableEq, Repr

/-- a sub-slice of the input: `tail` = distance of its first byte to the end of the input. -/
structure Slice where
  tail : Nat
  bytes : Bytes
deriving DecidableEq, Repr

/-- byte offset of the slice in an input of length `n`. -/
def Slice.off (s : Slice) (n : Nat) : Nat := n - s.tail

inductive Tok
  | array (end_ : Nat) (mixed : Bool)
  | object (end_ : Nat) (mixed : Bool)
  | mixedContainer
  | unquoted (s : Slice)
  | quoted (s : Slice)
  | parameter (s : Slice)
  | undefParameter (s : Slice)
  | operator (o : Op)
  | endTok (i : Nat)
  | header (s : Slice)
deriving DecidableEq, Repr

/-- `TextToken::as_scalar` -/
def Tok.asScalar : Tok → Option Slice
  | .header s | .unquoted s | .quoted s | .parameter s | .undefParameter s => some s
  | _ => none

inductive PState | key | kvs | objectValue | arrayValue | parseOpen
deriving DecidableEq, Repr

structure St where
  state : PState
  mixed : Bool
  parent : Nat
  tape : List Tok
deriving DecidableEq, Repr

inductive Res
  | ok (tape : List Tok) (bom : Bool)
  | err (e : Err)
  | panic
  | outOfFuel
deriving DecidableEq, Repr

inductive Step
  | cont (st : St) (data : Bytes)
  | done (r : Res)
deriving DecidableEq, Repr

def Step.fail : Fail → Step
  | .err e => .done (.err e)
  | .panic => .done .panic

/-- `tape[i] = t` (bounds checked). -/
def setTok (tape : List Tok) (i : Nat) (t : Tok) : Option (List Tok) :=
  if i < tape.length then some (tape.set i t) else none

/-- `tape.insert(tape.len() - 1, t)`; `len() - 1` overflows on an empty tape. -/
def insertBeforeLast (tape : List Tok) (t : Tok) : Option (List Tok) :=
  match tape.getLast? with
  | none => none
  | some l => some (tape.dropLast ++ [t, l])

/-- `match tape.get(i) { Some(Array{end,..}) | Some(Object{end,..}) => end, _ => 0 }` -/
def endOf : Option Tok → Nat
  | some (.array e _) => e
  | some (.object e _) => e
  | _ => 0

/-- the three-way match on the (grand-)parent token that decides `mixed_mode` and `state`
after a container is closed. -/
def closeState : Option Tok → Bool × PState
  | some (.array _ m) => (m, .arrayValue)
  | some (.object _ m) => (m, if m then .arrayValue else .key)
  | _ => (false, .key)

/-! ### scalar lexing into the tape -/

/-- `ParserState::parse_quote_scalar` (tape.rs:475): the scalar starts one byte into `d`. -/
def parseQuoteTok (tape : List Tok) (d : Bytes) : Except Fail (List Tok × Bytes) :=
  match parseQuoteScalar d with
  | .ok (s, rest) => .ok (tape ++ [.quoted ⟨d.length - 1, s⟩], rest)
  | .error f => .error f

/-- `parse_scalar` (tape.rs:506) -/
def parseScalarTok (tape : List Tok) (d : Bytes) : Except Fail (List Tok × Bytes) :=
  match splitAtScalar d with
  | some (s, rest) => .ok (tape ++ [.unquoted ⟨d.length, s⟩], rest)
  | none => .error .panic

/-- `parse_variable` (tape.rs:482): `@[ ... ]` up to and including the first `]`, otherwise an
ordinary unquoted scalar. -/
def parseVariableTok (tape : List Tok) (d : Bytes) : Except Fail (List Tok × Bytes) :=
  if d[1]? = some 91 then
    match firstIdx (fun c => c = 93) (d.drop 2) with
    | some i =>
      match splitAtChecked d (i + 2 + 1) with
      | some (s, rest) => .ok (tape ++ [.unquoted ⟨d.length, s⟩], rest)
      | none => .error .panic
    | none => .error (.err .eof)
  else parseScalarTok tape d

/-- the `b'"'` / `b'@'` / `_` arms shared by four states. -/
def lexValue (tape : List Tok) (d : Bytes) : Except Fail (List Tok × Bytes) :=
  match d with
  | [] => .error .panic
  | c :: _ =>
    if c = 34 then parseQuoteTok tape d
    else if c = 64 then parseVariableTok tape d
    else parseScalarTok tape d

/-- the operator patterns of KeyValueSeparator / ArrayValue: `(op, bytes consumed)`.
`allowExists`: the `?=` arm exists only in KeyValueSeparator. -/
def lexOperator (allowExists : Bool) (d : Bytes) : Option (Op × Bytes) :=
  match d with
  | [] => none
  | c :: r =>
    let two := r.head? = some 61
    if c = 60 then (if two then some (.le, r.tail) else some (.lt, r))
    else if c = 62 then (if two then some (.ge, r.tail) else some (.gt, r))
    else if c = 33 then (if two then some (.ne, r.tail) else none)
    else if c = 63 then (if two && allowExists then some (.exists_, r.tail) else none)
    else if c = 61 then (if two then some (.exact, r.tail) else some (.eq, r))
    else none

/-! ### parse_parameter_definition (tape.rs:995) -/

/-- `if initial { tape[len-1] = Object{end: parent}; parent = len-1 }`; `none` = panic. -/
def paramDefPre (st : St) (initial : Bool) : Option (List Tok × Nat) :=
  if initial then
    (if st.tape.length = 0 then none
     else (setTok st.tape (st.tape.length - 1) (.object st.parent false)).map (fun t => (t, st.tape.length - 1)))
  else some (st.tape, st.parent)

def paramTok (isUndefined : Bool) (s : Slice) : Tok :=
  if isUndefined then .undefParameter s else .parameter s

/-- after the `initial` block: parameter name, then a parameter value or the first key. -/
def paramDefBody (mixed : Bool) (tape : List Tok) (parent : Nat) (data : Bytes) : Step :=
  let isUndefined := decide (data[2]? = some 33)
  let k := 2 + (if isUndefined then 1 else 0)
  -- `data.get(k..)` is `None` when `k > len`
  if data.length < k then .done (.err .eof) else
  let d := data.drop k
  if d.isEmpty then .done (.err .eof) else
  match splitAtScalar d with
  | none => .done .panic
  | some (name, d2) =>
    if d2.head? ≠ some 93 then .done (.err .syntax) else
    let d3 := d2.tail
    let nameSl : Slice := ⟨d.length, name⟩
    let ptok : Tok := paramTok isUndefined nameSl
    match skipWs d3 with
    | none => .done (.err .eof)
    | some d4 =>
      match splitAtScalar d4 with
      | none => .done .panic
      | some (kv, d5) =>
        match skipWs d5 with
        | none => .done (.err .eof)
        | some d6 =>
          match d6 with
          | [] => .done .panic
          | c :: rest =>
            if c = 93 then
              .cont { state := .key, mixed := mixed, parent := parent,
                      tape := tape ++ [ptok] ++ [.unquoted ⟨d4.length, kv⟩] } rest
            else
              .cont { state := .kvs, mixed := mixed, parent := (tape ++ [ptok]).length,
                      tape := tape ++ [ptok] ++ [.object parent false, .unquoted ⟨d4.length, kv⟩] } d6

def paramDef (st : St) (data : Bytes) (initial : Bool) : Step :=
  if data[1]? ≠ some 91 then .done (.err .syntax) else
  match paramDefPre st initial with
  | none => .done .panic
  | some (tape, parent) => paramDefBody st.mixed tape parent data

/-! ### the five states (tape.rs:556-991); `data` is what `skip_ws_t` returned -/

def stepKey (st : St) (data : Bytes) : Step :=
  match data with
  | [] => .done .panic
  | c :: rest =>
    if c = 125 ∨ c = 93 then
      let savedMixed := st.mixed
      let grand := endOf st.tape[st.parent]?
      let ms := closeState st.tape[grand]?
      let endIdx := st.tape.length
      if st.parent = 0 ∧ grand = 0 then
        -- extraneous close brace: skipped (mixed_mode / state were already overwritten)
        .cont { st with mixed := ms.1, state := ms.2 } rest
      else
        match setTok (st.tape ++ [.endTok st.parent]) st.parent (.object endIdx savedMixed) with
        | none => .done .panic
        | some tape => .cont { state := ms.2, mixed := ms.1, parent := grand, tape := tape } rest
    else if c = 123 then
      match skipWs rest with
      | none => .done (.err .eof)
      | some d2 =>
        match d2 with
        | [] => .done .panic
        | c2 :: rest2 =>
          if c2 = 125 then .cont st rest2
          else
            match st.tape.getLast? with
            | some (.unquoted h) =>
              .cont { st with tape := st.tape.dropLast ++ [.header h, .array 0 false], state := .parseOpen } d2
            | _ => .done (.err .syntax)
    else if c = 91 then paramDef st data false
    else
      match lexValue st.tape data with
      | .ok (tape, rest') => .cont { st with tape := tape, state := .kvs } rest'
      | .error f => Step.fail f

def stepKvs (st : St) (data : Bytes) : Step :=
  match data with
  | [] => .done .panic
  | c :: rest =>
    match lexOperator true data with
    | some (.eq, r) =>
      if st.mixed then .cont { st with tape := st.tape ++ [.operator .eq] } r
      else .cont { st with state := .objectValue } r
    | some (o, r) => .cont { st with tape := st.tape ++ [.operator o], state := .objectValue } r
    | none =>
      if c = 123 then .cont { st with state := .objectValue } (c :: rest)
      else
        -- `[b'}', ..]` and `_` arms are the same code
        match insertBeforeLast st.tape .mixedContainer with
        | none => .done .panic
        | some tape => .cont { st with tape := tape, state := .arrayValue, mixed := true } (c :: rest)

def stepObjectValue (st : St) (data : Bytes) : Step :=
  match data with
  | [] => .done .panic
  | c :: rest =>
    if c = 123 then .cont { st with tape := st.tape ++ [.array 0 false], state := .parseOpen } rest
    else if c = 125 then .done (.err .syntax)
    else
      match lexValue st.tape data with
      | .ok (tape, rest') => .cont { st with tape := tape, state := .key } rest'
      | .error f => Step.fail f

/-- ParseOpen, after the first scalar of a container (tape.rs:842):
`match data { [b'=' | b'>' | b'<', ..] | [b'!' | b'?', b'=', ..] => Object…, _ => Array… }` -/
def firstFieldPeek : Bytes → Bool
  | [] => false
  | c :: r => decide (c = 61 ∨ c = 62 ∨ c = 60) || (decide (c = 33 ∨ c = 63) && decide (r.head? = some 61))

def stepParseOpen (st : St) (data : Bytes) : Step :=
  match data with
  | [] => .done .panic
  | c :: rest =>
    if c = 125 then
      -- empty array
      if st.tape.length = 0 then .done .panic else
      let ind := st.tape.length - 1
      let ms := closeState st.tape[st.parent]?
      match setTok st.tape ind (.array (ind + 1) false) with
      | none => .done .panic
      | some tape => .cont { st with mixed := ms.1, state := ms.2, tape := tape ++ [.endTok ind] } rest
    else if c = 91 then
      if st.mixed then .done (.err .syntax) else paramDef st data true
    else if c = 123 then
      match skipWs rest with
      | none => .done (.err .eof)
      | some scratch =>
        match scratch with
        | [] => .done .panic
        | c2 :: rest2 =>
          if c2 = 125 then .cont st rest2
          else
            if st.tape.length = 0 then .done .panic else
            let ind := st.tape.length - 1
            match setTok st.tape ind (.array st.parent false) with
            | none => .done .panic
            | some tape => .cont { state := .arrayValue, mixed := false, parent := ind, tape := tape } (c :: rest)
    else
      match lexValue st.tape data with
      | .error f => Step.fail f
      | .ok (tape, rest') =>
        -- `if mixed_mode { if let Some(Array|Object {mixed, ..}) = tape.get_mut(parent) { *mixed = true } }`
        let tape :=
          if st.mixed then
            match tape[st.parent]? with
            | some (.array e _) => tape.set st.parent (.array e true)
            | some (.object e _) => tape.set st.parent (.object e true)
            | _ => tape
          else tape
        match skipWs rest' with
        | none => .done (.err .eof)
        | some d2 =>
          if tape.length < 2 then .done .panic else
          let ind := tape.length - 2
          if firstFieldPeek d2 then
            match setTok tape ind (.object st.parent false) with
            | none => .done .panic
            | some tape => .cont { state := .kvs, mixed := false, parent := ind, tape := tape } d2
          else
            match setTok tape ind (.array st.parent false) with
            | none => .done .panic
            | some tape => .cont { state := .arrayValue, mixed := false, parent := ind, tape := tape } d2

/-- the operator arm of ArrayValue (tape.rs:930-985).  `onErr` is what the two
`InvalidSyntax { offset: self.offset(data) - 1 }` sites produce: the error, or a panic when the
subtraction overflows (offset 0). -/
def arrayOpPre (onErr : Res) (st : St) : Except Res (List Tok × Bool) :=
  if st.mixed then .ok (st.tape, true)
  else
    match st.tape.getLast?.bind Tok.asScalar with
    | some _ =>
      match insertBeforeLast st.tape .mixedContainer with
      | some tape => .ok (tape, true)
      | none => .error .panic
    | none => .error onErr

def stepArrayOp (onErr : Res) (st : St) (data : Bytes) : Step :=
  match arrayOpPre onErr st with
  | .error r => .done r
  | .ok (tape, mixed) =>
    match lexOperator false data with
    | some (o, r) => .cont { st with tape := tape ++ [.operator o], mixed := mixed } r
    | none => .done onErr

def stepArrayValue (origLen : Nat) (st : St) (data : Bytes) : Step :=
  match data with
  | [] => .done .panic
  | c :: rest =>
    if c = 123 then .cont { st with tape := st.tape ++ [.array 0 false], state := .parseOpen } rest
    else if c = 125 then
      let savedMixed := st.mixed
      let p := st.tape[st.parent]?
      let grand := endOf p
      let isArray := match p with | some (.array _ _) => true | _ => false
      let ms := closeState st.tape[grand]?
      if st.parent = 0 ∧ grand = 0 then .done (.err .stackEmpty)
      else
        let endIdx := st.tape.length
        match setTok st.tape st.parent (if isArray then .array endIdx savedMixed else .object endIdx savedMixed) with
        | none => .done .panic
        | some tape => .cont { state := ms.2, mixed := ms.1, parent := grand, tape := tape ++ [.endTok st.parent] } rest
    else if c = 34 ∨ c = 64 then
      match lexValue st.tape data with
      | .ok (tape, rest') => .cont { st with tape := tape, state := .arrayValue } rest'
      | .error f => Step.fail f
    else if c = 60 ∨ c = 62 ∨ c = 33 ∨ c = 61 then
      -- `self.offset(data) - 1` in the two error paths overflows at offset 0
      stepArrayOp (if 0 < origLen - data.length then .err .syntax else .panic) st data
    else
      match parseScalarTok st.tape data with
      | .ok (tape, rest') => .cont { st with tape := tape, state := .arrayValue } rest'
      | .error f => Step.fail f

def stepAt (origLen : Nat) (st : St) (data : Bytes) : Step :=
  match st.state with
  | .key => stepKey st data
  | .kvs => stepKvs st data
  | .objectValue => stepObjectValue st data
  | .parseOpen => stepParseOpen st data
  | .arrayValue => stepArrayValue origLen st data

/-- what happens when `skip_ws_t` reports the end of the input (tape.rs:528-551). -/
def atEof (st : St) : Res :=
  if st.state ≠ .key then .err .eof
  else if st.parent = 0 then .ok st.tape false
  else
    let grand := endOf st.tape[st.parent]?
    if grand = 0 then
      let e := st.tape.length
      match setTok (st.tape ++ [.endTok st.parent]) st.parent (.object e false) with
      | none => .panic
      | some tape => .ok tape false
    else .err .eof

/-- one iteration of the `loop` in `parse`. -/
def step (origLen : Nat) (st : St) (data : Bytes) : Step :=
  match skipWs data with
  | none => .done (atEof st)
  | some d => stepAt origLen st d

def run (origLen : Nat) : Nat → St → Bytes → Res
  | 0, _, _ => .outOfFuel
  | fuel + 1, st, data =>
    match step origLen st data with
    | .cont st' data' => run origLen fuel st' data'
    | .done r => r

def St.init : St := { state := .key, mixed := false, parent := 0, tape := [] }

def hasBom (d : Bytes) : Bool := d.take 3 == [0xef, 0xbb, 0xbf]

def Res.withBom : Res → Bool → Res
  | .ok t _, b => .ok t b
  | r, _ => r

/-- at most one iteration in a row leaves `data` untouched. -/
def fuelFor (d : Bytes) : Nat := 2 * d.length + 4

/-- `TextTape::from_slice` / `parse_slice_into_tape` (the tape is cleared first, so a reused
tape behaves like a fresh one). -/
def parse (input : Bytes) : Res :=
  let bom := hasBom input
  let data := if bom then input.drop 3 else input
  (run input.length (fuelFor data) St.init data).withBom bom

/-! ### C06: structural soundness checker -/

def Tok.slice? : Tok → Option Slice := Tok.asScalar

/-- every container start at `i` has `end = j > i` with `toks[j] = End i`; every `End j` at `i`
has `0 < j < i` and `toks[j]` a container whose end is `i`. -/
def linkOkAt (toks : List Tok) (i : Nat) : Tok → Bool
  | .array e _ | .object e _ => decide (i < e) && (toks[e]? == some (.endTok i))
  | .endTok j =>
    decide (0 < j) && decide (j < i) &&
      (match toks[j]? with
       | some (.array e _) | some (.object e _) => e == i
       | _ => false)
  | _ => true

def linksOkFrom (toks : List Tok) : List Tok → Nat → Bool
  | [], _ => true
  | t :: ts, i => linkOkAt toks i t && linksOkFrom toks ts (i + 1)

def linksOk (toks : List Tok) : Bool := linksOkFrom toks toks 0

/-- one stack pass: container starts push their index, `End j` must find `j` on top. -/
def nestOkFrom : List Tok → Nat → List Nat → Bool
  | [], _, stack => stack.isEmpty
  | t :: ts, i, stack =>
    match t with
    | .array _ _ | .object _ _ => nestOkFrom ts (i + 1) (i :: stack)
    | .endTok j =>
      (match stack with
       | top :: stack' => top == j && nestOkFrom ts (i + 1) stack'
       | [] => false)
    | _ => nestOkFrom ts (i + 1) stack

def nestOk (toks : List Tok) : Bool := nestOkFrom toks 0 []

/-- scalars lie inside the input, carry the input's bytes, and start strictly after the
previous scalar's start.  `prev` = `tail` of the previous scalar (`none` before the first). -/
def scalarsOkFrom (input : Bytes) : List Tok → Option Nat → Bool
  | [], _ => true
  | t :: ts, prev =>
    match t.slice? with
    | none => scalarsOkFrom input ts prev
    | some s =>
      decide (s.tail ≤ input.length) && decide (s.bytes.length ≤ s.tail) &&
      (s.bytes == (input.drop (input.length - s.tail)).take s.bytes.length) &&
      (match prev with | none => true | some p => decide (s.tail < p)) &&
      scalarsOkFrom input ts (some s.tail)

def wfTextTape (input : Bytes) (toks : List Tok) : Bool :=
  linksOk toks && nestOk toks && scalarsOkFrom input toks none

end Jomini.TextTape
