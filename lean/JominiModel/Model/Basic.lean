/-
Shared basics for every model file.  Core Lean only (no Mathlib / Batteries / Std
imports) so that the `jmdriver` executable links.
-/
namespace Jomini

abbrev Bytes := List UInt8

/-- ASCII digit test, Rust `u8::is_ascii_digit`. -/
@[inline] def isDigit (b : UInt8) : Bool := decide (48 ≤ b.toNat) && decide (b.toNat ≤ 57)

/-- value of an ASCII digit (`x - b'0'`); only meaningful under `isDigit`. -/
@[inline] def digitVal (b : UInt8) : Nat := b.toNat - 48

/-- (NB: all arguments after the colon, recursive argument first: with an accumulator
before the colon Lean 4.33 times out generating the equation lemmas.)
Horner fold: decimal value of a digit string continued from an accumulator. -/
def decFrom : Bytes → Nat → Nat
  | [], acc => acc
  | x :: xs, acc => decFrom xs (acc * 10 + digitVal x)

/-- decimal value of a digit string. -/
def decVal (d : Bytes) : Nat := decFrom d 0

def allDigits (d : Bytes) : Bool := d.all isDigit

end Jomini
