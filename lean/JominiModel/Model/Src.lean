import JominiModel.Model.Basic
/-
Model of the `std::io::Read` the streaming readers pull from: the bytes not yet delivered
plus an explicit schedule.  Mirrors `harness/src/sched.rs` (`SchedReader::read`) exactly,
which is the `Read` the correspondence check drives the real readers with.

Contract of `Read::read` that the readers rely on (DESIGN.md §5): returns `n ≤ buf.len()`;
`Ok(0)` only at end of input or for an empty destination.  `give 0` / `repeat 0` steps would
break the second half; `sched::parse` rejects them and the theorems carry `Src.WfSched`.
-/
namespace Jomini

/-- sched.rs `Step` -/
inductive Step
  | give (n : Nat)        -- deliver at most n bytes on this call
  | fail                  -- this call fails once (transient)
  | failForever           -- this and every later call fails
  | repeat (n : Nat)      -- deliver at most n bytes on this and every later call
  deriving DecidableEq, Repr, Inhabited

/-- sched.rs `SchedReader` (the already-consumed part of `steps` is dropped instead of
indexed by `idx`; `pos` is `delivered`). -/
structure Src where
  rest : Bytes
  sched : List Step
  delivered : Nat := 0
  calls : Nat := 0
  faults : Nat := 0
  deriving Repr, Inhabited

/-- result of one `read` call -/
inductive ReadRes
  | ok (bytes : Bytes)
  | err
  deriving DecidableEq, Repr, Inhabited

namespace Src

def new (data : Bytes) (sched : List Step) : Src := { rest := data, sched := sched }

/-- deliver `min want space remaining` bytes -/
def deliver (s : Src) (sched' : List Step) (want : Option Nat) (space : Nat) : ReadRes × Src :=
  let n := match want with
    | none => min space s.rest.length           -- `usize::MAX.min(buf.len()).min(remaining)`
    | some w => min (min w space) s.rest.length
  (.ok (s.rest.take n),
   { s with rest := s.rest.drop n, sched := sched', delivered := s.delivered + n, calls := s.calls + 1 })

/-- sched.rs `impl Read for SchedReader`: `space` is `buf.len()` of the destination. -/
def read (s : Src) (space : Nat) : ReadRes × Src :=
  match s.sched with
  | [] => s.deliver [] none space
  | .give n :: tl => s.deliver tl (some n) space
  | .repeat n :: tl => s.deliver (.repeat n :: tl) (some n) space
  | .fail :: tl => (.err, { s with sched := tl, calls := s.calls + 1, faults := s.faults + 1 })
  | .failForever :: tl =>
      (.err, { s with sched := .failForever :: tl, calls := s.calls + 1, faults := s.faults + 1 })

/-- no step asks for zero bytes (what `sched::parse` enforces) -/
def WfSched : List Step → Prop
  | [] => True
  | .give n :: tl => 1 ≤ n ∧ WfSched tl
  | .repeat n :: tl => 1 ≤ n ∧ WfSched tl
  | _ :: tl => WfSched tl

/-- no fault steps -/
def NoFaults : List Step → Prop
  | [] => True
  | .fail :: _ => False
  | .failForever :: _ => False
  | _ :: tl => NoFaults tl

end Src
end Jomini
