import JominiModel.Model.Basic
import JominiModel.Model.Scalar
/-
Model of /repo/src/json/mod.rs:472-862 (the `Serialize` impls behind
`ObjectReader::json()`, `ArrayReader::json()`, `ValueReader::json()`), together with the
parts of /repo/src/text/dom.rs they walk (`next_idx*`, `fields_len`, `values_len`,
`FieldsIter`, `FieldGroupsIter`, `ValuesIter`, `remainder`, `read_array`, `read_object`,
`tokens_len`), the string decoders of /repo/src/encoding.rs (`decode_windows1252`,
`decode_utf8`, with `String::from_utf8_lossy` re-implemented after std's `Utf8Chunks`) and
serde_json's Compact/Pretty formatters.

The model produces a JSON *value tree* `JVal` (ordered, duplicate-preserving objects);
`renderCompact` / `renderPretty` turn it into the bytes serde_json writes.  `f64 → text`
(ryu) is NOT modelled: the renderers take the float printer as a parameter `ff`
(bit pattern ↦ bytes); the driver instantiates it with the canonical `f<bits>` form and
the harness rewrites the real output the same way.

Every `tokens[i]`, `unwrap()`, `debug_assert!` (the verification build has
debug-assertions and overflow-checks on) is a checked access giving `Fail.panic`.
Loops that need not terminate on an ill-formed token list (`end` links pointing
backwards) take fuel; running out is `Fail.hang` (the Rust loops forever / recurses
without bound).  `C16_total` shows neither outcome is reachable from a well-formed tape.
-/
namespace Jomini.Json
open Jomini

/-! ### tokens, options, outcomes -/

/-- text/operator.rs `Operator` -/
inductive Op where
  | lt | le | gt | ge | ne | exact | eq | exists_
  deriving DecidableEq, Repr

/-- text/tape.rs `TextToken` (scalars carry their raw bytes) -/
inductive TTok where
  | array (e : Nat) (mixed : Bool)
  | object (e : Nat) (mixed : Bool)
  | mixed
  | unquoted (s : Bytes)
  | quoted (s : Bytes)
  | param (s : Bytes)
  | undefParam (s : Bytes)
  | op (o : Op)
  | end_ (i : Nat)
  | header (s : Bytes)
  deriving DecidableEq, Repr

abbrev Tape := Array TTok

inductive Fail where
  | panic | hang
  deriving DecidableEq, Repr

abbrev R (α : Type) := Except Fail α

inductive DupMode where
  | group | preserve | kvp
  deriving DecidableEq, Repr

inductive Narrow where
  | all | unquoted | none
  deriving DecidableEq, Repr

structure Opts where
  pretty : Bool
  dup : DupMode
  narrow : Narrow
  deriving DecidableEq, Repr

inductive Enc where
  | w1252 | utf8
  deriving DecidableEq, Repr

/-- JSON value tree.  Objects are ordered association lists that keep duplicate keys;
strings and keys are the UTF-8 bytes of the decoded text (before JSON escaping);
`int` covers both `serialize_i64` and `serialize_u64` (both print the exact decimal);
`float` carries the IEEE-754 binary64 bit pattern. -/
inductive JVal where
  | null
  | bool (b : Bool)
  | int (i : Int)
  | float (bits : Nat)
  | str (s : Bytes)
  | arr (xs : List JVal)
  | obj (kvs : List (Bytes × JVal))
  deriving Repr

/-! ### constants (ASCII byte strings written out so that they reduce in the kernel) -/

/-- text/operator.rs:80 `Operator::name` -/
def Op.name : Op → Bytes
  | .lt => [76, 69, 83, 83, 95, 84, 72, 65, 78]                                        -- LESS_THAN
  | .le => [76, 69, 83, 83, 95, 84, 72, 65, 78, 95, 69, 81, 85, 65, 76]                -- LESS_THAN_EQUAL
  | .gt => [71, 82, 69, 65, 84, 69, 82, 95, 84, 72, 65, 78]                            -- GREATER_THAN
  | .ge => [71, 82, 69, 65, 84, 69, 82, 95, 84, 72, 65, 78, 95, 69, 81, 85, 65, 76]    -- GREATER_THAN_EQUAL
  | .exact => [69, 88, 65, 67, 84]                                                     -- EXACT
  | .eq => [69, 81, 85, 65, 76]                                                        -- EQUAL
  | .ne => [78, 79, 84, 95, 69, 81, 85, 65, 76]                                        -- NOT_EQUAL
  | .exists_ => [69, 88, 73, 83, 84, 83]                                               -- EXISTS

/-- text/operator.rs:54 `Operator::symbol` -/
def Op.symbol : Op → Bytes
  | .lt => [60] | .le => [60, 61] | .gt => [62] | .ge => [62, 61]
  | .exact => [61, 61] | .eq => [61] | .ne => [33, 61] | .exists_ => [63, 61]

def kRemainder : Bytes := [114, 101, 109, 97, 105, 110, 100, 101, 114]
def kType : Bytes := [116, 121, 112, 101]
def kVal : Bytes := [118, 97, 108]
def kObj : Bytes := [111, 98, 106]
def kArray : Bytes := [97, 114, 114, 97, 121]
def kInvalidKey : Bytes := [95, 95, 105, 110, 118, 97, 108, 105, 100, 95, 107, 101, 121]

/-! ### string decoding (encoding.rs) -/

/-- `u8::is_ascii_whitespace`: space, \t, \n, \x0c, \r (not \x0b) -/
def isAsciiWs (b : UInt8) : Bool :=
  b.toNat == 32 || b.toNat == 9 || b.toNat == 10 || b.toNat == 12 || b.toNat == 13

/-- encoding.rs:111 `trim_ascii_end` -/
def trimEnd (d : Bytes) : Bytes := (d.reverse.dropWhile isAsciiWs).reverse

/-- data.rs:1 `WINDOWS_1252[b]` as a code point -/
def w1252Cp (b : UInt8) : Nat :=
  match b.toNat with
  | 128 => 0x20ac | 129 => 0x81 | 130 => 0x201a | 131 => 0x0192 | 132 => 0x201e
  | 133 => 0x2026 | 134 => 0x2020 | 135 => 0x2021 | 136 => 0x02c6 | 137 => 0x2030
  | 138 => 0x0160 | 139 => 0x2039 | 140 => 0x0152 | 141 => 0x8d | 142 => 0x017d
  | 143 => 0x8f | 144 => 0x90 | 145 => 0x2018 | 146 => 0x2019 | 147 => 0x201c
  | 148 => 0x201d | 149 => 0x2022 | 150 => 0x2013 | 151 => 0x2014 | 152 => 0x02dc
  | 153 => 0x2122 | 154 => 0x0161 | 155 => 0x203a | 156 => 0x0153 | 157 => 0x9d
  | 158 => 0x017e | 159 => 0x0178
  | n => n

/-- UTF-8 encoding of a code point below 0x10000 that is not a surrogate
(`String::push(char)`; every table entry is below 0x2123). -/
def utf8Enc (c : Nat) : Bytes :=
  if c < 0x80 then [UInt8.ofNat c]
  else if c < 0x800 then [UInt8.ofNat (0xC0 + c / 64), UInt8.ofNat (0x80 + c % 64)]
  else [UInt8.ofNat (0xE0 + c / 4096), UInt8.ofNat (0x80 + (c / 64) % 64), UInt8.ofNat (0x80 + c % 64)]

/-- encoding.rs:126 `decode_windows1252`: trim, then (only if a non-ASCII byte or a
backslash is present) drop every backslash and translate through the table. -/
def decodeW1252 (d : Bytes) : Bytes :=
  let bytes := trimEnd d
  if bytes.any (fun x => decide (x.toNat ≥ 128) || x.toNat == 92) then
    (bytes.filter (fun x => x.toNat != 92)).flatMap (fun c => utf8Enc (w1252Cp c))
  else bytes

def isCont (b : UInt8) : Bool := decide (128 ≤ b.toNat) && decide (b.toNat < 192)

/-- U+FFFD in UTF-8 -/
def replacement : Bytes := [0xEF, 0xBF, 0xBD]

/-- the `(lead, second)` test of a three-byte sequence in `Utf8Chunks::next` -/
def utf8Second3 (b c : UInt8) : Bool :=
  (b.toNat == 0xE0 && decide (0xA0 ≤ c.toNat) && decide (c.toNat ≤ 0xBF)) ||
  (decide (0xE1 ≤ b.toNat) && decide (b.toNat ≤ 0xEC) && decide (0x80 ≤ c.toNat) && decide (c.toNat ≤ 0xBF)) ||
  (b.toNat == 0xED && decide (0x80 ≤ c.toNat) && decide (c.toNat ≤ 0x9F)) ||
  (decide (0xEE ≤ b.toNat) && decide (b.toNat ≤ 0xEF) && decide (0x80 ≤ c.toNat) && decide (c.toNat ≤ 0xBF))

/-- the `(lead, second)` test of a four-byte sequence -/
def utf8Second4 (b c : UInt8) : Bool :=
  (b.toNat == 0xF0 && decide (0x90 ≤ c.toNat) && decide (c.toNat ≤ 0xBF)) ||
  (decide (0xF1 ≤ b.toNat) && decide (b.toNat ≤ 0xF3) && decide (0x80 ≤ c.toNat) && decide (c.toNat ≤ 0xBF)) ||
  (b.toNat == 0xF4 && decide (0x80 ≤ c.toNat) && decide (c.toNat ≤ 0x8F))

/-- `String::from_utf8_lossy` after std's `Utf8Chunks::next` (core/src/str/lossy.rs):
a lead byte followed by the longest prefix of its continuation bytes that can still
start a valid sequence is one maximal invalid part, replaced by one U+FFFD;
`safe_get` past the end yields 0, which is never a continuation byte. -/
def lossy : Bytes → Bytes
  | [] => []
  | b :: rest =>
    if b.toNat < 128 then b :: lossy rest
    else if 0xC2 ≤ b.toNat ∧ b.toNat ≤ 0xDF then
      match rest with
      | c :: rest' => if isCont c then b :: c :: lossy rest' else replacement ++ lossy (c :: rest')
      | [] => replacement
    else if 0xE0 ≤ b.toNat ∧ b.toNat ≤ 0xEF then
      match rest with
      | c :: rest' =>
        if !utf8Second3 b c then replacement ++ lossy (c :: rest')
        else
          match rest' with
          | d :: rest'' => if isCont d then b :: c :: d :: lossy rest'' else replacement ++ lossy (d :: rest'')
          | [] => replacement
      | [] => replacement
    else if 0xF0 ≤ b.toNat ∧ b.toNat ≤ 0xF4 then
      match rest with
      | c :: rest' =>
        if !utf8Second4 b c then replacement ++ lossy (c :: rest')
        else
          match rest' with
          | d :: rest'' =>
            if !isCont d then replacement ++ lossy (d :: rest'')
            else
              match rest'' with
              | e :: rest''' => if isCont e then b :: c :: d :: e :: lossy rest''' else replacement ++ lossy (e :: rest''')
              | [] => replacement
          | [] => replacement
      | [] => replacement
    else replacement ++ lossy rest

/-- encoding.rs:159 `decode_utf8`.  The 8-byte chunk scan only decides *whether* a
backslash exists (`utf8_create(d, offset)` copies the backslash-free prefix and filters
the rest, i.e. filters everything); `String::from_utf8(..)` falling back to
`from_utf8_lossy` equals `lossy`, which is the identity on valid UTF-8. -/
def decodeUtf8 (d : Bytes) : Bytes :=
  let t := trimEnd d
  if t.any (fun x => x.toNat == 92) then lossy (t.filter (fun x => x.toNat != 92))
  else if t.all (fun x => decide (x.toNat < 128)) then t
  else lossy t

def decode : Enc → Bytes → Bytes
  | .w1252, d => decodeW1252 d
  | .utf8, d => decodeUtf8 d

/-! ### scalars (json/mod.rs:472 `serialize_scalar`) -/

/-- `f64::is_finite` on a bit pattern (serde_json writes `null` otherwise) -/
def f64Finite (bits : Nat) : Bool := decide ((bits / 2 ^ 52) % 2048 ≠ 2047)

/-- json/mod.rs:472 `serialize_scalar` on the raw scalar bytes: bool, then
`(to_i64, to_u64, to_f64)` matched as `(Ok, _, Ok) | (_, Ok, Ok) | (_, _, Ok) | _`. -/
def serializeScalar (enc : Enc) (s : Bytes) : JVal :=
  match Scalar.toBool s with
  | .ok b => .bool b
  | .error _ =>
    match Scalar.toI64 s, Scalar.toU64 s, Scalar.toF64 s with
    | .ok x, _, .ok _ => .int x
    | _, .ok x, .ok _ => .int (x : Int)
    | _, _, .ok f => if f64Finite f then .float f else .null
    | _, _, _ => .str (decode enc s)

/-- the scalar arms of `JsonValueBuilder::serialize` (json/mod.rs:521-529) -/
def narrowScalar (o : Opts) (enc : Enc) (quoted : Bool) (s : Bytes) : JVal :=
  if quoted then
    if o.narrow = .all then serializeScalar enc s else .str (decode enc s)
  else
    if o.narrow ≠ .none then serializeScalar enc s else .str (decode enc s)

/-- dom.rs:691 `ValueReader::raw_str` of a token -/
def tokStr? (enc : Enc) : TTok → Option Bytes
  | .header s | .unquoted s | .quoted s | .param s | .undefParam s => some (decode enc s)
  | .op o => some o.symbol
  | _ => none

/-- json/mod.rs:843 `KeyScalarWrapper` (+ `serialize_parameter`): JSON text of a field key -/
def keyJson (enc : Enc) : TTok → Bytes
  | .param s => [91] ++ decode enc s ++ [93]
  | .undefParam s => [91, 33] ++ decode enc s ++ [93]
  | .quoted s | .unquoted s | .header s => decode enc s
  | _ => []

/-- raw key bytes `key.read_scalar().as_bytes()` (the grouping key) -/
def keyBytes : TTok → Bytes
  | .param s | .undefParam s | .quoted s | .unquoted s | .header s => s
  | _ => []

/-- `OperatorValue::serialize` around an already serialized value -/
def wrapOp (op : Option Op) (v : JVal) : JVal :=
  match op with
  | some o => .obj [(o.name, v)]
  | none => v

/-! ### DOM walk (text/dom.rs) -/

/-- dom.rs:21 `next_idx_header` -/
def nextIdxHeader (t : Tape) (idx : Nat) : R Nat :=
  match t[idx]? with
  | none => .error .panic
  | some (.array e _) => .ok (e + 1)
  | some (.object e _) => .ok (e + 1)
  | some (.op _) => .ok (idx + 2)
  | some .mixed => .ok (idx + 2)
  | some _ => .ok (idx + 1)

/-- dom.rs:32 `next_idx` (the `Operator` arm recurses; fuel = tokens left + 1 always suffices,
the recursion ends at the latest with an out-of-bounds panic) -/
def nextIdxF (t : Tape) : Nat → Nat → R Nat
  | 0, _ => .error .hang
  | fuel + 1, idx =>
    match t[idx]? with
    | none => .error .panic
    | some (.array e _) => .ok (e + 1)
    | some (.object e _) => .ok (e + 1)
    | some (.op _) => nextIdxF t fuel (idx + 1)
    | some (.header _) => nextIdxHeader t (idx + 1)
    | some _ => .ok (idx + 1)

def nextIdx (t : Tape) (idx : Nat) : R Nat := nextIdxF t (t.size + 1 - idx) idx

/-- dom.rs:42 `next_idx_values` -/
def nextIdxValues (t : Tape) (idx : Nat) : R Nat :=
  match t[idx]? with
  | none => .error .panic
  | some (.array e _) => .ok (e + 1)
  | some (.object e _) => .ok (e + 1)
  | some _ => .ok (idx + 1)

/-- fuel for the plain index loops: on a well-formed tape every iteration moves forward -/
def loopFuel (t : Tape) : Nat := t.size + 2

/-- `match tokens[key_ind + 1] { Operator(_) => key_ind + 2, _ => key_ind + 1 }` -/
def valueIndOf (tk : TTok) (ti : Nat) : Nat :=
  match tk with
  | .op _ => ti + 2
  | _ => ti + 1

/-- the operator part of the same match (dom.rs:506) -/
def opOf (tk : TTok) : Option Op :=
  match tk with
  | .op o => some o
  | _ => none

/-- dom.rs:50 `fields_len` -/
def fieldsLenF (t : Tape) : Nat → Nat → Nat → R Nat
  | 0, _, _ => .error .hang
  | fuel + 1, ind, e =>
    if ind < e then
      match t[ind]? with
      | none => .error .panic
      | some tok =>
        if tok = .mixed then .ok 0
        else
          match t[ind + 1]? with
          | none => .error .panic
          | some tk =>
            match nextIdx t (valueIndOf tk ind) with
            | .error f => .error f
            | .ok n =>
              match fieldsLenF t fuel n e with
              | .error f => .error f
              | .ok c => .ok (c + 1)
    else .ok 0

def fieldsLen (t : Tape) (s e : Nat) : R Nat := fieldsLenF t (loopFuel t) s e

/-- one `(key, op, value)` item of `FieldsIter`: the key token itself, its index, the
operator and the index of the value token -/
structure FieldE where
  keyTok : TTok
  keyIdx : Nat
  op : Option Op
  valIdx : Nat
  deriving DecidableEq, Repr

/-- the tokens `FieldsIter::next` accepts as a key (dom.rs:485-488) -/
def isKeyTok : TTok → Bool
  | .quoted _ | .unquoted _ | .param _ | .undefParam _ => true
  | _ => false

/-- dom.rs:477 `FieldsIter::next` from state `token_ind = ti`; returns the item and the new
`token_ind`.  A key that is not a scalar hits `debug_assert!(false, "All keys should be
scalars")`, which is active in the verification build (a release build returns `None`). -/
def fieldsNext (t : Tape) (ti e : Nat) : R (Option (FieldE × Nat)) :=
  if ti ≥ e then .ok none
  else
    match t[ti]? with
    | none => .error .panic
    | some tok =>
      if tok = .mixed then .ok none
      else if !isKeyTok tok then .error .panic
      else
        match t[ti + 1]? with
        | none => .error .panic
        | some tk =>
          match nextIdx t (valueIndOf tk ti) with
          | .error f => .error f
          | .ok n => .ok (some (⟨tok, ti, opOf tk, valueIndOf tk ti⟩, n))

/-- all items of `reader.fields()` and the final `token_ind` (what `remainder` looks at) -/
def fieldsAllF (t : Tape) : Nat → Nat → Nat → R (List FieldE × Nat)
  | 0, _, _ => .error .hang
  | fuel + 1, ti, e =>
    match fieldsNext t ti e with
    | .error f => .error f
    | .ok none => .ok ([], ti)
    | .ok (some (fe, ti')) =>
      match fieldsAllF t fuel ti' e with
      | .error f => .error f
      | .ok (fs, last) => .ok (fe :: fs, last)

def fieldsAll (t : Tape) (s e : Nat) : R (List FieldE × Nat) := fieldsAllF t (loopFuel t) s e

/-- dom.rs:445 `FieldsIter::remainder`: start index of the trailing array part -/
def remainderStart (t : Tape) (ti e : Nat) : Nat :=
  match t[ti]? with
  | none => e
  | some .mixed => ti + 1
  | some (.end_ y) =>
    match t[y]? with
    | some (.array _ _) => y + 1
    | _ => ti
  | some _ => ti

/-- all items of `ArrayReader { s, e }.values()`: the value indices, by `next_idx_values`
(dom.rs:867 `ValuesIter::next`) -/
def valuesAllF (t : Tape) : Nat → Nat → Nat → R (List Nat)
  | 0, _, _ => .error .hang
  | fuel + 1, pos, e =>
    if pos < e then
      match nextIdxValues t pos with
      | .error f => .error f
      | .ok n =>
        match valuesAllF t fuel n e with
        | .error f => .error f
        | .ok vs => .ok (pos :: vs)
    else .ok []

def valuesAll (t : Tape) (s e : Nat) : R (List Nat) := valuesAllF t (loopFuel t) s e

/-- the test of json/mod.rs:710-712 on the two values after the current one: `window[1]`
is an operator token (`token()` indexes the tape) and `window[2]` is present -/
def windowDecide (t : Tape) (rest : List Nat) : R (Option (Op × Nat)) :=
  match rest with
  | [] => .ok none
  | opr :: rest1 =>
    match t[opr]? with
    | none => .error .panic
    | some (.op o) =>
      match rest1 with
      | v :: _ => .ok (some (o, v))
      | [] => .ok none
    | some _ => .ok none

/-- dom.rs:757 `read_array`, `Object { mixed: true }` arm: advance with `next_idx` until
the `MixedContainer` token (`tokens.get`, so running off the end is caught by `next_idx`) -/
def findMixedF (t : Tape) : Nat → Nat → R Nat
  | 0, _ => .error .hang
  | fuel + 1, i =>
    match t[i]? with
    | some .mixed => .ok i
    | _ =>
      match nextIdx t i with
      | .error f => .error f
      | .ok n => findMixedF t fuel n

/-- dom.rs:757 `ValueReader::read_array`: `none` = `Err(not an array)` -/
def readArray (t : Tape) (idx : Nat) : R (Option (Nat × Nat)) :=
  match t[idx]? with
  | none => .error .panic
  | some (.object e true) =>
    match findMixedF t (loopFuel t) (idx + 1) with
    | .error f => .error f
    | .ok m => .ok (some (m + 1, e))
  | some (.array e _) => .ok (some (idx + 1, e))
  | some (.object e _) => .ok (some (idx + 1, e))
  | some (.header _) =>
    match nextIdx t (idx + 1) with
    | .error f => .error f
    | .ok n => .ok (some (idx, n))
  | some _ => .ok none

/-! ### grouping (dom.rs:312 `FieldGroupsIter`) -/

/-- first pass of `FieldGroupsIter::new`: the FNV map as an association list keyed by the
raw key bytes; a vacant key gets an EMPTY vector (its first occurrence is not stored), an
occupied one gets the item pushed.  (Hash order is unobservable: only `remove_entry` by
key is used.) -/
def groupInsert : List (Bytes × List FieldE) → FieldE → List (Bytes × List FieldE)
  | [], fe => [(keyBytes fe.keyTok, [])]
  | (k, vs) :: rest, fe =>
    if k = keyBytes fe.keyTok then (k, vs ++ [fe]) :: rest
    else (k, vs) :: groupInsert rest fe

def buildGroups (fs : List FieldE) : List (Bytes × List FieldE) :=
  fs.foldl groupInsert []

/-- `HashMap::remove_entry` -/
def groupRemove : List (Bytes × List FieldE) → Bytes → Option (List FieldE × List (Bytes × List FieldE))
  | [], _ => none
  | (k, vs) :: rest, key =>
    if k = key then some (vs, rest)
    else
      match groupRemove rest key with
      | none => none
      | some (r, rest') => some (r, (k, vs) :: rest')

/-! ### the serializers

The Rust serializers stream: they interleave iterator steps (`fields.next()`, the three-slot
look-ahead window of `InnerSerArray`) with the serialization of the values.  The model
first runs the iterator to completion (`fieldsAll`, `valuesAll`) and then serializes the
values in order.  On a token list where every step succeeds this is the same computation;
on an ill-formed one both fail, but the model may report `panic` where the code would first
loop forever inside an earlier value (or the other way round) — `Fail.panic` vs `Fail.hang`
is only exact up to that reordering.

The list combinators are generic in the value serializer `sv` (= `serValue fuel`, the
serializer for one nesting level further down), so that fuel only counts nesting depth. -/

section Ser
variable (sv : Nat → R JVal) (enc : Enc) (t : Tape)

/-- json/mod.rs:690 `InnerSerArray::serialize` over the value indices: `skip` counts the
values already consumed by a `SingleObject` (the window is refilled with the NEXT three) -/
def windowList : List Nat → Nat → R (List JVal)
  | [], _ => .ok []
  | _ :: rest, skip + 1 => windowList rest skip
  | first :: rest, 0 =>
    match t[first]? with
    | none => .error .panic
    | some .mixed => windowList rest 0
    | some ftok =>
      match windowDecide t rest with
      | .error f => .error f
      | .ok (some (op, v)) =>
        -- SingleObject { key: first, op, value: v }
        match sv v with
        | .error f => .error f
        | .ok jv =>
          let key := match tokStr? enc ftok with | some k => k | none => kInvalidKey
          match windowList rest 2 with
          | .error f => .error f
          | .ok more => .ok (JVal.obj [(key, wrapOp (if op = .eq then none else some op) jv)] :: more)
      | .ok none =>
        match sv first with
        | .error f => .error f
        | .ok jv =>
          match windowList rest 0 with
          | .error f => .error f
          | .ok more => .ok (jv :: more)

/-- the entries `(key text, OperatorValue)` of the Preserve / KeyValuePairs arms, in field order -/
def entriesOf : List FieldE → R (List (Bytes × JVal))
  | [] => .ok []
  | fe :: rest =>
    match sv fe.valIdx with
    | .error f => .error f
    | .ok jv =>
      match entriesOf rest with
      | .error f => .error f
      | .ok es => .ok ((keyJson enc fe.keyTok, wrapOp fe.op jv) :: es)

/-- `Vec<OperatorValue>::serialize` for a `GroupEntry::Multiple` -/
def opValues : List FieldE → R (List JVal)
  | [] => .ok []
  | fe :: rest =>
    match sv fe.valIdx with
    | .error f => .error f
    | .ok jv =>
      match opValues rest with
      | .error f => .error f
      | .ok vs => .ok (wrapOp fe.op jv :: vs)

/-- second pass of the Group arm: `FieldGroupsIter::next` over the field list with the map
of later occurrences -/
def groupEntries : List FieldE → List (Bytes × List FieldE) → R (List (Bytes × JVal))
  | [], _ => .ok []
  | fe :: rest, groups =>
    match groupRemove groups (keyBytes fe.keyTok) with
    | none => groupEntries rest groups
    | some ([], groups') =>
      match sv fe.valIdx with
      | .error f => .error f
      | .ok jv =>
        match groupEntries rest groups' with
        | .error f => .error f
        | .ok es => .ok ((keyJson enc fe.keyTok, wrapOp fe.op jv) :: es)
    | some (m :: more, groups') =>
      match opValues sv (fe :: m :: more) with
      | .error f => .error f
      | .ok vs =>
        match groupEntries rest groups' with
        | .error f => .error f
        | .ok es => .ok ((keyJson enc fe.keyTok, .arr vs) :: es)

/-- `fields.remainder()`, `is_empty()` (dom.rs:71 `values_len` = number of `values()` items)
and the `InnerSerArray` of the trailing array part -/
def remainderJson (last e : Nat) : R (Option JVal) :=
  match valuesAll t (remainderStart t last e) e with
  | .error f => .error f
  | .ok [] => .ok none
  | .ok (v :: vs) =>
    match windowList sv enc t (v :: vs) 0 with
    | .error f => .error f
    | .ok xs => .ok (some (.arr xs))

/-- json/mod.rs:742 `JsonArrayBuilder::serialize` on `ArrayReader { s, e }` -/
def arrayJson (o : Opts) (s e : Nat) : R JVal :=
  match valuesAll t s e with
  | .error f => .error f
  | .ok vals =>
    match windowList sv enc t vals 0 with
    | .error f => .error f
    | .ok xs =>
      if o.dup ≠ .kvp then .ok (.arr xs)
      else .ok (.obj [(kType, .str kArray), (kVal, .arr xs)])

/-- the three shapes of json/mod.rs:566 from the entries and the optional trailer -/
def objectShape (o : Opts) (es : List (Bytes × JVal)) (r : Option JVal) : JVal :=
  match o.dup with
  | .kvp =>
    -- SerTapeTyped: pairs `[key, value]`, the trailer array as a last element
    let pairs := es.map (fun kv => JVal.arr [.str kv.1, kv.2])
    .obj [(kType, .str kObj), (kVal, .arr (match r with | none => pairs | some x => pairs ++ [x]))]
  | _ =>
    .obj (match r with | none => es | some x => es ++ [(kRemainder, x)])

/-- json/mod.rs:566 `JsonObjectBuilder::serialize` on `ObjectReader { s, e }` -/
def objectJson (o : Opts) (s e : Nat) : R JVal :=
  match o.dup with
  | .group =>
    -- FieldGroupsIter::new: fields_len() for the map capacity, then a full pass
    match fieldsLen t s e with
    | .error f => .error f
    | .ok _ =>
      match fieldsAll t s e with
      | .error f => .error f
      | .ok (fs, last) =>
        match groupEntries sv enc fs (buildGroups fs) with
        | .error f => .error f
        | .ok es =>
          match remainderJson sv enc t last e with
          | .error f => .error f
          | .ok r => .ok (objectShape o es r)
  | _ =>
    match fieldsAll t s e with
    | .error f => .error f
    | .ok (fs, last) =>
      match entriesOf sv enc fs with
      | .error f => .error f
      | .ok es =>
        match remainderJson sv enc t last e with
        | .error f => .error f
        | .ok r => .ok (objectShape o es r)

end Ser

/-- json/mod.rs:512 `JsonValueBuilder::serialize` on the token at `idx`; fuel = nesting depth -/
def serValue (o : Opts) (enc : Enc) (t : Tape) : Nat → Nat → R JVal
  | 0, _ => .error .hang
  | fuel + 1, idx =>
    match t[idx]? with
    | none => .error .panic
    | some (.unquoted s) => .ok (narrowScalar o enc false s)
    | some (.quoted s) => .ok (narrowScalar o enc true s)
    | some (.array e _) => arrayJson (serValue o enc t fuel) enc t o (idx + 1) e
    | some (.object e _) => objectJson (serValue o enc t fuel) enc t o (idx + 1) e
    | some (.header s) =>
      -- read_array(): ArrayReader { start: idx, end: next_idx(idx + 1) }
      match nextIdx t (idx + 1) with
      | .error f => .error f
      | .ok e =>
        -- values.next().unwrap() twice (the second computes next_idx_values(idx + 1))
        if idx ≥ e then .error .panic
        else if idx + 1 ≥ e then .error .panic
        else
          match nextIdxValues t (idx + 1) with
          | .error f => .error f
          | .ok _ =>
            match serValue o enc t fuel (idx + 1) with
            | .error f => .error f
            | .ok v => .ok (.obj [(decode enc s, v)])
    | some _ => .ok .null

/-- nesting depth budget: a container spans at least two tokens -/
def fuelOf (t : Tape) : Nat := t.size + 1

/-! ### entry points -/

inductive Entry where
  | obj | arr | val
  deriving DecidableEq, Repr

/-- `Vec::with_capacity(tokens_len() * factor)`: `end - start` with overflow checks -/
def checkedSub (a b : Nat) : R Nat := if a < b then .error .panic else .ok (a - b)

/-- value index of the first top-level field (`reader.fields().next()`) -/
def firstValue (t : Tape) : R (Option Nat) :=
  match fieldsNext t 0 t.size with
  | .error f => .error f
  | .ok none => .ok none
  | .ok (some (fe, _)) => .ok (some fe.valIdx)

/-- dom.rs:808 `ValueReader::tokens_len` -/
def valueTokensLen (t : Tape) (idx : Nat) : R Nat :=
  match t[idx]? with
  | none => .error .panic
  | some (.array e _) | some (.object e _) =>
    match checkedSub e idx with
    | .error f => .error f
    | .ok d => checkedSub d 1
  | some _ => .ok 1

/-- `tape.<enc>_reader().json()`, `value.read_array()?.json()`, `value.json()` with
options, `to_vec()`.  `none` = entry point not applicable (no first field / not an array). -/
def toJson (o : Opts) (enc : Enc) (entry : Entry) (t : Tape) : R (Option JVal) :=
  match entry with
  | .obj =>
    match objectJson (serValue o enc t (fuelOf t)) enc t o 0 t.size with
    | .error f => .error f
    | .ok v => .ok (some v)
  | .val =>
    match firstValue t with
    | .error f => .error f
    | .ok none => .ok none
    | .ok (some idx) =>
      match valueTokensLen t idx with
      | .error f => .error f
      | .ok _ =>
        match serValue o enc t (fuelOf t + 1) idx with
        | .error f => .error f
        | .ok v => .ok (some v)
  | .arr =>
    match firstValue t with
    | .error f => .error f
    | .ok none => .ok none
    | .ok (some idx) =>
      match readArray t idx with
      | .error f => .error f
      | .ok none => .ok none
      | .ok (some (s, e)) =>
        match checkedSub e s with
        | .error f => .error f
        | .ok _ =>
          match arrayJson (serValue o enc t (fuelOf t)) enc t o s e with
          | .error f => .error f
          | .ok v => .ok (some v)

/-! ### rendering (serde_json 1.0 `CompactFormatter` / `PrettyFormatter`) -/

def hexDigitLower (n : Nat) : UInt8 := if n < 10 then UInt8.ofNat (48 + n) else UInt8.ofNat (87 + n)

/-- serde_json `format_escaped_str_contents`: `"` `\` and the control bytes -/
def escapeByte (b : UInt8) : Bytes :=
  if b.toNat == 34 then [92, 34]
  else if b.toNat == 92 then [92, 92]
  else if b.toNat == 8 then [92, 98]
  else if b.toNat == 9 then [92, 116]
  else if b.toNat == 10 then [92, 110]
  else if b.toNat == 12 then [92, 102]
  else if b.toNat == 13 then [92, 114]
  else if b.toNat < 32 then [92, 117, 48, 48, hexDigitLower (b.toNat / 16), hexDigitLower (b.toNat % 16)]
  else [b]

def renderStr (s : Bytes) : Bytes := [34] ++ s.flatMap escapeByte ++ [34]

/-- decimal digits of a natural number, most significant first (`itoa`) -/
def natDigitsF : Nat → Nat → Bytes → Bytes
  | 0, _, acc => acc
  | fuel + 1, n, acc =>
    if n < 10 then UInt8.ofNat (48 + n) :: acc
    else natDigitsF fuel (n / 10) (UInt8.ofNat (48 + n % 10) :: acc)

def natDigits (n : Nat) : Bytes := natDigitsF (n + 1) n []

def intDigits : Int → Bytes
  | .ofNat n => natDigits n
  | .negSucc n => 45 :: natDigits (n + 1)

def kNull : Bytes := [110, 117, 108, 108]
def kTrue : Bytes := [116, 114, 117, 101]
def kFalse : Bytes := [102, 97, 108, 115, 101]

section Render
-- the float printer (ryu in the real code; not modelled)
variable (ff : Nat → Bytes)

mutual
def renderCompact : JVal → Bytes
  | .null => kNull
  | .bool true => kTrue
  | .bool false => kFalse
  | .int i => intDigits i
  | .float b => ff b
  | .str s => renderStr s
  | .arr xs => [91] ++ renderCompactArr xs ++ [93]
  | .obj kvs => [123] ++ renderCompactObj kvs ++ [125]
def renderCompactArr : List JVal → Bytes
  | [] => []
  | [x] => renderCompact x
  | x :: y :: rest => renderCompact x ++ [44] ++ renderCompactArr (y :: rest)
def renderCompactObj : List (Bytes × JVal) → Bytes
  | [] => []
  | [(k, v)] => renderStr k ++ [58] ++ renderCompact v
  | (k, v) :: kv :: rest => renderStr k ++ [58] ++ renderCompact v ++ [44] ++ renderCompactObj (kv :: rest)
end

def indentBytes (n : Nat) : Bytes := List.replicate (2 * n) 32

mutual
/-- `PrettyFormatter` with indent `"  "`; `ind` = `current_indent` -/
def renderPrettyAt : JVal → Nat → Bytes
  | .null, _ => kNull
  | .bool true, _ => kTrue
  | .bool false, _ => kFalse
  | .int i, _ => intDigits i
  | .float b, _ => ff b
  | .str s, _ => renderStr s
  | .arr [], _ => [91, 93]
  | .arr (x :: xs), ind => [91] ++ renderPrettyArr (x :: xs) (ind + 1) ++ [10] ++ indentBytes ind ++ [93]
  | .obj [], _ => [123, 125]
  | .obj (kv :: kvs), ind => [123] ++ renderPrettyObj (kv :: kvs) (ind + 1) ++ [10] ++ indentBytes ind ++ [125]
/-- elements, each preceded by `\n` / `,\n` and the indent -/
def renderPrettyArr : List JVal → Nat → Bytes
  | [], _ => []
  | [x], ind => [10] ++ indentBytes ind ++ renderPrettyAt x ind
  | x :: y :: rest, ind => [10] ++ indentBytes ind ++ renderPrettyAt x ind ++ [44] ++ renderPrettyArr (y :: rest) ind
def renderPrettyObj : List (Bytes × JVal) → Nat → Bytes
  | [], _ => []
  | [(k, v)], ind => [10] ++ indentBytes ind ++ renderStr k ++ [58, 32] ++ renderPrettyAt v ind
  | (k, v) :: kv :: rest, ind =>
    [10] ++ indentBytes ind ++ renderStr k ++ [58, 32] ++ renderPrettyAt v ind ++ [44] ++ renderPrettyObj (kv :: rest) ind
end

def renderPretty (v : JVal) : Bytes := renderPrettyAt ff v 0

def render (o : Opts) (v : JVal) : Bytes := if o.pretty then renderPretty ff v else renderCompact ff v

end Render

end Jomini.Json
